(* Props/C07Sched.v — the TIMING half of property C07: "in five-stage mode with hazard detection, the
   cycle in which each instruction retires, and hence the total cycle count, equals that of the
   documented pipeline".  Only statements; every proof is [exact <lemma>].

   Scope (as in Props/C02Refine.v): hazard detection ON, flat data memory, no instruction cache (so
   one [pipe_step] = one cycle); the initial state is [wf], the pipeline starts empty
   ([pipe_init s true]); programs consist of [supported] instructions; the single-cycle run from the
   same state terminates without a fault ([single_run n s = (s', Done)]).

   Vocabulary (Proofs/SchedDefs.v, definitions only, validated there on closed programs):
     event             one dynamic instruction as the documented schedule sees it: address, the
                       non-x0 source registers decode reads, destination (None = none or x0),
                       redirect (taken branch / jal / jalr / exiting ecall), ecall
     single_events n s the events of the single-cycle run (harness/sched.py, single_dynamic_trace)
     schedule evs      the write-back cycle W_k of every dynamic instruction by the documented
                       recurrence (harness/sched.py, schedule — transcribed literally, with the
                       rows D_j, X_j of ALL earlier instructions kept and searched):
                         d0 = 2 | M_(k-1)+2 if redirect_(k-1) | D_(k-1)+1;  d1 = max d0 X_(k-1)
                         D_k = d1 + 2 if some j<k has dst_j in srcs_k and (X_j = d1 or M_j = d1)
                         x0 = D_k + 1;  X_k = x0 + 2 if ecall_k and some j<k has M_j = x0 or W_j = x0
                         M_k = X_k + 1;  W_k = X_k + 2
     pipe_retire c p   (address in latch 4, 1-based step index) for every step of [pipe_run c p]
                       after which latch 4 (the WB output) is occupied
     total_cycles ws   the last element of ws (0 for the empty list)

   HOW (Proofs/Sched*.v, in dependency order SchedDefs, SchedRec, SchedStep, SchedInv, SchedLink,
   SchedMain, SchedCor): (1) SchedRec: the recurrence only ever looks at the two preceding
   instructions and reduces to a recurrence in the execute cycles alone ([xsched], below
   [schedule_window]).  (2) SchedStep: from a state in the simulation invariant [InvAt] of
   Proofs/PipeInv.v one cycle has one of seven shapes (redirect from MEM; ecall fires and exits;
   ordinary shift with the new stall register given by the ecall-busy and decode-hazard flags;
   interlock countdown; drain wait; drain fire; drain fire and exit).  (3) SchedInv: a timing
   invariant T between the view (occupancy of latches 0-3, stall register, number of retired
   instructions k, number of steps t) and X: the slot in latch 3 has X = t-1, a fired slot in latch
   2 has X = t, a stalled ecall X = t + countdown, the slot in latch 1 has X = t + 1 + countdown
   (+2 if it is an ecall that will find MEM/WB busy), a slot in latch 0 behind bubbles X = t + 2, the
   next instruction to fetch after a redirect X = t + 3; T is preserved by each of the seven shapes
   (the recurrence is used exactly when a slot moves from latch 0 to latch 1 behind a predecessor).
   (4) SchedLink/SchedMain: [InvAt] + T along the run ([inv_step] of Props/C02Refine.v gives the
   invariant of the next state), every retirement happens at step X_k + 2. *)
From ArchSim Require Import Model.Base Model.Mem Model.Cache Model.Fmt Model.RV Model.Single
  Model.RVSplit Model.Pipe Proofs.C01Step Proofs.SplitExec Proofs.PipeLaws Proofs.PipeShape
  Proofs.PipeInv Proofs.PipeInvStraight Proofs.SchedDefs Proofs.SchedRec Proofs.SchedStep
  Proofs.SchedInv Proofs.SchedLink Proofs.SchedMain Proofs.SchedCor.
Open Scope Z_scope.

(** ** The theorem: retire cycles and total cycle count are those of the documented schedule.
    The pipeline run ends [PDone] after exactly c steps, c = the last write-back cycle of the
    schedule (0 when nothing is executed); after these steps the cycle counter has advanced by c;
    the k-th retirement is the k-th instruction of the single-cycle run and happens at step W_k. *)
Theorem pipe_schedule : forall P s n s',
  Forall (fun i => supported i = true) P -> wf s -> prog (im s) = P ->
  single_run n s = (s', Done) ->
  exists c p,
    pipe_run c (pipe_init s true) = (p, PDone) /\
    pipe_retire c (pipe_init s true) = combine (single_trace n s) (schedule (single_events n s)) /\
    c = total_cycles (schedule (single_events n s)) /\
    cycles (pst p) = cycles s + Z.of_nat c.
Proof. exact pipe_schedule_lem. Qed.
Print Assumptions pipe_schedule.

(** ** The recurrence as gaps between consecutive instructions.
    [xsched] (Proofs/SchedDefs.v) carries the execute cycle and event of the two preceding
    instructions only: X_0 = 3; X_k = X_(k-1) + 4 after a redirecting instruction; otherwise
    X_(k-1) + 3 if k reads the destination of k-1, or of k-2 when X_(k-2) + 1 = X_(k-1), or if k is
    an ecall; otherwise X_(k-1) + 1.  Hence: one instruction per cycle; each RAW dependency at
    distance 1, or at distance 2 between back-to-back instructions, costs exactly 2 cycles; each
    taken control transfer costs exactly 3 cycles; an ecall behind a non-redirecting instruction
    waits 2 cycles. *)
Theorem schedule_window : forall evs, schedule evs = map (fun x => (x + 2)%nat) (xsched evs).
Proof. exact schedule_xsched. Qed.
Print Assumptions schedule_window.

(* the same law read on the write-back cycles themselves: W_0 = 5, and W_(j+1) - W_j is
   4 behind a redirecting instruction (one cycle plus the 3 of the control transfer),
   3 behind an interlock (RAW on the predecessor, or on the one before when the two retired in
   consecutive cycles) or for an ecall (drain), 1 otherwise *)
Theorem schedule_first : forall evs, (0 < length evs)%nat -> nth 0 (schedule evs) 0%nat = 5%nat.
Proof. exact schedule_first_lem0. Qed.
Print Assumptions schedule_first.

Theorem schedule_gap : forall evs d j, (S j < length evs)%nat ->
  let e := fun k => nth k evs d in
  let W := fun k => nth k (schedule evs) 0%nat in
  W (S j) = (W j +
    (if ev_redirect (e j) then 4
     else if dst_in (e j) (e (S j)) ||
             match j with O => false | S h => dst_in (e h) (e (S j)) && (W h + 1 =? W j)%nat end then 3
     else if ev_ecall (e (S j)) then 3 else 1))%nat.
Proof. exact schedule_gap_lem. Qed.
Print Assumptions schedule_gap.

(** ** Closed form of the cycle count: n + 4 + 3 * (redirecting instructions that are followed by
    another instruction) + 2 * (interlock and drain stalls), both counted along the event list by
    [redirects_paid] / [stalls_paid] (Proofs/SchedCor.v: [redb], [stallb], [pen]). *)
Theorem schedule_total : forall evs, evs <> [] ->
  total_cycles (schedule evs) =
  (length evs + 4 + 3 * redirects_paid evs + 2 * stalls_paid evs)%nat.
Proof. exact total_cycles_formula. Qed.
Print Assumptions schedule_total.

Theorem pipe_cycle_count : forall P s n s',
  Forall (fun i => supported i = true) P -> wf s -> prog (im s) = P ->
  single_run n s = (s', Done) -> single_events n s <> [] ->
  let evs := single_events n s in
  let c := (length evs + 4 + 3 * redirects_paid evs + 2 * stalls_paid evs)%nat in
  exists p, pipe_run c (pipe_init s true) = (p, PDone) /\ cycles (pst p) = cycles s + Z.of_nat c.
Proof. exact pipe_cycle_count_lem. Qed.
Print Assumptions pipe_cycle_count.

(** ** Straight-line programs (R/I/shift-immediate, lui, auipc, loads, stores — [straight],
    Proofs/PipeInvStraight.v), started at pc = 0 and running to the end of the program without a
    faulting access.  The decode interlocks can be read off the program text
    ([stb], [interlocks_upto], [interlocks] in Proofs/SchedCor.v): instruction j waits iff it reads
    the destination of instruction j-1, or of instruction j-2 when j-1 did not itself wait.
    Then: exactly n + 4 + 2 * interlocks cycles, instruction j retiring at cycle
    j + 5 + 2 * (interlocks up to j) — each RAW dependency at distance 1 or 2 costs exactly 2. *)
Theorem straightline_cycles : forall P s n s',
  Forall (fun i => straight i = true) P -> wf s -> prog (im s) = P -> pc s = 0 -> exitc s = None ->
  P <> [] -> single_run n s = (s', Done) ->
  let c := (length P + 4 + 2 * interlocks P)%nat in
  exists p, pipe_run c (pipe_init s true) = (p, PDone) /\
    cycles (pst p) = cycles s + Z.of_nat c /\
    pipe_retire c (pipe_init s true) =
    map (fun j => (4 * Z.of_nat j, (j + 5 + 2 * interlocks_upto P j)%nat)) (seq 0 (length P)).
Proof. exact straight_cycles_lem. Qed.
Print Assumptions straightline_cycles.

(* "A straight-line program of n mutually independent instructions takes exactly n+4 cycles":
   it suffices that no instruction reads a register written by one of its TWO predecessors
   ([no_near_raw]; dependencies at distance 3 or more are free, destinations may repeat).  This
   extends [straightline_n_plus_4_partial] of Props/C07.v from ALU-only programs to loads, stores,
   lui and auipc (for the flat-memory, hazard-detecting configuration). *)
Theorem straightline_n_plus_4 : forall P s n s',
  Forall (fun i => straight i = true) P -> no_near_raw P ->
  wf s -> prog (im s) = P -> pc s = 0 -> exitc s = None -> P <> [] -> single_run n s = (s', Done) ->
  exists p, pipe_run (length P + 4) (pipe_init s true) = (p, PDone) /\
    cycles (pst p) = cycles s + Z.of_nat (length P) + 4 /\
    pipe_retire (length P + 4) (pipe_init s true) =
    map (fun j => (4 * Z.of_nat j, (j + 5)%nat)) (seq 0 (length P)).
Proof. exact straight_n_plus_4_lem. Qed.
Print Assumptions straightline_n_plus_4.

(** ** Non-vacuity: closed programs satisfying the hypotheses (flat memory at [], registers zero) *)
(* [demo_hyps P n] (Proofs/SchedCor.v): P consists of supported instructions, [init_st P (MFlat []) None]
   is [wf], and its single-cycle run ends [Done] within n steps *)
(* the program of Props/C02Refine.v: hazards, store / load, a taken branch, jal, a printing ecall
   that drains and an exiting ecall: 12 instructions retire, 30 cycles = 12 + 4 + 3*2 + 2*4 *)
Definition sched_example : list instr :=
  [ II ADDI 10 0 5; II ADDI 17 0 1; IEcall; IBranch BEQ 0 0 8; II ADDI 1 0 1;
    ILui 6 16; IR ADD 2 10 10; IStore SW 6 2 4; ILoad LW 3 6 4; IR ADD 4 3 3;
    IJal 5 8 0; II ADDI 1 0 7; II ADDI 17 0 10; IEcall; II ADDI 1 0 9 ].
Example sched_example_hyps : demo_hyps sched_example 50.
Proof. apply demo_hyps_intro; [repeat constructor; cbv; intuition discriminate|reflexivity|reflexivity|vm_compute; reflexivity]. Qed.
Example sched_example_runs :
  let s := init_st sched_example (MFlat []) None in
  let evs := single_events 50 s in
  pipe_retire 30 (pipe_init s true) = combine (single_trace 50 s) (schedule evs) /\
  combine (single_trace 50 s) (schedule evs) =
    zn [(0, 5); (4, 6); (8, 9); (12, 10); (20, 14); (24, 15); (28, 18); (32, 19); (36, 22); (40, 23);
        (48, 27); (52, 30)] /\
  snd (pipe_run 30 (pipe_init s true)) = PDone /\ snd (pipe_run 29 (pipe_init s true)) = POutOfFuel /\
  cycles (pst (fst (pipe_run 30 (pipe_init s true)))) = 30 /\
  (length evs, redirects_paid evs, stalls_paid evs) = (12, 2, 4)%nat.
Proof. vm_compute. repeat split. Qed.

(* eleven straight-line instructions with a store, a load, lui, auipc and dependencies at
   distance 3 and 4 only: 11 + 4 cycles *)
Definition sl_example : list instr :=
  [ ILui 6 16; II ADDI 1 0 5; II ADDI 2 0 7; II ADDI 5 0 9; IStore SW 6 1 0; II ADDI 7 0 1;
    II ADDI 8 0 1; ILoad LW 3 6 0; IAuipc 9 0; II ADDI 10 0 0; IR ADD 4 3 1 ].
Example sl_example_hyps :
  demo_hyps sl_example 50 /\ Forall (fun i => straight i = true) sl_example /\ no_near_raw sl_example.
Proof.
  split; [apply demo_hyps_intro; [repeat constructor; cbv; intuition discriminate|reflexivity|reflexivity|vm_compute; reflexivity]|].
  split; [repeat constructor|apply no_near_raw_check; vm_compute; reflexivity].
Qed.
Example sl_example_runs :
  let r := pipe_run 15 (pipe_init (init_st sl_example (MFlat []) None) true) in
  snd r = PDone /\ cycles (pst (fst r)) = 15 /\ mget (regs (pst (fst r))) 4 = 10 /\
  snd (pipe_run 14 (pipe_init (init_st sl_example (MFlat []) None) true)) = POutOfFuel.
Proof. vm_compute. repeat split. Qed.

(* interlocks: distance 1 (x1), distance 2 behind a waiting instruction (free), distance 2
   (x3), load-use at distance 1 (x7): 3 interlocks, 10 + 4 + 2*3 cycles *)
Definition raw_example : list instr :=
  [ II ADDI 1 0 1; II ADDI 2 1 1; II ADDI 3 1 1; II ADDI 5 0 0; II ADDI 4 3 0; ILui 6 16;
    II ADDI 8 0 0; II ADDI 9 0 0; ILoad LW 7 6 0; IR ADD 10 0 7 ].
Example raw_example_hyps :
  demo_hyps raw_example 50 /\ Forall (fun i => straight i = true) raw_example /\
  map (stb raw_example) (seq 0 10) = [false; true; false; false; true; false; false; false; false; true] /\
  interlocks raw_example = 3%nat.
Proof.
  split; [apply demo_hyps_intro; [repeat constructor; cbv; intuition discriminate|reflexivity|reflexivity|vm_compute; reflexivity]|].
  split; [repeat constructor|]. split; vm_compute; reflexivity.
Qed.
Example raw_example_runs :
  let p0 := pipe_init (init_st raw_example (MFlat []) None) true in
  snd (pipe_run 20 p0) = PDone /\ cycles (pst (fst (pipe_run 20 p0))) = 20 /\
  pipe_retire 20 p0 = zn [(0, 5); (4, 8); (8, 9); (12, 10); (16, 13); (20, 14); (24, 15); (28, 16);
                          (32, 17); (36, 20)].
Proof. vm_compute. repeat split. Qed.
