(* Props/C11Accounting.v — property C11, program-level accounting: "The instruction-cache access
   counter equals the number of fetches performed (exactly one per executed instruction in
   single-cycle mode), its hit counter equals that of a reference cache fed the same fetch
   addresses, and every miss adds the configured penalty to the cycle counter."
   Only statements; proofs in Proofs/AcctICache.v, Proofs/AcctTop.v.  Nothing here needs an
   invariant: the statements hold for EVERY state, program, memory configuration and fuel, also
   when the run ends in a fault (the faulting step has fetched and has counted its instruction).

   Vocabulary: [iacc]/[ihit]/[ipen], [dacc]/[dhit]/[dpen] (Proofs/PipeLaws.v, as in Props/C07.v);
   [single_run_steps n s] / [pipe_run_steps f p]: number of steps the run performs;
   [single_fetches n s]: the pcs of those steps; [pfetches p]: the IF stage fetches in this cycle
   (not stalled and an instruction exists at pc); [pipe_fetches f p] / [pipe_fetch_addrs f p]:
   number / addresses of the fetching cycles of the run; [im_after], [im_counters], [im_run],
   [ref_fetch_run], [iref_of] (Spec/RefCache.v): as in Props/C11.v. *)
From ArchSim Require Import Spec.RefCache.
From ArchSim Require Import Model.Base Model.Mem Model.Cache Model.Fmt Model.RV Model.Single
  Model.RVSplit Model.Pipe
  Proofs.PipeLaws Proofs.LiftSingle Proofs.AcctICache Proofs.AcctTop.
Open Scope Z_scope.

(** ** 0. Vocabulary *)
Theorem single_run_steps_meaning : forall k s,
  single_run_steps 0 s = 0%nat /\
  single_run_steps (S k) s =
    if single_done s then 0%nat
    else match single_pipeline_step s with (_, Some _) => 1%nat | (s', None) => S (single_run_steps k s') end.
Proof. exact single_run_steps_eq. Qed.
Print Assumptions single_run_steps_meaning.

Theorem single_fetches_meaning : forall k s,
  single_fetches 0 s = [] /\
  single_fetches (S k) s =
    if single_done s then []
    else pc s :: match single_pipeline_step s with (_, Some _) => [] | (s', None) => single_fetches k s' end.
Proof. exact single_fetches_eq. Qed.
Print Assumptions single_fetches_meaning.

Theorem pfetches_meaning : forall p,
  pfetches p = match stalled p with Some _ => false | None => has_instr (im (pst p)) (pc (pst p)) end.
Proof. exact pfetches_eq. Qed.
Print Assumptions pfetches_meaning.

Theorem pipe_fetches_meaning : forall k p,
  pipe_fetches 0 p = 0%nat /\
  pipe_fetches (S k) p =
    if pipe_done p then 0%nat
    else ((if pfetches p then 1 else 0) +
          match pipe_step p with (_, Some _) => 0 | (p', None) => pipe_fetches k p' end)%nat.
Proof. exact pipe_fetches_eq. Qed.
Print Assumptions pipe_fetches_meaning.

Theorem pipe_fetch_addrs_meaning : forall k p,
  pipe_fetch_addrs 0 p = [] /\
  pipe_fetch_addrs (S k) p =
    if pipe_done p then []
    else (if pfetches p then [pc (pst p)] else []) ++
         match pipe_step p with (_, Some _) => [] | (p', None) => pipe_fetch_addrs k p' end.
Proof. exact pipe_fetch_addrs_eq. Qed.
Print Assumptions pipe_fetch_addrs_meaning.

(** ** 1. Single-cycle mode: one fetch per executed instruction *)
Theorem icache_accesses_single : forall n s c, icc (im s) = Some c ->
  let s' := fst (single_run n s) in
  iacc s' - iacc s = icount s' - icount s /\ icount s' - icount s = Z.of_nat (single_run_steps n s).
Proof. exact icache_single_lem. Qed.
Print Assumptions icache_accesses_single.

(* one step: exactly one fetch and one retirement, fault or not *)
Theorem icache_step_single : forall s, single_done s = false ->
  let s1 := fst (single_pipeline_step s) in
  iacc s1 = iacc s + ic1 s /\ ic1 s1 = ic1 s /\ icount s1 = icount s + 1.
Proof. exact single_step_iacc. Qed.
Print Assumptions icache_step_single.

(** ** 2. Five-stage mode: one fetch per non-stalled cycle with an instruction at pc *)
Theorem icache_accesses_pipe : forall f p c, icc (im (pst p)) = Some c ->
  iacc (pst (fst (pipe_run f p))) = iacc (pst p) + Z.of_nat (pipe_fetches f p).
Proof. exact icache_pipe_lem. Qed.
Print Assumptions icache_accesses_pipe.

Theorem icache_step_pipe : forall p,
  let s' := pst (fst (pipe_step p)) in
  iacc s' = iacc (pst p) + (if pfetches p then ic1 (pst p) else 0) /\ ic1 s' = ic1 (pst p).
Proof. exact pipe_step_iacc. Qed.
Print Assumptions icache_step_pipe.

(** ** 3. The counters are those of the reference cache fed the fetch addresses of the run *)
Theorem icache_reference_single : forall n s c, icc (im s) = Some c ->
  let g := cfg (ic c) in 0 <= ibits g -> 0 <= bbits g ->
  let addrs := single_fetches n s in
  im (fst (single_run n s)) = im_after (im s) addrs /\ length addrs = single_run_steps n s /\
  im_counters (im s) addrs = map fst (ref_fetch_run g (ipenalty c) (iref_of c) addrs) /\
  map snd (im_run (im s) addrs) = map snd (ref_fetch_run g (ipenalty c) (iref_of c) addrs).
Proof. exact icache_single_ref_lem. Qed.
Print Assumptions icache_reference_single.

Theorem icache_reference_pipe : forall f p c, icc (im (pst p)) = Some c ->
  let g := cfg (ic c) in 0 <= ibits g -> 0 <= bbits g ->
  let addrs := pipe_fetch_addrs f p in
  im (pst (fst (pipe_run f p))) = im_after (im (pst p)) addrs /\ length addrs = pipe_fetches f p /\
  im_counters (im (pst p)) addrs = map fst (ref_fetch_run g (ipenalty c) (iref_of c) addrs) /\
  map snd (im_run (im (pst p)) addrs) = map snd (ref_fetch_run g (ipenalty c) (iref_of c) addrs).
Proof. exact icache_pipe_ref_lem. Qed.
Print Assumptions icache_reference_pipe.

(** ** 4. Whole runs: cycles = steps + ipen * instruction-cache misses + dpen * data-cache misses
       (misses = accesses - hits; [cycle_law] of Props/C07.v summed over the run) *)
Theorem run_cycles_single : forall n s,
  let s' := fst (single_run n s) in
  cycles s' = cycles s + Z.of_nat (single_run_steps n s)
              + ipen s * ((iacc s' - iacc s) - (ihit s' - ihit s))
              + dpen s * ((dacc s' - dacc s) - (dhit s' - dhit s)).
Proof. exact single_run_cycles_lem. Qed.
Print Assumptions run_cycles_single.

Theorem run_cycles_pipe : forall f p,
  let s := pst p in let s' := pst (fst (pipe_run f p)) in
  cycles s' = cycles s + Z.of_nat (pipe_run_steps f p)
              + ipen s * ((iacc s' - iacc s) - (ihit s' - ihit s))
              + dpen s * ((dacc s' - dacc s) - (dhit s' - dhit s)).
Proof. exact pipe_run_cycles_lem. Qed.
Print Assumptions run_cycles_pipe.

(** ** Non-vacuity: the loop of Props/C11Programs.v (15 executed instructions, direct-mapped
    instruction cache with conflicting blocks, penalty 5) over a 2-way data cache with penalty 10 *)
Definition acc_ig : ccfg := {| ibits := 1; bbits := 1; assoc := 1; plru := false |}.
Definition acc_dg : ccfg := {| ibits := 0; bbits := 0; assoc := 2; plru := false |}.
Definition acc_prog : list instr :=
  [ ILui 6 4; II ADDI 1 0 3; IStore SW 6 1 0; II ADDI 1 1 (-1); ILoad LW 3 6 0; IBranch BNE 1 0 (-12);
    II ADDI 17 0 10; IEcall ].
Definition acc_st : st := init_st acc_prog (MCache (dcache_init acc_dg false 10)) (mk_icache (Some (acc_ig, 5))).

Example acc_single :
  let s' := fst (single_run 50 acc_st) in
  snd (single_run 50 acc_st) = Done /\ icount s' = 16 /\ iacc s' = 16 /\ single_run_steps 50 acc_st = 16%nat /\
  (0 < ihit s' < 16) /\ dacc s' = 6 /\ dhit s' = 5 /\
  cycles s' = 16 + 5 * (iacc s' - ihit s') + 10 * (dacc s' - dhit s').
Proof. vm_compute. repeat split; discriminate. Qed.

Example acc_pipe :
  let p' := fst (pipe_run 200 (pipe_init acc_st true)) in
  snd (pipe_run 200 (pipe_init acc_st true)) = PDone /\ icount (pst p') = 16 /\
  iacc (pst p') = Z.of_nat (pipe_fetches 200 (pipe_init acc_st true)) /\ (16 < iacc (pst p')) /\
  dacc (pst p') = 6 /\ dhit (pst p') = 5 /\
  cycles (pst p') = Z.of_nat (pipe_run_steps 200 (pipe_init acc_st true))
                    + 5 * (iacc (pst p') - ihit (pst p')) + 10 * (dacc (pst p') - dhit (pst p')).
Proof. vm_compute. repeat split; discriminate. Qed.
