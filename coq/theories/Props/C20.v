(* Props/C20.v — property C20: executing TOY instructions as whole steps (step), as explicit
   first-half / second-half cycle calls, or as single-cycle steps yields identical state,
   counters, memory-table markers and visualisation values at every instruction boundary;
   a half cycle called out of order, or a whole step in the middle of an instruction, raises a
   sequencing error and leaves the state unchanged; all are no-ops once the program is done.
   Only statements; every proof is [exact <lemma>] into Proofs/C20Proofs.v.

   The statements hold for ALL model states (no invariant).  [tstate] is the whole simulation
   record: registers, memory, instruction register, current/next instruction addresses (the
   memory-table markers), visualisation values, the three counters, next_cycle, has_started —
   so equality of states is equality of everything observable.
   Call language (Proofs/C20Proofs.v): [topn] = OStep | OFirst | OSecond | OSingle (named topn
   because [top] is the opcode field of Toy.tinstr), [apply_top], [run_ops] (None as soon as a
   call raises, i.e. the outcome is not TNone), [completed ops s] = number of calls in the
   sequence that executed a second half on a not-done state. *)
From ArchSim Require Import Model.Base Model.Mem Model.Toy Proofs.C06Proofs Proofs.C20Proofs.
Open Scope Z_scope.

(* step() is first_cycle_step() then second_cycle_step(), errors included *)
Theorem step_eq_halves : forall s, t_nextcycle s = 1 ->
  toy_step s = (let (s1, o1) := first_half s in
                match o1 with TNone => second_half s1 | _ => (s1, o1) end).
Proof. exact step_eq_halves_lemma. Qed.
Print Assumptions step_eq_halves.

Theorem step_eq_halves_ok : forall s s1 s2, t_nextcycle s = 1 ->
  first_half s = (s1, TNone) -> second_half s1 = (s2, TNone) -> toy_step s = (s2, TNone).
Proof. exact step_of_halves. Qed.
Print Assumptions step_eq_halves_ok.

(* two single_step()s from a boundary are one step(): same final state, same outcome (errors
   included), for done and not-done states alike *)
Theorem single_single_eq_step : forall s, t_nextcycle s = 1 ->
  toy_step s = (let (s1, o1) := toy_single s in
                match o1 with TNone => toy_single s1 | _ => (s1, o1) end).
Proof. exact single_single_lemma. Qed.
Print Assumptions single_single_eq_step.

Theorem single_single_eq_step_ok : forall s s2, t_nextcycle s = 1 ->
  (toy_step s = (s2, TNone) <->
   exists s1, toy_single s = (s1, TNone) /\ toy_single s1 = (s2, TNone)).
Proof. exact single_single_ok. Qed.
Print Assumptions single_single_eq_step_ok.

(* any error-free call sequence from a boundary: at a boundary the state IS k whole steps, in
   the middle of an instruction it IS k whole steps and a first half, k = completed instructions *)
Theorem boundary_states_equal : forall ops s sf, t_nextcycle s = 1 -> run_ops ops s = Some sf ->
  (t_nextcycle sf = 1 \/ t_nextcycle sf = 2) /\
  (t_nextcycle sf = 1 -> sf = toy_steps (completed ops s) s) /\
  (t_nextcycle sf = 2 -> sf = fst (first_half (toy_steps (completed ops s) s))).
Proof. exact boundary_states_lemma. Qed.
Print Assumptions boundary_states_equal.

(* corollary: two legal interleavings completing the same number of instructions and stopping in
   the same phase (in particular: both at a boundary) end in equal states *)
Theorem interleavings_agree : forall ops1 ops2 s s1 s2, t_nextcycle s = 1 ->
  run_ops ops1 s = Some s1 -> run_ops ops2 s = Some s2 ->
  completed ops1 s = completed ops2 s -> t_nextcycle s1 = t_nextcycle s2 -> s1 = s2.
Proof. exact interleavings_agree_lemma. Qed.
Print Assumptions interleavings_agree.

(* spelled out for the observations the property names *)
Theorem observations_agree : forall ops1 ops2 s s1 s2, t_nextcycle s = 1 ->
  run_ops ops1 s = Some s1 -> run_ops ops2 s = Some s2 ->
  completed ops1 s = completed ops2 s -> t_nextcycle s1 = t_nextcycle s2 ->
  toy_memory_table s1 = toy_memory_table s2 /\ toy_register_reprs s1 = toy_register_reprs s2 /\
  t_vis s1 = t_vis s2 /\ t_cur s1 = t_cur s2 /\ t_next s1 = t_next s2 /\
  t_icount s1 = t_icount s2 /\ t_cycles s1 = t_cycles s2 /\ t_bcount s1 = t_bcount s2 /\
  t_started s1 = t_started s2.
Proof. exact observations_agree_lemma. Qed.
Print Assumptions observations_agree.

(* out-of-order calls raise StepSequenceError and leave the state unchanged *)
Theorem illegal_order_rejected_unchanged : forall s, toy_done s = false ->
  (t_nextcycle s = 2 -> first_half s = (s, TSeqErr) /\ toy_step s = (s, TSeqErr)) /\
  (t_nextcycle s = 1 -> second_half s = (s, TSeqErr)).
Proof. exact illegal_order_12. Qed.
Print Assumptions illegal_order_rejected_unchanged.

(* the same for any value of next_cycle; step() checks the sequence BEFORE the done check, so it
   raises in the middle of an instruction whether or not the program is done *)
Theorem illegal_order_general : forall s,
  (toy_done s = false -> t_nextcycle s <> 1 -> first_half s = (s, TSeqErr)) /\
  (toy_done s = false -> t_nextcycle s <> 2 -> second_half s = (s, TSeqErr)) /\
  (t_nextcycle s <> 1 -> toy_step s = (s, TSeqErr)).
Proof. exact illegal_order_lemma. Qed.
Print Assumptions illegal_order_general.

Theorem step_mid_instruction_raises : forall s, t_nextcycle s = 2 -> toy_step s = (s, TSeqErr).
Proof. exact step_mid_instruction. Qed.
Print Assumptions step_mid_instruction_raises.

(* once done, every call is a no-op *)
Theorem noop_when_done : forall s, toy_done s = true ->
  first_half s = (s, TNone) /\ second_half s = (s, TNone) /\ toy_single s = (s, TNone) /\
  (t_nextcycle s = 1 -> toy_step s = (s, TNone)).
Proof. exact noop_when_done_lemma. Qed.
Print Assumptions noop_when_done.

(** Non-vacuity: image 0: LDA 0x010, 1: INC, 2: STO 0x011, data word 41 at 0x010, in the state
    load_program leaves *)
Definition img3 : tstate :=
  {| t_pc := 1; t_accu := 0; t_mem := [(16, 41); (0, 4112); (1, 36864); (2, 17)]; t_size := 4096;
     t_loaded := Some (toy_decode 4112); t_maxpc := Some 2;
     t_cur := None; t_next := 0;
     t_vis := {| v_accu_old := None; v_alu_out := None; v_jump := false; v_ram_out := Some 4112;
                 v_op_old := None; v_pc_old := Some 0 |};
     t_icount := 0; t_cycles := 0; t_bcount := 0; t_nextcycle := 1; t_started := false |}.

Definition img3_final : tstate := toy_steps 3 img3.

(* five interleavings, three instructions each, one final state; it is done, 42 was stored *)
Example interleavings_example :
  run_ops [OStep; OStep; OStep] img3 = Some img3_final /\
  run_ops [OFirst; OSecond; OFirst; OSecond; OFirst; OSecond] img3 = Some img3_final /\
  run_ops [OSingle; OSingle; OSingle; OSingle; OSingle; OSingle] img3 = Some img3_final /\
  run_ops [OFirst; OSingle; OStep; OSingle; OSecond] img3 = Some img3_final /\
  run_ops [OSingle; OSecond; OStep; OFirst; OSingle; OStep; OSingle; OFirst; OSecond] img3
    = Some img3_final /\
  completed [OFirst; OSingle; OStep; OSingle; OSecond] img3 = 3%nat /\
  toy_done img3_final = true /\ mget (t_mem img3_final) 17 = 42 /\
  t_icount img3_final = 3 /\ t_cycles img3_final = 6 /\ t_cur img3_final = Some 2.
Proof. vm_compute. repeat split; reflexivity. Qed.

(* in the middle of the second instruction *)
Example mid_instruction_example :
  run_ops [OStep; OFirst] img3 = run_ops [OSingle; OSingle; OSingle] img3 /\
  run_ops [OStep; OFirst] img3 = Some (fst (first_half (toy_steps 1 img3))) /\
  completed [OSingle; OSingle; OSingle] img3 = 1%nat /\
  (forall sf, run_ops [OStep; OFirst] img3 = Some sf -> t_nextcycle sf = 2 /\ t_accu sf = 42 /\
                                                          t_cycles sf = 3 /\ t_icount sf = 1).
Proof.
  split; [vm_compute; reflexivity|]. split; [vm_compute; reflexivity|].
  split; [vm_compute; reflexivity|].
  intros sf Hsf. vm_compute in Hsf. injection Hsf as <-. vm_compute. repeat split; reflexivity.
Qed.

(* sequencing errors really occur, and leave the state as it was *)
Example illegal_order_example :
  run_ops [OFirst; OFirst] img3 = None /\ run_ops [OSecond] img3 = None /\
  run_ops [OFirst; OStep] img3 = None /\
  apply_top OFirst (fst (first_half img3)) = (fst (first_half img3), TSeqErr) /\
  apply_top OStep (fst (first_half img3)) = (fst (first_half img3), TSeqErr) /\
  apply_top OSecond img3 = (img3, TSeqErr) /\ toy_done (fst (first_half img3)) = false.
Proof. vm_compute. repeat split; reflexivity. Qed.

(* after the end every call returns the same state *)
Example noop_example :
  apply_top OStep img3_final = (img3_final, TNone) /\
  apply_top OFirst img3_final = (img3_final, TNone) /\
  apply_top OSecond img3_final = (img3_final, TNone) /\
  apply_top OSingle img3_final = (img3_final, TNone).
Proof. vm_compute. repeat split; reflexivity. Qed.

(* a memory error (only possible with a memory smaller than 4096 words) is a separate outcome:
   with 16 words, LDA 0x010 fails in the first half; the sequence theorems do not cover it *)
Example mem_err_example :
  exists s e, first_half {| t_pc := 1; t_accu := 0; t_mem := [(0, 4112)]; t_size := 16;
                            t_loaded := Some (toy_decode 4112); t_maxpc := Some 0;
                            t_cur := None; t_next := 0; t_vis := vis0; t_icount := 0;
                            t_cycles := 0; t_bcount := 0; t_nextcycle := 1; t_started := false |}
              = (s, TMemErr e).
Proof. vm_compute. eexists. eexists. reflexivity. Qed.
