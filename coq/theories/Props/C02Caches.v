(* Props/C02Caches.v — property C02 for EVERY memory configuration: the five-stage pipeline with
   hazard detection computes what the single-cycle machine computes, both run with the SAME data
   cache (write-back / write-through, LRU / PLRU, any legal geometry, or flat memory) and the SAME
   instruction cache (any geometry, or none).  Proved in full ([pipe_refines_single_caches]), not
   restricted to runs without word-crossing accesses: when the data cache rejects a load/store that
   crosses a word boundary, both machines reject the same instruction with the same fault record.
   Only statements; proofs in Proofs/LiftRefine.v.

   How: Props/C02Refine.v ([pipe_refines_single], flat memory, no instruction cache) is lifted
   through the abstraction [flatten] of Props/C03Programs.v.  The flat invariant [Inv] of
   Proofs/PipeInv.v relates the FLATTENED pipeline to the FLATTENED single-cycle state; each cached
   machine is tied to its flattened copy by the simulation [sim] (Proofs/LiftSim.v: same registers,
   pc, output, counters; the flat memory holds the logical contents of the cache; cache invariants
   CInv / IInv); stage-by-stage simulation (Proofs/LiftPipe.v) keeps the latches equal; the lemma
   [eok_rejects] (Proofs/LiftRefineBase.v) shows that the MEM access of an on-path slot is the
   access of its instruction in the single-cycle machine, so a cache rejects in one machine iff it
   rejects in the other.

   Vocabulary (Proofs/LiftRefine.v):
     cwf s             [wf] of Proofs/C01Step.v with "flat memory, no instruction cache" replaced by
                       the invariants of the data cache and of the instruction cache  [cwf_meaning]
     agree_log p s'    regs, out, exitc, bcount, pcount, icount of [pst p] equal those of s' and the
                       two memory systems have equal logical contents at every address in [0, 2^32)
                       (directories and hit counters are not compared)
     fault_agree p s'  regs, out and logical memory contents equal
     rejection_record g f   f is the record of a word-crossing load/store rejected by a data cache
                       of configuration g ([rejects], spelled out in Props/C03Programs.v)
     pipe_trace, single_trace   as in Props/C02Refine.v (retired addresses / executed pcs)  *)
From ArchSim Require Import Spec.RefCache.
From ArchSim Require Import Model.Base Model.Mem Model.Cache Model.Fmt Model.RV Model.Single
  Model.RVSplit Model.Pipe
  Proofs.CacheArith Proofs.CacheInv Proofs.C01Step Proofs.SplitExec Proofs.PipeInv
  Proofs.LiftFlat Proofs.LiftAccess Proofs.LiftSim Proofs.LiftSingle Proofs.LiftPipe Proofs.LiftPipeRun
  Proofs.LiftRefine Proofs.LiftMeaning.
Open Scope Z_scope.

(** ** Vocabulary *)
Theorem cwf_meaning : forall s,
  cwf s <->
  wf_regs (regs s) /\ match ms s with MFlat f => bytes_ok f | MCache d => CInv d end /\ IInv (im s) /\
  -2097152 < pc s < 4294967296 /\ Forall wf_instr (prog (im s)) /\
  Z.of_nat (length (prog (im s))) <= 4096.
Proof. exact cwf_meaning_lem. Qed.
Print Assumptions cwf_meaning.

Theorem agree_log_meaning : forall p s,
  agree_log p s <->
  regs (pst p) = regs s /\ out (pst p) = out s /\ exitc (pst p) = exitc s /\
  bcount (pst p) = bcount s /\ pcount (pst p) = pcount s /\ icount (pst p) = icount s /\
  forall a, 0 <= a < 4294967296 ->
    match ms (pst p) with MFlat f => mget f a | MCache d => logical d a end =
    match ms s with MFlat f => mget f a | MCache d => logical d a end.
Proof. exact agree_log_meaning_lem. Qed.
Print Assumptions agree_log_meaning.

Theorem fault_agree_meaning : forall p s,
  fault_agree p s <->
  regs (pst p) = regs s /\ out (pst p) = out s /\
  forall a, 0 <= a < 4294967296 ->
    match ms (pst p) with MFlat f => mget f a | MCache d => logical d a end =
    match ms s with MFlat f => mget f a | MCache d => logical d a end.
Proof. exact fault_agree_meaning_lem. Qed.
Print Assumptions fault_agree_meaning.

Theorem rejection_record_meaning : forall g f,
  rejection_record g f <-> exists s0, rejects g (f_instr f) s0 = Some (f_err f).
Proof. exact rejection_record_meaning_lem. Qed.
Print Assumptions rejection_record_meaning.

(** ** The theorem *)
(* Done: the pipeline terminates within 8n+8 cycles with the same registers, output, exit code,
   counters, logical memory contents and retire trace.
   Faulted f: the pipeline faults with the SAME record f; the registers, output and logical memory
   agree too, unless f is a cache rejection of a word-crossing access (then only the record is
   claimed). *)
Theorem pipe_refines_single_caches : forall s n,
  cwf s -> Forall (fun i => supported i = true) (prog (im s)) ->
  match single_run n s with
  | (s', Done) => exists c p, (c <= 8 * n + 8)%nat /\
      pipe_run c (pipe_init s true) = (p, PDone) /\ agree_log p s' /\
      pipe_trace c (pipe_init s true) = single_trace n s
  | (s', Faulted f) => exists c p, (c <= 8 * n + 8)%nat /\
      pipe_run c (pipe_init s true) = (p, PFaulted f) /\
      (fault_agree p s' \/ rejection_record (ms_cfg (ms s)) f)
  | (_, OutOfFuel) => True
  end.
Proof. exact pipe_refines_single_caches_lem. Qed.
Print Assumptions pipe_refines_single_caches.

(** ** The hypothesis holds for the initial state of every configuration *)
Theorem cwf_init : forall p c wt pen (ic : option (ccfg * Z)),
  cfg_ok c -> Forall wf_instr p -> Z.of_nat (length p) <= 4096 ->
  match ic with Some (g, ipen) => 0 <= ibits g /\ 0 <= bbits g | None => True end ->
  cwf (init_st p (MCache (dcache_init c wt pen)) (mk_icache ic)).
Proof. exact cwf_init_lem. Qed.
Print Assumptions cwf_init.

Theorem cwf_init_flat : forall p m (ic : option (ccfg * Z)),
  bytes_ok m -> Forall wf_instr p -> Z.of_nat (length p) <= 4096 ->
  match ic with Some (g, ipen) => 0 <= ibits g /\ 0 <= bbits g | None => True end ->
  cwf (init_st p (MFlat m) (mk_icache ic)).
Proof. exact cwf_init_flat_lem. Qed.
Print Assumptions cwf_init_flat.

(** ** Non-vacuity: one set, two ways, one word per block (write-back and write-through), PLRU;
    instruction cache direct mapped.  Stores that evict a dirty block, loads with RAW hazards, a
    taken branch, a printing and an exiting ecall. *)
Definition c02c_dg : ccfg := {| ibits := 0; bbits := 0; assoc := 2; plru := true |}.
Definition c02c_ig : ccfg := {| ibits := 1; bbits := 1; assoc := 1; plru := false |}.
Definition c02c_prog : list instr :=
  [ ILui 6 4; II ADDI 1 0 7; IStore SW 6 1 0; II ADDI 1 0 9; IStore SW 6 1 4; IStore SH 6 1 8;
    ILoad LW 2 6 0; IR ADD 10 2 2; IBranch BEQ 0 0 8; II ADDI 10 0 99; II ADDI 17 0 1; IEcall;
    II ADDI 17 0 10; IEcall ].
Definition c02c_st (wt : bool) : st :=
  init_st c02c_prog (MCache (dcache_init c02c_dg wt 10)) (mk_icache (Some (c02c_ig, 5))).

Example c02c_hyps : forall wt, cwf (c02c_st wt) /\ Forall (fun i => supported i = true) c02c_prog.
Proof.
  intros wt. split.
  - apply (cwf_init c02c_prog c02c_dg wt 10 (Some (c02c_ig, 5))).
    + unfold cfg_ok, c02c_dg. cbn. repeat split; try discriminate. intros _. exists 1%nat. reflexivity.
    + unfold c02c_prog. repeat (apply Forall_cons; [unfold wf_instr, reg_ok; repeat split; discriminate|]).
      apply Forall_nil.
    + cbn. discriminate.
    + cbn. split; discriminate.
  - unfold c02c_prog. repeat (apply Forall_cons; [reflexivity|]). apply Forall_nil.
Qed.

Example c02c_runs :
  let s := c02c_st false in
  snd (single_run 50 s) = Done /\ snd (pipe_run 100 (pipe_init s true)) = PDone /\
  single_trace 50 s = [0; 4; 8; 12; 16; 20; 24; 28; 32; 40; 44; 48; 52] /\
  pipe_trace 100 (pipe_init s true) = single_trace 50 s /\
  regs (pst (fst (pipe_run 100 (pipe_init s true)))) = regs (fst (single_run 50 s)) /\
  out (fst (single_run 50 s)) = [49; 52] /\ exitc (fst (single_run 50 s)) = Some 0 /\
  ms_lower (ms (fst (single_run 50 s))) <> [].
Proof. vm_compute. repeat split; discriminate. Qed.

(* a rejected word-crossing load: the same record in both machines, write-back and write-through *)
Definition c02c_bad : list instr := [ ILui 6 4; II ADDI 1 0 7; IStore SW 6 1 0; ILoad LH 2 6 3; II ADDI 5 0 1 ].
Example c02c_rejection :
  let s wt := init_st c02c_bad (MCache (dcache_init c02c_dg wt 10)) (mk_icache (Some (c02c_ig, 5))) in
  let f := mkfault 12 (ILoad LH 2 6 3) (EOffset 3 2) in
  snd (single_run 50 (s false)) = Faulted f /\ snd (pipe_run 100 (pipe_init (s false) true)) = PFaulted f /\
  snd (single_run 50 (s true)) = Faulted f /\ snd (pipe_run 100 (pipe_init (s true) true)) = PFaulted f /\
  rejection_record (Some (c02c_dg, false)) f.
Proof.
  cbv zeta. split; [vm_compute; reflexivity|]. split; [vm_compute; reflexivity|].
  split; [vm_compute; reflexivity|]. split; [vm_compute; reflexivity|].
  exists (with_regs (init_st [] (MFlat []) None) [(6, 16384)]). vm_compute. reflexivity.
Qed.
