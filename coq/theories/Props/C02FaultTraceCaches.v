(* Props/C02FaultTraceCaches.v — property C02 for every cache configuration, the Faulted branch of
   [pipe_refines_single_caches] (Props/C02Caches.v, state agreement: Props/C02CachesFaults.v)
   completed with the retire order and the retire counter, as Props/C02FaultTrace.v does for flat
   memory.  Only statements; proofs in Proofs/SchedPrefixCacheMain.v (on top of the prefix form of
   the timing theorem for all memory configurations, Props/C07SchedPrefixCaches.v).

   Scope: hazard detection on, ANY data cache and ANY instruction cache ([cwf], Props/C02Caches.v),
   empty pipeline, supported instructions.  Let the single-cycle run with the same caches fault
   with record f — an address error, an unknown ecall, or a rejection by the cache — at its
   (N+1)-th instruction, having executed the N instructions [single_trace n s].  Then every pipeline
   run that reaches the fault (any fuel) reports the same record f and
     * its retire counter reads icount s + N, one short of the single-cycle one;
     * [pipe_trace] is [single_trace n s] without its last element exactly when [fault_b2b n s]
       (Proofs/SchedPrefixTrace.v, evaluated on the cached run): the faulting instruction is a load /
       store that executes in the step right after its predecessor, so that the predecessor writes
       back in the very step in which MEM raises; otherwise it is all of [single_trace n s]. *)
From ArchSim Require Import Spec.RefCache.
From ArchSim Require Import Model.Base Model.Mem Model.Cache Model.Fmt Model.RV Model.Single
  Model.RVSplit Model.Pipe Proofs.CacheArith Proofs.CacheInv Proofs.C01Step Proofs.SplitExec
  Proofs.PipeLaws Proofs.PipeInv Proofs.LiftSim Proofs.LiftSingle Proofs.LiftPipe Proofs.LiftPipeRun
  Proofs.LiftRefine Proofs.SchedDefs Proofs.SchedCor Proofs.SchedPrefixMain Proofs.SchedPrefixTrace
  Proofs.SchedPrefixCacheMain Props.C02Caches.
Open Scope Z_scope.

Theorem pipe_faulted_trace_caches : forall s n s' f,
  cwf s -> Forall (fun i => supported i = true) (prog (im s)) ->
  single_run n s = (s', Faulted f) ->
  forall c p g, pipe_run c (pipe_init s true) = (p, PFaulted g) ->
    g = f /\
    pipe_trace c (pipe_init s true) =
      firstn (length (single_trace n s) - (if fault_b2b n s then 1 else 0)) (single_trace n s) /\
    icount (pst p) + 1 = icount s' /\
    icount (pst p) = icount s + Z.of_nat (length (single_trace n s)).
Proof. exact pipe_faulted_trace_caches_lem. Qed.
Print Assumptions pipe_faulted_trace_caches.

(** ** Non-vacuity: 2-way PLRU data cache (write-back and write-through), direct-mapped instruction cache *)
Definition c02t_dg : ccfg := {| ibits := 0; bbits := 0; assoc := 2; plru := true |}.
Definition c02t_ig : ccfg := {| ibits := 1; bbits := 1; assoc := 1; plru := false |}.
Definition c02t_st (p : list instr) (wt : bool) : st :=
  init_st p (MCache (dcache_init c02t_dg wt 10)) (mk_icache (Some (c02t_ig, 5))).
Definition c02t_case (p : list instr) (wt : bool) (f : fault) (b2b : bool) (tr ptr : list Z) (ic : Z) : Prop :=
  let s := c02t_st p wt in let r := pipe_run 60 (pipe_init s true) in
  snd (single_run 40 s) = Faulted f /\ snd r = PFaulted f /\ fault_b2b 40 s = b2b /\
  single_trace 40 s = tr /\ pipe_trace 60 (pipe_init s true) = ptr /\
  icount (pst (fst r)) = ic /\ icount (fst (single_run 40 s)) = ic + 1.

(* a cache rejection (lh at offset 3) behind two retired instructions: it waits for x6, both older
   instructions are in the trace *)
Definition c02t_rej : list instr := [ILui 6 4; II ADDI 1 0 7; ILoad LH 2 6 3; II ADDI 5 0 1].
Example c02t_rej_hyps : forall wt, cwf (c02t_st c02t_rej wt) /\ Forall (fun i => supported i = true) c02t_rej.
Proof.
  intros wt. split.
  - apply (cwf_init c02t_rej c02t_dg wt 10 (Some (c02t_ig, 5))).
    + unfold cfg_ok, c02t_dg. cbn. repeat split; try discriminate. intros _. exists 1%nat. reflexivity.
    + unfold c02t_rej. repeat (apply Forall_cons; [unfold wf_instr, reg_ok; repeat split; discriminate|]).
      apply Forall_nil.
    + cbn. discriminate.
    + cbn. split; discriminate.
  - unfold c02t_rej. repeat (apply Forall_cons; [reflexivity|]). apply Forall_nil.
Qed.
Example c02t_rej_runs : forall wt,
  c02t_case c02t_rej wt (mkfault 8 (ILoad LH 2 6 3) (EOffset 3 2)) false [0; 4] [0; 4] 2.
Proof. intros [|]; vm_compute; repeat split. Qed.

(* the rejected lh directly behind its predecessor: the predecessor is counted but not in the trace *)
Definition c02t_b2b : list instr :=
  [ILui 6 4; II ADDI 1 0 7; IStore SW 6 1 0; II ADDI 3 0 1; ILoad LH 2 6 3; II ADDI 5 0 1].
Example c02t_b2b_runs : forall wt,
  c02t_case c02t_b2b wt (mkfault 16 (ILoad LH 2 6 3) (EOffset 3 2)) true [0; 4; 8; 12] [0; 4; 8] 4.
Proof. intros [|]; vm_compute; repeat split. Qed.

(* an address error behind cached stores, and an unknown ecall *)
Definition c02t_addr : list instr :=
  [ILui 6 4; II ADDI 1 0 7; IStore SW 6 1 0; IStore SW 6 1 4; IStore SW 6 1 8; ILoad LW 2 0 8; II ADDI 5 0 1].
Example c02t_addr_runs : forall wt,
  c02t_case c02t_addr wt (mkfault 20 (ILoad LW 2 0 8) (EAddr 8 16384 4294967295 false)) true
            [0; 4; 8; 12; 16] [0; 4; 8; 12] 5.
Proof. intros [|]; vm_compute; repeat split. Qed.
Definition c02t_ecall : list instr := [II ADDI 17 0 77; II ADDI 1 0 5; IEcall; II ADDI 3 0 1].
Example c02t_ecall_runs : forall wt,
  c02t_case c02t_ecall wt (mkfault 8 IEcall (EEcall 77)) false [0; 4] [0; 4] 2.
Proof. intros [|]; vm_compute; repeat split. Qed.
