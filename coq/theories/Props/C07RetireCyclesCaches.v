(* Props/C07RetireCyclesCaches.v — property C07 "for all cache configurations and miss penalties",
   per instruction: the value of the CYCLE COUNTER at the step at which each instruction retires.
   Props/C07SchedCaches.v gives, for every dynamic instruction, the step index W_k of the
   documented schedule at which it retires (the same as on flat memory) and the total; here:

     the k-th retired instruction (address a, schedule entry w = W_k) is in latch 4 after exactly
     w steps, and at that point
       cycles = cycles s + w + ipen * (instruction-cache misses so far) + dpen * (data-cache misses so far)
     where misses so far = (accesses - hits) of the respective cache over the first w steps.

   [pipe_run w (pipe_init s true)] is the prefix run of w steps ([pipe_run_steps] = w).
   Hypotheses as in Props/C07SchedCaches.v.  Only statements; proofs in Proofs/Lift2Sched.v
   (the retire list of Proofs/SchedCache.v read entry by entry, and the cycle law [run_cycles] of
   Props/C07SchedCaches.v on the prefix run). *)
From ArchSim Require Import Spec.RefCache.
From ArchSim Require Import Model.Base Model.Mem Model.Cache Model.Fmt Model.RV Model.Single
  Model.RVSplit Model.Pipe Proofs.C01Step Proofs.SplitExec Proofs.PipeLaws Proofs.PipeInv
  Proofs.LiftSim Proofs.LiftSingle Proofs.LiftRefine Proofs.SchedDefs Proofs.SchedCache Proofs.Lift2Sched
  Props.C02Caches.
Open Scope Z_scope.

Theorem pipe_retire_cycles : forall s n s',
  cwf s -> Forall (fun i => supported i = true) (prog (im s)) ->
  single_run n s = (s', Done) ->
  forall k a w, nth_error (combine (single_trace n s) (schedule (single_events n s))) k = Some (a, w) ->
    let pw := fst (pipe_run w (pipe_init s true)) in
    (1 <= w <= total_cycles (schedule (single_events n s)))%nat /\
    pipe_run_steps w (pipe_init s true) = w /\
    (exists x, lat_at (lat pw) 4 = Some x /\ sl_addr x = a) /\
    cycles (pst pw) = cycles s + Z.of_nat w
                      + ipen s * ((iacc (pst pw) - iacc s) - (ihit (pst pw) - ihit s))
                      + dpen s * ((dacc (pst pw) - dacc s) - (dhit (pst pw) - dhit s)).
Proof. exact pipe_retire_cycles_lem. Qed.
Print Assumptions pipe_retire_cycles.

(* the generic fact behind it: an entry (a, t + j) of the retire list means that the prefix run of
   j steps makes j steps and ends with address a in latch 4 *)
Theorem retire_entry_prefix : forall fuel t p a w, In (a, w) (pipe_retire_from t fuel p) ->
  exists j, w = (t + j)%nat /\ (1 <= j <= fuel)%nat /\ pipe_run_steps j p = j /\
    exists x, lat_at (lat (fst (pipe_run j p))) 4 = Some x /\ sl_addr x = a.
Proof. exact retire_prefix. Qed.
Print Assumptions retire_entry_prefix.

(** ** Non-vacuity: the program and caches of Props/C02Caches.v / Props/C07SchedCaches.v (data cache
    penalty 10, instruction cache penalty 5).  For each of the 13 retirements: address, schedule step,
    cycle counter, instruction-cache misses so far, data-cache misses so far — e.g. the store at 16
    retires at step 13 in cycle 68 = 13 + 5 * 5 + 10 * 3. *)
Example retire_cycles_example :
  let i := pipe_init (c02c_st false) true in
  map (fun aw : Z * nat => let s := pst (fst (pipe_run (snd aw) i)) in
         (fst aw, snd aw, cycles s, iacc s - ihit s, dacc s - dhit s))
      (combine (single_trace 50 (c02c_st false)) (schedule (single_events 50 (c02c_st false)))) =
  [(0, 5%nat, 15, 2, 0); (4, 6%nat, 16, 2, 0); (8, 9%nat, 34, 3, 1); (12, 10%nat, 35, 3, 1);
   (16, 13%nat, 68, 5, 3); (20, 14%nat, 79, 5, 4); (24, 15%nat, 80, 5, 4); (28, 18%nat, 88, 6, 4);
   (32, 19%nat, 89, 6, 4); (40, 23%nat, 98, 7, 4); (44, 26%nat, 101, 7, 4); (48, 27%nat, 102, 7, 4);
   (52, 30%nat, 105, 7, 4)] /\
  Forall (fun r : Z * nat * Z * Z * Z =>
            let '(_, w, cy, im, dm) := r in cy = Z.of_nat w + 5 * im + 10 * dm)
    [(0, 5%nat, 15, 2, 0); (16, 13%nat, 68, 5, 3); (52, 30%nat, 105, 7, 4)].
Proof. split; [vm_compute; reflexivity|]. repeat constructor. Qed.
