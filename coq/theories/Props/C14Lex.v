(* C14Lex.v — property C14 with the REAL grammar in the loop (Model/Lex.v):
   "the text the simulator prints for an instruction assembles, at the same address, to an instruction with
    identical operation, registers and immediate" — printing (Asm.instr_repr), the tokenizer (Lex.lex_line /
   lex_text), the assembler (Asm.assemble), composed in Lex.rv_load_text.
   Vocabulary: Proofs/C14Proofs.v (enc_reg, encodable_at, encodable_from), Proofs/LexRepr2.v (ntok_of, nbody_of:
   a token record of Asm.v as a token record of the lexer, for records without label/variable names),
   Proofs/LexRepr3.v (printable: registers in [0,32), csr >= 0, not fence — every immediate),
   Proofs/LexRepr4.v (token_lines ln l = the token lines (ln+k, RInstr None (repr_tokens i_k))). *)
From Coq Require Import String.
From Coq Require Import ZArith List Bool.
From ArchSim Require Import Model.Base Model.Mem Model.Cache Model.Fmt Model.RV Model.Toy Model.Asm Model.Lex
  Proofs.C14Proofs Proofs.LexRepr2 Proofs.LexRepr3 Proofs.LexRepr4.
Import ListNotations.
Open Scope Z_scope.

(** 1. the tokenizer on a printed instruction returns exactly [repr_tokens] (no in-line label; names do not occur) *)
Theorem lex_of_printed : forall i, printable i ->
  lex_line (instr_repr i) = LexOk (NInstr None (nbody_of (repr_tokens i))).
Proof. exact lex_of_printed_lem. Qed.
Theorem encodable_is_printable : forall a i, encodable_at a i -> printable i.
Proof. exact encodable_printable. Qed.
(* interning: a nameless token line of the lexer is the corresponding token line of Asm.v *)
Theorem nameless_interned : forall names b, nameless b ->
  intern_line names (NInstr None (nbody_of b)) = (names, RInstr None b).
Proof. exact intern_nameless. Qed.
(* the text pipeline on a printed listing, after lines that give no entry *)
Theorem lex_text_of_printed : forall pre l,
  Forall (fun x => lex_line x = LexSkip) pre -> Forall printable l ->
  lex_text (pre ++ map instr_repr l) = LTOk (token_lines (1 + Z.of_nat (List.length pre)) l).
Proof. exact lex_text_printed. Qed.

(** 2. the round trip: a listing whose instruction k is encodable at address 4k is printed, the text (possibly after
    comment/blank lines) is loaded: no error, and the loaded program is the listing *)
Theorem print_lex_assemble : forall s pre l,
  Forall (fun x => lex_line x = LexSkip) pre ->
  encodable_from 0 l -> 4 * Z.of_nat (List.length l) <= imem_limit ->
  exists s', rv_load_text s (pre ++ map instr_repr l) =
               (s', None, Some {| i_instrs := l; i_labels := []; i_vars := [] |}) /\
             prog (im s') = l.
Proof. exact print_lex_assemble_lem. Qed.
Theorem print_lex_assemble_one_line : forall s i, encodable_at 0 i ->
  exists s', rv_load_text s [instr_repr i] = (s', None, Some {| i_instrs := [i]; i_labels := []; i_vars := [] |}) /\
             prog (im s') = [i].
Proof. exact print_lex_assemble_one. Qed.

(** non-vacuity *)
Theorem printed_lines_example :
  map instr_repr listing =
  map S [ "addi x5, x0, -100"; "sw x5, -4(x6)"; "lbu x7, 2047(x6)"; "bne x7, x5, -8"; "mulhsu x10, x7, x5";
          "jal x1, 0"; "lui x3, -1"; "csrrw x1, 0x300, x2"; "csrrci x1, 0xc00, 31"; "jalr x0, x1, -2048";
          "auipc x31, 524287"; "srai x9, x9, 31"; "ecall"; "ebreak" ]%string.
Proof. exact ex_printed_lines. Qed.
Theorem lex_of_printed_example :
  lex_line (S "sw x5, -4(x6)") =
    LexOk (NInstr None (NIns (tok_r1_r2_imm 36 (RX (S "5")) (RX (S "6")) (S "-4")))) /\
  lex_line (S "csrrci x1, 0xc00, 31") =
    LexOk (NInstr None (NIns {| n_mn := 53; n_rd := Some (RX (S "1")); n_rs1 := None; n_rs2 := None; n_reg1 := None;
       n_reg2 := None; n_rs := None; n_imm := None; n_csr := Some (S "0xc00"); n_uimm := Some (S "31");
       n_offset := None; n_label := None; n_var := None |})) /\
  lex_line (S "jal x1, 0") = LexOk (NInstr None (NIns (tok_rd_imm 45 (RX (S "1")) (S "0")))) /\
  lex_line (instr_repr (IJal 1 (-20) 0)) = LexOk (NInstr None (nbody_of (repr_tokens (IJal 1 (-20) 0)))) /\
  lex_line (S "fence") = LexSyntax.
Proof. exact ex_lex_printed. Qed.
Theorem print_lex_assemble_example :
  encodable_from 0 listing /\
  (let '(s', e, img) := rv_load_text st0 (S "# listing" :: S "" :: map instr_repr listing) in
   (e, prog (im s'), img)) = (None, listing, Some {| i_instrs := listing; i_labels := []; i_vars := [] |}).
Proof. exact ex_round_trip. Qed.
Theorem jal_address_matters :
  (let '(s', e, img) := rv_load_text st0 [S "nop"; instr_repr (IJal 1 (-20) 0)] in prog (im s')) =
  [II ADDI 0 0 0; IJal 1 (-4) 0].
Proof. exact ex_round_trip_address. Qed.

Print Assumptions lex_of_printed.
Print Assumptions encodable_is_printable.
Print Assumptions nameless_interned.
Print Assumptions lex_text_of_printed.
Print Assumptions print_lex_assemble.
Print Assumptions print_lex_assemble_one_line.
Print Assumptions printed_lines_example.
Print Assumptions lex_of_printed_example.
Print Assumptions print_lex_assemble_example.
Print Assumptions jal_address_matters.
