(* C04Lex.v — the RISC-V tokenizer inside the model (Model/Lex.v: lex_line, lex_text, rv_load_text):
   layout, mnemonic case, register and number spellings, comment and blank lines.
   Vocabulary: LexProofs1 (all_space, no_hash, is_comment), LexProofs2 (blanks, stops, is_sign, dec_ok, sgn),
   LexProofs3 (sep, hd_sep, noquote), LexProofs6 (no_tab, starts_nonspace, ends_nonspace),
   LexProofs7 (case_hyp, alpha, lower, mnemonics), LexProofs8 (lline), LexProofs9 (rest_ok). *)
From Coq Require Import String.
From Coq Require Import ZArith List Bool.
From ArchSim Require Import Model.Base Model.Fmt Model.Toy Model.Asm Model.Lex
  Proofs.LexProofs1 Proofs.LexProofs2 Proofs.LexProofs3 Proofs.LexProofs5 Proofs.LexProofs6
  Proofs.LexProofs7 Proofs.LexProofs8 Proofs.LexProofs9.
Import ListNotations.
Open Scope Z_scope.

(** (a) layout.  A core line s1 ++ s2 (starts and ends with a non-blank, no '#', no tab); between s1 and s2, at a
    position next to one of the separators  , ( ) : + .  or a blank and not after a quote character, any run [ws] of
    blanks and tabs; indentation [ind] and trailing blanks [trail] (any characters of str.isspace()); a trailing
    comment [cmt]: the result is that of the bare line. *)
Theorem lex_ignores_layout : forall ind s1 ws s2 trail cmt,
  all_space ind = true -> all_space trail = true -> is_comment cmt = true -> blanks ws = true ->
  starts_nonspace s1 = true -> ends_nonspace s2 = true ->
  no_hash (s1 ++ s2) = true -> no_tab (s1 ++ s2) = true -> noquote s1 = true ->
  (sep (last s1 0) = true \/ hd_sep s2 = true) ->
  lex_line (ind ++ (s1 ++ ws ++ s2) ++ trail ++ cmt) = lex_line (s1 ++ s2).
Proof. exact lex_layout. Qed.

(* the inner part for EVERY sanitised line (well-formed or not), [lex_core] = _pattern_line *)
Theorem lex_ignores_layout_core : forall s1 ws s2,
  blanks ws = true -> noquote s1 = true ->
  (s1 = [] \/ sep (last s1 0) = true \/ hd_sep s2 = true) ->
  lex_core (s1 ++ ws ++ s2) = lex_core (s1 ++ s2).
Proof. exact lex_core_gap. Qed.

(* the outer part for EVERY line without '#' in its code part *)
Theorem lex_ignores_outer_layout : forall ind l trail cmt,
  all_space ind = true -> all_space trail = true -> no_hash l = true -> is_comment cmt = true ->
  lex_line (ind ++ l ++ trail ++ cmt) = lex_line l.
Proof. exact lex_outer_layout. Qed.

Theorem lex_ignores_layout_example :
  lex_line (S "   loop :" ++ tab ++ S "ADDI  x 5 ,sp , -0x10  # note") =
  LexOk (NInstr (Some (S "loop")) (NIns (tok_r1_r2_imm 18 (RX (S "5")) (RAbi (S "sp")) (S "-0x10")))) /\
  lex_line (S "loop:ADDI x5,sp,-0x10") = lex_line (S "   loop :" ++ tab ++ S "ADDI  x 5 ,sp , -0x10  # note").
Proof. exact ex_layout_value. Qed.
Theorem lex_ignores_layout_instance :
  lex_line (S "  " ++ (S "lw a0," ++ (tab ++ S " ") ++ S "-4(sp)") ++ S " " ++ S "# c") = lex_line (S "lw a0," ++ S "-4(sp)").
Proof. exact ex_layout_instance. Qed.
(* positions that are NOT next to a separator: blanks matter there (Combine in the grammar) *)
Theorem lex_layout_limits :
  lex_line (S "la a0, buf[2]") <> LexSyntax /\ lex_line (S "la a0, buf [2]") = LexSyntax /\
  lex_line (S "li a0, -5") <> LexSyntax /\ lex_line (S "li a0, - 5") = LexSyntax.
Proof. exact ex_layout_limits. Qed.

(** (b) mnemonic case.  [case_hyp mn mn' post]: mn and mn' consist of ASCII letters and agree up to case, the
    lower-case word is one of the 58 mnemonics of the grammar, it is followed by a blank or the end of the line and
    not by ':' *)
Theorem lex_mnemonic_case : forall ind mn mn' post trail cmt,
  case_hyp mn mn' post -> rest_ok post = true ->
  all_space ind = true -> all_space trail = true -> is_comment cmt = true ->
  lex_line (ind ++ (mn ++ post) ++ trail ++ cmt) = lex_line (ind ++ (mn' ++ post) ++ trail ++ cmt).
Proof. exact lex_line_case. Qed.

(* with an in-line label:  ind name w1 ':' w2 MNEMONIC post trail comment  (lline post c0 t0 w1 w2 m) *)
Theorem lex_mnemonic_case_label : forall ind c0 t0 w1 w2 mn mn' post trail cmt,
  case_hyp mn mn' post -> rest_ok post = true ->
  is_lab1 c0 = true -> forallb is_labn t0 = true ->
  blanks w1 = true -> blanks w2 = true -> no_tab (w1 ++ w2) = true ->
  all_space ind = true -> all_space trail = true -> is_comment cmt = true ->
  lex_line (ind ++ lline post c0 t0 w1 w2 mn ++ trail ++ cmt) =
  lex_line (ind ++ lline post c0 t0 w1 w2 mn' ++ trail ++ cmt).
Proof. exact lex_line_case_label. Qed.

(* on sanitised lines, without the restrictions on [post] *)
Theorem lex_mnemonic_case_core : forall mn mn' post,
  case_hyp mn mn' post -> lex_core (mn ++ post) = lex_core (mn' ++ post).
Proof. exact lex_core_case_plain. Qed.
Theorem lex_mnemonic_case_label_core : forall mn mn' post, case_hyp mn mn' post ->
  forall c0 t0 w1 w2, is_lab1 c0 = true -> forallb is_labn t0 = true -> blanks w1 = true -> blanks w2 = true ->
  lex_core (lline post c0 t0 w1 w2 mn) = lex_core (lline post c0 t0 w1 w2 mn').
Proof. exact lex_core_case_label. Qed.

Theorem lex_mnemonic_case_example :
  lex_line (S "SlLi a0, a1, 3") = lex_line (S "slli a0, a1, 3") /\
  lex_line (S "slli a0, a1, 3") = LexOk (NInstr None (NIns (tok_r1_r2_imm 24 (RAbi (S "a0")) (RAbi (S "a1")) (S "3")))).
Proof. exact ex_case_value. Qed.
Theorem lex_mnemonic_case_instance :
  lex_line (S " " ++ (S "JaLr" ++ S " ra, 0(t0)") ++ S "  " ++ S "#x") = lex_line (S " " ++ (S "jalr" ++ S " ra, 0(t0)") ++ S "  " ++ S "#x").
Proof. exact ex_case_instance. Qed.
(* a word followed by ':' is a label, and labels are case-sensitive *)
Theorem lex_label_case_matters : lex_line (S "add : nop") <> lex_line (S "ADD : nop").
Proof. exact ex_case_label_word. Qed.

(** (c) registers: the ABI spelling(s) and the xN spelling of register n, after blanks and before anything that is
    not a digit, are each read as ONE register token consuming exactly the spelling; both tokens denote n *)
Theorem lex_register_names : forall n name ws rest,
  0 <= n < 32 -> In (name, n) abi_table -> blanks ws = true -> stops is_digit rest = true ->
  exists t1 t2,
    p_reg (ws ++ name ++ rest) = Some (t1, rest) /\
    p_reg (ws ++ 120 :: str_dec n ++ rest) = Some (t2, rest) /\
    reg_num t1 = Some n /\ reg_num t2 = Some n.
Proof. exact reg_spellings. Qed.
Theorem lex_register_names_example :
  p_reg (S " fp, 1") = Some (RAbi (S "fp"), S ", 1") /\ p_reg (S " s0, 1") = Some (RAbi (S "s0"), S ", 1") /\
  p_reg (S " x8, 1") = Some (RX (S "8"), S ", 1") /\
  reg_num (RAbi (S "fp")) = Some 8 /\ reg_num (RAbi (S "s0")) = Some 8 /\ reg_num (RX (S "8")) = Some 8 /\
  p_reg (S "s10)") = Some (RAbi (S "s10"), S ")") /\ p_reg (S "x32") = Some (RX (S "3"), S "2").
Proof. exact ex_registers. Qed.

(** (d) numbers: 0x / 0b / decimal digit strings of the same magnitude with the same optional sign, after blanks
    and before anything that is not a label character, are each read as ONE immediate token, and the three tokens
    have the same value under int(text, 0) (Asm.py_int0) *)
Theorem lex_number_bases : forall ws sign h b d rest n,
  blanks ws = true -> is_sign sign = true -> stops is_labn rest = true ->
  h <> [] -> forallb is_hex h = true -> digits_value 16 h = n ->
  b <> [] -> forallb is_bin b = true -> digits_value 2 b = n ->
  dec_ok d = true -> digits_value 10 d = n ->
  exists t1 t2 t3,
    p_imm (ws ++ sign ++ (48 :: 120 :: h) ++ rest) = Some (t1, rest) /\
    p_imm (ws ++ sign ++ (48 :: 98 :: b) ++ rest) = Some (t2, rest) /\
    p_imm (ws ++ sign ++ d ++ rest) = Some (t3, rest) /\
    py_int0 t1 = Some (sgn sign n) /\ py_int0 t2 = Some (sgn sign n) /\ py_int0 t3 = Some (sgn sign n).
Proof. exact number_spellings. Qed.
Theorem lex_number_bases_example :
  p_imm (S " -31, x") = Some (S "-31", S ", x") /\ p_imm (S " -0x1F, x") = Some (S "-0x1F", S ", x") /\
  p_imm (S " -0b11111, x") = Some (S "-0b11111", S ", x") /\
  py_int0 (S "-31") = Some (-31) /\ py_int0 (S "-0x1F") = Some (-31) /\ py_int0 (S "-0b11111") = Some (-31) /\
  py_int0 (S "-0x1f") = Some (-31) /\ py_int0 (S "007") = None.
Proof. exact ex_numbers. Qed.

(** (e) a line gives no entry EXACTLY when it is blank or its first non-blank character is '#'; such a line only
    advances the line counter of the text pipeline *)
Theorem lex_comment_and_blank_lines : forall l,
  lex_line l = LexSkip <-> (all_space l = true \/ exists ws c, all_space ws = true /\ l = ws ++ 35 :: c).
Proof. exact lex_skip_iff. Qed.
Theorem lex_comment_and_blank_lines_text : forall ln t l rest,
  lex_line l = LexSkip -> lex_lines ln t (l :: rest) = lex_lines (ln + 1) t rest.
Proof. exact lex_lines_skip. Qed.
Theorem lex_text_example :
  lex_text [S "nop"; S "# c"; S "add x1, x2"; S "add x1"] = LTSyntax 3 /\
  lex_text [S "# p"; S ""; S "  nop # c"] = LTOk [(3, RInstr None (BStr 2))].
Proof. exact ex_text_small. Qed.

Print Assumptions lex_ignores_layout.
Print Assumptions lex_ignores_layout_core.
Print Assumptions lex_ignores_outer_layout.
Print Assumptions lex_ignores_layout_example.
Print Assumptions lex_ignores_layout_instance.
Print Assumptions lex_layout_limits.
Print Assumptions lex_mnemonic_case.
Print Assumptions lex_mnemonic_case_label.
Print Assumptions lex_mnemonic_case_core.
Print Assumptions lex_mnemonic_case_label_core.
Print Assumptions lex_mnemonic_case_example.
Print Assumptions lex_mnemonic_case_instance.
Print Assumptions lex_label_case_matters.
Print Assumptions lex_register_names.
Print Assumptions lex_register_names_example.
Print Assumptions lex_number_bases.
Print Assumptions lex_number_bases_example.
Print Assumptions lex_comment_and_blank_lines.
Print Assumptions lex_comment_and_blank_lines_text.
Print Assumptions lex_text_example.
