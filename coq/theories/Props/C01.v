(* Props/C01.v — property C01: single-cycle RV32IM execution = ISA reference semantics.
   Only statements; every proof is [exact <lemma>] into Proofs/.  The reference is Spec/RV32IM.v.
   [abs] maps a model state to the reference's architectural state (pc taken modulo 2^32). *)
From ArchSim Require Import Model.Base Model.Mem Model.Cache Model.Fmt Model.RV Model.Single
  Spec.RV32IM Proofs.WordLemmas Proofs.C01Arith Proofs.C01Mem Proofs.C01Step Proofs.C01Extra.
Open Scope Z_scope.

(* per instruction, over the full operand space: behavior() = reference semantics *)
Theorem exec_eq_spec : forall i s, wf s -> wf_instr i -> 0 <= pc s < 16384 ->
  match behavior i s with
  | (s', None) =>
      abs (advance s') = fst (spec_exec i (abs s)) /\ snd (spec_exec i (abs s)) = None /\
      wf (advance s') /\ im s' = im s
  | (s', Some er) =>
      abs s' = fst (spec_exec i (abs s)) /\ fault_rel er (snd (spec_exec i (abs s))) /\
      wf s' /\ im s' = im s
  end.
Proof. exact exec_ok. Qed.
Print Assumptions exec_eq_spec.

(* one step of the single-cycle machine (fetch, count, execute, display re-read, pc+4) *)
Theorem step_eq_spec : forall s, wf s -> single_done s = false ->
  let r := single_pipeline_step s in
  let sp := spec_step (prog (im s)) (abs s) in
  abs (fst r) = fst sp /\ fault_ok (prog (im s)) (abs s) (snd r) (snd sp) /\ wf (fst r) /\
  prog (im (fst r)) = prog (im s).
Proof. exact step_refines. Qed.
Print Assumptions step_eq_spec.

(* runs of any length, any program, any initial registers and memory *)
Theorem run_eq_spec : forall n s, wf s ->
  let r := single_run n s in
  let sp := spec_run n (prog (im s)) (abs s) in
  abs (fst r) = fst sp /\ end_rel (prog (im s)) (fun _ => True) (snd r) (snd sp) /\ wf (fst r).
Proof. exact run_refines. Qed.
Print Assumptions run_eq_spec.

(* execution ends exactly when pc holds no instruction or an exit ecall was executed *)
Theorem halts_iff : forall s, wf s -> single_done s = spec_halted (prog (im s)) (abs s).
Proof. exact done_agree. Qed.
Print Assumptions halts_iff.

(* x0 stays zero and registers stay 32-bit along every run *)
Theorem regs_invariant : forall n s, wf s ->
  mget (regs (fst (single_run n s))) 0 = 0 /\ forall k, in32 (mget (regs (fst (single_run n s))) k).
Proof. exact regs_invariant_run. Qed.
Print Assumptions regs_invariant.

(* the reference ALU against the bit-vector reading of the ISA manual *)
Theorem spec_shift_bits : forall a b i, in32 a -> in32 b -> 0 <= i < 32 ->
  Z.testbit (spec_r SLL a b) i = (if i <? b mod 32 then false else Z.testbit a (i - b mod 32)) /\
  Z.testbit (spec_r SRL a b) i = (if i + b mod 32 <? 32 then Z.testbit a (i + b mod 32) else false) /\
  Z.testbit (spec_r SRA a b) i = Z.testbit a (Z.min 31 (i + b mod 32)).
Proof. exact shift_bits. Qed.
Print Assumptions spec_shift_bits.

(* the constructors' sign-extension formulas are two's-complement sign extension *)
Theorem imm_sign_extension : forall v,
  sext12 v = sextn 12 v /\ sext13 v = sextn 13 v /\ sext20 v = sextn 20 v /\ sext21 v = sextn 21 v.
Proof. exact sext_all. Qed.
Print Assumptions imm_sign_extension.

(* constructed instructions are well-formed whatever immediate was passed in *)
Theorem mk_wf : forall i, regs_ok i -> wf_instr (mk i).
Proof. exact mk_wf_instr. Qed.
Print Assumptions mk_wf.

(* the C-string scan of ecall 4 never runs out of the model's fuel: the fuel is justified *)
Theorem cstring_fuel_suffices : forall m a, spec_cstring (S (length m)) m a <> CsFuel.
Proof. exact cstring_no_fuel. Qed.
Print Assumptions cstring_fuel_suffices.

(* non-vacuity: a concrete non-trivial state satisfies [wf] *)
Example wf_example : wf example_state /\ single_done example_state = false.
Proof. exact wf_example_proof. Qed.
