(* Props/C09Programs.v — property C09, program-level clause: "For any program the data-cache
   counters are identical in single-cycle and five-stage mode and count each executed load or
   store exactly once."
   Only statements; proofs in Proofs/Acct*.v (on top of Proofs/Lift*.v, Props/C02Caches.v).

   §1 proves more than the counters: after a terminating run the two machines, started with the
   same data cache (any legal geometry, write-back or write-through, LRU or PLRU, or flat memory)
   and the same instruction cache, hold EXACTLY the same data memory system — directory, valid and
   dirty bits, block contents, replacement state, lower memory, access counter, hit counter and
   last-hit flag.  Why it is true of the model: the pipeline's MEM stage handles slots in program
   order and wrong-path slots never reach it; an ecall's string scan happens in EX only after all
   older instructions have left MEM and WB; and the single-cycle machine's extra uncounted re-read
   of a load (for the display) finds the block resident and touches the way that is already the
   most recently used, which changes neither LRU nor PLRU state ([reread_unchanged]).

   Vocabulary: [cwf], [agree_log] as in Props/C02Caches.v; [dacc]/[dhit] (Proofs/PipeLaws.v):
   access / hit counter of the data cache of a state (0 for flat memory). *)
From ArchSim Require Import Spec.RefCache.
From ArchSim Require Import Model.Base Model.Mem Model.Cache Model.Fmt Model.RV Model.Single
  Model.RVSplit Model.Pipe
  Proofs.CacheArith Proofs.CacheInv Proofs.C01Step Proofs.SplitExec Proofs.PipeLaws Proofs.PipeInv
  Proofs.LiftSim Proofs.LiftSingle Proofs.LiftRefine Proofs.LiftMeaning
  Proofs.AcctRead Proofs.AcctExec Proofs.AcctStep Proofs.AcctRefine Proofs.AcctCount Proofs.AcctICache Proofs.AcctTop.
Open Scope Z_scope.

(** ** 1. The same data memory system in both modes *)
Theorem pipe_single_same_dcache : forall s n s',
  cwf s -> Forall (fun i => supported i = true) (prog (im s)) ->
  single_run n s = (s', Done) ->
  exists c p, (c <= 8 * n + 8)%nat /\ pipe_run c (pipe_init s true) = (p, PDone) /\
    ms (pst p) = ms s' /\ agree_log p s' /\ pipe_trace c (pipe_init s true) = single_trace n s.
Proof. exact pipe_single_same_dcache_lem. Qed.
Print Assumptions pipe_single_same_dcache.

(* the re-read of the single-cycle MEM display leaves the cache exactly as it was: an uncounted
   read that follows a successful read of the same address (modulo 2^32) changes nothing *)
Theorem reread_unchanged : forall d nb a a' c v d' p, CInv d ->
  dc_read d nb a c = (Ok v, d', p) -> U32 a' = U32 a -> snd (fst (dc_read d' nb a' false)) = d'.
Proof. exact dc_reread. Qed.
Print Assumptions reread_unchanged.

(** ** 2. The access counter counts each executed load or store exactly once *)
(* [single_instrs n s]: the instructions executed (completed without fault) by [single_run n s],
   in order; [count_ldst l]: the number of loads and stores in l *)
Theorem single_instrs_meaning : forall k s,
  single_instrs 0 s = [] /\
  single_instrs (S k) s =
    if single_done s then []
    else match single_pipeline_step s with
         | (_, Some _) => []
         | (s', None) => match instr_at (prog (im s)) (pc s) with Some i => [i] | None => [] end
                         ++ single_instrs k s'
         end.
Proof. exact single_instrs_eq. Qed.
Print Assumptions single_instrs_meaning.

Theorem count_ldst_meaning : forall l,
  count_ldst l =
  Z.of_nat (length (filter (fun i => match i with ILoad _ _ _ _ | IStore _ _ _ _ => true | _ => false end) l)).
Proof. exact count_ldst_eq. Qed.
Print Assumptions count_ldst_meaning.

(* single-cycle run from any state with a data cache, not ending in a fault (no access rejected,
   no address error): accesses after = accesses before + number of executed loads and stores.
   The uncounted re-read of loads and the string scan of ecall 4 are not counted. *)
Theorem dcache_counts_loads_stores : forall n s d s' r,
  cache_ok s -> ms s = MCache d -> single_run n s = (s', r) -> (forall f, r <> Faulted f) ->
  dacc s' = dacc s + count_ldst (single_instrs n s).
Proof. exact dcache_counts_lem. Qed.
Print Assumptions dcache_counts_loads_stores.

(* one step: an accepted counted access moves the counter by one, nothing else moves it *)
Theorem single_step_counts : forall s t d i s1, sim s t -> ms s = MCache d ->
  instr_at (prog (im t)) (pc t) = Some i -> single_pipeline_step s = (s1, None) ->
  dacc s1 = dacc s + (if is_ldst i then 1 else 0).
Proof. exact single_step_dacc. Qed.
Print Assumptions single_step_counts.

(** ** 3. The property text: identical counters in both modes, each load/store counted once *)
Theorem counters_both_modes : forall s n s' d,
  cwf s -> Forall (fun i => supported i = true) (prog (im s)) -> ms s = MCache d ->
  single_run n s = (s', Done) ->
  exists c p, (c <= 8 * n + 8)%nat /\ pipe_run c (pipe_init s true) = (p, PDone) /\
    dacc (pst p) = dacc s' /\ dhit (pst p) = dhit s' /\
    dacc s' = dacc s + count_ldst (single_instrs n s).
Proof. exact counters_both_modes_lem. Qed.
Print Assumptions counters_both_modes.

(** ** Non-vacuity: 4-way PLRU cache with 2 sets of 2 words (write-back and write-through), and a
    1-set 2-way LRU cache; stores building a string, an ecall-4 string scan (uncounted reads that
    fill the cache), evictions, a taken branch over a load (wrong-path slot), hits and misses. *)
Definition c09_gP : ccfg := {| ibits := 1; bbits := 1; assoc := 4; plru := true |}.
Definition c09_gL : ccfg := {| ibits := 0; bbits := 0; assoc := 2; plru := false |}.
Definition c09_ig : ccfg := {| ibits := 1; bbits := 1; assoc := 1; plru := false |}.
Definition c09_prog : list instr :=
  [ ILui 6 4; II ADDI 1 0 65; IStore SB 6 1 0; II ADDI 1 0 66; IStore SB 6 1 1; IStore SB 6 0 2;
    ILoad LW 2 6 0; IR ADD 10 6 0; II ADDI 17 0 4; IEcall;
    IStore SW 6 2 16; IStore SW 6 2 32; IStore SW 6 2 48; IStore SW 6 2 64; ILoad LW 3 6 16;
    IBranch BEQ 0 0 8; ILoad LW 4 6 64; ILoad LBU 5 6 1; IStore SH 6 5 34; ILoad LH 7 6 32;
    II ADDI 17 0 10; IEcall ].
Definition c09_st (g : ccfg) (wt : bool) : st :=
  init_st c09_prog (MCache (dcache_init g wt 10)) (mk_icache (Some (c09_ig, 5))).

Example c09_same_ms : forall wt,
  ms (pst (fst (pipe_run 300 (pipe_init (c09_st c09_gP wt) true)))) = ms (fst (single_run 100 (c09_st c09_gP wt))) /\
  ms (pst (fst (pipe_run 300 (pipe_init (c09_st c09_gL wt) true)))) = ms (fst (single_run 100 (c09_st c09_gL wt))).
Proof. intros [|]; split; vm_compute; reflexivity. Qed.

Example c09_counts :
  let r := single_run 100 (c09_st c09_gL false) in
  snd r = Done /\ out (fst r) = [65; 66] /\
  count_ldst (single_instrs 100 (c09_st c09_gL false)) = 12 /\
  dacc (fst r) = 12 /\ dhit (fst r) = 4 /\
  dacc (pst (fst (pipe_run 300 (pipe_init (c09_st c09_gL false) true)))) = 12 /\
  length (single_instrs 100 (c09_st c09_gL false)) = 21%nat.
Proof. vm_compute. repeat split. Qed.

(* why §2 excludes faulting runs: a REJECTED word-crossing load (address >= 2^14) has already been
   counted (the statistics are updated before the lane extraction fails) and has paid its miss
   penalty, whereas a rejected word-crossing store is not counted (write-through checks the offset
   first, write-back fails in the merge before the statistics) — in both modes alike *)
Example rejected_load_counted_store_not :
  let ld := init_st [ILui 6 4; ILoad LW 1 6 2] (MCache (dcache_init c09_gL false 10)) None in
  let sw wt := init_st [ILui 6 4; IStore SW 6 1 2] (MCache (dcache_init c09_gL wt 10)) None in
  snd (single_run 5 ld) = Faulted (mkfault 4 (ILoad LW 1 6 2) (EOffset 2 0)) /\
  dacc (fst (single_run 5 ld)) = 1 /\ dacc (pst (fst (pipe_run 20 (pipe_init ld true)))) = 1 /\
  snd (single_run 5 (sw false)) = Faulted (mkfault 4 (IStore SW 6 1 2) (EOffset 2 0)) /\
  dacc (fst (single_run 5 (sw false))) = 0 /\ dacc (fst (single_run 5 (sw true))) = 0 /\
  dacc (pst (fst (pipe_run 20 (pipe_init (sw false) true)))) = 0.
Proof. vm_compute. repeat split. Qed.
