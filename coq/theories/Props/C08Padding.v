(* Props/C08Padding.v — property C08, the clause "(for instance after inserting two nops behind
   every instruction)": the padded program [pad2 P] (Proofs/FlagOffDep.v: two canonical nops
   [addi x0,x0,0] behind every instruction, branch / jal offsets scaled by 3) computes what P
   computes.  Only statements; every proof is [exact <lemma>] into Proofs/Pad2Sim.v, Pad2Run.v.

   Side condition [padable P] (decidable, Proofs/Pad2Sim.v): every instruction is supported and is
   neither jalr nor auipc (their results are absolute code addresses), every jal has rd = x0 (the
   link value is an absolute code address), the scaled offsets 3 * imm still fit the branch / jal
   immediate fields, and 3 * |P| <= 4096.  Nothing is required of where branches land: a target
   4k + imm of P (inside the program, outside, or misaligned) corresponds to the target
   3 * (4k + imm) of [pad2 P].  That these exclusions are needed: [padding_breaks_jalr],
   [padding_breaks_auipc], [padding_breaks_link].

   Vocabulary
     pad_st s        s with the program [pad2 (prog (im s))] (no instruction cache) and the pc scaled by 3
     aeq t t'        registers, memory system, output, exit code, branch and call counters equal
     Rdone t t'      aeq, and pc t' = 3 * pc t — or pc t' = 3 * pc t - 8 when the run ended by an
                     exiting ecall (the two nops behind it are not executed)
     step_cost / pcost n s   the number of padded steps that n steps of P take: per step of P,
                     1 if it faults, exits or redirects (taken branch, jal), otherwise 3
     scale_fault f   the fault record with the address scaled by 3 and the instruction [scale3]'d
                     (faulting instructions are loads, stores, ecalls: unchanged by [scale3])
   RESULTS
     [pad2_simulates]   with exactly the fuel [pcost n s] the padded run ends as the run of P does
                        with fuel n: Done / Faulted (scaled fault record) / OutOfFuel, with equal
                        registers, memory, output (and exit code, counters, related pc when Done)
     [pad2_terminates_iff]  P terminates (faults) for some fuel iff [pad2 P] does
     [pad2_step]        the step simulation "one step of P = the padded instruction, followed by
                        the two nops unless it faults, exits or jumps"
     [pad2_flagoff_equals_original]  the flag-off PIPELINE run of [pad2 P] yields the registers,
                        memory, output, exit code of the single-cycle run of P
     instruction counts: [icount] = initial + number of steps on both sides
                        ([run_icount_is_steps]); the difference is the number of nops executed *)
From ArchSim Require Import Model.Base Model.Mem Model.Cache Model.Fmt Model.RV Model.Single
  Model.RVSplit Model.Pipe Proofs.C01Step Proofs.SplitExec Proofs.PipeLaws Proofs.PipeShape
  Proofs.PipeInv Proofs.AcctICache Proofs.FlagOffDep Proofs.FlagOffSim Proofs.FlagOffRefine
  Proofs.Pad2Sim Proofs.Pad2Run.
Open Scope Z_scope.

(** ** The simulation *)
Theorem pad2_simulates : forall n s, wf s -> padable (prog (im s)) = true -> -699050 < pc s < 1431655765 ->
  match single_run n s with
  | (t, Done) => exists t', single_run (pcost n s) (pad_st s) = (t', Done) /\ Rdone t t'
  | (t, Faulted f) => exists t', single_run (pcost n s) (pad_st s) = (t', Faulted (scale_fault f)) /\
                        regs t' = regs t /\ ms t' = ms t /\ out t' = out t
  | (t, OutOfFuel) => exists t', single_run (pcost n s) (pad_st s) = (t', OutOfFuel) /\ Rp t t'
  end.
Proof. exact pad_run_init. Qed.
Print Assumptions pad2_simulates.

Theorem pad2_terminates_iff : forall s, wf s -> padable (prog (im s)) = true -> -699050 < pc s < 1431655765 ->
  ((exists n t, single_run n s = (t, Done)) <-> (exists m t', single_run m (pad_st s) = (t', Done))) /\
  ((exists n t f, single_run n s = (t, Faulted f)) <-> (exists m t' f', single_run m (pad_st s) = (t', Faulted f'))).
Proof. exact pad_iff_init. Qed.
Print Assumptions pad2_terminates_iff.

(* one step of P *)
Theorem pad2_step : forall s s', Rp s s' -> single_done s = false ->
  match single_pipeline_step s with
  | (t, Some f) => exists t', single_pipeline_step s' = (t', Some (scale_fault f)) /\ single_done s' = false /\
                     regs t' = regs t /\ ms t' = ms t /\ out t' = out t
  | (t, None) => exists t', (forall k, single_run (step_cost s + k) s' = single_run k t') /\ aeq t t' /\
                     (exitc t = None -> Rp t t') /\ (exitc t <> None -> pc t' = 3 * pc t - 8)
  end.
Proof. exact pad_step. Qed.
Print Assumptions pad2_step.

Theorem pad2_related_initially : forall s, wf s -> padable (prog (im s)) = true ->
  -699050 < pc s < 1431655765 -> Rp s (pad_st s).
Proof. exact Rp_init. Qed.
Print Assumptions pad2_related_initially.

(* the relation, spelled out *)
Theorem Rp_meaning : forall s s', Rp s s' ->
  regs s' = regs s /\ ms s' = ms s /\ out s' = out s /\ exitc s' = exitc s /\ bcount s' = bcount s /\
  pcount s' = pcount s /\ pc s' = 3 * pc s /\ prog (im s') = pad2 (prog (im s)) /\ wf s /\ wf s'.
Proof. exact Rp_spelled. Qed.
Print Assumptions Rp_meaning.

(* every instruction executed adds one to the instruction counter, on both sides *)
Theorem run_icount_is_steps : forall n s,
  icount (fst (single_run n s)) = icount s + Z.of_nat (single_run_steps n s).
Proof. exact single_run_steps_icount. Qed.
Print Assumptions run_icount_is_steps.

(** ** The corollary for the pipeline without hazard detection *)
Theorem pad2_flagoff_equals_original : forall n s,
  wf s -> padable (prog (im s)) = true -> -699050 < pc s < 1431655765 ->
  match single_run n s with
  | (t, Done) => exists c p, pipe_run c (pipe_init (pad_st s) false) = (p, PDone) /\
      regs (pst p) = regs t /\ ms (pst p) = ms t /\ out (pst p) = out t /\ exitc (pst p) = exitc t /\
      bcount (pst p) = bcount t /\ pcount (pst p) = pcount t
  | (t, Faulted f) => exists c p, pipe_run c (pipe_init (pad_st s) false) = (p, PFaulted (scale_fault f)) /\
      regs (pst p) = regs t /\ ms (pst p) = ms t /\ out (pst p) = out t
  | (_, OutOfFuel) => True
  end.
Proof. exact pad2_flagoff_lem. Qed.
Print Assumptions pad2_flagoff_equals_original.

(** ** Non-vacuity *)
Definition run1 (P : list instr) := fst (single_run 200 (init_st P (MFlat []) None)).
Definition runp (P : list instr) := fst (pipe_run 800 (pipe_init (pad_st (init_st P (MFlat []) None)) false)).

(* a padable program with RAW hazards at distance 1 and 2, a counting loop (taken and not-taken
   backward branch), a forward jal x0, store / load, a printing and an exiting ecall: the
   hypotheses hold; the flag-off pipeline on the padded program gives the single-cycle results of
   the ORIGINAL program, which the flag-off pipeline on the original program does not *)
Definition pad_ex : list instr :=
  [ II ADDI 5 0 3; II ADDI 6 0 0; IR ADD 6 6 5; II ADDI 5 5 (-1); IBranch BNE 5 0 (-8);
    IJal 0 8 0; II ADDI 6 0 99; ILui 7 16; IStore SW 7 6 0; ILoad LW 8 7 0; IR ADD 10 8 8;
    II ADDI 17 0 1; IEcall; II ADDI 17 0 10; IEcall; II ADDI 9 0 9 ].
Example pad_ex_hypotheses :
  padable pad_ex = true /\ dep_free_weak pad_ex = false /\ dep_free (pad2 pad_ex) = true /\
  length (pad2 pad_ex) = 48%nat.
Proof. vm_compute. repeat split; reflexivity. Qed.
Example pad_ex_runs :
  let s := init_st pad_ex (MFlat []) None in
  snd (single_run 200 s) = Done /\ snd (pipe_run 800 (pipe_init (pad_st s) false)) = PDone /\
  regs (pst (runp pad_ex)) = regs (run1 pad_ex) /\ ms (pst (runp pad_ex)) = ms (run1 pad_ex) /\
  out (pst (runp pad_ex)) = out (run1 pad_ex) /\ out (run1 pad_ex) = [49; 50] /\
  exitc (pst (runp pad_ex)) = Some 0 /\ rget (run1 pad_ex) 6 = 6 /\
  (* the same program unpadded, flag off: stale reads *)
  rget (pst (fst (pipe_run 800 (pipe_init s false)))) 6 <> 6 /\
  (* step counts: 20 instructions of P, 20 + 32 nops in the padded single-cycle run *)
  icount (run1 pad_ex) = 20 /\ pcost 200 s = 52%nat /\
  icount (fst (single_run 52 (pad_st s))) = 52.
Proof. vm_compute. repeat split; try reflexivity. discriminate. Qed.

(* a faulting program: the store address is below the data window; same fault, address scaled *)
Example pad_fault_example :
  let P := [II ADDI 1 0 5; IStore SW 0 1 8; II ADDI 2 0 1] in
  let s := init_st P (MFlat []) None in
  padable P = true /\
  match single_run 10 s, single_run (pcost 10 s) (pad_st s), pipe_run 100 (pipe_init (pad_st s) false) with
  | (t, Faulted f), (t', Faulted f'), (p, PFaulted g) =>
      f' = scale_fault f /\ g = scale_fault f /\ f_addr f = 4 /\ f_addr g = 12 /\ regs (pst p) = regs t
  | _, _, _ => False
  end.
Proof. vm_compute. repeat split; reflexivity. Qed.

(** ** Why jalr, auipc and link registers used as data are excluded (padding changes the result) *)
(* jalr to the absolute address 20: in P that is the last instruction, in pad2 P it is a nop in
   the middle, so instructions P skipped are executed *)
Example padding_breaks_jalr :
  let P := [II ADDI 1 0 20; IJalr 0 1 0; II ADDI 2 0 1; II ADDI 3 0 2; II ADDI 4 0 3; II ADDI 5 0 4] in
  padable P = false /\
  snd (single_run 100 (init_st P (MFlat []) None)) = Done /\
  snd (single_run 100 (pad_st (init_st P (MFlat []) None))) = Done /\
  rget (run1 P) 2 = 0 /\ rget (fst (single_run 100 (pad_st (init_st P (MFlat []) None)))) 2 = 1.
Proof. vm_compute. repeat split; reflexivity. Qed.

(* auipc materialises the pc *)
Example padding_breaks_auipc :
  let P := [II ADDI 2 0 1; IAuipc 1 0] in
  padable P = false /\
  rget (run1 P) 1 = 4 /\ rget (fst (single_run 100 (pad_st (init_st P (MFlat []) None)))) 1 = 12.
Proof. vm_compute. repeat split; reflexivity. Qed.

(* the link register of a jal used as data *)
Example padding_breaks_link :
  let P := [II ADDI 5 0 0; IJal 1 4 0; II ADDI 2 1 0] in
  padable P = false /\
  rget (run1 P) 2 = 8 /\ rget (fst (single_run 100 (pad_st (init_st P (MFlat []) None)))) 2 = 16.
Proof. vm_compute. repeat split; reflexivity. Qed.
