(* Props/C02CachesFaults.v — property C02 for every memory configuration, STRONG form of the
   faulting case (closes the gap left by Props/C02Caches.v): when the single-cycle machine faults —
   whatever the fault: a word-crossing access rejected by the data cache, an address error of a
   load, a store or the ecall string scan, an unknown ecall — the five-stage pipeline with the same
   caches faults with the same record and at that point holds identical registers, identical output
   and EXACTLY the same data memory system (directory, dirty bits, replacement state, lower memory,
   counters), hence identical logical memory.  The terminating case is repeated with the full
   memory-system equality of Props/C09Programs.v.  Only statements; proofs in Proofs/Lift2Fault.v,
   Proofs/Lift2Run.v.

   How: the faulting cycle is split by the stage that raised (WB never does; EX only for an ecall
   that fires, i.e. with nothing older in flight; MEM for the slot the invariant aligns with the
   next single-cycle instruction); the memory-system invariant [MS] of Proofs/AcctRefine.v and the
   lemmas [mem_bms] / [ecall_bms] / [single_step_ms] (the effect of an instruction on the memory
   system is the same function of registers and memory system in both machines, also when the
   access is refused) give the equality of [ms]; registers come from the write-back of latch 3,
   the output from the flat invariant.  Vocabulary as in Props/C02Caches.v. *)
From ArchSim Require Import Spec.RefCache.
From ArchSim Require Import Model.Base Model.Mem Model.Cache Model.Fmt Model.RV Model.Single
  Model.RVSplit Model.Pipe
  Proofs.CacheArith Proofs.CacheInv Proofs.C01Step Proofs.SplitExec Proofs.PipeInv
  Proofs.LiftSim Proofs.LiftSingle Proofs.LiftRefine Proofs.LiftMeaning Proofs.Lift2Fault Proofs.Lift2Run.
Open Scope Z_scope.

Theorem pipe_refines_single_caches_strong : forall s n,
  cwf s -> Forall (fun i => supported i = true) (prog (im s)) ->
  match single_run n s with
  | (s', Done) => exists c p, (c <= 8 * n + 8)%nat /\
      pipe_run c (pipe_init s true) = (p, PDone) /\ agree_log p s' /\ ms (pst p) = ms s' /\
      pipe_trace c (pipe_init s true) = single_trace n s
  | (s', Faulted f) => exists c p, (c <= 8 * n + 8)%nat /\
      pipe_run c (pipe_init s true) = (p, PFaulted f) /\ fault_agree p s' /\ ms (pst p) = ms s'
  | (_, OutOfFuel) => True
  end.
Proof. exact pipe_refines_single_caches_strong_lem. Qed.
Print Assumptions pipe_refines_single_caches_strong.

(* a faulting step of the cached single-cycle machine leaves registers and output as they were
   (the state compared above is therefore the state before the faulting instruction, with the
   memory system as the refused or failed access left it) *)
Theorem faulting_step_frame : forall sc t s1 f, sim sc t -> wf t -> single_done t = false ->
  single_pipeline_step sc = (s1, Some f) -> regs s1 = regs sc /\ out s1 = out sc.
Proof. exact cached_fault_frame. Qed.
Print Assumptions faulting_step_frame.

(** ** Non-vacuity: every kind of fault, 2-way PLRU data cache (write-back and write-through) with
    an instruction cache; a prefix with stores (one eviction), a load and a dependent add, then the
    faulting instruction *)
Definition cf_dg : ccfg := {| ibits := 0; bbits := 0; assoc := 2; plru := true |}.
Definition cf_ig : ccfg := {| ibits := 1; bbits := 1; assoc := 1; plru := false |}.
Definition cf_pre : list instr :=
  [ ILui 6 4; II ADDI 1 0 65; IStore SW 6 1 0; IStore SW 6 1 4; IStore SW 6 1 8; ILoad LW 2 6 0; II ADDI 3 2 1 ].
Definition cf_st (tl : list instr) (wt : bool) : st :=
  init_st (cf_pre ++ tl) (MCache (dcache_init cf_dg wt 10)) (mk_icache (Some (cf_ig, 5))).
Definition cf_same (tl : list instr) (wt : bool) (f : fault) : Prop :=
  let r := single_run 100 (cf_st tl wt) in let q := pipe_run 300 (pipe_init (cf_st tl wt) true) in
  snd r = Faulted f /\ snd q = PFaulted f /\
  ms (pst (fst q)) = ms (fst r) /\ regs (pst (fst q)) = regs (fst r) /\ out (pst (fst q)) = out (fst r).

Example cf_rejected_load : forall wt,
  cf_same [ILoad LH 4 6 3; II ADDI 5 0 1] wt (mkfault 28 (ILoad LH 4 6 3) (EOffset 3 2)).
Proof. intros [|]; vm_compute; repeat split. Qed.
Example cf_rejected_store : forall wt,
  cf_same [IStore SW 6 1 2; II ADDI 5 0 1] wt (mkfault 28 (IStore SW 6 1 2) (EOffset 2 0)).
Proof. intros [|]; vm_compute; repeat split. Qed.
Example cf_load_address_error : forall wt,
  cf_same [ILoad LW 4 0 8; II ADDI 5 0 1] wt (mkfault 28 (ILoad LW 4 0 8) (EAddr 8 16384 4294967295 false)).
Proof. intros [|]; vm_compute; repeat split. Qed.
Example cf_store_address_error : forall wt,
  cf_same [IStore SW 0 1 8; II ADDI 5 0 1] wt (mkfault 28 (IStore SW 0 1 8) (EAddr 8 16384 4294967295 false)).
Proof. intros [|]; vm_compute; repeat split. Qed.
Example cf_unknown_ecall : forall wt,
  cf_same [II ADDI 17 0 77; IEcall; II ADDI 5 0 1] wt (mkfault 32 IEcall (EEcall 77)).
Proof. intros [|]; vm_compute; repeat split. Qed.
Example cf_scan_address_error : forall wt,
  cf_same [II ADDI 17 0 4; II ADDI 10 0 100; IEcall; II ADDI 5 0 1] wt
          (mkfault 36 IEcall (EAddr 100 16384 4294967295 false)).
Proof. intros [|]; vm_compute; repeat split. Qed.
(* a string scan (uncounted reads filling the cache) followed by a rejected load *)
Example cf_scan_then_rejection : forall wt,
  cf_same [IStore SW 6 1 12; IStore SW 6 1 16; II ADDI 17 0 4; IR ADD 10 6 0; IEcall; ILoad LH 4 6 3] wt
          (mkfault 48 (ILoad LH 4 6 3) (EOffset 3 2)).
Proof. intros [|]; vm_compute; repeat split. Qed.
