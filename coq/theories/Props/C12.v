(* Props/C12.v — property C12: at every point of any access history, a write-through cache leaves
   the backing memory identical to the logical memory contents and every resident block
   identical to its backing block; a write-back cache lets backing memory differ from the
   logical contents only at addresses whose block is currently resident, and evicting a block
   never loses a written value.

   Only statements; every proof is [exact <lemma>] into Proofs/C12Proofs.v.  Vocabulary as in
   Props/C03.v: [SInv]/[WTInv]/[CInv], [logical], [Flat], histories [run cache_step] against the
   reference [run ref_step] (the uncached memory + rejection of word-crossing accesses).
   "Block of a not resident" is the model's own [cache_contains (dc d) (cdecode (dc d) a) = false]. *)
From ArchSim Require Import Model.Base Model.Mem Model.Cache
  Proofs.CacheArith Proofs.CacheInv Proofs.C03Proofs Proofs.C12Proofs.
Open Scope Z_scope.

(** ** a. write-through: backing memory = logical contents *)
Theorem wt_meaning : forall d,
  WTInv d <-> (forall a, 0 <= a < 4294967296 -> mget (lower d) a = logical d a).
Proof. exact wt_meaning_proof. Qed.
Print Assumptions wt_meaning.

Theorem cinv_meaning : forall d, CInv d <-> SInv d /\ (wthrough d = true -> WTInv d).
Proof. exact cinv_meaning_proof. Qed.
Print Assumptions cinv_meaning.

Theorem wt_lower_current_init : forall c pen m, cfg_ok c -> bytes_ok m ->
  WTInv (dcache_init c true pen) /\ WTInv (upd_lower (dcache_init c true pen) m).
Proof. exact wt_init_proof. Qed.
Print Assumptions wt_lower_current_init.

Theorem wt_lower_current_read : forall d nbits a counted r d' p,
  SInv d -> wthrough d = true -> WTInv d ->
  dc_read d nbits a counted = (r, d', p) -> SInv d' /\ wthrough d' = true /\ WTInv d'.
Proof. exact wt_step_read_proof. Qed.
Print Assumptions wt_lower_current_read.

Theorem wt_lower_current_write : forall d nbits a v e d' p,
  SInv d -> wthrough d = true -> WTInv d -> okw nbits -> 0 <= v < 2 ^ nbits ->
  dc_write d nbits a v false = (e, d', p) -> SInv d' /\ wthrough d' = true /\ WTInv d'.
Proof. exact wt_step_write_proof. Qed.
Print Assumptions wt_lower_current_write.

(* any history (word-crossing and out-of-range accesses included): afterwards the backing memory
   is the logical contents, and it is the reference memory after the same history *)
Theorem wt_lower_current : forall ops d,
  SInv d -> wthrough d = true -> WTInv d -> Forall op_wf ops ->
  let d' := snd (run cache_step d ops) in
  SInv d' /\ wthrough d' = true /\ WTInv d' /\
  forall a, 0 <= a < 4294967296 -> mget (lower d') a = mget (snd (run ref_step (lower d) ops)) a.
Proof. exact wt_history_proof. Qed.
Print Assumptions wt_lower_current.

(* every resident block is identical to its backing block: word j of a valid block is the
   little-endian word at baddr + 4 j of the backing memory *)
Theorem wt_resident_equals_backing : forall d i k j, SInv d -> WTInv d ->
  0 <= i < 2 ^ ibits (cfg (dc d)) -> 0 <= k < assoc (cfg (dc d)) ->
  let b := nthZ (blocks (get_set (dc d) i)) k empty_block in
  valid b = true -> 0 <= j < 2 ^ bbits (cfg (dc d)) ->
  nthZ (vals b) j 0 = le_bytes (mget (lower d)) (baddr b + 4 * j) 4.
Proof. exact wt_resident_backing_proof. Qed.
Print Assumptions wt_resident_equals_backing.

(** ** b. write-back (in fact both policies): backing memory can differ from the logical contents
       only inside resident blocks *)
Theorem wb_lag_only_resident : forall d f a, CInv d -> Flat f d -> 0 <= a < 4294967296 ->
  cache_contains (dc d) (cdecode (dc d) a) = false -> mget (lower d) a = mget f a.
Proof. exact wb_lag_only_resident_proof. Qed.
Print Assumptions wb_lag_only_resident.

(* ... at every point of any history from the initial cache over any preloaded byte memory *)
Theorem wb_lag_only_resident_history : forall c wt pen m ops a,
  cfg_ok c -> bytes_ok m -> Forall op_wf ops ->
  let d' := snd (run cache_step (upd_lower (dcache_init c wt pen) m) ops) in
  0 <= a < 4294967296 -> cache_contains (dc d') (cdecode (dc d') a) = false ->
  mget (lower d') a = mget (snd (run ref_step m ops)) a.
Proof. exact wb_lag_history_proof. Qed.
Print Assumptions wb_lag_only_resident_history.

Theorem reachable_cinv : forall c wt pen m ops, cfg_ok c -> bytes_ok m -> Forall op_wf ops ->
  let d' := snd (run cache_step (upd_lower (dcache_init c wt pen) m) ops) in
  CInv d' /\ Flat (snd (run ref_step m ops)) d' /\ wthrough d' = wt /\ cfg (dc d') = c.
Proof. exact reachable_cinv_proof. Qed.
Print Assumptions reachable_cinv.

(** ** c. the step in which a block is displaced (cache_write_block on a miss, followed by the
       write-back of the displaced block as dc_read_block / dc_write do): a valid victim is always
       handed back for write-back (valid -> dirty), afterwards it is no longer resident and the
       backing memory holds its logical contents; no other address outside the incoming block
       changes its logical value *)
Theorem evict_preserves_logical : forall d a v hit displaced c',
  SInv d -> cache_contains (dc d) (cdecode (dc d) a) = false ->
  16384 <= da_balign (cdecode (dc d) a) -> vals_ok (dc d) v ->
  cache_write_block (dc d) (cdecode (dc d) a) v = (hit, displaced, c') ->
  let d' := match displaced with
            | Some (ba, ws) => upd_lower (upd_dc d c') (write_words (lower d) ba ws)
            | None => upd_dc d c'
            end in
  let old := nthZ (blocks (get_set (dc d) (da_idx (cdecode (dc d) a))))
               (pol_victim (policy (get_set (dc d) (da_idx (cdecode (dc d) a))))) empty_block in
  SInv d' /\ hit = false /\
  (valid old = true -> displaced = Some (baddr old, vals old)) /\
  (valid old = false -> displaced = None) /\
  (forall x, 0 <= x < 4294967296 ->
     da_balign (cdecode (dc d) x) <> da_balign (cdecode (dc d) a) -> logical d' x = logical d x) /\
  (valid old = true -> forall x, 0 <= x < 4294967296 ->
     baddr old <= x < baddr old + bsize (bbits (cfg (dc d))) ->
     cache_contains (dc d') (cdecode (dc d') x) = false /\ mget (lower d') x = logical d x).
Proof. exact evict_preserves_logical_proof. Qed.
Print Assumptions evict_preserves_logical.

(* the write-back itself: lower memory takes the block's logical contents on the block's range
   and keeps every other cell *)
Theorem writeback_meaning : forall c m i bi, SInvC c m ->
  0 <= i < 2 ^ ibits (cfg c) -> 0 <= bi < assoc (cfg c) ->
  let old := nthZ (blocks (get_set c i)) bi empty_block in
  valid old = true ->
  let m' := write_words m (baddr old) (vals old) in
  bytes_ok m' /\
  forall a, in32b a ->
    mget m' a = if da_balign (cdecode c a) =? baddr old then logicalC c m a else mget m a.
Proof. exact writeback_ok. Qed.
Print Assumptions writeback_meaning.

(** ** d. valid blocks are dirty (this is what makes write-back evictions safe) *)
Theorem valid_blocks_dirty : forall d i k, SInv d ->
  0 <= i < 2 ^ ibits (cfg (dc d)) -> 0 <= k < assoc (cfg (dc d)) ->
  valid (nthZ (blocks (get_set (dc d) i)) k empty_block) = true ->
  dirty (nthZ (blocks (get_set (dc d) i)) k empty_block) = true.
Proof. exact valid_blocks_dirty_proof. Qed.
Print Assumptions valid_blocks_dirty.

Theorem valid_blocks_dirty_reachable : forall c wt pen m ops i k,
  cfg_ok c -> bytes_ok m -> Forall op_wf ops ->
  let d' := snd (run cache_step (upd_lower (dcache_init c wt pen) m) ops) in
  0 <= i < 2 ^ ibits c -> 0 <= k < assoc c ->
  valid (nthZ (blocks (get_set (dc d') i)) k empty_block) = true ->
  dirty (nthZ (blocks (get_set (dc d') i)) k empty_block) = true.
Proof. exact valid_blocks_dirty_reachable_proof. Qed.
Print Assumptions valid_blocks_dirty_reachable.

(** ** Non-vacuity: the six-access history of Props/C03.v (2 sets, 2 words per block, 2 ways,
    two evictions), values checked against the Python classes *)
Definition ex_cfg (pl : bool) : ccfg := {| ibits := 1; bbits := 1; assoc := 2; plru := pl |}.
Definition ex_pre : zmap := [(16402, 17); (16403, 34)].
Definition ex_ops : list op :=
  [ OWrite 32 16384 3735928559; OWrite 8 16401 127; ORead 16 16384 true;
    OWrite 16 16418 4660; ORead 32 16384 true; ORead 8 16401 false ].

(* write-through: after every prefix of the history, lower memory equals the reference memory at
   the addresses touched (and it already holds the word written first) *)
Example ex_wt_current :
  let probe := [16384; 16385; 16386; 16387; 16400; 16401; 16402; 16403; 16418; 16419; 16420] in
  forall n, In n [0; 1; 2; 3; 4; 5; 6]%nat ->
    let ops := firstn n ex_ops in
    map (mget (lower (snd (run cache_step (upd_lower (dcache_init (ex_cfg false) true 3) ex_pre) ops)))) probe =
    map (mget (snd (run flat_step ex_pre ops))) probe.
Proof. cbv zeta. intros n Hn. repeat (destruct Hn as [<-|Hn]; [vm_compute; reflexivity|]). destruct Hn. Qed.

(* write-back: the word written first is still only in the cache at the end (its block is
   resident), while the two evicted blocks have reached lower memory *)
Example ex_wb_lag :
  let d := snd (run cache_step (upd_lower (dcache_init (ex_cfg false) false 3) ex_pre) ex_ops) in
  let f := snd (run flat_step ex_pre ex_ops) in
  (mget (lower d) 16384, mget f 16384, cache_contains (dc d) (cdecode (dc d) 16384)) = (0, 239, true) /\
  (mget (lower d) 16418, mget f 16418, cache_contains (dc d) (cdecode (dc d) 16418)) = (52, 52, false) /\
  (mget (lower d) 16401, mget f 16401, cache_contains (dc d) (cdecode (dc d) 16401)) = (127, 127, true) /\
  map (logical d) [16384; 16385; 16386; 16387; 16401; 16402; 16403; 16418; 16419] =
  map (mget f) [16384; 16385; 16386; 16387; 16401; 16402; 16403; 16418; 16419].
Proof. vm_compute. repeat split. Qed.

(* the eviction step in isolation: set 0 holds blocks 16384.. and 16400.. (both dirty); block
   16416.. comes in and displaces the LRU block 16400.., which is handed back for write-back *)
Example ex_evict :
  let d := snd (run cache_step (upd_lower (dcache_init (ex_cfg false) false 3) ex_pre) (firstn 3 ex_ops)) in
  cache_contains (dc d) (cdecode (dc d) 16416) = false /\
  (let '(hit, displaced, _) := cache_write_block (dc d) (cdecode (dc d) 16416) [7; 8] in (hit, displaced)) =
    (false, Some (16400, [571571968; 0])) /\
  mget (lower d) 16401 = 0 /\ logical d 16401 = 127 /\
  mget (write_words (lower d) 16400 [571571968; 0]) 16401 = 127.
Proof. vm_compute. repeat split. Qed.
