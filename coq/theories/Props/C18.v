(* Props/C18.v — property C18: the uncached data memory is a little-endian flat store.
   Only statements; every proof is [exact <lemma>] into Proofs/C18Proofs.v.
   The reference is Spec/FlatMem.v: a total function Z -> Z (default 0), [eff] (address modulo
   2^alen when overflow is on), [touched]/[first_bad]/[ngood] (the effective cell addresses of an
   access in loop order, the first one out of range, the number of in-range ones before it),
   [le_compose] (sum_{i<k} f(a+i) * 2^(cw*i)), [upd_cells] (cell eff(a+i) := digit i of v),
   [flat_read]/[flat_write]/[flat_run] (the abstract store and its write histories).
   Equalities between stores are stated pointwise (no functional extensionality).

   Generic theorems hold for every configuration with [0 < cw c] and accesses of
   [nbits = cw c * k] bits; the remaining clauses of [cfg_wf] ([0 <= alo], and [ahi <= 2^alen]
   when addresses wrap) are needed only for [eff_valid_id]/[read_raw].  Instances: [rv_memcfg]
   (nbits in {8,16,32,64}) and [toy_memcfg size] (nbits = 16*k, in particular 16). *)
From ArchSim Require Import Model.Base Model.Mem Spec.FlatMem Proofs.C18Proofs.
Open Scope Z_scope.

(** ** 0. The vocabulary means what it says *)
(* no touched effective address is bad  <->  first_bad = None *)
Theorem first_bad_none_iff : forall c a k,
  first_bad c a k = None <-> forall i, (i < k)%nat -> valid c (eff c (a + Z.of_nat i)).
Proof. exact first_bad_none. Qed.
Print Assumptions first_bad_none_iff.

(* first_bad is the FIRST (ascending i) touched effective address out of range *)
Theorem first_bad_some_iff : forall c a k b,
  first_bad c a k = Some b <->
  exists i, (i < k)%nat /\ b = eff c (a + Z.of_nat i) /\ ~ valid c b /\
            forall j, (j < i)%nat -> valid c (eff c (a + Z.of_nat j)).
Proof. exact first_bad_some. Qed.
Print Assumptions first_bad_some_iff.

(* ngood = k when nothing is bad, otherwise the index of the first bad address *)
Theorem ngood_first_bad : forall c k a,
  (ngood c a k <= k)%nat /\
  (forall j, (j < ngood c a k)%nat -> validb c (eff c (a + Z.of_nat j)) = true) /\
  ((ngood c a k < k)%nat -> validb c (eff c (a + Z.of_nat (ngood c a k))) = false) /\
  first_bad c a k =
    (if (ngood c a k <? k)%nat then Some (eff c (a + Z.of_nat (ngood c a k))) else None).
Proof. exact ngood_spec. Qed.
Print Assumptions ngood_first_bad.

Theorem touched_members : forall c a k x,
  In x (touched c a k) <-> exists i, (i < k)%nat /\ x = eff c (a + Z.of_nat i).
Proof. exact touched_In. Qed.
Print Assumptions touched_members.

(* upd_cells: untouched cells keep their value; the i-th touched cell holds digit i of v
   (when no later touched cell coincides with it); nothing else can happen *)
Theorem upd_cells_untouched : forall c f a v n x,
  (forall i, (i < n)%nat -> x <> eff c (a + Z.of_nat i)) -> upd_cells c f a v n x = f x.
Proof. exact upd_cells_other. Qed.
Print Assumptions upd_cells_untouched.

Theorem upd_cells_touched : forall c f a v n i,
  (i < n)%nat ->
  (forall j, (i < j < n)%nat -> eff c (a + Z.of_nat i) <> eff c (a + Z.of_nat j)) ->
  upd_cells c f a v n (eff c (a + Z.of_nat i)) = digit (cw c) v i.
Proof. exact upd_cells_hit. Qed.
Print Assumptions upd_cells_touched.

(* composing the digits of v gives v back, truncated to k digits *)
Theorem le_compose_of_digits : forall f w a v k, 0 <= w ->
  (forall i, (i < k)%nat -> f (a + Z.of_nat i) = digit w v i) ->
  le_compose f w a k = v mod 2 ^ (w * Z.of_nat k).
Proof. exact le_compose_digits. Qed.
Print Assumptions le_compose_of_digits.

(* in a well-formed configuration a valid address is its own effective address *)
Theorem eff_valid_id : forall c x, cfg_wf c -> valid c x -> eff c x = x.
Proof. exact eff_valid_id_proof. Qed.
Print Assumptions eff_valid_id.

Theorem rv_memcfg_wf : cfg_wf rv_memcfg.
Proof. exact rv_cfg_wf. Qed.
Print Assumptions rv_memcfg_wf.
Theorem toy_memcfg_wf : forall size, cfg_wf (toy_memcfg size).
Proof. exact toy_cfg_wf. Qed.
Print Assumptions toy_memcfg_wf.

(** ** 1. cells_wf is an invariant of every write, successful or failing, of any width *)
Theorem cells_wf_write : forall c m nbits a v,
  0 <= cw c -> cells_wf c m -> cells_wf c (fst (mem_write c m nbits a v)).
Proof. exact cells_wf_write_proof. Qed.
Print Assumptions cells_wf_write.

Theorem cells_wf_empty : forall c, 0 <= cw c -> cells_wf c [].
Proof. exact cells_wf_nil. Qed.
Print Assumptions cells_wf_empty.

Theorem cells_wf_run : forall c ws, 0 <= cw c -> forall m, cells_wf c m -> cells_wf c (mem_run c m ws).
Proof. exact mem_run_wf. Qed.
Print Assumptions cells_wf_run.

(** ** 2. read_spec *)
Theorem read_spec : forall c m k nbits a,
  0 < cw c -> nbits = cw c * Z.of_nat k -> cells_wf c m ->
  mem_read c m nbits a = flat_read c (cells m) k a /\
  (forall v, mem_read c m nbits a = Ok v -> 0 <= v < 2 ^ nbits).
Proof. exact read_spec_proof. Qed.
Print Assumptions read_spec.

(* … unfolded: every touched effective address in range -> the little-endian composition *)
Theorem read_ok : forall c m k nbits a,
  0 < cw c -> nbits = cw c * Z.of_nat k -> cells_wf c m ->
  (forall i, (i < k)%nat -> valid c (eff c (a + Z.of_nat i))) ->
  mem_read c m nbits a = Ok (le_compose (fun x => cells m (eff c x)) (cw c) a k).
Proof. exact read_ok_proof. Qed.
Print Assumptions read_ok.

(* … else the address error names the first bad effective address *)
Theorem read_err : forall c m k nbits a i,
  0 < cw c -> nbits = cw c * Z.of_nat k -> cells_wf c m ->
  (i < k)%nat -> ~ valid c (eff c (a + Z.of_nat i)) ->
  (forall j, (j < i)%nat -> valid c (eff c (a + Z.of_nat j))) ->
  mem_read c m nbits a = Err (EAddr (eff c (a + Z.of_nat i)) (alo c) (ahi c - 1) false).
Proof. exact read_err_proof. Qed.
Print Assumptions read_err.

(* raw addresses: when a .. a+k-1 are all valid the cells read are exactly those *)
Theorem read_raw : forall c m k nbits a,
  cfg_wf c -> nbits = cw c * Z.of_nat k -> cells_wf c m ->
  (forall i, (i < k)%nat -> valid c (a + Z.of_nat i)) ->
  mem_read c m nbits a = Ok (le_compose (cells m) (cw c) a k).
Proof. exact read_raw_proof. Qed.
Print Assumptions read_raw.

(** ** 3. write_spec *)
(* the new cells are the abstract write's (the cells before the first bad address updated with
   the digits of v, everything else unchanged), the error is the abstract write's, and bits of
   v above nbits are ignored (the resulting MAP is identical) *)
Theorem write_spec : forall c m k nbits a v,
  0 < cw c -> nbits = cw c * Z.of_nat k ->
  (forall x, cells (fst (mem_write c m nbits a v)) x = fst (flat_write c (cells m) k a v) x) /\
  snd (mem_write c m nbits a v) = snd (flat_write c (cells m) k a v) /\
  mem_write c m nbits a (v mod 2 ^ nbits) = mem_write c m nbits a v.
Proof. exact write_spec_proof. Qed.
Print Assumptions write_spec.

Theorem write_succeeds_iff : forall c m k nbits a v,
  0 < cw c -> nbits = cw c * Z.of_nat k ->
  (snd (mem_write c m nbits a v) = None <->
   forall i, (i < k)%nat -> valid c (eff c (a + Z.of_nat i))).
Proof. exact write_fails_iff_proof. Qed.
Print Assumptions write_succeeds_iff.

Theorem write_ok : forall c m k nbits a v,
  0 < cw c -> nbits = cw c * Z.of_nat k ->
  (forall i, (i < k)%nat -> valid c (eff c (a + Z.of_nat i))) ->
  snd (mem_write c m nbits a v) = None /\
  forall x, cells (fst (mem_write c m nbits a v)) x = upd_cells c (cells m) a v k x.
Proof. exact write_ok_proof. Qed.
Print Assumptions write_ok.

(* failure: the Python raises in the middle of its loop; the i cells before the first bad
   address have been written, no others changed *)
Theorem write_err : forall c m k nbits a v i,
  0 < cw c -> nbits = cw c * Z.of_nat k ->
  (i < k)%nat -> ~ valid c (eff c (a + Z.of_nat i)) ->
  (forall j, (j < i)%nat -> valid c (eff c (a + Z.of_nat j))) ->
  snd (mem_write c m nbits a v) = Some (EAddr (eff c (a + Z.of_nat i)) (alo c) (ahi c - 1) false) /\
  forall x, cells (fst (mem_write c m nbits a v)) x = upd_cells c (cells m) a v i x.
Proof. exact write_err_proof. Qed.
Print Assumptions write_err.

(* any access touching an effective address outside the range (in particular below the first
   data address) raises an address error naming an out-of-range touched address *)
Theorem touch_invalid_errors : forall c m k nbits a v i,
  0 < cw c -> nbits = cw c * Z.of_nat k -> cells_wf c m ->
  (i < k)%nat -> ~ valid c (eff c (a + Z.of_nat i)) ->
  exists b, ~ valid c b /\ In b (touched c a k) /\
            mem_read c m nbits a = Err (EAddr b (alo c) (ahi c - 1) false) /\
            snd (mem_write c m nbits a v) = Some (EAddr b (alo c) (ahi c - 1) false).
Proof. exact touch_invalid_errors_proof. Qed.
Print Assumptions touch_invalid_errors.

(** ** 4. outside_entirely_unchanged (exact equality of maps; no hypothesis on the width) *)
Theorem outside_entirely_unchanged : forall c m nbits a v,
  ~ valid c (eff c a) ->
  fst (mem_write c m nbits a v) = m /\
  ((0 < ncells c nbits)%nat ->
   mem_write c m nbits a v = (m, Some (EAddr (eff c a) (alo c) (ahi c - 1) false))).
Proof. exact outside_unchanged_proof. Qed.
Print Assumptions outside_entirely_unchanged.

Theorem all_outside_unchanged : forall c m nbits a v,
  (forall x, In x (touched c a (ncells c nbits)) -> ~ valid c x) ->
  fst (mem_write c m nbits a v) = m.
Proof. exact all_outside_unchanged_proof. Qed.
Print Assumptions all_outside_unchanged.

(** ** 5. read_after_writes *)
(* the map after any write history IS the abstract store after the same history *)
Theorem flat_refines : forall c ws, 0 <= cw c -> forall m x,
  cells (mem_run c m ws) x = flat_run c (cells m) ws x.
Proof. exact flat_refines_proof. Qed.
Print Assumptions flat_refines.

Theorem read_after_writes : forall c ws m k nbits a,
  0 < cw c -> nbits = cw c * Z.of_nat k -> cells_wf c m ->
  mem_read c (mem_run c m ws) nbits a = flat_read c (flat_run c (cells m) ws) k a.
Proof. exact read_after_writes_proof. Qed.
Print Assumptions read_after_writes.

(* from the empty memory: zero where never written *)
Theorem read_after_writes_empty : forall c ws k nbits a,
  0 < cw c -> nbits = cw c * Z.of_nat k ->
  mem_read c (mem_run c [] ws) nbits a = flat_read c (flat_run c (fun _ => 0) ws) k a.
Proof. exact read_after_writes_empty_proof. Qed.
Print Assumptions read_after_writes_empty.

(* the abstract history is "most recent write wins": the last request decides the cells it
   writes, all other cells show the history before it; never-written cells keep the start value *)
Theorem flat_run_last : forall c f ws w x,
  flat_run c f (ws ++ [w]) x = flat_step c (flat_run c f ws) w x.
Proof. exact flat_run_snoc. Qed.
Print Assumptions flat_run_last.

Theorem flat_step_unwritten : forall c f w x, ~ writes_cell c w x -> flat_step c f w x = f x.
Proof. exact flat_step_other. Qed.
Print Assumptions flat_step_unwritten.

Theorem flat_step_written : forall c f nbits a v i,
  (i < ngood c a (ncells c nbits))%nat ->
  (forall j, (i < j < ngood c a (ncells c nbits))%nat ->
             eff c (a + Z.of_nat i) <> eff c (a + Z.of_nat j)) ->
  flat_step c f (nbits, a, v) (eff c (a + Z.of_nat i)) = digit (cw c) v i.
Proof. exact flat_step_hit. Qed.
Print Assumptions flat_step_written.

Theorem never_written : forall c ws f x,
  (forall w, In w ws -> ~ writes_cell c w x) -> flat_run c f ws x = f x.
Proof. exact never_written_default. Qed.
Print Assumptions never_written.

(* corollary: reading back one's own successful write (no cells_wf needed) *)
Theorem read_own_write : forall c m k nbits a v,
  0 < cw c -> nbits = cw c * Z.of_nat k -> distinct_eff c a k ->
  snd (mem_write c m nbits a v) = None ->
  mem_read c (fst (mem_write c m nbits a v)) nbits a = Ok (v mod 2 ^ nbits).
Proof. exact read_own_write_proof. Qed.
Print Assumptions read_own_write.

Theorem distinct_when_wrapping : forall c a k,
  0 <= alen c -> Z.of_nat k <= 2 ^ alen c -> distinct_eff c a k.
Proof. exact distinct_eff_ovf. Qed.
Print Assumptions distinct_when_wrapping.

Theorem distinct_when_not_wrapping : forall c a k, aovf c = false -> distinct_eff c a k.
Proof. exact distinct_eff_noovf. Qed.
Print Assumptions distinct_when_not_wrapping.

(** ** 6. wrap-around *)
Theorem wraps : forall c m nbits a j v, aovf c = true ->
  mem_read c m nbits (a + 2 ^ alen c * j) = mem_read c m nbits a /\
  mem_write c m nbits (a + 2 ^ alen c * j) v = mem_write c m nbits a v.
Proof. exact wraps_proof. Qed.
Print Assumptions wraps.

(** ** RISC-V instance: byte cells, addresses modulo 2^32, range [2^14, 2^32) *)
Theorem rv_cells_wf : forall m nbits a v,
  cells_wf rv_memcfg m -> cells_wf rv_memcfg (fst (mem_write rv_memcfg m nbits a v)).
Proof. exact rv_cells_wf_proof. Qed.
Print Assumptions rv_cells_wf.

Theorem rv_read_spec : forall m nbits a, rv_width nbits -> cells_wf rv_memcfg m ->
  mem_read rv_memcfg m nbits a = flat_read rv_memcfg (cells m) (rv_k nbits) a /\
  (forall v, mem_read rv_memcfg m nbits a = Ok v -> 0 <= v < 2 ^ nbits).
Proof. exact rv_read_spec_proof. Qed.
Print Assumptions rv_read_spec.

Theorem rv_write_spec : forall m nbits a v, rv_width nbits ->
  (forall x, cells (fst (mem_write rv_memcfg m nbits a v)) x =
             fst (flat_write rv_memcfg (cells m) (rv_k nbits) a v) x) /\
  snd (mem_write rv_memcfg m nbits a v) = snd (flat_write rv_memcfg (cells m) (rv_k nbits) a v) /\
  mem_write rv_memcfg m nbits a (v mod 2 ^ nbits) = mem_write rv_memcfg m nbits a v.
Proof. exact rv_write_spec_proof. Qed.
Print Assumptions rv_write_spec.

Theorem rv_eff_mod : forall a, eff rv_memcfg a = a mod 4294967296.
Proof. exact rv_eff. Qed.
Print Assumptions rv_eff_mod.

Theorem rv_valid_range : forall x, valid rv_memcfg x <-> 16384 <= x < 4294967296.
Proof. exact rv_valid. Qed.
Print Assumptions rv_valid_range.

Theorem rv_outside_entirely_unchanged : forall m nbits a v, rv_width nbits ->
  ~ (16384 <= a mod 4294967296 < 4294967296) ->
  mem_write rv_memcfg m nbits a v = (m, Some (EAddr (a mod 4294967296) 16384 4294967295 false)).
Proof. exact rv_outside_unchanged_proof. Qed.
Print Assumptions rv_outside_entirely_unchanged.

Theorem rv_below_first_errors : forall m nbits a v i, rv_width nbits -> cells_wf rv_memcfg m ->
  (i < rv_k nbits)%nat -> (a + Z.of_nat i) mod 4294967296 < 16384 ->
  exists b, ~ (16384 <= b < 4294967296) /\
            mem_read rv_memcfg m nbits a = Err (EAddr b 16384 4294967295 false) /\
            snd (mem_write rv_memcfg m nbits a v) = Some (EAddr b 16384 4294967295 false).
Proof. exact rv_below_first_errors_proof. Qed.
Print Assumptions rv_below_first_errors.

Theorem rv_read_after_writes : forall ws m nbits a, rv_width nbits -> cells_wf rv_memcfg m ->
  mem_read rv_memcfg (mem_run rv_memcfg m ws) nbits a =
  flat_read rv_memcfg (flat_run rv_memcfg (cells m) ws) (rv_k nbits) a.
Proof. exact rv_read_after_writes_proof. Qed.
Print Assumptions rv_read_after_writes.

Theorem rv_read_own_write : forall m nbits a v, rv_width nbits ->
  snd (mem_write rv_memcfg m nbits a v) = None ->
  mem_read rv_memcfg (fst (mem_write rv_memcfg m nbits a v)) nbits a = Ok (v mod 2 ^ nbits).
Proof. exact rv_read_own_write_proof. Qed.
Print Assumptions rv_read_own_write.

Theorem rv_wraps : forall m nbits a j v,
  mem_read rv_memcfg m nbits (a + 4294967296 * j) = mem_read rv_memcfg m nbits a /\
  mem_write rv_memcfg m nbits (a + 4294967296 * j) v = mem_write rv_memcfg m nbits a v.
Proof. exact rv_wraps_proof. Qed.
Print Assumptions rv_wraps.

(** ** TOY instance: 16-bit cells, addresses [0, size), size <= 4096, no wrap-around *)
Theorem toy_cells_wf : forall size m nbits a v,
  cells_wf (toy_memcfg size) m ->
  cells_wf (toy_memcfg size) (fst (mem_write (toy_memcfg size) m nbits a v)).
Proof. exact toy_cells_wf_proof. Qed.
Print Assumptions toy_cells_wf.

Theorem toy_read_spec : forall size m k nbits a,
  nbits = 16 * Z.of_nat k -> cells_wf (toy_memcfg size) m ->
  mem_read (toy_memcfg size) m nbits a = flat_read (toy_memcfg size) (cells m) k a /\
  (forall v, mem_read (toy_memcfg size) m nbits a = Ok v -> 0 <= v < 2 ^ nbits).
Proof. exact toy_read_spec_proof. Qed.
Print Assumptions toy_read_spec.

Theorem toy_write_spec : forall size m k nbits a v, nbits = 16 * Z.of_nat k ->
  (forall x, cells (fst (mem_write (toy_memcfg size) m nbits a v)) x =
             fst (flat_write (toy_memcfg size) (cells m) k a v) x) /\
  snd (mem_write (toy_memcfg size) m nbits a v) = snd (flat_write (toy_memcfg size) (cells m) k a v) /\
  mem_write (toy_memcfg size) m nbits a (v mod 2 ^ nbits) = mem_write (toy_memcfg size) m nbits a v.
Proof. exact toy_write_spec_proof. Qed.
Print Assumptions toy_write_spec.

(* the accesses the TOY machine performs (one 16-bit cell), completely *)
Theorem toy_word : forall size m a v, cells_wf (toy_memcfg size) m ->
  (0 <= a < size ->
     mem_read (toy_memcfg size) m 16 a = Ok (cells m a) /\
     snd (mem_write (toy_memcfg size) m 16 a v) = None /\
     forall x, cells (fst (mem_write (toy_memcfg size) m 16 a v)) x =
               if x =? a then v mod 65536 else cells m x) /\
  (~ (0 <= a < size) ->
     mem_read (toy_memcfg size) m 16 a = Err (EAddr a 0 (size - 1) false) /\
     mem_write (toy_memcfg size) m 16 a v = (m, Some (EAddr a 0 (size - 1) false))).
Proof. exact toy_word_proof. Qed.
Print Assumptions toy_word.

(* no modulo: an address outside [0, size) is an error naming the address itself, and the
   map is unchanged — also when it is congruent to a valid address modulo 4096 *)
Theorem toy_no_wrap : forall size m k nbits a v, nbits = 16 * Z.of_nat k -> (0 < k)%nat ->
  ~ (0 <= a < size) ->
  mem_read (toy_memcfg size) m nbits a = Err (EAddr a 0 (size - 1) false) /\
  mem_write (toy_memcfg size) m nbits a v = (m, Some (EAddr a 0 (size - 1) false)).
Proof. exact toy_no_wrap_proof. Qed.
Print Assumptions toy_no_wrap.

Theorem toy_addresses_12_bit : forall size x, size <= 4096 -> valid (toy_memcfg size) x ->
  0 <= x < 2 ^ alen (toy_memcfg size).
Proof. exact toy_range_proof. Qed.
Print Assumptions toy_addresses_12_bit.

Theorem toy_read_after_writes : forall size ws m k nbits a,
  nbits = 16 * Z.of_nat k -> cells_wf (toy_memcfg size) m ->
  mem_read (toy_memcfg size) (mem_run (toy_memcfg size) m ws) nbits a =
  flat_read (toy_memcfg size) (flat_run (toy_memcfg size) (cells m) ws) k a.
Proof. exact toy_read_after_writes_proof. Qed.
Print Assumptions toy_read_after_writes.

Theorem toy_read_own_write : forall size m k nbits a v, nbits = 16 * Z.of_nat k ->
  snd (mem_write (toy_memcfg size) m nbits a v) = None ->
  mem_read (toy_memcfg size) (fst (mem_write (toy_memcfg size) m nbits a v)) nbits a =
  Ok (v mod 2 ^ nbits).
Proof. exact toy_read_own_write_proof. Qed.
Print Assumptions toy_read_own_write.

(** ** Non-vacuity: concrete histories, expected values taken from the Python implementation
    (architecture_simulator.uarch.memory.memory.Memory, RISC-V and TOY instantiations) *)

(* an unaligned, overlapping write history: word at 0x4001, half-word at 0x4003, byte at
   0x4002, double-word at 0x4004 *)
Definition ex_hist : list wreq :=
  [(32, 16385, 2864434397); (16, 16387, 4386); (8, 16386, 127); (64, 16388, 72623859790382856)].

Example ex_hist_map :
  mem_run rv_memcfg [] ex_hist =
  [(16385, 221); (16386, 127); (16387, 34); (16388, 8); (16389, 7); (16390, 6); (16391, 5);
   (16392, 4); (16393, 3); (16394, 2); (16395, 1)].
Proof. vm_compute. reflexivity. Qed.

Example ex_hist_reads :
  let m := mem_run rv_memcfg [] ex_hist in
  map (fun a => map (fun nbits => mem_read rv_memcfg m nbits a) [8; 16; 32; 64])
      [16384; 16385; 16386; 16387; 16389; 16395] =
  [ [Ok 0;   Ok 56576; Ok 578804992; Ok 361984551569841408];
    [Ok 221; Ok 32733; Ok 136478685; Ok 289644378306281437];
    [Ok 127; Ok 8831;  Ok 117973631; Ok 217304205466542719];
    [Ok 34;  Ok 2082;  Ok 101124130; Ok 144964032628459554];
    [Ok 7;   Ok 1543;  Ok 67438087;  Ok 283686952306183];
    [Ok 1;   Ok 1;     Ok 1;         Ok 1] ].
Proof. vm_compute. reflexivity. Qed.

(* the abstract store, run on the same history from the all-zero function, gives the same reads *)
Example ex_hist_flat :
  let f := flat_run rv_memcfg (fun _ => 0) ex_hist in
  map (fun a => map (fun k => flat_read rv_memcfg f k a) [1; 2; 4; 8]%nat) [16384; 16386; 16395] =
  [ [Ok 0;   Ok 56576; Ok 578804992; Ok 361984551569841408];
    [Ok 127; Ok 8831;  Ok 117973631; Ok 217304205466542719];
    [Ok 1;   Ok 1;     Ok 1;         Ok 1] ].
Proof. vm_compute. reflexivity. Qed.

(* wrap-around at 0xFFFFFFFE: a half-word fits (cells 0xFFFFFFFE, 0xFFFFFFFF) … *)
Example ex_wrap_half :
  mem_write rv_memcfg [] 16 4294967294 48879 = ([(4294967294, 239); (4294967295, 190)], None).
Proof. vm_compute. reflexivity. Qed.

(* … a word does not: its third cell is effective address 0 < 0x4000; the first two bytes ARE
   written before the error (the Python raises in the middle of its loop) *)
Example ex_wrap_word :
  mem_write rv_memcfg [(4294967294, 239); (4294967295, 190)] 32 4294967294 305419896 =
  ([(4294967294, 120); (4294967295, 86)], Some (EAddr 0 16384 4294967295 false)).
Proof. vm_compute. reflexivity. Qed.

Example ex_wrap_reads :
  let m := [(4294967294, 120); (4294967295, 86)] in
  [ mem_read rv_memcfg m 32 4294967294;                     (* touches address 0 *)
    mem_read rv_memcfg m 16 4294967294;
    mem_read rv_memcfg m 16 (-2);                            (* -2 = 0xFFFFFFFE mod 2^32 *)
    mem_read rv_memcfg m 16 (4294967294 + 3 * 4294967296);
    mem_read rv_memcfg m 8 4294967295;
    mem_read rv_memcfg m 8 4294967296;                       (* = address 0 *)
    mem_read rv_memcfg m 8 (4294967296 + 16384) ] =          (* = address 0x4000, never written *)
  [ Err (EAddr 0 16384 4294967295 false); Ok 22136; Ok 22136; Ok 22136; Ok 86;
    Err (EAddr 0 16384 4294967295 false); Ok 0 ].
Proof. vm_compute. reflexivity. Qed.

(* below the first data address: nothing is written when the FIRST cell is bad *)
Example ex_below :
  [ mem_write rv_memcfg [] 32 16382 305419896; mem_write rv_memcfg [] 32 16381 305419896;
    mem_write rv_memcfg [] 16 16383 65535; mem_write rv_memcfg [] 32 16384 305419896 ] =
  [ ([], Some (EAddr 16382 16384 4294967295 false)); ([], Some (EAddr 16381 16384 4294967295 false));
    ([], Some (EAddr 16383 16384 4294967295 false));
    ([(16384, 120); (16385, 86); (16386, 52); (16387, 18)], None) ].
Proof. vm_compute. reflexivity. Qed.

(* TOY: 16-bit cells, no modulo *)
Example ex_toy :
  let c := toy_memcfg 4096 in
  let m := fst (mem_write c [] 16 4095 65535) in
  (m, [ snd (mem_write c m 16 4096 1); snd (mem_write c m 16 (-1) 1) ],
   [ mem_read c m 16 4095; mem_read c m 16 4096; mem_read c m 16 (-1); mem_read c m 16 5;
     mem_read c m 16 (4096 + 5) ]) =
  ([(4095, 65535)],
   [ Some (EAddr 4096 0 4095 false); Some (EAddr (-1) 0 4095 false) ],
   [ Ok 65535; Err (EAddr 4096 0 4095 false); Err (EAddr (-1) 0 4095 false); Ok 0;
     Err (EAddr 4101 0 4095 false) ]).
Proof. vm_compute. reflexivity. Qed.

Example ex_toy_small :
  let c := toy_memcfg 100 in
  let m := fst (mem_write c [] 16 99 7) in
  (m, snd (mem_write c m 16 100 1), mem_read c m 16 (4096 + 99), mem_read c m 32 98) =
  ([(99, 7)], Some (EAddr 100 0 99 false), Err (EAddr 4195 0 99 false), Ok 458752).
Proof. vm_compute. reflexivity. Qed.

(* the hypotheses of the theorems are satisfiable: the empty memory and the memory after the
   example history are well-formed, a successful wide write exists and is read back *)
Example ex_wf : cells_wf rv_memcfg (mem_run rv_memcfg [] ex_hist).
Proof. exact (mem_run_wf rv_memcfg ex_hist ltac:(discriminate) [] (cells_wf_nil rv_memcfg ltac:(discriminate))). Qed.

Example ex_own_write :
  snd (mem_write rv_memcfg [] 64 16389 (-1)) = None /\
  mem_read rv_memcfg (fst (mem_write rv_memcfg [] 64 16389 (-1))) 64 16389 = Ok 18446744073709551615.
Proof. vm_compute. split; reflexivity. Qed.
