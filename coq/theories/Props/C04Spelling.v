(* C04Spelling.v — property C04 at the level of load_program on SOURCE TEXT (Lex.rv_load_text = tokenizer +
   assembler): "ABI and xN register names are interchangeable; numbers may be decimal, hexadecimal or binary with
   optional sign; mnemonics are case-insensitive; layout and comments do not matter" — about the assembled RESULT:
   same error (with its line number), same image (instructions, labels, variables), same state (data memory).
   Vocabulary (Proofs/LexSpell1,3,4):
     reg_eq a b      reg_num a = reg_num b;   lit0_eq a b: py_int0 a = py_int0 b (fields read with int(text, 0):
                     imm, csr, uimm, offset, data values);   lit10_eq a b: py_int10 a = py_int10 b (fields read with
                     int(text): .zero count, array index)
     nline_rel       two token lines of the lexer are equal except for register tokens related by reg_eq and
                     literals related by lit0_eq / lit10_eq (names, mnemonic, string contents, structure: equal)
     line_rel l l'   both lines give no entry, or both are rejected by the grammar, or both lex to nline_rel lines
     same_up_to_spelling = Forall2 line_rel  (same number of lines, line by line)
   There is NO place where the assembler looks at the text of a register or number instead of its value: the
   theorem has no side condition.  (Where the GRAMMAR reads a word as a NAME — label, variable — it is a name:
   see name_position_example.) *)
From Coq Require Import String.
From Coq Require Import ZArith List Bool.
From ArchSim Require Import Model.Base Model.Mem Model.Cache Model.Fmt Model.RV Model.Toy Model.Asm Model.Lex
  Proofs.LexProofs1 Proofs.LexProofs2 Proofs.LexProofs3 Proofs.LexProofs6 Proofs.LexProofs7 Proofs.LexProofs8
  Proofs.LexProofs9 Proofs.LexSpell1 Proofs.LexSpell2 Proofs.LexSpell3 Proofs.LexSpell4.
Import ListNotations.
Open Scope Z_scope.

(** the main theorem *)
Theorem rv_load_text_spelling_independent : forall s ls ls',
  same_up_to_spelling ls ls' -> rv_load_text s ls = rv_load_text s ls'.
Proof. exact rv_load_text_spelling. Qed.

(* after tokenisation: the assembler on token lines related by rline_rel (registers by reg_num, literals by value) *)
Theorem assemble_spelling_independent : forall toks toks' m, toks_rel toks toks' -> assemble toks m = assemble toks' m.
Proof. exact assemble_rel. Qed.
(* the relation is decidable; [spelling_check] is used for the closed examples *)
Theorem spelling_check_sound : forall ls ls', spelling_check ls ls' = true -> same_up_to_spelling ls ls'.
Proof. exact spelling_check_ok. Qed.
(* lines with the same lexing result are related: this brings in layout, comments and mnemonic case *)
Theorem equal_lexing_is_related : forall l l', lex_line l = lex_line l' -> line_rel l l'.
Proof. exact line_rel_of_eq. Qed.

(** corollaries, whole texts.  [lineG Rr R0 R10 l l']: l = l', or both lines lex, to token lines that are equal except
    that registers are related by Rr, int(text,0)-literals by R0 and int(text)-literals by R10. *)
(* (1) any register operand may be written with the other spelling of the same register (reg_alt: ABI name <-> xN,
   s0 <-> fp) *)
Theorem abi_xn_interchangeable : forall s ls ls',
  Forall2 (lineG reg_alt eq eq) ls ls' -> rv_load_text s ls = rv_load_text s ls'.
Proof. exact abi_xn_lem. Qed.
(* (2) any number may be written in another base / with leading zeros where Python accepts them: literals with the
   same value under the conversion the assembler applies to that field *)
Theorem number_base_interchangeable : forall s ls ls',
  Forall2 (lineG eq lit0_eq lit10_eq) ls ls' -> rv_load_text s ls = rv_load_text s ls'.
Proof. exact number_base_lem. Qed.
(* (3) the case of mnemonic letters (case_variant: the hypotheses of lex_mnemonic_case / _label of Props/C04Lex.v) *)
Theorem mnemonic_case_interchangeable : forall s ls ls',
  Forall2 case_variant ls ls' -> rv_load_text s ls = rv_load_text s ls'.
Proof. exact mnemonic_case_lem. Qed.
(* (4) indentation, blanks next to separators, trailing blanks, comments, and the content of comment/blank lines
   (layout_variant: the hypotheses of lex_ignores_layout / lex_ignores_outer_layout, closed under symmetry and
   transitivity) *)
Theorem layout_and_comments_irrelevant : forall s ls ls',
  Forall2 layout_variant ls ls' -> rv_load_text s ls = rv_load_text s ls'.
Proof. exact layout_comments_lem. Qed.
Theorem reg_alt_same_number : forall a b, reg_alt a b -> reg_num a = reg_num b.
Proof. exact reg_alt_eq. Qed.

(** non-vacuity: data, labels, la / lw by name / sw by name / li / mv, all spellings at once *)
Theorem spelling_example :
  prog1 = [ S ".data"; S "tab: .word 10, -1, 0x10"; S "buf: .zero 2"; S ""; S ".text";
    S "main: la a0, tab"; S "loop: lw t0, tab[1]"; S "addi t0, t0, -16"; S "li t1, 0x12345"; S "sw t0, buf[1], t2";
    S "beq t0, zero, end"; S "jal ra, loop+0x4"; S "end: mv a1, fp"; S "ecall" ] /\
  prog2 = [ S "   .data   # data"; S "tab:.word 0xA , -0b1, 16"; S "buf: .zero 02"; S "# text follows"; tab ++ S ". text";
    S "main:  LA x10, tab"; S "loop: LW x5,tab[01]   # load"; S "  ADDI x5, x5, -0x10"; S "Li x6, 74565";
    S "sw x5 , buf[1] , x7"; S "BEQ x5, x0, end"; S "jal x1, loop + 0x4"; S "end: MV x11,s0"; tab ++ S "ECALL  " ] /\
  spelling_check prog1 prog2 = true /\
  rv_load_text st0 prog1 = rv_load_text st0 prog2.
Proof. exact (conj eq_refl (conj eq_refl (conj ex_spelling_check ex_spelling_load))). Qed.
Theorem spelling_example_value :
  (let '(s', e, img) := rv_load_text st0 prog1 in
   (e, option_map (fun i => (List.length (i_instrs i), i_labels i, i_vars i)) img)) =
  (None, Some (15%nat, [(3, 0); (4, 8); (5, 52)], [(1, (16384, 4)); (2, (16396, 4))])).
Proof. exact ex_spelling_value. Qed.
Theorem spelling_error_example :
  rv_load_text st0 [S "nop"; S "li a0, 0x1"; S "beq a0, x0, nowhere"] =
  rv_load_text st0 [S "NOP # x"; S "  li x10, 1"; S "BEQ x10,zero,nowhere"] /\
  snd (fst (rv_load_text st0 [S "nop"; S "li a0, 0x1"; S "beq a0, x0, nowhere"])) = Some (PLabel 3).
Proof. exact ex_spelling_error. Qed.
Theorem name_position_example :
  spelling_check [S ".data"; S "a0: .word 1"; S ".text"; S "lw t0, a0"] [S ".data"; S "a0: .word 1"; S ".text"; S "lw t0, x10"] = false /\
  snd (fst (rv_load_text st0 [S ".data"; S "a0: .word 1"; S ".text"; S "lw t0, a0"])) = None /\
  snd (fst (rv_load_text st0 [S ".data"; S "a0: .word 1"; S ".text"; S "lw t0, x10"])) = Some (PVariable 4).
Proof. exact ex_name_position. Qed.

Print Assumptions rv_load_text_spelling_independent.
Print Assumptions assemble_spelling_independent.
Print Assumptions spelling_check_sound.
Print Assumptions equal_lexing_is_related.
Print Assumptions abi_xn_interchangeable.
Print Assumptions number_base_interchangeable.
Print Assumptions mnemonic_case_interchangeable.
Print Assumptions layout_and_comments_irrelevant.
Print Assumptions reg_alt_same_number.
Print Assumptions spelling_example.
Print Assumptions spelling_example_value.
Print Assumptions spelling_error_example.
Print Assumptions name_position_example.
