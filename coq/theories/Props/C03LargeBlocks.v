(* Props/C03LargeBlocks.v — property C03 beyond the geometry bound bbits <= 12 of [cfg_ok]
   (Proofs/CacheInv.v), finding D9: what exactly is true of the data cache for blocks of 2^15
   bytes and more.  Only statements; proofs in Proofs/LargeBlock*.v.

   The bound is not a proof convenience.  For bbits <= 12 the block size divides 2^14, so an
   address and the base of its block lie on the same side of the first data address 2^14
   ([small_blocks_same_side]).  For bbits >= 13 the block that contains 2^14 has base 0 < 2^14 and
   FETCHING it fails.  Reads and write-back writes fetch the block on a miss: they work iff the
   BLOCK BASE is >= 2^14.  Write-through writes never fetch: they work iff the ADDRESS is >= 2^14.
   With [cfg_ok_large] (cfg_ok without the bound), the invariant [CInv_large] (the invariant of
   Proofs/CacheInv.v, word for word, over cfg_ok_large) and [Flat_large f d] (f holds the logical
   contents of d) — definitions in Proofs/LargeBlockInv1.v, a copy of CacheInv.v —:

   (1) [large_block_first_block_fails]: block base < 2^14 => every read (any width, counted or not,
       crossing a word or not) and every write-back write is answered
       [EAddr (block base) 16384 4294967295 false] and the cache — directory, replacement state,
       lower memory, counters — is EXACTLY as before; such a block is never resident
       ([no_low_block_resident]).
       The statement requested for BOTH write policies is FALSE for write-through stores:
       [wt_store_below_base_refuted] — a write-through store to 2^14 with bbits = 13 is ACCEPTED
       (it goes to the lower memory without a block fetch), yet the value can never be read back
       through the cache (the load is refused).
   (2) [large_block_elsewhere_transparent_read] / [_write]: where the threshold quantity
       ([wthreshold]: block base; the address for write-through writes) is >= 2^14 the access is
       answered exactly as by the flat memory of the logical contents, the flat memory after a write
       holds the logical contents again, and the invariant is kept — the statements of Props/C03.v
       with that side condition; accepted accesses are transparent without any side condition
       ([accepted_read_transparent], [accepted_write_transparent]).  The invariant holds initially
       and is kept by EVERY access ([cinv_large_init], [cinv_large_step_*]).
       Where the bound 12 was used in the existing proofs: only in [decode_spec] (CacheArith.v,
       the equivalence address >= 2^14 <-> block base >= 2^14) and through it in [inword_range],
       [blk_off], [dc_read_ok] and [write_post]; with these four restated over the block base the
       remaining 1500 lines of CacheInv.v compile unchanged.
   (3) [large_block_read_iff] / [large_block_write_iff]: for an in-word access to an address in
       the data range, "answered as by flat memory" <=> threshold >= 2^14. *)
From ArchSim Require Import Model.Base Model.Mem Model.Cache
  Proofs.CacheArith Proofs.LargeBlockArith Proofs.LargeBlockInv1 Proofs.LargeBlockInv2 Proofs.LargeBlockInv3
  Proofs.LargeBlockC03.
Open Scope Z_scope.

(** ** 0. Vocabulary *)
Theorem cfg_ok_large_meaning : forall c,
  cfg_ok_large c <->
  0 <= ibits c /\ 0 <= bbits c /\ ibits c + bbits c + 2 <= 32 /\ 1 <= assoc c /\
  (plru c = true -> exists k : nat, assoc c = 2 ^ Z.of_nat k).
Proof. exact cfg_ok_large_eq. Qed.
Print Assumptions cfg_ok_large_meaning.

Theorem Flat_large_meaning : forall f d,
  Flat_large f d <-> (forall a, 0 <= a < 4294967296 -> mget f a = logical_large d a).
Proof. exact Flat_large_eq. Qed.
Print Assumptions Flat_large_meaning.

(* the block base: a multiple of the block size 2^(bbits+2), at most the address, more than the
   address minus the block size *)
Theorem block_base_meaning : forall d a, CInv_large d ->
  (exists q, 0 <= q /\ block_base d a = q * 2 ^ (bbits (cfg (dc d)) + 2)) /\
  block_base d a <= a mod 4294967296 < block_base d a + 2 ^ (bbits (cfg (dc d)) + 2).
Proof. exact block_base_meaning_lem. Qed.
Print Assumptions block_base_meaning.

Theorem wthreshold_meaning : forall d a,
  wthreshold d a = if wthrough d then a mod 4294967296 else block_base d a.
Proof. exact wthreshold_eq. Qed.
Print Assumptions wthreshold_meaning.

(* up to bbits = 12 address and block base are on the same side of 2^14: nothing changes *)
Theorem small_blocks_same_side : forall d a, CInv_large d -> bbits (cfg (dc d)) <= 12 ->
  (16384 <= a mod 4294967296 <-> 16384 <= block_base d a).
Proof. exact LargeBlockC03.small_blocks_same_side. Qed.
Print Assumptions small_blocks_same_side.

(** ** The invariant: initial state, every access *)
Theorem cinv_large_init : forall c wt pen, cfg_ok_large c -> CInv_large (dcache_init c wt pen).
Proof. exact cinv_init_large. Qed.
Print Assumptions cinv_large_init.

Theorem cinv_large_init_lower : forall c wt pen m, cfg_ok_large c -> bytes_ok m ->
  CInv_large (upd_lower (dcache_init c wt pen) m) /\ Flat_large m (upd_lower (dcache_init c wt pen) m).
Proof. exact cinv_init_lower_large. Qed.
Print Assumptions cinv_large_init_lower.

Theorem cinv_large_step_read : forall d nbits a counted r d' p, CInv_large d ->
  dc_read d nbits a counted = (r, d', p) ->
  CInv_large d' /\ wthrough d' = wthrough d /\ cfg (dc d') = cfg (dc d).
Proof. exact cinv_step_read_large. Qed.
Print Assumptions cinv_large_step_read.

Theorem cinv_large_step_write : forall d nbits a v e d' p, CInv_large d -> okw nbits -> 0 <= v < 2 ^ nbits ->
  dc_write d nbits a v false = (e, d', p) ->
  CInv_large d' /\ wthrough d' = wthrough d /\ cfg (dc d') = cfg (dc d).
Proof. exact cinv_step_write_large. Qed.
Print Assumptions cinv_large_step_write.

(** ** 1. Block base below 2^14 *)
Theorem large_block_first_block_fails : forall d nbits a,
  CInv_large d -> block_base d a < 16384 ->
  (forall counted, dc_read d nbits a counted = (Err (EAddr (block_base d a) 16384 4294967295 false), d, 0)) /\
  (forall v, wthrough d = false ->
     dc_write d nbits a v false = (Some (EAddr (block_base d a) 16384 4294967295 false), d, 0)).
Proof. exact first_block_fails_lem. Qed.
Print Assumptions large_block_first_block_fails.

Theorem no_low_block_resident : forall d a b, CInv_large d -> res_block (dc d) a = Some b ->
  16384 <= block_base d a.
Proof. exact LargeBlockC03.no_low_block_resident. Qed.
Print Assumptions no_low_block_resident.

(** ** 2. Elsewhere: transparent *)
Theorem large_block_elsewhere_transparent_read : forall d f nbits a counted r d' p,
  CInv_large d -> Flat_large f d -> okw nbits -> in_word nbits a ->
  dc_read d nbits a counted = (r, d', p) ->
  CInv_large d' /\ Flat_large f d' /\
  (16384 <= block_base d a -> r = mem_read rv_memcfg f nbits a /\ exists v, r = Ok v) /\
  (block_base d a < 16384 -> r = Err (EAddr (block_base d a) 16384 4294967295 false)).
Proof. exact read_large. Qed.
Print Assumptions large_block_elsewhere_transparent_read.

Theorem large_block_elsewhere_transparent_write : forall d f nbits a v e d' p,
  CInv_large d -> Flat_large f d -> okw nbits -> 0 <= v < 2 ^ nbits -> in_word nbits a ->
  dc_write d nbits a v false = (e, d', p) ->
  CInv_large d' /\
  (16384 <= wthreshold d a ->
     e = None /\ snd (mem_write rv_memcfg f nbits a v) = None /\
     Flat_large (fst (mem_write rv_memcfg f nbits a v)) d') /\
  (wthreshold d a < 16384 -> e = Some (EAddr (wthreshold d a) 16384 4294967295 false) /\ Flat_large f d').
Proof. exact write_large. Qed.
Print Assumptions large_block_elsewhere_transparent_write.

Theorem accepted_read_transparent : forall d f nbits a counted v d' p,
  CInv_large d -> Flat_large f d -> okw nbits ->
  dc_read d nbits a counted = (Ok v, d', p) ->
  mem_read rv_memcfg f nbits a = Ok v /\ Flat_large f d' /\ CInv_large d' /\ 16384 <= block_base d a.
Proof. exact read_transparent_large. Qed.
Print Assumptions accepted_read_transparent.

Theorem accepted_write_transparent : forall d f nbits a v d' p,
  CInv_large d -> Flat_large f d -> okw nbits -> 0 <= v < 2 ^ nbits ->
  dc_write d nbits a v false = (None, d', p) ->
  snd (mem_write rv_memcfg f nbits a v) = None /\ Flat_large (fst (mem_write rv_memcfg f nbits a v)) d' /\
  CInv_large d' /\ 16384 <= wthreshold d a.
Proof. exact write_transparent_large. Qed.
Print Assumptions accepted_write_transparent.

(** ** 3. The exact condition *)
Theorem large_block_read_iff : forall d f nbits a counted,
  CInv_large d -> Flat_large f d -> okw nbits -> in_word nbits a -> 16384 <= a mod 4294967296 ->
  (fst (fst (dc_read d nbits a counted)) = mem_read rv_memcfg f nbits a <-> 16384 <= block_base d a).
Proof. exact read_iff. Qed.
Print Assumptions large_block_read_iff.

Theorem large_block_write_iff : forall d f nbits a v,
  CInv_large d -> Flat_large f d -> okw nbits -> 0 <= v < 2 ^ nbits -> in_word nbits a ->
  16384 <= a mod 4294967296 ->
  (fst (fst (dc_write d nbits a v false)) = snd (mem_write rv_memcfg f nbits a v) <-> 16384 <= wthreshold d a).
Proof. exact write_iff. Qed.
Print Assumptions large_block_write_iff.

(** ** 1'. The requested clause "(1) for both write policies" is false for write-through stores *)
Theorem wt_store_below_base_refuted :
  exists d a v, CInv_large d /\ wthrough d = true /\ okw 32 /\ in_word 32 a /\
    block_base d a < 16384 /\ res_block (dc d) a = None /\
    fst (fst (dc_write d 32 a v false)) = None /\
    let d' := snd (fst (dc_write d 32 a v false)) in
    mget (lower d') a = v /\ res_block (dc d') a = None /\
    fst (fst (dc_read d' 32 a true)) = Err (EAddr 0 16384 4294967295 false).
Proof. exact wt_store_below_base_refuted_lem. Qed.
Print Assumptions wt_store_below_base_refuted.

(** ** Non-vacuity: bbits = 13 (one block of 2^15 bytes per frame, direct mapped, LRU) and
    bbits = 14 (blocks of 2^16 bytes, 2 sets, 2 ways, PLRU) *)
Example large_geometries_ok : cfg_ok_large g13 /\ cfg_ok_large g14.
Proof. exact (conj g13_ok g14_ok). Qed.

(* D9: the first data address cannot be read; the cache is unchanged; both write policies *)
Example d9_first_block :
  forall wt, dc_read (dcache_init g13 wt 0) 32 16384 true =
             (Err (EAddr 0 16384 4294967295 false), dcache_init g13 wt 0, 0) /\
             dc_read (dcache_init g14 wt 0) 8 65535 false =
             (Err (EAddr 0 16384 4294967295 false), dcache_init g14 wt 0, 0) /\
             fst (fst (dc_write (dcache_init g13 false 0) 16 32766 1 false)) = Some (EAddr 0 16384 4294967295 false).
Proof. intros [|]; vm_compute; repeat split. Qed.

(* elsewhere the cache works: bbits = 13, block base 2^15; bbits = 14, block base 2^16 *)
Example large_blocks_elsewhere :
  let d13 := snd (fst (dc_write (dcache_init g13 false 10) 32 32772 3735928559 false)) in
  let d14 := snd (fst (dc_write (dcache_init g14 false 10) 16 65538 4660 false)) in
  block_base (dcache_init g13 false 10) 32772 = 32768 /\
  fst (fst (dc_write (dcache_init g13 false 10) 32 32772 3735928559 false)) = None /\
  fst (fst (dc_read d13 32 32772 true)) = Ok 3735928559 /\ fst (fst (dc_read d13 8 32775 true)) = Ok 222 /\
  block_base (dcache_init g14 false 10) 65538 = 65536 /\
  fst (fst (dc_read d14 16 65538 true)) = Ok 4660 /\ fst (fst (dc_read d14 32 65536 true)) = Ok 305397760 /\
  (hits d14, accesses d14) = (0, 1).
Proof. vm_compute. repeat split. Qed.
