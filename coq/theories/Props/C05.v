(* Props/C05.v — property C05:
   "Variables declared in the data segment are laid out in declaration order from the first data
    address (2^14), each starting on a 4-byte boundary, with .byte/.half/.word elements stored
    little-endian at 1/2/4-byte strides (values reduced modulo the element width), strings as their
    bytes plus a terminating zero, and .zero n reserving n zeroed words; whether .data comes before
    or after .text does not matter.  Referring to name or name[i] in la, load or store
    pseudo-instructions yields the address of element i of that variable [...].  li rd, c leaves
    exactly c modulo 2^32 in rd for every constant c, and la rd, name leaves the variable's address."

   Only statements; every proof is [exact <lemma>] into Proofs/C05Proofs.v.

   Vocabulary (defined in Proofs/C05Proofs.v next to the section that uses it, independent of the
   proofs; positional / is_dec_char / is_hex_char / dec_digit / hex_digit come from Proofs/C19Proofs.v):
     is_bin_char c        c is '0' or '1'
     imm_shape s          s matches the token pattern of an immediate: optional '-', then
                          "0x"+non-empty hex digits | "0b"+non-empty bits | non-empty decimal digits
     dec_rejected u       u is a decimal digit string with more than 4300 characters, or with a leading
                          '0' followed by further characters not all of which are '0'
     leading_zero s       s has at least two characters and starts with '0'
     exec_list l s        behavior of the instructions of l in sequence, stopping at the first exception
     assemble_line vars labels addr ln b
                          the instructions one source line yields: expand_one, then instantiate on the
                          entries of that line
     esize ty             1 / 2 / 4 for .byte / .half / .word (ty = 0 / 1 / 2)
     le_bytes n v         the n low bytes of v, least significant first
     lit_values vals      Some (the values) when int(.., 0) accepts every literal
     decl_image l         Some (name, element size, byte image, extent) of a declaration line
     lay data a           Some (the list of placed variables, end address): declaration k at align4 of
                          the end of declaration k-1, the first at align4 a
     vlay                 record: vl_name, vl_start, vl_esize, vl_bytes, vl_extent
     table L              the variable-table entries (name, (start, element size)) of L
     chain a L e          L starts at align4 a, every next variable at align4 (start + extent) of the
                          previous one, and e is the end of the last one
     placed a e v         a <= start, start multiple of 4, |bytes| <= extent, start+extent <= e,
                          element size 1, 2 or 4
     in_var v x           vl_start v <= x < vl_start v + |vl_bytes v|
     overlay L f x        the byte of the variable of L containing x, or f x outside all of them
     zero_ok data         every .zero count is a string of decimal digits (token pattern)
     lift_lower d r       a result computed on the flat memory [lower d], put back under the cache d
     plain_rline / renumber / same_outcome / erase_line   see section 7
   Strings are lists of character codes; names are interned as integers; token lines are pairs
   (line number, rline); directive 1 is .data and 0 is .text.
   Memory cells are observed with [mget m a] (0 for a cell never written). *)
From Coq Require Import String Lia.
From ArchSim Require Import Model.Base Model.Mem Model.Cache Model.Fmt Model.RV Model.Toy Model.Asm
  Model.Single Proofs.C01Step Proofs.C19Proofs Proofs.C05Proofs.
Open Scope Z_scope.

(** ** 1. Literals: int(text, base=0) on the token pattern *)

(* decimal renderings (what the expansions print and re-parse) read back, up to 4300 digits *)
Theorem literal_value_decimal :
  (forall z, - 10 ^ 4300 < z < 10 ^ 4300 -> py_int0 (str_dec z) = Some z) /\
  (forall z, 0 <= z < 10 ^ 4300 -> py_int0 (45 :: str_dec z) = Some (- z)).
Proof. exact literal_value_decimal_lem. Qed.
Print Assumptions literal_value_decimal.

(* "0x.." with upper- or lower-case digits (any number of them), either sign *)
Theorem literal_value_hex : forall h, Forall is_hex_char h ->
  py_int0 (48 :: 120 :: h) = Some (positional 16 (map hex_digit h)) /\
  py_int0 (45 :: 48 :: 120 :: h) = Some (- positional 16 (map hex_digit h)).
Proof. exact py_int0_hex_lem. Qed.
Print Assumptions literal_value_hex.

Theorem literal_value_bin : forall b, Forall is_bin_char b ->
  py_int0 (48 :: 98 :: b) = Some (positional 2 (map dec_digit b)) /\
  py_int0 (45 :: 48 :: 98 :: b) = Some (- positional 2 (map dec_digit b)).
Proof. exact py_int0_bin_lem. Qed.
Print Assumptions literal_value_bin.

(* decimal digit strings: value / zero / refused *)
Theorem literal_value_digits : forall s, Forall is_dec_char s -> s <> [] ->
  (Z.of_nat (List.length s) <= 4300 -> leading_zero s = false ->
     py_int0 s = Some (positional 10 (map dec_digit s)) /\
     py_int0 (45 :: s) = Some (- positional 10 (map dec_digit s))) /\
  (Z.of_nat (List.length s) <= 4300 -> (forall c, In c s -> c = 48) ->
     py_int0 s = Some 0 /\ py_int0 (45 :: s) = Some 0) /\
  (leading_zero s = true -> (exists c, In c s /\ c <> 48) -> py_int0 s = None /\ py_int0 (45 :: s) = None) /\
  (Z.of_nat (List.length s) > 4300 -> py_int0 s = None /\ py_int0 (45 :: s) = None).
Proof. exact py_int0_dec_lem. Qed.
Print Assumptions literal_value_digits.

(* exactly which literals of the token pattern int(.., 0) refuses *)
Theorem literal_refused_iff : forall s, imm_shape s ->
  (py_int0 s = None <-> exists u, (s = u \/ s = 45 :: u) /\ dec_rejected u).
Proof. exact py_int0_none_iff_lem. Qed.
Print Assumptions literal_refused_iff.

Example literal_ex :
  py_int0 (codes "-128") = Some (-128) /\ py_int0 (codes "0x1aF") = Some 431 /\
  py_int0 (codes "-0b101") = Some (-5) /\ py_int0 (codes "000") = Some 0 /\ py_int0 (codes "-0") = Some 0 /\
  py_int0 (codes "01") = None /\ py_int0 (codes "007") = None /\ py_int0 (codes "-010") = None.
Proof. vm_compute. repeat split; reflexivity. Qed.
(* 4300 digits are accepted, 4301 are not (hexadecimal literals have no limit: literal_value_hex) *)
Example literal_limit_ex :
  (if py_int0 (repeat 49 4300) then true else false) = true /\
  (if py_int0 (repeat 49 4301) then true else false) = false.
Proof. vm_compute. repeat split; reflexivity. Qed.
Example imm_shape_ex : imm_shape (codes "-0x1aF") /\ imm_shape (codes "007") /\ dec_rejected (codes "007").
Proof.
  split; [|split].
  - right. exists (codes "0x1aF"). split; [reflexivity|]. apply UHex; [discriminate|].
    unfold is_hex_char. repeat constructor; cbn; lia.
  - left. apply UDec; [discriminate|]. unfold is_dec_char. repeat constructor; cbn; lia.
  - split; [unfold is_dec_char; repeat constructor; cbn; lia|]. right.
    exists (codes "07"). split; [reflexivity|]. split; [discriminate|]. exists 55. split; [right; left; reflexivity | discriminate].
Qed.

(** ** 2. The lui/addi split *)

Theorem hi_lo_correct : forall v hi lo, hi_lo v = (hi, lo) ->
  0 <= lo < 4096 /\ 0 <= hi <= 2 ^ 20 /\
  lo = v mod 4096 /\
  hi = (v mod 2 ^ 32) / 4096 + (if lo >? 2047 then 1 else 0) /\
  U32 (Z.shiftl (sext20 hi) 12 + sext12 lo) = U32 v.
Proof. exact hi_lo_correct_lem. Qed.
Print Assumptions hi_lo_correct.

(* the carry (lo > 2047) and the wrap of hi = 2^20 (sext20 gives 0) both occur *)
Example hi_lo_ex :
  hi_lo 74565 = (18, 837) /\ hi_lo 4095 = (1, 4095) /\ hi_lo (-1) = (1048576, 4095) /\
  sext20 1048576 = 0 /\ sext12 4095 = -1 /\ hi_lo (2 ^ 32 + 5) = (0, 5).
Proof. vm_compute. repeat split; reflexivity. Qed.

(** ** 3. li rd, c *)

Theorem li_correct : forall vars labels addr ln i rd imm c r s,
  k_mn i = MN_LI -> k_rd i = Some rd -> k_imm i = Some imm ->
  py_int0 imm = Some c -> reg_num rd = Some r -> 0 < r < 32 -> wf_regs (regs s) ->
  exists ins,
    assemble_line vars labels addr ln (BIns i) = POk ins /\
    ins = (if (-2048 <=? c) && (c <=? 2047) then [mk (II ADDI r 0 c)]
           else [mk (ILui r (fst (hi_lo c))); mk (II ADDI r r (snd (hi_lo c)))]) /\
    (List.length ins = 1%nat <-> -2048 <= c <= 2047) /\ (List.length ins = 2%nat <-> ~ -2048 <= c <= 2047) /\
    exec_list ins s = (rset s r (c mod 2 ^ 32), None).
Proof. exact li_correct_lem. Qed.
Print Assumptions li_correct.

(* what [rset s r v] means for 0 < r < 32: r holds v, nothing else changes *)
Theorem rset_meaning : forall s r v,
  (0 < r < 32 -> rget (rset s r v) r = v) /\
  (forall k, k <> r -> rget (rset s r v) k = rget s k) /\
  ms (rset s r v) = ms s /\ out (rset s r v) = out s /\ pc (rset s r v) = pc s /\ im (rset s r v) = im s /\
  exitc (rset s r v) = exitc s /\ cycles (rset s r v) = cycles s.
Proof. exact rset_meaning_lem. Qed.
Print Assumptions rset_meaning.

(** ** 4. la, load by name, store by name *)

Theorem la_correct : forall vars labels addr ln i v rd target r s,
  k_mn i = MN_LA -> k_var i = Some v -> k_reg1 i = Some rd ->
  var_address vars v ln = POk target -> reg_num rd = Some r -> 0 < r < 32 ->
  exists ins,
    assemble_line vars labels addr ln (BIns i) = POk ins /\
    ins = [mk (ILui r (fst (hi_lo target))); mk (II ADDI r r (snd (hi_lo target)))] /\
    exec_list ins s = (rset s r (U32 target), None).
Proof. exact la_correct_lem. Qed.
Print Assumptions la_correct.

(* with the table spelled out: la rd, name and la rd, name[k] *)
Theorem la_elem_correct : forall vars labels addr ln i n idx rd a size r s,
  k_mn i = MN_LA -> k_var i = Some (n, idx) -> k_reg1 i = Some rd ->
  var_lookup vars n = Some (a, size) -> reg_num rd = Some r -> 0 < r < 32 ->
  forall target,
  (idx = None /\ target = a \/ exists d k, idx = Some d /\ py_int10 d = Some k /\ target = a + size * k) ->
  exists ins,
    assemble_line vars labels addr ln (BIns i) = POk ins /\ List.length ins = 2%nat /\
    exec_list ins s = (rset s r (U32 target), None) /\
    rget (rset s r (U32 target)) r = target mod 2 ^ 32 /\
    (forall k, k <> r -> rget (rset s r (U32 target)) k = rget s k) /\
    ms (rset s r (U32 target)) = ms s /\ out (rset s r (U32 target)) = out s.
Proof. exact la_elem_lem. Qed.
Print Assumptions la_elem_correct.

(* l{b,h,w,bu,hu} rd, name[i]: the address is built in rd itself, then the load reads from it *)
Theorem load_by_name_correct : forall vars labels addr ln i v rd target r s,
  27 <= k_mn i <= 31 -> k_var i = Some v -> k_reg1 i = Some rd ->
  var_address vars v ln = POk target -> reg_num rd = Some r -> 0 < r < 32 ->
  let o := lop_of_mn (k_mn i) in
  let s1 := rset s r (U32 target) in
  exists ins,
    assemble_line vars labels addr ln (BIns i) = POk ins /\
    ins = [mk (ILui r (fst (hi_lo target))); mk (II ADDI r r (snd (hi_lo target))); ILoad o r r 0] /\
    exec_list ins s = behavior (ILoad o r r 0) s1 /\
    behavior (ILoad o r r 0) s1 =
      match st_read s1 (load_bits o) (U32 target) true with
      | (Ok w, s') => (rset s' r (load_ext o w), None)
      | (Err e, s') => (s', Some e)
      end.
Proof. exact load_by_name_correct_lem. Qed.
Print Assumptions load_by_name_correct.

(* s{b,h,w} rs, name[i], rt: the address is left in rt, then rs is stored there; the stored value is
   the original rs unless rs and rt are the same register (then it is the address) *)
Theorem store_by_name_correct : forall vars labels addr ln i v rs rt target x t s,
  34 <= k_mn i <= 36 -> k_var i = Some v -> k_reg1 i = Some rs -> k_reg2 i = Some rt ->
  var_address vars v ln = POk target -> reg_num rs = Some x -> reg_num rt = Some t -> 0 < t < 32 ->
  let o := sop_of_mn (k_mn i) in
  let s1 := rset s t (U32 target) in
  exists ins,
    assemble_line vars labels addr ln (BIns i) = POk ins /\
    ins = [mk (ILui t (fst (hi_lo target))); mk (II ADDI t t (snd (hi_lo target))); IStore o t x 0] /\
    exec_list ins s = behavior (IStore o t x 0) s1 /\
    behavior (IStore o t x 0) s1 =
      match st_write s1 (store_bits o) (U32 target) (U (store_bits o) (rget s1 x)) false with
      | (None, s') => (s', None)
      | (Some e, s') => (s', Some e)
      end /\
    rget s1 t = U32 target /\
    rget s1 x = (if x =? t then U32 target else rget s x).
Proof. exact store_by_name_correct_lem. Qed.
Print Assumptions store_by_name_correct.

(** ** 6. Addresses of name and name[i] *)

Theorem elem_address : forall vars n a size ln,
  var_lookup vars n = Some (a, size) ->
  var_address vars (n, None) ln = POk a /\
  (forall d i, py_int10 d = Some i -> var_address vars (n, Some d) ln = POk (a + size * i)) /\
  (forall d, py_int10 d = None -> var_address vars (n, Some d) ln = PErr (PSyntax ln)).
Proof. exact elem_address_lem. Qed.
Print Assumptions elem_address.

Theorem elem_address_unknown : forall vars n idx ln,
  var_lookup vars n = None -> var_address vars (n, idx) ln = PErr (PVariable ln).
Proof. exact elem_address_unknown_lem. Qed.
Print Assumptions elem_address_unknown.

(* the index digits are read in base 10 *)
Theorem index_value : forall d, Forall is_dec_char d -> Z.of_nat (List.length d) <= 4300 ->
  py_int10 d = Some (positional 10 (map dec_digit d)) /\ 0 <= positional 10 (map dec_digit d).
Proof. exact py_int10_dec_lem. Qed.
Print Assumptions index_value.

Example elem_address_ex :
  var_address [(7, (16388, 2))] (7, Some (codes "10")) 3 = POk 16408 /\
  var_address [(7, (16388, 2))] (8, None) 3 = PErr (PVariable 3).
Proof. split; reflexivity. Qed.

(** ** 5. The data segment *)

Theorem layout : forall data m a vars ms' vars',
  write_data data (MFlat m) a vars = POk (ms', vars') -> zero_ok data -> 16384 <= a <= 2 ^ 32 ->
  exists L e m',
    (* a successful data pass ends at or below 2^32 (MemorySizeException otherwise) *)
    lay data a = Some (L, e) /\ e <= 2 ^ 32 /\ ms' = MFlat m' /\
    (* the variable table: one entry per declaration, in order, after the existing ones *)
    vars' = vars ++ table L /\
    (forall k y, var_lookup vars k = Some y -> var_lookup vars' k = Some y) /\
    (forall v, In v L -> var_lookup vars' (vl_name v) = Some (vl_start v, vl_esize v)) /\
    (* placement: first at align4 a, each next one at align4 of the end of its predecessor *)
    chain a L e /\ Forall (placed a e) L /\
    Forall2 (fun d v => decl_image (snd d) = Some (vl_name v, vl_esize v, vl_bytes v, vl_extent v)) data L /\
    (* contents: every variable holds its bytes (later declarations never overwrite earlier ones),
       every other cell is unchanged *)
    (forall x, mget m' x = overlay L (mget m) x) /\
    (forall v x, In v L -> in_var v x -> mget m' x = nth (Z.to_nat (x - vl_start v)) (vl_bytes v) 0) /\
    (forall x, (forall v, In v L -> ~ in_var v x) -> mget m' x = mget m x).
Proof. exact layout_lem. Qed.
Print Assumptions layout.

(* the same table, placement and end bound on every memory system (no hypothesis at all) *)
Theorem layout_table : forall data ms a vars ms' vars',
  write_data data ms a vars = POk (ms', vars') ->
  exists L e, lay data a = Some (L, e) /\ table_ok vars vars' L /\ (a <= 4294967296 -> e <= 4294967296).
Proof. exact write_data_lay. Qed.
Print Assumptions layout_table.

(* what the byte image of each kind of declaration is *)
Theorem decl_bytes :
  (forall name ty vals nm sz bytes ext,
     decl_image (RVarDecl name ty vals) = Some (nm, sz, bytes, ext) ->
     exists zs, Forall2 (fun v z => py_int0 v = Some z) vals zs /\
       nm = name /\ sz = esize ty /\ ext = sz * Z.of_nat (List.length zs) /\ Z.of_nat (List.length bytes) = ext /\
       forall j b, (j < List.length zs)%nat -> (b < Z.to_nat sz)%nat ->
         nth (j * Z.to_nat sz + b) bytes 0 = (nth j zs 0 mod 2 ^ (8 * sz)) / 256 ^ Z.of_nat b mod 256) /\
  (forall name s nm sz bytes ext,
     decl_image (RStrDecl name s) = Some (nm, sz, bytes, ext) ->
     let cs := strip_quotes s in
     nm = name /\ sz = 1 /\ ext = Z.of_nat (List.length cs) + 1 /\ Z.of_nat (List.length bytes) = ext /\
     (forall j, (j < List.length cs)%nat -> nth j bytes 0 = nth j cs 0 mod 256) /\
     nth (List.length cs) bytes 0 = 0) /\
  (forall name v nm sz bytes ext,
     decl_image (RZeroDecl name v) = Some (nm, sz, bytes, ext) ->
     exists n, py_int10 v = Some n /\ nm = name /\ sz = 4 /\ bytes = [] /\ ext = 4 * n).
Proof. exact decl_bytes_lem. Qed.
Print Assumptions decl_bytes.

(* alignment *)
Theorem align4_meaning : forall a, a <= align4 a < a + 4 /\ align4 a mod 4 = 0.
Proof. exact align4_spec. Qed.
Print Assumptions align4_meaning.

(* behind a data cache the data pass writes the backing memory only; the cache is untouched *)
Theorem layout_cached : forall data d a vars,
  write_data data (MCache d) a vars = lift_lower d (write_data data (MFlat (lower d)) a vars).
Proof. exact write_data_cache_lem. Qed.
Print Assumptions layout_cached.

Example layout_ex :
  lay [(2, RZeroDecl 1 (codes "64")); (5, RVarDecl 2 0 [codes "-128"]);
       (7, RVarDecl 3 1 [codes "0x1234"; codes "0b1010"; codes "999"]);
       (9, RStrDecl 5 (codes """Hi"""))] 16384 =
  Some ([ {| vl_name := 1; vl_start := 16384; vl_esize := 4; vl_bytes := []; vl_extent := 256 |};
          {| vl_name := 2; vl_start := 16640; vl_esize := 1; vl_bytes := [128]; vl_extent := 1 |};
          {| vl_name := 3; vl_start := 16644; vl_esize := 2; vl_bytes := [52; 18; 10; 0; 231; 3]; vl_extent := 6 |};
          {| vl_name := 5; vl_start := 16652; vl_esize := 1; vl_bytes := [72; 105; 0]; vl_extent := 3 |} ], 16655).
Proof. vm_compute. reflexivity. Qed.

Example first_data_address : align4 16384 = 16384 /\ align4 16385 = 16388 /\ align4 16388 = 16388.
Proof. vm_compute. repeat split; reflexivity. Qed.

(** ** 8. The help-page program *)

Definition by_name (mn : Z) (reg : str) (name : Z) (idx : option str) : rline :=
  RInstr None (BIns {| k_mn := mn; k_rd := None; k_rs1 := None; k_rs2 := None;
                       k_reg1 := Some (RX reg); k_reg2 := None; k_rs := None; k_imm := None;
                       k_csr := None; k_uimm := None; k_offset := None; k_label := None;
                       k_var := Some (name, idx) |}).

(* RiscvHelp.vue; names: 1 empty_array, 2 my_var1, 3 my_var2, 4 my_var3, 5 text1;
   the line numbers are those of the page (comment lines are dropped by the tokenizer) *)
Definition help_toks : list (Z * rline) :=
  [ (1, RDirective 1);
    (2, RZeroDecl 1 (codes "64"));
    (5, RVarDecl 2 0 [codes "-128"]);
    (7, RVarDecl 3 1 [codes "0x1234"; codes "0b1010"; codes "999"]);
    (8, RVarDecl 4 2 [codes "0x12345678"; codes "0b111"]);
    (9, RStrDecl 5 (codes """Hello, World!"""));
    (10, RDirective 0);
    (11, by_name 55 (codes "1") 2 None);                    (* la x1, my_var1    *)
    (12, by_name 28 (codes "2") 3 None);                    (* lh x2, my_var2    *)
    (13, by_name 28 (codes "3") 3 (Some (codes "0")));      (* lh x3, my_var2[0] *)
    (14, by_name 28 (codes "4") 3 (Some (codes "2")));      (* lh x4, my_var2[2] *)
    (15, by_name 29 (codes "5") 4 (Some (codes "1")));      (* lw x5, my_var3[1] *)
    (16, by_name 27 (codes "6") 5 (Some (codes "12"))) ].   (* lb x6, text1[12]  *)

Example help_page_example :
  match assemble help_toks (MFlat []) with
  | POk (m', img) =>
      let r := single_run 100 (init_st (i_instrs img) m' None) in
      snd r = Done /\
      map (rget (fst r)) [1; 2; 3; 4; 5; 6] = [16384 + 256; 4660; 4660; 999; 7; 33] /\
      i_vars img = [(1, (16384, 4)); (2, (16640, 1)); (3, (16644, 2)); (4, (16652, 4)); (5, (16660, 1))] /\
      List.length (i_instrs img) = 17%nat
  | PErr _ => False
  end.
Proof. vm_compute. repeat split; reflexivity. Qed.

(* A .zero whose extent would carry the address counter past 2^32 used to make a later variable wrap
   around onto an earlier one (finding of this property; fixed in the repository, commit d9ad93b).
   The data pass now rejects such a program: MemorySizeException(2^32 / 4). *)
Definition wrap_toks : list (Z * rline) :=
  [ (1, RDirective 1);
    (2, RVarDecl 1 0 [codes "1"]);
    (3, RZeroDecl 2 (codes "1073741823"));
    (4, RVarDecl 3 0 [codes "2"]);
    (5, RDirective 0);
    (6, by_name 27 (codes "1") 1 None);
    (7, by_name 27 (codes "2") 3 None);
    (8, by_name 55 (codes "3") 3 None) ].
Example data_segment_past_address_space_rejected :
  assemble wrap_toks (MFlat []) = PErr (PMemSize 1073741824).
Proof. vm_compute. reflexivity. Qed.
(* the largest .zero that still fits after a: the segment ends exactly at 2^32 *)
Example data_segment_up_to_address_space_accepted :
  match assemble [(1, RDirective 1); (2, RVarDecl 1 0 [codes "1"]); (3, RZeroDecl 2 (codes "1073737727"))] (MFlat []) with
  | POk (m', img) => i_vars img = [(1, (16384, 1)); (2, (16388, 4))] /\ m' = MFlat [(16384, 1)]
  | PErr _ => False
  end /\
  assemble [(1, RDirective 1); (2, RVarDecl 1 0 [codes "1"]); (3, RZeroDecl 2 (codes "1073737728"))] (MFlat [])
    = PErr (PMemSize 1073741824).
Proof. vm_compute. repeat split; reflexivity. Qed.

(** ** 7. Segment order *)

(* ".data D1 .text T1" and ".text T2 .data D2", where D2 has the declarations of D1 (any line
   numbers) and T2 has the lines of T1 under a renumbering f that keeps different lines different
   (e.g. a shift): same memory, variables, labels and instructions, or the same error up to the line
   number it carries.  The .text line number must not be the number of a data line and the .data
   line number not that of a text line (the segmenter cuts at the FIRST line with that number). *)
Theorem layout_segment_order : forall a b c d D1 T1 D2 f m,
  Forall plain_rline D1 -> Forall plain_rline T1 ->
  map snd D1 = map snd D2 ->
  (forall x y, In x (map fst T1) -> In y (map fst T1) -> f x = f y -> x = y) ->
  ~ In b (map fst D1) -> ~ In d (map fst (renumber f T1)) ->
  let L1 := (a, RDirective 1) :: D1 ++ (b, RDirective 0) :: T1 in
  let L2 := (c, RDirective 0) :: renumber f T1 ++ (d, RDirective 1) :: D2 in
  same_outcome (assemble L1 m) (assemble L2 m).
Proof. exact layout_segment_order_lem. Qed.
Print Assumptions layout_segment_order.

(* what the segmenter returns on the two orders *)
Theorem segment_two_orders :
  (forall a b D T, Forall plain_rline D -> Forall plain_rline T -> ~ In b (map fst D) ->
     segment rdir_of ((a, RDirective 1) :: D ++ (b, RDirective 0) :: T) = POk (D, T)) /\
  (forall c d D T, Forall plain_rline D -> Forall plain_rline T -> ~ In d (map fst T) ->
     segment rdir_of ((c, RDirective 0) :: T ++ (d, RDirective 1) :: D) = POk (D, T)).
Proof. exact segment_two_orders_lem. Qed.
Print Assumptions segment_two_orders.

(* the help-page program with .text first (all line numbers differ) *)
Definition help_toks_swapped : list (Z * rline) :=
  [ (1, RDirective 0);
    (2, by_name 55 (codes "1") 2 None);
    (3, by_name 28 (codes "2") 3 None);
    (4, by_name 28 (codes "3") 3 (Some (codes "0")));
    (5, by_name 28 (codes "4") 3 (Some (codes "2")));
    (6, by_name 29 (codes "5") 4 (Some (codes "1")));
    (7, by_name 27 (codes "6") 5 (Some (codes "12")));
    (8, RDirective 1);
    (9, RZeroDecl 1 (codes "64"));
    (12, RVarDecl 2 0 [codes "-128"]);
    (14, RVarDecl 3 1 [codes "0x1234"; codes "0b1010"; codes "999"]);
    (15, RVarDecl 4 2 [codes "0x12345678"; codes "0b111"]);
    (16, RStrDecl 5 (codes """Hello, World!""")) ].
Example segment_order_ex : assemble help_toks_swapped (MFlat []) = assemble help_toks (MFlat []).
Proof. vm_compute. reflexivity. Qed.
(* it is an instance of the theorem: T2 = T1 renumbered by subtracting 9 *)
Example segment_order_instance :
  exists D1 T1 D2, help_toks = (1, RDirective 1) :: D1 ++ (10, RDirective 0) :: T1 /\
    help_toks_swapped = (1, RDirective 0) :: renumber (fun x => x - 9) T1 ++ (8, RDirective 1) :: D2 /\
    map snd D1 = map snd D2 /\ Forall plain_rline D1 /\ Forall plain_rline T1.
Proof.
  eexists (firstn 5 (tl help_toks)), (skipn 7 help_toks), (skipn 8 help_toks_swapped).
  repeat split; try reflexivity; repeat constructor.
Qed.
(* errors agree up to the line number *)
Example segment_order_error_ex :
  assemble [(1, RDirective 1); (2, RVarDecl 1 0 [codes "1"]); (4, RDirective 0); (5, by_name 55 (codes "1") 9 None)]
           (MFlat []) = PErr (PVariable 5) /\
  assemble [(1, RDirective 0); (2, by_name 55 (codes "1") 9 None); (3, RDirective 1); (4, RVarDecl 1 0 [codes "1"])]
           (MFlat []) = PErr (PVariable 2) /\
  erase_line (PVariable 5) = erase_line (PVariable 2).
Proof. vm_compute. repeat split; reflexivity. Qed.
(* the hypothesis on the directive's line number cannot be dropped: a .text line that reuses the
   number of a data line makes the segmenter cut there, and the load fails *)
Example segment_line_numbers_matter :
  (if assemble [(1, RDirective 1); (2, RVarDecl 1 0 [codes "1"]); (3, RVarDecl 2 0 [codes "2"]);
                (4, RDirective 0); (5, by_name 55 (codes "1") 2 None)] (MFlat []) then true else false) = true /\
  assemble [(1, RDirective 1); (2, RVarDecl 1 0 [codes "1"]); (3, RVarDecl 2 0 [codes "2"]);
            (2, RDirective 0); (5, by_name 55 (codes "1") 2 None)] (MFlat []) = PErr (PVariable 5).
Proof. vm_compute. split; reflexivity. Qed.

(* the guards 0 < r in [load_by_name_correct] / 0 < t in [store_by_name_correct] cannot be dropped:
   with x0 the address never reaches the register and the access goes to address 0, which faults *)
Example by_name_through_x0_faults :
  match assemble [(1, RDirective 1); (2, RVarDecl 1 2 [codes "7"]); (3, RDirective 0);
                  (4, by_name 29 (codes "0") 1 None)] (MFlat []) with
  | POk (m', img) =>
      match snd (single_run 100 (init_st (i_instrs img) m' None)) with
      | Faulted f => f_err f = EAddr 0 16384 4294967295 false
      | _ => False
      end
  | PErr _ => False
  end.
Proof. vm_compute. reflexivity. Qed.
