(* C19Lex.v — the TOY tokenizer inside the model (Model/ToyLex.v, validated against toy_parser.py by
   harness/toylex_corr.py).  Statements only; proofs in Proofs/ToyLexProofs1..6.v.
   Vocabulary (Proofs/ToyLexProofs1-5.v):
     blanks w        w consists of spaces and tabs;   spaces w   of characters str.strip() removes
     gaps_ok g       every g k (the run put at the k-th token boundary, possibly empty) is blanks
     spells sp op    map to_upper sp = mnemonic_of op  (sp is the mnemonic in some letter case)
     wf_rtline sp t  t is a token line the grammar can produce (names are Words, literals are values,
                     0 <= op <= 12 with the operand its class requires), sp spells its mnemonic
     render_line lead trail cmt g sp t = lead ++ <tokens of t separated by the g k> ++ trail ++ ["#" ++ cmt]
     render_text ls fin   the lines (each with its own terminator: any str.splitlines boundary other than
                     a bare CR), then optionally a last line without terminator *)
From ArchSim Require Import Model.Base Model.Mem Model.Fmt Model.Toy Model.ToyLex
  Proofs.ToyLexProofs1 Proofs.ToyLexProofs2 Proofs.ToyLexProofs3 Proofs.ToyLexProofs4 Proofs.ToyLexProofs5
  Proofs.ToyLexProofs6.
Open Scope Z_scope.

(* (a) indentation, blanks/tabs at every token boundary (also none), trailing blanks and a trailing
   comment of arbitrary characters do not matter: the line lexes to exactly the token line printed *)
Theorem toy_lex_ignores_layout : forall lead trail cmt g sp t,
  spaces lead = true -> spaces trail = true -> gaps_ok g -> wf_rtline sp t ->
  toy_lex_line (render_line lead trail cmt g sp t) = LTok t.
Proof. exact lex_render_line. Qed.
Print Assumptions toy_lex_ignores_layout.

(* (b) any letter case of the mnemonic gives the same token line; the spellings are exactly the
   2^n re-casings of the canonical mnemonic *)
Theorem toy_lex_mnemonic_case : forall lead trail cmt g il op opnd sp1 sp2,
  spaces lead = true -> spaces trail = true -> gaps_ok g ->
  wf_rtline sp1 (RLInstr il op opnd) -> spells sp2 op ->
  toy_lex_line (render_line lead trail cmt g sp2 (RLInstr il op opnd)) = LTok (RLInstr il op opnd) /\
  toy_lex_line (render_line lead trail cmt g sp1 (RLInstr il op opnd)) = LTok (RLInstr il op opnd).
Proof. exact mnemonic_case. Qed.
Print Assumptions toy_lex_mnemonic_case.

Theorem toy_lex_mnemonic_spellings : forall op,
  (forall mask, spells (recase mask (mnemonic_of op)) op) /\
  (forall sp, spells sp op -> exists mask, sp = recase mask (mnemonic_of op)).
Proof. exact (fun op => conj (fun mask => recase_spells mask op) (fun sp => spells_recase sp op)). Qed.
Print Assumptions toy_lex_mnemonic_spellings.

(* (c) a number written in decimal (any number of leading zeros, at most 4300 digits: Python's int()
   limit) or in hexadecimal (0x, leading zeros, digits in either case): both are literals of the grammar,
   both lines lex, and toy_value reads the same number from the two tokens *)
Theorem toy_lex_number_bases : forall lead trail cmt g sp il op n zd zh lower,
  spaces lead = true -> spaces trail = true -> gaps_ok g ->
  wf_rtline sp (RLInstr il op (RAddrLit (dec_lit zd n))) ->
  0 <= n -> Z.of_nat (length (dec_lit zd n)) <= 4300 ->
  toy_lex_line (render_line lead trail cmt g sp (RLInstr il op (RAddrLit (dec_lit zd n))))
    = LTok (RLInstr il op (RAddrLit (dec_lit zd n))) /\
  toy_lex_line (render_line lead trail cmt g sp (RLInstr il op (RAddrLit (hex_lit zh lower n))))
    = LTok (RLInstr il op (RAddrLit (hex_lit zh lower n))) /\
  toy_value (dec_lit zd n) = toy_value (hex_lit zh lower n) /\ toy_value (dec_lit zd n) = Some n.
Proof. exact number_bases_lex. Qed.
Print Assumptions toy_lex_number_bases.

Theorem toy_lex_number_literals : forall n zd zh lower, 0 <= n -> Z.of_nat (length (dec_lit zd n)) <= 4300 ->
  is_value (dec_lit zd n) = true /\ is_value (hex_lit zh lower n) = true /\
  toy_value (dec_lit zd n) = Some n /\ toy_value (hex_lit zh lower n) = Some n.
Proof. exact number_bases. Qed.
Print Assumptions toy_lex_number_literals.

(* (d) blank lines and comment lines give no entry, and only advance the line number *)
Theorem toy_lex_comment_and_blank_lines : forall w c, spaces w = true ->
  toy_lex_line w = LBlank /\ toy_lex_line (w ++ 35 :: c) = LBlank /\
  (forall rest ln tbl, lex_lines (w :: rest) ln tbl = lex_lines rest (ln + 1) tbl) /\
  (forall rest ln tbl, lex_lines ((w ++ 35 :: c) :: rest) ln tbl = lex_lines rest (ln + 1) tbl).
Proof. exact comment_and_blank_lines. Qed.
Print Assumptions toy_lex_comment_and_blank_lines.

(* (e) composition.  For EVERY text: the lexed text, hence the load, depends on the text only through
   the per-line results (blank / rejected / token line) *)
Theorem toy_lex_load_function_of_lines : forall s t1 t2,
  map toy_lex_line (splitlines t1) = map toy_lex_line (splitlines t2) ->
  toy_lex_text t1 = toy_lex_text t2 /\ toy_load_text s t1 = toy_load_text s t2.
Proof. exact load_depends_on_line_results. Qed.
Print Assumptions toy_lex_load_function_of_lines.

(* for every printed source: the load is toy_load of the numbered, interned token lines *)
Theorem toy_lex_load_composition : forall s ls fin,
  Forall (fun p => wf_src (fst p) /\ is_nl (snd p)) ls ->
  match fin with Some l => wf_src l | None => True end ->
  toy_lex_text (render_text ls fin) = POk (intern_lines (map tok_of (src_lines ls fin)) 1 []) /\
  toy_load_text s (render_text ls fin) = toy_load s (intern_lines (map tok_of (src_lines ls fin)) 1 []).
Proof. exact (fun s ls fin H F => conj (lex_text_render ls fin H F) (load_text_render s ls fin H F)). Qed.
Print Assumptions toy_lex_load_composition.

(* hence sources with the same token lines load alike whatever their layout, case, comments, terminators *)
Theorem toy_lex_load_same_tokens : forall s ls1 fin1 ls2 fin2,
  Forall (fun p => wf_src (fst p) /\ is_nl (snd p)) ls1 -> match fin1 with Some l => wf_src l | None => True end ->
  Forall (fun p => wf_src (fst p) /\ is_nl (snd p)) ls2 -> match fin2 with Some l => wf_src l | None => True end ->
  map tok_of (src_lines ls1 fin1) = map tok_of (src_lines ls2 fin2) ->
  toy_lex_text (render_text ls1 fin1) = toy_lex_text (render_text ls2 fin2) /\
  toy_load_text s (render_text ls1 fin1) = toy_load_text s (render_text ls2 fin2).
Proof. exact load_same_tokens. Qed.
Print Assumptions toy_lex_load_same_tokens.
