(* Props/C04.v — property C04:
   "Assembling any well-formed RISC-V program places, at consecutive 4-byte addresses from 0,
    exactly the instruction sequence the documented syntax denotes [...] every pseudo-instruction
    as a group of base instructions that [...] is the same wherever the pseudo-instruction occurs;
    ABI and xN register names are interchangeable [...].  Every label, whether on its own line or
    in front of an instruction (including one that expands to several instructions), denotes the
    address of the next emitted instruction after expansion, and branch/jump operands given as
    label, label plus hexadecimal offset, or number encode the correct pc-relative displacement."

   Only statements; every proof is [exact <lemma>] into Proofs/C04Proofs.v.
   The literal / data-layout part (li, la, variables) is in Props/C05.v.

   Vocabulary (Model/Asm.v and section B of Proofs/C04Proofs.v):
     text entries        (line number, ELabel name | EBody body); a body is a token record
                         [BIns t], one of the strings ecall / ebreak / nop [BStr 0/1/2], or [BOther]
     expand_one vars ln b    the bodies a body expands to (_process_pseudo_instructions)
     expand_all vars text    the expanded text
     entry_expansion vars e out   what one entry contributes: a label itself, a body on line ln
                         the list  map (fun b' => (ln, EBody b')) bs  with expand_one .. = POk bs
     plain_body b        b is left alone by the expansion: not nop, li, mv, and no variable operand
                         on a load / store / la
     plain_entry e       a label entry, or a body entry with a plain body
     ninsn l             number of instruction entries of l (body_is_instruction)
     grouped text        the entries of one source line are adjacent (see grouped_spec)
     declares inl pre ln e name   entry (ln, e), preceded by the entries pre, is the stand-alone
                         label name, or the FIRST entry of a source line with in-line label name
     rv_labels text inl 0 [] None      the label table (_process_labels); inl maps line -> label
     instantiate text labels 0         the instruction list (_write_instructions)
     instantiate_one t labels a ln     one token record at address a, source line ln
     reg_field f n / int_field f z     token field f holds a register with number n / a literal
                                       with value z;  offset_value t o: the optional offset of t *)
From ArchSim Require Import Model.Base Model.Mem Model.Cache Model.Fmt Model.RV Model.Toy Model.Asm
  Proofs.C04Proofs.
Open Scope Z_scope.

(** ** 1. Pseudo-instructions are expanded locally *)

(* the expanded text is the concatenation, in order, of the per-entry expansions; it contains
   only plain bodies, so expanding it again (under any variable table) changes nothing; its
   line numbers are those of the source, and entries of one source line stay adjacent *)
Theorem expand_local : forall vars text text', expand_all vars text = POk text' ->
  (exists outs, Forall2 (entry_expansion vars) text outs /\ text' = concat outs) /\
  Forall plain_entry text' /\
  (forall vars', expand_all vars' text' = POk text') /\
  (forall ln, In ln (map fst text') -> In ln (map fst text)) /\
  (NoDup (map fst text) -> grouped text').
Proof. exact expand_local_lem. Qed.
Print Assumptions expand_local.

(* the expansion of one body depends on its tokens and the variable table only (the line number
   appears in error values only); it consists of one, two or three plain bodies, each of which
   expands to itself *)
Theorem expand_one_facts : forall vars ln b bs, expand_one vars ln b = POk bs ->
  (forall ln', expand_one vars ln' b = POk bs) /\
  Forall plain_body bs /\
  (forall vars' ln' b', In b' bs -> expand_one vars' ln' b' = POk [b']) /\
  (length bs = 1 \/ length bs = 2 \/ length bs = 3)%nat.
Proof. exact expand_one_facts_lem. Qed.
Print Assumptions expand_one_facts.

(* conversely the per-entry expansions determine the result *)
Theorem expand_local_conv : forall vars text outs, Forall2 (entry_expansion vars) text outs ->
  expand_all vars text = POk (concat outs).
Proof. exact expand_all_local_conv. Qed.
Print Assumptions expand_local_conv.

(** ** 2. Labels denote the address of the next emitted instruction *)

Theorem label_denotes_next : forall text inl labels,
  rv_labels text inl 0 [] None = POk labels ->
  (* every declaration is bound to 4 * (number of instruction entries before it) *)
  (forall pre ln e post name, text = pre ++ (ln, e) :: post -> declares inl pre ln e name ->
     mget_opt labels name = Some (4 * Z.of_nat (ninsn pre))) /\
  (* and, when the entries of each source line are adjacent, every bound name is declared *)
  (grouped text -> forall name a, mget_opt labels name = Some a ->
     exists pre ln e post, text = pre ++ (ln, e) :: post /\ declares inl pre ln e name /\
                           a = 4 * Z.of_nat (ninsn pre)).
Proof. exact label_denotes_next_lem. Qed.
Print Assumptions label_denotes_next.

(* [grouped] in words: between two entries of one source line there are only entries of that
   line (adjacent_lines text := forall pre ln e mid e' post,
   text = pre ++ (ln, e) :: mid ++ (ln, e') :: post -> Forall (fun x => fst x = ln) mid) *)
Theorem grouped_spec : forall text, grouped text <-> adjacent_lines text.
Proof. exact grouped_spec_lem. Qed.
Print Assumptions grouped_spec.

(* the three cases of the property *)
Theorem label_cases : forall text inl labels, rv_labels text inl 0 [] None = POk labels ->
  (* a stand-alone label *)
  (forall pre ln name post, text = pre ++ (ln, ELabel name) :: post ->
     mget_opt labels name = Some (4 * Z.of_nat (ninsn pre))) /\
  (* an in-line label: the address of the first entry of its source line, whether the line is
     one instruction or expands to several *)
  (forall pre ln b post name, text = pre ++ (ln, EBody b) :: post -> ~ In ln (map fst pre) ->
     mget_opt inl ln = Some name -> mget_opt labels name = Some (4 * Z.of_nat (ninsn pre))) /\
  (* a label at the end of the program: the address after the last instruction *)
  (forall pre ln name, text = pre ++ [(ln, ELabel name)] ->
     mget_opt labels name = Some (4 * Z.of_nat (ninsn text))).
Proof. exact label_cases_lem. Qed.
Print Assumptions label_cases.

(* the only failure is a duplicate-label error of a line of the text, and two declarations of
   one name always give it *)
Theorem label_errors : forall text inl e, rv_labels text inl 0 [] None = PErr e ->
  exists ln, e = PDupLabel ln /\ In ln (map fst text).
Proof. exact label_errors_lem. Qed.
Print Assumptions label_errors.

Theorem label_duplicates : forall text inl pre ln1 e1 mid ln2 e2 post name,
  text = pre ++ (ln1, e1) :: mid ++ (ln2, e2) :: post ->
  declares inl pre ln1 e1 name -> declares inl (pre ++ (ln1, e1) :: mid) ln2 e2 name ->
  exists ln, rv_labels text inl 0 [] None = PErr (PDupLabel ln) /\ In ln (map fst text).
Proof. exact label_duplicates_lem. Qed.
Print Assumptions label_duplicates.

(** ** 3. Consecutive 4-byte addresses from 0 *)

(* there are as many instructions as instruction entries, and the k-th instruction entry is
   instantiated at address 4k and becomes instruction number k *)
Theorem instantiate_addresses : forall text labels ins, instantiate text labels 0 = POk ins ->
  length ins = ninsn text /\
  (forall pre ln i post, text = pre ++ (ln, EBody (BIns i)) :: post ->
     exists x, instantiate_one i labels (4 * Z.of_nat (ninsn pre)) ln = POk x /\
               nth_error ins (ninsn pre) = Some x) /\
  (forall pre ln k post, text = pre ++ (ln, EBody (BStr k)) :: post -> (k = 0 \/ k = 1) ->
     nth_error ins (ninsn pre) = Some (if k =? 0 then IEcall else IEbreak)).
Proof. exact instantiate_addresses_lem. Qed.
Print Assumptions instantiate_addresses.

(** ** 4. Branch and jump operands *)

(* beq .. bgeu (mnemonic numbers 37..42) at address a *)
Theorem branch_target : forall i lb a ln, 37 <= k_mn i <= 42 ->
  (* label, or label + hexadecimal offset: the displacement to that address *)
  (forall l t o rs1 rs2, k_imm i = None -> k_label i = Some l -> offset_value i o ->
     mget_opt lb l = Some t -> reg_field (k_reg1 i) rs1 -> reg_field (k_reg2 i) rs2 ->
     instantiate_one i lb a ln = POk (IBranch (bop_of_mn (k_mn i)) rs1 rs2 (sext13 (t + o - a))) /\
     (-4096 <= t + o - a < 4096 -> a + sext13 (t + o - a) = t + o)) /\
  (* an even number: the displacement itself *)
  (forall s v rs1 rs2, k_imm i = Some s -> py_int0 s = Some v -> v mod 2 = 0 ->
     reg_field (k_reg1 i) rs1 -> reg_field (k_reg2 i) rs2 ->
     instantiate_one i lb a ln = POk (IBranch (bop_of_mn (k_mn i)) rs1 rs2 (sext13 v)) /\
     (-4096 <= v < 4096 -> sext13 v = v)) /\
  (* an odd number, an unknown label *)
  (forall s v, k_imm i = Some s -> py_int0 s = Some v -> v mod 2 <> 0 ->
     instantiate_one i lb a ln = PErr (POdd ln)) /\
  (forall o, k_imm i = None -> offset_value i o ->
     (k_label i = None \/ exists l, k_label i = Some l /\ mget_opt lb l = None) ->
     instantiate_one i lb a ln = PErr (PLabel ln)).
Proof. exact branch_target_lem. Qed.
Print Assumptions branch_target.

(* jal (45): the label form is pc-relative like a branch; a NUMBER is an absolute target; the
   third field of IJal is the target that is printed *)
Theorem jal_target : forall i lb a ln, k_mn i = 45 ->
  (forall l t o rd, k_imm i = None -> k_label i = Some l -> offset_value i o ->
     mget_opt lb l = Some t -> reg_field (k_rd i) rd ->
     instantiate_one i lb a ln = POk (IJal rd (sext21 (t + o - a)) (t + o)) /\
     (-1048576 <= t + o - a < 1048576 -> a + sext21 (t + o - a) = t + o)) /\
  (forall s v rd, k_imm i = Some s -> py_int0 s = Some v -> v mod 2 = 0 -> reg_field (k_rd i) rd ->
     instantiate_one i lb a ln = POk (IJal rd (sext21 (v - a)) v) /\
     (-1048576 <= v - a < 1048576 -> a + sext21 (v - a) = v)) /\
  (forall s v, k_imm i = Some s -> py_int0 s = Some v -> v mod 2 <> 0 ->
     instantiate_one i lb a ln = PErr (POdd ln)) /\
  (forall o, k_imm i = None -> offset_value i o ->
     (k_label i = None \/ exists l, k_label i = Some l /\ mget_opt lb l = None) ->
     instantiate_one i lb a ln = PErr (PLabel ln)).
Proof. exact jal_target_lem. Qed.
Print Assumptions jal_target.

(** ** 5. Operands, class by class *)
(* mnemonic numbers: 0..17 R-type, 18..23 I-type arithmetic, 24..26 shifts, 27..31 loads,
   32 jalr, 34..36 stores, 37..42 branches, 43 lui, 44 auipc, 47 fence, 48..50 csrrw/s/c,
   51..53 csrrwi/si/ci; in "op reg1, reg2, imm" and "op reg1, imm(reg2)" the first register is
   rd (rs2 for a store) and the second is rs1 *)
Theorem operand_mapping : forall i lb a ln x,
  let mn := k_mn i in
  (0 <= mn <= 17 ->
     (instantiate_one i lb a ln = POk x <->
      exists rd rs1 rs2, reg_field (k_rd i) rd /\ reg_field (k_rs1 i) rs1 /\ reg_field (k_rs2 i) rs2 /\
        x = IR (rop_of_mn mn) rd rs1 rs2)) /\
  (18 <= mn <= 23 ->
     (instantiate_one i lb a ln = POk x <->
      exists rd rs1 v, reg_field (k_reg1 i) rd /\ reg_field (k_reg2 i) rs1 /\ int_field (k_imm i) v /\
        x = II (iop_of_mn mn) rd rs1 (sext12 v))) /\
  (24 <= mn <= 26 ->
     (instantiate_one i lb a ln = POk x <->
      exists rd rs1 v, reg_field (k_reg1 i) rd /\ reg_field (k_reg2 i) rs1 /\ int_field (k_imm i) v /\
        x = ISh (shop_of_mn mn) rd rs1 (Z.land v 31))) /\
  (27 <= mn <= 31 ->
     (instantiate_one i lb a ln = POk x <->
      exists rd rs1 v, reg_field (k_reg1 i) rd /\ reg_field (k_reg2 i) rs1 /\ int_field (k_imm i) v /\
        x = ILoad (lop_of_mn mn) rd rs1 (sext12 v))) /\
  (mn = 32 ->
     (instantiate_one i lb a ln = POk x <->
      exists rd rs1 v, reg_field (k_reg1 i) rd /\ reg_field (k_reg2 i) rs1 /\ int_field (k_imm i) v /\
        x = IJalr rd rs1 (sext12 v))) /\
  (34 <= mn <= 36 ->
     (instantiate_one i lb a ln = POk x <->
      exists rs2 rs1 v, reg_field (k_reg1 i) rs2 /\ reg_field (k_reg2 i) rs1 /\ int_field (k_imm i) v /\
        x = IStore (sop_of_mn mn) rs1 rs2 (sext12 v))) /\
  (37 <= mn <= 42 -> instantiate_one i lb a ln = POk x ->
      exists rs1 rs2 v, reg_field (k_reg1 i) rs1 /\ reg_field (k_reg2 i) rs2 /\
        label_or_imm i lb a ln = POk v /\ x = IBranch (bop_of_mn mn) rs1 rs2 (sext13 v)) /\
  (43 <= mn <= 44 ->
     (instantiate_one i lb a ln = POk x <->
      exists rd v, reg_field (k_rd i) rd /\ int_field (k_imm i) v /\
        x = if mn =? 43 then ILui rd (sext20 v) else IAuipc rd (sext20 v))) /\
  (48 <= mn <= 50 ->
     (instantiate_one i lb a ln = POk x <->
      exists rd csr rs1, reg_field (k_rd i) rd /\ int_field (k_csr i) csr /\ reg_field (k_rs1 i) rs1 /\
        x = ICsr (csrop_of_mn mn) rd csr rs1)) /\
  (51 <= mn <= 53 ->
     (instantiate_one i lb a ln = POk x <->
      exists rd csr u, reg_field (k_rd i) rd /\ int_field (k_csr i) csr /\ int_field (k_uimm i) u /\
        x = ICsri (csriop_of_mn mn) rd csr (Z.land u 31))) /\
  (mn = 47 -> instantiate_one i lb a ln = POk IFence) /\
  (* anything that is not an instruction mnemonic (a left-over pseudo-instruction) *)
  (mn < 0 \/ 53 < mn -> instantiate_one i lb a ln = PErr (PSyntax ln)).
Proof. exact operand_mapping_lem. Qed.
Print Assumptions operand_mapping.

(* the sign-extending constructors are the identity on encodable immediates *)
Theorem immediates_in_range :
  (forall v, -2048 <= v < 2048 -> sext12 v = v) /\ (forall v, -4096 <= v < 4096 -> sext13 v = v) /\
  (forall v, -524288 <= v < 524288 -> sext20 v = v) /\
  (forall v, -1048576 <= v < 1048576 -> sext21 v = v) /\ (forall v, 0 <= v < 32 -> Z.land v 31 = v).
Proof. exact (conj sext12_small (conj sext13_small (conj sext20_small (conj sext21_small land31_small)))). Qed.
Print Assumptions immediates_in_range.

(** ** 6. Register names *)
(* xN denotes register N; every ABI name of the table denotes its number, every number has an
   ABI name, no other name is accepted, and fp = s0 = x8 *)
Theorem reg_names :
  (forall r, 0 <= r < 32 -> reg_num (RX (str_dec r)) = Some r) /\
  (forall name r, In (name, r) abi_table -> reg_num (RAbi name) = Some r /\ 0 <= r < 32) /\
  (forall r, 0 <= r < 32 -> exists name, In (name, r) abi_table) /\
  (forall name, reg_num (RAbi name) <> None -> In name (map fst abi_table)) /\
  reg_num (RAbi [102; 112]) = Some 8 /\ reg_num (RAbi [115; 48]) = Some 8.
Proof. exact reg_names_lem. Qed.
Print Assumptions reg_names.

(** ** 7. nop and mv *)
Theorem nop_mv_expansion :
  (* nop = addi x0, x0, 0 *)
  (forall vars ln lb a ln',
     exists t, expand_one vars ln (BStr 2) = POk [BIns t] /\
               instantiate_one t lb a ln' = POk (mk (II ADDI 0 0 0))) /\
  (* mv rd, rs = addi rd, rs, 0 *)
  (forall vars ln i rd rs, k_mn i = MN_MV -> k_rd i = Some rd -> k_rs i = Some rs ->
     exists t, expand_one vars ln (BIns i) = POk [BIns t] /\
       forall lb a ln' d s0, reg_num rd = Some d -> reg_num rs = Some s0 ->
         instantiate_one t lb a ln' = POk (mk (II ADDI d s0 0))).
Proof. exact nop_mv_expansion_lem. Qed.
Print Assumptions nop_mv_expansion.

(** ** Non-vacuity: a program with every kind of label, tokenised by hand *)
From Coq Require Import String.
Definition s (x : String.string) : str := codes x.
Arguments s x%string.
Definition a0 := RAbi (s "a0"). Definition zero := RAbi (s "zero").
Definition t_li (rd : regtok) (imm : str) : itok :=
  {| k_mn := 54; k_rd := Some rd; k_rs1 := None; k_rs2 := None; k_reg1 := None; k_reg2 := None;
     k_rs := None; k_imm := Some imm; k_csr := None; k_uimm := None; k_offset := None;
     k_label := None; k_var := None |}.
Definition t_mv (rd rs : regtok) : itok :=
  {| k_mn := 56; k_rd := Some rd; k_rs1 := None; k_rs2 := None; k_reg1 := None; k_reg2 := None;
     k_rs := Some rs; k_imm := None; k_csr := None; k_uimm := None; k_offset := None;
     k_label := None; k_var := None |}.
Definition t_b (mn : Z) (r1 r2 : regtok) (imm : option str) (l : option Z) (off : option str) : itok :=
  {| k_mn := mn; k_rd := None; k_rs1 := None; k_rs2 := None; k_reg1 := Some r1; k_reg2 := Some r2;
     k_rs := None; k_imm := imm; k_csr := None; k_uimm := None; k_offset := off; k_label := l;
     k_var := None |}.
Definition t_jal (rd : regtok) (imm : option str) (l : option Z) (off : option str) : itok :=
  {| k_mn := 45; k_rd := Some rd; k_rs1 := None; k_rs2 := None; k_reg1 := None; k_reg2 := None;
     k_rs := None; k_imm := imm; k_csr := None; k_uimm := None; k_offset := off; k_label := l;
     k_var := None |}.

(*  1  start:                      names: start = 10, loop = 11, end = 12, back = 13
    2  loop: li a0, 0x12345        (in-line label on a line that expands to lui + addi)
    3  beq a0, zero, end
    4  nop
    5  back: jal x0, loop+0x4
    6  end:                                                                              *)
Definition prog : list (Z * rline) :=
  [ (1, RLabelDecl 10);
    (2, RInstr (Some 11) (BIns (t_li a0 (s "0x12345"))));
    (3, RInstr None (BIns (t_b 37 a0 zero None (Some 12) None)));
    (4, RInstr None (BStr 2));
    (5, RInstr (Some 13) (BIns (t_jal (RX (s "0")) None (Some 11) (Some (s "0x4")))));
    (6, RLabelDecl 12) ].

Definition prog_text : list (Z * tentry) := fst (split_inline prog).
Definition prog_inl : zmap := snd (split_inline prog).
Definition prog_expanded : list (Z * tentry) :=
  match expand_all [] prog_text with POk t => t | PErr _ => [] end.
Definition prog_labels : zmap := [(10, 0); (11, 0); (13, 16); (12, 20)].

(* confirmed on the Python simulator: lui x10, 18 / addi x10, x10, 837 / beq x10, x0, 12 /
   addi x0, x0, 0 / jal x0, 4 at 0, 4, 8, 12, 16 *)
Example prog_assembles :
  match assemble prog (MFlat []) with
  | POk (_, im) => i_instrs im = [ILui 10 18; II ADDI 10 10 837; IBranch BEQ 10 0 12; II ADDI 0 0 0;
                                  IJal 0 (-12) 4] /\ i_labels im = prog_labels
  | PErr _ => False
  end.
Proof. vm_compute. split; reflexivity. Qed.

(* the hypotheses of the theorems hold for it *)
Example prog_hypotheses :
  prog_inl = [(2, 11); (5, 13)] /\
  expand_all [] prog_text = POk prog_expanded /\
  map fst prog_expanded = [1; 2; 2; 3; 4; 5; 6] /\
  NoDup (map fst prog_text) /\ grouped prog_expanded /\
  rv_labels prog_expanded prog_inl 0 [] None = POk prog_labels /\
  (exists ins, instantiate prog_expanded prog_labels 0 = POk ins /\ List.length ins = 5%nat) /\
  ninsn prog_expanded = 5%nat.
Proof.
  split; [reflexivity|]. split; [reflexivity|]. split; [reflexivity|]. split.
  { vm_compute. repeat constructor; cbn [In]; intuition discriminate. }
  split. { vm_compute. intuition discriminate. }
  split; [reflexivity|]. split; [|reflexivity]. eexists. split; vm_compute; reflexivity.
Qed.

(* "loop" (in-line, on the line that expands to two instructions) is the first entry of line 2 *)
Example prog_declares :
  exists e post, prog_expanded = [(1, ELabel 10)] ++ (2, e) :: post /\
                 declares prog_inl [(1, ELabel 10)] 2 e 11 /\ List.length post = 5%nat.
Proof.
  eexists. eexists. split; [vm_compute; reflexivity|]. split; [|reflexivity].
  right. eexists. split; [reflexivity|]. split; [reflexivity|]. cbn. intuition discriminate.
Qed.

(* duplicates are reported; without adjacency of the entries of a line the in-line label of
   line 1 would be registered twice *)
Example duplicates_ex :
  rv_labels [(1, ELabel 7); (2, EBody (BStr 0)); (3, ELabel 7)] [] 0 [] None = PErr (PDupLabel 3) /\
  rv_labels [(1, ELabel 7); (2, EBody (BStr 0))] [(2, 7)] 0 [] None = PErr (PDupLabel 2) /\
  ~ grouped [(1, EBody (BStr 0)); (2, EBody (BStr 0)); (1, EBody (BStr 0))] /\
  rv_labels [(1, EBody (BStr 0)); (2, EBody (BStr 0)); (1, EBody (BStr 0))] [(1, 7)] 0 [] None
    = PErr (PDupLabel 1).
Proof.
  split; [reflexivity|]. split; [reflexivity|]. split; [|reflexivity].
  cbn. intros [H _]. assert (H2: 2 = 1) by (apply H; right; left; reflexivity). discriminate H2.
Qed.

(* branch operands: "bne x1, x2, -8", "beq a0, zero, end" at 8 with end = 20, "loop+0x4" *)
Example branch_ex :
  instantiate_one (t_b 38 (RX (s "1")) (RX (s "2")) (Some (s "-8")) None None) [] 100 1
    = POk (IBranch BNE 1 2 (-8)) /\
  instantiate_one (t_b 37 a0 zero None (Some 12) None) prog_labels 8 3 = POk (IBranch BEQ 10 0 12) /\
  instantiate_one (t_b 37 a0 zero (Some (s "7")) None None) [] 8 3 = PErr (POdd 3) /\
  instantiate_one (t_b 37 a0 zero None (Some 99) None) prog_labels 8 3 = PErr (PLabel 3) /\
  offset_value (t_jal (RX (s "0")) None (Some 11) (Some (s "0x4"))) 4 /\
  instantiate_one (t_jal (RX (s "0")) None (Some 11) (Some (s "0x4"))) prog_labels 16 5
    = POk (IJal 0 (-12) 4) /\
  (* a numeric jal operand is absolute *)
  instantiate_one (t_jal (RX (s "1")) (Some (s "4")) None None) [] 16 5 = POk (IJal 1 (-12) 4).
Proof. vm_compute. repeat split; reflexivity. Qed.

Example pseudo_ex :
  expand_one [] 1 (BIns (t_mv a0 (RX (s "5")))) = POk [BIns (tok_rri 18 a0 (RX (s "5")) (s "0"))] /\
  expand_one [] 1 (BIns (t_li a0 (s "-5"))) = POk [BIns (tok_rri 18 a0 x0tok (s "-5"))] /\
  expand_one [] 9 (BIns (t_li a0 (s "0x12345"))) =
    POk [BIns (tok_u 43 a0 (s "18")); BIns (tok_rri 18 a0 a0 (s "837"))] /\
  plain_body (BIns (tok_u 43 a0 (s "18"))) /\ ~ plain_body (BStr 2) /\
  ~ plain_body (BIns (t_mv a0 a0)).
Proof.
  split; [reflexivity|]. split; [reflexivity|]. split; [reflexivity|].
  split; [cbn; intuition discriminate|]. split; [cbn; intuition|].
  cbn. unfold MN_MV. intuition.
Qed.

Example reg_names_ex :
  reg_num (RAbi (s "a0")) = Some 10 /\ reg_num (RX (s "10")) = Some 10 /\
  reg_num (RAbi (s "t6")) = Some 31 /\ reg_num (RX (s "31")) = Some 31 /\
  reg_num (RAbi (s "fp")) = reg_num (RAbi (s "s0")) /\ reg_num (RAbi (s "q7")) = None /\
  In (s "zero", 0) abi_table.
Proof. repeat split; try reflexivity. left. reflexivity. Qed.
