(* C19Spelling.v — property C19 at LOAD level: the assembled result does not depend on how numbers are
   spelled (nor on mnemonic case, layout, comments).  About toy_load_text (Model/ToyLex.v + Model/Toy.v);
   the equalities are equalities of the full result: same error constructor with the same line number,
   or the same state (memory image, loaded instruction, max pc, ...).
   Statements only; proofs in Proofs/ToyLexSpell1..3.v.
   Vocabulary:
     lit_eq v1 v2                 toy_value v1 = toy_value v2  (None = None: both refused by int())
     rt_equiv t1 t2               token lines with the same shape, names, opcode, directive, and literals
                                  related by lit_eq position by position (ToyLexSpell2.v)
     toy_same_up_to_spelling a b  the texts have the same number of lines and, line by line, both are blank or
                                  comment lines, or both are rejected by the grammar, or both lex to token lines
                                  related by rt_equiv  (layout, comments, mnemonic case give EQUAL token lines
                                  by Props/C19Lex.v, so they are free as well)
     wf_source ls fin             a printed source (ToyLexProofs5.v): every line well-formed, terminators are
                                  line boundaries other than a bare CR
     lit_src f / case_src f       the source with every literal v written f v / every mnemonic sp written f sp
   Where the assembler looks at the TEXT of a literal: only int()'s limit of 4300 characters on a decimal
   literal, leading zeros included (toy_value = None; hexadecimal literals have no limit).  lit_eq contains
   this exactly; toy_spellings_same_value spells it out. *)
From ArchSim Require Import Model.Base Model.Mem Model.Fmt Model.Toy Model.ToyLex Proofs.C19Proofs
  Proofs.ToyLexProofs1 Proofs.ToyLexProofs2 Proofs.ToyLexProofs3 Proofs.ToyLexProofs4 Proofs.ToyLexProofs5
  Proofs.ToyLexSpell1 Proofs.ToyLexSpell2 Proofs.ToyLexSpell3.
Open Scope Z_scope.

(* token level: the loader sees a literal only through toy_value *)
Theorem toy_load_spelling_independent : forall s toks1 toks2, lrel toks1 toks2 -> toy_load s toks1 = toy_load s toks2.
Proof. exact toy_load_rel. Qed.
Print Assumptions toy_load_spelling_independent.

(* text level, every pair of texts *)
Theorem toy_load_text_spelling_independent : forall s t1 t2,
  toy_same_up_to_spelling t1 t2 -> toy_load_text s t1 = toy_load_text s t2.
Proof. exact load_text_spelling_independent. Qed.
Print Assumptions toy_load_text_spelling_independent.

(* printed sources: any layout, comments, terminators, letter case; literals of equal value *)
Theorem toy_source_respelling : forall s ls1 fin1 ls2 fin2, wf_source ls1 fin1 -> wf_source ls2 fin2 ->
  Forall2 opt_equiv (map tok_of (src_lines ls1 fin1)) (map tok_of (src_lines ls2 fin2)) ->
  toy_load_text s (render_text ls1 fin1) = toy_load_text s (render_text ls2 fin2).
Proof. exact source_respelling. Qed.
Print Assumptions toy_source_respelling.

(* replacing every literal v by f v, where f v is again a literal and int() reads it alike *)
Theorem toy_number_base_interchangeable : forall s ls fin f, wf_source ls fin ->
  (forall v, is_value v = true -> is_value (f v) = true /\ toy_value (f v) = toy_value v) ->
  toy_load_text s (render_text (map_src (lit_src f) ls) (option_map (lit_src f) fin)) = toy_load_text s (render_text ls fin).
Proof. exact number_base_interchangeable. Qed.
Print Assumptions toy_number_base_interchangeable.

(* ... which holds between all spellings of one number: hexadecimal with any leading zeros and either
   digit case, decimal with leading zeros up to 4300 characters in all; a longer decimal spelling is still
   a literal of the grammar but is refused (toy_value = None: ParserSyntaxException of its line) *)
Theorem toy_spellings_same_value : forall n, 0 <= n ->
  (forall zh lower, is_value (hex_lit zh lower n) = true /\ toy_value (hex_lit zh lower n) = Some n) /\
  (forall zd, Z.of_nat (length (dec_lit zd n)) <= 4300 -> is_value (dec_lit zd n) = true /\ toy_value (dec_lit zd n) = Some n) /\
  (forall zd, Z.of_nat (length (dec_lit zd n)) > 4300 -> is_value (dec_lit zd n) = true /\ toy_value (dec_lit zd n) = None).
Proof. exact spellings_same_value. Qed.
Print Assumptions toy_spellings_same_value.

(* replacing every mnemonic spelling sp by f sp, another letter case of the same mnemonic *)
Theorem toy_mnemonic_case_interchangeable : forall s ls fin f, wf_source ls fin ->
  (forall sp op, spells sp op -> spells (f sp) op) ->
  toy_load_text s (render_text (map_src (case_src f) ls) (option_map (case_src f) fin)) = toy_load_text s (render_text ls fin).
Proof. exact mnemonic_case_interchangeable. Qed.
Print Assumptions toy_mnemonic_case_interchangeable.

(* same token line (or none) at every line position: indentation, gaps, trailing blanks, comments, the
   text of blank and comment lines and the line terminators are free *)
Theorem toy_layout_and_comments_irrelevant : forall s ls1 fin1 ls2 fin2, wf_source ls1 fin1 -> wf_source ls2 fin2 ->
  map tok_of (src_lines ls1 fin1) = map tok_of (src_lines ls2 fin2) ->
  toy_load_text s (render_text ls1 fin1) = toy_load_text s (render_text ls2 fin2).
Proof. exact layout_and_comments_irrelevant. Qed.
Print Assumptions toy_layout_and_comments_irrelevant.
