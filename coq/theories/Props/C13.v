(* Props/C13.v — property C13: once a simulation reports done it stays done and further step or
   run calls change nothing (state, counters, output); run() reaches the same final state as
   calling step() until done; step() returns false exactly when the simulation is done
   afterwards; a program with no instructions is done immediately; loading a program into a
   simulation that has not started, after any number of earlier successful or failed loads,
   gives the same state as loading it into a fresh simulation.  Single-cycle, five-stage, TOY.
   Only statements; every proof is [exact <lemma>] into Proofs/C13Proofs.v.

   Every statement holds for ALL model states: no invariant, any cache configuration.
   [st] / [pstate] / [tstate] are the whole simulation records (architectural state, output,
   exit code, every counter, the latches and stall bookkeeping of the pipeline, the TOY
   visualisation values), so equality of states is equality of everything observable.

   Vocabulary of Proofs/C13Proofs.v:
     M_next s         = state after one step() call (result ignored); M_iter n = n such calls
                        (for TOY: C06's [toy_steps])
     M_steps k s      = "while not is_done(): step()" at most k times, ending Done / Faulted f /
                        OutOfFuel (TOY: outcome and finished flag, like toy_run)
     M_steps_ret k s  = "while step(): pass" at most k times (driven by the returned flag)
     toy_sim_step     = toy_step together with the flag ToySimulation.step returns
     rv_loads ts s    = state after the loads ts (each successful or failed), likewise
                        pipe_loads / toy_loads
     not_started s    = pc, registers, output, exit code, all counters and the data-cache
                        hit/access counters have their initial values; fresh_like s = the newly
                        constructed state with the cache configuration of s *)
From ArchSim Require Import Model.Base Model.Mem Model.Cache Model.Fmt Model.RV Model.Single
  Model.Pipe Model.Toy Model.Asm Proofs.C06Proofs Proofs.C13Proofs.
Open Scope Z_scope.

(** * 1. done is stable; step() and run() are no-ops on a done simulation *)
Theorem done_stable_single : forall s, single_done s = true ->
  single_sim_step s = (false, s, None) /\ forall n, single_run n s = (s, Done).
Proof. exact done_stable_single_lemma. Qed.
Print Assumptions done_stable_single.

Theorem done_stable_pipe : forall p, pipe_done p = true ->
  pipe_sim_step p = (false, p, None) /\ forall n, pipe_run n p = (p, PDone).
Proof. exact done_stable_pipe_lemma. Qed.
Print Assumptions done_stable_pipe.

(* TOY: run() needs no phase hypothesis; step() raises a sequencing error in the middle of an
   instruction (C20) but even then the state is unchanged (third conjunct) *)
Theorem done_stable_toy : forall s, toy_done s = true ->
  (t_nextcycle s = 1 -> toy_step s = (s, TNone) /\ toy_sim_step s = (false, s, TNone)) /\
  (forall n, toy_run n s = (s, TNone, true)) /\
  fst (toy_step s) = s.
Proof. exact done_stable_toy_lemma. Qed.
Print Assumptions done_stable_toy.

(* hence any number of further step() / run() calls leaves a done simulation done and equal *)
Theorem done_stays_single : forall s, single_done s = true ->
  forall n, single_done (single_iter n s) = true /\ single_done (fst (single_run n s)) = true.
Proof. exact done_stays_single_lemma. Qed.
Print Assumptions done_stays_single.

Theorem done_stays_pipe : forall p, pipe_done p = true ->
  forall n, pipe_done (pipe_iter n p) = true /\ pipe_done (fst (pipe_run n p)) = true.
Proof. exact done_stays_pipe_lemma. Qed.
Print Assumptions done_stays_pipe.

Theorem done_stays_toy : forall s, toy_done s = true ->
  forall n, toy_steps n s = s /\ fst (fst (toy_run n s)) = s.
Proof. exact done_stays_toy_lemma. Qed.
Print Assumptions done_stays_toy.

(** * 2. the flag returned by step() *)
Theorem step_result_iff_done_single : forall s b s', single_sim_step s = (b, s', None) ->
  b = negb (single_done s').
Proof. exact step_result_single_lemma. Qed.
Print Assumptions step_result_iff_done_single.

Theorem step_false_iff_done_single : forall s b s', single_sim_step s = (b, s', None) ->
  (b = false <-> single_done s' = true).
Proof. exact step_result_iff_single_lemma. Qed.
Print Assumptions step_false_iff_done_single.

Theorem step_result_iff_done_pipe : forall p b p', pipe_sim_step p = (b, p', None) ->
  b = negb (pipe_done p').
Proof. exact step_result_pipe_lemma. Qed.
Print Assumptions step_result_iff_done_pipe.

Theorem step_false_iff_done_pipe : forall p b p', pipe_sim_step p = (b, p', None) ->
  (b = false <-> pipe_done p' = true).
Proof. exact step_result_iff_pipe_lemma. Qed.
Print Assumptions step_false_iff_done_pipe.

(* a raising step(): the simulation was not done and the pipeline step raised (Python returns
   nothing then; the model's flag is false) *)
Theorem step_fault_single : forall s b s' f, single_sim_step s = (b, s', Some f) ->
  single_done s = false /\ single_pipeline_step s = (s', Some f) /\ b = false.
Proof. exact step_fault_single_lemma. Qed.
Print Assumptions step_fault_single.

Theorem step_fault_pipe : forall p b p' f, pipe_sim_step p = (b, p', Some f) ->
  pipe_done p = false /\ pipe_step p = (p', Some f) /\ b = false.
Proof. exact step_fault_pipe_lemma. Qed.
Print Assumptions step_fault_pipe.

(* TOY: the flag is [not is_done()] after the step by definition of [toy_sim_step] (the model's
   [toy_step] returns state and outcome; Main.toy_apply computes the flag the same way) *)
Theorem step_result_iff_done_toy : forall s b s' o, toy_sim_step s = (b, s', o) ->
  b = negb (toy_done s') /\ (b = false <-> toy_done s' = true).
Proof. exact step_result_toy_lemma. Qed.
Print Assumptions step_result_iff_done_toy.

(** * 3. run() = step() until done *)
(* same state and same ending for every fuel, for both ways of writing the loop *)
Theorem run_eq_steps_single : forall n s,
  single_run n s = single_steps n s /\ single_run n s = single_steps_ret n s.
Proof. intros n s. split; [exact (run_eq_steps_single_lemma n s) | exact (run_eq_steps_ret_single_lemma n s)]. Qed.
Print Assumptions run_eq_steps_single.

Theorem run_eq_steps_pipe : forall n p,
  pipe_run n p = pipe_steps n p /\ pipe_run n p = pipe_steps_ret n p.
Proof. intros n p. split; [exact (run_eq_steps_pipe_lemma n p) | exact (run_eq_steps_ret_pipe_lemma n p)]. Qed.
Print Assumptions run_eq_steps_pipe.

Theorem run_eq_steps_toy : forall n s,
  toy_run n s = toy_steps_until n s /\ (t_nextcycle s = 1 -> toy_run n s = toy_steps_ret n s).
Proof. intros n s. split; [exact (run_eq_steps_toy_lemma n s) | exact (run_eq_steps_ret_toy_lemma n s)]. Qed.
Print Assumptions run_eq_steps_toy.

(* fuel monotonicity: once run() has ended (done or fault) more fuel changes nothing *)
Theorem run_fuel_mono_single : forall n s s' e, single_run n s = (s', e) -> e <> OutOfFuel ->
  forall n', (n <= n')%nat -> single_run n' s = (s', e).
Proof. exact run_fuel_mono_single_lemma. Qed.
Print Assumptions run_fuel_mono_single.

Theorem run_fuel_mono_pipe : forall n p p' e, pipe_run n p = (p', e) -> e <> POutOfFuel ->
  forall n', (n <= n')%nat -> pipe_run n' p = (p', e).
Proof. exact run_fuel_mono_pipe_lemma. Qed.
Print Assumptions run_fuel_mono_pipe.

Theorem run_fuel_mono_toy : forall n s s' o fin, toy_run n s = (s', o, fin) ->
  fin = true \/ o <> TNone -> forall n', (n <= n')%nat -> toy_run n' s = (s', o, fin).
Proof. exact run_fuel_mono_toy_lemma. Qed.
Print Assumptions run_fuel_mono_toy.

(* the final state of run() is the state after m plain step() calls, for EVERY m >= the fuel
   run() needed: extra step() calls after the end change nothing *)
Theorem run_eq_iter_single : forall n s s', single_run n s = (s', Done) ->
  forall m, (n <= m)%nat -> single_iter m s = s' /\ single_done s' = true.
Proof. exact run_eq_iter_single_lemma. Qed.
Print Assumptions run_eq_iter_single.

Theorem run_eq_iter_pipe : forall n p p', pipe_run n p = (p', PDone) ->
  forall m, (n <= m)%nat -> pipe_iter m p = p' /\ pipe_done p' = true.
Proof. exact run_eq_iter_pipe_lemma. Qed.
Print Assumptions run_eq_iter_pipe.

Theorem run_eq_iter_toy : forall n s s', t_nextcycle s = 1 ->
  toy_run n s = (s', TNone, true) ->
  forall m, (n <= m)%nat -> toy_steps m s = s' /\ toy_done s' = true /\ t_nextcycle s' = 1.
Proof. exact run_eq_iter_toy_lemma. Qed.
Print Assumptions run_eq_iter_toy.

(** * 4. a program with no instructions is done immediately *)
Theorem empty_program_done_single : forall s, prog (im s) = [] ->
  single_done s = true /\ single_sim_step s = (false, s, None) /\
  forall n, single_run n s = (s, Done).
Proof. exact empty_program_done_single_lemma. Qed.
Print Assumptions empty_program_done_single.

Theorem empty_program_done_pipe : forall s hz, prog (im s) = [] ->
  pipe_done (pipe_init s hz) = true /\
  pipe_sim_step (pipe_init s hz) = (false, pipe_init s hz, None) /\
  forall n, pipe_run n (pipe_init s hz) = (pipe_init s hz, PDone).
Proof. exact empty_program_done_pipe_lemma. Qed.
Print Assumptions empty_program_done_pipe.

Theorem empty_program_done_toy : forall s, t_loaded s = None ->
  toy_done s = true /\ (forall n, toy_run n s = (s, TNone, true)) /\
  (t_nextcycle s = 1 -> toy_sim_step s = (false, s, TNone)).
Proof. exact empty_program_done_toy_lemma. Qed.
Print Assumptions empty_program_done_toy.

(* [t_loaded = None] is what a load without instructions, and the constructor, leave *)
Theorem toy_load_empty_done : forall s toks s', toy_load s toks = (s', None) ->
  toy_has_instructions s' = false -> toy_done s' = true.
Proof. exact toy_load_empty_done_lemma. Qed.
Print Assumptions toy_load_empty_done.

Theorem toy_init_done : forall sz nc st, toy_done (toy_init sz nc st) = true.
Proof. exact toy_init_done_lemma. Qed.
Print Assumptions toy_init_done.

(** * 5. loading after earlier loads *)
(* RISC-V, any state, any cache configuration, no hypothesis: state, parser error and image of
   a load after an earlier (successful or failed) load are those of the load alone *)
Theorem reload_eq_fresh : forall s t1 t, rv_load (fst (fst (rv_load s t1))) t = rv_load s t.
Proof. exact reload_eq_fresh_lemma. Qed.
Print Assumptions reload_eq_fresh.

Theorem reload_eq_fresh_many : forall ts s t, rv_load (rv_loads ts s) t = rv_load s t.
Proof. exact reload_eq_fresh_many_lemma. Qed.
Print Assumptions reload_eq_fresh_many.

(* in particular from a newly constructed simulation (this IS the property: a simulation that
   has not started is a new one that has only been loaded) *)
Theorem reload_eq_fresh_init : forall ts m ic t,
  rv_load (rv_loads ts (init_st [] m ic)) t = rv_load (init_st [] m ic) t.
Proof. intros ts m ic t. exact (reload_eq_fresh_many_lemma ts (init_st [] m ic) t). Qed.
Print Assumptions reload_eq_fresh_init.

Theorem pipe_reload_eq_fresh : forall p t1 t, pipe_load (fst (fst (pipe_load p t1))) t = pipe_load p t.
Proof. exact pipe_reload_eq_fresh_lemma. Qed.
Print Assumptions pipe_reload_eq_fresh.

Theorem pipe_reload_eq_fresh_many : forall ts p t, pipe_load (pipe_loads ts p) t = pipe_load p t.
Proof. exact pipe_reload_eq_fresh_many_lemma. Qed.
Print Assumptions pipe_reload_eq_fresh_many.

(* the ingredients, for the record *)
Theorem ms_reset_idempotent : forall m, ms_reset (ms_reset m) = ms_reset m.
Proof. exact ms_reset_idem. Qed.
Print Assumptions ms_reset_idempotent.

Theorem im_reset_idempotent : forall i, im_reset (im_reset i) = im_reset i.
Proof. exact im_reset_idem. Qed.
Print Assumptions im_reset_idempotent.

Theorem im_reset_depends_on_cfg_only : forall i1 i2, icfg_of i1 = icfg_of i2 -> im_reset i1 = im_reset i2.
Proof. exact im_reset_cfg_only. Qed.
Print Assumptions im_reset_depends_on_cfg_only.

Theorem ms_reset_depends_on_shell_only : forall m1 m2, dshell_of m1 = dshell_of m2 -> ms_reset m1 = ms_reset m2.
Proof. exact ms_reset_shell_only. Qed.
Print Assumptions ms_reset_depends_on_shell_only.

(* direct (parser) writes keep configuration and the data-cache counters, and cost no cycles *)
Theorem direct_write_keeps_counters : forall m nb a v e m' p, ms_write m nb a v true = (e, m', p) ->
  dshell_of m' = dshell_of m /\ p = 0.
Proof. exact ms_write_direct_counters. Qed.
Print Assumptions direct_write_keeps_counters.

(* load_program touches only data memory and instruction memory; pc, registers, output, exit
   code, performance counters AND the data-cache hit/access counters are KEPT *)
Theorem rv_load_frame : forall s t, let s' := fst (fst (rv_load s t)) in
  pc s' = pc s /\ regs s' = regs s /\ out s' = out s /\ exitc s' = exitc s /\
  icount s' = icount s /\ bcount s' = bcount s /\ pcount s' = pcount s /\
  cycles s' = cycles s /\ stalls s' = stalls s /\ flushes s' = flushes s /\
  dshell_of (ms s') = dshell_of (ms s) /\ icfg_of (im_reset (im s')) = icfg_of (im_reset (im s)).
Proof. exact rv_load_frame_lemma. Qed.
Print Assumptions rv_load_frame.

Theorem pipe_load_frame : forall p t, let p' := fst (fst (pipe_load p t)) in
  lat p' = lat p /\ stalled p' = stalled p /\ saved p' = saved p /\ hazards p' = hazards p.
Proof. exact pipe_load_frame_lemma. Qed.
Print Assumptions pipe_load_frame.

(* what "has not started" buys: for ANY state whose untouched components still have their
   initial values the load equals the load into the newly constructed simulation with the same
   cache configuration; [not_started] holds initially and is kept by loads *)
Theorem load_eq_fresh_of_not_started : forall s t, not_started s ->
  rv_load s t = rv_load (fresh_like s) t.
Proof. exact load_eq_fresh_of_not_started_lemma. Qed.
Print Assumptions load_eq_fresh_of_not_started.

Theorem not_started_initially : forall m ic, not_started (init_st [] (ms_fresh m) ic).
Proof. exact not_started_init. Qed.
Print Assumptions not_started_initially.

Theorem not_started_kept_by_load : forall s t, not_started s -> not_started (fst (fst (rv_load s t))).
Proof. exact not_started_load. Qed.
Print Assumptions not_started_kept_by_load.

(* TOY: the load rebuilds the whole state and keeps only size, next_cycle, has_started *)
Theorem toy_reload_eq_fresh : forall s t1 t, toy_load (fst (toy_load s t1)) t = toy_load s t.
Proof. exact toy_reload_eq_fresh_lemma. Qed.
Print Assumptions toy_reload_eq_fresh.

Theorem toy_reload_eq_fresh_many : forall ts s t, toy_load (toy_loads ts s) t = toy_load s t.
Proof. exact toy_reload_eq_fresh_many_lemma. Qed.
Print Assumptions toy_reload_eq_fresh_many.

Theorem toy_load_frame : forall s t, let s' := fst (toy_load s t) in
  t_size s' = t_size s /\ t_nextcycle s' = t_nextcycle s /\ t_started s' = t_started s.
Proof. exact toy_load_frame_lemma. Qed.
Print Assumptions toy_load_frame.

Theorem toy_load_eq_fresh : forall s t,
  toy_load s t = toy_load (toy_init (t_size s) (t_nextcycle s) (t_started s)) t.
Proof. exact toy_load_eq_fresh_lemma. Qed.
Print Assumptions toy_load_eq_fresh.

(** * Non-vacuity *)
(* li a7, 93 ; li a0, 7 ; ecall ; li t0, 1 ; li t1, 2 — three instructions ending with an exit
   ecall, followed by two younger instructions that must never take effect *)
Definition prog5 : list instr :=
  [II ADDI 17 0 93; II ADDI 10 0 7; IEcall; II ADDI 5 0 1; II ADDI 6 0 2].
Definition s5 : st := init_st prog5 (MFlat []) None.
Definition s5_final : st := fst (single_run 100 s5).
Definition p5 : pstate := pipe_init s5 true.
Definition p5_final : pstate := fst (pipe_run 100 p5).

Example single_exit_example :
  single_run 100 s5 = (s5_final, Done) /\ single_run 3 s5 = (s5_final, Done) /\
  snd (single_run 2 s5) = OutOfFuel /\
  single_steps 3 s5 = (s5_final, Done) /\ single_steps_ret 3 s5 = (s5_final, Done) /\
  single_iter 3 s5 = s5_final /\ single_iter 50 s5 = s5_final /\
  single_done s5_final = true /\ exitc s5_final = Some 7 /\ icount s5_final = 3 /\
  cycles s5_final = 3 /\ rget s5_final 5 = 0 /\ rget s5_final 6 = 0 /\
  has_instr (im s5_final) (pc s5_final) = true /\      (* done although instructions remain *)
  single_sim_step s5_final = (false, s5_final, None) /\
  single_run 7 s5_final = (s5_final, Done) /\
  (* the flag: true after the first two steps, false after the ecall *)
  fst (fst (single_sim_step s5)) = true /\
  fst (fst (single_sim_step (single_iter 2 s5))) = false.
Proof. vm_compute. repeat split; reflexivity. Qed.

Example pipe_exit_example :
  pipe_run 100 p5 = (p5_final, PDone) /\ pipe_run 9 p5 = (p5_final, PDone) /\
  snd (pipe_run 8 p5) = POutOfFuel /\
  pipe_steps 9 p5 = (p5_final, PDone) /\ pipe_steps_ret 9 p5 = (p5_final, PDone) /\
  pipe_iter 9 p5 = p5_final /\ pipe_iter 50 p5 = p5_final /\
  pipe_done p5_final = true /\ exitc (pst p5_final) = Some 7 /\ icount (pst p5_final) = 3 /\ cycles (pst p5_final) = 9 /\
  has_instr (im (pst p5_final)) (pc (pst p5_final)) = true /\   (* done although instructions remain *)
  rget (pst p5_final) 5 = 0 /\ rget (pst p5_final) 6 = 0 /\
  pipe_sim_step p5_final = (false, p5_final, None) /\
  pipe_run 9 p5_final = (p5_final, PDone) /\
  fst (fst (pipe_sim_step (pipe_iter 7 p5))) = true /\
  fst (fst (pipe_sim_step (pipe_iter 8 p5))) = false.
Proof. vm_compute. repeat split; reflexivity. Qed.

(* same program without hazard detection: still done with exit code 7 *)
Example pipe_exit_nohz_example :
  let pf := fst (pipe_run 100 (pipe_init s5 false)) in
  snd (pipe_run 100 (pipe_init s5 false)) = PDone /\ exitc (pst pf) = Some 7 /\
  pipe_sim_step pf = (false, pf, None).
Proof. vm_compute. repeat split; reflexivity. Qed.

(* a fault ends run(); more fuel changes nothing: lw x5, 0(x0) reads below the data segment *)
Example fault_example :
  exists s' f, single_run 1 (init_st [ILoad LW 5 0 0] (MFlat []) None) = (s', Faulted f) /\
               single_run 9 (init_st [ILoad LW 5 0 0] (MFlat []) None) = (s', Faulted f) /\
               fst (fst (single_sim_step (init_st [ILoad LW 5 0 0] (MFlat []) None))) = false.
Proof. vm_compute. eexists. eexists. repeat split; reflexivity. Qed.

(* empty program, both modes *)
Example empty_example :
  single_done (init_st [] (MFlat []) None) = true /\
  single_sim_step (init_st [] (MFlat []) None) = (false, init_st [] (MFlat []) None, None) /\
  pipe_done (pipe_init (init_st [] (MFlat []) None) true) = true /\
  pipe_run 5 (pipe_init (init_st [] (MFlat []) None) true)
    = (pipe_init (init_st [] (MFlat []) None) true, PDone).
Proof. vm_compute. repeat split; reflexivity. Qed.

(** token trees: li rd, imm / ecall / a .data word / a line the assembler rejects *)
Definition tok_li (rd imm : str) : rline :=
  RInstr None (BIns {| k_mn := 54; k_rd := Some (RAbi rd); k_rs1 := None; k_rs2 := None;
                       k_reg1 := None; k_reg2 := None; k_rs := None; k_imm := Some imm;
                       k_csr := None; k_uimm := None; k_offset := None; k_label := None;
                       k_var := None |}).
Definition toks5 : list (Z * rline) :=
  [(1, tok_li [97; 55] [57; 51]); (2, tok_li [97; 48] [55]); (3, RInstr None (BStr 0));
   (4, tok_li [116; 48] [49]); (5, tok_li [116; 49] [50])].
Definition toks_data : list (Z * rline) :=
  [(1, RDirective 1); (2, RVarDecl 0 2 [[55]]); (3, RDirective 0); (4, RInstr None (BStr 0))].
Definition toks_bad : list (Z * rline) := [(1, RInstr None BOther)].

Definition dcfg2 : ccfg := {| ibits := 1; bbits := 0; assoc := 2; plru := false |}.
Definition s_cached : st :=
  init_st [] (MCache (dcache_init dcfg2 false 5)) (Some (icache_init dcfg2 3)).
Definition s_flat : st := init_st [] (MFlat []) None.

Example load_example :
  (exists img, rv_load s_flat toks5 = (s5, None, Some img)) /\
  snd (fst (rv_load s_flat toks_bad)) = Some (PSyntax 1) /\
  ms_lower (ms (rv_loads [toks_data] s_cached)) <> [] /\
  prog (im (rv_loads [toks_data] s_cached)) = [IEcall] /\
  (* after a successful load with data, a failed load, and another successful load *)
  rv_load (rv_loads [toks_data; toks_bad; toks5] s_cached) toks5 = rv_load s_cached toks5 /\
  rv_load (rv_loads [toks_data; toks_bad] s_flat) toks5 = rv_load s_flat toks5 /\
  not_started (rv_loads [toks_data; toks_bad] s_cached) /\
  (* loading the empty program leaves a done simulation *)
  single_done (fst (fst (rv_load s_flat []))) = true /\
  pipe_done (pipe_init (fst (fst (rv_load s_cached []))) true) = true.
Proof.
  split; [eexists; vm_compute; reflexivity|].
  split; [vm_compute; reflexivity|].
  split; [vm_compute; discriminate|].
  split; [vm_compute; reflexivity|].
  split; [vm_compute; reflexivity|].
  split; [vm_compute; reflexivity|].
  split; [vm_compute; repeat split; reflexivity|].
  split; vm_compute; reflexivity.
Qed.

(* why the property says "has not started": load_program keeps pc, registers and the exit code,
   so a simulation that has RUN to its exit and is then re-loaded is not in the fresh-load state
   (it is even done at once, the exit code still being set) *)
Example started_reload_differs :
  let s' := fst (fst (rv_load s5_final toks5)) in
  s' <> fst (fst (rv_load s_flat toks5)) /\ exitc s' = Some 7 /\ pc s' = 12 /\
  rget s' 10 = 7 /\ single_done s' = true /\ ~ not_started s5_final.
Proof.
  cbv zeta. split; [vm_compute; discriminate|]. split; [vm_compute; reflexivity|].
  split; [vm_compute; reflexivity|]. split; [vm_compute; reflexivity|].
  split; [vm_compute; reflexivity|]. intros H. destruct H as [H _]. vm_compute in H. discriminate.
Qed.

(** TOY: INC ; INC ; STO 0x010 *)
Definition ttoks3 : list (Z * tline) :=
  [(1, TLInstr None 9 TNoOperand); (2, TLInstr None 9 TNoOperand);
   (3, TLInstr None 0 (TAddrLit [48; 120; 48; 49; 48]))].
Definition ttoks_bad : list (Z * tline) := [(1, TLInstr None 1 (TLabel 5))].     (* unknown label *)
Definition t0 : tstate := toy_init 4096 1 false.
Definition t3 : tstate := fst (toy_load t0 ttoks3).
Definition t3_final : tstate := fst (fst (toy_run 100 t3)).

Example toy_example :
  snd (toy_load t0 ttoks3) = None /\ toy_done t3 = false /\
  toy_run 100 t3 = (t3_final, TNone, true) /\ toy_run 3 t3 = (t3_final, TNone, true) /\
  snd (toy_run 2 t3) = false /\
  toy_steps_until 3 t3 = (t3_final, TNone, true) /\ toy_steps_ret 3 t3 = (t3_final, TNone, true) /\
  toy_steps 3 t3 = t3_final /\ toy_steps 40 t3 = t3_final /\
  toy_done t3_final = true /\ mget (t_mem t3_final) 16 = 2 /\ t_icount t3_final = 3 /\
  t_cycles t3_final = 6 /\
  toy_sim_step t3_final = (false, t3_final, TNone) /\
  toy_run 5 t3_final = (t3_final, TNone, true) /\
  fst (fst (toy_sim_step t3)) = true /\ fst (fst (toy_sim_step (toy_steps 2 t3))) = false.
Proof. vm_compute. repeat split; reflexivity. Qed.

Example toy_load_example :
  snd (toy_load t0 ttoks_bad) = Some (PLabel 1) /\
  toy_load (toy_loads [ttoks3; ttoks_bad; ttoks3] t0) ttoks3 = toy_load t0 ttoks3 /\
  (* also into a simulation that has run: the TOY load rebuilds everything *)
  toy_load t3_final ttoks3 = (toy_load (toy_init 4096 1 true) ttoks3) /\
  (* the empty program: loaded without error, done at once *)
  snd (toy_load t0 []) = None /\ toy_done (fst (toy_load t0 [])) = true /\
  toy_has_instructions (fst (toy_load t0 [])) = false /\
  toy_sim_step (fst (toy_load t0 [])) = (false, fst (toy_load t0 []), TNone).
Proof. vm_compute. repeat split; reflexivity. Qed.
