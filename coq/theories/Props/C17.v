(* Props/C17.v — property C17: every value shown is given as binary, unsigned-decimal,
   hexadecimal and signed-decimal strings that all denote the current value in two's complement
   at the stated width, with the documented digit grouping; data-memory tables list exactly the
   words of the backing store that contain a written byte, at their aligned addresses, ascending.

   Only statements; every proof is [exact <lemma>] into Proofs/C17Proofs.v.
   The reading functions (of_digits, ungroup, parse_dec, well_grouped) are in Spec/Numerals.v and
   do not mention the model.  Strings are lists of character codes; [codes "..."] converts a
   literal.  In all theorems n is ANY width >= 1 and v ANY integer (negative, over-wide). *)
From Coq Require Import String Sorted.
From ArchSim Require Import Model.Base Model.Mem Model.Fmt Spec.Numerals Proofs.C17Proofs.
Open Scope Z_scope.

(** ** 1-3. The four strings denote the value *)

Theorem bin_denotes : forall n v, 1 <= n ->
  let '(b, ud, h, sd) := n_bit_repr n v in
  of_digits 2 (ungroup b) = Some (v mod 2 ^ n) /\ Z.of_nat (length (ungroup b)) = n.
Proof. exact bin_denotes_lem. Qed.
Print Assumptions bin_denotes.

Theorem hex_denotes : forall n v, 1 <= n ->
  let '(b, ud, h, sd) := n_bit_repr n v in
  of_digits 16 (ungroup h) = Some (v mod 2 ^ n) /\ Z.of_nat (length (ungroup h)) = (n + 3) / 4.
Proof. exact hex_denotes_lem. Qed.
Print Assumptions hex_denotes.

Theorem udec_denotes : forall n v, 1 <= n ->
  let '(b, ud, h, sd) := n_bit_repr n v in parse_dec ud = Some (v mod 2 ^ n).
Proof. exact udec_denotes_lem. Qed.
Print Assumptions udec_denotes.

Theorem sdec_denotes : forall n v, 1 <= n ->
  let '(b, ud, h, sd) := n_bit_repr n v in
  parse_dec sd = Some (let u := v mod 2 ^ n in if u <? 2 ^ (n - 1) then u else u - 2 ^ n).
Proof. exact sdec_denotes_lem. Qed.
Print Assumptions sdec_denotes.

(* the signed reading above is the two's-complement value: it is the model's [I n v], lies in
   [-2^(n-1), 2^(n-1)) and is congruent to v modulo 2^n *)
Theorem signed_reading_is_twos_complement : forall n v, 1 <= n ->
  let u := v mod 2 ^ n in
  let s := if u <? 2 ^ (n - 1) then u else u - 2 ^ n in
  s = I n v /\ - 2 ^ (n - 1) <= s < 2 ^ (n - 1) /\ s mod 2 ^ n = v mod 2 ^ n.
Proof. exact twos_range. Qed.
Print Assumptions signed_reading_is_twos_complement.

(** ** 4. Grouping *)

(* for any space-free string and group size g >= 1: removing the spaces gives the string back,
   and the layout is the documented one (see [well_grouped]) *)
Theorem grouping : forall (g : nat) (s : list Z), (1 <= g)%nat -> Forall (fun c => c <> 32) s ->
  ungroup (groupify g s) = s /\ well_grouped g (groupify g s).
Proof. exact grouping_lem. Qed.
Print Assumptions grouping.

(* binary in groups of 8, hex in groups of 2; the decimal strings contain no space *)
Theorem repr_grouping : forall n v, 1 <= n ->
  let '(b, ud, h, sd) := n_bit_repr n v in
  well_grouped 8 b /\ well_grouped 2 h /\ ungroup ud = ud /\ ungroup sd = sd.
Proof. exact repr_grouping_lem. Qed.
Print Assumptions repr_grouping.

(** ** 5. The core: printing then reading a natural number in base 2..16 *)

Theorem fmt_nat_roundtrip : forall base z, 2 <= base <= 16 -> 0 <= z ->
  of_digits base (fmt_nat base z) = Some z /\
  (z = 0 -> fmt_nat base z = [48]) /\
  (0 < z -> exists c t, fmt_nat base z = c :: t /\ c <> 48).
Proof. exact fmt_nat_roundtrip_lem. Qed.
Print Assumptions fmt_nat_roundtrip.

Theorem str_dec_roundtrip : forall z, parse_dec (str_dec z) = Some z.
Proof. exact parse_dec_str_dec. Qed.
Print Assumptions str_dec_roundtrip.

Theorem to_hex_str_denotes : forall v n, 1 <= n -> 0 <= v < 2 ^ n ->
  of_digits 16 (to_hex_str v n) = Some v /\ Z.of_nat (length (to_hex_str v n)) = (n + 3) / 4.
Proof. exact to_hex_str_lem. Qed.
Print Assumptions to_hex_str_denotes.

(** ** 6. The data-memory table *)

(* For EVERY memory configuration c, unit size nbits and store m (no hypothesis):
   whenever the table is produced, its addresses are exactly the aligned addresses of the
   written keys, strictly ascending, and each value is the unit read at that address. *)
Theorem mem_table_exact : forall c m nbits rows, mem_repr c m nbits = Ok rows ->
  (forall a, In a (map fst rows) <-> exists k, In k (mkeys m) /\ a = k - k mod (nbits / cw c)) /\
  StronglySorted Z.lt (map fst rows) /\
  (forall a v, In (a, v) rows -> mem_read c m nbits a = Ok v).
Proof. exact mem_table_exact_lem. Qed.
Print Assumptions mem_table_exact.

(* The table IS produced when the written keys lie in the valid address window
   ([keys_in_range c m := forall k, In k (mkeys m) -> alo c <= k < ahi c]) and the window is a
   whole number of units ([cfg_aligned], see Proofs/C17Proofs.v). *)
Theorem mem_table_total : forall c m nbits,
  cfg_aligned c (nbits / cw c) -> keys_in_range c m -> exists rows, mem_repr c m nbits = Ok rows.
Proof. exact mem_table_total_lem. Qed.
Print Assumptions mem_table_total.

(* RISC-V data memory, byte / halfword / word tables *)
Theorem rv_cfg_aligned : forall nbits, nbits = 8 \/ nbits = 16 \/ nbits = 32 ->
  cfg_aligned rv_memcfg (nbits / cw rv_memcfg).
Proof. exact rv_aligned. Qed.
Print Assumptions rv_cfg_aligned.

(* the hypothesis is an invariant of the only operation that adds keys *)
Theorem keys_in_range_preserved : forall c m nbits a v,
  keys_in_range c m -> keys_in_range c (fst (mem_write c m nbits a v)).
Proof. exact mem_write_keys. Qed.
Print Assumptions keys_in_range_preserved.

(* RISC-V word table, spelled out *)
Theorem rv_word_table : forall m, (forall k, In k (mkeys m) -> 16384 <= k < 4294967296) ->
  exists rows, mem_repr rv_memcfg m 32 = Ok rows /\
  (forall a, In a (map fst rows) <-> exists k, In k (mkeys m) /\ a = k - k mod 4) /\
  StronglySorted Z.lt (map fst rows) /\
  (forall a v, In (a, v) rows -> mem_read rv_memcfg m 32 a = Ok v).
Proof. exact rv_word_table_lem. Qed.
Print Assumptions rv_word_table.

(** ** Non-vacuity: concrete values, expected strings taken from the Python
    (get_n_bit_representations / Memory.wordwise_repr) *)

Example ex_12_m1 : n_bit_repr 12 (-1) =
  (codes "1111 11111111", codes "4095", codes "F FF", codes "-1").
Proof. vm_compute. reflexivity. Qed.

Example ex_32_12345678 : n_bit_repr 32 305419896 =
  (codes "00010010 00110100 01010110 01111000", codes "305419896", codes "12 34 56 78",
   codes "305419896").
Proof. vm_compute. reflexivity. Qed.

Example ex_32_m2 : n_bit_repr 32 (-2) =
  (codes "11111111 11111111 11111111 11111110", codes "4294967294", codes "FF FF FF FE",
   codes "-2").
Proof. vm_compute. reflexivity. Qed.

(* over-wide value: 4101 = 4096 + 5 at width 12 *)
Example ex_12_overwide : n_bit_repr 12 4101 =
  (codes "0000 00000101", codes "5", codes "0 05", codes "5").
Proof. vm_compute. reflexivity. Qed.

Example ex_9_m256 : n_bit_repr 9 (-256) =
  (codes "1 00000000", codes "256", codes "1 00", codes "-256").
Proof. vm_compute. reflexivity. Qed.

Example ex_5_17 : n_bit_repr 5 17 = (codes "10001", codes "17", codes "11", codes "-15").
Proof. vm_compute. reflexivity. Qed.

Example ex_1_1 : n_bit_repr 1 1 = (codes "1", codes "1", codes "1", codes "-1").
Proof. vm_compute. reflexivity. Qed.

Example ex_groupify : groupify 4 (codes "1110000") = codes "111 0000".
Proof. vm_compute. reflexivity. Qed.

Example ex_read_bin : of_digits 2 (ungroup (codes "1111 11111111")) = Some 4095.
Proof. vm_compute. reflexivity. Qed.
Example ex_read_hex : of_digits 16 (ungroup (codes "12 34 56 78")) = Some 305419896.
Proof. vm_compute. reflexivity. Qed.
Example ex_read_sdec : parse_dec (codes "-15") = Some (-15).
Proof. vm_compute. reflexivity. Qed.
(* the reader is strict: wrong digit for the base, empty string, lower case, stray characters *)
Example ex_read_strict :
  of_digits 2 (codes "102") = None /\ of_digits 10 [] = None /\ of_digits 16 (codes "ff") = None /\
  of_digits 16 (codes "1 2") = None /\ parse_dec (codes "-") = None /\ parse_dec (codes "--1") = None.
Proof. vm_compute. repeat split. Qed.

(* memory table: sw 0x12345678 @16392, sb 0xAB @16387, sh 0xBEEF @16391 (straddles two words),
   sb 1 @2^32-1; Python dict order is 16392,16384,16388,4294967292, shown sorted. *)
Definition ex_mem : zmap :=
  let m := fst (mem_write rv_memcfg [] 32 16392 305419896) in
  let m := fst (mem_write rv_memcfg m 8 16387 171) in
  let m := fst (mem_write rv_memcfg m 16 16391 48879) in
  fst (mem_write rv_memcfg m 8 4294967295 1).

Example ex_mem_keys : mkeys ex_mem = [16392; 16393; 16394; 16395; 16387; 16391; 4294967295].
Proof. vm_compute. reflexivity. Qed.

Example ex_mem_table : mem_repr rv_memcfg ex_mem 32 =
  Ok [(16384, 2868903936); (16388, 4009754624); (16392, 305419966); (4294967292, 16777216)].
Proof. vm_compute. reflexivity. Qed.

(* the hypothesis of [mem_table_total] is needed: a key outside the window makes the read fail *)
Example ex_mem_out_of_range : mem_repr rv_memcfg [(5, 1)] 32 = Err (EAddr 4 16384 4294967295 false).
Proof. vm_compute. reflexivity. Qed.
