(* Props/C08Caches.v — property C08 (five-stage pipeline with hazard detection DISABLED) for every
   memory configuration: any data cache (write-back / write-through, LRU / PLRU, any legal
   geometry) and any instruction cache.  Only statements; proofs in Proofs/Lift2Off.v.

   1. [flagoff_refines_single_caches] / [flagoff_lockstep_caches]: on a program whose register
      dependencies are at least three instructions apart ([dep_free_weak], Props/C08DelayedWB.v)
      the cached flag-off pipeline runs CYCLE BY CYCLE like the cached hazard-detecting pipeline
      (same architectural state — memory system, cycle / stall / flush counters included —, same
      latches up to the decode stall flag [erase], same retire trace, same run end), hence refines
      the single-cycle machine WITH THE SAME CACHES in the strong sense of
      Props/C02CachesFaults.v: Done — same registers, output, exit code, counters, memory system
      and retire trace; Faulted f — the same fault record (cache rejections included), same
      registers, output and memory system.  How: the latches of the cached pipeline are those of
      its flattened twin ([sim_run_stages]), which satisfies the invariant K of
      Proofs/FlagOffSim.v, so the interlock never fires.
   2. [flagoff_is_dwb_caches]: no dependency hypothesis.  The reference is the delayed-write-back
      machine [dwb_run] (Props/C08DelayedWBFull.v) of the FLATTENED state [flatten s]
      (Props/C03Programs.v): if it ends Done / Faulted ff within n instructions, then within
      8n+8 cycles the cached flag-off pipeline either ends in the same way — PDone with the same
      registers, output, exit code, counters, logical memory and retire trace; PFaulted with the
      corresponding record [fmap] (Props/C03Programs.v: only the address named by an address
      error may differ), same registers, output and logical memory — or, earlier, its data cache
      rejects a word-crossing access in MEM ([pipe_rejects]) which the flat reference answers.
      (A reference machine with caches of its own would have to be shown to reject the same
      accesses; that is done for the single-cycle machine in 1, not for [dwb_run].) *)
From ArchSim Require Import Spec.RefCache.
From ArchSim Require Import Model.Base Model.Mem Model.Cache Model.Fmt Model.RV Model.Single
  Model.RVSplit Model.Pipe
  Proofs.CacheArith Proofs.CacheInv Proofs.C01Step Proofs.SplitExec Proofs.PipeInv
  Proofs.FlagOffDep Proofs.FlagOffSim Proofs.FlagOffDwb
  Proofs.LiftSim Proofs.LiftSingle Proofs.LiftPipe Proofs.LiftPipeRun Proofs.LiftRefine Proofs.LiftMeaning
  Proofs.Lift2Off.
Open Scope Z_scope.

(** ** 1. Dependencies three apart: flag off = flag on = single-cycle, with the same caches *)
Theorem flagoff_lockstep_caches : forall s c, cwf s -> dep_free_weak (prog (im s)) = true ->
  pipe_run c (pipe_init s false) =
    (erase (fst (pipe_run c (pipe_init s true))), snd (pipe_run c (pipe_init s true))) /\
  pipe_trace c (pipe_init s false) = pipe_trace c (pipe_init s true).
Proof. exact flagoff_lockstep_caches_lem. Qed.
Print Assumptions flagoff_lockstep_caches.

Theorem flagoff_refines_single_caches : forall s n,
  cwf s -> Forall (fun i => supported i = true) (prog (im s)) -> dep_free_weak (prog (im s)) = true ->
  match single_run n s with
  | (s', Done) => exists c p, (c <= 8 * n + 8)%nat /\
      pipe_run c (pipe_init s false) = (p, PDone) /\ agree_log p s' /\ ms (pst p) = ms s' /\
      pipe_trace c (pipe_init s false) = single_trace n s
  | (s', Faulted f) => exists c p, (c <= 8 * n + 8)%nat /\
      pipe_run c (pipe_init s false) = (p, PFaulted f) /\ fault_agree p s' /\ ms (pst p) = ms s'
  | (_, OutOfFuel) => True
  end.
Proof. exact flagoff_refines_single_caches_lem. Qed.
Print Assumptions flagoff_refines_single_caches.

(** ** 2. No dependency hypothesis: the delayed-write-back reference machine *)
Theorem flagoff_is_dwb_caches : forall s n,
  cwf s -> Forall (fun i => supported i = true) (prog (im s)) ->
  match dwb_run n (flatten s) with
  | (t', Done) => exists c, (c <= 8 * n + 8)%nat /\
      match pipe_run c (pipe_init s false) with
      | (p, PDone) => agree_log p t' /\ pipe_trace c (pipe_init s false) = dwb_trace n (flatten s)
      | (p, PFaulted f) => exists k pk, (k < c)%nat /\
          pipe_run k (pipe_init s false) = (pk, POutOfFuel) /\ pipe_rejects pk f
      | (_, POutOfFuel) => False
      end
  | (t', Faulted ff) => exists c, (c <= 8 * n + 8)%nat /\
      match pipe_run c (pipe_init s false) with
      | (p, PFaulted f) =>
          (f = fmap (ms_cfg (ms s)) ff /\ fault_agree p t') \/
          (exists k pk, (k < c)%nat /\ pipe_run k (pipe_init s false) = (pk, POutOfFuel) /\ pipe_rejects pk f)
      | _ => False
      end
  | (_, OutOfFuel) => True
  end.
Proof. exact flagoff_is_dwb_caches_lem. Qed.
Print Assumptions flagoff_is_dwb_caches.

(** ** Non-vacuity.  Data cache: one set, two ways, one word per block, PLRU, penalty 10;
    instruction cache direct mapped, penalty 5. *)
Definition c08c_dg : ccfg := {| ibits := 0; bbits := 0; assoc := 2; plru := true |}.
Definition c08c_ig : ccfg := {| ibits := 1; bbits := 1; assoc := 1; plru := false |}.
Definition c08c_st (p : list instr) (wt : bool) : st :=
  init_st p (MCache (dcache_init c08c_dg wt 10)) (mk_icache (Some (c08c_ig, 5))).

(* dependencies three apart (nops in between), stores evicting a dirty block, loads, a branch *)
Definition c08c_free : list instr :=
  [ ILui 6 4; II ADDI 1 0 7; II ADDI 0 0 0; II ADDI 0 0 0; IStore SW 6 1 0; IStore SW 6 1 4; IStore SW 6 1 8;
    ILoad LW 2 6 0; II ADDI 0 0 0; II ADDI 0 0 0; IR ADD 3 2 2; IBranch BEQ 0 0 8; II ADDI 3 0 99;
    II ADDI 17 0 10; II ADDI 0 0 0; II ADDI 0 0 0; IEcall ].
Example c08c_free_ok : dep_free_weak c08c_free = true /\ Forall (fun i => supported i = true) c08c_free.
Proof. split; [vm_compute; reflexivity|]. unfold c08c_free. repeat (apply Forall_cons; [reflexivity|]). apply Forall_nil. Qed.

Example c08c_free_runs : forall wt,
  let s := c08c_st c08c_free wt in
  snd (single_run 50 s) = Done /\ snd (pipe_run 100 (pipe_init s false)) = PDone /\
  pst (fst (pipe_run 100 (pipe_init s false))) = pst (fst (pipe_run 100 (pipe_init s true))) /\
  ms (pst (fst (pipe_run 100 (pipe_init s false)))) = ms (fst (single_run 50 s)) /\
  regs (pst (fst (pipe_run 100 (pipe_init s false)))) = regs (fst (single_run 50 s)) /\
  mget (regs (fst (single_run 50 s))) 3 = 14 /\
  pipe_trace 100 (pipe_init s false) = single_trace 50 s.
Proof. intros [|]; vm_compute; repeat split. Qed.

(* a consumer one slot behind its producer reads the OLD value: the cached flag-off pipeline agrees
   with the delayed-write-back machine of the flattened state, not with the single-cycle machine *)
Definition c08c_stale : list instr :=
  [ ILui 6 4; II ADDI 1 0 5; IR ADD 2 1 1; II ADDI 0 0 0; II ADDI 0 0 0; IStore SW 6 2 0; ILoad LW 3 6 0;
    II ADDI 17 0 10; II ADDI 0 0 0; II ADDI 0 0 0; IEcall ].
Example c08c_stale_runs :
  let s := c08c_st c08c_stale false in
  let p := fst (pipe_run 100 (pipe_init s false)) in
  snd (dwb_run 50 (flatten s)) = Done /\ snd (pipe_run 100 (pipe_init s false)) = PDone /\
  regs (pst p) = regs (fst (dwb_run 50 (flatten s))) /\
  mget (regs (pst p)) 2 = 0 /\ mget (regs (fst (single_run 50 s))) 2 = 10 /\
  pipe_trace 100 (pipe_init s false) = dwb_trace 50 (flatten s) /\
  (forall a, In a [16384; 16385; 16388] ->
     ms_logical (ms (pst p)) a = ms_logical (ms (fst (dwb_run 50 (flatten s)))) a).
Proof.
  cbv zeta. repeat (split; [vm_compute; reflexivity|]).
  intros a [<-|[<-|[<-|[]]]]; vm_compute; reflexivity.
Qed.
