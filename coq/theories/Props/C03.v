(* Props/C03.v — property C03: for every cache configuration and every sequence of byte,
   half-word and word reads and writes that stay within one word, each read through the cached
   memory returns exactly the value an uncached memory would return; an access that crosses a
   word boundary is rejected with an error instead of being answered wrongly, and a rejected
   access leaves every stored value unchanged.

   Only statements; every proof is [exact <lemma>] into Proofs/C03Proofs.v / Proofs/CacheInv.v.

   Vocabulary (definitions in Proofs/CacheInv.v, Proofs/CacheArith.v, Proofs/C03Proofs.v):
     cfg_ok c      0 <= ibits, 0 <= bbits <= 12, ibits + bbits + 2 <= 32, 1 <= assoc,
                   plru -> assoc is a power of two
     okw nbits     nbits = 8 \/ nbits = 16 \/ nbits = 32
     in_word / cross_word nbits a     (a mod 2^32) mod 4 + nbits/8 <= 4  /  > 4
     CInv d        the cache invariant (SInv d: shape, valid blocks well-formed, tags unique per
                   set, valid <-> dirty, policies well-formed, lower cells are bytes; and, for
                   write-through caches, WTInv d: lower memory = logical contents)
     logical d a   the byte at address a seen through the cache (see [logical_meaning])
     Flat f d      forall a in [0,2^32), mget f a = logical d a: f is the uncached memory
     op, cache_step, flat_step, ref_step, run    access histories and their observations
   All statements hold for every geometry with [cfg_ok], write-back and write-through, LRU and
   PLRU, every miss penalty, nbits in {8,16,32}; no size is bounded except the one in [cfg_ok]:
   0 <= block bits <= 12.  That bound is not a convenience: beyond it the property is FALSE of the code
   (finding D9); Props/C03LargeBlocks.v states exactly what holds for every block size. *)
From ArchSim Require Import Model.Base Model.Mem Model.Cache
  Proofs.CacheArith Proofs.CacheInv Proofs.C03Proofs.
Open Scope Z_scope.

(** ** 0. The vocabulary means what it says *)
Theorem logical_meaning : forall d a,
  logical d a =
  let da := cdecode (dc d) a in
  let s := get_set (dc d) (da_idx da) in
  match find_block (blocks s) (da_tag da) 0 with
  | Some bi => byte_of (nthZ (vals (nthZ (blocks s) bi empty_block)) (da_boff da) 0) (da_byoff da)
  | None => mget (lower d) a
  end.
Proof. exact logical_unfold. Qed.
Print Assumptions logical_meaning.

Theorem byte_of_meaning : forall w o, byte_of w o = (w / 2 ^ (8 * o)) mod 256.
Proof. exact byte_of_meaning_proof. Qed.
Print Assumptions byte_of_meaning.

Theorem in_word_meaning : forall nbits a,
  (in_word nbits a <-> (a mod 4294967296) mod 4 + nbits / 8 <= 4) /\
  (cross_word nbits a <-> (a mod 4294967296) mod 4 + nbits / 8 > 4).
Proof. exact in_word_meaning_proof. Qed.
Print Assumptions in_word_meaning.

Theorem flat_meaning : forall f d,
  Flat f d <-> (forall a, 0 <= a < 4294967296 -> mget f a = logical d a).
Proof. exact flat_meaning_proof. Qed.
Print Assumptions flat_meaning.

Theorem decode_meaning : forall ib bb a, geom_ok ib bb ->
  let d := decode_addr ib bb a in
  let x := a mod 4294967296 in
  x = da_balign d + 4 * da_boff d + da_byoff d /\
  0 <= da_boff d < 2 ^ bb /\ 0 <= da_byoff d < 4 /\ 0 <= da_idx d < 2 ^ ib /\ 0 <= da_tag d /\
  da_balign d = (da_tag d * 2 ^ ib + da_idx d) * bsize bb /\
  0 <= da_balign d /\ da_balign d + bsize bb <= 4294967296 /\
  (16384 <= x <-> 16384 <= da_balign d).
Proof. exact decode_spec. Qed.
Print Assumptions decode_meaning.

(** ** 1. The invariant holds initially and is preserved by every access, whatever its outcome *)
Theorem cinv_init : forall c wt pen, cfg_ok c -> CInv (dcache_init c wt pen).
Proof. exact cinv_init_proof. Qed.
Print Assumptions cinv_init.

(* ... and over any preloaded lower memory whose cells are bytes, which is then the flat memory *)
Theorem cinv_init_lower : forall c wt pen m, cfg_ok c -> bytes_ok m ->
  CInv (upd_lower (dcache_init c wt pen) m) /\ Flat m (upd_lower (dcache_init c wt pen) m).
Proof. exact cinv_init_lower_proof. Qed.
Print Assumptions cinv_init_lower.

Theorem cinv_step_read : forall d nbits a counted r d' p, CInv d ->
  dc_read d nbits a counted = (r, d', p) ->
  CInv d' /\ wthrough d' = wthrough d /\ cfg (dc d') = cfg (dc d).
Proof. exact cinv_step_read_proof. Qed.
Print Assumptions cinv_step_read.

Theorem cinv_step_write : forall d nbits a v e d' p, CInv d -> okw nbits -> 0 <= v < 2 ^ nbits ->
  dc_write d nbits a v false = (e, d', p) ->
  CInv d' /\ wthrough d' = wthrough d /\ cfg (dc d') = cfg (dc d).
Proof. exact cinv_step_write_proof. Qed.
Print Assumptions cinv_step_write.

(* direct (parser preload) writes: no guard for write-back; for write-through the access must stay
   inside one word and its block must not be resident *)
Theorem cinv_step_direct : forall d nbits a v e d' p, CInv d -> okw nbits ->
  (wthrough d = true -> in_word nbits a /\ cache_contains (dc d) (cdecode (dc d) a) = false) ->
  dc_write d nbits a v true = (e, d', p) -> CInv d'.
Proof. exact cinv_step_direct_proof. Qed.
Print Assumptions cinv_step_direct.

(* the three together, as in the property text *)
Theorem cinv_step :
  (forall d nbits a counted r d' p, CInv d -> dc_read d nbits a counted = (r, d', p) -> CInv d') /\
  (forall d nbits a v e d' p, CInv d -> okw nbits -> 0 <= v < 2 ^ nbits ->
     dc_write d nbits a v false = (e, d', p) -> CInv d') /\
  (forall d nbits a v e d' p, CInv d -> okw nbits ->
     (wthrough d = true -> in_word nbits a /\ cache_contains (dc d) (cdecode (dc d) a) = false) ->
     dc_write d nbits a v true = (e, d', p) -> CInv d').
Proof. exact cinv_step_proof. Qed.
Print Assumptions cinv_step.

(* the structural part survives ANY direct write (any width, address, value, outcome) *)
Theorem sinv_step_direct : forall d nbits a v e d' p, SInv d ->
  dc_write d nbits a v true = (e, d', p) -> SInv d'.
Proof. exact sinv_direct. Qed.
Print Assumptions sinv_step_direct.

(** ** 2. A read that returns a value returns the uncached value and changes no logical content *)
Theorem read_transparent : forall d f nbits a counted v d' p, CInv d -> Flat f d -> okw nbits ->
  dc_read d nbits a counted = (Ok v, d', p) ->
  mem_read rv_memcfg f nbits a = Ok v /\ Flat f d' /\ CInv d'.
Proof. exact read_transparent_proof. Qed.
Print Assumptions read_transparent.

(** ** 3. A successful write is the uncached write *)
Theorem write_transparent : forall d f nbits a v d' p, CInv d -> Flat f d -> okw nbits ->
  0 <= v < 2 ^ nbits ->
  dc_write d nbits a v false = (None, d', p) ->
  mem_write rv_memcfg f nbits a v = (fst (mem_write rv_memcfg f nbits a v), None) /\
  Flat (fst (mem_write rv_memcfg f nbits a v)) d' /\ CInv d'.
Proof. exact write_transparent_proof. Qed.
Print Assumptions write_transparent.

(** ** 4. Direct writes (parser preload) under the guard "in one word, block not resident" *)
Theorem direct_write_transparent : forall d f nbits a v d' p, CInv d -> Flat f d -> okw nbits ->
  in_word nbits a -> cache_contains (dc d) (cdecode (dc d) a) = false ->
  dc_write d nbits a v true = (None, d', p) ->
  mem_write rv_memcfg f nbits a v = (fst (mem_write rv_memcfg f nbits a v), None) /\
  Flat (fst (mem_write rv_memcfg f nbits a v)) d' /\ CInv d'.
Proof. exact direct_write_transparent_proof. Qed.
Print Assumptions direct_write_transparent.

(** ** 5. A rejected access leaves every stored value unchanged *)
(* reads never change a logical value, whatever they return (hit, miss, eviction, write-back,
   ByteOffsetError after the block fetch, address error) *)
Theorem read_preserves : forall d f nbits a counted r d' p, CInv d -> Flat f d -> okw nbits ->
  dc_read d nbits a counted = (r, d', p) ->
  Flat f d' /\ (forall x, 0 <= x < 4294967296 -> logical d' x = logical d x).
Proof. exact read_preserves_proof. Qed.
Print Assumptions read_preserves.

Theorem rejected_write_preserves : forall d f nbits a v e d' p, CInv d -> Flat f d -> okw nbits ->
  0 <= v < 2 ^ nbits ->
  dc_write d nbits a v false = (Some e, d', p) ->
  Flat f d' /\ (forall x, 0 <= x < 4294967296 -> logical d' x = logical d x) /\ CInv d'.
Proof. exact rejected_write_preserves_proof. Qed.
Print Assumptions rejected_write_preserves.

Theorem rejected_preserves : forall d f nbits a, CInv d -> Flat f d -> okw nbits ->
  (forall counted e d' p, dc_read d nbits a counted = (Err e, d', p) -> Flat f d' /\ CInv d') /\
  (forall v e d' p, 0 <= v < 2 ^ nbits -> dc_write d nbits a v false = (Some e, d', p) ->
     Flat f d' /\ CInv d').
Proof. exact rejected_preserves_proof. Qed.
Print Assumptions rejected_preserves.

(** ** 6. Crossing a word boundary is an error, for both write policies, hit or miss; inside the
       data range it is the ByteOffsetError(offset, 4 - nbytes) *)
Theorem cross_word_read_rejected : forall d nbits a counted r d' p, CInv d -> okw nbits ->
  cross_word nbits a -> dc_read d nbits a counted = (r, d', p) ->
  exists e, r = Err e /\
    (16384 <= a mod 4294967296 -> e = EOffset ((a mod 4294967296) mod 4) (4 - nbits / 8)).
Proof. exact cross_word_read_rejected_proof. Qed.
Print Assumptions cross_word_read_rejected.

Theorem cross_word_write_rejected : forall d nbits a v e d' p, CInv d -> okw nbits ->
  0 <= v < 2 ^ nbits -> cross_word nbits a -> dc_write d nbits a v false = (e, d', p) ->
  exists e0, e = Some e0 /\
    (16384 <= a mod 4294967296 -> e0 = EOffset ((a mod 4294967296) mod 4) (4 - nbits / 8)).
Proof. exact cross_word_write_rejected_proof. Qed.
Print Assumptions cross_word_write_rejected.

Theorem in_word_read_not_offset_error : forall d nbits a counted r d' p, CInv d -> okw nbits ->
  in_word nbits a -> dc_read d nbits a counted = (r, d', p) ->
  forall off mx, r <> Err (EOffset off mx).
Proof. exact in_word_read_no_offset_error_proof. Qed.
Print Assumptions in_word_read_not_offset_error.

Theorem in_word_write_not_offset_error : forall d nbits a v e d' p, CInv d -> okw nbits ->
  0 <= v < 2 ^ nbits -> in_word nbits a -> dc_write d nbits a v false = (e, d', p) ->
  forall off mx, e <> Some (EOffset off mx).
Proof. exact in_word_write_no_offset_error_proof. Qed.
Print Assumptions in_word_write_not_offset_error.

Theorem cross_word_rejected : forall d nbits a, CInv d -> okw nbits -> cross_word nbits a ->
  (forall counted r d' p, dc_read d nbits a counted = (r, d', p) -> exists e, r = Err e) /\
  (forall v e d' p, 0 <= v < 2 ^ nbits -> dc_write d nbits a v false = (e, d', p) -> exists e0, e = Some e0).
Proof. exact cross_word_rejected_proof. Qed.
Print Assumptions cross_word_rejected.

Theorem in_word_not_offset_error : forall d nbits a, CInv d -> okw nbits -> in_word nbits a ->
  (forall counted r d' p off mx, dc_read d nbits a counted = (r, d', p) -> r <> Err (EOffset off mx)) /\
  (forall v e d' p off mx, 0 <= v < 2 ^ nbits -> dc_write d nbits a v false = (e, d', p) ->
     e <> Some (EOffset off mx)).
Proof. exact in_word_not_offset_error_proof. Qed.
Print Assumptions in_word_not_offset_error.

(** ** 7. In-word accesses fail exactly when the uncached access fails: iff the address is below
       the first data address.  The uncached error names the address, the cached one the
       block-aligned address when a block fetch fails (reads, write-back writes). *)
Theorem range_error_agrees_read : forall d f nbits a counted r d' p, CInv d -> Flat f d -> okw nbits ->
  in_word nbits a -> dc_read d nbits a counted = (r, d', p) ->
  (a mod 4294967296 < 16384 <->
   mem_read rv_memcfg f nbits a = Err (EAddr (a mod 4294967296) 16384 4294967295 false)) /\
  (a mod 4294967296 < 16384 <->
   r = Err (EAddr (da_balign (cdecode (dc d) a)) 16384 4294967295 false)) /\
  ((exists e, mem_read rv_memcfg f nbits a = Err e) <-> (exists e, r = Err e)).
Proof. exact range_error_read_proof. Qed.
Print Assumptions range_error_agrees_read.

Theorem range_error_agrees_write : forall d f nbits a v e d' p, CInv d -> Flat f d -> okw nbits ->
  0 <= v < 2 ^ nbits -> in_word nbits a -> dc_write d nbits a v false = (e, d', p) ->
  (a mod 4294967296 < 16384 <->
   snd (mem_write rv_memcfg f nbits a v) = Some (EAddr (a mod 4294967296) 16384 4294967295 false)) /\
  (a mod 4294967296 < 16384 <->
   e = Some (EAddr (if wthrough d then a mod 4294967296 else da_balign (cdecode (dc d) a))
               16384 4294967295 false)) /\
  (snd (mem_write rv_memcfg f nbits a v) = None <-> e = None).
Proof. exact range_error_write_proof. Qed.
Print Assumptions range_error_agrees_write.

Theorem range_error_agrees : forall d f nbits a, CInv d -> Flat f d -> okw nbits -> in_word nbits a ->
  (forall counted r d' p, dc_read d nbits a counted = (r, d', p) ->
     ((exists e, mem_read rv_memcfg f nbits a = Err e) <-> (exists e, r = Err e))) /\
  (forall v e d' p, 0 <= v < 2 ^ nbits -> dc_write d nbits a v false = (e, d', p) ->
     ((exists e0, snd (mem_write rv_memcfg f nbits a v) = Some e0) <-> (exists e0, e = Some e0))).
Proof. exact range_error_agrees_proof. Qed.
Print Assumptions range_error_agrees.

(** ** 8. Histories *)
(* one step: same observation, invariant and abstraction kept; [ref_step] is the uncached step
   plus "a word-crossing access is rejected and changes nothing" *)
Theorem step_sim : forall d f o, CInv d -> Flat f d -> op_wf o ->
  fst (cache_step d o) = fst (ref_step f o) /\
  CInv (snd (cache_step d o)) /\ Flat (snd (ref_step f o)) (snd (cache_step d o)) /\
  wthrough (snd (cache_step d o)) = wthrough d /\ cfg (dc (snd (cache_step d o))) = cfg (dc d).
Proof. exact step_sim_proof. Qed.
Print Assumptions step_sim.

Theorem ref_step_meaning : forall f o,
  (op_in_word o -> ref_step f o = flat_step f o) /\ (~ op_in_word o -> ref_step f o = (OFail, f)).
Proof. exact ref_step_meaning_proof. Qed.
Print Assumptions ref_step_meaning.

(* histories whose accesses all stay inside one word: the observations are those of the uncached
   memory *)
Theorem history_transparent : forall ops d f, CInv d -> Flat f d ->
  Forall op_wf ops -> Forall op_in_word ops ->
  fst (run cache_step d ops) = fst (run flat_step f ops) /\
  CInv (snd (run cache_step d ops)) /\
  Flat (snd (run flat_step f ops)) (snd (run cache_step d ops)).
Proof. exact history_transparent_proof. Qed.
Print Assumptions history_transparent.

(* arbitrary histories (word-crossing accesses included) against the reference *)
Theorem history_transparent_all : forall ops d f, CInv d -> Flat f d -> Forall op_wf ops ->
  fst (run cache_step d ops) = fst (run ref_step f ops) /\
  CInv (snd (run cache_step d ops)) /\
  Flat (snd (run ref_step f ops)) (snd (run cache_step d ops)) /\
  wthrough (snd (run cache_step d ops)) = wthrough d /\
  cfg (dc (snd (run cache_step d ops))) = cfg (dc d).
Proof. exact run_sim_proof. Qed.
Print Assumptions history_transparent_all.

(* from the initial cache over any preloaded byte memory *)
Theorem history_from_init : forall c wt pen m ops, cfg_ok c -> bytes_ok m ->
  Forall op_wf ops -> Forall op_in_word ops ->
  fst (run cache_step (upd_lower (dcache_init c wt pen) m) ops) = fst (run flat_step m ops).
Proof. exact history_from_init_proof. Qed.
Print Assumptions history_from_init.

Theorem history_all_from_init : forall c wt pen m ops, cfg_ok c -> bytes_ok m -> Forall op_wf ops ->
  fst (run cache_step (upd_lower (dcache_init c wt pen) m) ops) = fst (run ref_step m ops).
Proof. exact history_all_from_init_proof. Qed.
Print Assumptions history_all_from_init.

(** ** Non-vacuity: 2 sets, 2 words per block, 2 ways; six accesses with two evictions.
    Expected values taken from the Python classes (WriteBackMemorySystem / WriteThroughMemorySystem
    over Memory(BYTE, 32, True, range(2^14, 2^32)), preloaded bytes 16402 := 17, 16403 := 34). *)
Definition ex_cfg (pl : bool) : ccfg := {| ibits := 1; bbits := 1; assoc := 2; plru := pl |}.
Definition ex_pre : zmap := [(16402, 17); (16403, 34)].
(* blocks 16384.., 16400.., 16416.. all map to set 0 *)
Definition ex_ops : list op :=
  [ OWrite 32 16384 3735928559; OWrite 8 16401 127; ORead 16 16384 true;
    OWrite 16 16418 4660; ORead 32 16384 true; ORead 8 16401 false ].

Example ex_cfg_ok : cfg_ok (ex_cfg false) /\ cfg_ok (ex_cfg true).
Proof.
  split; unfold cfg_ok; cbn; (repeat split; try discriminate; try (exists 1%nat; reflexivity)).
Qed.

Example ex_pre_bytes : bytes_ok ex_pre.
Proof.
  intros k. unfold ex_pre, mget. cbn [mget_opt].
  destruct (16402 =? k); [split; [discriminate | reflexivity]|].
  destruct (16403 =? k); split; try discriminate; reflexivity.
Qed.

Example ex_ops_ok : Forall op_wf ex_ops /\ Forall op_in_word ex_ops.
Proof.
  unfold ex_ops. split; repeat (apply Forall_cons || apply Forall_nil);
    cbn [op_wf op_in_word]; unfold okw, in_word; try split; try (vm_compute; intuition discriminate).
Qed.

(* write-back, LRU: observations, final lower memory (two blocks written back on eviction, the
   dirty resident block 16384.. never written), hit and access counters *)
Example ex_wb_lru :
  let r := run cache_step (upd_lower (dcache_init (ex_cfg false) false 10) ex_pre) ex_ops in
  fst r = [ODone; ODone; OVal 48879; ODone; OVal 3735928559; OVal 127] /\
  fst r = fst (run flat_step ex_pre ex_ops) /\
  lower (snd r) =
    [(16402, 17); (16403, 34); (16400, 0); (16401, 127); (16404, 0); (16405, 0); (16406, 0);
     (16407, 0); (16416, 0); (16417, 0); (16418, 52); (16419, 18); (16420, 0); (16421, 0);
     (16422, 0); (16423, 0)] /\
  (hits (snd r), accesses (snd r)) = (2, 5) /\
  map (fun b => (valid b, dirty b, baddr b, vals b)) (blocks (get_set (dc (snd r)) 0)) =
    [(true, true, 16384, [3735928559; 0]); (true, true, 16400, [571571968; 0])].
Proof. vm_compute. repeat split. Qed.

(* write-through, PLRU: same observations, lower memory always current *)
Example ex_wt_plru :
  let r := run cache_step (upd_lower (dcache_init (ex_cfg true) true 10) ex_pre) ex_ops in
  fst r = [ODone; ODone; OVal 48879; ODone; OVal 3735928559; OVal 127] /\
  lower (snd r) =
    [(16402, 17); (16403, 34); (16384, 239); (16385, 190); (16386, 173); (16387, 222);
     (16401, 127); (16418, 52); (16419, 18)] /\
  (hits (snd r), accesses (snd r)) = (1, 5).
Proof. vm_compute. repeat split. Qed.

Example ex_wb_plru_wt_lru :
  fst (run cache_step (upd_lower (dcache_init (ex_cfg true) false 0) ex_pre) ex_ops) =
    fst (run flat_step ex_pre ex_ops) /\
  fst (run cache_step (upd_lower (dcache_init (ex_cfg false) true 0) ex_pre) ex_ops) =
    fst (run flat_step ex_pre ex_ops).
Proof. vm_compute. split; reflexivity. Qed.

(* word-crossing and out-of-range accesses: rejected by the cache (both policies), while the bare
   uncached memory would answer the word-crossing ones; the reference [ref_step] rejects them *)
Definition ex_bad : list op :=
  [ORead 16 16387 true; OWrite 32 16386 1; ORead 8 100 true; OWrite 8 100 1; ORead 16 16386 true].

Example ex_rejected :
  fst (run cache_step (upd_lower (dcache_init (ex_cfg false) false 10) ex_pre) ex_bad) =
    [OFail; OFail; OFail; OFail; OVal 0] /\
  fst (run cache_step (upd_lower (dcache_init (ex_cfg false) true 10) ex_pre) ex_bad) =
    [OFail; OFail; OFail; OFail; OVal 0] /\
  fst (run ref_step ex_pre ex_bad) = [OFail; OFail; OFail; OFail; OVal 0] /\
  fst (run flat_step ex_pre ex_bad) = [OVal 0; ODone; OFail; OFail; OVal 1].
Proof. vm_compute. repeat split. Qed.

(* the exact errors: ByteOffsetError(3, 2), ByteOffsetError(2, 0), address errors naming the
   block-aligned address 96 (block fetch) resp. the address 100 (write-through write) *)
Example ex_errors :
  let d := upd_lower (dcache_init (ex_cfg false) false 10) ex_pre in
  let dt := upd_lower (dcache_init (ex_cfg false) true 10) ex_pre in
  fst (fst (dc_read d 16 16387 true)) = Err (EOffset 3 2) /\
  fst (fst (dc_write d 32 16386 1 false)) = Some (EOffset 2 0) /\
  fst (fst (dc_write dt 32 16386 1 false)) = Some (EOffset 2 0) /\
  fst (fst (dc_read d 8 100 true)) = Err (EAddr 96 16384 4294967295 false) /\
  fst (fst (dc_write d 8 100 1 false)) = Some (EAddr 96 16384 4294967295 false) /\
  fst (fst (dc_write dt 8 100 1 false)) = Some (EAddr 100 16384 4294967295 false).
Proof. vm_compute. repeat split. Qed.
