(* C15RvWholeText.v — property C15 for RISC-V on a whole source TEXT: Model/LexText.v,
   rv_load_program_text s text = rv_load_text s (splitlines text), with str.splitlines() inside the model
   (ToyLex.splitlines: \n, \r, \r\n, \v, \f, \x1c, \x1d, \x1e, \x85, U+2028, U+2029; no empty last line).
   Vocabulary as in Props/C15RvText.v; rv_lines text = splitlines text. *)
From Coq Require Import ZArith List Bool.
From ArchSim Require Import Model.Base Model.Mem Model.Cache Model.Fmt Model.RV Model.Toy Model.Asm.
From ArchSim Require Model.ToyLex.
From ArchSim Require Import Model.Lex Model.LexText Proofs.C15Proofs Proofs.LexErr2 Proofs.LexErr3 Proofs.LexErr5
  Proofs.LexText1.
Import ListNotations.
Open Scope Z_scope.

(** the lines handed to the lexer are in its validated domain: no line contains a boundary character (for every
    list of numbers), and with code points >= 0 every line satisfies lex_domain *)
Theorem splitlines_lines_have_no_boundary : forall text,
  Forall (fun l => forallb (fun c => negb (Lex.is_linebreak c)) l = true) (rv_lines text).
Proof. exact splitlines_no_linebreak. Qed.
Theorem splitlines_in_domain : forall text, forallb (fun c => 0 <=? c) text = true ->
  Forall (fun l => lex_domain l = true) (rv_lines text).
Proof. exact splitlines_in_domain_lem. Qed.

(** (1) typed outcomes; the line number is the number of a line of splitlines text *)
Theorem rv_load_program_text_outcome_typed : forall s text,
  match snd (fst (rv_load_program_text s text)) with
  | None => True
  | Some (PUncaught _) => False
  | Some (PMemSize w) => w = data_limit / 4
  | Some (PMemAddr _) => True
  | Some (PSyntax ln) | Some (PLabel ln) | Some (POdd ln) | Some (PDupLabel ln) | Some (PDirective ln)
  | Some (PDataSyntax ln) | Some (PDataDup ln) | Some (PVariable ln) => 1 <= ln <= Z.of_nat (List.length (rv_lines text))
  end.
Proof. exact whole_typed. Qed.

(** (2) the named line *)
Theorem rv_load_program_text_line_valid : forall s text s' e img, rv_load_program_text s text = (s', Some e, img) ->
  match e with
  | PSyntax ln =>
      (exists l, nth_line (rv_lines text) ln l /\ lex_line l = LexSyntax /\
                 forall k' l', k' < ln -> nth_line (rv_lines text) k' l' -> lex_line l' <> LexSyntax) \/
      (all_lex (rv_lines text) /\ lexes_ok (rv_lines text) ln)
  | PLabel ln | POdd ln | PDupLabel ln | PVariable ln => all_lex (rv_lines text) /\ lexes_ok (rv_lines text) ln
  | PDirective ln => all_lex (rv_lines text) /\ exists l d names, nth_line (rv_lines text) ln l /\
                       lex_line l = LexOk (NDirective d) /\ lexes_to l (snd (intern_line names (NDirective d)))
  | PDataSyntax ln => all_lex (rv_lines text) /\ exists l rl, nth_line (rv_lines text) ln l /\ lexes_to l rl /\ ~ is_decl rl
  | PDataDup ln => all_lex (rv_lines text) /\ exists l rl, nth_line (rv_lines text) ln l /\ lexes_to l rl /\ is_decl rl
  | PMemSize w => all_lex (rv_lines text) /\ w = data_limit / 4
  | PMemAddr _ => all_lex (rv_lines text)
  | PUncaught _ => False
  end.
Proof. exact whole_line. Qed.
Theorem rv_load_program_text_syntax_cause : forall s text s' ln img,
  rv_load_program_text s text = (s', Some (PSyntax ln), img) ->
  (exists l, nth_line (rv_lines text) ln l /\ lex_line l = LexSyntax /\
             forall k' l', k' < ln -> nth_line (rv_lines text) k' l' -> lex_line l' <> LexSyntax) \/
  (all_lex (rv_lines text) /\ exists toks l rl, lex_text (rv_lines text) = LTOk toks /\ nth_line (rv_lines text) ln l /\
     lexes_to l rl /\ In (ln, rl) toks /\ (literal_rejected rl \/ misplaced toks ln rl)).
Proof. exact whole_syntax. Qed.

(** (3) frame *)
Theorem rv_load_program_text_failure_frame : forall s text s' o img, rv_load_program_text s text = (s', o, img) ->
  match o with
  | Some e => s' = reset_state s /\ img = None
  | None => exists toks im, lex_text (rv_lines text) = LTOk toks /\ rv_tokens_wf toks /\ img = Some im /\
                            rv_load s toks = (s', None, Some im)
  end.
Proof. exact whole_frame. Qed.

(** non-vacuity: every boundary of str.splitlines *)
Theorem splitlines_example :
  rv_lines ([110;111;112; 13;10; 110;111;112; 11; 12; 110;111;112; 133; 8232; 110;111;112; 13]) =
  [[110;111;112]; [110;111;112]; []; [110;111;112]; []; [110;111;112]].
Proof. exact ex_lines. Qed.
Theorem rv_load_program_text_example :
  snd (fst (rv_load_program_text st0 ([110;111;112;13;10] ++ [97;100;100;32;120;49;44;32;120;50] ++ [11;110;111;112]))) = Some (PSyntax 2) /\
  snd (fst (rv_load_program_text st0 ([110;111;112;11;12] ++ [97;100;100;32;120;49]))) = Some (PSyntax 3) /\
  snd (fst (rv_load_program_text st0 ([110;111;112;8233]))) = None /\
  List.length (rv_lines [110;111;112;8233]) = 1%nat.
Proof. exact ex_whole. Qed.

Print Assumptions splitlines_lines_have_no_boundary.
Print Assumptions splitlines_in_domain.
Print Assumptions rv_load_program_text_outcome_typed.
Print Assumptions rv_load_program_text_line_valid.
Print Assumptions rv_load_program_text_syntax_cause.
Print Assumptions rv_load_program_text_failure_frame.
Print Assumptions splitlines_example.
Print Assumptions rv_load_program_text_example.
