(* C15ToyText.v — property C15, TOY part, on ARBITRARY TEXT:
   "loading any text either succeeds or raises a ParserException subclass whose line_number is the
    1-based number of a line of text.splitlines(), or a MemorySizeException; nothing else escapes."
   About [toy_load_text] (Model/ToyLex.v: tokenizer, then Model/Toy.v: toy_load), for EVERY list of
   code points and every state (no domain restriction, no hypothesis on the memory size).
   Statements only; proofs in Proofs/ToyLexErr1..3.v (on top of Proofs/C19Proofs.v).
   Vocabulary (Proofs/ToyLexErr3.v, C19Proofs.v):
     perr_line e            the line number carried by e (None for PMemSize / PMemAddr)
     nth_line text ln l     1 <= ln <= length (splitlines text) and l is the ln-th line (1-based)
     all_lines_lex text     no line of the text is rejected by the grammar
     rline_literals t       the numeric literals of a token line;  long_decimal: not 0x.., > 4300 characters
     rdeclares t            t declares a name (label line, in-line label, .word declaration)
     toy_fresh s m          the state load_program starts from (size, next cycle, started flag of s) with memory m
   Constructors of [perr] and the exceptions they stand for:
     PSyntax ParserSyntaxException, PLabel ParserLabelException, PDupLabel DuplicateLabelException,
     PDirective ParserDirectiveException, PDataSyntax ParserDataSyntaxException (all carry the line),
     PMemSize MemorySizeException;  never produced by the TOY loader: POdd, PVariable, PDataDup (RISC-V only),
     PMemAddr (MemoryAddressError), PUncaught (any exception that is not a parser error). *)
From ArchSim Require Import Model.Base Model.Mem Model.Fmt Model.Toy Model.ToyLex Proofs.C19Proofs
  Proofs.ToyLexErr1 Proofs.ToyLexErr2 Proofs.ToyLexErr3.
Open Scope Z_scope.

(* (1) the outcome is success, one of the five line-carrying parser errors, or the size error with
   the configured size; PMemAddr and the catch-all PUncaught never come out *)
Theorem toy_load_text_outcome_typed : forall s text,
  match snd (toy_load_text s text) with
  | None => True
  | Some (PSyntax _) | Some (PLabel _) | Some (PDupLabel _) | Some (PDirective _) | Some (PDataSyntax _) => True
  | Some (PMemSize w) => w = t_size s
  | Some (POdd _) | Some (PVariable _) | Some (PDataDup _) | Some (PMemAddr _) | Some (PUncaught _) => False
  end.
Proof. exact load_text_typed. Qed.
Print Assumptions toy_load_text_outcome_typed.

(* (2a) every reported line number is the number of a line of text.splitlines() *)
Theorem toy_load_text_line_range : forall s text s' e ln,
  toy_load_text s text = (s', Some e) -> perr_line e = Some ln ->
  1 <= ln <= Z.of_nat (length (splitlines text)) /\ exists l, nth_line text ln l.
Proof. exact load_text_line_range. Qed.
Print Assumptions toy_load_text_line_range.

(* (2b) and it names the offending line, per constructor *)
Theorem toy_load_text_line_valid : forall s text s' e, toy_load_text s text = (s', Some e) ->
  match e with
  | PSyntax ln =>
      exists l, nth_line text ln l /\
        ((toy_lex_line l = LErr /\ forall ln' l', ln' < ln -> nth_line text ln' l' -> toy_lex_line l' <> LErr) \/
         (all_lines_lex text /\ exists t lit, toy_lex_line l = LTok t /\ In lit (rline_literals t) /\ long_decimal lit))
  | PLabel ln => all_lines_lex text /\ exists l il op n, nth_line text ln l /\
                   toy_lex_line l = LTok (RLInstr il op (RLabel n)) /\ is_address_type op = true
  | PDirective ln => all_lines_lex text /\ exists l d, nth_line text ln l /\ toy_lex_line l = LTok (RLDirective d)
  | PDupLabel ln => all_lines_lex text /\ exists l t, nth_line text ln l /\ toy_lex_line l = LTok t /\ rdeclares t
  | PDataSyntax ln => all_lines_lex text /\ exists l t, nth_line text ln l /\ toy_lex_line l = LTok t
  | PMemSize w => all_lines_lex text /\ w = t_size s
  | POdd _ | PVariable _ | PDataDup _ | PMemAddr _ | PUncaught _ => False
  end.
Proof. exact load_text_err. Qed.
Print Assumptions toy_load_text_line_valid.

(* (3) frame.  On an error the state is the fresh state of that size (memory empty for lexical,
   directive and duplicate-name errors; otherwise holding only the data words written before the
   failure, as in toy_load); on success it is toy_load of the lexed token lines, which satisfy the
   tokenizer guarantee tokens_wf, so the theorems of Props/C19.v (toy_assemble_layout, toy_data_layout,
   toy_labels_resolve, ...) and of Props/C19Lex.v apply *)
Theorem toy_load_text_total_frame : forall s text s' o, toy_load_text s text = (s', o) ->
  match o with
  | Some e =>
      s' = toy_fresh s (t_mem s') /\
      (toy_lex_text text = PErr e -> s' = toy_init (t_size s) (t_nextcycle s) (t_started s)) /\
      match e with
      | PDirective _ | PDupLabel _ => s' = toy_init (t_size s) (t_nextcycle s) (t_started s)
      | _ => True
      end
  | None => exists toks, toy_lex_text text = POk toks /\ tokens_wf toks /\ toy_load s toks = (s', None)
  end.
Proof. exact load_text_frame. Qed.
Print Assumptions toy_load_text_total_frame.
