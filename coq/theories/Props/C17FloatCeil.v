(* C17, discharge of the modelling assumption for digit counts: Python's
   math.ceil(n / g)  (binary64 division, round to nearest even, then ceiling)
   equals the exact integer ceiling (n + g - 1) / g used by the model.
   b64_round x = round radix2 (FLT_exp (-1074) 53) ZnearestE x  (Proofs/FloatDiv.v).
   Statement file: proofs in Proofs/FloatCeil.v.
   Assumptions printed below: the standard library's real-number axioms and
   Classical_Prop.classic; the latter is already an assumption of the STATEMENT
   (Flocq's `round` is defined through `mag`, built on the standard library's `ln`,
   which depends on Classical_Prop.classic). *)
From Coq Require Import ZArith Reals.
From Flocq Require Import Core.
From ArchSim Require Import Proofs.FloatDiv Proofs.FloatCeil.

Local Open Scope Z_scope.

Theorem float_ceil_div : forall n g : Z, 0 <= n < 2^53 -> 0 < g <= 2^53 ->
  Zceil (round radix2 (FLT_exp (-1074) 53) ZnearestE (IZR n / IZR g)) = (n + g - 1) / g.
Proof. exact FloatCeil.float_ceil_div. Qed.
Print Assumptions float_ceil_div.

Theorem float_ceil_div4 : forall n : Z, 0 <= n < 2^53 ->
  Zceil (round radix2 (FLT_exp (-1074) 53) ZnearestE (IZR n / 4)) = (n + 3) / 4.
Proof. exact FloatCeil.float_ceil_div4. Qed.
Print Assumptions float_ceil_div4.

(* Non-vacuity: ceil(12/4) = 3 (exact quotient), ceil(13/8) = ceil(1.625) = 2. *)
Example float_ceil_12_4 :
  Zceil (round radix2 (FLT_exp (-1074) 53) ZnearestE (IZR 12 / 4)) = 3.
Proof. exact FloatCeil.float_ceil_12_4. Qed.

Example float_ceil_13_8 :
  Zceil (round radix2 (FLT_exp (-1074) 53) ZnearestE (IZR 13 / IZR 8)) = 2.
Proof. exact FloatCeil.float_ceil_13_8. Qed.
