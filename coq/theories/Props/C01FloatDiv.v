(* C01 (arithmetic), discharge of the modelling assumption for DIV/REM:
   Python's  int(left / right)  (binary64 division, round to nearest even,
   truncation toward zero) equals Z.quot, and  left - int(left/right)*right
   equals Z.rem, for operands of magnitude <= 2^31.
   Statement file: statements restated, proofs in Proofs/FloatDiv.v.
   Assumptions printed below: the standard library's real-number axioms
   (ClassicalDedekindReals.sig_forall_dec, sig_not_dec,
   FunctionalExtensionality.functional_extensionality_dep) and
   Classical_Prop.classic.  The last one is not introduced by the proofs: it is
   already among the assumptions of the STATEMENT, because Flocq's `round` is
   defined through `cexp`/`mag`, and `mag` is built on the standard library's
   `ln` (Rpower), whose definition depends on Classical_Prop.classic
   (`Print Assumptions ln.` / `Print Assumptions round.` show it). *)
From Coq Require Import ZArith Reals.
From Flocq Require Import Core IEEE754.BinarySingleNaN IEEE754.Binary IEEE754.Bits.
From ArchSim Require Import Proofs.FloatDiv Proofs.FloatDivIEEE.

Local Open Scope Z_scope.

Theorem float_div_trunc_is_quot : forall a b : Z,
  (Z.abs a <= 2^31)%Z -> (Z.abs b <= 2^31)%Z -> b <> 0%Z ->
  Ztrunc (round radix2 (FLT_exp (-1074) 53) ZnearestE (IZR a / IZR b)) = Z.quot a b.
Proof. exact FloatDiv.float_div_trunc_is_quot. Qed.
Print Assumptions float_div_trunc_is_quot.

Theorem float_rem_is_rem : forall a b : Z,
  (Z.abs a <= 2^31)%Z -> (Z.abs b <= 2^31)%Z -> b <> 0%Z ->
  a - Ztrunc (round radix2 (FLT_exp (-1074) 53) ZnearestE (IZR a / IZR b)) * b = Z.rem a b.
Proof. exact FloatDiv.float_rem_is_rem. Qed.
Print Assumptions float_rem_is_rem.

(* Stronger form: dividend below 2^53, divisor up to 2^53 in magnitude. *)
Theorem float_div_trunc_is_quot_53 : forall a b : Z,
  Z.abs a < 2^53 -> Z.abs b <= 2^53 -> b <> 0 ->
  Ztrunc (round radix2 (FLT_exp (-1074) 53) ZnearestE (IZR a / IZR b)) = Z.quot a b.
Proof. exact FloatDiv.float_div_trunc_is_quot_53. Qed.
Print Assumptions float_div_trunc_is_quot_53.

(* Non-vacuity: -7 / 2 = -3.5 truncates to -3 (floor division would give -4), remainder -1. *)
Example float_div_m7_2 :
  Ztrunc (round radix2 (FLT_exp (-1074) 53) ZnearestE (IZR (-7) / IZR 2)) = -3
  /\ -7 - Ztrunc (round radix2 (FLT_exp (-1074) 53) ZnearestE (IZR (-7) / IZR 2)) * 2 = -1.
Proof. exact FloatDiv.float_div_m7_2. Qed.

(* IEEE-754 layer (Flocq IEEE754.Binary / Bits): with b64_of_Z = exact int -> binary64
   conversion (binary_normalize), b64_div = Flocq's binary64 division, b64_to_Z =
   computable truncation toward zero of a finite binary64 (None on inf/NaN),
   all three defined in Proofs/FloatDivIEEE.v:  int(float(a) / float(b)) = Z.quot a b. *)
Theorem b64_to_Z_correct : forall f : binary64,
  Binary.is_finite 53 1024 f = true ->
  b64_to_Z f = Some (Ztrunc (Binary.B2R 53 1024 f)).
Proof. exact FloatDivIEEE.b64_to_Z_correct. Qed.
Print Assumptions b64_to_Z_correct.

Theorem b64_div_trunc_is_quot :
  forall (Hp : Prec_gt_0 53) (Hm : Prec_lt_emax 53 1024) (a b : Z),
  Z.abs a <= 2^31 -> Z.abs b <= 2^31 -> b <> 0 ->
  let z := b64_div mode_NE (b64_of_Z Hp Hm a) (b64_of_Z Hp Hm b) in
  Binary.is_finite 53 1024 z = true /\
  Binary.B2R 53 1024 z = round radix2 (FLT_exp (-1074) 53) ZnearestE (IZR a / IZR b) /\
  Ztrunc (Binary.B2R 53 1024 z) = Z.quot a b.
Proof. exact FloatDivIEEE.b64_div_trunc_is_quot. Qed.
Print Assumptions b64_div_trunc_is_quot.

Theorem b64_div_to_Z_is_quot :
  forall (Hp : Prec_gt_0 53) (Hm : Prec_lt_emax 53 1024) (a b : Z),
  Z.abs a <= 2^31 -> Z.abs b <= 2^31 -> b <> 0 ->
  b64_to_Z (b64_div mode_NE (b64_of_Z Hp Hm a) (b64_of_Z Hp Hm b)) = Some (Z.quot a b).
Proof. exact FloatDivIEEE.b64_div_to_Z_is_quot. Qed.
Print Assumptions b64_div_to_Z_is_quot.

(* Non-vacuity by computation inside Flocq's binary64: int(-7.0 / 2.0) = -3. *)
Example b64_div_to_Z_m7_2 :
  b64_to_Z (b64_div mode_NE (b64_of_Z (eq_refl : Prec_gt_0 53) (eq_refl : Prec_lt_emax 53 1024) (-7))
                            (b64_of_Z (eq_refl : Prec_gt_0 53) (eq_refl : Prec_lt_emax 53 1024) 2))
  = Some (-3).
Proof. exact FloatDivIEEE.b64_div_to_Z_m7_2. Qed.

(* The bridge to the model: [Base.pyfdiv] — the function the model's DIV / REM (RV.v, RVSplit.v) call
   wherever the Python code writes  int(left / right)  — IS the truncated binary64 quotient, on the
   whole operand range the instructions produce (two signed 32-bit values, right <> 0; the code
   tests right == 0 before dividing). *)
From ArchSim Require Import Model.Base.

Theorem pyfdiv_is_float_division : forall a b : Z,
  (Z.abs a <= 2^31)%Z -> (Z.abs b <= 2^31)%Z -> b <> 0%Z ->
  pyfdiv a b = Ztrunc (round radix2 (FLT_exp (-1074) 53) ZnearestE (IZR a / IZR b)).
Proof. intros a b Ha Hb Hz. symmetry. exact (FloatDiv.float_div_trunc_is_quot a b Ha Hb Hz). Qed.
Print Assumptions pyfdiv_is_float_division.

Theorem pyfdiv_is_b64_division : forall (Hp : Prec_gt_0 53) (Hm : Prec_lt_emax 53 1024) (a b : Z),
  (Z.abs a <= 2^31)%Z -> (Z.abs b <= 2^31)%Z -> b <> 0%Z ->
  b64_to_Z (b64_div mode_NE (b64_of_Z Hp Hm a) (b64_of_Z Hp Hm b)) = Some (pyfdiv a b).
Proof. exact FloatDivIEEE.b64_div_to_Z_is_quot. Qed.
Print Assumptions pyfdiv_is_b64_division.
