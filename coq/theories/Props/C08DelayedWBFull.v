(* Props/C08DelayedWBFull.v — property C08, phase B, closing PART 2 of Props/C08DelayedWB.v:
   the five-stage pipeline with hazard detection DISABLED is characterised by the
   delayed-write-back reference machine [dwb_run] (Proofs/FlagOffDwb.v, the Python interpreter
   [delayed_wb] of harness/sched.py with the cycle numbers eliminated) for EVERY program of
   supported instructions — ecall included — and every [wf] initial state, with no hypothesis on
   register dependencies.  Only statements; every proof is [exact <lemma>] into
   Proofs/FlagOffEcall*.v.

   [flagoff_is_dwb] is the FULL STATEMENT announced in the header of Props/C08DelayedWB.v:
   whenever the reference machine ends (Done / Faulted f) within n instructions, the pipeline run
   from the empty pipeline ends in the same way (PDone / PFaulted f, the same fault record) within
   8 * n + 8 cycles; in the Done case all of registers, memory system, output, exit code, branch /
   call / instruction counters agree ([arch_agree]) and the list of retired addresses equals the
   list of pcs the reference machine executed; in the Faulted case registers, memory and output
   agree.

   How the ecall is handled (new relative to Proofs/FlagOffControl.v).  An ecall fires in EX only
   when the MEM and WB inputs are empty, so it sees every older register write; in [dwb_step] this
   is the pair of bubbles in front of an ecall that finds an instruction one or two slots ahead —
   and if both slots ahead are bubbles the lag state is settled anyway.  Hence an ecall step is
   always "settle, then execute" ([estep], [normE]); the invariant [EInvAt]
   (Proofs/FlagOffEcallInv.v) is the one of Proofs/FlagOffInv.v over the chain [advE] in which an
   ecall slot executes from the settled state, so that the drain bubbles, which the pipeline
   materialises only in latch 3, never have to be guessed ([advE_absorbs_bubble]).  The
   decode-view identity [decode_view_e] fails exactly behind an ecall that has an instruction in
   front of it: that ecall drains and the slot behind it is decoded again, so latch 1 is described
   only while the pipeline is not stalled.  One-step theorems: [einv_step] (not stalled; stalled
   at EX with countdown 2 and 1), [exiting_ecall_retires_off] (the last cycle of an exiting
   ecall). *)
From ArchSim Require Import Model.Base Model.Mem Model.Cache Model.Fmt Model.RV Model.Single
  Model.RVSplit Model.Pipe Proofs.C01Step Proofs.SplitExec Proofs.PipeLaws Proofs.PipeShape
  Proofs.PipeInv Proofs.PipeInvEcall Proofs.FlagOffSim Proofs.FlagOffDep Proofs.FlagOffDwb Proofs.FlagOffInv
  Proofs.FlagOffControl Proofs.FlagOffCyc Proofs.FlagOffEcallInv Proofs.FlagOffEcallNormal
  Proofs.FlagOffEcallStall Proofs.FlagOffEcallSim.
Open Scope Z_scope.

(** ** The theorem *)
Theorem flagoff_is_dwb : forall P s n,
  Forall (fun i => supported i = true) P -> wf s -> prog (im s) = P ->
  match dwb_run n s with
  | (s', Done) => exists c p, (c <= 8 * n + 8)%nat /\
      pipe_run c (pipe_init s false) = (p, PDone) /\ arch_agree p s' /\
      pipe_trace c (pipe_init s false) = dwb_trace n s
  | (s', Faulted f) => exists c p, (c <= 8 * n + 8)%nat /\
      pipe_run c (pipe_init s false) = (p, PFaulted f) /\
      regs (pst p) = regs s' /\ ms (pst p) = ms s' /\ out (pst p) = out s'
  | (_, OutOfFuel) => True
  end.
Proof. exact flagoff_is_dwb_all. Qed.
Print Assumptions flagoff_is_dwb.

(** ** The reference run with the drain absorbed *)
(* [dwb_run] (with its occupancy flags and explicit drain bubbles) is the run on lag states in
   which an ecall settles first *)
Theorem dwb_run_is_lage_run : forall n s,
  dwb_run n s = lage_run n (lag_init s) /\ dwb_trace n s = lage_trace n (lag_init s).
Proof. exact (fun n s => dwb_run_all n (dwb_init s) (Dset_init s)). Qed.
Print Assumptions dwb_run_is_lage_run.

Theorem advE_absorbs_bubble : forall l L, is_ec l = true -> advE l (bub L) = advE l L.
Proof. exact advE_bub. Qed.
Print Assumptions advE_absorbs_bubble.

Theorem decode_view_e : forall a b M, is_ec a = false \/ b = None ->
  lr2 (advE a (advE b M)) = regs (lt M).
Proof. exact lr2_advE2. Qed.
Print Assumptions decode_view_e.

(** ** The invariant holds initially *)
Theorem einv_holds_initially : forall P s,
  wf s -> prog (im s) = P -> exitc s = None -> EInv P (pipe_init s false) (lag_init s).
Proof. exact einv_init. Qed.
Print Assumptions einv_holds_initially.

(** ** One pipeline cycle, any supported program, every mode that occurs with the flag off
    (not stalled; stalled at EX with countdown 2 / 1; [nost1]: never stalled at ID) *)
Theorem einv_step : forall P, Forall (fun i => supported i = true) P ->
  forall p L l0 l1 l2 l3 l4 dead, EInvAt P p L l0 l1 l2 l3 l4 dead -> nost1 p -> pipe_done p = false ->
  match pipe_step p with
  | (p', None) => (EInv P p' (advE l3 L) \/ EExiting P p' (advE l3 L)) /\
                  lat_at (lat p') 4 = option_map wb_slot l3 /\ (l3 = None -> mu4 p' < mu4 p) /\
                  nost1 p' /\ emove p p' l0 l1 l2 l3
  | (p', Some f) => exists Lm, estep (advE l3 L) = (Lm, Some f) /\
                  single_done (lt (advE l3 L)) = false /\
                  (nonempty l2 = true \/ (l2 = None /\ l3 = None /\ is_ec l1 = true)) /\
                  regs (pst p') = regs (lt Lm) /\ ms (pst p') = ms (lt Lm) /\ out (pst p') = out (lt Lm)
  end.
Proof. exact estep_any. Qed.
Print Assumptions einv_step.

(* the last cycle of an exiting ecall: it retires, the exit code is set, both machines are done *)
Theorem exiting_ecall_retires_off : forall P, Forall (fun i => supported i = true) P ->
  forall p L, EExiting P p L ->
  pipe_done p = false /\ single_done (lt L) = false /\
  exists L1, estep L = (L1, None) /\ single_done (lt L1) = true /\
  exists p', pipe_step p = (p', None) /\ pipe_done p' = true /\ arch_agree p' (lt L1) /\
             some_addr (lat_at (lat p') 4) = [pc (lt L)].
Proof. exact eexiting_step. Qed.
Print Assumptions exiting_ecall_retires_off.

(** ** Non-vacuity (closed computations) *)
(* stale reads in a loop (it runs four times instead of three), an ecall that drains and prints
   the stale-computed sum, a jal whose target reads the link register at once, a consumer one slot
   behind its producer (x3 = 0), two ecalls back to back, an exiting ecall *)
Definition c08_full : list instr :=
  [II ADDI 5 0 3; II ADDI 6 0 0; IR ADD 6 6 5; II ADDI 5 5 (-1); IBranch BNE 5 0 (-8);
   II ADDI 10 6 0; II ADDI 17 0 1; IEcall; IJal 1 8 0; II ADDI 7 0 99; II ADDI 2 1 0; IR ADD 3 2 2;
   II ADDI 17 0 1; II ADDI 10 3 0; IEcall; IEcall; II ADDI 17 0 10; IEcall; II ADDI 9 0 9].
Definition c08_full_st : st := init_st c08_full (MFlat []) None.

(* the hypotheses of [flagoff_is_dwb] hold *)
Example c08_full_hypotheses :
  Forall (fun i => supported i = true) c08_full /\ wf c08_full_st /\ prog (im c08_full_st) = c08_full /\
  dep_free_weak c08_full = false.
Proof.
  split; [repeat constructor|]. split; [|split; reflexivity].
  apply wf_init_flat; [repeat constructor; unfold reg_ok; Lia.lia|vm_compute; discriminate].
Qed.

(* ... and its conclusion, computed: both machines end normally with the same registers, output,
   exit code, counters and retire list; the single-cycle machine computes something else; the
   pipeline drained four times; and the Python reference with its cycle numbers
   ([delayed_wb], Proofs/FlagOffCyc.v) gives the retire schedule of the modelled pipeline *)
Example c08_full_runs :
  let p := fst (pipe_run 400 (pipe_init c08_full_st false)) in
  let r := fst (dwb_run 200 c08_full_st) in
  snd (dwb_run 200 c08_full_st) = Done /\ snd (pipe_run 400 (pipe_init c08_full_st false)) = PDone /\
  regs (pst p) = regs r /\ ms (pst p) = ms r /\ out (pst p) = out r /\ exitc (pst p) = exitc r /\
  bcount (pst p) = bcount r /\ pcount (pst p) = pcount r /\ icount (pst p) = icount r /\
  pipe_trace 400 (pipe_init c08_full_st false) = dwb_trace 200 c08_full_st /\
  out r = [51; 48; 48] /\ exitc r = Some 0 /\ rget r 5 = 4294967295 /\ rget r 3 = 0 /\ icount r = 26 /\
  stalls (pst p) = 4 /\
  out (fst (single_run 200 c08_full_st)) = [54; 55; 50; 55; 50] /\ rget (fst (single_run 200 c08_full_st)) 5 = 0 /\
  match delayed_wb 200 c08_full_st with
  | Some (ret, rg, o, ex, m, cy) =>
      ret = pipe_retire 400 (pipe_init c08_full_st false) /\ cy = cycles (pst p) /\ o = out (pst p)
  | None => False
  end.
Proof. vm_compute. repeat split; reflexivity. Qed.

(* an ecall with an unknown service number faults in EX when it fires: same fault record, same
   registers / memory / output at the fault; the write in front of it is stale for the add
   (x2 = 0) but visible to the ecall *)
Definition c08_fault : list instr := [II ADDI 17 0 5; IR ADD 2 17 17; IEcall; II ADDI 3 0 1].
Example c08_fault_runs :
  let s := init_st c08_fault (MFlat []) None in
  match dwb_run 50 s, pipe_run 100 (pipe_init s false) with
  | (r, Faulted f), (p, PFaulted g) =>
      f = g /\ f_addr f = 8 /\ f_instr f = IEcall /\ regs (pst p) = regs r /\ out (pst p) = out r /\
      rget r 2 = 0 /\ rget r 17 = 5
  | _, _ => False
  end.
Proof. vm_compute. repeat split; reflexivity. Qed.
