(* Props/C17Tables.v — property C17, the part Props/C17.v left open: the displayed TABLES denote
   the current state.  Only statements; every proof is [exact <lemma>] into Proofs/IndepTables.v.
   The strings are read with the model-independent readers of Spec/Numerals.v.

   [row_denotes n r v]   the four strings r (binary, unsigned decimal, hexadecimal, signed decimal)
                         all denote v in two's complement at width n: binary and hex read (after
                         removing the group separators) as v mod 2^n with exactly n resp.
                         ceil(n/4) digits, the unsigned decimal as v mod 2^n, the signed decimal as
                         the two's-complement value, grouping 8 / 2 as documented.
   RISC-V ([rv_tables], Model/Main.v):
     [rv_tables_shape]   what is serialised: 32 register rows and the memory rows
     [rv_register_rows]  row r is the four strings of [rget s r] and denotes it, for r = 0..31;
                         for a [wf] state [rget s r mod 2^32 = rget s r] ([rv_register_value])
     [rv_memory_rows]    the rows are exactly the words of the backing store
                         [ms_lower (ms s)] that contain a written byte, at their aligned addresses,
                         strictly ascending; the value v of row a is the little-endian word at a
                         ([le_word]: the word the ISA reference [spec_load] reads there), the
                         address string "0x%08X" denotes a, and the value strings denote v
     [rv_memory_rows_exist]  the table is produced when the written keys lie in the data window
   TOY ([toy_register_reprs], [toy_memory_table], Model/Toy.v):
     [toy_register_rows] accu row denotes [t_accu], pc row denotes the FIELD [t_pc], ir row the
                         encoding of the loaded instruction
     [toy_pc_row_is_next_fetch] / [toy_pc_row_after_execute]  which pc that is: the address the
                         next fetch (second half of a cycle) reads — the fetch loads the word at
                         that address into IR and advances the pc by one (mod 4096), so after a
                         full cycle the pc row shows (address of the instruction in IR) + 1, not
                         the address of the instruction in IR; the execute half changes it only
                         by a taken BRZ (then it shows the branch target)
     [toy_memory_rows]   one row per written cell, ascending; the value strings denote the cell
                         (16 bits), the address string "0x%03X" denotes the address *)
From Coq Require Import String Sorted.
From ArchSim Require Import Model.Base Model.Mem Model.Cache Model.Fmt Model.RV Model.Single
  Model.Toy Model.Sx Model.Main Spec.Numerals Spec.RV32IM Proofs.C01Step Proofs.C17Proofs
  Proofs.IndepTables.
Open Scope Z_scope.

(** ** A row of four strings denotes its value *)
Theorem repr_row_denotes : forall n v, 1 <= n -> row_denotes n (n_bit_repr n v) v.
Proof. exact n_bit_repr_denotes. Qed.
Print Assumptions repr_row_denotes.

(** ** RISC-V *)
Theorem rv_tables_shape : forall s,
  rv_tables s = Lx [Lx (map sx_repr4 (rv_reg_rows s));
                    sx_res (fun rows => Lx (map mem_row_sx rows)) (rv_mem_rows s)].
Proof. exact rv_tables_eq. Qed.
Print Assumptions rv_tables_shape.

Theorem rv_register_rows : forall s,
  length (rv_reg_rows s) = 32%nat /\
  forall r, 0 <= r < 32 ->
    nth_error (rv_reg_rows s) (Z.to_nat r) = Some (n_bit_repr 32 (rget s r)) /\
    row_denotes 32 (n_bit_repr 32 (rget s r)) (rget s r).
Proof. exact rv_reg_rows_lem. Qed.
Print Assumptions rv_register_rows.

Theorem rv_register_value : forall s r, wf s -> rget s r mod 2 ^ 32 = rget s r.
Proof. exact rv_reg_value. Qed.
Print Assumptions rv_register_value.

Theorem rv_memory_rows : forall s rows, wf s -> keys_in_range rv_memcfg (ms_lower (ms s)) ->
  rv_mem_rows s = Ok rows ->
  let m := ms_lower (ms s) in
  (forall a, In a (map fst rows) <-> exists k, In k (mkeys m) /\ a = k - k mod 4) /\
  StronglySorted Z.lt (map fst rows) /\
  (forall a v, In (a, v) rows ->
     a mod 4 = 0 /\ 16384 <= a /\ a + 3 < 4294967296 /\
     spec_load m a 4 = inl v /\ v = le_word m a /\ 0 <= v < 2 ^ 32 /\
     of_digits 16 (fmt_pad 16 8 a) = Some a /\ Z.of_nat (length (fmt_pad 16 8 a)) = 8 /\
     row_denotes 32 (n_bit_repr 32 v) v).
Proof. exact rv_mem_rows_st. Qed.
Print Assumptions rv_memory_rows.

Theorem rv_memory_rows_exist : forall s,
  keys_in_range rv_memcfg (ms_lower (ms s)) -> exists rows, rv_mem_rows s = Ok rows.
Proof. exact rv_mem_rows_total. Qed.
Print Assumptions rv_memory_rows_exist.

(** ** TOY *)
Theorem toy_register_rows : forall s, toy_has_instructions s = true ->
  exists ir, toy_register_reprs s = [n_bit_repr 16 (t_accu s); n_bit_repr 12 (t_pc s); ir] /\
    row_denotes 16 (n_bit_repr 16 (t_accu s)) (t_accu s) /\
    row_denotes 12 (n_bit_repr 12 (t_pc s)) (t_pc s) /\
    match t_loaded s with
    | Some i => ir = n_bit_repr 16 (toy_encode i) /\ row_denotes 16 ir (toy_encode i)
    | None => ir = empty4
    end.
Proof. exact toy_reg_rows_lem. Qed.
Print Assumptions toy_register_rows.

Theorem toy_pc_row_is_next_fetch : forall s s', toy_done s = false -> second_half s = (s', TNone) ->
  exists w, t_read s (t_pc s) = Ok w /\ t_pc s' = U12 (t_pc s + 1) /\
    t_loaded s' = (if t_pc s <=? maxpc_z s then Some (toy_decode w) else None) /\
    t_accu s' = t_accu s /\ t_mem s' = t_mem s.
Proof. exact toy_fetch_pc. Qed.
Print Assumptions toy_pc_row_is_next_fetch.

Theorem toy_pc_row_after_execute : forall s s' i, t_loaded s = Some i -> first_half s = (s', TNone) ->
  t_pc s' = if (top i =? 2) && (t_accu s =? 0) then U12 (taddr i) else t_pc s.
Proof. exact toy_exec_pc. Qed.
Print Assumptions toy_pc_row_after_execute.

Theorem toy_memory_rows : forall s trows, t_size s <= 4096 -> toy_memory_table s = Ok trows ->
  (forall a, In a (map r_addr trows) <-> In a (mkeys (t_mem s))) /\
  StronglySorted Z.lt (map r_addr trows) /\
  (forall r, In r trows ->
     0 <= r_addr r < t_size s /\
     r_vals r = n_bit_repr 16 (mget (t_mem s) (r_addr r)) /\
     row_denotes 16 (r_vals r) (mget (t_mem s) (r_addr r)) /\
     r_hexaddr r = [48; 120] ++ fmt_pad 16 3 (r_addr r) /\
     of_digits 16 (fmt_pad 16 3 (r_addr r)) = Some (r_addr r)).
Proof. exact toy_memory_table_lem. Qed.
Print Assumptions toy_memory_rows.

(** ** Non-vacuity *)
Open Scope string_scope.
(* a RISC-V state after  addi x5,x0,-2 ; lui x6,16 ; sw x5,4(x6) ; sb x5,9(x6) : register row 5
   and the two memory rows, as strings *)
Definition tables_prog : list instr :=
  [II ADDI 5 0 (-2); ILui 6 16; IStore SW 6 5 4; IStore SB 6 5 9].
Definition tables_st : st := fst (single_run 10 (init_st tables_prog (MFlat []) None)).
Example rv_tables_example :
  nth_error (rv_reg_rows tables_st) 5 =
    Some (codes "11111111 11111111 11111111 11111110", codes "4294967294", codes "FF FF FF FE", codes "-2") /\
  rv_mem_rows tables_st = Ok [(65540, 4294967294); (65544, 65024)] /\
  fmt_pad 16 8 65544 = codes "00010008" /\
  n_bit_repr 32 65024 = (codes "00000000 00000000 11111110 00000000", codes "65024", codes "00 00 FE 00", codes "65024") /\
  le_word (ms_lower (ms tables_st)) 65544 = 65024.
Proof. vm_compute. repeat split; reflexivity. Qed.

(* TOY: after loading a two-instruction program and running one full cycle the pc row shows 2 =
   (address 1 of the instruction now in IR) + 1 *)
Definition toy_ex : tstate :=
  {| t_pc := 1; t_accu := 7; t_mem := [(0, 12288 + 10); (1, 36864); (10, 5)]; t_size := 4096;
     t_loaded := Some (toy_decode (12288 + 10)); t_maxpc := Some 1; t_cur := None; t_next := 0;
     t_vis := vis0; t_icount := 0; t_cycles := 0; t_bcount := 0; t_nextcycle := 1; t_started := false |}.
Example toy_tables_example :
  let s' := fst (toy_step toy_ex) in
  snd (toy_step toy_ex) = TNone /\ t_pc s' = 2 /\ t_loaded s' = Some (toy_decode 36864) /\ t_accu s' = 12 /\
  nth_error (toy_register_reprs s') 1 = Some (codes "0000 00000010", codes "2", codes "0 02", codes "2") /\
  match toy_memory_table s' with
  | Ok rows => map r_addr rows = [0; 1; 10] /\ map r_hexaddr rows = [codes "0x000"; codes "0x001"; codes "0x00A"]
  | Err _ => False
  end.
Proof. vm_compute. repeat split; reflexivity. Qed.
