(* Props/C09.v — property C09: data-cache accounting (hit counter, access counter, last-access
   hit flag, miss penalty) against the reference set-associative cache of Spec/RefCache.v.
   Only statements; every proof is [exact <lemma>] into Proofs/C09Proofs.v.

   Vocabulary (all in Spec/RefCache.v): [ref_idx]/[ref_tag] (set index and tag of an address),
   [ref_lookup]/[ref_touch] (reference directory), [count]/[miss_penalty] (counters),
   [ref_step]/[ref_run] (reference semantics of the operations), [tags_of]/[counters_of]/[ref_of]
   (the model's directory and counters read as a reference state), [DInv] (invariant),
   [dop]/[dc_step]/[dc_run]/[dc_after]/[all_accepted] (histories of model operations).
   The model: [dc_read d nbits a counted] and [dc_write d nbits a v direct] of Model/Cache.v.
   An operation is ACCEPTED when [dc_read] returns [Ok _] / [dc_write] returns no error; the
   accounting claim is about accepted operations, the rejected ones are characterised in part 4.
   All statements hold for every geometry satisfying [geom_ok] (0 <= ibits, 0 <= bbits,
   ibits+bbits+2 <= 32, assoc >= 1, PLRU: assoc a power of two), both write policies, both
   replacement policies, every penalty, every lower-memory content. *)
From ArchSim Require Import Model.Base Model.Mem Model.Cache Spec.RefCache Proofs.C09Proofs.
Open Scope Z_scope.

(** * 0. The invariant: what it says, that it holds initially and is preserved by EVERY operation *)

(* [DInv d]: as many sets as index values, [assoc] ways per set, each policy state well formed
   (LRU: duplicate-free enumeration of the ways; PLRU: built for the configured power-of-two
   associativity).  Nothing about tags, data, dirty bits, counters or the lower memory. *)
Theorem DInv_meaning : forall d,
  DInv d <->
  let g := cfg (dc d) in
  0 <= ibits g /\ 0 <= bbits g /\ 1 <= assoc g /\
  length (sets (dc d)) = Z.to_nat (2 ^ ibits g) /\
  Forall (fun s => length (blocks s) = Z.to_nat (assoc g) /\
                   match policy s with
                   | LRU o => NoDup o /\ forall x, In x o <-> 0 <= x < assoc g
                   | PLRU n _ => n = assoc g /\ exists k : nat, assoc g = 2 ^ Z.of_nat k
                   end) (sets (dc d)).
Proof. exact DInv_meaning_proof. Qed.
Print Assumptions DInv_meaning.

(* initial state: fresh cache over ANY preloaded lower memory m *)
Theorem dinv_init : forall g wt pen m, geom_ok g -> DInv (dc_start g wt pen m).
Proof. exact dinv_init_proof. Qed.
Print Assumptions dinv_init.

(* every operation — accepted or rejected, counted or not, direct or not — keeps the invariant,
   the geometry, the write policy and the penalty *)
Theorem dinv_step : forall d o, DInv d ->
  let d' := snd (fst (dc_step d o)) in
  DInv d' /\ cfg (dc d') = cfg (dc d) /\ wthrough d' = wthrough d /\ penalty d' = penalty d.
Proof. exact config_constant_proof. Qed.
Print Assumptions dinv_step.

Theorem dinv_reachable : forall g wt pen m os, geom_ok g ->
  let d := dc_after (dc_start g wt pen m) os in
  DInv d /\ cfg (dc d) = g /\ wthrough d = wt /\ penalty d = pen.
Proof. exact dinv_reachable_proof. Qed.
Print Assumptions dinv_reachable.

(* the reference's index/tag arithmetic is the model's address decoding *)
Theorem decode_agrees : forall d a, DInv d ->
  da_idx (cdecode (dc d) a) = ref_idx (cfg (dc d)) a /\
  da_tag (cdecode (dc d) a) = ref_tag (cfg (dc d)) a /\
  da_byoff (cdecode (dc d) a) = (a mod 2 ^ 32) mod 4 /\
  0 <= ref_idx (cfg (dc d)) a < 2 ^ ibits (cfg (dc d)).
Proof. exact decode_agrees_proof. Qed.
Print Assumptions decode_agrees.

(** * 1. The directory refines the reference directory *)

(* accepted read (counted or not): allocating touch *)
Theorem dir_refines_read : forall d nbits a counted x d' p, DInv d ->
  dc_read d nbits a counted = (Ok x, d', p) ->
  let g := cfg (dc d) in
  tags_of d' = ref_touch true (tags_of d) (ref_idx g a) (ref_tag g a).
Proof. exact dir_refines_read_proof. Qed.
Print Assumptions dir_refines_read.

(* accepted non-direct write: write-back allocates, write-through does not *)
Theorem dir_refines_write : forall d nbits a v d' p, DInv d ->
  dc_write d nbits a v false = (None, d', p) ->
  let g := cfg (dc d) in
  tags_of d' = ref_touch (negb (wthrough d)) (tags_of d) (ref_idx g a) (ref_tag g a).
Proof. exact dir_refines_write_proof. Qed.
Print Assumptions dir_refines_write.

(* the model's hit decision (second component of the block read) is the reference lookup *)
Theorem hit_decision : forall d a blk h d1, DInv d ->
  dc_read_block d (cdecode (dc d) a) = (Ok (blk, h), d1) ->
  let g := cfg (dc d) in
  h = ref_lookup (tags_of d) (ref_idx g a) (ref_tag g a).
Proof. exact hit_decision_proof. Qed.
Print Assumptions hit_decision.

(** * 2. The counters *)

Theorem counters_read_counted : forall d nbits a x d' p, DInv d ->
  dc_read d nbits a true = (Ok x, d', p) ->
  let g := cfg (dc d) in
  let hit := ref_lookup (tags_of d) (ref_idx g a) (ref_tag g a) in
  hits d' = hits d + (if hit then 1 else 0) /\ accesses d' = accesses d + 1 /\
  lasthit d' = hit /\ p = (if hit then 0 else penalty d).
Proof. exact counters_read_counted_proof. Qed.
Print Assumptions counters_read_counted.

(* inspection reads: counters and cycle count untouched *)
Theorem counters_read_uncounted : forall d nbits a x d' p, DInv d ->
  dc_read d nbits a false = (Ok x, d', p) ->
  hits d' = hits d /\ accesses d' = accesses d /\ lasthit d' = lasthit d /\ p = 0.
Proof. exact counters_read_uncounted_proof. Qed.
Print Assumptions counters_read_uncounted.

Theorem counters_write : forall d nbits a v d' p, DInv d ->
  dc_write d nbits a v false = (None, d', p) ->
  let g := cfg (dc d) in
  let hit := ref_lookup (tags_of d) (ref_idx g a) (ref_tag g a) in
  hits d' = hits d + (if hit then 1 else 0) /\ accesses d' = accesses d + 1 /\
  lasthit d' = hit /\ p = (if hit then 0 else penalty d).
Proof. exact counters_write_proof. Qed.
Print Assumptions counters_write.

(* parser preloads (direct writes), successful or not: the whole cache and the counters are
   untouched, no penalty; only the flat lower memory is written (no invariant needed) *)
Theorem counters_direct_write : forall d nbits a v e d' p,
  dc_write d nbits a v true = (e, d', p) ->
  dc d' = dc d /\ hits d' = hits d /\ accesses d' = accesses d /\ lasthit d' = lasthit d /\
  p = 0 /\ mem_write rv_memcfg (lower d) nbits a v = (lower d', e).
Proof. exact direct_write_proof. Qed.
Print Assumptions counters_direct_write.

(* 1 + 2 in one line: an accepted operation is exactly one step of the reference *)
Theorem step_refines : forall d o d' p, DInv d -> dc_step d o = (true, d', p) ->
  ref_step (cfg (dc d)) (wthrough d) (penalty d) (ref_of d) (acc_of o) = (ref_of d', p).
Proof. exact dc_step_sim. Qed.
Print Assumptions step_refines.

(** * 3. Histories: counters after every operation and every per-operation penalty agree *)

Theorem counters_match_reference : forall g wt pen m os, geom_ok g ->
  all_accepted (dc_start g wt pen m) os ->
  dc_run (dc_start g wt pen m) os = ref_run g wt pen (rcache_init g) (map acc_of os).
Proof. exact counters_match_reference_proof. Qed.
Print Assumptions counters_match_reference.

(* the same from any state satisfying the invariant (e.g. after rejected operations) *)
Theorem counters_match_reference_from : forall d os, DInv d -> all_accepted d os ->
  dc_run d os = ref_run (cfg (dc d)) (wthrough d) (penalty d) (ref_of d) (map acc_of os).
Proof. exact dc_run_ref. Qed.
Print Assumptions counters_match_reference_from.

(** * 4. Rejected operations, exactly *)

(* write-through store crossing a word boundary: rejected before anything happens *)
Theorem rejected_wt_crossing : forall d nbits a v, wthrough d = true ->
  crosses nbits (cdecode (dc d) a) = true ->
  dc_write d nbits a v false =
    (Some (EOffset (da_byoff (cdecode (dc d) a)) (if nbits =? 16 then 2 else 0)), d, 0).
Proof. exact rejected_wt_crossing_proof. Qed.
Print Assumptions rejected_wt_crossing.

Theorem crosses_meaning : forall nbits da,
  crosses nbits da = true <-> (nbits = 16 /\ da_byoff da > 2) \/ (nbits = 32 /\ da_byoff da <> 0).
Proof. exact crosses_meaning_proof. Qed.
Print Assumptions crosses_meaning.

(* any other write-through store — even one whose lower-memory write then fails with an
   address error [e] — has done the lookup and the statistics update *)
Theorem wt_write_effects : forall d nbits a v e d' p, DInv d -> wthrough d = true ->
  crosses nbits (cdecode (dc d) a) = false ->
  dc_write d nbits a v false = (e, d', p) ->
  let g := cfg (dc d) in
  let hit := ref_lookup (tags_of d) (ref_idx g a) (ref_tag g a) in
  tags_of d' = ref_touch false (tags_of d) (ref_idx g a) (ref_tag g a) /\
  counters_of d' = count (counters_of d) hit /\ p = miss_penalty (penalty d) hit.
Proof. exact wt_write_effects_proof. Qed.
Print Assumptions wt_write_effects.

(* reads, accepted or not.  Either the block fill failed with an address error (a miss; the
   whole state is unchanged, nothing counted), or lookup/fill/statistics were performed and the
   result is the lane extraction [from_block], which may still be a byte-offset error *)
Theorem read_effects : forall d nbits a counted r d' p, DInv d ->
  dc_read d nbits a counted = (r, d', p) ->
  let g := cfg (dc d) in
  let hit := ref_lookup (tags_of d) (ref_idx g a) (ref_tag g a) in
  (exists e, r = Err e /\ d' = d /\ p = 0 /\ hit = false) \/
  (exists blk, r = from_block nbits (cdecode (dc d) a) blk /\
     tags_of d' = ref_touch true (tags_of d) (ref_idx g a) (ref_tag g a) /\
     (hit = true -> lower d' = lower d) /\
     if counted
     then counters_of d' = count (counters_of d) hit /\ p = miss_penalty (penalty d) hit
     else counters_of d' = counters_of d /\ p = 0).
Proof. exact read_effects_proof. Qed.
Print Assumptions read_effects.

(* rejected write-back store: the policy records the access on a hit, nothing else changes
   (no counters, no penalty, no data, no lower memory); on a miss the state is unchanged.
   The error is the block-fill address error (miss only) or the lane-merge offset error. *)
Theorem rejected_wb : forall d nbits a v e d' p, DInv d -> wthrough d = false ->
  dc_write d nbits a v false = (Some e, d', p) ->
  let g := cfg (dc d) in
  let hit := ref_lookup (tags_of d) (ref_idx g a) (ref_tag g a) in
  tags_of d' = ref_touch false (tags_of d) (ref_idx g a) (ref_tag g a) /\
  counters_of d' = counters_of d /\ p = 0 /\ lower d' = lower d /\
  map blocks (sets (dc d')) = map blocks (sets (dc d)) /\
  (hit = false -> d' = d) /\
  ((hit = false /\
    read_words (lower d) (da_balign (cdecode (dc d) a)) (block_words d) = Err e) \/
   (exists blk, into_block nbits (cdecode (dc d) a) blk v = Err e)).
Proof. exact rejected_wb_proof. Qed.
Print Assumptions rejected_wb.

(** * 5. The display re-read *)
(* an uncounted re-read of the address just read returns the same result (value or error) and
   leaves the WHOLE state — directory, policy, data, lower memory, counters — unchanged *)
Theorem reread_neutral : forall d nbits a counted r d1 p, DInv d ->
  dc_read d nbits a counted = (r, d1, p) -> dc_read d1 nbits a false = (r, d1, 0).
Proof. exact reread_neutral_proof. Qed.
Print Assumptions reread_neutral.

(* reset (program reload): fresh directory, cleared lower memory, configuration kept — and the
   counters are KEPT, as in the implementation (BaseCacheMemorySystem.reset does not clear them) *)
Theorem dc_reset_effects : forall d, geom_ok (cfg (dc d)) ->
  DInv (dc_reset d) /\ tags_of (dc_reset d) = ref_init (cfg (dc d)) /\
  counters_of (dc_reset d) = counters_of d /\ lower (dc_reset d) = [] /\
  cfg (dc (dc_reset d)) = cfg (dc d) /\ wthrough (dc_reset d) = wthrough d /\
  penalty (dc_reset d) = penalty d.
Proof. exact dc_reset_proof. Qed.
Print Assumptions dc_reset_effects.

(** * 6. Non-vacuity: 2 sets x 2 ways, one word per block, penalty 7; the history below has a
      write miss, read hits and misses, an LRU eviction, the write-back of a dirty block, an
      inspection read that misses, a parser preload and a halfword read.  The expected counter
      lists were also obtained from the Python classes WriteBackMemorySystem /
      WriteThroughMemorySystem with the same calls. *)
Definition g22 : ccfg := {| ibits := 1; bbits := 0; assoc := 2; plru := false |}.
Definition hist : list dop :=
  [DWrite 32 16384 99 false; DRead 32 16392 true; DRead 32 16384 true; DRead 32 16400 true;
   DRead 32 16392 true; DRead 32 16384 false; DWrite 8 16385 5 true; DRead 16 16386 true].
Definition cnt h a l : counters := {| c_hits := h; c_accesses := a; c_lasthit := l |}.

Example g22_ok : geom_ok g22.
Proof. unfold geom_ok, g22; cbn. repeat split; try discriminate. Qed.

Example hist_accepted_wb : all_accepted (dc_start g22 false 7 []) hist.
Proof. vm_compute. repeat split. Qed.
Example hist_accepted_wt : all_accepted (dc_start g22 true 7 []) hist.
Proof. vm_compute. repeat split. Qed.

Example hist_write_back :
  dc_run (dc_start g22 false 7 []) hist =
    [(cnt 0 1 false, 7); (cnt 0 2 false, 7); (cnt 1 3 true, 0); (cnt 1 4 false, 7);
     (cnt 1 5 false, 7); (cnt 1 5 false, 0); (cnt 1 5 false, 0); (cnt 2 6 true, 0)] /\
  ref_run g22 false 7 (rcache_init g22) (map acc_of hist) = dc_run (dc_start g22 false 7 []) hist /\
  (* the dirty block of address 16384 was evicted and written back; final directory *)
  mget (lower (dc_after (dc_start g22 false 7 []) hist)) 16384 = 99 /\
  tags_of (dc_after (dc_start g22 false 7 []) hist) =
    [{| rtags := [Some 2049; Some 2048]; rpol := LRU [0; 1] |};
     {| rtags := [None; None]; rpol := LRU [0; 1] |}].
Proof. vm_compute. repeat split. Qed.

Example hist_write_through :
  dc_run (dc_start g22 true 7 []) hist =
    [(cnt 0 1 false, 7); (cnt 0 2 false, 7); (cnt 0 3 false, 7); (cnt 0 4 false, 7);
     (cnt 0 5 false, 7); (cnt 0 5 false, 0); (cnt 0 5 false, 0); (cnt 1 6 true, 0)] /\
  ref_run g22 true 7 (rcache_init g22) (map acc_of hist) = dc_run (dc_start g22 true 7 []) hist.
Proof. vm_compute. repeat split. Qed.

(* PLRU, 4 ways, 1 set, 2 words per block: five distinct blocks force an eviction (first of the
   block of 16392, then of the block of 16384); also checked against the Python class *)
Definition g14 : ccfg := {| ibits := 0; bbits := 1; assoc := 4; plru := true |}.
Definition hist4 : list dop :=
  [DRead 32 16384 true; DRead 32 16392 true; DRead 32 16388 true; DRead 32 16400 true;
   DRead 32 16408 true; DRead 32 16416 true; DRead 32 16392 true; DRead 32 16384 true].
Example g14_ok : geom_ok g14.
Proof. unfold geom_ok, g14; cbn. repeat split; try discriminate. intros _. exists 2%nat. reflexivity. Qed.
Example hist4_plru :
  all_accepted (dc_start g14 false 3 []) hist4 /\
  map fst (dc_run (dc_start g14 false 3 []) hist4) =
    [cnt 0 1 false; cnt 0 2 false; cnt 1 3 true; cnt 1 4 false; cnt 1 5 false; cnt 1 6 false;
     cnt 1 7 false; cnt 1 8 false] /\
  dc_run (dc_start g14 false 3 []) hist4 = ref_run g14 false 3 (rcache_init g14) (map acc_of hist4).
Proof. vm_compute. repeat split. Qed.

(* rejected operations exist: a write-through word store at byte offset 1; a halfword read at
   byte offset 3 (counted although rejected); a read below the data range (block fill fails) *)
Example rejected_examples :
  let d := dc_start g22 true 7 [] in
  dc_write d 32 16385 1 false = (Some (EOffset 1 0), d, 0) /\
  fst (fst (dc_step d (DRead 16 16387 true))) = false /\
  counters_of (snd (fst (dc_step d (DRead 16 16387 true)))) = cnt 0 1 false /\
  dc_read d 32 8 true = (Err (EAddr 8 16384 4294967295 false), d, 0).
Proof. vm_compute. repeat split. Qed.

(* the re-read after a miss that evicted a dirty block *)
Example reread_example :
  let d := dc_after (dc_start g22 false 7 []) [DWrite 32 16384 99 false; DRead 32 16392 true; DRead 32 16400 true] in
  let '(r, d1, p) := dc_read d 32 16384 true in
  r = Ok 99 /\ p = 7 /\ d1 <> d /\ dc_read d1 32 16384 false = (Ok 99, d1, 0).
Proof. vm_compute. repeat split. discriminate. Qed.
