(* Props/C19.v — property C19:
   "Every TOY instruction encodes to a 16-bit word (opcode in the top four bits, address in the
    low twelve) that decodes back to an equal instruction, and every 16-bit word decodes to the
    instruction its opcode denotes, opcodes above 12 acting as NOP.  Assembling a TOY program
    places instruction i at address i and data variables downward from the top of memory in
    declaration order with array elements ascending, resolves every label and variable name to
    that address regardless of segment order, and accepts decimal and hexadecimal operands; the
    documented example programs compute the documented results."
   Also the error typing of the TOY loader that property C15 uses ([toy_load_outcomes],
   [toy_load_no_uncaught]).

   Only statements; every proof is [exact <lemma>] into Proofs/C19Proofs.v.

   Vocabulary (defined at the top of Proofs/C19Proofs.v, independent of the proofs):
     tinstr_wf i          0 <= top i <= 12 and 0 <= taddr i < 4096
     positional b ds      value of the big-endian digit list ds in base b
     dec_digit/hex_digit  value of a digit character; is_dec_char/is_hex_char: the character sets
     long_decimal s       s is not "0x..." and has more than 4300 characters
     ninstr l / nvals l   number of instruction lines / of data words in the token lines l
     declares_label x n   line x is "n:" or carries the in-line label n
     var_line / code_line / plain_line     ".word" line / label-or-instruction line / no directive
     toy_parse size toks  Some (data lines, text lines, final label table, instructions) when
                          segmentation, label pass, data pass and instantiation all succeed
     instr_denotes lb op opnd i   what the instruction line (op, operand) denotes under table lb
   Token lines are pairs (line number, tline); names are interned as integers; directive 0 is
   .text and 1 is .data; strings are lists of character codes.
   Memory cells are observed with [mget (t_mem s) a] (0 for a cell never written). *)
From ArchSim Require Import Model.Base Model.Mem Model.Fmt Model.Toy Proofs.C19Proofs.
Open Scope Z_scope.

(** ** 1-3. Instruction words *)

Theorem decode_encode : forall i, tinstr_wf i ->
  toy_decode (toy_encode i) = i /\ 0 <= toy_encode i < 65536 /\
  op_code_value i = top i /\ address_section_value i = taddr i.
Proof. exact decode_encode_lem. Qed.
Print Assumptions decode_encode.

(* opcodes 12..15 all decode to NOP (= 12); re-encoding gives the word back for opcodes <= 12
   (for 13..15 it gives the word with opcode 12, see the example below) *)
Theorem decode_total : forall w, 0 <= w < 65536 ->
  toy_decode w = {| top := (if w / 4096 <=? 11 then w / 4096 else 12); taddr := w mod 4096 |} /\
  tinstr_wf (toy_decode w) /\
  (w / 4096 <= 12 -> toy_encode (toy_decode w) = w).
Proof. exact decode_total_lem. Qed.
Print Assumptions decode_total.

Theorem mk_tinstr_wf : forall op a, 0 <= op <= 12 ->
  tinstr_wf (mk_tinstr op a) /\ top (mk_tinstr op a) = op /\ taddr (mk_tinstr op a) = a mod 4096.
Proof. exact mk_tinstr_wf_lem. Qed.
Print Assumptions mk_tinstr_wf.

Example decode_encode_ex :
  tinstr_wf {| top := 3; taddr := 4094 |} /\
  toy_encode {| top := 3; taddr := 4094 |} = 16382 /\
  toy_decode 16382 = {| top := 3; taddr := 4094 |}.
Proof. unfold tinstr_wf; cbn [top taddr]. repeat split; try reflexivity; discriminate. Qed.
(* 0xF123: opcode 15 acts as NOP with address 0x123; it re-encodes to 0xC123 *)
Example decode_total_ex :
  toy_decode 61731 = {| top := 12; taddr := 291 |} /\ toy_encode (toy_decode 61731) = 49443.
Proof. split; reflexivity. Qed.
Example mk_tinstr_ex : mk_tinstr 1 (-1) = {| top := 1; taddr := 4095 |}.
Proof. reflexivity. Qed.

(** ** 4. Literals *)

Theorem toy_literals :
  (* a decimal digit string of at most 4300 digits denotes its decimal value *)
  (forall s, Forall is_dec_char s -> Z.of_nat (length s) <= 4300 ->
     toy_value s = Some (positional 10 (map dec_digit s))) /\
  (* "0x" followed by hexadecimal digits (either case, any number) denotes the hexadecimal value *)
  (forall h, Forall is_hex_char h ->
     toy_value (48 :: 120 :: h) = Some (positional 16 (map hex_digit h))) /\
  (* int() refuses exactly the decimal strings of more than 4300 characters *)
  (forall s, Forall is_dec_char s -> (toy_value s = None <-> Z.of_nat (length s) > 4300)) /\
  (forall s, toy_value s = None <-> long_decimal s).
Proof. exact toy_literals_lem. Qed.
Print Assumptions toy_literals.

Example positional_ex : positional 10 [4; 0; 9; 5] = 4095 /\ positional 16 [0; 0; 15] = 15.
Proof. split; reflexivity. Qed.
Example hex_digit_ex :
  map hex_digit [48; 57; 65; 70; 97; 102] = [0; 9; 10; 15; 10; 15] /\
  map dec_digit [48; 57] = [0; 9].
Proof. split; reflexivity. Qed.
(* "0x00F", "0xaB", "010", "4095" *)
Example toy_literals_ex :
  toy_value [48; 120; 48; 48; 70] = Some 15 /\ toy_value [48; 120; 97; 66] = Some 171 /\
  toy_value [48; 49; 48] = Some 10 /\ toy_value [52; 48; 57; 53] = Some 4095.
Proof. repeat split; reflexivity. Qed.
(* 4300 ones are accepted, 4301 ones are not; 5000 hexadecimal digits are accepted *)
Example toy_literals_limit_ex :
  toy_value (repeat 49 4300) <> None /\ toy_value (repeat 49 4301) = None /\
  long_decimal (repeat 49 4301) /\ toy_value (48 :: 120 :: repeat 49 5000) <> None.
Proof.
  assert (H: toy_value (repeat 49 4301) = None) by (vm_compute; reflexivity).
  split; [vm_compute; discriminate|]. split; [exact H|].
  split; [apply toy_literals; exact H | vm_compute; discriminate].
Qed.

(** ** 5. The assembler *)

(* (a) instruction i at address i; loader state *)
Theorem toy_assemble_layout : forall s toks s', toy_load s toks = (s', None) ->
  exists data text labels ins,
    toy_parse (t_size s) toks = Some (data, text, labels, ins) /\
    length ins = ninstr text /\
    (forall i, (i < length ins)%nat ->
       mget (t_mem s') (Z.of_nat i) = toy_encode (nth i ins nop)) /\
    (* instructions and data do not overlap, and the cells between them are untouched *)
    Z.of_nat (length ins) + Z.of_nat (nvals data) <= t_size s /\
    (forall k, Z.of_nat (length ins) <= k < t_size s - Z.of_nat (nvals data) ->
       mget (t_mem s') k = 0) /\
    t_maxpc s' = Some (Z.of_nat (length ins) - 1) /\
    t_loaded s' = hd_error ins /\
    t_pc s' = 1 /\ t_accu s' = 0 /\ t_icount s' = 0 /\ t_cycles s' = 0 /\ t_bcount s' = 0 /\
    t_cur s' = None /\ t_next s' = 0 /\
    t_size s' = t_size s /\ t_nextcycle s' = t_nextcycle s /\ t_started s' = t_started s.
Proof. exact toy_assemble_layout_lem. Qed.
Print Assumptions toy_assemble_layout.

(* (b) the k-th declared variable starts at size - (n_1 + ... + n_k) (size = 4096: downward from
   4095), its elements ascend from there, each cell holds the value modulo 2^16, and its name
   is bound to the start address *)
Theorem toy_data_layout : forall s toks s' data text labels ins,
  toy_load s toks = (s', None) ->
  toy_parse (t_size s) toks = Some (data, text, labels, ins) ->
  Forall var_line data /\
  forall pre ln name vals post, data = pre ++ (ln, TLVar name vals) :: post ->
    let start := t_size s - Z.of_nat (nvals pre + length vals) in
    Z.of_nat (length ins) <= start /\
    mget_opt labels name = Some start /\
    forall j, (j < length vals)%nat ->
      exists z, toy_value (nth j vals []) = Some z /\
                mget (t_mem s') (start + Z.of_nat j) = z mod 65536.
Proof. exact toy_data_layout_lem. Qed.
Print Assumptions toy_data_layout.

(* (c) every label is bound to the number of instruction lines that precede it in the WHOLE
   token list, every variable to its start address, and every instruction line denotes the
   instruction built from that table (labels are collected before instantiation, so forward
   references resolve) *)
Theorem toy_labels_resolve : forall size toks data text labels ins,
  toy_parse size toks = Some (data, text, labels, ins) ->
  (forall pre ln x post name, toks = pre ++ (ln, x) :: post -> declares_label x name ->
     mget_opt labels name = Some (Z.of_nat (ninstr pre))) /\
  (forall pre ln name vals post, data = pre ++ (ln, TLVar name vals) :: post ->
     mget_opt labels name = Some (size - Z.of_nat (nvals pre + length vals))) /\
  (forall pre ln inl op opnd post, text = pre ++ (ln, TLInstr inl op opnd) :: post ->
     instr_denotes labels op opnd (nth (ninstr pre) ins nop)) /\
  length ins = ninstr text.
Proof. exact toy_labels_resolve_lem. Qed.
Print Assumptions toy_labels_resolve.

(* ... in particular an address-type instruction with a name operand gets exactly the address
   of that name, wherever the name is declared *)
Theorem toy_label_operand : forall size toks data text labels ins,
  toy_parse size toks = Some (data, text, labels, ins) ->
  forall preI lnI inl op l postI, text = preI ++ (lnI, TLInstr inl op (TLabel l)) :: postI ->
    is_address_type op = true ->
    (forall preL ln x postL, toks = preL ++ (ln, x) :: postL -> declares_label x l ->
       nth (ninstr preI) ins nop = mk_tinstr op (Z.of_nat (ninstr preL))) /\
    (forall preV ln vals postV, data = preV ++ (ln, TLVar l vals) :: postV ->
       nth (ninstr preI) ins nop = mk_tinstr op (size - Z.of_nat (nvals preV + length vals))).
Proof. exact toy_label_operand_lem. Qed.
Print Assumptions toy_label_operand.

(* data lines hold no instructions, so on the usual shapes the label value (counted over the
   whole list) is the instruction index inside the text block *)
Theorem ninstr_shapes : forall a b D pre, Forall var_line D ->
  ninstr ((a, TLDirective 1) :: D ++ (b, TLDirective 0) :: pre) = ninstr pre /\
  ninstr ((a, TLDirective 0) :: pre) = ninstr pre /\
  (forall post, ninstr ((a, TLDirective 0) :: (pre ++ post) ++ (b, TLDirective 1) :: D)
                = ninstr (pre ++ post)).
Proof. exact ninstr_shapes_lem. Qed.
Print Assumptions ninstr_shapes.

(* (d) ".data D .text T" and ".text T .data D" assemble to the same state, label table and
   instructions.  The two token lists may carry different line numbers (they only matter for
   error reports).  Hypothesis on line numbers: the line number of the SECOND directive must not
   also be the number of a line of the first block (the segmenter finds the directive by its
   line number); distinct line numbers imply it. *)
Theorem segment_order_irrelevant : forall s a b c d D1 T1 D2 T2,
  Forall var_line D1 -> Forall code_line T1 ->
  map snd D1 = map snd D2 -> map snd T1 = map snd T2 ->
  ~ In b (map fst D1) -> ~ In d (map fst T2) ->
  let L1 := (a, TLDirective 1) :: D1 ++ (b, TLDirective 0) :: T1 in
  let L2 := (c, TLDirective 0) :: T2 ++ (d, TLDirective 1) :: D2 in
  (forall s', toy_load s L1 = (s', None) <-> toy_load s L2 = (s', None)) /\
  (forall size lb ins, (exists dt tx, toy_parse size L1 = Some (dt, tx, lb, ins)) <->
                       (exists dt tx, toy_parse size L2 = Some (dt, tx, lb, ins))).
Proof. exact segment_order_irrelevant_lem. Qed.
Print Assumptions segment_order_irrelevant.

(* with no data, ".data .text T" and the undirected T are the same program *)
Theorem segment_order_plain : forall s a b T1 T3,
  Forall code_line T1 -> map snd T1 = map snd T3 ->
  let L1 := (a, TLDirective 1) :: (b, TLDirective 0) :: T1 in
  (forall s', toy_load s L1 = (s', None) <-> toy_load s T3 = (s', None)) /\
  (forall size lb ins, (exists dt tx, toy_parse size L1 = Some (dt, tx, lb, ins)) <->
                       (exists dt tx, toy_parse size T3 = Some (dt, tx, lb, ins))).
Proof. exact segment_order_plain_lem. Qed.
Print Assumptions segment_order_plain.

(* (e) what the segmenter returns (data, text) on the documented shapes, and which shapes it
   rejects with a directive error at the offending line *)
Theorem segment_spec :
  segment tdir_of [] = POk ([], []) /\
  (forall T, Forall plain_line T -> segment tdir_of T = POk ([], T)) /\
  (forall c T, Forall plain_line T -> segment tdir_of ((c, TLDirective 0) :: T) = POk ([], T)) /\
  (forall a D, Forall plain_line D -> segment tdir_of ((a, TLDirective 1) :: D) = POk (D, [])) /\
  (forall a b D T, Forall plain_line D -> Forall plain_line T -> ~ In b (map fst D) ->
     segment tdir_of ((a, TLDirective 1) :: D ++ (b, TLDirective 0) :: T) = POk (D, T)) /\
  (forall c d D T, Forall plain_line D -> Forall plain_line T -> ~ In d (map fst T) ->
     segment tdir_of ((c, TLDirective 0) :: T ++ (d, TLDirective 1) :: D) = POk (D, T)) /\
  (* no .text directive: every line before .data is code *)
  (forall p T d D, Forall plain_line (p :: T) -> Forall plain_line D -> ~ In d (map fst (p :: T)) ->
     segment tdir_of (p :: T ++ (d, TLDirective 1) :: D) = POk (D, p :: T)) /\
  (* a second .data, a second .text, a .text after an undirected start, any third directive *)
  (forall a A ln B, Forall plain_line A ->
     segment tdir_of ((a, TLDirective 1) :: A ++ (ln, TLDirective 1) :: B) = PErr (PDirective ln)) /\
  (forall c A ln B, Forall plain_line A ->
     segment tdir_of ((c, TLDirective 0) :: A ++ (ln, TLDirective 0) :: B) = PErr (PDirective ln)) /\
  (forall p A ln B, Forall plain_line (p :: A) ->
     segment tdir_of (p :: A ++ (ln, TLDirective 0) :: B) = PErr (PDirective ln)) /\
  (forall a b D T ln d B, Forall plain_line D -> Forall plain_line T -> ~ In b (map fst D) ->
     segment tdir_of ((a, TLDirective 1) :: D ++ (b, TLDirective 0) :: T ++ (ln, TLDirective d) :: B)
     = PErr (PDirective ln)) /\
  (forall c d0 D T ln d B, Forall plain_line D -> Forall plain_line T -> ~ In d0 (map fst T) ->
     segment tdir_of ((c, TLDirective 0) :: T ++ (d0, TLDirective 1) :: D ++ (ln, TLDirective d) :: B)
     = PErr (PDirective ln)).
Proof. exact segment_spec_lem. Qed.
Print Assumptions segment_spec.

(** ** 6. Error typing (used by C15) *)

(* a failing load reports an error whose line number, when it has one, is the number of one of
   the token lines; the error kinds of the RISC-V parser never occur, nor does a memory address
   error (the loader checks the sizes first), and a memory size error reports the configured
   size; a syntax error (ParserSyntaxException raised for a literal that int() rejects) names a
   line that carries a decimal literal of more than 4300 characters; an error that is not a
   parser error (PUncaught) can only come from an address-type instruction without operand *)
Theorem toy_load_outcomes : forall s toks s' e, toy_load s toks = (s', Some e) ->
  (forall ln, perr_line e = Some ln -> In ln (map fst toks)) /\
  (match e with POdd _ | PVariable _ | PDataDup _ | PMemAddr _ => False
           | PMemSize w => w = t_size s | _ => True end) /\
  (forall ln, e = PSyntax ln ->
     exists x lit, In (ln, x) toks /\ In lit (line_literals x) /\ long_decimal lit) /\
  (forall ln, e = PUncaught ln ->
     exists inl op, In (ln, TLInstr inl op TNoOperand) toks /\ is_address_type op = true).
Proof. exact toy_load_outcomes_lem. Qed.
Print Assumptions toy_load_outcomes.

(* ... which the tokenizer excludes: every failure of the loader is a parser error *)
Theorem toy_load_no_uncaught : forall s toks s' e, tokens_wf toks ->
  toy_load s toks = (s', Some e) -> forall ln, e <> PUncaught ln.
Proof. exact toy_load_no_uncaught_lem. Qed.
Print Assumptions toy_load_no_uncaught.

(* conversely, a program that loads has no oversized decimal literal in a data line or as the
   operand of an address-type instruction *)
Theorem toy_load_ok_literals : forall s toks s' data text labels ins,
  toy_load s toks = (s', None) ->
  toy_parse (t_size s) toks = Some (data, text, labels, ins) ->
  (forall ln name vals lit, In (ln, TLVar name vals) data -> In lit vals -> ~ long_decimal lit) /\
  (forall ln inl op lit, In (ln, TLInstr inl op (TAddrLit lit)) text -> is_address_type op = true ->
     ~ long_decimal lit).
Proof. exact toy_load_ok_literals_lem. Qed.
Print Assumptions toy_load_ok_literals.

(** ** 7. The documented programs (webgui/src/components/toy/ToyHelp.vue), tokenised by hand;
       line numbers are those of the help text; results confirmed on the Python simulator *)

Definition st0 : tstate := toy_init 4096 1 false.
Definition STO := 0.  Definition LDA := 1.  Definition BRZ := 2.  Definition ADD := 3.
Definition SUB := 4.  Definition DEC := 10. Definition INC := 9.  Definition ZRO := 11.

(* Example 1: "computes the sum of the numbers from 1 to n", n = 10.
   names: n = 1, result = 2, loop = 3, end = 4 *)
Definition help_ex1 : list (Z * tline) :=
  [ (4, TLDirective 1);
    (5, TLVar 1 [[49; 48]]);                     (* n: .word 10 *)
    (6, TLVar 2 [[48]]);                         (* result: .word 0 *)
    (8, TLDirective 0);
    (9, TLInstr None LDA (TLabel 1));            (* LDA n *)
    (10, TLInstr None BRZ (TLabel 4));           (* BRZ end *)
    (11, TLLabel 3);                             (* loop: *)
    (12, TLInstr None LDA (TLabel 2));           (* LDA result *)
    (13, TLInstr None ADD (TLabel 1));           (* ADD n *)
    (14, TLInstr None STO (TLabel 2));           (* STO result *)
    (15, TLInstr None LDA (TLabel 1));           (* LDA n *)
    (16, TLInstr None DEC TNoOperand);           (* DEC *)
    (17, TLInstr None STO (TLabel 1));           (* STO n *)
    (18, TLInstr None BRZ (TLabel 4));           (* BRZ end *)
    (19, TLInstr None ZRO TNoOperand);           (* ZRO *)
    (20, TLInstr None BRZ (TLabel 3));           (* BRZ loop *)
    (21, TLLabel 4) ].                           (* end: *)

(* assembles: labels loop = 2, end = 11, n = 4095, result = 4094 ... *)
Example help_example_1_assembles :
  option_map (fun r => (snd (fst r), map toy_encode (snd r))) (toy_parse 4096 help_ex1) =
  Some ([(3, 2); (4, 11); (1, 4095); (2, 4094)],
        [8191; 8203; 8190; 16383; 4094; 8191; 40960; 4095; 8203; 45056; 8194]) /\
  snd (toy_load st0 help_ex1) = None.
Proof. vm_compute. split; reflexivity. Qed.

(* ... and runs to completion with result = 1 + 2 + ... + 10 = 55 at 0xFFE and n = 0 at 0xFFF
   (90 instructions, 180 cycles, 10 taken branches) *)
Example help_example :
  let '(s, o, fin) := toy_run 1000 (fst (toy_load st0 help_ex1)) in
  o = TNone /\ fin = true /\
  mget (t_mem s) 4094 = 55 /\ mget (t_mem s) 4095 = 0 /\
  t_accu s = 0 /\ t_pc s = 12 /\ t_icount s = 90 /\ t_cycles s = 180 /\ t_bcount s = 10 /\
  psort (t_mem s) =
    [(0, 8191); (1, 8203); (2, 8190); (3, 16383); (4, 4094); (5, 8191); (6, 40960); (7, 4095);
     (8, 8203); (9, 45056); (10, 8194); (4094, 55); (4095, 0)].
Proof. vm_compute. repeat split; reflexivity. Qed.

(* Example 2: "store second value of my_tuple in my_value" (a self-modifying program).
   names: my_tuple = 1, my_value = 2, my_load_instruction = 3 *)
Definition help_ex2 : list (Z * tline) :=
  [ (4, TLDirective 1);
    (5, TLVar 1 [[51]; [52]]);                   (* my_tuple: .word 3, 4 *)
    (6, TLVar 2 [[48]]);                         (* my_value: .word 0 *)
    (8, TLDirective 0);
    (9, TLInstr None LDA (TLabel 3));            (* LDA my_load_instruction *)
    (10, TLInstr None INC TNoOperand);           (* INC *)
    (11, TLInstr None STO (TLabel 3));           (* STO my_load_instruction *)
    (12, TLLabel 3);                             (* my_load_instruction: *)
    (13, TLInstr None LDA (TLabel 1));           (* LDA my_tuple *)
    (14, TLInstr None STO (TLabel 2)) ].         (* STO my_value *)

(* my_tuple = 0xFFE, my_value = 0xFFD; afterwards my_value holds 4, the second tuple entry *)
Example help_example_2 :
  option_map (fun r => snd (fst r)) (toy_parse 4096 help_ex2) = Some [(3, 3); (1, 4094); (2, 4093)] /\
  let '(s, o, fin) := toy_run 1000 (fst (toy_load st0 help_ex2)) in
  o = TNone /\ fin = true /\ mget (t_mem s) 4093 = 4 /\
  t_accu s = 4 /\ t_pc s = 6 /\ t_icount s = 5 /\ t_cycles s = 10 /\
  psort (t_mem s) =
    [(0, 4099); (1, 36864); (2, 3); (3, 8191); (4, 4093); (4093, 4); (4094, 3); (4095, 4)].
Proof. vm_compute. repeat split; reflexivity. Qed.

(* "Segments and variables": my_array: .word 7, 0x00F, 3 / my_var: .word 7 / my_result: .word 0;
   the program stores 1 in my_result because my_array[0] = my_var.
   names: my_array = 1, my_var = 2, my_result = 3, true = 4, end = 5 *)
Definition help_segments : list (Z * tline) :=
  [ (2, TLDirective 1);
    (3, TLVar 1 [[55]; [48; 120; 48; 48; 70]; [51]]);
    (4, TLVar 2 [[55]]);
    (5, TLVar 3 [[48]]);
    (6, TLDirective 0);
    (8, TLInstr None LDA (TLabel 1));            (* LDA my_array *)
    (9, TLInstr None SUB (TLabel 2));            (* SUB my_var *)
    (10, TLInstr None BRZ (TLabel 4));           (* BRZ true *)
    (11, TLInstr None ZRO TNoOperand);           (* ZRO *)
    (12, TLInstr None BRZ (TLabel 5));           (* BRZ end *)
    (13, TLLabel 4);                             (* true: *)
    (14, TLInstr None INC TNoOperand);           (* INC *)
    (15, TLInstr None STO (TLabel 3));           (* STO my_result *)
    (16, TLLabel 5) ].                           (* end: *)

(* first variable highest (array 0xFFD..0xFFF ascending), then my_var 0xFFC, my_result 0xFFB *)
Example help_example_segments :
  option_map (fun r => snd (fst r)) (toy_parse 4096 help_segments) =
    Some [(4, 5); (5, 7); (1, 4093); (2, 4092); (3, 4091)] /\
  let '(s, o, fin) := toy_run 1000 (fst (toy_load st0 help_segments)) in
  o = TNone /\ fin = true /\ mget (t_mem s) 4091 = 1 /\ t_accu s = 1 /\ t_pc s = 8 /\
  t_icount s = 5 /\ t_cycles s = 10 /\ t_bcount s = 1 /\
  psort (t_mem s) =
    [(0, 8189); (1, 20476); (2, 8197); (3, 45056); (4, 8199); (5, 36864); (6, 4091);
     (4091, 1); (4092, 7); (4093, 7); (4094, 15); (4095, 3)].
Proof. vm_compute. repeat split; reflexivity. Qed.

(* "Labels": loop: LDA 0x400 / DEC / STO 0x400 / BRZ end / ZRO / BRZ loop / end:
   (no directives: everything is code); loop = 0, end = 6.  names: loop = 1, end = 2 *)
Definition help_labels : list (Z * tline) :=
  [ (2, TLLabel 1);
    (3, TLInstr None LDA (TAddrLit [48; 120; 52; 48; 48]));
    (4, TLInstr None DEC TNoOperand);
    (5, TLInstr None STO (TAddrLit [48; 120; 52; 48; 48]));
    (6, TLInstr None BRZ (TLabel 2));
    (7, TLInstr None ZRO TNoOperand);
    (8, TLInstr None BRZ (TLabel 1));
    (9, TLLabel 2) ].
Example help_example_labels :
  option_map (fun r => (snd (fst r), map toy_encode (snd r))) (toy_parse 4096 help_labels) =
    Some ([(1, 0); (2, 6)], [5120; 40960; 1024; 8198; 45056; 8192]) /\
  snd (toy_load st0 help_labels) = None.
Proof. vm_compute. split; reflexivity. Qed.

(** ** Non-vacuity of the assembler theorems *)

(* the hypotheses of the layout theorems hold for the documented programs *)
Example layout_hypothesis_ex :
  exists s', toy_load st0 help_ex1 = (s', None) /\ t_size st0 = 4096 /\
             exists r, toy_parse 4096 help_ex1 = Some r.
Proof. eexists. split; [vm_compute; reflexivity|]. split; [reflexivity|]. eexists. vm_compute. reflexivity. Qed.

(* Example 1 with the segments swapped (and other line numbers) loads to the same state *)
Definition help_ex1_swapped : list (Z * tline) :=
  [ (1, TLDirective 0);
    (2, TLInstr None LDA (TLabel 1)); (3, TLInstr None BRZ (TLabel 4)); (4, TLLabel 3);
    (5, TLInstr None LDA (TLabel 2)); (6, TLInstr None ADD (TLabel 1));
    (7, TLInstr None STO (TLabel 2)); (8, TLInstr None LDA (TLabel 1));
    (9, TLInstr None DEC TNoOperand); (10, TLInstr None STO (TLabel 1));
    (11, TLInstr None BRZ (TLabel 4)); (12, TLInstr None ZRO TNoOperand);
    (13, TLInstr None BRZ (TLabel 3)); (14, TLLabel 4);
    (15, TLDirective 1);
    (16, TLVar 1 [[49; 48]]); (17, TLVar 2 [[48]]) ].
Example segment_order_ex : toy_load st0 help_ex1_swapped = toy_load st0 help_ex1.
Proof. vm_compute. reflexivity. Qed.

(* the hypothesis on line numbers cannot be dropped: if the .text line reuses the number of a
   data line, the segmenter cuts at the wrong place and the load fails *)
Example segment_line_numbers_matter :
  snd (toy_load st0 [(1, TLDirective 1); (2, TLVar 1 [[48]]); (3, TLVar 2 [[48]]);
                     (4, TLDirective 0); (5, TLInstr None INC TNoOperand)]) = None /\
  snd (toy_load st0 [(1, TLDirective 1); (2, TLVar 1 [[48]]); (3, TLVar 2 [[48]]);
                     (2, TLDirective 0); (5, TLInstr None INC TNoOperand)]) <> None.
Proof. split; vm_compute; [reflexivity | discriminate]. Qed.

(* every error kind of the loader occurs, with the line number of the offending line *)
Example toy_load_outcomes_ex :
  (* a second .data *)
  snd (toy_load st0 [(1, TLDirective 1); (2, TLVar 1 [[49]]); (3, TLDirective 1)])
    = Some (PDirective 3) /\
  (* a .text after an undirected start *)
  snd (toy_load st0 [(1, TLInstr None INC TNoOperand); (3, TLDirective 0)]) = Some (PDirective 3) /\
  (* duplicate label, unknown label *)
  snd (toy_load st0 [(1, TLLabel 7); (2, TLLabel 7)]) = Some (PDupLabel 2) /\
  snd (toy_load st0 [(1, TLInstr None LDA (TLabel 9))]) = Some (PLabel 1) /\
  (* an instruction in .data, a variable in .text *)
  snd (toy_load st0 [(1, TLDirective 1); (2, TLInstr None INC TNoOperand)]) = Some (PDataSyntax 2) /\
  snd (toy_load st0 [(1, TLDirective 0); (2, TLVar 1 [[49]])]) = Some (PDataSyntax 2) /\
  (* a variable that is also a label *)
  snd (toy_load st0 [(1, TLDirective 1); (2, TLVar 7 [[49]]); (3, TLDirective 0); (4, TLLabel 7)])
    = Some (PDupLabel 2) /\
  (* memory too small for the data, for the instructions *)
  snd (toy_load (toy_init 2 1 false) [(1, TLDirective 1); (2, TLVar 1 [[49]; [49]; [49]])])
    = Some (PMemSize 2) /\
  snd (toy_load (toy_init 1 1 false) [(1, TLInstr None INC TNoOperand); (2, TLInstr None INC TNoOperand)])
    = Some (PMemSize 1) /\
  (* a decimal literal of 4301 digits, as an operand and as a data word: a syntax error of
     that line *)
  snd (toy_load st0 [(7, TLInstr None LDA (TAddrLit (repeat 49 4301)))]) = Some (PSyntax 7) /\
  snd (toy_load st0 [(1, TLDirective 1); (5, TLVar 1 [[49]; repeat 49 4301])]) = Some (PSyntax 5) /\
  tokens_wf [(7, TLInstr None LDA (TAddrLit (repeat 49 4301)))] /\
  (* only a token line the tokenizer cannot produce (address mnemonic without operand) gives a
     non-parser error *)
  snd (toy_load st0 [(3, TLInstr None LDA TNoOperand)]) = Some (PUncaught 3).
Proof.
  repeat split; try (vm_compute; reflexivity).
  intros ln inl op [H|[]]. discriminate H.
Qed.
