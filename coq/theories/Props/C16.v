(* Props/C16.v — property C16: calling any of the read-only inspection functions any number of
   times between steps never changes any later result.
   Only statements; every proof is [exact <lemma>] into Proofs/C16Proofs.v.

   Op language (Proofs/C16Proofs.v; the type is [iopn] because [iop] is RV.v's immediate-op
   type): an op is [Do a] — a state-changing call: Step | Run fuel | Load tokens (TOY: TStep |
   TFirst | TSecond | TSingle | TRun fuel | TLoad tokens) — or [Inspect k] for a getter k.
   Getters, RISC-V: GRegs (get_register_entries), GMem (get_data_memory_entries: the word table of
   the LOWER memory, [mem_repr] on [ms_lower]), GInstrs (get_instruction_memory_entries; stage
   column = last latch holding the address, five-stage only), GDStats / GIStats (hits, accesses,
   last_hit of the data / instruction cache), GOut, GExit, GDone, GHasInstr.  TOY: TGRegs
   ([toy_register_reprs]), TGMem ([toy_memory_table]), TGDone, TGHasInstr.
   [M_ops ops s] = (final state, list of results): [RAct r] for an action, [RView k v] for an
   inspection, where v is the view computed by a pure function of the state, which is returned
   UNCHANGED — by construction of the model; that the Python getters behave like this is what the
   correspondence harness tests (every zero-argument getter, model op 70).  [act_results] keeps the
   action results.  The theorems hold for all states and all op lists. *)
From ArchSim Require Import Model.Base Model.Mem Model.Cache Model.Fmt Model.RV Model.Single
  Model.Pipe Model.Toy Model.Asm Proofs.C13Proofs Proofs.C16Proofs.
Open Scope Z_scope.

(** * 1. erasing the inspections changes neither the final state nor any action result *)
Theorem inspect_erasure_single : forall ops s,
  fst (single_ops ops s) = fst (single_ops (filter is_act ops) s) /\
  act_results (snd (single_ops ops s)) = act_results (snd (single_ops (filter is_act ops) s)).
Proof. exact inspect_erasure_single_lemma. Qed.
Print Assumptions inspect_erasure_single.

Theorem inspect_erasure_pipe : forall ops p,
  fst (pipe_ops ops p) = fst (pipe_ops (filter is_act ops) p) /\
  act_results (snd (pipe_ops ops p)) = act_results (snd (pipe_ops (filter is_act ops) p)).
Proof. exact inspect_erasure_pipe_lemma. Qed.
Print Assumptions inspect_erasure_pipe.

Theorem inspect_erasure_toy : forall ops s,
  fst (toy_ops ops s) = fst (toy_ops (filter is_act ops) s) /\
  act_results (snd (toy_ops ops s)) = act_results (snd (toy_ops (filter is_act ops) s)).
Proof. exact inspect_erasure_toy_lemma. Qed.
Print Assumptions inspect_erasure_toy.

(* every inspection result is the getter applied to the state reached by the ACTIONS before it *)
Theorem inspect_sound_single : forall ops s n k v,
  nth_error (snd (single_ops ops s)) n = Some (RView k v) ->
  nth_error ops n = Some (Inspect k) /\
  v = single_view k (fst (single_ops (filter is_act (firstn n ops)) s)).
Proof. exact inspect_sound_single_lemma. Qed.
Print Assumptions inspect_sound_single.

Theorem inspect_sound_pipe : forall ops p n k v,
  nth_error (snd (pipe_ops ops p)) n = Some (RView k v) ->
  nth_error ops n = Some (Inspect k) /\
  v = pipe_view k (fst (pipe_ops (filter is_act (firstn n ops)) p)).
Proof. exact inspect_sound_pipe_lemma. Qed.
Print Assumptions inspect_sound_pipe.

Theorem inspect_sound_toy : forall ops s n k v,
  nth_error (snd (toy_ops ops s)) n = Some (RView k v) ->
  nth_error ops n = Some (Inspect k) /\
  v = toy_view k (fst (toy_ops (filter is_act (firstn n ops)) s)).
Proof. exact inspect_sound_toy_lemma. Qed.
Print Assumptions inspect_sound_toy.

(* two sessions with the same calls and ANY inspections in between: same state, same results *)
Theorem interleavings_agree_single : forall ops1 ops2 s, filter is_act ops1 = filter is_act ops2 ->
  fst (single_ops ops1 s) = fst (single_ops ops2 s) /\
  act_results (snd (single_ops ops1 s)) = act_results (snd (single_ops ops2 s)).
Proof. exact interleavings_agree_single_lemma. Qed.
Print Assumptions interleavings_agree_single.

Theorem interleavings_agree_pipe : forall ops1 ops2 p, filter is_act ops1 = filter is_act ops2 ->
  fst (pipe_ops ops1 p) = fst (pipe_ops ops2 p) /\
  act_results (snd (pipe_ops ops1 p)) = act_results (snd (pipe_ops ops2 p)).
Proof. exact interleavings_agree_pipe_lemma. Qed.
Print Assumptions interleavings_agree_pipe.

Theorem interleavings_agree_toy : forall ops1 ops2 s, filter is_act ops1 = filter is_act ops2 ->
  fst (toy_ops ops1 s) = fst (toy_ops ops2 s) /\
  act_results (snd (toy_ops ops1 s)) = act_results (snd (toy_ops ops2 s)).
Proof. exact interleavings_agree_toy_lemma. Qed.
Print Assumptions interleavings_agree_toy.

(* the same three facts for ANY machine and ANY family of pure getters *)
Theorem inspect_erasure : forall (S A R G V : Type) (act : A -> S -> S * R) (view : G -> S -> V) ops s,
  fst (run_iops act view ops s) = fst (run_iops act view (filter is_act ops) s) /\
  act_results (snd (run_iops act view ops s))
    = act_results (snd (run_iops act view (filter is_act ops) s)).
Proof. exact inspect_erasure_gen. Qed.
Print Assumptions inspect_erasure.

Theorem inspect_repeat : forall (S A R G V : Type) (act : A -> S -> S * R) (view : G -> S -> V) k n r s,
  fst (run_iops act view (repeat (Inspect k) n ++ r) s) = fst (run_iops act view r s) /\
  act_results (snd (run_iops act view (repeat (Inspect k) n ++ r) s))
    = act_results (snd (run_iops act view r s)).
Proof. exact inspect_repeat_gen. Qed.
Print Assumptions inspect_repeat.

(** * 2. each view depends only on the named components of the state *)
Theorem views_depend_only_on_single : forall s1 s2,
  (regs s1 = regs s2 -> single_view GRegs s1 = single_view GRegs s2) /\
  (ms_lower (ms s1) = ms_lower (ms s2) -> single_view GMem s1 = single_view GMem s2) /\
  (prog (im s1) = prog (im s2) ->
     single_view GInstrs s1 = single_view GInstrs s2 /\
     single_view GHasInstr s1 = single_view GHasInstr s2) /\
  (dstats_of (ms s1) = dstats_of (ms s2) -> single_view GDStats s1 = single_view GDStats s2) /\
  (istats_of (im s1) = istats_of (im s2) -> single_view GIStats s1 = single_view GIStats s2) /\
  (out s1 = out s2 -> single_view GOut s1 = single_view GOut s2) /\
  (exitc s1 = exitc s2 -> single_view GExit s1 = single_view GExit s2) /\
  (exitc s1 = exitc s2 -> prog (im s1) = prog (im s2) -> pc s1 = pc s2 ->
     single_view GDone s1 = single_view GDone s2).
Proof. exact views_depend_only_on_single_lemma. Qed.
Print Assumptions views_depend_only_on_single.

(* five-stage: the views of the architectural state, plus the latches for the stage column and
   for the done flag *)
Theorem views_depend_only_on_pipe : forall p1 p2,
  (forall k, k <> GInstrs -> k <> GDone -> pipe_view k p1 = single_view k (pst p1)) /\
  (prog (im (pst p1)) = prog (im (pst p2)) -> lat p1 = lat p2 ->
     pipe_view GInstrs p1 = pipe_view GInstrs p2) /\
  (exitc (pst p1) = exitc (pst p2) -> prog (im (pst p1)) = prog (im (pst p2)) ->
   pc (pst p1) = pc (pst p2) -> lat p1 = lat p2 -> pipe_view GDone p1 = pipe_view GDone p2).
Proof. exact views_depend_only_on_pipe_lemma. Qed.
Print Assumptions views_depend_only_on_pipe.

Theorem views_depend_only_on_toy : forall s1 s2,
  (t_accu s1 = t_accu s2 -> t_pc s1 = t_pc s2 -> t_loaded s1 = t_loaded s2 ->
   t_maxpc s1 = t_maxpc s2 -> toy_view TGRegs s1 = toy_view TGRegs s2) /\
  (t_mem s1 = t_mem s2 -> t_size s1 = t_size s2 -> t_maxpc s1 = t_maxpc s2 ->
   t_cur s1 = t_cur s2 -> t_nextcycle s1 = t_nextcycle s2 ->
   toy_view TGMem s1 = toy_view TGMem s2) /\
  (t_loaded s1 = t_loaded s2 -> toy_view TGDone s1 = toy_view TGDone s2) /\
  (t_maxpc s1 = t_maxpc s2 -> toy_view TGHasInstr s1 = toy_view TGHasInstr s2).
Proof. exact views_depend_only_on_toy_lemma. Qed.
Print Assumptions views_depend_only_on_toy.

(** * 3. the one stateful display path: the uncounted re-read of a loaded address *)
(* [single_stage_nr] is SingleStage.behavior WITHOUT the re-read.  Flat memory: the step with the
   re-read IS the step without it (proved from the model, every state) *)
Theorem reread_neutral_in_step : forall s m, ms s = MFlat m ->
  single_stage s = single_stage_nr s /\
  single_pipeline_step s = single_stage_nr (with_cycles s (cycles s + 1)).
Proof. exact reread_neutral_in_step_lemma. Qed.
Print Assumptions reread_neutral_in_step.

(* the re-read itself, after a load that succeeded: same value class (Ok), state unchanged.
   Generalises C01Step.load_reread (no well-formedness needed: the extra UInt32 cast in the
   address computed for the display does not matter, addresses count modulo 2^32) *)
Theorem reread_after_load_flat : forall o rd rs1 imm s1 s2 m, ms s1 = MFlat m ->
  behavior (ILoad o rd rs1 imm) s1 = (s2, None) ->
  exists v, st_read s2 (load_bits o) (load_addr_pre (ILoad o rd rs1 imm) s1) false = (Ok v, s2).
Proof. exact reread_after_load_flat_lemma. Qed.
Print Assumptions reread_after_load_flat.

(* any memory system, GIVEN the re-read idempotence of the data cache in use ([idem_at], vacuous
   for flat memory).  For the cached memory systems that idempotence is property C09
   (Props/C09.v, [reread_neutral], under the cache invariant DInv); it is a HYPOTHESIS here. *)
Theorem single_stage_no_reread : forall s, idem_at (ms s) -> single_stage s = single_stage_nr s.
Proof. exact single_stage_nr_eq. Qed.
Print Assumptions single_stage_no_reread.

Theorem reread_after_load : forall o rd rs1 imm s1 s2, idem_at (ms s1) ->
  behavior (ILoad o rd rs1 imm) s1 = (s2, None) ->
  exists v, st_read s2 (load_bits o) (load_addr_pre (ILoad o rd rs1 imm) s1) false = (Ok v, s2).
Proof. exact reread_after_load_lemma. Qed.
Print Assumptions reread_after_load.

Theorem single_step_no_reread :
  (forall d nb a v d1 p, dc_read d nb a true = (Ok v, d1, p) -> dc_read d1 nb a false = (Ok v, d1, 0)) ->
  forall s, single_stage s = single_stage_nr s /\
            single_pipeline_step s = single_stage_nr (with_cycles s (cycles s + 1)).
Proof. exact single_step_no_reread_lemma. Qed.
Print Assumptions single_step_no_reread.

(* exactly one state-changing data-cache access per executed load: the memory system after the
   step is the one the single counted read leaves, the cycle penalty is that read's penalty *)
Theorem load_one_access :
  (forall d nb a v d1 p, dc_read d nb a true = (Ok v, d1, p) -> dc_read d1 nb a false = (Ok v, d1, 0)) ->
  forall s o rd rs1 imm s1 d s',
  has_instr (im s) (pc s) = true ->
  fetch (with_icount (with_cycles s (cycles s + 1)) (icount s + 1)) (pc s)
    = (Some (ILoad o rd rs1 imm), s1) ->
  ms s = MCache d ->
  single_pipeline_step s = (s', None) ->
  exists v d1 p,
    dc_read d (load_bits o) (rget s rs1 + imm) true = (Ok v, d1, p) /\
    ms s' = MCache d1 /\ cycles s' = cycles s1 + p /\
    regs s' = regs (rset s rd (load_ext o v)).
Proof. exact load_one_access_lemma. Qed.
Print Assumptions load_one_access.

(** * Non-vacuity *)
Definition prog5 : list instr :=
  [II ADDI 17 0 93; II ADDI 10 0 7; IEcall; II ADDI 5 0 1; II ADDI 6 0 2].
Definition s5 : st := init_st prog5 (MFlat []) None.
Definition p5 : pstate := pipe_init s5 true.

Definition all_getters : list (iopn rv_act getter) :=
  map Inspect [GRegs; GMem; GInstrs; GDStats; GIStats; GOut; GExit; GDone; GHasInstr].

(* a session that inspects everything, repeatedly, between the calls *)
Definition session : list (iopn rv_act getter) :=
  all_getters ++ [Do Step] ++ all_getters ++ all_getters ++ [Do Step; Inspect GRegs; Do (Run 20)]
  ++ all_getters ++ [Do Step; Inspect GDone; Inspect GExit].

Example session_single :
  filter is_act session = [Do Step; Do Step; Do (Run 20); Do Step] /\
  fst (single_ops session s5) = fst (single_ops [Do Step; Do Step; Do (Run 20); Do Step] s5) /\
  act_results (snd (single_ops session s5))
    = [RStep true None; RStep true None; RRun Done; RStep false None] /\
  (* inspection results are the views of the states in between *)
  nth_error (snd (single_ops session s5)) 0 = Some (RView GRegs (single_view GRegs s5)) /\
  nth_error (snd (single_ops session s5)) 29
    = Some (RView GRegs (single_view GRegs (single_iter 2 s5))) /\
  nth_error (snd (single_ops session s5)) 41 = Some (RView GDone (VBool true)) /\
  nth_error (snd (single_ops session s5)) 42 = Some (RView GExit (VExit (Some 7))) /\
  single_view GRegs s5 <> single_view GRegs (single_iter 2 s5).
Proof.
  split; [reflexivity|]. split; [vm_compute; reflexivity|]. split; [vm_compute; reflexivity|].
  split; [vm_compute; reflexivity|]. split; [vm_compute; reflexivity|].
  split; [vm_compute; reflexivity|]. split; [vm_compute; reflexivity|]. vm_compute. discriminate.
Qed.

Example session_pipe :
  fst (pipe_ops session p5) = fst (pipe_ops [Do Step; Do Step; Do (Run 20); Do Step] p5) /\
  act_results (snd (pipe_ops session p5))
    = [RStep true None; RStep true None; RRun Done; RStep false None] /\
  (* the stage column: after two steps address 0 is in ID (latch 1), address 4 in IF (latch 0) *)
  pipe_view GInstrs (pipe_iter 2 p5)
    = VInstrs (listing_from 0 prog5 (fun a => if a =? 0 then Some 1 else if a =? 4 then Some 0 else None)) /\
  nth_error (snd (pipe_ops session p5)) 42 = Some (RView GExit (VExit (Some 7))).
Proof.
  split; [vm_compute; reflexivity|]. split; [vm_compute; reflexivity|].
  split; vm_compute; reflexivity.
Qed.

(* TOY: INC ; INC ; STO 0x010 *)
Definition ttoks3 : list (Z * tline) :=
  [(1, TLInstr None 9 TNoOperand); (2, TLInstr None 9 TNoOperand);
   (3, TLInstr None 0 (TAddrLit [48; 120; 48; 49; 48]))].
Definition t0 : tstate := toy_init 4096 1 false.
Definition tsession : list (iopn toy_act_t tgetter) :=
  [Inspect TGRegs; Do (TLoad ttoks3); Inspect TGMem; Inspect TGRegs; Inspect TGMem; Do TStep;
   Inspect TGRegs; Do TFirst; Inspect TGMem; Inspect TGMem; Do TSingle; Inspect TGDone;
   Do (TRun 9); Inspect TGDone; Inspect TGMem; Inspect TGHasInstr].

Example session_toy :
  fst (toy_ops tsession t0)
    = fst (toy_ops [Do (TLoad ttoks3); Do TStep; Do TFirst; Do TSingle; Do (TRun 9)] t0) /\
  act_results (snd (toy_ops tsession t0))
    = [TRLoad None; TRCall TNone true; TRCall TNone true; TRCall TNone true; TRCall TNone false] /\
  nth_error (snd (toy_ops tsession t0)) 11 = Some (RView TGDone (TVBool false)) /\
  nth_error (snd (toy_ops tsession t0)) 13 = Some (RView TGDone (TVBool true)) /\
  mget (t_mem (fst (toy_ops tsession t0))) 16 = 2.
Proof. vm_compute. repeat split; reflexivity. Qed.

(** the re-read on a real cache: lui x5, 4 ; lw x6, 0(x5) ; lw x7, 0(x5) over a 2-set, 2-way,
    one-word-block write-back cache with miss penalty 5 and the word 7 at 0x4000 *)
Definition dcfg2 : ccfg := {| ibits := 1; bbits := 0; assoc := 2; plru := false |}.
Definition dcache0 : dcache :=
  {| dc := cache_init dcfg2; lower := [(16384, 7)]; wthrough := false; penalty := 5;
     hits := 0; accesses := 0; lasthit := false |}.
Definition s_lw : st :=
  init_st [ILui 5 4; ILoad LW 6 5 0; ILoad LW 7 5 0] (MCache dcache0) None.

Example reread_cached_example :
  (* the step with the display re-read equals the step without it, at every step *)
  single_pipeline_step s_lw = single_stage_nr (with_cycles s_lw (cycles s_lw + 1)) /\
  single_pipeline_step (single_iter 1 s_lw)
    = single_stage_nr (with_cycles (single_iter 1 s_lw) (cycles (single_iter 1 s_lw) + 1)) /\
  single_pipeline_step (single_iter 2 s_lw)
    = single_stage_nr (with_cycles (single_iter 2 s_lw) (cycles (single_iter 2 s_lw) + 1)) /\
  (* one counted access per load: a miss (penalty 5) then a hit; the re-reads left no trace *)
  single_view GDStats (single_iter 1 s_lw) = VStats (Some (0, 0, false)) /\
  single_view GDStats (single_iter 2 s_lw) = VStats (Some (0, 1, false)) /\
  single_view GDStats (single_iter 3 s_lw) = VStats (Some (1, 2, true)) /\
  cycles (single_iter 3 s_lw) = 3 + 5 /\
  rget (single_iter 3 s_lw) 6 = 7 /\ rget (single_iter 3 s_lw) 7 = 7 /\
  single_done (single_iter 3 s_lw) = true.
Proof. vm_compute. repeat split; reflexivity. Qed.

(* the memory table is that of the LOWER memory; inspecting it does not flush or fill the cache *)
Example mem_table_example :
  single_view GMem (single_iter 3 s_lw)
    = VMem (Ok [(16384, [48; 120; 48; 48; 48; 48; 52; 48; 48; 48], n_bit_repr 32 7)]) /\
  single_view GMem s_lw = single_view GMem (single_iter 3 s_lw).
Proof. vm_compute. split; reflexivity. Qed.
