(* Props/C02.v — data-path half of property C02 ("five-stage pipeline = single-cycle"):
   an instruction that flows ALONE through the stages ID, EX, MEM, WB of the modelled five-stage
   pipeline has exactly the architectural effect of the single-cycle [behavior], for every supported
   instruction and every operand, register, memory-system and pc value.

   Only statements; every proof is [exact <lemma>] into Proofs/C02Split.v.

   Vocabulary (Proofs/SplitExec.v, definitions only):
     flow i s            runs the real stage functions of Model/Pipe.v on one slot:
                           d := stage_id false [Some (slot_if i (pc s)); None; None; None; None] 0 s
                           stage_ex [None; d; ..] 1 s, stage_mem [..; e; ..] 2 s1, stage_wb [..; m; ..] 3 s2
                         and returns (final state, redirect = sl_flush of the MEM latch, exception);
                         a stage that raises stops the instruction
     flow_state / flow_redirect / flow_err     the three components
     next_pc s r         r's address if r = Some _, else pc s + 4  (what IF fetches next)
     supported i         every class except ebreak, fence, csr*, csr*i
     mem_words_ok m      True for a flat memory; for a data cache: every word stored in a cache block is
                         in [0, 2^32).  Python stores UInt32 objects there; the model stores integers, so
                         this is an invariant of reachable states ([words_ok_initially], [words_ok_kept]).
                         It is needed for LW only and cannot be dropped ([words_ok_needed]).
   From Proofs/C01Step.v: wf_instr (register numbers 0..31, immediates in their encodable range),
   wf_regs r (every register in [0, 2^32) and x0 = 0).

   Not assumed, because not needed: any bound on pc, byte-sized memory cells, a flat memory, the absence
   of caches.  The memory system is arbitrary: both machines call st_read / st_write with the same
   arguments, up to the address being reduced modulo 2^32 by the single-cycle store (the memory systems
   only look at the address modulo 2^32: [st_write_wraps_address]). *)
From ArchSim Require Import Model.Base Model.Mem Model.Cache Model.Fmt Model.RV Model.Single
  Model.RVSplit Model.Pipe Spec.RV32IM
  Proofs.WordLemmas Proofs.C01Arith Proofs.C01Step Proofs.SplitExec Proofs.C02Split.
Open Scope Z_scope.

(** ** The agreement theorem *)

(* No exception: every architectural component agrees, except that the pipeline leaves the pc to the
   fetch stage (pc s_f = pc s; the successor is next_pc) and that WB has counted the instruction
   (behavior() never counts: the single-cycle stage does that itself before calling it).
   The successor address is the same INTEGER on both sides (not merely modulo 2^32): pc + imm for taken
   branches and jal, ((rs1 + imm) mod 2^32 with bit 0 cleared) for jalr, pc + 4 for an exiting ecall
   and for everything that does not redirect.
   Exception: the two machines raise the same exception in literally the same state (in particular the
   same registers, memory system and output), and the pipeline requests no redirect. *)
Theorem split_agrees : forall i s,
  wf_instr i -> wf_regs (regs s) -> mem_words_ok (ms s) -> supported i = true ->
  let '(s_b, err_b) := behavior i s in
  let '(s_f, redirect, err_f) := flow i s in
  err_f = err_b /\
  match err_b with
  | None =>
      regs s_f = regs s_b /\ ms s_f = ms s_b /\ out s_f = out s_b /\ exitc s_f = exitc s_b /\
      cycles s_f = cycles s_b /\ bcount s_f = bcount s_b /\ pcount s_f = pcount s_b /\
      im s_f = im s_b /\ stalls s_f = stalls s_b /\ flushes s_f = flushes s_b /\
      icount s_f = icount s + 1 /\ icount s_b = icount s /\
      pc s_f = pc s /\ next_pc s redirect = pc s_b + 4
  | Some _ => s_f = s_b /\ redirect = None
  end.
Proof. exact split_agrees_lem. Qed.
Print Assumptions split_agrees.

(* the same in one equation *)
Theorem split_agrees_compact : forall i s,
  wf_instr i -> wf_regs (regs s) -> mem_words_ok (ms s) -> supported i = true ->
  match behavior i s with
  | (s_b, None) =>
      exists r, flow i s = (with_icount (with_pc s_b (pc s)) (icount s + 1), r, None) /\
                next_pc s r = pc s_b + 4 /\ icount s_b = icount s
  | (s_b, Some e) => flow i s = (s_b, None, Some e)
  end.
Proof. exact split_core. Qed.
Print Assumptions split_agrees_compact.

(* the form the property asks for: pc inside the instruction memory, successor compared modulo 2^32,
   registers / memory / output compared at a fault (a weakening of [split_agrees]) *)
Theorem split_agrees_mod32 : forall i s,
  wf_instr i -> wf_regs (regs s) -> mem_words_ok (ms s) -> 0 <= pc s < 2 ^ 14 -> supported i = true ->
  let '(s_b, err_b) := behavior i s in
  let '(s_f, redirect, err_f) := flow i s in
  err_f = err_b /\
  match err_b with
  | None =>
      regs s_f = regs s_b /\ ms s_f = ms s_b /\ out s_f = out s_b /\ exitc s_f = exitc s_b /\
      cycles s_f = cycles s_b /\ bcount s_f = bcount s_b /\ pcount s_f = pcount s_b /\
      icount s_f = icount s + 1 /\
      U32 (next_pc s redirect) = U32 (pc s_b + 4)
  | Some _ => regs s_f = regs s_b /\ ms s_f = ms s_b /\ out s_f = out s_b
  end.
Proof. exact split_agrees_pc. Qed.
Print Assumptions split_agrees_mod32.

(** ** The hypotheses *)

(* [mem_words_ok] cannot be dropped: a (non-reachable) cache block holding 2^32 + 5 makes LW write
   2^32 + 5 into x7 in behavior() and 5 in the pipeline *)
Example words_ok_needed :
  let i := ILoad LW 7 6 0 in
  wf_instr i /\ wf_regs (regs ex_badcache) /\ supported i = true /\
  mget (regs (fst (behavior i ex_badcache))) 7 = 4294967301 /\
  mget (regs (flow_state i ex_badcache)) 7 = 5.
Proof.
  cbv zeta. split; [unfold wf_instr, reg_ok; cbn; repeat split; discriminate|].
  split; [|repeat split; vm_compute; reflexivity].
  split; [|reflexivity].
  intros k. unfold in32, mget. cbn [ex_badcache regs mget_opt].
  destruct (6 =? k); split; try discriminate; reflexivity.
Qed.

(* it holds for a flat memory and for a freshly built data cache ... *)
Theorem words_ok_initially : forall m c wt pen,
  mem_words_ok (MFlat m) /\ mem_words_ok (MCache (dcache_init c wt pen)).
Proof. exact init_words_ok. Qed.
Print Assumptions words_ok_initially.

(* ... and it is kept by every instruction (every class, faulting or not), as is [wf_regs] *)
Theorem words_ok_kept : forall i s, mem_words_ok (ms s) -> mem_words_ok (ms (flow_state i s)).
Proof. exact flow_words_ok. Qed.
Print Assumptions words_ok_kept.

Theorem wf_regs_kept : forall i s, wf_regs (regs s) -> wf_regs (regs (flow_state i s)).
Proof. exact flow_wf_regs. Qed.
Print Assumptions wf_regs_kept.

(* the decode stage's hazard-detection flag plays no role for an instruction that is alone *)
Theorem flow_independent_of_hazard_flag : forall hz i s, flow_hz hz i s = flow i s.
Proof. exact flow_hz_eq. Qed.
Print Assumptions flow_independent_of_hazard_flag.

(* a write only looks at its address modulo 2^32, whatever the memory system *)
Theorem st_write_wraps_address : forall s nb a a' v dir,
  U32 a = U32 a' -> st_write s nb a v dir = st_write s nb a' v dir.
Proof. exact st_write_cong. Qed.
Print Assumptions st_write_wraps_address.

(** ** The ALU: UInt32 (write_back) of the raw split result is the single-cycle result *)
Theorem alu_agrees : forall a b, in32 a -> in32 b ->
  (forall o, U32 (r_alu o a b) = r_behavior o a b) /\
  (forall o imm, U32 (i_alu o a imm) = i_behavior o a imm) /\
  (forall o sh, 0 <= sh < 32 -> U32 (sh_alu o a sh) = sh_behavior o a sh) /\
  (forall o, b_alu o a b = b_cond o a b).
Proof.
  intros a b Ha Hb. split; [|split; [|split]]; intros.
  - exact (r_alu_agrees o a b Ha Hb).
  - exact (i_alu_agrees o a imm Ha).
  - exact (sh_alu_agrees o a sh Ha H).
  - exact (b_alu_cond o a b).
Qed.
Print Assumptions alu_agrees.

(** ** Corollaries *)

(* Defect D1 (fixed in /repo commit 5c36b16; the model follows the fixed code): the JALR redirect is
   the 32-bit wrapped sum with bit 0 cleared — for every register value and every immediate *)
Theorem jalr_target_wraps : forall rd rs1 imm s,
  flow_redirect (IJalr rd rs1 imm) s = Some (2 * (((rget s rs1 + imm) mod 2 ^ 32) / 2)).
Proof. exact jalr_target_wraps_lem. Qed.
Print Assumptions jalr_target_wraps.

Theorem jalr_target_is_behaviors : forall rd rs1 imm s, -2048 <= imm < 2048 ->
  flow_redirect (IJalr rd rs1 imm) s = Some (pc (fst (behavior (IJalr rd rs1 imm) s)) + 4).
Proof. exact jalr_target_behavior. Qed.
Print Assumptions jalr_target_is_behaviors.

(* a branch redirects exactly when the REFERENCE condition (Spec/RV32IM.v) holds, to pc + imm, and
   counts itself exactly then *)
Theorem branch_redirect_iff_taken : forall o rs1 rs2 imm s, wf_regs (regs s) ->
  (flow_redirect (IBranch o rs1 rs2 imm) s <> None <->
   spec_cond o (rget s rs1) (rget s rs2) = true) /\
  (forall a, flow_redirect (IBranch o rs1 rs2 imm) s = Some a -> a = pc s + imm).
Proof. exact branch_redirect_iff_taken_lem. Qed.
Print Assumptions branch_redirect_iff_taken.

Theorem branch_redirect_and_count : forall o rs1 rs2 imm s, wf_regs (regs s) ->
  let taken := spec_cond o (rget s rs1) (rget s rs2) in
  flow_redirect (IBranch o rs1 rs2 imm) s = (if taken then Some (pc s + imm) else None) /\
  bcount (flow_state (IBranch o rs1 rs2 imm) s) = bcount s + (if taken then 1 else 0) /\
  flow_err (IBranch o rs1 rs2 imm) s = None.
Proof. exact branch_redirect_lem. Qed.
Print Assumptions branch_redirect_and_count.

(* loads: MEM hands on a raw integer (negative for a sign-extended byte / halfword); UInt32 of it in
   write_back is behavior()'s value and the reference's sign / zero extension *)
Theorem load_value_agrees : forall o rd rs1 imm a s v s',
  st_read s (load_bits o) a true = (Ok v, s') -> 0 <= v < 2 ^ load_bits o ->
  let raw := match o with LB => I8 v | LH => I16 v | _ => v end in
  memory_access (ILoad o rd rs1 imm) (Some a) None s = (Ok (Some raw), s') /\
  U32 raw = load_ext o v /\ U32 raw = lop_value o v /\
  (raw < 0 <-> (o = LB /\ 128 <= v) \/ (o = LH /\ 32768 <= v)).
Proof. exact load_value_agrees_lem. Qed.
Print Assumptions load_value_agrees.

(* stores: both machines perform one and the same write — address wrapped to 32 bits, value masked to
   the access width (the pipeline masks in ID and again in MEM, behavior() once) *)
Theorem store_masks_agree : forall o rs1 rs2 imm s,
  let w := st_write s (store_bits o) (U32 (rget s rs1 + imm))
             (rget s rs2 mod 2 ^ store_bits o) false in
  behavior (IStore o rs1 rs2 imm) s = (snd w, fst w) /\
  flow (IStore o rs1 rs2 imm) s =
    match w with
    | (None, s') => (with_icount s' (icount s' + 1), None, None)
    | (Some e, s') => (s', None, Some e)
    end.
Proof. exact store_masks_agree_lem. Qed.
Print Assumptions store_masks_agree.

(* x0 is never written, and no register but the destination changes — for every instruction class,
   every state, faulting or not *)
Theorem x0_never_written : forall i s, mget (regs (flow_state i s)) 0 = mget (regs s) 0.
Proof. exact x0_never_written_lem. Qed.
Print Assumptions x0_never_written.

Theorem only_rd_written : forall i s k, k = 0 \/ write_reg i <> Some k ->
  mget (regs (flow_state i s)) k = mget (regs s) k.
Proof. exact flow_regs_frame. Qed.
Print Assumptions only_rd_written.

(** ** Concrete runs (closed computations) *)

(* lb x7, 0(x6) with mem8[0x10000] = 0x80: MEM yields -128, WB writes 0xFFFFFF80; lbu gives 0x80 *)
Example load_example :
  let s := ex_flat 0 [(6, 65536)] [(65536, 128)] in
  memory_access (ILoad LB 7 6 0) (Some 65536) None s = (Ok (Some (-128)), s) /\
  flow (ILoad LB 7 6 0) s = (with_icount (fst (behavior (ILoad LB 7 6 0) s)) 1, None, None) /\
  mget (regs (flow_state (ILoad LB 7 6 0) s)) 7 = 4294967168 /\
  mget (regs (flow_state (ILoad LBU 7 6 0) s)) 7 = 128 /\
  flow_err (ILoad LW 7 0 0) s = Some (EAddr 0 16384 4294967295 false) /\
  snd (behavior (ILoad LW 7 0 0) s) = Some (EAddr 0 16384 4294967295 false).
Proof. vm_compute. repeat split; reflexivity. Qed.

(* bne x1, x2, -8 at pc 16 with x1 <> x2: redirect to 8, branch counted; not taken when equal *)
Example branch_example :
  let s := ex_flat 16 [(1, 5); (2, 4294967295)] [] in
  flow_redirect (IBranch BNE 1 2 (-8)) s = Some 8 /\
  pc (fst (behavior (IBranch BNE 1 2 (-8)) s)) + 4 = 8 /\
  bcount (flow_state (IBranch BNE 1 2 (-8)) s) = 1 /\
  flow_redirect (IBranch BLT 2 1 (-8)) s = Some 8 /\       (* 0xFFFFFFFF is -1 < 5 *)
  flow_redirect (IBranch BLTU 2 1 (-8)) s = None /\
  flow_redirect (IBranch BEQ 1 2 (-8)) s = None /\
  bcount (flow_state (IBranch BEQ 1 2 (-8)) s) = 0.
Proof. vm_compute. repeat split; reflexivity. Qed.

(* the D1 witness: x1 = 0xFFFFFFFC, jalr x2, x1, 8 at pc 0 redirects to 4 (not to 0x100000004),
   links x2 = 4, and agrees with behavior() *)
Example jalr_wrap_example :
  let s := ex_flat 0 [(1, 4294967292)] [] in
  flow_redirect (IJalr 2 1 8) s = Some 4 /\
  mget (regs (flow_state (IJalr 2 1 8) s)) 2 = 4 /\
  pc (fst (behavior (IJalr 2 1 8) s)) + 4 = 4 /\
  flow_redirect (IJalr 2 1 7) s = Some 2.                  (* bit 0 cleared: 0xFFFFFFFC + 7 = 3 -> 2 *)
Proof. vm_compute. repeat split; reflexivity. Qed.

(* an exiting ecall (a7 = 93, a0 = 7): exit code committed by WB, redirect to pc + 4 *)
Example ecall_exit_example :
  let s := ex_flat 8 [(17, 93); (10, 7)] [] in
  flow IEcall s = (with_icount (fst (behavior IEcall s)) 1, Some 12, None) /\
  exitc (flow_state IEcall s) = Some 7.
Proof. vm_compute. repeat split; reflexivity. Qed.
