(* Props/C03Programs.v — program-level clause of property C03 (and of C11): a PROGRAM run by the
   single-cycle machine (§2-3) or by the five-stage pipeline (§4-5) with ANY data cache (write-back
   or write-through, LRU or PLRU, any legal geometry) and ANY instruction cache computes exactly
   what it computes on flat memory without instruction cache — until the cache rejects an access
   that crosses a word boundary, which the flat memory would answer.
   Only statements; every proof is [exact <lemma>] into Proofs/Lift*.v.

   Vocabulary (Proofs/LiftSim.v, Proofs/LiftSingle.v; definitions repeated in §0):
     cache_ok s     the data-cache invariant CInv of Proofs/CacheInv.v holds for [ms s] (a flat [ms s]
                    holds bytes), the instruction-cache invariant IInv (Spec/RefCache.v) holds for
                    [im s], and the program has at most 2^30 instructions.  Holds initially, is kept.
     flatten s      s with [ms s] replaced by the flat byte memory of its logical contents
                    ([ms_flat]: lower memory overlaid with the resident cache blocks) and the
                    instruction cache dropped; every other field kept
     same_arch s t  pc, regs, out, exitc, icount, bcount, pcount equal and equal logical memory
                    contents at every address in [0, 2^32).  NOT compared, because they differ by
                    design: cycles (miss penalties), cache directories and hit/access counters.
     ms_cfg m       None for flat memory, Some (geometry, write-through?) for a data cache
     rejects g i s  Some e iff the data cache g rejects the access of instruction i (a load/store
                    whose effective address mod 4 + width > 4) with error e   [rejects_meaning]
     fmap g f       the flat machine's fault f as the cached machine reports it: an address error
                    names the block-aligned address when a block fetch fails (loads, the ecall
                    string scan, write-back stores); everything else unchanged   [fmap_meaning]  *)
From ArchSim Require Import Spec.RefCache.
From ArchSim Require Import Model.Base Model.Mem Model.Cache Model.Fmt Model.RV Model.Single
  Proofs.CacheArith Proofs.CacheInv Proofs.C03Proofs Proofs.C11Proofs
  Model.RVSplit Model.Pipe
  Proofs.LiftFlat Proofs.LiftAccess Proofs.LiftSim Proofs.LiftEcall Proofs.LiftSingle
  Proofs.LiftPipe Proofs.LiftPipeRun Proofs.LiftICache Proofs.LiftRefine Proofs.LiftMeaning.
Open Scope Z_scope.

(** ** 0. The vocabulary means what it says *)
Theorem cache_ok_meaning : forall s,
  cache_ok s <->
  match ms s with MFlat f => bytes_ok f | MCache d => CInv d end /\ IInv (im s) /\
  Z.of_nat (length (prog (im s))) <= 1073741824.
Proof. exact cache_ok_meaning_lem. Qed.
Print Assumptions cache_ok_meaning.

Theorem flatten_meaning : forall s,
  flatten s =
  {| pc := pc s; regs := regs s;
     ms := MFlat (match ms s with MFlat f => f | MCache d => flat_of d end);
     im := {| prog := prog (im s); icc := None |};
     out := out s; exitc := exitc s; icount := icount s; bcount := bcount s; pcount := pcount s;
     cycles := cycles s; stalls := stalls s; flushes := flushes s |}.
Proof. exact flatten_meaning_lem. Qed.
Print Assumptions flatten_meaning.

(* the flat memory of [flatten] holds, at every address, the byte seen through the cache *)
Theorem flat_of_meaning : forall d a, CInv d -> 0 <= a < 4294967296 ->
  mget (flat_of d) a = logical d a.
Proof. exact flat_of_get. Qed.
Print Assumptions flat_of_meaning.

Theorem same_arch_meaning : forall s t,
  same_arch s t <->
  pc s = pc t /\ regs s = regs t /\ out s = out t /\ exitc s = exitc t /\
  icount s = icount t /\ bcount s = bcount t /\ pcount s = pcount t /\
  forall a, 0 <= a < 4294967296 ->
    match ms s with MFlat f => mget f a | MCache d => logical d a end =
    match ms t with MFlat f => mget f a | MCache d => logical d a end.
Proof. exact same_arch_meaning_lem. Qed.
Print Assumptions same_arch_meaning.

Theorem rejects_meaning : forall g i s e,
  rejects g i s = Some e <->
  exists c wt w nb a, g = Some (c, wt) /\
    match i with
    | ILoad o _ rs1 imm => Some (false, load_bits o, rget s rs1 + imm)
    | IStore o rs1 _ imm => Some (true, store_bits o, U32 (rget s rs1 + U32 imm))
    | _ => None
    end = Some (w, nb, a) /\
    (a mod 4294967296) mod 4 + nb / 8 > 4 /\
    e = (if (w && wt) || (16384 <=? a mod 4294967296)
         then EOffset ((a mod 4294967296) mod 4) (4 - nb / 8)
         else EAddr (da_balign (decode_addr (ibits c) (bbits c) a)) 16384 4294967295 false).
Proof. exact LiftSingle.rejects_meaning. Qed.
Print Assumptions rejects_meaning.

Theorem fmap_meaning : forall g f,
  fmap g f =
  {| f_addr := f_addr f; f_instr := f_instr f;
     f_err := match g, f_err f with
              | Some (c, wt), EAddr x lo hi false =>
                  if (match f_instr f with IStore _ _ _ _ => true | _ => false end) && wt then f_err f
                  else EAddr (da_balign (decode_addr (ibits c) (bbits c) x)) lo hi false
              | _, _ => f_err f
              end |}.
Proof. exact fmap_meaning_lem. Qed.
Print Assumptions fmap_meaning.

(** ** 1. The hypothesis holds initially and [flatten] of an initial state is the uncached state *)
Theorem cache_ok_init : forall p c wt pen ic,
  cfg_ok c -> Z.of_nat (length p) <= 1073741824 ->
  match ic with Some (g, ipen) => 0 <= ibits g /\ 0 <= bbits g | None => True end ->
  cache_ok (init_st p (MCache (dcache_init c wt pen))
              (match ic with Some (g, ipen) => Some (icache_init g ipen) | None => None end)).
Proof. exact cache_ok_init_lem. Qed.
Print Assumptions cache_ok_init.

(** ** 2. One single-cycle step *)
(* No fault through the caches: no fault on flat memory, same architectural state afterwards.
   Fault through the caches: either the flat machine faults at the same instruction with the
   corresponding record ([fmap]: only the address named by an address error may differ), or the
   instruction at [pc s] is a load/store crossing a word boundary which the data cache rejects
   ([rejects], error spelled out by [rejects_meaning]) leaving the architectural state as it was
   (the instruction has been counted).  [cache_ok] and the configuration are kept in all cases. *)
Theorem single_step_lifts : forall s, cache_ok s ->
  let '(s', of) := single_pipeline_step s in
  let '(t', of') := single_pipeline_step (flatten s) in
  cache_ok s' /\ ms_cfg (ms s') = ms_cfg (ms s) /\
  match of with
  | None => of' = None /\ same_arch s' t'
  | Some f =>
      (exists ff, of' = Some ff /\ f = fmap (ms_cfg (ms s)) ff /\ same_arch s' t') \/
      (exists i e, instr_at (prog (im s)) (pc s) = Some i /\ rejects (ms_cfg (ms s)) i s = Some e /\
                   f = mkfault (pc s) i e /\ same_arch s' (with_icount (flatten s) (icount s + 1)))
  end.
Proof. exact single_step_lift. Qed.
Print Assumptions single_step_lifts.

(** ** 3. Runs: agreement up to the first cache rejection *)
(* [single_rejects sk f]: the instruction at [pc sk] is rejected by the data cache with record f *)
Theorem single_rejects_meaning : forall s f,
  single_rejects s f <->
  exists i e, instr_at (prog (im s)) (pc s) = Some i /\ rejects (ms_cfg (ms s)) i s = Some e /\
              f = {| f_addr := pc s; f_instr := i; f_err := e |}.
Proof. exact single_rejects_meaning_lem. Qed.
Print Assumptions single_rejects_meaning.

Theorem single_run_lifts : forall n s, cache_ok s ->
  match single_run n s with
  | (s', Done) => exists t', single_run n (flatten s) = (t', Done) /\ same_arch s' t' /\ cache_ok s'
  | (s', OutOfFuel) => exists t', single_run n (flatten s) = (t', OutOfFuel) /\ same_arch s' t' /\ cache_ok s'
  | (s', Faulted f) =>
      (exists t' ff, single_run n (flatten s) = (t', Faulted ff) /\ f = fmap (ms_cfg (ms s)) ff /\
                     same_arch s' t') \/
      (exists k sk tk, (k < n)%nat /\ single_run k s = (sk, OutOfFuel) /\
         single_run k (flatten s) = (tk, OutOfFuel) /\ same_arch sk tk /\ single_rejects sk f /\
         same_arch s' (with_icount tk (icount tk + 1)))
  end.
Proof. exact single_run_lift. Qed.
Print Assumptions single_run_lifts.

(* the property text: a program computes the same results with the caches on or off — from the
   initial state of ANY configuration against the plain machine (flat empty memory, no icache) *)
Theorem program_cache_on_off_single : forall n p c wt pen ic,
  cfg_ok c -> Z.of_nat (length p) <= 1073741824 ->
  match ic with Some (g, ipen) => 0 <= ibits g /\ 0 <= bbits g | None => True end ->
  let s := init_st p (MCache (dcache_init c wt pen)) (mk_icache ic) in
  let t := init_st p (MFlat []) None in
  match single_run n s with
  | (s', Done) => exists t', single_run n t = (t', Done) /\ same_arch s' t'
  | (s', OutOfFuel) => exists t', single_run n t = (t', OutOfFuel) /\ same_arch s' t'
  | (s', Faulted f) =>
      (exists t' ff, single_run n t = (t', Faulted ff) /\ f = fmap (Some (c, wt)) ff /\ same_arch s' t') \/
      (exists k sk tk, (k < n)%nat /\ single_run k s = (sk, OutOfFuel) /\
         single_run k t = (tk, OutOfFuel) /\ same_arch sk tk /\ single_rejects sk f /\
         same_arch s' (with_icount tk (icount tk + 1)))
  end.
Proof. exact single_run_on_off. Qed.
Print Assumptions program_cache_on_off_single.

(** ** Non-vacuity.  One set, two ways, one word per block, write-back (and write-through), LRU;
    instruction cache direct mapped, 2 sets of 2 words.  The third store evicts the dirty block of
    16384, which the first load brings back; [lw x3, 2(x6)] crosses a word boundary. *)
Definition ex_dg : ccfg := {| ibits := 0; bbits := 0; assoc := 2; plru := false |}.
Definition ex_ig : ccfg := {| ibits := 1; bbits := 1; assoc := 1; plru := false |}.
Definition ex_prog : list instr :=
  [ ILui 6 4; II ADDI 1 0 7; IStore SW 6 1 0; II ADDI 1 0 9; IStore SW 6 1 4; IStore SH 6 1 8;
    ILoad LW 2 6 0; ILoad LBU 4 6 4; ILoad LW 3 6 2; II ADDI 5 0 1 ].
Definition ex_st (wt : bool) : st :=
  init_st ex_prog (MCache (dcache_init ex_dg wt 10)) (mk_icache (Some (ex_ig, 5))).

Example ex_cache_ok : forall wt, cache_ok (ex_st wt).
Proof.
  intros wt. apply (cache_ok_init ex_prog ex_dg wt 10 (Some (ex_ig, 5))).
  - unfold cfg_ok, ex_dg. cbn. repeat split; try discriminate.
  - cbn. discriminate.
  - cbn. split; discriminate.
Qed.

(* eight steps: no fault, same registers and memory as the flat run; a dirty block was written back;
   the cycle counters differ (84 with miss penalties against 8) *)
Example ex_agree :
  let r := single_run 8 (ex_st false) in
  let r' := single_run 8 (flatten (ex_st false)) in
  snd r = OutOfFuel /\ snd r' = OutOfFuel /\
  regs (fst r) = [(6, 16384); (1, 9); (2, 7); (4, 9)] /\ regs (fst r') = regs (fst r) /\
  map (fun a => ms_logical (ms (fst r)) a) [16384; 16388; 16392; 16393] = [7; 9; 9; 0] /\
  map (fun a => ms_logical (ms (fst r')) a) [16384; 16388; 16392; 16393] = [7; 9; 9; 0] /\
  ms_lower (ms (fst r)) <> [] /\ cycles (fst r) <> cycles (fst r').
Proof. vm_compute. repeat split; discriminate. Qed.

(* the ninth instruction is rejected by the cache (both write policies) and answered by the flat
   memory, which then terminates normally *)
Example ex_rejection :
  snd (single_run 20 (ex_st false)) = Faulted (mkfault 32 (ILoad LW 3 6 2) (EOffset 2 0)) /\
  snd (single_run 20 (ex_st true)) = Faulted (mkfault 32 (ILoad LW 3 6 2) (EOffset 2 0)) /\
  snd (single_run 20 (flatten (ex_st false))) = Done /\
  rejects (Some (ex_dg, false)) (ILoad LW 3 6 2) (fst (single_run 8 (ex_st false))) = Some (EOffset 2 0).
Proof. vm_compute. repeat split. Qed.

(* an address error: the cache names the block-aligned address (0), the flat memory the address (2);
   [fmap] is exactly this translation *)
Example ex_fmap :
  let p := [ILoad LBU 1 0 2] in
  let s := init_st p (MCache (dcache_init ex_dg false 10)) None in
  snd (single_run 3 s) = Faulted (mkfault 0 (ILoad LBU 1 0 2) (EAddr 0 16384 4294967295 false)) /\
  snd (single_run 3 (flatten s)) = Faulted (mkfault 0 (ILoad LBU 1 0 2) (EAddr 2 16384 4294967295 false)) /\
  fmap (Some (ex_dg, false)) (mkfault 0 (ILoad LBU 1 0 2) (EAddr 2 16384 4294967295 false)) =
    mkfault 0 (ILoad LBU 1 0 2) (EAddr 0 16384 4294967295 false).
Proof. vm_compute. repeat split. Qed.

(** ** 4. One cycle of the five-stage pipeline *)
(* [pflatten p]: the pipeline state with its architectural state flattened, latches and control
   registers kept.  [same_pipe p q]: equal latches, stall and skid registers, hazard flag, stall and
   flush counters, and [same_arch] architectural states.  [pipe_rejects p f]: the slot entering
   the MEM stage in this cycle is a load/store whose address crosses a word boundary; f is the
   record with which the data cache rejects it. *)
Theorem pflatten_meaning : forall p,
  pflatten p = {| pst := flatten (pst p); lat := lat p; stalled := stalled p; saved := saved p;
                  hazards := hazards p |}.
Proof. exact pflatten_meaning_lem. Qed.
Print Assumptions pflatten_meaning.

Theorem same_pipe_meaning : forall p q,
  same_pipe p q <->
  lat p = lat q /\ stalled p = stalled q /\ saved p = saved q /\ hazards p = hazards q /\
  same_arch (pst p) (pst q) /\ stalls (pst p) = stalls (pst q) /\ flushes (pst p) = flushes (pst q).
Proof. exact same_pipe_meaning_lem. Qed.
Print Assumptions same_pipe_meaning.

Theorem pipe_rejects_meaning : forall p f,
  pipe_rejects p f <->
  exists z e, lat_at (regs_for p 3) 2 = Some z /\
    match ms_cfg (ms (pst p)),
          match sl_instr z with
          | ILoad o _ _ _ => match sl_result z with Some a => Some (false, load_bits o, a) | None => None end
          | IStore o _ _ _ => match sl_result z, sl_rd2 z with
                              | Some a, Some _ => Some (true, store_bits o, a) | _, _ => None end
          | _ => None
          end with
    | Some (c, wt), Some (w, nb, a) => if xw nb a then cerr c wt w nb a else None
    | _, _ => None
    end = Some e /\
    f = {| f_addr := sl_addr z; f_instr := sl_instr z; f_err := e |}.
Proof. exact pipe_rejects_meaning_lem. Qed.
Print Assumptions pipe_rejects_meaning.

Theorem xw_meaning : forall nb a, xw nb a = true <-> (a mod 4294967296) mod 4 + nb / 8 > 4.
Proof. exact xw_meaning_lem. Qed.
Print Assumptions xw_meaning.

Theorem cerr_meaning : forall c wt w nb a,
  cerr c wt w nb a =
  let x := a mod 4294967296 in
  if w && wt then
    if x mod 4 + nb / 8 >? 4 then Some (EOffset (x mod 4) (4 - nb / 8))
    else if x <? 16384 then Some (EAddr x 16384 4294967295 false) else None
  else
    if x <? 16384 then Some (EAddr (da_balign (decode_addr (ibits c) (bbits c) a)) 16384 4294967295 false)
    else if x mod 4 + nb / 8 >? 4 then Some (EOffset (x mod 4) (4 - nb / 8)) else None.
Proof. exact cerr_meaning_lem. Qed.
Print Assumptions cerr_meaning.

Theorem pipe_step_lifts : forall p, cache_ok (pst p) ->
  let '(p', of) := pipe_step p in
  let '(q', of') := pipe_step (pflatten p) in
  cache_ok (pst p') /\ ms_cfg (ms (pst p')) = ms_cfg (ms (pst p)) /\
  match of with
  | None => of' = None /\ same_pipe p' q'
  | Some f => (exists ff, of' = Some ff /\ f = fmap (ms_cfg (ms (pst p))) ff /\ same_pipe p' q') \/
              pipe_rejects p f
  end.
Proof. exact pipe_step_lift. Qed.
Print Assumptions pipe_step_lifts.

(** ** 5. Pipeline runs: agreement (final state, outcome, retire trace) up to the first rejection *)
(* [ptrace n p]: addresses found in latch 4 (WB output) after each step, as [pipe_trace] *)
Theorem pipe_run_lifts : forall n p, cache_ok (pst p) ->
  match pipe_run n p with
  | (p', PDone) => exists q', pipe_run n (pflatten p) = (q', PDone) /\ same_pipe p' q' /\
                              cache_ok (pst p') /\ ptrace n (pflatten p) = ptrace n p
  | (p', POutOfFuel) => exists q', pipe_run n (pflatten p) = (q', POutOfFuel) /\ same_pipe p' q' /\
                                   cache_ok (pst p') /\ ptrace n (pflatten p) = ptrace n p
  | (p', PFaulted f) =>
      (exists q' ff, pipe_run n (pflatten p) = (q', PFaulted ff) /\ f = fmap (ms_cfg (ms (pst p))) ff /\
                     same_pipe p' q' /\ ptrace n (pflatten p) = ptrace n p) \/
      (exists k pk qk, (k < n)%nat /\ pipe_run k p = (pk, POutOfFuel) /\
         pipe_run k (pflatten p) = (qk, POutOfFuel) /\ same_pipe pk qk /\ pipe_rejects pk f)
  end.
Proof. exact pipe_run_lift. Qed.
Print Assumptions pipe_run_lifts.

(* cache on / cache off in pipeline mode (hazard detection on or off), from the initial states *)
Theorem program_cache_on_off_pipe : forall n hz p c wt pen ic,
  cfg_ok c -> Z.of_nat (length p) <= 1073741824 ->
  match ic with Some (g, ipen) => 0 <= ibits g /\ 0 <= bbits g | None => True end ->
  let s := init_st p (MCache (dcache_init c wt pen)) (mk_icache ic) in
  let t := init_st p (MFlat []) None in
  match pipe_run n (pipe_init s hz) with
  | (p', PDone) => exists q', pipe_run n (pipe_init t hz) = (q', PDone) /\ same_pipe p' q' /\
                              ptrace n (pipe_init t hz) = ptrace n (pipe_init s hz)
  | (p', POutOfFuel) => exists q', pipe_run n (pipe_init t hz) = (q', POutOfFuel) /\ same_pipe p' q' /\
                                   ptrace n (pipe_init t hz) = ptrace n (pipe_init s hz)
  | (p', PFaulted f) =>
      (exists q' ff, pipe_run n (pipe_init t hz) = (q', PFaulted ff) /\ f = fmap (Some (c, wt)) ff /\
                     same_pipe p' q' /\ ptrace n (pipe_init t hz) = ptrace n (pipe_init s hz)) \/
      (exists k pk qk, (k < n)%nat /\ pipe_run k (pipe_init s hz) = (pk, POutOfFuel) /\
         pipe_run k (pipe_init t hz) = (qk, POutOfFuel) /\ same_pipe pk qk /\ pipe_rejects pk f)
  end.
Proof. exact pipe_run_on_off. Qed.
Print Assumptions program_cache_on_off_pipe.

(* the example program in pipeline mode: 12 cycles without fault agree with the flat pipeline (same
   latches, registers, logical memory, retire trace); the load at 32 is then rejected in MEM *)
Example ex_pipe_agree :
  let r := pipe_run 12 (pipe_init (ex_st false) true) in
  let r' := pipe_run 12 (pipe_init (flatten (ex_st false)) true) in
  snd r = POutOfFuel /\ snd r' = POutOfFuel /\ lat (fst r) = lat (fst r') /\
  regs (pst (fst r)) = regs (pst (fst r')) /\ regs (pst (fst r)) <> [] /\
  ptrace 12 (pipe_init (ex_st false) true) = ptrace 12 (pipe_init (flatten (ex_st false)) true) /\
  ptrace 12 (pipe_init (ex_st false) true) <> [].
Proof. vm_compute. repeat split; discriminate. Qed.

Example ex_pipe_rejection :
  snd (pipe_run 40 (pipe_init (ex_st false) true)) = PFaulted (mkfault 32 (ILoad LW 3 6 2) (EOffset 2 0)) /\
  snd (pipe_run 40 (pipe_init (ex_st true) true)) = PFaulted (mkfault 32 (ILoad LW 3 6 2) (EOffset 2 0)) /\
  snd (pipe_run 40 (pipe_init (flatten (ex_st false)) true)) = PDone.
Proof. vm_compute. repeat split. Qed.
