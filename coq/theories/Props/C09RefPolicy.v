(* Props/C09RefPolicy.v — properties C09 / C11, spec independence.  Only statements; every proof
   is [exact <lemma>] into Proofs/IndepRefPolicy.v, Proofs/IndepRefCacheSim.v.

   Props/C09.v and Props/C11.v compare the model's caches with the reference of Spec/RefCache.v,
   which runs the MODEL's replacement policy functions [pol_init]/[pol_access]/[pol_victim];
   Props/C10.v proves those functions against the specification of Spec/Policy.v separately.
   Here the two are composed.  The reference [s_step] / [s_run] (Proofs/IndepRefPolicy.v, first
   half: definitions only) is a tags-only set-associative cache that
     - restates the address split itself ([s_idx], [s_tag]: plain div / mod),
     - keeps per set the list of tags and a SPECIFICATION policy state [spol]:
         SLRU n h     the history h of accessed ways; victim = the way that is [older]
                      (Spec/Policy.v: never accessed first, by index; else oldest last access)
                      than every other way ([lru_victim], adequacy: [lru_victim_is_oldest]);
         SPLRU d t    the tree of direction bits with [tree_victim] / [tree_access],
     - never calls a function of Model/Cache.v.
   RESULT: along every accepted history from the initial state the model's data cache produces
   the hit counter, access counter, last-hit flag and per-operation penalty of that reference
   ([dcache_matches_spec_reference], both write policies, LRU and PLRU), and so does the
   instruction cache along every fetch history ([icache_matches_spec_reference]); [policy_refines]
   is the link: the model's policy state refines the specification state, with equal victims. *)
From ArchSim Require Import Model.Base Model.Mem Model.Cache Model.RV Spec.Policy Spec.RefCache
  Proofs.C09Proofs Proofs.IndepRefPolicy Proofs.IndepRefCacheSim.
Open Scope Z_scope.

(** ** The model's caches against the specification-policy reference *)
Theorem dcache_matches_spec_reference : forall g wt pen m os, RefCache.geom_ok g ->
  all_accepted (dc_start g wt pen m) os ->
  map flat4 (dc_run (dc_start g wt pen m) os) =
  s_run (sg_of g) wt pen (scache_init (sg_of g)) (map sacc_of_dop os).
Proof. exact dcache_matches_spec_reference_lem. Qed.
Print Assumptions dcache_matches_spec_reference.

Theorem icache_matches_spec_reference : forall g pen p addrs, RefCache.geom_ok g ->
  let im := {| prog := p; icc := Some (icache_init g pen) |} in
  let ref := s_run (sg_of g) false pen (scache_init (sg_of g)) (map (fun a => SRead a true) addrs) in
  map (fun k => (c_hits k, c_accesses k, c_lasthit k)) (im_counters im addrs) = map (fun x => fst x) ref /\
  map snd (im_run im addrs) = map (fun x => snd x) ref.
Proof. exact icache_matches_spec_reference_lem. Qed.
Print Assumptions icache_matches_spec_reference.

(* the two references step together from related states (any geometry, policy, write policy) *)
Theorem references_step_together : forall g, RefCache.geom_ok g -> forall wt pen r sr x, RelC g r sr ->
  RelC g (fst (ref_step g wt pen r x)) (fst (s_step (sg_of g) wt pen sr (sacc_of x))) /\
  snd (ref_step g wt pen r x) = snd (s_step (sg_of g) wt pen sr (sacc_of x)).
Proof. exact step_sim. Qed.
Print Assumptions references_step_together.

Theorem references_related_initially : forall g, RefCache.geom_ok g ->
  RelC g (rcache_init g) (scache_init (sg_of g)).
Proof. exact init_rel. Qed.
Print Assumptions references_related_initially.

(** ** The link: model policy state vs specification state *)
Theorem policy_refines : forall n p sp, 1 <= n -> Rpol n p sp ->
  (pol_victim p = spol_victim sp /\ 0 <= pol_victim p < n) /\
  (forall k, 0 <= k < n -> Rpol n (pol_access p k) (spol_access sp k)).
Proof. exact Rpol_refines. Qed.
Print Assumptions policy_refines.

Theorem policy_refines_initially : forall plru n, 1 <= n ->
  (plru = true -> exists k : nat, n = 2 ^ Z.of_nat k) -> Rpol n (pol_init plru n) (spol_init plru n).
Proof. exact Rpol_init. Qed.
Print Assumptions policy_refines_initially.

(* adequacy of the computable LRU victim of the reference (no model function in the statement) *)
Theorem lru_victim_is_oldest : forall n h, 1 <= n -> in_range n h ->
  is_victim n h (lru_victim n h) /\ forall v, is_victim n h v -> v = lru_victim n h.
Proof. exact lru_victim_oldest. Qed.
Print Assumptions lru_victim_is_oldest.

(** ** Non-vacuity: the histories of Props/C09.v, run on the specification-policy reference *)
Definition rp_g22 : ccfg := {| ibits := 1; bbits := 0; assoc := 2; plru := false |}.
Definition rp_hist : list dop :=
  [DWrite 32 16384 99 false; DRead 32 16392 true; DRead 32 16384 true; DRead 32 16400 true;
   DRead 32 16392 true; DRead 32 16384 false; DWrite 8 16385 5 true; DRead 16 16386 true].
Example rp_lru :
  s_run (sg_of rp_g22) false 7 (scache_init (sg_of rp_g22)) (map sacc_of_dop rp_hist) =
    [(0, 1, false, 7); (0, 2, false, 7); (1, 3, true, 0); (1, 4, false, 7); (1, 5, false, 7);
     (1, 5, false, 0); (1, 5, false, 0); (2, 6, true, 0)] /\
  map flat4 (dc_run (dc_start rp_g22 false 7 []) rp_hist) =
    s_run (sg_of rp_g22) false 7 (scache_init (sg_of rp_g22)) (map sacc_of_dop rp_hist) /\
  map flat4 (dc_run (dc_start rp_g22 true 7 []) rp_hist) =
    s_run (sg_of rp_g22) true 7 (scache_init (sg_of rp_g22)) (map sacc_of_dop rp_hist).
Proof. vm_compute. repeat split; reflexivity. Qed.

(* PLRU, 4 ways, one set: five distinct blocks force evictions chosen by the tree *)
Definition rp_g14 : ccfg := {| ibits := 0; bbits := 1; assoc := 4; plru := true |}.
Definition rp_hist4 : list dop :=
  [DRead 32 16384 true; DRead 32 16392 true; DRead 32 16388 true; DRead 32 16400 true;
   DRead 32 16408 true; DRead 32 16416 true; DRead 32 16392 true; DRead 32 16384 true].
Example rp_plru :
  map flat4 (dc_run (dc_start rp_g14 false 3 []) rp_hist4) =
    s_run (sg_of rp_g14) false 3 (scache_init (sg_of rp_g14)) (map sacc_of_dop rp_hist4) /\
  map (fun x => fst x) (s_run (sg_of rp_g14) false 3 (scache_init (sg_of rp_g14)) (map sacc_of_dop rp_hist4)) =
    [(0, 1, false); (0, 2, false); (1, 3, true); (1, 4, false); (1, 5, false); (1, 6, false);
     (1, 7, false); (1, 8, false)] /\
  spol_init true 4 = SPLRU 2 (Node false (Node false Leaf Leaf) (Node false Leaf Leaf)) /\
  lru_victim 4 [2; 0; 2; 3] = 1.
Proof. vm_compute. repeat split; reflexivity. Qed.
