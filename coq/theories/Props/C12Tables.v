(* Props/C12Tables.v — property C12, read on the DISPLAYED memory table (the word table
   [mem_repr rv_memcfg (ms_lower (ms s)) 32] that [rv_tables] serialises; for a cached memory
   system [ms_lower (MCache d) = lower d], the backing store).  Only statements; every proof is
   [exact <lemma>] into Proofs/IndepTablesCache.v.

   [le_wordf g a]   the little-endian word of the byte function g at a
   [logical d]      the logical memory contents of the cached system (Props/C03.v / C12.v)
   "the memory table is current under write-through" ([wt_memory_table_current]): for every
   write-through state in the cache invariant, every row (a, v) shows the LOGICAL word at a, and
   every word that contains a non-zero logical byte has a row — the table is the logical memory.
   Under write-back (in fact under both policies, [memory_table_row]) a row always shows the
   backing word, and that is the logical word whenever the block of a is not resident
   ([cache_contains ... = false], equal for the four bytes of the word: [word_in_one_block]).
   The simulator marks every filled block dirty (Props/C12.v, [valid_blocks_dirty]), so there are
   no clean resident blocks: "non-resident" is exactly where the table is guaranteed current, and a
   resident word may lag ([ex_table_lags]).  A word whose logical bytes live only in the cache
   (never written back) has no row at all under write-back. *)
From Coq Require Import Sorted.
From ArchSim Require Import Model.Base Model.Mem Model.Cache Model.Fmt Model.RV Model.Single
  Spec.Numerals Proofs.C17Proofs Proofs.CacheArith Proofs.CacheInv Proofs.C03Proofs Proofs.C12Proofs
  Proofs.IndepTables Proofs.IndepTablesCache.
Open Scope Z_scope.

Theorem ms_lower_cached : forall d, ms_lower (MCache d) = lower d.
Proof. exact (fun d => eq_refl). Qed.
Print Assumptions ms_lower_cached.

(** ** write-through: the table is the logical memory *)
Theorem wt_memory_table_current : forall d rows,
  CInv d -> wthrough d = true -> keys_in_range rv_memcfg (lower d) ->
  mem_repr rv_memcfg (lower d) 32 = Ok rows ->
  StronglySorted Z.lt (map fst rows) /\
  (forall a v, In (a, v) rows -> a mod 4 = 0 /\ 16384 <= a /\ a + 3 < 4294967296 /\
     v = le_wordf (logical d) a /\ row_denotes 32 (n_bit_repr 32 v) v) /\
  (forall x, 0 <= x < 4294967296 -> logical d x <> 0 -> In (x - x mod 4) (map fst rows)).
Proof. exact wt_table_current. Qed.
Print Assumptions wt_memory_table_current.

(** ** both policies: a row is the backing word; it is the logical word when not resident *)
Theorem memory_table_row : forall d f rows a v,
  CInv d -> Flat f d -> keys_in_range rv_memcfg (lower d) ->
  mem_repr rv_memcfg (lower d) 32 = Ok rows -> In (a, v) rows ->
  v = le_word (lower d) a /\
  (cache_contains (dc d) (cdecode (dc d) a) = false -> v = le_word f a /\ v = le_wordf (logical d) a).
Proof. exact table_row_nonresident. Qed.
Print Assumptions memory_table_row.

Theorem word_in_one_block : forall d a j, SInv d -> 0 <= a < 4294967296 -> a mod 4 = 0 -> 0 <= j < 4 ->
  cache_contains (dc d) (cdecode (dc d) (a + j)) = cache_contains (dc d) (cdecode (dc d) a).
Proof. exact contains_same_word. Qed.
Print Assumptions word_in_one_block.

(** ** Non-vacuity: the history of Props/C12.v (2 sets, 2 words per block, 2 ways) *)
Definition tb_cfg : ccfg := {| ibits := 1; bbits := 1; assoc := 2; plru := false |}.
Definition tb_ops : list op :=
  [ OWrite 32 16384 3735928559; OWrite 8 16401 127; ORead 16 16384 true;
    OWrite 16 16418 4660; ORead 32 16384 true; ORead 8 16401 false ].
Definition tb_state (wt : bool) : dcache :=
  snd (run cache_step (upd_lower (dcache_init tb_cfg wt 3) [(16402, 17); (16403, 34)]) tb_ops).

(* write-through: every row is the logical word *)
Example ex_table_current :
  mem_repr rv_memcfg (lower (tb_state true)) 32 =
    Ok [(16384, 3735928559); (16400, 571571968); (16416, 305397760)] /\
  map (le_wordf (logical (tb_state true))) [16384; 16400; 16416] = [3735928559; 571571968; 305397760].
Proof. vm_compute. repeat split; reflexivity. Qed.

(* write-back: the word written first is still only in the cache: it has NO row; the word at 16400
   is resident (row current here because it was written back and not modified since); the evicted
   block at 16416 (two words, written back whole) is not resident and current *)
Example ex_table_lags :
  let d := tb_state false in
  mem_repr rv_memcfg (lower d) 32 = Ok [(16400, 571571968); (16404, 0); (16416, 305397760); (16420, 0)] /\
  le_wordf (logical d) 16384 = 3735928559 /\
  cache_contains (dc d) (cdecode (dc d) 16384) = true /\
  cache_contains (dc d) (cdecode (dc d) 16416) = false /\
  le_wordf (logical d) 16416 = 305397760.
Proof. vm_compute. repeat split; reflexivity. Qed.
