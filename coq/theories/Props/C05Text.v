(* C05Text.v — property C05 FROM SOURCE TEXT: LexText.rv_load_program_text (str.splitlines, sanitising, the pyparsing
   grammar of Model/Lex.v, the assembler of Model/Asm.v) followed by Single.single_run (single-cycle mode).
   Vocabulary:
     start_ok s      registers well-formed (32-bit values, x0 = 0), pc 0, not exited, no instruction cache
     one_line text   the text contains no separator of str.splitlines()
     is_li mn        ASCII letters spelling "li" in any case
     reg_sp r sp     sp is an ABI name of register r (abi_table: incl. fp for 8) or "x" followed by the decimal r
     lit_ok lit      optional '-', then 0x<hex digits> | 0b<bits> | <decimal digits>  (the grammar's immediate)
     py_int0 lit = Some c   Python's int(lit, 0) accepts the literal and gives c  (Props/C05.v literal_value_*:
                     which literals are accepted — no leading zeros in decimal, at most 4300 digits — and their values)
     all_space / is_comment / blanks   as in Props/C04Lex.v (indentation and trailing blanks: any str.isspace()
                     characters; blanks between tokens: space, tab)
   The by-name theorems are stated for an ARBITRARY data segment, through its token lines D: the hypotheses are the
   result of the text pipeline on the text (lex_text (rv_lines text) = ...; for a concrete text: by computation, see the
   examples) and of the data pass (write_data D ... = POk (MFlat m', vars)), whose documented meaning (placement, byte
   images, alignment) is given by Props/C05.v: layout, layout_table, decl_bytes, elem_address. *)
From Coq Require Import String.
From Coq Require Import ZArith List Bool.
From ArchSim Require Import Model.Base Model.Mem Model.Cache Model.Fmt Model.RV Model.Single Model.Toy Model.Asm.
From ArchSim Require Model.ToyLex.
From ArchSim Require Import Model.Lex Model.LexText Proofs.C01Step Proofs.C05Proofs Proofs.LexProofs1 Proofs.LexProofs2
  Proofs.LexErr3 Proofs.LexText1 Proofs.TextE2E1 Proofs.TextE2E2 Proofs.TextE2E3 Proofs.TextE2E4.
Import ListNotations.
Open Scope Z_scope.

(** (1) li: the one-line text  <indent> li <blanks> reg <blanks> , <blanks> literal <blanks> [# comment]  with "li" in
    any case, the register in either spelling, any accepted literal: after loading and running, the register holds
    c mod 2^32, every other register is unchanged; one instruction if -2048 <= c <= 2047, else two *)
Theorem li_text_correct : forall s ind mn ws1 sp ws2 ws3 lit trail cmt r c n,
  all_space ind = true -> all_space trail = true -> is_comment cmt = true ->
  is_li mn -> blanks ws1 = true -> ws1 <> [] -> blanks ws2 = true -> blanks ws3 = true ->
  0 < r < 32 -> reg_sp r sp -> lit_ok lit -> py_int0 lit = Some c ->
  let text := ind ++ (mn ++ ws1 ++ sp ++ ws2 ++ 44 :: ws3 ++ lit) ++ trail ++ cmt in
  one_line text -> start_ok s -> (2 <= n)%nat ->
  exists s1 img, rv_load_program_text s text = (s1, None, Some img) /\
    snd (single_run n s1) = Done /\
    rget (fst (single_run n s1)) r = c mod 2 ^ 32 /\
    (forall k, k <> r -> rget (fst (single_run n s1)) k = rget s k) /\
    List.length (i_instrs img) = (if (-2048 <=? c) && (c <=? 2047) then 1%nat else 2%nat).
Proof. exact li_text_lem. Qed.

(* the same for ANY one-line text whose line lexes to an li token record (all layouts the grammar accepts) *)
Theorem li_text_correct_lexed : forall s text l rt lit r c n,
  rv_lines text = [l] -> lex_line l = LexOk (NInstr None (NIns (tok_rd_imm MN_LI rt lit))) ->
  reg_num rt = Some r -> 0 < r < 32 -> py_int0 lit = Some c ->
  wf_regs (regs s) -> pc s = 0 -> exitc s = None -> icc (im s) = None -> (2 <= n)%nat ->
  exists s1 img, rv_load_program_text s text = (s1, None, Some img) /\
    snd (single_run n s1) = Done /\
    rget (fst (single_run n s1)) r = c mod 2 ^ 32 /\
    (forall k, k <> r -> rget (fst (single_run n s1)) k = rget s k) /\
    List.length (i_instrs img) = (if (-2048 <=? c) && (c <=? 2047) then 1%nat else 2%nat).
Proof. exact li_run. Qed.
(* the source lines of li_text_correct lex to that record *)
Theorem li_line_lexes : forall ind mn ws1 sp ws2 ws3 lit trail cmt r,
  all_space ind = true -> all_space trail = true -> is_comment cmt = true ->
  is_li mn -> blanks ws1 = true -> ws1 <> [] -> blanks ws2 = true -> blanks ws3 = true ->
  0 <= r < 32 -> reg_sp r sp -> lit_ok lit ->
  exists rt, reg_num rt = Some r /\
    lex_line (ind ++ (mn ++ ws1 ++ sp ++ ws2 ++ 44 :: ws3 ++ lit) ++ trail ++ cmt) =
    LexOk (NInstr None (NIns (tok_rd_imm MN_LI rt lit))).
Proof. exact lex_line_li. Qed.

(** (2) a text that lexes to  .data, declarations D (any of the five kinds, any number), .text, one by-name line;
    var_address vars (name, idx) ln = POk target is the documented address (Props/C05.v elem_address:
    start of name + element size * index) *)
Theorem la_text_correct : forall s text a b ln D i m0 m' vars nm idx rt r target,
  lex_text (rv_lines text) = LTOk ((a, RDirective 1) :: D ++ [(b, RDirective 0); (ln, RInstr None (BIns i))]) ->
  Forall plain_rline D -> ~ In b (map fst D) -> ms s = MFlat m0 ->
  write_data D (MFlat []) 16384 [] = POk (MFlat m', vars) ->
  k_var i = Some (nm, idx) -> k_reg1 i = Some rt -> reg_num rt = Some r -> 0 < r < 32 ->
  var_address vars (nm, idx) ln = POk target -> start_ok s ->
  forall n, k_mn i = MN_LA -> (2 <= n)%nat ->
  exists s1 img, rv_load_program_text s text = (s1, None, Some img) /\ i_vars img = vars /\
    snd (single_run n s1) = Done /\
    rget (fst (single_run n s1)) r = target mod 2 ^ 32 /\
    (forall k, k <> r -> rget (fst (single_run n s1)) k = rget s k) /\
    ms (fst (single_run n s1)) = MFlat m'.
Proof. exact la_text. Qed.

(* lb / lh / lw / lbu / lhu rd, name[i]: rd receives the (extended) content of the data memory at the documented
   address; [mem_read rv_memcfg m' bits a = Ok w]: the little-endian value of the cells a, a+1, ... of m' *)
Theorem elem_text_correct : forall s text a b ln D i m0 m' vars nm idx rt r target,
  lex_text (rv_lines text) = LTOk ((a, RDirective 1) :: D ++ [(b, RDirective 0); (ln, RInstr None (BIns i))]) ->
  Forall plain_rline D -> ~ In b (map fst D) -> ms s = MFlat m0 ->
  write_data D (MFlat []) 16384 [] = POk (MFlat m', vars) ->
  k_var i = Some (nm, idx) -> k_reg1 i = Some rt -> reg_num rt = Some r -> 0 < r < 32 ->
  var_address vars (nm, idx) ln = POk target -> start_ok s ->
  forall n w, 27 <= k_mn i <= 31 -> (3 <= n)%nat ->
  mem_read rv_memcfg m' (load_bits (lop_of_mn (k_mn i))) (U32 target) = Ok w ->
  exists s1 img, rv_load_program_text s text = (s1, None, Some img) /\ i_vars img = vars /\
    snd (single_run n s1) = Done /\
    rget (fst (single_run n s1)) r = load_ext (lop_of_mn (k_mn i)) w /\
    (forall k, k <> r -> rget (fst (single_run n s1)) k = rget s k).
Proof. exact load_text. Qed.

(** (3) the help page's data-segment example AS TEXT (RiscvHelp.vue), loaded over an earlier program and run *)
Theorem help_example_from_text :
  match rv_load_program_text st1 help_text with
  | (s1, None, Some img) =>
      let r := single_run 100 s1 in
      snd r = Done /\
      map (rget (fst r)) [1; 2; 3; 4; 5; 6] = [16384 + 256; 4660; 4660; 999; 7; 33] /\
      i_vars img = [(1, (16384, 4)); (2, (16640, 1)); (3, (16644, 2)); (4, (16652, 4)); (5, (16660, 1))] /\
      List.length (i_instrs img) = 17%nat
  | _ => False
  end.
Proof. exact ex_help. Qed.

(** non-vacuity of (1) and (2) *)
Theorem li_text_instance : exists s1 img,
  rv_load_program_text st1 (S "  " ++ (S "LI" ++ S "  " ++ S "t0" ++ S " " ++ 44 :: [9] ++ S "-0x12345") ++ S " " ++ S "# c") = (s1, None, Some img) /\
  snd (single_run 5 s1) = Done /\
  rget (fst (single_run 5 s1)) 5 = (-74565) mod 2 ^ 32 /\
  (forall k, k <> 5 -> rget (fst (single_run 5 s1)) k = rget st1 k) /\
  List.length (i_instrs img) = 2%nat.
Proof. exact ex_li_instance. Qed.
Theorem li_text_values :
  map (fun t => rget (fst (single_run 5 (fst (fst (rv_load_program_text st0 (S t))))) ) 7)
    [ "li x7, 2047"; "li t2, -2049"; "LI x7,0xFFFFFFFF"; "li x7, -0b1"; "li x7, 4294967301"; "Li t2 , 0x12345" ]%string =
  [2047; 4294965247; 4294967295; 4294967295; 5; 74565].
Proof. exact ex_li_values. Qed.
Theorem elem_text_instance : exists s1 img,
  rv_load_program_text st1 (text_of (data_lines ++ ["lw x5, my_var3[1]"%string])) = (s1, None, Some img) /\
  i_vars img = data_vars /\ snd (single_run 3 s1) = Done /\
  rget (fst (single_run 3 s1)) 5 = 7 /\ (forall k, k <> 5 -> rget (fst (single_run 3 s1)) k = rget st1 k).
Proof. exact ex_load_instance. Qed.
Theorem la_text_instance : exists s1 img,
  rv_load_program_text st1 (text_of (data_lines ++ ["LA a0, text1[12]"%string])) = (s1, None, Some img) /\
  i_vars img = data_vars /\ snd (single_run 2 s1) = Done /\
  rget (fst (single_run 2 s1)) 10 = 16672 mod 2 ^ 32 /\ (forall k, k <> 10 -> rget (fst (single_run 2 s1)) k = rget st1 k) /\
  ms (fst (single_run 2 s1)) = MFlat data_mem.
Proof. exact ex_la_instance. Qed.

Print Assumptions li_text_correct.
Print Assumptions li_text_correct_lexed.
Print Assumptions li_line_lexes.
Print Assumptions la_text_correct.
Print Assumptions elem_text_correct.
Print Assumptions help_example_from_text.
Print Assumptions li_text_instance.
Print Assumptions li_text_values.
Print Assumptions elem_text_instance.
Print Assumptions la_text_instance.
