(* Props/C06.v — property C06: running any TOY program from any initial memory matches the
   documented machine (Spec/ToyRef.v): 4096 sixteen-bit words of unified memory, a 16-bit wrapping
   accumulator, a 12-bit wrapping program counter, the thirteen opcodes, BRZ taken exactly when the
   accumulator is zero; instructions are fetched when executed (self-modifying code); execution
   stops exactly when the pc passes the last assembled instruction; two cycles and one count per
   executed instruction.
   Only statements; every proof is [exact <lemma>] into Proofs/C06Proofs.v.

   [TInv m s]  (Proofs/C06Proofs.v) is the instruction-boundary invariant: size 4096, max_pc = m,
   -1 <= m <= 4095, pc/accu/memory cells in range, next_cycle = 1 and the instruction register
   holds the decoding of the word at (pc - 1) mod 4096 (or nothing when that address is > m).
   [tabs s] forgets the instruction register and un-increments the pc. *)
From Coq Require Import String.
From ArchSim Require Import Model.Base Model.Mem Model.Fmt Model.Toy Spec.ToyRef Proofs.C06Proofs.
Open Scope Z_scope.

(* one step() = one reference step; never an error; the invariant is kept.  When s is done this
   is the no-op case (see toy_step_when_done).  Model: execute the loaded instruction, then fetch
   the next one; reference: fetch, then execute. *)
Theorem toy_step_refines : forall m s s' o, TInv m s -> toy_step s = (s', o) ->
  o = TNone /\ TInv m s' /\ tabs s' = ref_step m (tabs s).
Proof. exact toy_step_refines_lemma. Qed.
Print Assumptions toy_step_refines.

Theorem toy_step_when_done : forall m s, TInv m s -> toy_done s = true ->
  toy_step s = (s, TNone) /\ ref_step m (tabs s) = tabs s.
Proof. exact toy_step_done_both. Qed.
Print Assumptions toy_step_when_done.

(* runs of every length; run() with fuel n is n step()s, its "finished" flag is the reference's
   halted predicate, and once a done state is reached more fuel changes nothing *)
Theorem toy_run_eq_ref : forall m s n, TInv m s ->
  TInv m (toy_steps n s) /\
  tabs (toy_steps n s) = ref_run n m (tabs s) /\
  toy_run n s = (toy_steps n s, TNone, ref_halted m (ref_run n m (tabs s))) /\
  (toy_done (toy_steps n s) = true ->
   forall n', (n <= n')%nat -> toy_run n' s = (toy_steps n s, TNone, true)).
Proof. exact toy_run_eq_ref_lemma. Qed.
Print Assumptions toy_run_eq_ref.

(* is_done() exactly when the program counter has passed the last assembled instruction *)
Theorem toy_done_iff_halted : forall m s, TInv m s -> toy_done s = ref_halted m (tabs s).
Proof. exact halted_of_done. Qed.
Print Assumptions toy_done_iff_halted.

(* every executed instruction costs two cycles and counts once *)
Theorem toy_step_costs : forall m s, TInv m s -> toy_done s = false ->
  t_cycles (fst (toy_step s)) = t_cycles s + 2 /\ t_icount (fst (toy_step s)) = t_icount s + 1.
Proof. exact toy_step_costs_lemma. Qed.
Print Assumptions toy_step_costs.

Theorem toy_cycles : forall m s n, TInv m s -> t_cycles s = 2 * t_icount s ->
  t_cycles (toy_steps n s) = 2 * t_icount (toy_steps n s).
Proof. exact toy_cycles_lemma. Qed.
Print Assumptions toy_cycles.

Theorem toy_icount_eq_ref : forall m s n, TInv m s ->
  t_icount (toy_steps n s) = r_count (ref_run n m (tabs s)).
Proof. exact toy_icount_lemma. Qed.
Print Assumptions toy_icount_eq_ref.

(* BRZ (opcode 2 in the fetched word [cur_word s]): taken exactly when the accumulator is zero *)
Theorem brz_taken_iff_zero : forall m s, TInv m s -> toy_done s = false ->
  cur_word s / 4096 = 2 ->
  let s' := fst (toy_step s) in
  (t_accu s = 0 -> r_pc (tabs s') = cur_word s mod 4096 /\ t_bcount s' = t_bcount s + 1) /\
  (t_accu s <> 0 -> r_pc (tabs s') = next_pc (r_pc (tabs s)) /\ t_bcount s' = t_bcount s) /\
  (t_bcount s' = t_bcount s + 1 <-> t_accu s = 0) /\
  t_accu s' = t_accu s /\ t_mem s' = t_mem s.
Proof. exact brz_lemma. Qed.
Print Assumptions brz_taken_iff_zero.

(* the 12-bit pc wraps: after the instruction at 4095 (not a taken branch) the next fetch is at 0 *)
Theorem pc_wraps : forall m s, TInv m s -> toy_done s = false -> r_pc (tabs s) = 4095 ->
  (cur_word s / 4096 <> 2 \/ t_accu s <> 0) ->
  r_pc (tabs (fst (toy_step s))) = 0 /\ t_pc (fst (toy_step s)) = 1.
Proof. exact pc_wraps_lemma. Qed.
Print Assumptions pc_wraps.

(* words with opcodes 12..15 are all loaded as NOP and only advance pc and the counter *)
Theorem opcode_alias : forall m s, TInv m s -> toy_done s = false -> 12 <= cur_word s / 4096 ->
  t_loaded s = Some {| top := 12; taddr := cur_word s mod 4096 |} /\
  tabs (fst (toy_step s)) =
    {| r_acc := t_accu s; r_pc := next_pc (r_pc (tabs s)); r_mem := t_mem s;
       r_count := t_icount s + 1; r_branches := t_bcount s |}.
Proof. exact opcode_alias_lemma. Qed.
Print Assumptions opcode_alias.

(** Non-vacuity *)
(* image 0: STO 1, 1: INC, accumulator 0xA000 (the word for DEC); satisfies the invariant *)
Example tinv_example : TInv 1 selfmod_state.
Proof. exact selfmod_state_inv. Qed.
Print Assumptions tinv_example.

(* it is the state load_program produces for that source, with the accumulator set *)
Example tinv_example_is_loaded :
  toy_load (toy_init 4096 1 false)
    [(1, TLInstr None 0 (TAddrLit (codes "0x001"))); (2, TLInstr None 9 TNoOperand)]
  = ({| t_pc := 1; t_accu := 0; t_mem := t_mem selfmod_state; t_size := 4096;
        t_loaded := t_loaded selfmod_state; t_maxpc := Some 1; t_cur := None; t_next := 0;
        t_vis := {| v_accu_old := None; v_alu_out := None; v_jump := false; v_ram_out := Some 1;
                    v_op_old := None; v_pc_old := Some 0 |};
        t_icount := 0; t_cycles := 0; t_bcount := 0; t_nextcycle := 1; t_started := false |}, None).
Proof. vm_compute. reflexivity. Qed.

(* the store into the NEXT instruction's cell changes what executes next: DEC runs, not INC
   (0xA000 - 1 = 0x9FFF = 40959; with the unmodified INC it would be 0xA001), and the model
   agrees with the reference run *)
Example selfmod_example :
  t_accu (toy_steps 2 selfmod_state) = 40959 /\
  mget (t_mem (toy_steps 2 selfmod_state)) 1 = 40960 /\
  toy_done (toy_steps 2 selfmod_state) = true /\
  t_icount (toy_steps 2 selfmod_state) = 2 /\ t_cycles (toy_steps 2 selfmod_state) = 4 /\
  tabs (toy_steps 2 selfmod_state) = ref_run 2 1 (tabs selfmod_state) /\
  r_acc (ref_run 2 1 (tabs selfmod_state)) = 40959.
Proof. vm_compute. repeat split; reflexivity. Qed.

(* pc wrap is reachable: a 4096-instruction image, about to execute address 4095 (STO 0) *)
Definition wrap_state : tstate :=
  {| t_pc := 0; t_accu := 7; t_mem := []; t_size := 4096;
     t_loaded := Some (toy_decode 0); t_maxpc := Some 4095;
     t_cur := None; t_next := 0; t_vis := vis0; t_icount := 0; t_cycles := 0; t_bcount := 0;
     t_nextcycle := 1; t_started := false |}.
Example pc_wraps_example :
  r_pc (tabs wrap_state) = 4095 /\ toy_done wrap_state = false /\
  t_pc (fst (toy_step wrap_state)) = 1 /\ r_pc (tabs (fst (toy_step wrap_state))) = 0 /\
  mget (t_mem (fst (toy_step wrap_state))) 0 = 7.
Proof. vm_compute. repeat split; reflexivity. Qed.

(* BRZ both ways: image 0: BRZ 0x005, accumulator 0 resp. 3 *)
Definition brz_state (acc : Z) : tstate :=
  {| t_pc := 1; t_accu := acc; t_mem := [(0, 8197)]; t_size := 4096;
     t_loaded := Some (toy_decode 8197); t_maxpc := Some 9;
     t_cur := None; t_next := 0; t_vis := vis0; t_icount := 0; t_cycles := 0; t_bcount := 0;
     t_nextcycle := 1; t_started := false |}.
Example brz_example :
  r_pc (tabs (fst (toy_step (brz_state 0)))) = 5 /\ t_bcount (fst (toy_step (brz_state 0))) = 1 /\
  r_pc (tabs (fst (toy_step (brz_state 3)))) = 1 /\ t_bcount (fst (toy_step (brz_state 3))) = 0.
Proof. vm_compute. repeat split; reflexivity. Qed.
