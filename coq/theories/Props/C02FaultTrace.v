(* Props/C02FaultTrace.v — property C02, the Faulted branch of [pipe_refines_single]
   (Props/C02Refine.v) completed: the retire order and the retire counter of a pipeline run that
   ends in a fault.  Only statements; proofs in Proofs/SchedPrefixTrace.v (on top of the prefix form
   of the timing theorem, Props/C07SchedPrefix.v).

   Scope as in Props/C02Refine.v (hazard detection on, flat memory, no instruction cache, [wf]
   initial state, empty pipeline, supported instructions).  Let the single-cycle run fault with
   record f at its (N+1)-th instruction, having executed the N instructions [single_trace n s].
   Then every pipeline run that reaches the fault (any fuel) reports the same record f and
     * its retire counter reads icount s + N: ALL N executed instructions have passed WB when the
       fault is raised (WB runs before MEM and EX within a cycle); the single-cycle machine has
       counted the faulting instruction as well, hence  icount(pipeline) + 1 = icount(single-cycle)
       — always, not only in the audited witness;
     * [pipe_trace] — the addresses found in the WB output after the steps that did not fault — is
       [single_trace n s] without its last element exactly when [fault_b2b n s]: the faulting
       instruction is a load / store that executes in the cycle right after its predecessor (no
       redirect, no interlock, no drain in between), so that the predecessor writes back in the
       very cycle in which MEM raises; otherwise it is all of [single_trace n s].  (An ecall raises
       in EX only after everything older has left WB.)  No other instruction is ever missing: the
       last but one has always retired.
   [fault_b2b n s] (Proofs/SchedPrefixTrace.v): with e the event of the faulting instruction and
   ws = schedule (single_events n s ++ [e]):  not ecall e  and  N > 0  and  ws[N] = ws[N-1] + 1. *)
From ArchSim Require Import Model.Base Model.Mem Model.Cache Model.Fmt Model.RV Model.Single
  Model.RVSplit Model.Pipe Proofs.C01Step Proofs.SplitExec Proofs.PipeLaws Proofs.PipeInv
  Proofs.SchedDefs Proofs.SchedCor Proofs.SchedPrefixMain Proofs.SchedPrefixTrace.
Open Scope Z_scope.

Theorem pipe_faulted_trace : forall P s n s' f,
  Forall (fun i => supported i = true) P -> wf s -> prog (im s) = P ->
  single_run n s = (s', Faulted f) ->
  forall c p g, pipe_run c (pipe_init s true) = (p, PFaulted g) ->
    g = f /\
    pipe_trace c (pipe_init s true) =
      firstn (length (single_trace n s) - (if fault_b2b n s then 1 else 0)) (single_trace n s) /\
    icount (pst p) + 1 = icount s' /\
    icount (pst p) = icount s + Z.of_nat (length (single_trace n s)).
Proof. exact pipe_faulted_trace_lem. Qed.
Print Assumptions pipe_faulted_trace.

(** ** Non-vacuity: the three situations *)
(* the faulting load directly behind the store: the store is missing from the trace, not from the
   retire counter *)
Definition c02f_b2b : list instr :=
  [ILui 6 16; II ADDI 1 0 5; IStore SW 6 1 0; ILoad LW 2 0 0; II ADDI 3 0 1].
Example c02f_b2b_runs :
  let s := init_st c02f_b2b (MFlat []) None in
  let r := pipe_run 40 (pipe_init s true) in
  wf s /\ snd (single_run 40 s) = Faulted {| f_addr := 12; f_instr := ILoad LW 2 0 0; f_err := EAddr 0 16384 4294967295 false |} /\
  snd r = PFaulted {| f_addr := 12; f_instr := ILoad LW 2 0 0; f_err := EAddr 0 16384 4294967295 false |} /\
  fault_b2b 40 s = true /\ single_trace 40 s = [0; 4; 8] /\ pipe_trace 40 (pipe_init s true) = [0; 4] /\
  icount (pst (fst r)) = 3 /\ icount (fst (single_run 40 s)) = 4 /\
  ms (pst (fst r)) = ms (fst (single_run 40 s)) /\ ms (pst (fst r)) <> MFlat [].
Proof.
  cbv zeta. split; [apply wf_init; [repeat constructor; cbv; intuition discriminate|cbn; discriminate]|].
  vm_compute. repeat split; discriminate.
Qed.

(* the faulting load waits for its address register: everything older has been recorded *)
Definition c02f_gap : list instr := [ILui 6 16; II ADDI 1 0 5; ILoad LW 2 1 0; II ADDI 3 0 1].
Example c02f_gap_runs :
  let s := init_st c02f_gap (MFlat []) None in
  let r := pipe_run 40 (pipe_init s true) in
  snd r = PFaulted {| f_addr := 8; f_instr := ILoad LW 2 1 0; f_err := EAddr 5 16384 4294967295 false |} /\
  fault_b2b 40 s = false /\ single_trace 40 s = [0; 4] /\ pipe_trace 40 (pipe_init s true) = [0; 4] /\
  icount (pst (fst r)) = 2 /\ icount (fst (single_run 40 s)) = 3.
Proof. vm_compute. repeat split. Qed.

(* a faulting ecall: it raises in EX after the drain *)
Definition c02f_ecall : list instr := [II ADDI 17 0 5; II ADDI 1 0 5; IEcall; II ADDI 3 0 1].
Example c02f_ecall_runs :
  let s := init_st c02f_ecall (MFlat []) None in
  let r := pipe_run 40 (pipe_init s true) in
  snd r = PFaulted {| f_addr := 8; f_instr := IEcall; f_err := EEcall 5 |} /\
  fault_b2b 40 s = false /\ single_trace 40 s = [0; 4] /\ pipe_trace 40 (pipe_init s true) = [0; 4] /\
  icount (pst (fst r)) = 2 /\ icount (fst (single_run 40 s)) = 3.
Proof. vm_compute. repeat split. Qed.
