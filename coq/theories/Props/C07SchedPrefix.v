(* Props/C07SchedPrefix.v — the timing theorem of property C07 (Props/C07Sched.v) for EVERY program
   of supported instructions, also those that never terminate and those that fault: C07 speaks of
   "the cycle in which each instruction retires" without assuming termination, whereas
   [pipe_schedule] assumes that the single-cycle run ends [Done].  Only statements; proofs in
   Proofs/SchedPrefix*.v.

   [pipe_schedule_prefix]: for every fuel n of the single-cycle run and every number c of pipeline
   steps, the retirements made within c steps are exactly the entries of the documented schedule
   with write-back cycle <= c —
     Done        for every c (beyond the end: the whole schedule);
     OutOfFuel   (the program has not terminated within n instructions — e.g. it loops for ever)
                 for every c with c + 6 <= n; the pipeline is still running after c steps;
     Faulted f   for every c before the fault cycle; the pipeline is still running.
   [pipe_schedule_fault]: if the single-cycle run faults with record f at its (N+1)-th instruction,
   the pipeline faults with f at step [fault_cycle n s] = the execute cycle of that instruction by
   the documented recurrence if it is an ecall (it raises when it fires in EX), its memory cycle
   otherwise (a load / store raises in MEM); it has then recorded exactly the retirements with
   write-back cycle < that step; its retire counter is one short of the single-cycle one (the
   single-cycle machine counts the faulting instruction, the pipeline counts at WB); every fuel
   that reaches the fault gives the same state, record and retire list.
   [schedule_prefix_stable]: the write-back cycle of instruction k depends on the events up to k only.

   Vocabulary (Proofs/SchedPrefixMain.v): [sched_list n s] = combine (single_trace n s)
   (schedule (single_events n s)) — for a faulting run the N instructions executed before the
   faulting one; [single_last n s] = the state at which the single-cycle run stopped stepping (the
   pre-state of the faulting step); [fault_cycle n s]: with e the event of the faulting instruction
   and w the last entry of schedule (single_events n s ++ [e]) — its write-back cycle had it not
   faulted — w - 2 for an ecall, w - 1 otherwise.

   How: the invariant of Proofs/SchedLink.v is re-established without the hypothesis that the run
   terminates (Proofs/SchedPrefixLink.v): N steps are known to be fine; either every instruction in
   flight has index < N (window), or step N faults, in which case instruction N is the barrier of
   the simulation invariant and is marked as redirecting in the event stream (this does not change
   its own execute cycle).  Proofs/SchedPrefixFault.v identifies the stage that raises (MEM on the
   fired slot of latch 2; EX on an ecall that fires), the timing invariant then gives the step. *)
From ArchSim Require Import Model.Base Model.Mem Model.Cache Model.Fmt Model.RV Model.Single
  Model.RVSplit Model.Pipe Proofs.C01Step Proofs.SplitExec Proofs.PipeLaws Proofs.PipeInv
  Proofs.SchedDefs Proofs.SchedCor Proofs.SchedPrefixMain.
Open Scope Z_scope.

Theorem schedule_prefix_stable : forall evs evs',
  firstn (length evs) (schedule (evs ++ evs')) = schedule evs.
Proof. exact SchedPrefixMain.schedule_prefix_stable. Qed.
Print Assumptions schedule_prefix_stable.

Theorem pipe_schedule_prefix : forall P s n c,
  Forall (fun i => supported i = true) P -> wf s -> prog (im s) = P ->
  match snd (single_run n s) with
  | Done => pipe_retire c (pipe_init s true) = filter (fun aw => (snd aw <=? c)%nat) (sched_list n s)
  | OutOfFuel => (c + 6 <= n)%nat ->
      pipe_retire c (pipe_init s true) = filter (fun aw => (snd aw <=? c)%nat) (sched_list n s) /\
      snd (pipe_run c (pipe_init s true)) = POutOfFuel /\ pipe_run_steps c (pipe_init s true) = c
  | Faulted f => (c < fault_cycle n s)%nat ->
      pipe_retire c (pipe_init s true) = filter (fun aw => (snd aw <=? c)%nat) (sched_list n s) /\
      snd (pipe_run c (pipe_init s true)) = POutOfFuel /\ pipe_run_steps c (pipe_init s true) = c
  end.
Proof. exact pipe_schedule_prefix_lem. Qed.
Print Assumptions pipe_schedule_prefix.

Theorem pipe_schedule_fault : forall P s n s' f,
  Forall (fun i => supported i = true) P -> wf s -> prog (im s) = P ->
  single_run n s = (s', Faulted f) ->
  let cf := fault_cycle n s in
  exists p, pipe_run cf (pipe_init s true) = (p, PFaulted f) /\ pipe_run_steps cf (pipe_init s true) = cf /\
    pipe_retire cf (pipe_init s true) = filter (fun aw => (snd aw <? cf)%nat) (sched_list n s) /\
    icount (pst p) + 1 = icount s' /\
    (forall c q g, pipe_run c (pipe_init s true) = (q, PFaulted g) ->
       g = f /\ q = p /\ pipe_retire c (pipe_init s true) = pipe_retire cf (pipe_init s true)).
Proof. exact pipe_schedule_fault_lem. Qed.
Print Assumptions pipe_schedule_fault.

(** ** Non-vacuity *)
(* a program that loops for ever (no fuel makes the single-cycle run end): a RAW interlock and a
   jal in the loop body; the first 30 steps of the pipeline against the schedule of 40 instructions *)
Definition prefix_loop : list instr := [II ADDI 1 1 1; II ADDI 2 1 0; IJal 0 (-8) 0; II ADDI 3 0 1].
Example prefix_loop_hyps :
  let s := init_st prefix_loop (MFlat []) None in
  Forall (fun i => supported i = true) prefix_loop /\ wf s /\
  snd (single_run 40 s) = OutOfFuel /\ snd (single_run 400 s) = OutOfFuel.
Proof.
  cbv zeta. split; [repeat constructor|]. split; [apply wf_init; [repeat constructor; cbv; intuition discriminate|cbn; discriminate]|].
  split; vm_compute; reflexivity.
Qed.
Example prefix_loop_runs :
  let s := init_st prefix_loop (MFlat []) None in
  pipe_retire 30 (pipe_init s true) = filter (fun aw => (snd aw <=? 30)%nat) (sched_list 40 s) /\
  pipe_retire 30 (pipe_init s true) =
    zn [(0, 5); (4, 8); (8, 9); (0, 13); (4, 16); (8, 17); (0, 21); (4, 24); (8, 25); (0, 29)] /\
  snd (pipe_run 30 (pipe_init s true)) = POutOfFuel /\ length (sched_list 40 s) = 40%nat.
Proof. vm_compute. repeat split. Qed.

(* a program that faults: the load at 12 reads address 0; it executes directly behind the store,
   which waited for x1: schedule 5, 6, 9; the load would write back at 10, its memory cycle is 9 *)
Definition prefix_fault : list instr :=
  [ILui 6 16; II ADDI 1 0 5; IStore SW 6 1 0; ILoad LW 2 0 0; II ADDI 3 0 1].
Example prefix_fault_runs :
  let s := init_st prefix_fault (MFlat []) None in
  let f := {| f_addr := 12; f_instr := ILoad LW 2 0 0; f_err := EAddr 0 16384 4294967295 false |} in
  wf s /\ snd (single_run 40 s) = Faulted f /\ fault_cycle 40 s = 9%nat /\
  sched_list 40 s = zn [(0, 5); (4, 6); (8, 9)] /\
  snd (pipe_run 9 (pipe_init s true)) = PFaulted f /\ snd (pipe_run 8 (pipe_init s true)) = POutOfFuel /\
  pipe_retire 9 (pipe_init s true) = zn [(0, 5); (4, 6)] /\
  pipe_retire 8 (pipe_init s true) = zn [(0, 5); (4, 6)] /\
  icount (pst (fst (pipe_run 9 (pipe_init s true)))) = 3 /\ icount (fst (single_run 40 s)) = 4.
Proof.
  cbv zeta. split; [apply wf_init; [repeat constructor; cbv; intuition discriminate|cbn; discriminate]|].
  vm_compute. repeat split.
Qed.

(* an ecall with an unknown service number: it raises in EX, in its execute cycle 7 (after draining) *)
Definition prefix_fault_ecall : list instr := [II ADDI 17 0 5; II ADDI 1 0 5; IEcall; II ADDI 3 0 1].
Example prefix_fault_ecall_runs :
  let s := init_st prefix_fault_ecall (MFlat []) None in
  let f := {| f_addr := 8; f_instr := IEcall; f_err := EEcall 5 |} in
  snd (single_run 40 s) = Faulted f /\ fault_cycle 40 s = 7%nat /\
  snd (pipe_run 7 (pipe_init s true)) = PFaulted f /\ snd (pipe_run 6 (pipe_init s true)) = POutOfFuel /\
  pipe_retire 7 (pipe_init s true) = zn [(0, 5); (4, 6)] /\ sched_list 40 s = zn [(0, 5); (4, 6)].
Proof. vm_compute. repeat split. Qed.
