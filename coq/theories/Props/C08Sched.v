(* Props/C08Sched.v — timing of the five-stage pipeline with hazard detection DISABLED (property
   C08): the step at which every instruction retires, and the total step count, are those of the
   documented recurrence WITHOUT its hazard term.  Only statements; proofs in Proofs/SchedOff*.v.

   Vocabulary
     schedule_g hz evs   harness/sched.py, schedule(tr, hazards), transcribed literally
                         (Proofs/SchedOffDefs.v; as [schedule] of Proofs/SchedDefs.v with the decode
                         hazard test guarded by hz); [schedule_off] = schedule_g false: decode never
                         waits, a redirect costs 3 cycles, an ecall drains (2 cycles)
     dwb_run, dwb_trace  the delayed-write-back reference machine of Props/C08DelayedWB.v
     dwb_events n s      the events of that run, as [delayed_wb] of harness/sched.py sees them
                         (Proofs/SchedOffDwb.v): the instruction at the pc of the in-order state
                         executed from the operand view (registers two slots ago).  With the flag
                         off the dynamic instruction stream is that of [dwb_run], in general NOT
                         that of the single-cycle machine
     pipe_retire, total_cycles, single_events   as in Props/C07Sched.v

   FULL STATEMENT (not proved in this generality; checked on [c08s_ecalls] below):
       forall P s n s', Forall supported P -> wf s -> prog (im s) = P -> dwb_run n s = (s', Done) ->
       exists c p, pipe_run c (pipe_init s false) = (p, PDone) /\ pipe_run_steps c (pipe_init s false) = c /\
         pipe_retire c (pipe_init s false) = combine (dwb_trace n s) (schedule_off (dwb_events n s)) /\
         c = total_cycles (schedule_off (dwb_events n s)) /\ cycles (pst p) = cycles s + Z.of_nat c.
   PROVED:
     [flagoff_schedule_depfree]          programs whose register dependencies are at least three
                                         instructions apart ([dep_free_weak]), ecall included; there
                                         the pipeline computes what the single-cycle machine computes
                                         ([flagoff_refines_single_weak]), so the events are stated as
                                         [single_events]; moreover the hazard term of the documented
                                         recurrence is false along the run: schedule = schedule_off
     [flagoff_schedule_noecall_partial]  exactly the full statement for programs WITHOUT ECALL
                                         (arbitrary, also stale, register dependencies; branches, jal,
                                         jalr; loads and stores)
   MISSING: ecall in programs that are not dependency-free — as for [flagoff_is_dwb_noecall_partial]
   of Props/C08DelayedWB.v, whose simulation ([CInvP], Proofs/FlagOffControl.v) this proof extends with
   "the next instruction of the reference run retires at step t + 1 + mu p". *)
From ArchSim Require Import Model.Base Model.Mem Model.Cache Model.Fmt Model.RV Model.Single
  Model.RVSplit Model.Pipe Proofs.C01Step Proofs.SplitExec Proofs.PipeLaws Proofs.PipeInv
  Proofs.PipeInvControl Proofs.FlagOffDep Proofs.FlagOffDwb Proofs.SchedDefs Proofs.SchedCor
  Proofs.SchedOffDefs Proofs.SchedOffDwb Proofs.SchedOff Proofs.SchedOffRun.
Open Scope Z_scope.

(** ** The hazard-free recurrence *)
(* hazards = True is the recurrence of Props/C07Sched.v *)
Theorem schedule_hazards_on : forall evs, schedule_g true evs = schedule evs.
Proof. exact schedule_g_true. Qed.
Print Assumptions schedule_hazards_on.

(* hazards = False is that recurrence on the events with their source registers forgotten; hence
   the window form, the gap law and the closed form of Props/C07Sched.v apply to it *)
Theorem schedule_off_is_sourceless : forall evs, schedule_off evs = schedule (map nosrc evs).
Proof. exact schedule_off_nosrc. Qed.
Print Assumptions schedule_off_is_sourceless.

(* without ecall it is a running sum: first write-back in cycle 5, then 4 cycles behind a
   redirecting instruction and 1 cycle behind any other *)
Theorem schedule_off_running_sum : forall evs, Forall (fun e => ev_ecall e = false) evs ->
  schedule_off evs = woff 5 evs.
Proof. exact schedule_off_woff. Qed.
Print Assumptions schedule_off_running_sum.

(** ** Dependencies at least three instructions apart (any supported program, ecall included) *)
Theorem flagoff_schedule_depfree : forall P s n s',
  Forall (fun i => supported i = true) P -> wf s -> prog (im s) = P -> dep_free_weak P = true ->
  single_run n s = (s', Done) ->
  schedule (single_events n s) = schedule_off (single_events n s) /\
  exists c p,
    pipe_run c (pipe_init s false) = (p, PDone) /\
    pipe_retire c (pipe_init s false) = combine (single_trace n s) (schedule_off (single_events n s)) /\
    c = total_cycles (schedule_off (single_events n s)) /\
    cycles (pst p) = cycles s + Z.of_nat c.
Proof. exact flagoff_schedule_depfree_lem. Qed.
Print Assumptions flagoff_schedule_depfree.

(** ** Every program without ecall: the full statement *)
Theorem flagoff_schedule_noecall_partial : forall P s n s',
  Forall (fun i => noecall i = true) P -> wf s -> prog (im s) = P ->
  dwb_run n s = (s', Done) ->
  exists c p,
    pipe_run c (pipe_init s false) = (p, PDone) /\
    pipe_run_steps c (pipe_init s false) = c /\
    pipe_retire c (pipe_init s false) = combine (dwb_trace n s) (schedule_off (dwb_events n s)) /\
    c = total_cycles (schedule_off (dwb_events n s)) /\
    cycles (pst p) = cycles s + Z.of_nat c.
Proof. exact flagoff_schedule_noecall_lem. Qed.
Print Assumptions flagoff_schedule_noecall_partial.

(** ** Non-vacuity (closed computations; flat memory at [], registers zero) *)
(* the dependency-free program of Props/C08DelayedWB.v: a jal whose target reads the link register,
   a loop, a printing ecall that drains and an exiting ecall: 28 instructions retire, 45 steps *)
Definition c08s_dep_ok : list instr :=
  [IJal 1 12 0; nop; nop; II ADDI 2 1 7; II ADDI 5 0 3; nop; nop;
   II ADDI 5 5 (-1); nop; nop; IBranch BNE 5 0 (-12); II ADDI 6 2 1; nop; II ADDI 17 0 1;
   II ADDI 10 6 0; nop; nop; IEcall; II ADDI 17 0 10; nop; nop; IEcall; II ADDI 9 0 9].
Example c08s_dep_ok_hyps : demo_hyps c08s_dep_ok 200 /\ dep_free_weak c08s_dep_ok = true.
Proof.
  split; [apply demo_hyps_intro; [repeat constructor; cbv; intuition discriminate|reflexivity|reflexivity|vm_compute; reflexivity]|].
  vm_compute. reflexivity.
Qed.
Example c08s_dep_ok_runs :
  let s := init_st c08s_dep_ok (MFlat []) None in
  let evs := single_events 200 s in
  snd (pipe_run 45 (pipe_init s false)) = PDone /\ snd (pipe_run 44 (pipe_init s false)) = POutOfFuel /\
  pipe_retire 45 (pipe_init s false) = combine (single_trace 200 s) (schedule_off evs) /\
  schedule evs = schedule_off evs /\ (length evs, total_cycles (schedule_off evs)) = (28, 45)%nat /\
  map snd (pipe_retire 45 (pipe_init s false)) =
    [5; 9; 10; 11; 12; 13; 14; 15; 16; 20; 21; 22; 23; 27; 28; 29; 30; 31; 32; 33; 34; 35; 36; 39; 40;
     41; 42; 45]%nat /\
  cycles (pst (fst (pipe_run 45 (pipe_init s false)))) = 45.
Proof. vm_compute. repeat split. Qed.

(* stale reads in a loop (it runs four times, not three), jal and its link register, store / load:
   no ecall; the stream is that of the reference machine, not the single-cycle one; 23 instructions
   retire, 39 steps; with hazard detection the schedule would differ *)
Definition c08s_stale : list instr :=
  [II ADDI 5 0 3; II ADDI 6 0 0; IR ADD 6 6 5; II ADDI 5 5 (-1); IBranch BNE 5 0 (-8);
   IJal 1 8 0; II ADDI 7 0 99; II ADDI 2 1 0; IR ADD 3 2 2; ILui 8 16; nop; nop;
   IStore SW 8 3 0; ILoad LW 9 8 0; IR ADD 9 9 9].
Example c08s_stale_hyps :
  let s := init_st c08s_stale (MFlat []) None in
  Forall (fun i => noecall i = true) c08s_stale /\ wf s /\ snd (dwb_run 200 s) = Done /\
  dep_free_weak c08s_stale = false.
Proof.
  cbv zeta. split; [repeat constructor|]. split; [apply wf_init; [repeat constructor; cbv; intuition discriminate|cbn; discriminate]|].
  split; vm_compute; reflexivity.
Qed.
Example c08s_stale_runs :
  let s := init_st c08s_stale (MFlat []) None in
  let evs := dwb_events 200 s in
  snd (pipe_run 39 (pipe_init s false)) = PDone /\ pipe_run_steps 39 (pipe_init s false) = 39%nat /\
  pipe_retire 39 (pipe_init s false) = combine (dwb_trace 200 s) (schedule_off evs) /\
  pipe_retire 39 (pipe_init s false) =
    zn [(0, 5); (4, 6); (8, 7); (12, 8); (16, 9); (8, 13); (12, 14); (16, 15); (8, 19); (12, 20); (16, 21);
        (8, 25); (12, 26); (16, 27); (20, 28); (28, 32); (32, 33); (36, 34); (40, 35); (44, 36); (48, 37);
        (52, 38); (56, 39)] /\
  dwb_trace 200 s <> single_trace 200 s /\ schedule evs <> schedule_off evs /\
  cycles (pst (fst (pipe_run 39 (pipe_init s false)))) = 39.
Proof. vm_compute. repeat split; discriminate. Qed.

(* the full statement on a program WITH ecalls (draining, printing, back to back, exiting) and
   stale reads, by computation: 26 instructions, 50 steps *)
Definition c08s_ecalls : list instr :=
  [II ADDI 5 0 3; II ADDI 6 0 0; IR ADD 6 6 5; II ADDI 5 5 (-1); IBranch BNE 5 0 (-8);
   II ADDI 10 6 0; II ADDI 17 0 1; IEcall; IJal 1 8 0; II ADDI 7 0 99; II ADDI 2 1 0; IR ADD 3 2 2;
   II ADDI 17 0 1; II ADDI 10 3 0; IEcall; IEcall; II ADDI 17 0 10; IEcall; II ADDI 9 0 9].
Example c08s_ecalls_full_statement :
  let s := init_st c08s_ecalls (MFlat []) None in
  let evs := dwb_events 200 s in
  snd (dwb_run 200 s) = Done /\ snd (pipe_run 50 (pipe_init s false)) = PDone /\
  pipe_run_steps 50 (pipe_init s false) = 50%nat /\
  pipe_retire 50 (pipe_init s false) = combine (dwb_trace 200 s) (schedule_off evs) /\
  (length evs, total_cycles (schedule_off evs)) = (26, 50)%nat /\
  cycles (pst (fst (pipe_run 50 (pipe_init s false)))) = 50.
Proof. vm_compute. repeat split. Qed.
