(* Props/C02Refine.v — control-path half of property C02 ("five-stage pipeline with hazard detection
   = single-cycle").  Only statements; every proof is [exact <lemma>].

   Scope of everything below: hazard detection ON, flat data memory, no instruction cache; the
   initial state is [wf] (Proofs/C01Step.v: registers in [0,2^32) with x0 = 0, flat memory, no
   icache, program of [wf_instr] instructions, length <= 4096, pc in range) and the pipeline starts
   empty ([pipe_init s true]).  Programs consist of [supported] instructions (Proofs/SplitExec.v:
   everything except ebreak, fence, csr*, csr*i).  These hypotheses are static properties of the
   program and of the initial state; nothing is assumed about reachable states.

   THE TARGET, proved in full as [pipe_refines_single] below:

       forall P s n, Forall supported P -> wf s -> prog (im s) = P ->
       match single_run n s with
       | (s', Done)      => the pipeline run from the empty pipeline ends [PDone] within
                            c <= 8 * n + 8 cycles in a state p with [arch_agree p s'], and the
                            list of retired addresses equals the list of executed pcs
       | (s', Faulted f) => the pipeline run ends [PFaulted f] — the same fault record: address,
                            instruction and error — within c <= 8 * n + 8 cycles, with equal
                            registers, memory system and output
       | (_, OutOfFuel)  => no claim
       end.

   Vocabulary (Proofs/PipeInv.v, definitions only):
     arch_agree p s'   regs, ms, out, exitc, bcount, pcount, icount of [pst p] equal those of s'
                       (both runs start from the same s, so equal icount = equal retired count)
     pipe_trace c p    the addresses found in latch 4 (WB output) after each step of the run, in order
     single_trace n s  the pcs at which the single-cycle run executed an instruction, in order
   Consequences: termination of the pipeline whenever the single-cycle machine terminates (with the
   linear cycle bound; the proof gives 5 * n + 5); and, since the final states and the retire lists
   are equal, no instruction younger than a taken branch, a jump or an exiting ecall has any
   architectural effect (wrong-path slots are fetched, decoded, possibly executed in EX, and flushed).

   HOW: the invariant [Inv P p s] of Proofs/PipeInv.v relates a pipeline state p to the single-cycle
   state s reached after the instructions that have left WB: the non-empty latches 3,2,1,0 hold, oldest
   first, the instructions the single-cycle machine executes next from s (same address, same
   instruction), up to a "barrier" slot (one whose single-cycle step faults, exits or transfers
   control) in latch 0..2 behind which slots are unconstrained wrong-path slots; registers are those
   of s, memory and branch/call counters those of s advanced past latch 3, the output that of s
   advanced past the slots that have fired in EX (an ecall that still carries its stall flag has
   not); a slot in latch 1 holds the source operands of its own single-cycle pre-state whenever the
   pipeline is not stalled (this is what the interlock buys), slots in latches 2 and 3 hold exactly the
   EX / MEM results computed from those operands.  [inv_step] shows that one [pipe_step] either keeps
   s (and decreases a measure <= 4) or retires the instruction the single-cycle machine executes from s,
   or faults exactly when and where the single-cycle machine faults; the data-path theorem
   [split_agrees] (Props/C02.v) is used once per retirement.

   The proof was built in stages, each a theorem of its own (all below):
     straight-line programs (R/I/shift/lui/auipc/load/store, all RAW hazards, faulting accesses),
     + branches, jal, jalr (flush from MEM, wrong-path slots, stall cancelled by a flush),
     + ecall (drain stall at EX, the ecall fires exactly once, print / exit with its three flushes /
       fault). *)
From ArchSim Require Import Model.Base Model.Mem Model.Cache Model.Fmt Model.RV Model.Single
  Model.RVSplit Model.Pipe Proofs.C01Step Proofs.SplitExec Proofs.PipeLaws Proofs.PipeShape
  Proofs.PipeInv Proofs.PipeInvBase Proofs.PipeInvStages Proofs.PipeInvStraight
  Proofs.PipeInvControl Proofs.PipeInvEcall Proofs.PipeRefine.
Open Scope Z_scope.

(** ** The theorem *)
Theorem pipe_refines_single : forall P s n,
  Forall (fun i => supported i = true) P -> wf s -> prog (im s) = P ->
  match single_run n s with
  | (s', Done) => exists c p, (c <= 8 * n + 8)%nat /\
      pipe_run c (pipe_init s true) = (p, PDone) /\ arch_agree p s' /\
      pipe_trace c (pipe_init s true) = single_trace n s
  | (s', Faulted f) => exists c p, (c <= 8 * n + 8)%nat /\
      pipe_run c (pipe_init s true) = (p, PFaulted f) /\
      regs (pst p) = regs s' /\ ms (pst p) = ms s' /\ out (pst p) = out s'
  | (_, OutOfFuel) => True
  end.
Proof. exact pipe_refines_single_lem. Qed.
Print Assumptions pipe_refines_single.

(** ** The invariant holds initially *)
Theorem inv_holds_initially : forall P s,
  wf s -> prog (im s) = P -> exitc s = None -> Inv P (pipe_init s true) s.
Proof. exact inv_init. Qed.
Print Assumptions inv_holds_initially.

(** ** One pipeline cycle (any supported program, any of the five modes: not stalled, stalled at
    ID with countdown 2 / 1, stalled at EX with countdown 2 / 1)
    Either the cycle retires nothing (latch 3 was a bubble; the measure [mu4] decreases) and the
    invariant holds for the same single-cycle state, or it retires the slot of latch 3, which is the
    instruction the single-cycle machine executes next ([adv l3 s] is [nxt s]); the new state is in
    the invariant or is the last cycle of an exiting ecall ([Exiting]).  If the cycle faults, the
    single-cycle machine faults identically at its next instruction. *)
Theorem inv_step : forall P, Forall (fun i => supported i = true) P ->
  forall p s l0 l1 l2 l3 l4 dead, InvAt P p s l0 l1 l2 l3 l4 dead -> pipe_done p = false ->
  match pipe_step p with
  | (p', None) => (Inv P p' (adv l3 s) \/ Exiting P p' (adv l3 s)) /\
                  lat_at (lat p') 4 = option_map wb_slot l3 /\ (l3 = None -> mu4 p' < mu4 p)
  | (p', Some f) => exists tm, single_pipeline_step (adv l3 s) = (tm, Some f) /\
                  single_done (adv l3 s) = false /\
                  regs (pst p') = regs tm /\ ms (pst p') = ms tm /\ out (pst p') = out tm
  end.
Proof. exact inv_step_e. Qed.
Print Assumptions inv_step.

(* the last cycle of an exiting ecall: it retires, the exit code is set, both machines are done *)
Theorem exiting_ecall_retires : forall P, Forall (fun i => supported i = true) P ->
  forall p s, Exiting P p s ->
  pipe_done p = false /\ single_done s = false /\
  single_pipeline_step s = (nxt s, None) /\ single_done (nxt s) = true /\
  exists p', pipe_step p = (p', None) /\ pipe_done p' = true /\ arch_agree p' (nxt s) /\
             some_addr (lat_at (lat p') 4) = [pc s].
Proof. exact exiting_step. Qed.
Print Assumptions exiting_ecall_retires.

(* the two machines stop together *)
Theorem done_together : forall P p s l0 l1 l2 l3 l4 dead,
  InvAt P p s l0 l1 l2 l3 l4 dead -> pipe_done p = single_done s.
Proof. exact done_iff. Qed.
Print Assumptions done_together.

(** ** The earlier stages, usable on their own *)
(* straight-line programs: R/I/shift/lui/auipc/load/store *)
Theorem pipe_refines_single_straightline_partial : forall P s n,
  Forall (fun i => straight i = true) P -> wf s -> prog (im s) = P ->
  match single_run n s with
  | (s', Done) => exists c p, (c <= 8 * n + 8)%nat /\
      pipe_run c (pipe_init s true) = (p, PDone) /\ arch_agree p s' /\
      pipe_trace c (pipe_init s true) = single_trace n s
  | (s', Faulted f) => exists c p, (c <= 8 * n + 8)%nat /\
      pipe_run c (pipe_init s true) = (p, PFaulted f) /\
      regs (pst p) = regs s' /\ ms (pst p) = ms s' /\ out (pst p) = out s'
  | (_, OutOfFuel) => True
  end.
Proof. exact pipe_refines_single_straight. Qed.
Print Assumptions pipe_refines_single_straightline_partial.

(* every supported instruction except ecall *)
Theorem pipe_refines_single_noecall_partial : forall P s n,
  Forall (fun i => noecall i = true) P -> wf s -> prog (im s) = P ->
  match single_run n s with
  | (s', Done) => exists c p, (c <= 8 * n + 8)%nat /\
      pipe_run c (pipe_init s true) = (p, PDone) /\ arch_agree p s' /\
      pipe_trace c (pipe_init s true) = single_trace n s
  | (s', Faulted f) => exists c p, (c <= 8 * n + 8)%nat /\
      pipe_run c (pipe_init s true) = (p, PFaulted f) /\
      regs (pst p) = regs s' /\ ms (pst p) = ms s' /\ out (pst p) = out s'
  | (_, OutOfFuel) => True
  end.
Proof. exact pipe_refines_single_noecall. Qed.
Print Assumptions pipe_refines_single_noecall_partial.

(** ** A concrete run (closed computation): hazards, store/load, a taken branch, jal, a printing and
    an exiting ecall; both machines retire the same twelve instructions *)
Definition c02_example : list instr :=
  [ II ADDI 10 0 5; II ADDI 17 0 1; IEcall; IBranch BEQ 0 0 8; II ADDI 1 0 1;
    ILui 6 16; IR ADD 2 10 10; IStore SW 6 2 4; ILoad LW 3 6 4; IR ADD 4 3 3;
    IJal 5 8 0; II ADDI 1 0 7; II ADDI 17 0 10; IEcall; II ADDI 1 0 9 ].
Theorem c02_example_runs :
  let s := init_st c02_example (MFlat []) None in
  single_trace 50 s = [0; 4; 8; 12; 20; 24; 28; 32; 36; 40; 48; 52] /\
  pipe_trace 100 (pipe_init s true) = [0; 4; 8; 12; 20; 24; 28; 32; 36; 40; 48; 52] /\
  snd (single_run 50 s) = Done /\ snd (pipe_run 100 (pipe_init s true)) = PDone /\
  regs (pst (fst (pipe_run 100 (pipe_init s true)))) = regs (fst (single_run 50 s)) /\
  out (pst (fst (pipe_run 100 (pipe_init s true)))) = [53] /\
  exitc (pst (fst (pipe_run 100 (pipe_init s true)))) = Some 0.
Proof. vm_compute. repeat split. Qed.
Print Assumptions c02_example_runs.
