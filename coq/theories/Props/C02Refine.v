(* Props/C02Refine.v — control-path half of property C02 ("five-stage pipeline with hazard detection
   = single-cycle").  Only statements; every proof is [exact <lemma>].

   Scope of everything below: hazard detection ON, flat data memory, no instruction cache; the
   initial state is [wf] (Proofs/C01Step.v: registers in range, flat memory, no icache, program of
   [wf_instr] instructions, length <= 4096) and the pipeline starts empty ([pipe_init s true]).

   FULL TARGET (not yet proved in this generality):

     Theorem pipe_refines_single : forall P s n,
       Forall (fun i => supported i = true) P -> wf s -> prog (im s) = P ->
       match single_run n s with
       | (s', Done) => exists c p, (c <= 8 * n + 8)%nat /\
           pipe_run c (pipe_init s true) = (p, PDone) /\ arch_agree p s' /\
           pipe_trace c (pipe_init s true) = single_trace n s
       | (s', Faulted f) => exists c p, (c <= 8 * n + 8)%nat /\
           pipe_run c (pipe_init s true) = (p, PFaulted f) /\
           regs (pst p) = regs s' /\ ms (pst p) = ms s' /\ out (pst p) = out s'
       | (_, OutOfFuel) => True
       end.

   Vocabulary (Proofs/PipeInv.v, definitions only):
     arch_agree p s'   regs, ms, out, exitc, bcount, pcount, icount of [pst p] equal those of s'
                       (both runs start from the same s, so equal icount = equal retired count)
     pipe_trace c p    the addresses found in latch 4 (WB output) after each step of the run, in order
     single_trace n s  the pcs at which the single-cycle run executed an instruction, in order
     PFaulted f        the pipeline reports the SAME fault record: address, instruction and error

   PROVED: the target for every program built from the straight-line classes
     R-type, I-type, shifts, lui, auipc, loads, stores          ([straight i = true])
   with arbitrary RAW hazards (interlock stalls at ID with countdown 2 and 1, self-hazards),
   including faulting loads and stores (fault raised in MEM while younger instructions are in
   flight and an older one retires in the same cycle).  Cycle bound obtained: 5 * n + 5.

   MISSING relative to the full target (stages 3-5 of the plan):
     - control transfers: taken / not-taken branches, jal, jalr (flush from MEM, wrong-path slots,
       stall cancelled by a flush);
     - ecall: printing / exiting / faulting (drain stall at EX, triple flush of an exiting ecall);
     - hence the statement for [supported] programs in general, and the corollary that no
       instruction younger than a taken branch / jump / exiting ecall has an architectural effect.
   The invariant [Inv] of Proofs/PipeInv.v is already stated for the general case (on-path prefix,
   barrier slot, wrong-path slots behind it); what is proved is its preservation ([inv_step]) for
   straight-line programs. *)
From ArchSim Require Import Model.Base Model.Mem Model.Cache Model.Fmt Model.RV Model.Single
  Model.RVSplit Model.Pipe Proofs.C01Step Proofs.SplitExec Proofs.PipeLaws Proofs.PipeShape
  Proofs.PipeInv Proofs.PipeInvBase Proofs.PipeInvStages Proofs.PipeInvStraight.
Open Scope Z_scope.

(** ** The invariant holds initially *)
Theorem inv_holds_initially : forall P s,
  wf s -> prog (im s) = P -> exitc s = None -> Inv P (pipe_init s true) s.
Proof. exact inv_init. Qed.
Print Assumptions inv_holds_initially.

(** ** One pipeline cycle preserves the invariant (straight-line programs)
    Either the cycle retires nothing (latch 3 was a bubble; the measure [mu] decreases), or it
    retires the instruction the single-cycle machine executes next; if it faults, the single-cycle
    machine faults identically at the instruction after the ones retired. *)
Theorem inv_step_straightline : forall P, Forall (fun i => straight i = true) P ->
  forall p s l0 l1 l2 l3 l4 dead, InvAt P p s l0 l1 l2 l3 l4 dead -> pipe_done p = false ->
  match pipe_step p with
  | (p', None) => Inv P p' (adv l3 s) /\ lat_at (lat p') 4 = option_map wb_slot l3 /\
                  (l3 = None -> mu p' < mu p)
  | (p', Some f) => exists tm, single_pipeline_step (adv l3 s) = (tm, Some f) /\
                  single_done (adv l3 s) = false /\
                  regs (pst p') = regs tm /\ ms (pst p') = ms tm /\ out (pst p') = out tm
  end.
Proof. exact inv_step. Qed.
Print Assumptions inv_step_straightline.

(** ** Refinement, straight-line programs *)
Theorem pipe_refines_single_straightline_partial : forall P s n,
  Forall (fun i => straight i = true) P -> wf s -> prog (im s) = P ->
  match single_run n s with
  | (s', Done) => exists c p, (c <= 8 * n + 8)%nat /\
      pipe_run c (pipe_init s true) = (p, PDone) /\ arch_agree p s' /\
      pipe_trace c (pipe_init s true) = single_trace n s
  | (s', Faulted f) => exists c p, (c <= 8 * n + 8)%nat /\
      pipe_run c (pipe_init s true) = (p, PFaulted f) /\
      regs (pst p) = regs s' /\ ms (pst p) = ms s' /\ out (pst p) = out s'
  | (_, OutOfFuel) => True
  end.
Proof. exact pipe_refines_single_straight. Qed.
Print Assumptions pipe_refines_single_straightline_partial.
