(* Props/C07SchedCaches.v — the timing theorem of property C07 (Props/C07Sched.v) "for all cache
   configurations and miss penalties": with ANY data cache (write-back / write-through, LRU / PLRU,
   any legal geometry, any penalty, or flat memory) and ANY instruction cache (any geometry and
   penalty, or none) the five-stage pipeline with hazard detection makes exactly the STEPS of the
   documented schedule and retires every instruction at the step the schedule names; the cycle
   counter is the number of steps plus the miss penalties paid: penalty * (accesses - hits) of the
   instruction cache and of the data cache over the run (the penalty clause of C07, [cycle_law] of
   Props/C07.v, summed).  Only statements; proofs in Proofs/SchedCache.v.

   Hypotheses: [cwf s] (Props/C02Caches.v, [cwf_meaning]; holds for the initial state of every
   configuration, [cwf_init]); supported program; the single-cycle run WITH THE SAME CACHES ends
   [Done] (a cache may reject a word-crossing access that flat memory answers, Props/C03Programs.v;
   such runs are excluded here because they end [Faulted]).

   The events and the trace are those of the cached single-cycle run itself; they equal those of the
   flat run ([single_events_cache_independent]).  [pipe_run_steps c p] (Proofs/PipeLaws.v) is the
   number of calls of [pipe_step] made by [pipe_run c p]: the run ends [PDone] after exactly c steps.
   Counter readers (Proofs/PipeLaws.v): ipen / iacc / ihit = penalty, accesses, hits of the instruction
   cache (0 without one), dpen / dacc / dhit those of the data cache (0 for flat memory).

   How: the cached pipeline and its flattened copy ([flatten], Props/C03Programs.v) are in the
   simulation [sim] of Proofs/LiftSim.v after every step ([sim_pipe_step], Proofs/LiftPipeRun.v):
   equal latches and control registers, hence equal [pipe_done], equal retirements at equal step
   indices; the cached run does not fault ([pipe_refines_single_caches], Props/C02Caches.v);
   [pipe_schedule] applies to the flattened run; the conserved quantity [Phi] of Proofs/PipeLaws.v
   gives the cycle counter. *)
From ArchSim Require Import Spec.RefCache.
From ArchSim Require Import Model.Base Model.Mem Model.Cache Model.Fmt Model.RV Model.Single
  Model.RVSplit Model.Pipe Proofs.CacheArith Proofs.CacheInv Proofs.C01Step Proofs.SplitExec
  Proofs.PipeLaws Proofs.PipeInv Proofs.LiftSim Proofs.LiftSingle Proofs.LiftPipe Proofs.LiftPipeRun
  Proofs.LiftRefine Proofs.SchedDefs Proofs.SchedCache Props.C02Caches.
Open Scope Z_scope.

Theorem pipe_schedule_caches : forall s n s',
  cwf s -> Forall (fun i => supported i = true) (prog (im s)) ->
  single_run n s = (s', Done) ->
  exists c p,
    pipe_run c (pipe_init s true) = (p, PDone) /\
    pipe_run_steps c (pipe_init s true) = c /\
    pipe_retire c (pipe_init s true) = combine (single_trace n s) (schedule (single_events n s)) /\
    c = total_cycles (schedule (single_events n s)) /\
    cycles (pst p) = cycles s + Z.of_nat c
                     + ipen s * ((iacc (pst p) - iacc s) - (ihit (pst p) - ihit s))
                     + dpen s * ((dacc (pst p) - dacc s) - (dhit (pst p) - dhit s)).
Proof. exact pipe_schedule_caches_lem. Qed.
Print Assumptions pipe_schedule_caches.

(* the dynamic instruction stream of a single-cycle run that ends [Done] is that of the flat run *)
Theorem single_events_cache_independent : forall n s s', cache_ok s -> single_run n s = (s', Done) ->
  single_events n s = single_events n (flatten s) /\ single_trace n s = single_trace n (flatten s).
Proof. exact single_events_flatten. Qed.
Print Assumptions single_events_cache_independent.

(* the cycle law of Props/C07.v summed over any run (every state, also runs that fault) *)
Theorem run_cycles : forall fuel p,
  let s := pst p in let s' := pst (fst (pipe_run fuel p)) in
  cycles s' = cycles s + Z.of_nat (pipe_run_steps fuel p)
              + ipen s * ((iacc s' - iacc s) - (ihit s' - ihit s))
              + dpen s * ((dacc s' - dacc s) - (dhit s' - dhit s)).
Proof. exact pipe_run_cycles_gen. Qed.
Print Assumptions run_cycles.

(** ** Non-vacuity: the program and configuration of Props/C02Caches.v (data cache: one set, two
    ways, one word per block, PLRU, penalty 10; instruction cache: direct mapped, 2 sets of 2
    words, penalty 5; hypotheses: [c02c_hyps] there).  13 instructions retire in 30 steps — the
    schedule of the flat machine —, 105 cycles = 30 + 5 * (16 - 9) + 10 * (4 - 0). *)
Example sched_caches_runs :
  let s := c02c_st false in
  let r := pipe_run 30 (pipe_init s true) in
  snd (single_run 50 s) = Done /\ snd r = PDone /\
  snd (pipe_run 29 (pipe_init s true)) = POutOfFuel /\ pipe_run_steps 30 (pipe_init s true) = 30%nat /\
  pipe_retire 30 (pipe_init s true) = combine (single_trace 50 s) (schedule (single_events 50 s)) /\
  pipe_retire 30 (pipe_init s true) =
    zn [(0, 5); (4, 6); (8, 9); (12, 10); (16, 13); (20, 14); (24, 15); (28, 18); (32, 19); (40, 23);
        (44, 26); (48, 27); (52, 30)] /\
  total_cycles (schedule (single_events 50 s)) = 30%nat /\
  cycles (pst (fst r)) = 105 /\
  (ipen s, iacc (pst (fst r)), ihit (pst (fst r))) = (5, 16, 9) /\
  (dpen s, dacc (pst (fst r)), dhit (pst (fst r))) = (10, 4, 0) /\
  cycles (pst (fst (pipe_run 30 (pipe_init (flatten s) true)))) = 30.
Proof. vm_compute. repeat split. Qed.
