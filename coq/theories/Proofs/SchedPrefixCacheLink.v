(* SchedPrefixCacheLink.v — the timing invariant of Proofs/SchedPrefixLink.v in "cut" form, for the
   lift to caches: the flat single-cycle run makes N steps without fault, instruction N exists, and
   NOTHING is assumed about step N (with a cache it may be rejected although flat memory answers).
   Instruction N is marked as redirecting in the event stream, so the timing invariant [T] ignores
   everything younger; the simulation invariant [InvAt] may know better (its barrier [dead] can be
   younger).  The invariant is used while instruction N has not left EX: up to the cycle X_N. *)
From Coq Require Import Lia ZifyBool.
From ArchSim Require Import Model.Base Model.Mem Model.Cache Model.Fmt Model.RV Model.Single
  Model.RVSplit Model.Pipe Proofs.WordLemmas Proofs.C01Step Proofs.SplitExec Proofs.C02Split
  Proofs.PipeLaws Proofs.PipeShape Proofs.PipeInv Proofs.PipeInvBase Proofs.PipeInvStages
  Proofs.PipeInvStraight Proofs.PipeInvControl Proofs.PipeInvEcall Proofs.SchedDefs Proofs.SchedRec
  Proofs.SchedStep Proofs.SchedInv Proofs.SchedLink Proofs.SchedPrefixFault Proofs.SchedPrefixLink.
Open Scope Z_scope.

Ltac Zify.zify_post_hook ::= Z.to_euclidean_division_equations.
Local Arguments Z.mul : simpl never.
Local Arguments Z.add : simpl never.
Local Arguments Z.sub : simpl never.
Local Arguments Z.of_nat : simpl never.

Section Cut.
Variable P : list instr.
Hypothesis Hsup : Forall (fun i => supported i = true) P.
Variable s0 : st.
Variable N : nat.
Hypothesis HN1 : forall j, (j < N)%nat ->
  single_done (sigma j s0) = false /\ snd (single_pipeline_step (sigma j s0)) = None.
Hypothesis HNe : single_done (sigma N s0) = false.

Notation evo := (ev s0).
(* the stream with instruction N marked: [evm] of SchedPrefixLink.v with BN = true *)
Notation evc := (evm s0 N true).
Notation lat_ := (live_at P s0).

Lemma evc_ec j : ec evc j = ec evo j. Proof. apply evm_ec. Qed.
Lemma evc_dst a b : dst_in (evc a) (evc b) = dst_in (evo a) (evo b). Proof. apply evm_dst. Qed.
Lemma evc_rd j : rd evc j = (j =? N)%nat || rd evo j. Proof. apply evm_rd. Qed.
Lemma evc_rd_N : rd evc N = true. Proof. rewrite evc_rd, Nat.eqb_refl. reflexivity. Qed.
Lemma evc_nodst j e : ev_ecall (evc j) = true -> dst_in (evc j) e = false. Proof. apply evm_nodst. Qed.

(* one latch of the invariant, index at most N *)
Lemma lv_cut j l (live bar : Prop) C : bar \/ ~ bar -> lv P live bar (sigma j s0) l C -> live ->
  prog (im (sigma j s0)) = P -> (j <= N)%nat ->
  (forall x, l = Some x -> lat_ j x) /\ (bar -> oc l && rd evc j = true) /\
  (oc l && rd evc j = true -> bar \/ j = N).
Proof.
  intros Hdec L Hlv HP Hj. destruct l as [x|]; cbn [lv oc nonempty andb] in *.
  - destruct (L Hlv) as (W & Hon & _ & Hb & Hnb).
    assert (Lx : lat_ j x) by (split; [exact W|split; [exact HP|exact Hon]]).
    split; [intros y Hy; injection Hy as <-; exact Lx|].
    destruct (Nat.eq_dec j N) as [->|Hne].
    + split; [intros _; apply evc_rd_N|intros _; right; reflexivity].
    + assert (Hlt : (j < N)%nat) by lia.
      pose proof (live_plain P Hsup s0 N HN1 j x Lx Hlt) as Hpl.
      assert (Er : rd evc j = rd evo j) by (rewrite evc_rd; replace (j =? N)%nat with false by lia; reflexivity).
      rewrite Er. split.
      * intros B. destruct (rd evo j) eqn:E; [reflexivity|]. exfalso. apply (Hb B). apply Hpl. reflexivity.
      * intros E. left. destruct Hdec as [B|NB]; [exact B|]. apply Hnb in NB. apply Hpl in NB. congruence.
  - split; [intros y Hy; discriminate Hy|]. split; [intros B; exfalso; exact (L B)|intros E; discriminate E].
Qed.

Section Facts.
Variables (p : pstate) (k : nat) (l0 l1 l2 l3 l4 : latch) (dead : nat).
Hypothesis IV : InvAt P p (sigma k s0) l0 l1 l2 l3 l4 dead.
Hypothesis Hk : (k <= N)%nat.
Hypothesis H3 : oc l3 = true -> (k < N)%nat.

Let o0 := oc l0. Let o1 := oc l1. Let o2 := oc l2. Let o3 := oc l3.
Let J2 := j2 o3 k. Let J1 := j1 o2 o3 k. Let J0 := j0 o1 o2 o3 k. Let JF := jF o0 o1 o2 o3 k.
Let D := deadf evc o0 o1 o2 o3 k.

Lemma cfact3 : forall x, l3 = Some x -> lat_ k x.
Proof.
  clear o0 o1 o2 o3 J2 J1 J0 JF D H3 Hk.
  intros x E. pose proof (iv_l3 _ _ _ _ _ _ _ _ _ IV) as L3. rewrite E in L3. cbn [lv3] in L3.
  destruct L3 as (W & Hon & _). split; [exact W|split; [exact (iv_progs _ _ _ _ _ _ _ _ _ IV)|exact Hon]].
Qed.

Lemma cfact_J2 : (J2 <= N)%nat /\ wf (sigma J2 s0) /\ prog (im (sigma J2 s0)) = P.
Proof.
  subst J2 o3. unfold j2. split.
  - destruct (oc l3) eqn:E; cbn [b2n]; [specialize (H3 eq_refl)|]; lia.
  - apply (adv_live P s0 N HN1); [exact (iv_wf _ _ _ _ _ _ _ _ _ IV)|exact (iv_progs _ _ _ _ _ _ _ _ _ IV)|exact cfact3].
Qed.

Lemma cfact2 : (forall x, l2 = Some x -> lat_ J2 x) /\ (dead = 3%nat -> o2 && rd evc J2 = true) /\
  (o2 && rd evc J2 = true -> dead = 3%nat \/ J2 = N).
Proof.
  destruct cfact_J2 as (Hj & W & HP).
  pose proof (iv_l2 _ _ _ _ _ _ _ _ _ IV) as L2. rewrite (adv_idx s0 N HN1) in L2. fold o3 in L2. fold (j2 o3 k) in L2.
  apply (lv_cut J2 l2 True (dead = 3%nat) Eok); try assumption; [lia|exact Logic.I].
Qed.

(* [D <= 2]: in the eyes of [T] latch 1 is on path; then it really is *)
Lemma cfact_J1 : (D <= 2)%nat -> (dead <= 2)%nat /\ (J1 <= N)%nat /\ wf (sigma J1 s0) /\ prog (im (sigma J1 s0)) = P.
Proof.
  intros HD. destruct cfact_J2 as (Hj & W & HP). destruct cfact2 as (F2 & Hd3 & Hr3).
  assert (Hn3 : o2 && rd evc J2 = false).
  { subst D. unfold deadf in HD. fold J2 in HD. destruct (o2 && rd evc J2); [lia|reflexivity]. }
  pose proof (iv_dead _ _ _ _ _ _ _ _ _ IV) as Hd.
  assert (Hd2 : (dead <= 2)%nat) by (destruct (Nat.eq_dec dead 3) as [E|]; [apply Hd3 in E; congruence|lia]).
  split; [exact Hd2|]. subst J1. unfold j1. fold J2. split.
  - destruct o2 eqn:E2; cbn [b2n]; [|lia]. cbn [andb] in Hn3.
    destruct (Nat.eq_dec J2 N) as [E|]; [rewrite E, evc_rd_N in Hn3; discriminate Hn3|lia].
  - subst o2. apply (adv_live P s0 N HN1); assumption.
Qed.

Lemma cfact1 : (D <= 2)%nat ->
  (forall x, l1 = Some x -> lat_ J1 x) /\ (dead = 2%nat -> o1 && rd evc J1 = true) /\
  (o1 && rd evc J1 = true -> dead = 2%nat \/ J1 = N).
Proof.
  intros HD. destruct (cfact_J1 HD) as (Hd2 & Hj & W & HP).
  pose proof (iv_l1 _ _ _ _ _ _ _ _ _ IV) as L1. rewrite !(adv_idx s0 N HN1) in L1.
  fold o3 o2 in L1. fold (j2 o3 k) (j1 o2 o3 k) in L1.
  apply (lv_cut J1 l1 _ (dead = 2%nat) _ ltac:(lia) L1); assumption.
Qed.

Lemma cfact_J0 : (D <= 1)%nat -> (dead <= 1)%nat /\ (J0 <= N)%nat /\ wf (sigma J0 s0) /\ prog (im (sigma J0 s0)) = P.
Proof.
  intros HD. destruct (cfact_J1 ltac:(lia)) as (Hd2 & Hj & W & HP). destruct (cfact1 ltac:(lia)) as (F1 & Hd & Hr).
  assert (Hn : o1 && rd evc J1 = false).
  { subst D. unfold deadf in HD. fold J2 J1 in HD. destruct (o2 && rd evc J2); [lia|]. destruct (o1 && rd evc J1); [lia|reflexivity]. }
  assert (Hd1 : (dead <= 1)%nat) by (destruct (Nat.eq_dec dead 2) as [E|]; [apply Hd in E; congruence|lia]).
  split; [exact Hd1|]. subst J0. unfold j0. fold J1. split.
  - destruct o1 eqn:E1; cbn [b2n]; [|lia]. cbn [andb] in Hn.
    destruct (Nat.eq_dec J1 N) as [E|]; [rewrite E, evc_rd_N in Hn; discriminate Hn|lia].
  - subst o1. apply (adv_live P s0 N HN1); assumption.
Qed.

Lemma cfact0 : (D <= 1)%nat ->
  (forall x, l0 = Some x -> lat_ J0 x) /\ (dead = 1%nat -> o0 && rd evc J0 = true) /\
  (o0 && rd evc J0 = true -> dead = 1%nat \/ J0 = N).
Proof.
  intros HD. destruct (cfact_J0 HD) as (Hd1 & Hj & W & HP).
  pose proof (iv_l0 _ _ _ _ _ _ _ _ _ IV) as L0. rewrite !(adv_idx s0 N HN1) in L0.
  fold o3 o2 o1 in L0. fold (j2 o3 k) (j1 o2 o3 k) (j0 o1 o2 o3 k) in L0.
  apply (lv_cut J0 l0 _ (dead = 1%nat) _ ltac:(lia) L0); assumption.
Qed.

Lemma cfactF : D = 0%nat ->
  (JF <= N)%nat /\ wf (sigma JF s0) /\ prog (im (sigma JF s0)) = P /\ exitc (sigma JF s0) = None /\
  pc (pst p) = pc (sigma JF s0).
Proof.
  intros HD. destruct (cfact_J0 ltac:(lia)) as (Hd1 & Hj & W & HP). destruct (cfact0 ltac:(lia)) as (F0 & Hd & Hr).
  assert (Hn : o0 && rd evc J0 = false).
  { subst D. unfold deadf in HD. fold J2 J1 J0 in HD. destruct (o2 && rd evc J2); [lia|].
    destruct (o1 && rd evc J1); [lia|]. destruct (o0 && rd evc J0); [lia|reflexivity]. }
  assert (Hd0 : dead = 0%nat) by (destruct (Nat.eq_dec dead 1) as [E|]; [apply Hd in E; congruence|lia]).
  pose proof (iv_fetch _ _ _ _ _ _ _ _ _ IV Hd0) as HF. cbv zeta in HF. rewrite !(adv_idx s0 N HN1) in HF.
  fold o3 o2 o1 o0 in HF. fold (j2 o3 k) (j1 o2 o3 k) (j0 o1 o2 o3 k) (jF o0 o1 o2 o3 k) in HF. fold JF in HF.
  destruct HF as (WF & HPF & HexF & HpcF). split; [|split; [exact WF|split; [exact HPF|split; [exact HexF|exact HpcF]]]].
  subst JF. unfold jF. fold J0. destruct o0 eqn:E0; cbn [b2n]; [|lia]. cbn [andb] in Hn.
  destruct (Nat.eq_dec J0 N) as [E|]; [rewrite E, evc_rd_N in Hn; discriminate Hn|lia].
Qed.

(* a real barrier in latch 2 is one for [T] *)
Lemma cdead3 : dead = 3%nat -> D = 3%nat.
Proof. intros E. destruct cfact2 as (_ & H & _). subst D. unfold deadf. fold J2. rewrite (H E). reflexivity. Qed.

End Facts.

(** * The flags of SchedStep.v in terms of the events *)
Section Flags.
Variables (p : pstate) (k : nat) (l0 l1 l2 l3 l4 : latch) (dead : nat).
Hypothesis IV : InvAt P p (sigma k s0) l0 l1 l2 l3 l4 dead.
Hypothesis Hk : (k <= N)%nat.
Hypothesis H3 : oc l3 = true -> (k < N)%nat.
Let o0 := oc l0. Let o1 := oc l1. Let o2 := oc l2. Let o3 := oc l3.
Let D := deadf evc o0 o1 o2 o3 k.

Lemma cbusy_link : (D <= 2)%nat -> busyf l1 l2 l3 = o1 && ec evc (j1 o2 o3 k) && (o2 || o3).
Proof.
  intros Hd. destruct (cfact1 p k l0 l1 l2 l3 l4 dead IV Hk H3 Hd) as [F1 _].
  subst o1 o2 o3. unfold busyf. fold (oc l2) (oc l3). f_equal. rewrite evc_ec.
  destruct (oc l1) eqn:E; cbn [andb].
  - destruct (oc_some _ E) as [x Hx]. unfold ec. rewrite (live_ev P s0 _ x (F1 x Hx)), Hx. reflexivity.
  - destruct l1; [discriminate E|reflexivity].
Qed.

Lemma chz_link : (D <= 1)%nat -> o0 = true ->
  hzflag l0 l1 l2 = (o1 && dst_in (evc (j1 o2 o3 k)) (evc (j0 o1 o2 o3 k))) ||
                    (o2 && dst_in (evc (j2 o3 k)) (evc (j0 o1 o2 o3 k))).
Proof.
  intros Hd Ho0. destruct (cfact0 p k l0 l1 l2 l3 l4 dead IV Hk H3 Hd) as [F0 _].
  destruct (cfact1 p k l0 l1 l2 l3 l4 dead IV Hk H3 ltac:(fold o0 o1 o2 o3; fold D; lia)) as [F1 _].
  destruct (cfact2 p k l0 l1 l2 l3 l4 dead IV Hk H3) as [F2 _].
  subst o0 o1 o2 o3. destruct (oc_some _ Ho0) as [y Hy]. rewrite !evc_dst.
  rewrite (live_ev P s0 _ y (F0 y Hy)). rewrite Hy. cbn [hzflag]. f_equal.
  - destruct (oc l1) eqn:E; cbn [andb].
    + destruct (oc_some _ E) as [x Hx]. rewrite (live_ev P s0 _ x (F1 x Hx)), dst_in_reads, Hx. reflexivity.
    + destruct l1; [discriminate E|reflexivity].
  - destruct (oc l2) eqn:E; cbn [andb].
    + destruct (oc_some _ E) as [x Hx]. rewrite (live_ev P s0 _ x (F2 x Hx)), dst_in_reads, Hx. reflexivity.
    + destruct l2; [discriminate E|reflexivity].
Qed.

Lemma cfetch_link : D = 0%nat ->
  is_some (instr_at P (pc (pst p))) = (jF o0 o1 o2 o3 k <? S N)%nat.
Proof.
  intros Hd. destruct (cfactF p k l0 l1 l2 l3 l4 dead IV Hk H3 Hd) as (Hj & W & HP & Hex & Hpc).
  fold o0 o1 o2 o3 in Hj, W, HP, Hex, Hpc. set (JF := jF o0 o1 o2 o3 k) in *. rewrite Hpc.
  replace (JF <? S N)%nat with true by lia.
  assert (Hnd : single_done (sigma JF s0) = false).
  { destruct (Nat.eq_dec JF N) as [E|NE]; [rewrite E; exact HNe|apply (HN1 JF); lia]. }
  unfold single_done, has_instr in Hnd. rewrite Hex, HP in Hnd.
  destruct (instr_at P (pc (sigma JF s0))); [reflexivity|discriminate Hnd].
Qed.

End Flags.

Lemma cexit_redirect j x : lat_ j x -> exitc (nxt (sigma j s0)) <> None -> rd evc j = true.
Proof. intros L Hx. rewrite evc_rd, (exit_redirect P s0 j x L Hx). apply Bool.orb_true_r. Qed.

(** * One cycle, before instruction N leaves EX *)
Lemma cview_step t p k l0 l1 l2 l3 l4 dead p' :
  InvAt P p (sigma k s0) l0 l1 l2 l3 l4 dead -> (k <= N)%nat -> (oc l3 = true -> (k < N)%nat) ->
  T evc (S N) t (oc l0) (oc l1) (oc l2) (oc l3) (stalled p) k ->
  (t < X evc N)%nat -> pipe_step p = (p', None) ->
  exists n0 n1 n2 n3 n4, lat p' = [n0; n1; n2; n3; n4] /\
    T evc (S N) (S t) (oc n0) (oc n1) (oc n2) (oc n3) (stalled p') (k + b2n (oc l3)) /\
    (oc n3 = true -> (k + b2n (oc l3) < N)%nat).
Proof.
  intros IV Hk H3 HT Hlt Hps. pose proof (iv_shape _ _ _ _ _ _ _ _ _ IV) as Sh.
  destruct (cfact2 p k l0 l1 l2 l3 l4 dead IV Hk H3) as (F2 & Hd3 & Hr3).
  destruct (cfact_J2 p k l0 l1 l2 l3 l4 dead IV Hk H3) as (HJ2 & _).
  set (D := deadf evc (oc l0) (oc l1) (oc l2) (oc l3) k).
  (* a fired slot in latch 2 is not instruction N yet *)
  assert (HN2 : oc l2 = true -> m2 (stalled p) = 0%nat -> (j2 (oc l3) k < N)%nat).
  { intros B2 Hm. pose proof (T_2 _ _ _ _ _ _ _ _ _ HT B2) as H2. rewrite Hm in H2.
    destruct (Nat.eq_dec (j2 (oc l3) k) N) as [E|]; [rewrite E in H2; lia|lia]. }
  assert (HD3 : dead <> 3%nat -> m2 (stalled p) = 0%nat -> D <> 3%nat).
  { intros Hd Hm HD. assert (Hb : oc l2 && rd evc (j2 (oc l3) k) = true).
    { subst D. unfold deadf in HD. destruct (oc l2 && rd evc (j2 (oc l3) k)); [reflexivity|].
      destruct (oc l1 && _); [discriminate HD|]. destruct (oc l0 && _); discriminate HD. }
    destruct (Hr3 Hb) as [E|E]; [contradiction|].
    apply Bool.andb_true_iff in Hb. destruct Hb as [B2 _]. specialize (HN2 B2 Hm). lia. }
  assert (HDle : D <> 3%nat -> (D <= 2)%nat).
  { intros H. subst D. unfold deadf in *. destruct (oc l2 && _); [congruence|].
    destruct (oc l1 && _); [lia|]. destruct (oc l0 && _); lia. }
  (* the cycle redirects from MEM *)
  assert (HA : forall md, stalled p = md -> m2 md = 0%nat -> flush3 p' l2 dead ->
            exists n0 n1 n2 n3 n4, lat p' = [n0; n1; n2; n3; n4] /\
              T evc (S N) (S t) (oc n0) (oc n1) (oc n2) (oc n3) (stalled p') (k + b2n (oc l3)) /\
              (oc n3 = true -> (k + b2n (oc l3) < N)%nat)).
  { intros md Hmd Hm2 (n3 & n4 & Hlat & Hn3 & Hn2 & Hd & Hst').
    exists None, None, None, n3, n4. split; [exact Hlat|]. rewrite Hst'. cbn [oc nonempty]. fold (oc n3).
    rewrite (oc_true_some _ Hn3). fold (oc l2) in Hn2.
    split; [|intros _; apply (HN2 Hn2); rewrite Hmd; exact Hm2].
    rewrite Hmd in HT. rewrite Hn2 in HT.
    apply (T_flush3 evc (S N) evc_nodst t (oc l0) (oc l1) (oc l3) md k HT); [|exact Hm2].
    specialize (Hd3 Hd). rewrite Hn2 in Hd3. exact Hd3. }
  destruct (shape_mode_cases no_icache p Sh) as [Hst|(km & d & Hst & [-> | ->])].
  - (* not stalled *)
    destruct (ctl_normal P Hsup p _ l0 l1 l2 l3 l4 dead p' IV Hst Hps)
      as [HF3 | [(Hl2 & Hl3 & Hec & (n2 & n4 & Hlat & Hn2 & Hst' & Hfd & Hex)) |
              (n0 & n1 & n2 & n3 & n4 & Hlat & Hdn3 & Hn0 & Hn1 & Hn2 & Hn3 & Hst')]].
    + apply (HA None Hst eq_refl HF3).
    + (* an ecall fires and exits *)
      exists None, None, n2, None, n4. split; [exact Hlat|]. rewrite Hst'. cbn [oc nonempty]. fold (oc n2).
      rewrite (oc_true_some _ Hn2). split; [|intros H; discriminate H].
      rewrite Hst in HT. subst l2 l3. cbn [oc nonempty b2n] in *. rewrite Nat.add_0_r.
      assert (Ho1 : oc l1 = true) by (destruct l1; [reflexivity|discriminate Hec]).
      rewrite Ho1 in HT. apply (T_exit_normal evc (S N) evc_nodst t (oc l0) k HT).
      destruct (oc_some _ Ho1) as [x1 Hx1].
      destruct (cfact1 p k l0 l1 None None l4 dead IV Hk H3) as [F1 _].
      { unfold deadf. cbn [oc nonempty andb]. destruct (oc l1 && _); [lia|]. destruct (oc l0 && _); lia. }
      specialize (F1 x1 Hx1). unfold j1, j2 in F1. cbn [oc nonempty b2n] in F1. rewrite !Nat.add_0_r in F1.
      apply (cexit_redirect k x1 F1 Hex).
    + (* every slot moves on *)
      exists n0, n1, n2, n3, n4. split; [exact Hlat|]. unfold oc at 1 2 3 4. rewrite Hn1, Hn2, Hn3, Hst'.
      fold (oc l0) (oc l1) (oc l2). fold (oc n0). rewrite Hst in HT.
      assert (Hm0 : m2 (stalled p) = 0%nat) by (rewrite Hst; reflexivity).
      pose proof (HD3 Hdn3 Hm0) as HDn3. pose proof (HDle HDn3) as HD2.
      split; [|unfold oc at 1; rewrite Hn3; fold (oc l2); intros B2; apply (HN2 B2 Hm0)].
      apply (T_shift evc (S N) evc_nodst t (oc l0) (oc l1) (oc l2) (oc l3) k (oc n0)
               (hzflag l0 l1 l2) (busyf l1 l2 l3) HT).
      * exact HDn3.
      * apply (cbusy_link p k l0 l1 l2 l3 l4 dead IV Hk H3 HD2).
      * intros Ho0 Hd1. apply (chz_link p k l0 l1 l2 l3 l4 dead IV Hk H3 Hd1 Ho0).
      * intros Ho0. destruct l0; [discriminate Ho0|reflexivity].
      * intros Hd0. unfold oc at 1. rewrite Hn0.
        apply (cfetch_link p k l0 l1 l2 l3 l4 dead IV Hk H3 Hd0).
  - (* stalled at ID *)
    destruct (ctl_stall1 P Hsup p _ l0 l1 l2 l3 l4 dead d p' IV Hst Hps)
      as (Hd12 & Hl1 & Hd1 & [HF3 | (n1 & n3 & n4 & Hlat & Hdn3 & Hn1 & Hn3 & Hst')]).
    + apply (HA (Some (1, d)) Hst eq_refl HF3).
    + exists l0, n1, None, n3, n4. split; [exact Hlat|]. unfold oc at 2 3 4. rewrite Hn1, Hn3, Hst'.
      cbn [nonempty]. fold (oc l2).
      assert (Hm0 : m2 (stalled p) = 0%nat) by (rewrite Hst; reflexivity).
      split; [|intros B2; unfold oc in B2; rewrite Hn3 in B2; exact (HN2 B2 Hm0)].
      rewrite Hst in HT. fold (oc l1) in Hl1. rewrite Hl1 in HT.
      apply (T_stall1 evc (S N) evc_nodst t (oc l0) (oc l2) (oc l3) d k HT Hd12).
      * intros Hd. rewrite (Hd1 Hd). reflexivity.
      * pose proof (HD3 Hdn3 Hm0) as HDn. subst D. rewrite Hl1 in HDn. exact HDn.
  - (* stalled at EX *)
    destruct (ctl_stall2 P Hsup p _ l0 l1 l2 l3 l4 dead d p' IV Hst Hps)
      as (Hl2 & [(-> & Hl3 & n1 & n4 & Hlat & Hn1 & Hst') |
                 [(-> & Hl3 & n1 & n2 & Hlat & Hn1 & Hn2 & Hfd & Hst') |
                  (-> & Hl3 & n2 & n4 & Hlat & Hn2 & Hst' & Hfd & Hex)]]).
    + exists l0, n1, l2, None, n4. split; [exact Hlat|]. unfold oc at 2. rewrite Hn1, Hst'.
      fold (oc l1). fold (oc l2) in Hl2. fold (oc l3) in Hl3. split; [|intros H; discriminate H].
      rewrite Hst, Hl2, Hl3 in HT. rewrite Hl2, Hl3.
      cbn [oc nonempty b2n]. rewrite Nat.add_1_r. apply (T_stall2_wait evc (S N) evc_nodst t _ _ k HT).
    + exists l0, n1, n2, None, None. split; [exact Hlat|]. unfold oc at 2 3. rewrite Hn1, Hn2, Hst'.
      fold (oc l1). fold (oc l2) in Hl2. split; [|intros H; discriminate H]. subst l3. rewrite Hst, Hl2 in HT.
      cbn [oc nonempty b2n] in *. rewrite Nat.add_0_r. apply (T_stall2_fire evc (S N) evc_nodst t _ _ k HT).
    + exists None, None, n2, None, n4. split; [exact Hlat|]. unfold oc at 3. rewrite Hn2, Hst'.
      fold (oc l2) in Hl2. split; [|intros H; discriminate H]. subst l3. rewrite Hst, Hl2 in HT.
      cbn [oc nonempty b2n] in *. rewrite Nat.add_0_r. apply (T_exit_stall2 evc (S N) evc_nodst t _ _ k HT).
      destruct (oc_some _ Hl2) as [x2 Hx2]. specialize (F2 x2 Hx2).
      unfold j2 in F2. cbn [oc nonempty b2n] in F2. rewrite Nat.add_0_r in F2.
      apply (cexit_redirect k x2 F2 Hex).
Qed.

(** * The invariant *)
Definition Jc (t : nat) (p : pstate) (k : nat) : Prop :=
  exists l0 l1 l2 l3 l4 dead, InvAt P p (sigma k s0) l0 l1 l2 l3 l4 dead /\ (k <= N)%nat /\
    (oc l3 = true -> (k < N)%nat) /\
    T evc (S N) t (oc l0) (oc l1) (oc l2) (oc l3) (stalled p) k.

Lemma Jc_init : wf s0 -> prog (im s0) = P -> exitc s0 = None -> Jc 0 (pipe_init s0 true) 0.
Proof.
  intros W HP Hex. destruct (inv_init P s0 W HP Hex) as (l0 & l1 & l2 & l3 & l4 & dead & IV).
  pose proof (iv_lat _ _ _ _ _ _ _ _ _ IV) as Hl. cbn [pipe_init lat] in Hl. injection Hl as <- <- <- <- <-.
  exists None, None, None, None, None, dead. split; [exact IV|]. split; [lia|]. split; [intros H; discriminate H|].
  apply T_init. exact evc_nodst.
Qed.

Lemma Jc_retired t p k : Jc t p k -> (0 < k)%nat -> (X evc (k - 1) + 2 <= t)%nat.
Proof. intros (l0 & l1 & l2 & l3 & l4 & dead & _ & _ & _ & HT) Hk. exact (T_R _ _ _ _ _ _ _ _ _ HT Hk). Qed.
Lemma Jc_bound t p k : Jc t p k -> (t <= X evc k + 1)%nat /\ (k <= N)%nat.
Proof.
  intros (l0 & l1 & l2 & l3 & l4 & dead & _ & Hk & _ & HT). split; [|exact Hk].
  apply (T_bound_gen _ _ _ _ _ _ _ _ _ HT). lia.
Qed.

Ltac dif := repeat match goal with |- context [if ?b then _ else _] => destruct b end; lia.
(* the time never passes the execute cycle of instruction N; it reaches it with N fired in latch 2 *)
Lemma Jc_time t p k l0 l1 l2 l3 l4 dead : InvAt P p (sigma k s0) l0 l1 l2 l3 l4 dead -> (k <= N)%nat ->
  (oc l3 = true -> (k < N)%nat) -> T evc (S N) t (oc l0) (oc l1) (oc l2) (oc l3) (stalled p) k ->
  (t <= X evc N)%nat /\
  ((t < X evc N)%nat \/ (oc l2 = true /\ j2 (oc l3) k = N /\ m2 (stalled p) = 0%nat)).
Proof.
  intros IV Hk H3 HT. pose proof HT as [R T3 T2 T1 T0 TF].
  destruct (oc l3) eqn:E3.
  - specialize (H3 eq_refl). specialize (T3 eq_refl).
    pose proof (X_mono evc (S k) N ltac:(lia)) as Hm. pose proof (X_lt evc k) as Hl.
    split; [lia|]. destruct (Nat.lt_ge_cases t (X evc N)) as [H|H]; [left; exact H|right].
    assert (HkN : S k = N).
    { destruct (Nat.eq_dec (S k) N); [assumption|]. pose proof (X_mono evc (S (S k)) N ltac:(lia)). pose proof (X_lt evc (S k)). lia. }
    unfold j2. cbn [b2n]. rewrite Nat.add_1_r.
    destruct (oc l2) eqn:E2.
    + specialize (T2 eq_refl). unfold j2 in T2. cbn [b2n] in T2. rewrite Nat.add_1_r, HkN in T2.
      split; [reflexivity|]. split; [exact HkN|lia].
    + exfalso. (* latch 2 empty: N is at least two cycles behind *)
      destruct (oc l1) eqn:E1.
      * assert (Hd : (deadf evc (oc l0) true false true k <= 2)%nat).
        { unfold deadf. cbn [andb]. dif. }
        specialize (T1 eq_refl Hd). unfold j1, j2 in T1. cbn [b2n] in T1. rewrite Nat.add_0_r, Nat.add_1_r, HkN in T1. lia.
      * destruct (oc l0) eqn:E0.
        -- assert (Hd : (deadf evc true false false true k <= 1)%nat) by (unfold deadf; cbn [andb]; dif).
           destruct (T0 eq_refl Hd eq_refl) as (_ & _ & _ & H9). discriminate H9.
        -- assert (Hd : deadf evc false false false true k = 0%nat) by reflexivity.
           assert (HjF : (jF false false false true k < S N)%nat) by (unfold jF, j0, j1, j2; cbn [b2n]; lia).
           destruct (TF Hd eq_refl HjF) as (Hx & _). unfold jF, j0, j1, j2 in Hx. cbn [b2n] in Hx.
           rewrite !Nat.add_0_r, Nat.add_1_r, HkN in Hx. lia.
  - pose proof (T_bound_gen _ _ _ _ _ _ _ _ _ HT ltac:(lia)) as Hb. pose proof (X_mono evc k N Hk) as Hm.
    destruct (oc l2) eqn:E2.
    + specialize (T2 eq_refl). unfold j2 in T2. cbn [b2n] in T2. rewrite Nat.add_0_r in T2.
      split; [lia|]. destruct (Nat.lt_ge_cases t (X evc N)) as [H|H]; [left; exact H|right].
      assert (HkN : k = N).
      { destruct (Nat.eq_dec k N); [assumption|]. pose proof (X_mono evc (S k) N ltac:(lia)). pose proof (X_lt evc k). lia. }
      split; [reflexivity|]. unfold j2. cbn [b2n]. rewrite Nat.add_0_r. split; [exact HkN|]. subst k. lia.
    + assert (Hlt : (t < X evc k)%nat); [|split; [lia|left; lia]].
      destruct (oc l1) eqn:E1.
      * assert (Hd : (deadf evc (oc l0) true false false k <= 2)%nat).
        { unfold deadf. cbn [andb]. dif. }
        specialize (T1 eq_refl Hd). unfold j1, j2 in T1. cbn [b2n] in T1. rewrite !Nat.add_0_r in T1. lia.
      * destruct (oc l0) eqn:E0.
        -- assert (Hd : (deadf evc true false false false k <= 1)%nat) by (unfold deadf; cbn [andb]; dif).
           destruct (T0 eq_refl Hd eq_refl) as (Hx & _). unfold j0, j1, j2 in Hx. cbn [b2n] in Hx. rewrite !Nat.add_0_r in Hx. lia.
        -- assert (Hd : deadf evc false false false false k = 0%nat) by reflexivity.
           assert (HjF : (jF false false false false k < S N)%nat) by (unfold jF, j0, j1, j2; cbn [b2n]; lia).
           destruct (TF Hd eq_refl HjF) as (Hx & _). unfold jF, j0, j1, j2 in Hx. cbn [b2n] in Hx. rewrite !Nat.add_0_r in Hx. lia.
Qed.

Lemma Jc_notdone t p k : Jc t p k -> pipe_done p = false.
Proof.
  intros (l0 & l1 & l2 & l3 & l4 & dead & IV & Hk & H3 & HT).
  rewrite (done_iff P _ _ _ _ _ _ _ _ IV).
  destruct (Nat.lt_ge_cases k N) as [Hlt|Hge]; [apply (HN1 k Hlt)|].
  assert (k = N) by lia. subst k. exact HNe.
Qed.

(* a fault of the pipeline is the fault of instruction N, at the cycle given by the recurrence *)
Lemma Jc_fault t p k p' f : Jc t p k -> pipe_step p = (p', Some f) ->
  (exists tm, single_pipeline_step (sigma N s0) = (tm, Some f)) /\ S t = fault_step s0 N true /\
  icount (pst p') = icount (sigma N s0) /\ (k = N \/ S k = N).
Proof.
  intros HJ Hps. pose proof (Jc_notdone _ _ _ HJ) as Hnd.
  destruct HJ as (l0 & l1 & l2 & l3 & l4 & dead & IV & Hk & H3 & HT).
  destruct (cfact_J2 p k l0 l1 l2 l3 l4 dead IV Hk H3) as (Hj2 & W2 & HP2). unfold j2 in Hj2, W2, HP2.
  pose proof (inv_step_e P Hsup _ _ _ _ _ _ _ _ IV Hnd) as Hstep. unfold step_goal in Hstep.
  rewrite Hps in Hstep. destruct Hstep as (tm & Hss & Hnd2 & _). rewrite (adv_idx s0 N HN1) in Hss, Hnd2.
  assert (HJN : (k + b2n (oc l3))%nat = N).
  { destruct (Nat.lt_ge_cases (k + b2n (oc l3)) N) as [Hlt|Hge]; [|lia].
    destruct (HN1 _ Hlt) as [_ Hok]. rewrite Hss in Hok. discriminate Hok. }
  split; [exists tm; rewrite <- HJN; exact Hss|].
  destruct (ctl_fault P Hsup p _ _ _ _ _ _ _ p' f IV Hps) as (Hic & Hkind).
  destruct (cfact2 p k l0 l1 l2 l3 l4 dead IV Hk H3) as (F2 & Hd3 & _).
  assert (Hfs : S t = fault_step s0 N true).
  { unfold fault_step. destruct Hkind as [(B2 & Hf2 & He2 & Hmd)|[(Hmd & -> & -> & He1)|(Hmd & -> & B2 & He2)]].
    - destruct (oc_some _ B2) as [x2 Hx2]. fold (oc l2) in B2.
      pose proof (T_2 _ _ _ _ _ _ _ _ _ HT B2) as H2. unfold j2 in H2. rewrite HJN in H2.
      assert (Hm2 : m2 (stalled p) = 0%nat) by (destruct Hmd as [->|[d ->]]; reflexivity).
      assert (Hec : ec evo N = false).
      { pose proof (F2 x2 Hx2) as L2. unfold j2 in L2. rewrite HJN in L2.
        unfold ec. rewrite (live_ev P s0 _ x2 L2). subst l2. exact He2. }
      rewrite Hec, H2, Hm2. lia.
    - cbn [oc nonempty b2n] in *. rewrite Nat.add_0_r in HJN. subst k.
      assert (B1 : oc l1 = true) by (destruct l1; [reflexivity|discriminate He1]).
      assert (HD2 : (deadf evc (oc l0) (oc l1) false false N <= 2)%nat) by (unfold deadf; cbn [andb]; dif).
      destruct (cfact1 p N l0 l1 None None l4 dead IV Hk H3 HD2) as (F1 & _).
      destruct (oc_some _ B1) as [x1 Hx1]. specialize (F1 x1 Hx1).
      unfold j1, j2 in F1. cbn [oc nonempty b2n] in F1. rewrite !Nat.add_0_r in F1.
      assert (Hec : ec evo N = true) by (unfold ec; rewrite (live_ev P s0 _ x1 F1); subst l1; exact He1).
      pose proof (T_1 _ _ _ _ _ _ _ _ _ HT B1 HD2) as H1.
      unfold j1, j2 in H1. cbn [b2n] in H1. rewrite !Nat.add_0_r in H1.
      rewrite Hmd in H1. cbn [dm bz orb] in H1. rewrite Bool.andb_false_r in H1.
      rewrite Hec, H1. lia.
    - cbn [oc nonempty b2n] in *. rewrite Nat.add_0_r in HJN. subst k. fold (oc l2) in B2.
      destruct (oc_some _ B2) as [x2 Hx2].
      pose proof (T_2 _ _ _ _ _ _ _ _ _ HT B2) as H2. unfold j2 in H2. cbn [b2n] in H2. rewrite Nat.add_0_r in H2.
      rewrite Hmd in H2. cbn in H2.
      specialize (F2 x2 Hx2). unfold j2 in F2. cbn [b2n] in F2. rewrite Nat.add_0_r in F2.
      assert (Hec : ec evo N = true) by (unfold ec; rewrite (live_ev P s0 _ x2 F2); subst l2; exact He2).
      rewrite Hec, H2. lia. }
  split; [exact Hfs|].
  rewrite Hic, (iv_icount _ _ _ _ _ _ _ _ _ IV). fold (oc l3).
  destruct (oc l3) eqn:E3; cbn [b2n] in HJN.
  + destruct (oc_some _ E3) as [x3 Hx3]. destruct (cfact3 p k l0 l1 l2 l3 l4 dead IV x3 Hx3) as (Wk & HPk & (_ & _ & Hi)).
    assert (HNk : N = S k) by lia. rewrite HNk at 1. rewrite (sigma_S s0 N HN1). rewrite <- HPk in Hi.
    rewrite (icount_nxt _ _ Wk Hi (sup_at P Hsup _ _ ltac:(rewrite <- HPk; exact Hi))).
    split; [reflexivity|right; lia].
  + assert (HNk : N = k) by lia. rewrite HNk at 1. split; [lia|left; lia].
Qed.

(* a fired slot in latch 2 moves to latch 3 in a fault-free step *)
Lemma l2_moves p s l0 l1 l2 l3 l4 dead p' : InvAt P p s l0 l1 l2 l3 l4 dead -> oc l2 = true ->
  m2 (stalled p) = 0%nat -> pipe_step p = (p', None) -> nonempty (lat_at (lat p') 3) = true.
Proof.
  intros IV B2 Hm Hps. pose proof (iv_shape _ _ _ _ _ _ _ _ _ IV) as Sh.
  assert (HF : flush3 p' l2 dead -> nonempty (lat_at (lat p') 3) = true).
  { intros (n3 & n4 & Hl & Hn & _). rewrite Hl. exact Hn. }
  destruct (shape_mode_cases no_icache p Sh) as [Hst|(km & d & Hst & [-> | ->])].
  - destruct (ctl_normal P Hsup p _ l0 l1 l2 l3 l4 dead p' IV Hst Hps)
      as [A|[(E2 & _)|(n0 & n1 & n2 & n3 & n4 & Hl & _ & _ & _ & _ & Hn3 & _)]].
    + exact (HF A).
    + rewrite E2 in B2. discriminate B2.
    + rewrite Hl. change (nonempty n3 = true). rewrite Hn3. exact B2.
  - destruct (ctl_stall1 P Hsup p _ l0 l1 l2 l3 l4 dead d p' IV Hst Hps)
      as (_ & _ & _ & [A|(n1 & n3 & n4 & Hl & _ & _ & Hn3 & _)]).
    + exact (HF A).
    + rewrite Hl. change (nonempty n3 = true). rewrite Hn3. exact B2.
  - exfalso. rewrite Hst in Hm. cbn in Hm.
    destruct (ctl_stall2 P Hsup p _ l0 l1 l2 l3 l4 dead d p' IV Hst Hps)
      as (_ & [(-> & _)|[(-> & _)|(-> & _)]]); cbn in Hm; lia.
Qed.

Lemma Jc_ok t p k p' : Jc t p k -> pipe_step p = (p', None) ->
  ((t < X evc N)%nat ->
     (lat_at (lat p') 4 = None /\ Jc (S t) p' k) \/
     (exists x, lat_at (lat p') 4 = Some x /\ sl_addr x = pc (sigma k s0) /\ S t = (X evc k + 2)%nat /\
                (k < N)%nat /\ Jc (S t) p' (S k))) /\
  (~ (t < X evc N)%nat -> snd (single_pipeline_step (sigma N s0)) = None /\
     exists z, lat_at (lat p) 2 = Some z /\ m2 (stalled p) = 0%nat /\
               (k + b2n (oc (lat_at (lat p) 3)))%nat = N).
Proof.
  intros HJ Hps. pose proof (Jc_notdone _ _ _ HJ) as Hnd.
  destruct HJ as (l0 & l1 & l2 & l3 & l4 & dead & IV & Hk & H3 & HT).
  pose proof (inv_step_e P Hsup _ _ _ _ _ _ _ _ IV Hnd) as Hstep. unfold step_goal in Hstep.
  rewrite Hps in Hstep. destruct Hstep as (Hinv' & Hl4 & _). rewrite (adv_idx s0 N HN1) in Hinv'.
  split.
  - intros Hlt.
    destruct (cview_step t p k l0 l1 l2 l3 l4 dead p' IV Hk H3 HT Hlt Hps)
      as (n0 & n1 & n2 & n3 & n4 & Hlat & HT' & H3').
    assert (HJ' : forall k', (k + b2n (oc l3))%nat = k' -> (k' <= N)%nat -> Jc (S t) p' k').
    { intros k' <- Hk'. destruct Hinv' as [(m0 & m1 & m2' & m3 & m4 & dd & IV')|E'].
      - exists m0, m1, m2', m3, m4, dd. split; [exact IV'|].
        pose proof (iv_lat _ _ _ _ _ _ _ _ _ IV') as Hl. rewrite Hlat in Hl. injection Hl as -> -> -> -> ->.
        split; [exact Hk'|]. split; [exact H3'|exact HT'].
      - exfalso. destruct (exiting_step P Hsup _ _ E') as (_ & _ & _ & Hsd' & _).
        destruct E' as (e0 & x3 & e4 & Hl & _). rewrite Hlat in Hl. injection Hl as -> -> -> -> ->.
        specialize (H3' eq_refl). rewrite <- (sigma_S s0 N HN1) in Hsd'.
        destruct (Nat.eq_dec (S (k + b2n (oc l3))) N) as [EN|NN].
        + rewrite EN in Hsd'. congruence.
        + destruct (HN1 (S (k + b2n (oc l3))) ltac:(lia)) as [Hc _]. congruence. }
    destruct (oc l3) eqn:Ho3; cbn [b2n] in *.
    + right. destruct (oc_some _ Ho3) as [x3 Hx3]. rewrite Hx3 in Hl4. cbn [option_map] in Hl4.
      exists (wb_slot x3). split; [exact Hl4|].
      destruct (cfact3 p k l0 l1 l2 l3 l4 dead IV x3 Hx3) as (_ & _ & (_ & Ha & _)).
      split; [exact Ha|]. pose proof (T_3 _ _ _ _ _ _ _ _ _ HT eq_refl) as HT3. split; [lia|].
      specialize (H3 eq_refl). split; [exact H3|]. apply HJ'; lia.
    + left. destruct l3; [discriminate Ho3|]. split; [exact Hl4|]. apply HJ'; [lia|exact Hk].
  - intros Hge. destruct (Jc_time t p k l0 l1 l2 l3 l4 dead IV Hk H3 HT) as (_ & [Hlt|(B2 & HJN & Hm)]); [contradiction|].
    pose proof (l2_moves p _ l0 l1 l2 l3 l4 dead p' IV B2 Hm Hps) as Hn3.
    unfold j2 in HJN. rewrite HJN in Hinv'.
    split; [|destruct (oc_some _ B2) as [z Hz]; exists z; rewrite (iv_lat _ _ _ _ _ _ _ _ _ IV);
             split; [exact Hz|split; [exact Hm|exact HJN]]].
    destruct Hinv' as [(m0 & m1 & m2' & m3 & m4 & dd & IV')|E'].
    + pose proof (iv_l3 _ _ _ _ _ _ _ _ _ IV') as L3. rewrite (iv_lat _ _ _ _ _ _ _ _ _ IV') in Hn3. change (nonempty m3 = true) in Hn3.
      destruct m3; [|discriminate Hn3]. cbn [lv3] in L3. destruct L3 as (_ & _ & _ & (Hok & _)). exact Hok.
    + destruct (exiting_step P Hsup _ _ E') as (_ & _ & Hss & _). rewrite Hss. reflexivity.
Qed.

(* the slot that enters MEM: which instruction it is, and when *)
Lemma Jc_mem t p k z : Jc t p k -> lat_at (lat p) 2 = Some z -> m2 (stalled p) = 0%nat ->
  let j := (k + b2n (oc (lat_at (lat p) 3)))%nat in
  (j <= N)%nat /\ lat_ j z /\ Eok (sigma j s0) z /\ (j = N -> X evc N = t).
Proof.
  intros (l0 & l1 & l2 & l3 & l4 & dead & IV & Hk & H3 & HT) Hz Hm.
  rewrite (iv_lat _ _ _ _ _ _ _ _ _ IV) in Hz |- *. change (l2 = Some z) in Hz.
  change (lat_at [l0; l1; l2; l3; l4] 3) with l3. fold (oc l3).
  destruct (cfact_J2 p k l0 l1 l2 l3 l4 dead IV Hk H3) as (Hj2 & W2 & HP2).
  destruct (cfact2 p k l0 l1 l2 l3 l4 dead IV Hk H3) as (F2 & _).
  cbv zeta. fold (j2 (oc l3) k). split; [exact Hj2|]. split; [exact (F2 z Hz)|].
  pose proof (iv_l2 _ _ _ _ _ _ _ _ _ IV) as L2. rewrite (adv_idx s0 N HN1) in L2. rewrite Hz in L2. cbn [lv] in L2.
  destruct (L2 Logic.I) as (_ & _ & He & _). split; [exact He|].
  intros E. assert (B2 : oc l2 = true) by (rewrite Hz; reflexivity).
  pose proof (T_2 _ _ _ _ _ _ _ _ _ HT B2) as H2. rewrite E, Hm in H2. lia.
Qed.

(* the retire counter, and the instruction behind latch 3 *)
Lemma Jc_icount t p k : Jc t p k ->
  let j := (k + b2n (oc (lat_at (lat p) 3)))%nat in
  (j <= N)%nat /\ (k <= j)%nat /\
  icount (sigma j s0) = icount (pst p) + (if nonempty (lat_at (lat p) 3) then 1 else 0).
Proof.
  intros (l0 & l1 & l2 & l3 & l4 & dead & IV & Hk & H3 & HT).
  rewrite (iv_lat _ _ _ _ _ _ _ _ _ IV). change (lat_at [l0; l1; l2; l3; l4] 3) with l3. fold (oc l3). cbv zeta.
  destruct (cfact_J2 p k l0 l1 l2 l3 l4 dead IV Hk H3) as (Hj2 & _).
  split; [exact Hj2|]. split; [lia|].
  - rewrite (iv_icount _ _ _ _ _ _ _ _ _ IV). destruct (oc l3) eqn:E3; cbn [b2n].
    + destruct (oc_some _ E3) as [x3 Hx3]. destruct (cfact3 p k l0 l1 l2 l3 l4 dead IV x3 Hx3) as (Wk & HPk & (_ & _ & Hi)).
      rewrite Nat.add_1_r, (sigma_S s0 N HN1). rewrite <- HPk in Hi.
      apply (icount_nxt _ _ Wk Hi (sup_at P Hsup _ _ ltac:(rewrite <- HPk; exact Hi))).
    + rewrite Nat.add_0_r. lia.
Qed.

Lemma Jc_shape t p k : Jc t p k -> Shape no_icache p /\ icount (pst p) = icount (sigma k s0).
Proof.
  intros (l0 & l1 & l2 & l3 & l4 & dead & IV & _). split; [exact (iv_shape _ _ _ _ _ _ _ _ _ IV)|].
  rewrite (iv_icount _ _ _ _ _ _ _ _ _ IV). reflexivity.
Qed.

End Cut.
