(* PipeLaws.v — layer 0 of the control-path proof of C02/C07/C08: structural laws of
   [pipe_step] (Model/Pipe.v).  Nothing here speaks about data values.

   Contents
     0.  tactics, state-field algebra, counter readers ([dpen dacc dhit ipen iacc ihit], [Phi])
     1.  per-call facts: st_read / st_write / fetch / process_ecall and the counters
     2.  per-stage frames (which fields of [st] a stage may change) and per-stage latch shapes
     3.  L0.1  [run_stages] per stall mode (single-latch stage functions [wb_on] ...)
     4.  [pipe_step] = [bump] ; [run_stages] ; [post]   and the case laws of [post]
     5.  L0.2  cycle_law        L0.3 counters_monotone   L0.4 nohaz laws
         L0.5  wb_before_id     L0.6 flush laws          L0.7 stall countdown *)
From Coq Require Import Lia ZifyBool.
From ArchSim Require Import Model.Base Model.Mem Model.Cache Model.Fmt Model.RV Model.Single
  Model.RVSplit Model.Pipe.
Open Scope Z_scope.

Ltac Zify.zify_post_hook ::= Z.to_euclidean_division_equations.
Local Arguments Z.mul : simpl never.
Local Arguments Z.add : simpl never.
Local Arguments Z.sub : simpl never.
Local Arguments Z.pow : simpl never.
Local Arguments Z.div : simpl never.
Local Arguments Z.modulo : simpl never.
Local Arguments Z.land : simpl never.
Local Arguments Z.shiftl : simpl never.
Local Arguments Z.shiftr : simpl never.
Local Arguments Z.of_nat : simpl never.

(** * 0. Tactics and state-field algebra *)

(* destruct the scrutinee of one [match]/[if] of the goal / of a hypothesis *)
Ltac bm :=
  match goal with
  | |- context [match ?x with _ => _ end] => destruct x eqn:?
  end.
Ltac bmh H :=
  match type of H with
  | context [match ?x with _ => _ end] => destruct x eqn:?
  end.
Ltac inv H := inversion H; subst; clear H.

(* projections of the [with_*] setters *)
Ltac stf :=
  cbn [pc regs ms im out exitc icount bcount pcount cycles stalls flushes
       with_pc with_regs with_ms with_im with_out with_exit with_icount with_bcount
       with_pcount with_cycles with_stalls with_flushes] in *.

(** counter readers: 0 when the memory system is flat / there is no instruction cache *)
Definition dpen (s : st) : Z := match ms s with MCache d => penalty d | MFlat _ => 0 end.
Definition dacc (s : st) : Z := match ms s with MCache d => accesses d | MFlat _ => 0 end.
Definition dhit (s : st) : Z := match ms s with MCache d => hits d | MFlat _ => 0 end.
Definition ipen (s : st) : Z := match icc (im s) with Some c => ipenalty c | None => 0 end.
Definition iacc (s : st) : Z := match icc (im s) with Some c => iaccesses c | None => 0 end.
Definition ihit (s : st) : Z := match icc (im s) with Some c => ihits c | None => 0 end.

(* the conserved quantity behind the cycle law: cycles minus the penalties paid so far *)
Definition Phi (s : st) : Z :=
  cycles s - dpen s * (dacc s - dhit s) - ipen s * (iacc s - ihit s).

(* one access seen through (accesses, hits, penalty charged): not counted / hit / miss *)
Definition cnt_step (counted : bool) (pen acc hit acc' hit' p : Z) : Prop :=
  (acc' = acc /\ hit' = hit /\ p = 0) \/
  (counted = true /\ acc' = acc + 1 /\ hit' = hit + 1 /\ p = 0) \/
  (counted = true /\ acc' = acc + 1 /\ hit' = hit /\ p = pen).

(* "a counted miss is exactly accesses+1 with hits unchanged" *)
Definition counted_miss (acc hit acc' hit' : Z) : Prop := acc' = acc + 1 /\ hit' = hit.

Lemma cnt_step_penalty c pen acc hit acc' hit' p :
  cnt_step c pen acc hit acc' hit' p ->
  p = pen * ((acc' - acc) - (hit' - hit)) /\
  ((acc' - acc) - (hit' - hit) = 1 <-> counted_miss acc hit acc' hit').
Proof. unfold cnt_step, counted_miss. intros [H|[H|H]]; split; lia. Qed.

Lemma cnt_step_uncounted pen acc hit acc' hit' p :
  cnt_step false pen acc hit acc' hit' p -> acc' = acc /\ hit' = hit /\ p = 0.
Proof. unfold cnt_step. intros [H|[H|H]]; [exact H| |]; destruct H; discriminate. Qed.

(** rset keeps everything but the registers *)
Lemma rset_fields s r v :
  pc (rset s r v) = pc s /\ ms (rset s r v) = ms s /\ im (rset s r v) = im s /\
  out (rset s r v) = out s /\ exitc (rset s r v) = exitc s /\ icount (rset s r v) = icount s /\
  bcount (rset s r v) = bcount s /\ pcount (rset s r v) = pcount s /\
  cycles (rset s r v) = cycles s /\ stalls (rset s r v) = stalls s /\
  flushes (rset s r v) = flushes s.
Proof. unfold rset. destruct (_ && _); repeat split. Qed.

(** * 1. Per-call facts *)

Lemma dc_read_block_counters d da r d' : dc_read_block d da = (r, d') ->
  penalty d' = penalty d /\ hits d' = hits d /\ accesses d' = accesses d /\ wthrough d' = wthrough d.
Proof.
  unfold dc_read_block. intros H.
  repeat bmh H; inv H; cbn [upd_dc upd_lower penalty hits accesses wthrough]; repeat split; congruence.
Qed.

Lemma dc_read_counters d n a c r d' p : dc_read d n a c = (r, d', p) ->
  penalty d' = penalty d /\
  cnt_step c (penalty d) (accesses d) (hits d) (accesses d') (hits d') p.
Proof.
  unfold dc_read. intros H.
  destruct (dc_read_block d (cdecode (dc d) a)) as [rb d1] eqn:Hb.
  apply dc_read_block_counters in Hb. destruct Hb as (Hp & Hh & Ha & _).
  destruct rb as [[blk hit]|e].
  - destruct c.
    + unfold upd_stats in H. inv H. cbn [penalty accesses hits]. split; [exact Hp|].
      unfold cnt_step. destruct hit; [right; left | right; right]; repeat split; lia.
    + inv H. split; [exact Hp|]. left. repeat split; assumption.
  - inv H. split; [exact Hp|]. left. repeat split; assumption.
Qed.

Ltac cnt_solve := unfold cnt_step; first [ left; repeat split; lia
                               | right; left; repeat split; lia
                               | right; right; repeat split; lia ].
Lemma dc_write_counters d n a v direct e d' p : dc_write d n a v direct = (e, d', p) ->
  penalty d' = penalty d /\
  cnt_step (negb direct) (penalty d) (accesses d) (hits d) (accesses d') (hits d') p.
Proof.
  unfold dc_write. intros H. destruct direct.
  - bmh H. inv H. cbn [upd_lower penalty accesses hits]. split; [reflexivity|].
    left; repeat split.
  - cbn [negb]. destruct (wthrough d).
    + destruct (_ && _). { inv H. split; [reflexivity|cnt_solve]. }
      destruct (_ && _). { inv H. split; [reflexivity|cnt_solve]. }
      destruct (cache_read_block _ _) as [ob c1]. unfold upd_stats in H. cbv zeta in H.
      cbn [fst snd] in H.
      destruct ob as [blk|].
      * destruct (into_block _ _ _ _) as [blk'|e'].
        -- destruct (cache_write_block _ _ _) as [[? ?] c2].
           bmh H. inv H. cbn [upd_dc upd_lower penalty accesses hits]. split; [reflexivity|cnt_solve].
        -- inv H. cbn [upd_dc upd_lower penalty accesses hits]. split; [reflexivity|cnt_solve].
      * bmh H. inv H. cbn [upd_dc upd_lower penalty accesses hits]. split; [reflexivity|cnt_solve].
    + destruct (cache_read_block _ _) as [ob c1]. cbv zeta in H.
      destruct ob as [blk|].
      * destruct (into_block _ _ _ _) as [blk'|e'].
        -- destruct (cache_write_block _ _ _) as [[? displaced] c2]. unfold upd_stats in H.
           destruct displaced as [[? ?]|]; inv H; cbn [upd_dc upd_lower penalty accesses hits]; (split; [reflexivity|cnt_solve]).
        -- inv H. cbn [upd_dc upd_lower penalty accesses hits]. split; [reflexivity|cnt_solve].
      * destruct (read_words _ _ _).
        2:{ inv H. cbn [upd_dc upd_lower penalty accesses hits]. split; [reflexivity|cnt_solve]. }
        destruct (into_block _ _ _ _) as [blk'|e'].
        -- destruct (cache_write_block _ _ _) as [[? displaced] c2]. unfold upd_stats in H.
           destruct displaced as [[? ?]|]; inv H; cbn [upd_dc upd_lower penalty accesses hits]; (split; [reflexivity|cnt_solve]).
        -- inv H. cbn [upd_dc upd_lower penalty accesses hits]. split; [reflexivity|cnt_solve].
Qed.

(** fields a data-memory access cannot touch *)
Definition frame_ms (s s' : st) : Prop :=
  pc s' = pc s /\ regs s' = regs s /\ im s' = im s /\ out s' = out s /\ exitc s' = exitc s /\
  icount s' = icount s /\ bcount s' = bcount s /\ pcount s' = pcount s /\
  stalls s' = stalls s /\ flushes s' = flushes s.

Lemma frame_ms_refl s : frame_ms s s.
Proof. unfold frame_ms; repeat split. Qed.
Lemma frame_ms_trans a b c : frame_ms a b -> frame_ms b c -> frame_ms a c.
Proof. unfold frame_ms; intuition congruence. Qed.

(* st_read: cycles move by exactly the penalty; penalty = dpen * [counted miss] *)
Lemma st_read_law s n a c r s' : st_read s n a c = (r, s') ->
  frame_ms s s' /\ dpen s' = dpen s /\
  cnt_step c (dpen s) (dacc s) (dhit s) (dacc s') (dhit s') (cycles s' - cycles s).
Proof.
  unfold st_read, ms_read, dpen, dacc, dhit. intros H. destruct (ms s) as [m|d] eqn:Hms.
  - inv H. stf. split; [unfold frame_ms; stf; repeat split|]. split; [reflexivity|].
    left; repeat split; lia.
  - destruct (dc_read d n a c) as [[r0 d'] p] eqn:Hd. inv H. stf.
    apply dc_read_counters in Hd. destruct Hd as [Hp Hc].
    split; [unfold frame_ms; stf; repeat split|]. split; [exact Hp|].
    replace (cycles s + p - cycles s) with p by lia. exact Hc.
Qed.

Lemma st_write_law s n a v direct e s' : st_write s n a v direct = (e, s') ->
  frame_ms s s' /\ dpen s' = dpen s /\
  cnt_step (negb direct) (dpen s) (dacc s) (dhit s) (dacc s') (dhit s') (cycles s' - cycles s).
Proof.
  unfold st_write, ms_write, dpen, dacc, dhit. intros H. destruct (ms s) as [m|d] eqn:Hms.
  - destruct (mem_write rv_memcfg m n a v) as [m' e0]. inv H. stf.
    split; [unfold frame_ms; stf; repeat split|]. split; [reflexivity|].
    left; repeat split; lia.
  - destruct (dc_write d n a v direct) as [[e0 d'] p] eqn:Hd. inv H. stf.
    apply dc_write_counters in Hd. destruct Hd as [Hp Hc].
    split; [unfold frame_ms; stf; repeat split|]. split; [exact Hp|].
    replace (cycles s + p - cycles s) with p by lia. exact Hc.
Qed.

(* the potential [Phi] is blind to data-memory accesses *)
Lemma Phi_cnt_d s s' c : im s' = im s -> dpen s' = dpen s ->
  cnt_step c (dpen s) (dacc s) (dhit s) (dacc s') (dhit s') (cycles s' - cycles s) ->
  Phi s' = Phi s.
Proof.
  intros Him Hp Hc. unfold Phi, ipen, iacc, ihit. rewrite Him, Hp.
  destruct Hc as [H|[H|H]]; destruct H as (? & ?); lia.
Qed.

Lemma st_read_Phi s n a c r s' : st_read s n a c = (r, s') -> Phi s' = Phi s.
Proof.
  intros H. apply st_read_law in H. destruct H as (F & Hp & Hc).
  eapply Phi_cnt_d; eauto. apply F.
Qed.
Lemma st_write_Phi s n a v d e s' : st_write s n a v d = (e, s') -> Phi s' = Phi s.
Proof.
  intros H. apply st_write_law in H. destruct H as (F & Hp & Hc).
  eapply Phi_cnt_d; eauto. apply F.
Qed.

(* uncounted reads and direct writes add nothing to the cycle counter *)
Lemma st_read_uncounted s n a r s' : st_read s n a false = (r, s') ->
  cycles s' = cycles s /\ dacc s' = dacc s /\ dhit s' = dhit s.
Proof.
  intros H. apply st_read_law in H. destruct H as (_ & _ & Hc).
  apply cnt_step_uncounted in Hc. lia.
Qed.
Lemma st_write_direct s n a v e s' : st_write s n a v true = (e, s') ->
  cycles s' = cycles s /\ dacc s' = dacc s /\ dhit s' = dhit s.
Proof.
  intros H. apply st_write_law in H. destruct H as (_ & _ & Hc).
  apply cnt_step_uncounted in Hc. lia.
Qed.

(** instruction fetch *)
Definition frame_im (s s' : st) : Prop :=
  pc s' = pc s /\ regs s' = regs s /\ ms s' = ms s /\ out s' = out s /\ exitc s' = exitc s /\
  icount s' = icount s /\ bcount s' = bcount s /\ pcount s' = pcount s /\
  stalls s' = stalls s /\ flushes s' = flushes s /\ prog (im s') = prog (im s).

Lemma im_read_law m a oi m' p : im_read m a = (oi, m', p) ->
  prog m' = prog m /\
  match icc m with
  | None => m' = m /\ p = 0 /\ oi = instr_at (prog m) a
  | Some c => exists c', icc m' = Some c' /\ ipenalty c' = ipenalty c /\
                cnt_step true (ipenalty c) (iaccesses c) (ihits c) (iaccesses c') (ihits c') p
  end.
Proof.
  unfold im_read. intros H. destruct (icc m) as [c|] eqn:Hc.
  - destruct (cache_read_block (ic c) (cdecode (ic c) a)) as [[v|] c1] eqn:Hr.
    + inv H. cbn [prog icc]. split; [reflexivity|]. eexists; split; [reflexivity|].
      cbn [ipenalty iaccesses ihits]. split; [reflexivity|]. right; left. repeat split; lia.
    + destruct (cache_write_block _ _ _) as [[? ?] c']. inv H. cbn [prog icc].
      split; [reflexivity|]. eexists; split; [reflexivity|].
      cbn [ipenalty iaccesses ihits]. split; [reflexivity|]. right; right. repeat split; lia.
  - inv H. repeat split.
Qed.

Lemma fetch_law s a oi s' : fetch s a = (oi, s') ->
  frame_im s s' /\ ipen s' = ipen s /\
  cnt_step true (ipen s) (iacc s) (ihit s) (iacc s') (ihit s') (cycles s' - cycles s).
Proof.
  unfold fetch. intros H. destruct (im_read (im s) a) as [[oi0 m'] p] eqn:Hr. inv H.
  apply im_read_law in Hr. destruct Hr as [Hprog Hr].
  split; [unfold frame_im; stf; repeat split; exact Hprog|].
  unfold ipen, iacc, ihit; stf. destruct (icc (im s)) as [c|] eqn:Hicc.
  - destruct Hr as (c' & Hc' & Hpen & Hcnt). rewrite Hc'. split; [exact Hpen|].
    replace (cycles s + p - cycles s) with p by lia. exact Hcnt.
  - destruct Hr as (-> & -> & _). rewrite Hicc. split; [reflexivity|].
    left; repeat split; lia.
Qed.

Lemma fetch_nocache s a : icc (im s) = None ->
  fetch s a = (instr_at (prog (im s)) a, with_cycles (with_im s (im s)) (cycles s + 0)).
Proof. unfold fetch, im_read. intros ->. reflexivity. Qed.

Lemma fetch_Phi s a oi s' : fetch s a = (oi, s') -> Phi s' = Phi s /\ dpen s' = dpen s.
Proof.
  intros H. apply fetch_law in H. destruct H as (F & Hp & Hc).
  destruct F as (_ & _ & Hms & _). unfold Phi, dpen, dacc, dhit in *. rewrite Hms, Hp.
  split; [|reflexivity].
  destruct Hc as [H|[H|H]]; destruct H as (? & ?); lia.
Qed.

(** process_ecall: only uncounted reads; nothing but [ms] can change *)
Lemma read_cstring_law f : forall s a acc r s', read_cstring f s a acc = (r, s') ->
  frame_ms s s' /\ cycles s' = cycles s /\ dpen s' = dpen s /\ dacc s' = dacc s /\ dhit s' = dhit s.
Proof.
  induction f as [|f IH]; intros s a acc r s' H; cbn [read_cstring] in H.
  - inv H. split; [apply frame_ms_refl|]. repeat split.
  - destruct (st_read s 8 a false) as [[b|e] s1] eqn:Hr.
    + pose proof (st_read_uncounted _ _ _ _ _ Hr) as (Hc & Ha & Hh).
      apply st_read_law in Hr. destruct Hr as (F & Hp & _).
      destruct (b =? 0).
      * inv H. split; [exact F|]. repeat split; assumption.
      * apply IH in H. destruct H as (F' & Hc' & Hp' & Ha' & Hh').
        split; [eapply frame_ms_trans; eauto|]. repeat split; congruence.
    + inv H. pose proof (st_read_uncounted _ _ _ _ _ Hr) as (Hc & Ha & Hh).
      apply st_read_law in Hr. destruct Hr as (F & Hp & _).
      split; [exact F|]. repeat split; assumption.
Qed.

Lemma process_ecall_law s r s' : process_ecall s = (r, s') ->
  frame_ms s s' /\ cycles s' = cycles s /\ dpen s' = dpen s /\ dacc s' = dacc s /\ dhit s' = dhit s.
Proof.
  unfold process_ecall. intros H.
  repeat match type of H with
         | context [if ?c then _ else _] => destruct c
         end;
    try (inv H; split; [apply frame_ms_refl|repeat split]).
  destruct (read_cstring _ _ _ _) as [[t|e] s1] eqn:Hr; inv H;
    eapply read_cstring_law; eauto.
Qed.

Lemma Phi_same s s' : im s' = im s -> cycles s' = cycles s -> dpen s' = dpen s ->
  dacc s' = dacc s -> dhit s' = dhit s -> Phi s' = Phi s.
Proof. intros Hi Hc Hp Ha Hh. unfold Phi, ipen, iacc, ihit. rewrite Hi, Hc, Hp, Ha, Hh. reflexivity. Qed.

(** * 2. Single-latch stage functions *)

Definition id_on (hz : bool) (x l1 l2 : latch) (s : st) : latch := stage_id hz [x; l1; l2] 0 s.
Definition ex_on (x l2 l3 : latch) (s : st) : latch * st * option err := stage_ex [None; x; l2; l3] 1 s.
Definition mem_on (x : latch) (s : st) : latch * st * option err := stage_mem [None; None; x] 2 s.
Definition wb_on (x : latch) (s : st) : latch * st * option err := stage_wb [None; None; None; x] 3 s.
Definition fault_at (x : latch) (e : err) : option fault := fault_of [x] 0 e.

Lemma stage_id_on hz r s : stage_id hz r 0 s = id_on hz (lat_at r 0) (lat_at r 1) (lat_at r 2) s.
Proof. reflexivity. Qed.
Lemma stage_ex_on r s : stage_ex r 1 s = ex_on (lat_at r 1) (lat_at r 2) (lat_at r 3) s.
Proof. reflexivity. Qed.
Lemma stage_mem_on r s : stage_mem r 2 s = mem_on (lat_at r 2) s.
Proof. reflexivity. Qed.
Lemma stage_wb_on r s : stage_wb r 3 s = wb_on (lat_at r 3) s.
Proof. reflexivity. Qed.
Lemma fault_of_at r i e : fault_of r i e = fault_at (lat_at r i) e.
Proof. reflexivity. Qed.

(** the output latches as pure functions of the input slot *)
Definition hazard_with (ra1 ra2 w : option Z) : bool :=
  match w with
  | None => false
  | Some r => if r =? 0 then false else opt_eqb ra1 r || opt_eqb ra2 r
  end.
Definition rf_ra1 (i : instr) (s : st) := fst (fst (fst (fst (access_rf i s)))).
Definition rf_ra2 (i : instr) (s : st) := snd (fst (fst (fst (access_rf i s)))).
Definition rf_rd1 (i : instr) (s : st) := snd (fst (fst (access_rf i s))).
Definition rf_rd2 (i : instr) (s : st) := snd (fst (access_rf i s)).
Definition rf_imm (i : instr) (s : st) := snd (access_rf i s).
Definition id_stall (hz : bool) (i : instr) (w1 w2 : option Z) (s : st) : bool :=
  hz && (hazard_with (rf_ra1 i s) (rf_ra2 i s) w1 || hazard_with (rf_ra1 i s) (rf_ra2 i s) w2).
Definition id_slot (hz : bool) (y : slot) (w1 w2 : option Z) (s : st) : slot :=
  {| sl_instr := sl_instr y; sl_addr := sl_addr y;
     sl_ra1 := rf_ra1 (sl_instr y) s; sl_ra2 := rf_ra2 (sl_instr y) s;
     sl_rd1 := rf_rd1 (sl_instr y) s; sl_rd2 := rf_rd2 (sl_instr y) s;
     sl_imm := rf_imm (sl_instr y) s; sl_wreg := write_reg (sl_instr y);
     sl_result := None; sl_cmp := None; sl_pcimm := None; sl_exit := None;
     sl_memdata := None; sl_wdata := None; sl_flush := None;
     sl_stall := id_stall hz (sl_instr y) w1 w2 s; sl_saved := false |}.

Lemma id_on_some hz y l1 l2 s :
  id_on hz (Some y) l1 l2 s = Some (id_slot hz y (latch_wreg l1) (latch_wreg l2) s).
Proof.
  unfold id_on, stage_id, id_slot, id_stall, hazard_with, rf_ra1, rf_ra2, rf_rd1, rf_rd2, rf_imm.
  change (lat_at [Some y; l1; l2] 0) with (Some y).
  change (lat_at [Some y; l1; l2] (0 + 1)) with l1.
  change (lat_at [Some y; l1; l2] (0 + 2)) with l2.
  cbv beta iota.
  destruct (access_rf (sl_instr y) s) as [[[[ra1 ra2] rd1] rd2] imm]. reflexivity.
Qed.
Lemma id_on_none hz l1 l2 s : id_on hz None l1 l2 s = None.
Proof. reflexivity. Qed.

Definition ex_in1 (y : slot) : option Z :=
  match c_src1 (signals (sl_instr y)) with
  | None => None
  | Some true => sl_rd1 y
  | Some false => Some (sl_addr y)
  end.
Definition ex_in2 (y : slot) : option Z :=
  if c_src2 (signals (sl_instr y)) then sl_imm y else sl_rd2 y.
Definition ex_pcimm (y : slot) : option Z :=
  match sl_imm y with Some m => Some (m + sl_addr y) | None => None end.
Definition ex_slot (y : slot) (cmp : option bool) (result : option Z) (stall : bool)
    (ex fl : option Z) : slot :=
  {| sl_instr := sl_instr y; sl_addr := sl_addr y; sl_ra1 := sl_ra1 y; sl_ra2 := sl_ra2 y;
     sl_rd1 := sl_rd1 y; sl_rd2 := sl_rd2 y; sl_imm := sl_imm y; sl_wreg := sl_wreg y;
     sl_result := result; sl_cmp := cmp; sl_pcimm := ex_pcimm y; sl_exit := ex;
     sl_memdata := None; sl_wdata := None; sl_flush := fl; sl_stall := stall;
     sl_saved := false |}.
(* the drain condition of an ecall: older instructions still in the MEM / WB inputs *)
Definition ex_busy (y : slot) (l2 l3 : latch) : bool :=
  (if sl_saved y then false else nonempty l2) || nonempty l3.

Lemma ex_on_some y l2 l3 s :
  ex_on (Some y) l2 l3 s =
  match alu_compute (sl_instr y) (ex_in1 y) (ex_in2 y) with
  | Err e => (None, s, Some e)
  | Ok (cmp, result) =>
      if is_ecall (sl_instr y) then
        if ex_busy y l2 l3 then (Some (ex_slot y cmp result true None None), s, None)
        else match process_ecall s with
             | (Ok (EPrint t), s') =>
                 (Some (ex_slot y cmp result false None None), with_out s' (out s' ++ t), None)
             | (Ok (EExit c), s') =>
                 (Some (ex_slot y cmp result false (Some c) (Some (sl_addr y + 4))), s', None)
             | (Err e, s') => (None, s', Some e)
             end
      else (Some (ex_slot y cmp result false None None), s, None)
  end.
Proof.
  unfold ex_on, stage_ex, ex_in1, ex_in2, ex_busy, ex_slot, ex_pcimm.
  change (lat_at [None; Some y; l2; l3] 1) with (Some y).
  change (lat_at [None; Some y; l2; l3] 2) with l2.
  change (lat_at [None; Some y; l2; l3] 3) with l3.
  cbv beta iota zeta. destruct (alu_compute _ _ _) as [[cmp result]|e]; [|reflexivity].
  destruct (is_ecall (sl_instr y)); [|reflexivity].
  destruct (sl_saved y); reflexivity.
Qed.
Lemma ex_on_none l2 l3 s : ex_on None l2 l3 s = (None, s, None).
Proof. reflexivity. Qed.

Definition mem_flush (y : slot) : option Z :=
  let cs := signals (sl_instr y) in
  let cmp := match sl_cmp y with Some true => true | _ => false end in
  if (c_branch cs && (c_jump cs || cmp)) || c_jump cs then sl_pcimm y
  else if c_alu_to_pc cs then sl_result y
  else match sl_exit y with Some _ => Some (sl_addr y + 4) | None => None end.
Definition mem_slot (y : slot) (rdata : option Z) : slot :=
  {| sl_instr := sl_instr y; sl_addr := sl_addr y; sl_ra1 := sl_ra1 y; sl_ra2 := sl_ra2 y;
     sl_rd1 := sl_rd1 y; sl_rd2 := sl_rd2 y; sl_imm := sl_imm y; sl_wreg := sl_wreg y;
     sl_result := sl_result y; sl_cmp := sl_cmp y; sl_pcimm := sl_pcimm y;
     sl_exit := sl_exit y; sl_memdata := rdata; sl_wdata := None; sl_flush := mem_flush y;
     sl_stall := false; sl_saved := false |}.
(* the branch / procedure counters move on a redirect *)
Definition mem_count (y : slot) (s : st) : st :=
  match mem_flush y with
  | None => s
  | Some _ => if is_btype (sl_instr y) then with_bcount s (bcount s + 1)
              else if is_jal (sl_instr y) then with_pcount s (pcount s + 1) else s
  end.

Lemma mem_on_some y s :
  mem_on (Some y) s =
  match memory_access (sl_instr y) (sl_result y) (sl_rd2 y) s with
  | (Err e, s') => (None, s', Some e)
  | (Ok rdata, s') => (Some (mem_slot y rdata), mem_count y s', None)
  end.
Proof. reflexivity. Qed.
Lemma mem_on_none s : mem_on None s = (None, s, None).
Proof. reflexivity. Qed.

Definition wb_data (y : slot) : option Z :=
  match c_wb (signals (sl_instr y)) with
  | Some 0 => Some (sl_addr y + 4)
  | Some 1 => sl_memdata y
  | Some 2 => sl_result y
  | Some 3 => sl_imm y
  | _ => None
  end.
Definition wb_flush (y : slot) : option Z :=
  match sl_exit y with Some _ => Some (sl_addr y + 4) | None => None end.
Definition wb_slot (y : slot) : slot :=
  {| sl_instr := sl_instr y; sl_addr := sl_addr y; sl_ra1 := sl_ra1 y; sl_ra2 := sl_ra2 y;
     sl_rd1 := sl_rd1 y; sl_rd2 := sl_rd2 y; sl_imm := sl_imm y; sl_wreg := sl_wreg y;
     sl_result := sl_result y; sl_cmp := sl_cmp y; sl_pcimm := sl_pcimm y;
     sl_exit := sl_exit y; sl_memdata := sl_memdata y; sl_wdata := wb_data y;
     sl_flush := wb_flush y; sl_stall := false; sl_saved := false |}.
Definition wb_exit (y : slot) (s : st) : st :=
  match sl_exit y with Some c => with_exit s (Some c) | None => s end.

Lemma wb_on_some y s :
  wb_on (Some y) s =
  match write_back (sl_instr y) (sl_wreg y) (wb_data y) (with_icount s (icount s + 1)) with
  | (s2, Some e) => (None, s2, Some e)
  | (s2, None) => (Some (wb_slot y), wb_exit y s2, None)
  end.
Proof.
  unfold wb_on, stage_wb, wb_slot, wb_exit, wb_flush, wb_data.
  change (lat_at [None; None; None; Some y] 3) with (Some y). cbv beta iota zeta.
  destruct (write_back _ _ _ _) as [s2 [e|]]; [reflexivity|].
  destruct (sl_exit y); reflexivity.
Qed.
Lemma wb_on_none s : wb_on None s = (None, s, None).
Proof. reflexivity. Qed.

(** * 2b. Per-stage frames: what a stage may change in the architectural state *)

(* kept by WB, EX and MEM alike *)
Definition keeps (s s' : st) : Prop :=
  pc s' = pc s /\ im s' = im s /\ stalls s' = stalls s /\ flushes s' = flushes s /\
  dpen s' = dpen s /\ Phi s' = Phi s.

Lemma keeps_refl s : keeps s s.
Proof. unfold keeps; repeat split. Qed.
Lemma keeps_trans a b c : keeps a b -> keeps b c -> keeps a c.
Proof. unfold keeps; intuition congruence. Qed.

Lemma Phi_fields s s' : ms s' = ms s -> im s' = im s -> cycles s' = cycles s ->
  Phi s' = Phi s /\ dpen s' = dpen s.
Proof.
  intros Hm Hi Hc. unfold Phi, dpen, dacc, dhit, ipen, iacc, ihit. rewrite Hm, Hi, Hc. split; reflexivity.
Qed.

Lemma write_back_law i w d s s' e : write_back i w d s = (s', e) ->
  pc s' = pc s /\ ms s' = ms s /\ im s' = im s /\ out s' = out s /\ exitc s' = exitc s /\
  icount s' = icount s /\ bcount s' = bcount s /\ pcount s' = pcount s /\
  cycles s' = cycles s /\ stalls s' = stalls s /\ flushes s' = flushes s.
Proof.
  unfold write_back. intros H.
  repeat bmh H; inv H; try (repeat split; fail); apply rset_fields.
Qed.

Lemma memory_access_law i a d s r s' : memory_access i a d s = (r, s') ->
  frame_ms s s' /\ dpen s' = dpen s /\ Phi s' = Phi s.
Proof.
  unfold memory_access. intros H.
  assert (Hrefl : frame_ms s s /\ dpen s = dpen s /\ Phi s = Phi s)
    by (split; [apply frame_ms_refl|split; reflexivity]).
  destruct i; try (inv H; exact Hrefl).
  - destruct a as [a|]; [|inv H; exact Hrefl].
    destruct (st_read s (load_bits o) a true) as [[v|e] s1] eqn:Hr; inv H;
      (pose proof (st_read_Phi _ _ _ _ _ _ Hr) as HP; apply st_read_law in Hr;
       destruct Hr as (F & Hp & _); split; [exact F|split; assumption]).
  - destruct a as [a|]; [|inv H; exact Hrefl]. destruct d as [d|]; [|inv H; exact Hrefl].
    destruct (st_write s (store_bits o) a (U (store_bits o) d) false) as [[e|] s1] eqn:Hw; inv H;
      (pose proof (st_write_Phi _ _ _ _ _ _ _ Hw) as HP; apply st_write_law in Hw;
       destruct Hw as (F & Hp & _); split; [exact F|split; assumption]).
Qed.

(* WB: retire counter, registers, exit code; nothing else *)
Lemma wb_on_law x s n s' e : wb_on x s = (n, s', e) ->
  keeps s s' /\ ms s' = ms s /\ out s' = out s /\ bcount s' = bcount s /\ pcount s' = pcount s /\
  cycles s' = cycles s /\ icount s' = icount s + (if nonempty x then 1 else 0).
Proof.
  intros H. destruct x as [y|].
  - rewrite wb_on_some in H.
    destruct (write_back _ _ _ _) as [s2 oe] eqn:Hw. apply write_back_law in Hw. stf.
    destruct Hw as (Hpc & Hms & Him & Hout & Hex & Hic & Hbc & Hpcn & Hcy & Hst & Hfl).
    assert (K : forall s3, (s3 = s2 \/ exists c, s3 = with_exit s2 c) ->
      keeps s s3 /\ ms s3 = ms s /\ out s3 = out s /\ bcount s3 = bcount s /\ pcount s3 = pcount s /\
      cycles s3 = cycles s /\ icount s3 = icount s + 1).
    { intros s3 [->|[c ->]]; stf;
        (destruct (Phi_fields s s2 Hms Him Hcy) as [HP Hd]; split;
         [unfold keeps; stf; repeat split; try assumption;
          rewrite <- ?HP, <- ?Hd; unfold Phi, dpen, dacc, dhit, ipen, iacc, ihit; stf; reflexivity
         | repeat split; assumption]). }
    cbn [nonempty]. destruct oe as [e0|]; inv H; apply K; [left; reflexivity|].
    unfold wb_exit. destruct (sl_exit y); [right; eexists; reflexivity|left; reflexivity].
  - rewrite wb_on_none in H. inv H. cbn [nonempty]. split; [apply keeps_refl|]. repeat split; lia.
Qed.

(* EX: only an ecall touches the state: output, and uncounted reads of the memory system *)
Lemma ex_on_law x l2 l3 s n s' e : ex_on x l2 l3 s = (n, s', e) ->
  keeps s s' /\ regs s' = regs s /\ exitc s' = exitc s /\ icount s' = icount s /\
  bcount s' = bcount s /\ pcount s' = pcount s /\ cycles s' = cycles s /\
  dacc s' = dacc s /\ dhit s' = dhit s.
Proof.
  intros H.
  assert (Hrefl : keeps s s /\ regs s = regs s /\ exitc s = exitc s /\ icount s = icount s /\
     bcount s = bcount s /\ pcount s = pcount s /\ cycles s = cycles s /\
     dacc s = dacc s /\ dhit s = dhit s) by (split; [apply keeps_refl|repeat split]).
  destruct x as [y|]; [|rewrite ex_on_none in H; inv H; exact Hrefl].
  rewrite ex_on_some in H.
  destruct (alu_compute _ _ _) as [[cmp result]|e0]; [|inv H; exact Hrefl].
  destruct (is_ecall (sl_instr y)); [|inv H; exact Hrefl].
  destruct (ex_busy y l2 l3); [inv H; exact Hrefl|].
  destruct (process_ecall s) as [r s1] eqn:Hp. apply process_ecall_law in Hp.
  destruct Hp as (F & Hc & Hdp & Hda & Hdh).
  destruct F as (Hpc & Hrg & Him & Hout & Hex & Hic & Hbc & Hpcn & Hst & Hfl).
  pose proof (Phi_same s s1 Him Hc Hdp Hda Hdh) as HP.
  assert (K : forall s3, (s3 = s1 \/ exists t, s3 = with_out s1 t) ->
     keeps s s3 /\ regs s3 = regs s /\ exitc s3 = exitc s /\ icount s3 = icount s /\
     bcount s3 = bcount s /\ pcount s3 = pcount s /\ cycles s3 = cycles s /\
     dacc s3 = dacc s /\ dhit s3 = dhit s).
  { intros s3 [->|[t ->]]; stf;
      (split; [unfold keeps; stf; repeat split; try assumption;
               rewrite <- ?HP, <- ?Hdp; unfold Phi, dpen, dacc, dhit, ipen, iacc, ihit; stf; reflexivity
              | repeat split; try assumption;
                rewrite <- ?Hda, <- ?Hdh; unfold dacc, dhit; stf; reflexivity]). }
  destruct r as [[t|c]|e0]; inv H; apply K; [right; eexists; reflexivity|left; reflexivity|left; reflexivity].
Qed.

(* redirect bookkeeping seen on the MEM output latch *)
Definition is_b_redirect (n : latch) : bool :=
  match n with
  | Some z => match sl_flush z with Some _ => is_btype (sl_instr z) | None => false end
  | None => false
  end.
Definition is_j_redirect (n : latch) : bool :=
  match n with
  | Some z => match sl_flush z with Some _ => is_jal (sl_instr z) | None => false end
  | None => false
  end.

Lemma mem_on_law x s n s' e : mem_on x s = (n, s', e) ->
  keeps s s' /\ regs s' = regs s /\ out s' = out s /\ exitc s' = exitc s /\ icount s' = icount s /\
  bcount s' = bcount s + (if is_b_redirect n then 1 else 0) /\
  pcount s' = pcount s + (if is_j_redirect n then 1 else 0).
Proof.
  intros H. destruct x as [y|].
  2:{ rewrite mem_on_none in H. inv H. split; [apply keeps_refl|]. cbn [is_b_redirect is_j_redirect].
      repeat split; lia. }
  rewrite mem_on_some in H.
  destruct (memory_access _ _ _ _) as [r s1] eqn:Hm. apply memory_access_law in Hm.
  destruct Hm as (F & Hdp & HP).
  destruct F as (Hpc & Hrg & Him & Hout & Hex & Hic & Hbc & Hpcn & Hst & Hfl).
  destruct r as [rd|e0]; inv H.
  - cbn [is_b_redirect is_j_redirect mem_slot sl_flush sl_instr]. unfold mem_count.
    destruct (mem_flush y) as [a|].
    + destruct (sl_instr y); cbn [is_btype is_jal]; stf;
        (split; [unfold keeps; stf; repeat split; try assumption;
                 rewrite <- ?HP, <- ?Hdp; unfold Phi, dpen, dacc, dhit, ipen, iacc, ihit; stf; reflexivity
                | repeat split; try assumption; lia]).
    + split; [unfold keeps; repeat split; assumption|]. repeat split; try assumption; lia.
  - cbn [is_b_redirect is_j_redirect].
    split; [unfold keeps; repeat split; assumption|]. repeat split; try assumption; lia.
Qed.

(* IF: a fetch at pc (through the instruction cache) and pc += 4, or nothing *)
Lemma stage_if_law s n s' : stage_if s = (n, s') ->
  regs s' = regs s /\ ms s' = ms s /\ out s' = out s /\ exitc s' = exitc s /\
  icount s' = icount s /\ bcount s' = bcount s /\ pcount s' = pcount s /\
  stalls s' = stalls s /\ flushes s' = flushes s /\ prog (im s') = prog (im s) /\
  dpen s' = dpen s /\ ipen s' = ipen s /\ Phi s' = Phi s /\
  ((n = None /\ pc s' = pc s) \/
   (exists i, n = Some (slot_if i (pc s)) /\ pc s' = pc s + 4 /\ has_instr (im s) (pc s) = true)).
Proof.
  unfold stage_if. intros H. destruct (has_instr (im s) (pc s)) eqn:Hh.
  - destruct (fetch s (pc s)) as [oi s1] eqn:Hf.
    pose proof (fetch_Phi _ _ _ _ Hf) as [HP Hdp]. apply fetch_law in Hf.
    destruct Hf as (F & Hip & _).
    destruct F as (Hpc & Hrg & Hms & Hout & Hex & Hic & Hbc & Hpcn & Hst & Hfl & Hprog).
    destruct oi as [i|]; inv H; stf.
    + repeat split; try assumption;
        try (rewrite <- ?HP, <- ?Hdp, <- ?Hip; unfold Phi, dpen, dacc, dhit, ipen, iacc, ihit; stf; reflexivity).
      right. exists i. repeat split. lia.
    + repeat split; try assumption. left; split; [reflexivity|assumption].
  - inv H. repeat split. left; split; reflexivity.
Qed.

(** * 3. L0.1 — [run_stages] per stall mode *)

(* skid register i (None when nothing is saved) *)
Definition sv_at (p : pstate) (i : Z) : latch :=
  lat_at (match saved p with Some l => l | None => [] end) i.

(* (a) not stalled: IF, then WB on latch 3, ID on latch 0 reading the state AFTER WB,
       EX on latch 1, MEM on latch 2; the state is threaded IF -> WB -> EX -> MEM *)
Definition run_normal (hz : bool) (l0 l1 l2 l3 : latch) (s0 : st) : list latch * st * option fault :=
  let '(n0, s1) := stage_if s0 in
  match wb_on l3 s1 with
  | (_, s2, Some e) => ([n0; None; None; None; None], s2, fault_at l3 e)
  | (n4, s2, None) =>
      let n1 := id_on hz l0 l1 l2 s2 in
      match ex_on l1 l2 l3 s2 with
      | (_, s3, Some e) => ([n0; n1; None; None; n4], s3, fault_at l1 e)
      | (n2, s3, None) =>
          match mem_on l2 s3 with
          | (_, s4, Some e) => ([n0; n1; n2; None; n4], s4, fault_at l2 e)
          | (n3, s4, None) => ([n0; n1; n2; n3; n4], s4, None)
          end
      end
  end.

(* (b) stalled at ID: latch 0 kept, ID re-run on the skid copy, EX gets a bubble *)
Definition run_stall1 (hz : bool) (sv0 l0 l1 l2 l3 : latch) (s0 : st) : list latch * st * option fault :=
  match wb_on l3 s0 with
  | (_, s2, Some e) => ([l0; None; None; None; None], s2, fault_at l3 e)
  | (n4, s2, None) =>
      let n1 := id_on hz sv0 l1 l2 s2 in
      match mem_on l2 s2 with
      | (_, s4, Some e) => ([l0; n1; None; None; n4], s4, fault_at l2 e)
      | (n3, s4, None) => ([l0; n1; None; n3; n4], s4, None)
      end
  end.

(* (c) stalled at EX: latch 0 kept, ID and EX re-run on the skid copies, MEM gets a bubble *)
Definition run_stall2 (hz : bool) (sv0 sv1 l0 l1 l2 l3 : latch) (s0 : st) : list latch * st * option fault :=
  match wb_on l3 s0 with
  | (_, s2, Some e) => ([l0; None; None; None; None], s2, fault_at l3 e)
  | (n4, s2, None) =>
      let n1 := id_on hz sv0 l1 l2 s2 in
      match ex_on sv1 l2 l3 s2 with
      | (_, s3, Some e) => ([l0; n1; None; None; n4], s3, fault_at sv1 e)
      | (n2, s3, None) => ([l0; n1; n2; None; n4], s3, None)
      end
  end.

Lemma length5 {A} (l : list A) : length l = 5%nat -> exists a b c d e, l = [a; b; c; d; e].
Proof.
  destruct l as [|a [|b [|c [|d [|e [|f t]]]]]]; cbn [length]; intros H; try discriminate.
  repeat eexists.
Qed.

Lemma run_stages_normal p l0 l1 l2 l3 l4 : lat p = [l0; l1; l2; l3; l4] -> stalled p = None ->
  run_stages p = run_normal (hazards p) l0 l1 l2 l3 (pst p).
Proof.
  intros Hl Hs. unfold run_stages, run_normal, regs_for. rewrite Hs, Hl. reflexivity.
Qed.

Lemma run_stages_stall1 p l0 l1 l2 l3 l4 d : lat p = [l0; l1; l2; l3; l4] ->
  stalled p = Some (1, d) ->
  run_stages p = run_stall1 (hazards p) (sv_at p 0) l0 l1 l2 l3 (pst p).
Proof.
  intros Hl Hs. unfold run_stages, run_stall1, regs_for, sv_at. rewrite Hs, Hl.
  reflexivity.
Qed.

Lemma run_stages_stall2 p l0 l1 l2 l3 l4 d : lat p = [l0; l1; l2; l3; l4] ->
  stalled p = Some (2, d) ->
  run_stages p = run_stall2 (hazards p) (sv_at p 0) (sv_at p 1) l0 l1 l2 l3 (pst p).
Proof.
  intros Hl Hs. unfold run_stages, run_stall2, regs_for, sv_at. rewrite Hs, Hl.
  reflexivity.
Qed.

(** * 4. [pipe_step] = [bump] ; [run_stages] ; [post] *)

Definition bump (p : pstate) : pstate :=
  {| pst := with_cycles (pst p) (cycles (pst p) + 1); lat := lat p; stalled := stalled p;
     saved := saved p; hazards := hazards p |}.

(* stall bookkeeping: (new stalled, new saved, state with the stall counter) *)
Definition stall_part (cur : option (Z * Z)) (sv0 : option (list latch)) (old next : list latch) (s : st)
  : option (Z * Z) * option (list latch) * st :=
  let '(stl, s1) :=
    match new_stall next cur with
    | Some i => (Some (i, 3), with_stalls s (stalls s + 1))
    | None => (cur, s)
    end in
  let sv := match stl, sv0 with
            | Some (k, _), None => Some (map mark_saved (firstn (Z.to_nat k) old))
            | _, sv0 => sv0
            end in
  let '(stl2, sv2) :=
    match stl with
    | None => (None, sv)
    | Some (k, d) => if d - 1 =? 0 then (None, None) else (Some (k, d - 1), sv)
    end in
  (stl2, sv2, s1).

(* flush bookkeeping *)
Definition flush_part (hz : bool) (next : list latch) (stl2 : option (Z * Z))
  (sv2 : option (list latch)) (s1 : st) : pstate :=
  match first_flush next with
  | None => {| pst := s1; lat := next; stalled := stl2; saved := sv2; hazards := hz |}
  | Some (i, a) =>
      let s2 := with_pc (with_flushes s1 (flushes s1 + 1)) a in
      let '(stl3, sv3) := match stl2 with
                          | Some (k, _) => if k <? i then (None, None) else (stl2, sv2)
                          | None => (stl2, sv2)
                          end in
      {| pst := s2; lat := clear_prefix next (Z.to_nat i); stalled := stl3; saved := sv3;
         hazards := hz |}
  end.

Definition post (p : pstate) (next : list latch) (s : st) : pstate :=
  let '(stl2, sv2, s1) := stall_part (stalled p) (saved p) (lat p) next s in
  flush_part (hazards p) next stl2 sv2 s1.

Definition faulted (p : pstate) (s : st) : pstate :=
  {| pst := s; lat := lat p; stalled := stalled p; saved := saved p; hazards := hazards p |}.

Lemma pipe_step_eq p :
  pipe_step p = match run_stages (bump p) with
                | (_, s, Some f) => (faulted p s, Some f)
                | (next, s, None) => (post p next s, None)
                end.
Proof.
  unfold pipe_step, post, stall_part, flush_part, faulted. fold (bump p).
  cbn [pst lat stalled saved hazards bump].
  destruct (run_stages (bump p)) as [[next s] [f|]]; [reflexivity|].
  destruct (new_stall next (stalled p)) as [i|]; cbv beta iota zeta.
  - destruct (saved p); destruct (3 - 1 =? 0); destruct (first_flush next) as [[j a]|];
      try reflexivity; destruct (_ <? _); reflexivity.
  - destruct (stalled p) as [[k d]|]; [destruct (saved p); destruct (d - 1 =? 0)|];
      destruct (first_flush next) as [[j a]|]; try reflexivity; destruct (_ <? _); reflexivity.
Qed.

(** [new_stall] / [first_flush] on five latches.  Only ID (latch 1) and EX (latch 2) raise
    stall signals; only EX, MEM, WB (latches 2-4) raise flush signals. *)
Definition above (cur : option (Z * Z)) (i : Z) : bool :=
  match cur with None => true | Some (k, _) => k <? i end.

Lemma new_stall_5 n0 n1 n2 n3 n4 cur :
  has_stall n0 = false -> has_stall n3 = false -> has_stall n4 = false ->
  new_stall [n0; n1; n2; n3; n4] cur =
  if has_stall n2 && above cur 2 then Some 2
  else if has_stall n1 && above cur 1 then Some 1 else None.
Proof.
  intros H0 H3 H4. unfold new_stall, above.
  change (lat_at [n0; n1; n2; n3; n4] 4) with n4. change (lat_at [n0; n1; n2; n3; n4] 3) with n3.
  change (lat_at [n0; n1; n2; n3; n4] 2) with n2. change (lat_at [n0; n1; n2; n3; n4] 1) with n1.
  change (lat_at [n0; n1; n2; n3; n4] 0) with n0.
  rewrite H0, H3, H4. cbn [andb]. reflexivity.
Qed.

Lemma first_flush_5 n0 n1 n2 n3 n4 : flush_of n0 = None -> flush_of n1 = None ->
  first_flush [n0; n1; n2; n3; n4] =
  match flush_of n4 with Some a => Some (4, a) | None =>
  match flush_of n3 with Some a => Some (3, a) | None =>
  match flush_of n2 with Some a => Some (2, a) | None => None end end end.
Proof.
  intros H0 H1. unfold first_flush.
  change (lat_at [n0; n1; n2; n3; n4] 4) with n4. change (lat_at [n0; n1; n2; n3; n4] 3) with n3.
  change (lat_at [n0; n1; n2; n3; n4] 2) with n2. change (lat_at [n0; n1; n2; n3; n4] 1) with n1.
  change (lat_at [n0; n1; n2; n3; n4] 0) with n0.
  rewrite H0, H1. destruct (flush_of n4), (flush_of n3), (flush_of n2); reflexivity.
Qed.

(** case laws of [stall_part] *)
Lemma stall_part_idle old next s : new_stall next None = None ->
  stall_part None None old next s = (None, None, s).
Proof. unfold stall_part. intros ->. reflexivity. Qed.

Lemma stall_part_new old next s i : new_stall next None = Some i ->
  stall_part None None old next s =
  (Some (i, 2), Some (map mark_saved (firstn (Z.to_nat i) old)), with_stalls s (stalls s + 1)).
Proof. unfold stall_part. intros ->. reflexivity. Qed.

Lemma stall_part_first k sv old next s : new_stall next (Some (k, 2)) = None ->
  stall_part (Some (k, 2)) (Some sv) old next s = (Some (k, 1), Some sv, s).
Proof. unfold stall_part. intros ->. reflexivity. Qed.

Lemma stall_part_last k sv old next s : new_stall next (Some (k, 1)) = None ->
  stall_part (Some (k, 1)) (Some sv) old next s = (None, None, s).
Proof. unfold stall_part. intros ->. reflexivity. Qed.

(** case laws of [flush_part] *)
Definition stall_cancelled (i : Z) (stl : option (Z * Z)) : bool :=
  match stl with Some (k, _) => k <? i | None => false end.

Lemma flush_part_none hz next stl sv s : first_flush next = None ->
  flush_part hz next stl sv s = {| pst := s; lat := next; stalled := stl; saved := sv; hazards := hz |}.
Proof. unfold flush_part. intros ->. reflexivity. Qed.

Lemma flush_part_some hz next stl sv s i a : first_flush next = Some (i, a) ->
  flush_part hz next stl sv s =
  {| pst := with_pc (with_flushes s (flushes s + 1)) a;
     lat := clear_prefix next (Z.to_nat i);
     stalled := if stall_cancelled i stl then None else stl;
     saved := if stall_cancelled i stl then None else sv;
     hazards := hz |}.
Proof.
  unfold flush_part, stall_cancelled. intros ->. destruct stl as [[k d]|]; [|reflexivity].
  destruct (k <? i); reflexivity.
Qed.

(** * 5. The laws *)

(* [lat_at] on an explicit five-latch list *)
Ltac lat5 :=
  repeat match goal with
  | |- context [lat_at [?a; ?b; ?c; ?d; ?e] 0] => change (lat_at [a; b; c; d; e] 0) with a
  | |- context [lat_at [?a; ?b; ?c; ?d; ?e] 1] => change (lat_at [a; b; c; d; e] 1) with b
  | |- context [lat_at [?a; ?b; ?c; ?d; ?e] 2] => change (lat_at [a; b; c; d; e] 2) with c
  | |- context [lat_at [?a; ?b; ?c; ?d; ?e] 3] => change (lat_at [a; b; c; d; e] 3) with d
  | |- context [lat_at [?a; ?b; ?c; ?d; ?e] 4] => change (lat_at [a; b; c; d; e] 4) with e
  end.
Ltac lat5h H :=
  repeat match type of H with
  | context [lat_at [?a; ?b; ?c; ?d; ?e] 0] => change (lat_at [a; b; c; d; e] 0) with a in H
  | context [lat_at [?a; ?b; ?c; ?d; ?e] 1] => change (lat_at [a; b; c; d; e] 1) with b in H
  | context [lat_at [?a; ?b; ?c; ?d; ?e] 2] => change (lat_at [a; b; c; d; e] 2) with c in H
  | context [lat_at [?a; ?b; ?c; ?d; ?e] 3] => change (lat_at [a; b; c; d; e] 3) with d in H
  | context [lat_at [?a; ?b; ?c; ?d; ?e] 4] => change (lat_at [a; b; c; d; e] 4) with e in H
  end.

(** ** flags on stage outputs *)
Lemma id_on_flags hz x l1 l2 s :
  flush_of (id_on hz x l1 l2 s) = None /\ (hz = false -> has_stall (id_on hz x l1 l2 s) = false).
Proof.
  destruct x as [y|]; [rewrite id_on_some|rewrite id_on_none]; cbn [flush_of has_stall id_slot sl_flush sl_stall].
  - split; [reflexivity|]. intros ->. reflexivity.
  - split; reflexivity.
Qed.
Lemma mem_on_flags x s n s' e : mem_on x s = (n, s', e) -> has_stall n = false.
Proof.
  destruct x as [y|]; [rewrite mem_on_some|rewrite mem_on_none]; intros H.
  - destruct (memory_access _ _ _ _) as [[rd|e0] s1]; inv H; reflexivity.
  - inv H; reflexivity.
Qed.
Lemma mem_on_fault x s n s' e : mem_on x s = (n, s', Some e) -> n = None.
Proof.
  destruct x as [y|]; [rewrite mem_on_some|rewrite mem_on_none]; intros H.
  - destruct (memory_access _ _ _ _) as [[rd|e0] s1]; inv H; reflexivity.
  - inv H.
Qed.
Lemma wb_on_flags x s n s' e : wb_on x s = (n, s', e) -> has_stall n = false.
Proof.
  destruct x as [y|]; [rewrite wb_on_some|rewrite wb_on_none]; intros H.
  - destruct (write_back _ _ _ _) as [s2 [e0|]]; inv H; reflexivity.
  - inv H; reflexivity.
Qed.
Lemma stage_if_flags s n s' : stage_if s = (n, s') -> has_stall n = false /\ flush_of n = None.
Proof.
  unfold stage_if. intros H. destruct (has_instr _ _).
  - destruct (fetch _ _) as [[i|] s1]; inv H; split; reflexivity.
  - inv H; split; reflexivity.
Qed.

(** ** general frame of [run_stages] (any p: no assumption on the latch list or the stall mode) *)
Definition kept0 (p : pstate) : latch :=
  match stalled p with Some _ => lat_at (lat p) 0 | None => None end.

Lemma run_stages_law p next s f : run_stages p = (next, s, f) ->
  Phi s = Phi (pst p) /\ dpen s = dpen (pst p) /\ ipen s = ipen (pst p) /\
  stalls s = stalls (pst p) /\ flushes s = flushes (pst p) /\ prog (im s) = prog (im (pst p)) /\
  icount s = icount (pst p) + (if nonempty (lat_at (regs_for p 4) 3) then 1 else 0) /\
  bcount s = bcount (pst p) + (if is_b_redirect (lat_at next 3) then 1 else 0) /\
  pcount s = pcount (pst p) + (if is_j_redirect (lat_at next 3) then 1 else 0) /\
  length next = 5%nat /\
  has_stall (lat_at next 0) = has_stall (kept0 p) /\ flush_of (lat_at next 0) = flush_of (kept0 p) /\
  (hazards p = false -> has_stall (lat_at next 1) = false) /\ flush_of (lat_at next 1) = None /\
  has_stall (lat_at next 3) = false /\ has_stall (lat_at next 4) = false.
Proof.
  unfold run_stages. intros H.
  destruct (match stalled p with Some _ => (lat_at (lat p) 0, pst p) | None => stage_if (pst p) end)
    as [n0 s1] eqn:HIF.
  assert (F1 : stalls s1 = stalls (pst p) /\ flushes s1 = flushes (pst p) /\
               prog (im s1) = prog (im (pst p)) /\ dpen s1 = dpen (pst p) /\ ipen s1 = ipen (pst p) /\
               Phi s1 = Phi (pst p) /\ icount s1 = icount (pst p) /\ bcount s1 = bcount (pst p) /\
               pcount s1 = pcount (pst p) /\
               has_stall n0 = has_stall (kept0 p) /\ flush_of n0 = flush_of (kept0 p)).
  { unfold kept0. destruct (stalled p) as [kd|].
    - inv HIF. repeat split.
    - pose proof (stage_if_flags _ _ _ HIF) as [Hs Hf]. apply stage_if_law in HIF.
      cbn [has_stall flush_of]. destruct HIF as (?&?&?&?&?&?&?&?&?&?&?&?&?&_).
      repeat split; assumption. }
  destruct F1 as (Hst1 & Hfl1 & Hpr1 & Hdp1 & Hip1 & HP1 & Hic1 & Hbc1 & Hpc1 & Hhs0 & Hff0).
  rewrite stage_wb_on in H.
  destruct (wb_on (lat_at (regs_for p 4) 3) s1) as [[n4 s2] e4] eqn:HWB.
  pose proof (wb_on_flags _ _ _ _ _ HWB) as Hs4. apply wb_on_law in HWB.
  destruct HWB as (K2 & _ & _ & Hbc2 & Hpc2 & _ & Hic2).
  destruct K2 as (_ & Him2 & Hst2 & Hfl2 & Hdp2 & HP2).
  assert (Hip2 : ipen s2 = ipen s1) by (unfold ipen; rewrite Him2; reflexivity).
  destruct e4 as [e|].
  { inv H. lat5. cbn [is_b_redirect is_j_redirect has_stall flush_of length].
    repeat split; try congruence; try lia. }
  rewrite stage_ex_on in H.
  destruct (ex_on _ _ _ s2) as [[n2 s3] e2] eqn:HEX. apply ex_on_law in HEX.
  destruct HEX as (K3 & _ & _ & Hic3 & Hbc3 & Hpc3 & _).
  destruct K3 as (_ & Him3 & Hst3 & Hfl3 & Hdp3 & HP3).
  assert (Hip3 : ipen s3 = ipen s2) by (unfold ipen; rewrite Him3; reflexivity).
  pose proof (id_on_flags (hazards p) (lat_at (regs_for p 1) 0) (lat_at (regs_for p 1) 1)
                (lat_at (regs_for p 1) 2) s2) as [Hf1 Hs1].
  rewrite stage_id_on in H.
  destruct e2 as [e|].
  { inv H. lat5. cbn [is_b_redirect is_j_redirect has_stall flush_of length].
    repeat split; try congruence; try lia; try assumption. }
  rewrite stage_mem_on in H.
  destruct (mem_on _ s3) as [[n3 s4] e3] eqn:HMEM.
  pose proof (mem_on_flags _ _ _ _ _ HMEM) as Hs3.
  destruct e3 as [e|]; [pose proof (mem_on_fault _ _ _ _ _ HMEM) as ->|];
  apply mem_on_law in HMEM;
  destruct HMEM as (K4 & _ & _ & _ & Hic4 & Hbc4 & Hpc4);
  destruct K4 as (_ & Him4 & Hst4 & Hfl4 & Hdp4 & HP4);
  assert (Hip4 : ipen s4 = ipen s3) by (unfold ipen; rewrite Him4; reflexivity);
  inv H; lat5; cbn [is_b_redirect is_j_redirect has_stall flush_of length] in *;
    repeat split; try congruence; try lia; try assumption.
Qed.

(** ** the architectural state, latches and flag after [post] *)
Definition stall_st (next : list latch) (cur : option (Z * Z)) (s : st) : st :=
  match new_stall next cur with Some _ => with_stalls s (stalls s + 1) | None => s end.
Definition flush_st (next : list latch) (s : st) : st :=
  match first_flush next with
  | Some (_, a) => with_pc (with_flushes s (flushes s + 1)) a
  | None => s
  end.

Lemma stall_part_st cur sv old next s : snd (stall_part cur sv old next s) = stall_st next cur s.
Proof.
  unfold stall_part, stall_st. destruct (new_stall next cur) as [i|]; cbv beta iota zeta.
  - destruct (3 - 1 =? 0); reflexivity.
  - destruct cur as [[k d]|]; [destruct (d - 1 =? 0)|]; reflexivity.
Qed.

Lemma post_pst p next s : pst (post p next s) = flush_st next (stall_st next (stalled p) s).
Proof.
  unfold post. rewrite <- stall_part_st with (sv := saved p) (old := lat p).
  destruct (stall_part _ _ _ _ _) as [[stl2 sv2] s1]. cbn [snd]. unfold flush_part, flush_st.
  destruct (first_flush next) as [[i a]|]; [|reflexivity].
  destruct stl2 as [[k d]|]; [destruct (k <? i)|]; reflexivity.
Qed.

Lemma post_lat p next s :
  lat (post p next s) =
  match first_flush next with Some (i, _) => clear_prefix next (Z.to_nat i) | None => next end.
Proof.
  unfold post. destruct (stall_part _ _ _ _ _) as [[stl2 sv2] s1]. unfold flush_part.
  destruct (first_flush next) as [[i a]|]; [|reflexivity].
  destruct stl2 as [[k d]|]; [destruct (k <? i)|]; reflexivity.
Qed.

Lemma post_hazards p next s : hazards (post p next s) = hazards p.
Proof.
  unfold post. destruct (stall_part _ _ _ _ _) as [[stl2 sv2] s1]. unfold flush_part.
  destruct (first_flush next) as [[i a]|]; [|reflexivity].
  destruct stl2 as [[k d]|]; [destruct (k <? i)|]; reflexivity.
Qed.

Lemma Phi_with_stalls s v : Phi (with_stalls s v) = Phi s. Proof. reflexivity. Qed.
Lemma Phi_with_flushes s v : Phi (with_flushes s v) = Phi s. Proof. reflexivity. Qed.
Lemma Phi_with_pc s v : Phi (with_pc s v) = Phi s. Proof. reflexivity. Qed.
Lemma Phi_bump s : Phi (with_cycles s (cycles s + 1)) = Phi s + 1.
Proof. unfold Phi, dpen, dacc, dhit, ipen, iacc, ihit. stf. lia. Qed.

(** ** L0.2  the cycle law (property C07) *)

(* the conserved form: one step adds exactly one to cycles-minus-penalties-paid, and the
   configured penalties never change; it holds for every p, also when the step faults *)
Lemma step_Phi p :
  Phi (pst (fst (pipe_step p))) = Phi (pst p) + 1 /\
  dpen (pst (fst (pipe_step p))) = dpen (pst p) /\ ipen (pst (fst (pipe_step p))) = ipen (pst p).
Proof.
  rewrite pipe_step_eq. destruct (run_stages (bump p)) as [[next s] f] eqn:Hr.
  apply run_stages_law in Hr. destruct Hr as (HP & Hd & Hi & _).
  cbn [bump pst] in HP, Hd, Hi. rewrite Phi_bump in HP.
  change (dpen (with_cycles (pst p) (cycles (pst p) + 1))) with (dpen (pst p)) in Hd.
  change (ipen (with_cycles (pst p) (cycles (pst p) + 1))) with (ipen (pst p)) in Hi.
  destruct f as [f|]; cbn [fst].
  - cbn [faulted pst]. repeat split; assumption.
  - rewrite post_pst. unfold flush_st, stall_st.
    destruct (first_flush next) as [[i a]|]; destruct (new_stall next (stalled p)) as [j|];
      repeat split; assumption.
Qed.

Theorem cycle_law p :
  let s := pst p in let s' := pst (fst (pipe_step p)) in
  dpen s' = dpen s /\ ipen s' = ipen s /\
  cycles s' = cycles s + 1
              + ipen s * ((iacc s' - iacc s) - (ihit s' - ihit s))
              + dpen s * ((dacc s' - dacc s) - (dhit s' - dhit s)).
Proof.
  cbv zeta. destruct (step_Phi p) as (HP & Hd & Hi). split; [exact Hd|]. split; [exact Hi|].
  unfold Phi in HP. rewrite Hd, Hi in HP. lia.
Qed.

(* no penalties configured (in particular: flat memory, no instruction cache): one cycle per step *)
Corollary cycle_law_no_penalty p : dpen (pst p) = 0 -> ipen (pst p) = 0 ->
  cycles (pst (fst (pipe_step p))) = cycles (pst p) + 1.
Proof.
  intros Hd Hi. destruct (cycle_law p) as (_ & _ & H). rewrite H, Hd, Hi. lia.
Qed.

Corollary cycle_law_flat p m : ms (pst p) = MFlat m -> icc (im (pst p)) = None ->
  cycles (pst (fst (pipe_step p))) = cycles (pst p) + 1.
Proof.
  intros Hm Hi. apply cycle_law_no_penalty.
  - unfold dpen. rewrite Hm. reflexivity.
  - unfold ipen. rewrite Hi. reflexivity.
Qed.

(* number of calls of [pipe_step] made by [pipe_run] (a faulting step counts) *)
Fixpoint pipe_run_steps (fuel : nat) (p : pstate) : nat :=
  match fuel with
  | O => O
  | S k => if pipe_done p then O
           else match pipe_step p with
                | (_, Some _) => 1%nat
                | (p', None) => S (pipe_run_steps k p')
                end
  end.

Theorem pipe_run_cycles fuel : forall p, dpen (pst p) = 0 -> ipen (pst p) = 0 ->
  cycles (pst (fst (pipe_run fuel p))) = cycles (pst p) + Z.of_nat (pipe_run_steps fuel p).
Proof.
  induction fuel as [|k IH]; intros p Hd Hi; cbn [pipe_run pipe_run_steps].
  - cbn [fst]. lia.
  - destruct (pipe_done p); [cbn [fst]; lia|].
    pose proof (cycle_law_no_penalty p Hd Hi) as Hc. destruct (step_Phi p) as (_ & Hd' & Hi').
    destruct (pipe_step p) as [p' [f|]]; cbn [fst] in *.
    + lia.
    + rewrite IH by congruence. lia.
Qed.

Corollary pipe_run_cycles_flat fuel p m : ms (pst p) = MFlat m -> icc (im (pst p)) = None ->
  cycles (pst (fst (pipe_run fuel p))) = cycles (pst p) + Z.of_nat (pipe_run_steps fuel p).
Proof.
  intros Hm Hi. apply pipe_run_cycles.
  - unfold dpen. rewrite Hm. reflexivity.
  - unfold ipen. rewrite Hi. reflexivity.
Qed.

(** ** L0.3  counters *)

(* exact increments of a non-faulting step, in terms of the freshly computed latches *)
Lemma counters_step p next s : run_stages (bump p) = (next, s, None) ->
  let s0 := pst p in let s' := pst (fst (pipe_step p)) in
  stalls s' = stalls s0 + (match new_stall next (stalled p) with Some _ => 1 | None => 0 end) /\
  flushes s' = flushes s0 + (match first_flush next with Some _ => 1 | None => 0 end) /\
  icount s' = icount s0 + (if nonempty (lat_at (regs_for p 4) 3) then 1 else 0) /\
  bcount s' = bcount s0 + (if is_b_redirect (lat_at next 3) then 1 else 0) /\
  pcount s' = pcount s0 + (if is_j_redirect (lat_at next 3) then 1 else 0).
Proof.
  intros Hr. cbv zeta. rewrite pipe_step_eq, Hr. cbn [fst]. rewrite post_pst.
  apply run_stages_law in Hr.
  destruct Hr as (_ & _ & _ & Hst & Hfl & _ & Hic & Hbc & Hpc & _).
  change (regs_for (bump p) 4) with (regs_for p 4) in Hic. cbn [bump pst] in *. stf.
  unfold flush_st, stall_st.
  destruct (first_flush next) as [[i a]|]; destruct (new_stall next (stalled p)) as [j|]; stf;
    repeat split; lia.
Qed.

(* a faulting step: the stall / flush counters do not move *)
Lemma counters_fault p next s f : run_stages (bump p) = (next, s, Some f) ->
  let s0 := pst p in let s' := pst (fst (pipe_step p)) in
  stalls s' = stalls s0 /\ flushes s' = flushes s0 /\
  icount s' = icount s0 + (if nonempty (lat_at (regs_for p 4) 3) then 1 else 0) /\
  bcount s' = bcount s0 /\ pcount s' = pcount s0.
Proof.
  intros Hr. cbv zeta. rewrite pipe_step_eq, Hr. cbn [fst faulted pst].
  pose proof Hr as Hr'. apply run_stages_law in Hr.
  destruct Hr as (_ & _ & _ & Hst & Hfl & _ & Hic & Hbc & Hpc & _).
  change (regs_for (bump p) 4) with (regs_for p 4) in Hic. cbn [bump pst] in *. stf.
  (* on a fault latch 3 of the partial result is empty *)
  assert (H3 : lat_at next 3 = None).
  { unfold run_stages in Hr'.
    destruct (match stalled (bump p) with Some _ => _ | None => _ end) as [n0 s1].
    destruct (stage_wb _ _ _) as [[n4 s2] [e|]]; [inv Hr'; reflexivity|].
    destruct (stage_ex _ _ _) as [[n2 s3] [e|]]; [inv Hr'; reflexivity|].
    destruct (stage_mem _ _ _) as [[n3 s4] [e|]]; inv Hr'; reflexivity. }
  rewrite H3 in Hbc, Hpc. cbn [is_b_redirect is_j_redirect] in *. repeat split; lia.
Qed.

Theorem counters_monotone p :
  let s := pst p in let s' := pst (fst (pipe_step p)) in
  (stalls s' = stalls s \/ stalls s' = stalls s + 1) /\
  (flushes s' = flushes s \/ flushes s' = flushes s + 1) /\
  icount s' = icount s + (if nonempty (lat_at (regs_for p 4) 3) then 1 else 0) /\
  (bcount s' = bcount s \/ bcount s' = bcount s + 1) /\
  (pcount s' = pcount s \/ pcount s' = pcount s + 1).
Proof.
  cbv zeta. destruct (run_stages (bump p)) as [[next s] [f|]] eqn:Hr.
  - destruct (counters_fault _ _ _ _ Hr) as (H1 & H2 & H3 & H4 & H5).
    repeat split; try (left; assumption). exact H3.
  - destruct (counters_step _ _ _ Hr) as (H1 & H2 & H3 & H4 & H5).
    split; [destruct (new_stall next (stalled p)); [right|left]; lia|].
    split; [destruct (first_flush next); [right|left]; lia|].
    split; [exact H3|].
    split; [destruct (is_b_redirect (lat_at next 3)); [right|left]; lia|].
    destruct (is_j_redirect (lat_at next 3)); [right|left]; lia.
Qed.

(* the WB input is latch 3 in every stall mode that occurs (stalling stage 1 or 2) *)
Lemma wb_input_lat3 p : (stalled p = None \/ exists k d, stalled p = Some (k, d) /\ (k = 1 \/ k = 2)) ->
  lat_at (regs_for p 4) 3 = lat_at (lat p) 3.
Proof.
  unfold regs_for. intros [->|(k & d & -> & [->| ->])]; reflexivity.
Qed.

Corollary icount_step p :
  (stalled p = None \/ exists k d, stalled p = Some (k, d) /\ (k = 1 \/ k = 2)) ->
  icount (pst (fst (pipe_step p))) = icount (pst p) + (if nonempty (lat_at (lat p) 3) then 1 else 0).
Proof.
  intros H. destruct (counters_monotone p) as (_ & _ & Hic & _). cbv zeta in Hic.
  rewrite Hic, wb_input_lat3 by exact H. reflexivity.
Qed.

(** ** L0.4  hazard detection off (property C08) *)

Theorem hazards_flag_constant p : hazards (fst (pipe_step p)) = hazards p.
Proof.
  rewrite pipe_step_eq. destruct (run_stages (bump p)) as [[next s] [f|]]; cbn [fst].
  - reflexivity.
  - apply post_hazards.
Qed.

(* with the flag off the decode stage never raises a stall signal *)
Lemma nohaz_id_no_stall x l1 l2 s : has_stall (id_on false x l1 l2 s) = false.
Proof. apply id_on_flags. reflexivity. Qed.

Lemma nohaz_stage_id_no_stall regs s : has_stall (stage_id false regs 0 s) = false.
Proof. rewrite stage_id_on. apply nohaz_id_no_stall. Qed.

(* ... hence the only stall that can start is an ecall drain (index 2).  The hypothesis on
   latch 0 holds in every reachable state (PipeShape.shape_flags). *)
Theorem nohaz_new_stall p next s f : hazards p = false -> has_stall (lat_at (lat p) 0) = false ->
  run_stages (bump p) = (next, s, f) ->
  has_stall (lat_at next 1) = false /\
  (new_stall next (stalled p) = None \/ new_stall next (stalled p) = Some 2).
Proof.
  intros Hz H0 Hr. apply run_stages_law in Hr.
  destruct Hr as (_ & _ & _ & _ & _ & _ & _ & _ & _ & Hlen & Hs0 & _ & Hs1 & _ & Hs3 & Hs4).
  specialize (Hs1 Hz). split; [exact Hs1|].
  assert (Hs0' : has_stall (lat_at next 0) = false).
  { rewrite Hs0. unfold kept0. cbn [bump stalled lat]. destruct (stalled p); [exact H0|reflexivity]. }
  unfold new_stall. rewrite Hs0', Hs1, Hs3, Hs4. cbn [andb].
  destruct (has_stall (lat_at next 2) && _); [right|left]; reflexivity.
Qed.

(** ** L0.6  flush laws *)

Lemma clear_prefix_length l n : length (clear_prefix l n) = length l.
Proof.
  revert l; induction n as [|n IH]; intros [|x t]; cbn [clear_prefix length]; try reflexivity.
  rewrite IH. reflexivity.
Qed.

Lemma clear_prefix_below l n j : (j < n)%nat -> nth j (clear_prefix l n) None = None.
Proof.
  revert l j; induction n as [|n IH]; intros l j Hj; [lia|].
  destruct l as [|x t]; cbn [clear_prefix]; destruct j as [|j]; try reflexivity.
  cbn [nth]. apply IH. lia.
Qed.

Lemma clear_prefix_above l n j : (n <= j)%nat -> nth j (clear_prefix l n) None = nth j l None.
Proof.
  revert l j; induction n as [|n IH]; intros l j Hj; [destruct l; reflexivity|].
  destruct l as [|x t]; cbn [clear_prefix]; [reflexivity|].
  destruct j as [|j]; [lia|]. cbn [nth]. apply IH. lia.
Qed.

(* if stage i raises the (highest-index) flush signal with target a, then after the step:
   pc = a, one more flush, the latches below i are empty and those from i on are installed,
   and a stall of a stage below i is cancelled *)
Theorem flush_law p next s i a : run_stages (bump p) = (next, s, None) ->
  first_flush next = Some (i, a) ->
  let p' := fst (pipe_step p) in
  pc (pst p') = a /\ flushes (pst p') = flushes (pst p) + 1 /\
  lat p' = clear_prefix next (Z.to_nat i) /\
  (forall j, 0 <= j < i -> lat_at (lat p') j = None) /\
  (forall j, i <= j -> lat_at (lat p') j = lat_at next j) /\
  (forall k d, stalled p' = Some (k, d) -> i <= k).
Proof.
  intros Hr Hf. cbv zeta.
  destruct (counters_step _ _ _ Hr) as (_ & Hfl & _). cbv zeta in Hfl. rewrite Hf in Hfl.
  rewrite pipe_step_eq, Hr in *. cbn [fst] in *. rewrite post_pst, post_lat. unfold flush_st. rewrite Hf.
  split; [reflexivity|]. split; [rewrite post_pst in Hfl; unfold flush_st in Hfl; rewrite Hf in Hfl; exact Hfl|].
  split; [reflexivity|].
  split; [intros j Hj; unfold lat_at, nthZ; apply clear_prefix_below; lia|].
  split; [intros j Hj; unfold lat_at, nthZ; apply clear_prefix_above; lia|].
  intros k d. unfold post. destruct (stall_part _ _ _ _ _) as [[stl2 sv2] s1].
  rewrite flush_part_some with (i := i) (a := a) by exact Hf. cbn [stalled]. unfold stall_cancelled.
  destruct stl2 as [[k' d']|]; [|discriminate]. destruct (k' <? i) eqn:Hk; [discriminate|].
  intros H; inv H. lia.
Qed.

(* no flush signal: the freshly computed latches are installed unchanged *)
Lemma no_flush_law p next s : run_stages (bump p) = (next, s, None) -> first_flush next = None ->
  let p' := fst (pipe_step p) in
  lat p' = next /\ pc (pst p') = pc s /\ flushes (pst p') = flushes (pst p).
Proof.
  intros Hr Hf. cbv zeta.
  destruct (counters_step _ _ _ Hr) as (_ & Hfl & _). cbv zeta in Hfl. rewrite Hf in Hfl.
  rewrite pipe_step_eq, Hr in *. cbn [fst] in *. rewrite post_pst, post_lat in *. unfold flush_st in *.
  rewrite Hf in *. split; [reflexivity|]. split; [|lia].
  unfold stall_st. destruct (new_stall _ _); reflexivity.
Qed.

(** ** shapes of the stage outputs (non-faulting) *)
Lemma is_ecall_true i : is_ecall i = true -> i = IEcall.
Proof. destruct i; cbn [is_ecall]; intros H; try discriminate; reflexivity. Qed.

Lemma wb_on_shape x s n s' : wb_on x s = (n, s', None) -> n = option_map wb_slot x.
Proof.
  destruct x as [y|]; [rewrite wb_on_some|rewrite wb_on_none]; intros H.
  - destruct (write_back _ _ _ _) as [s2 [e0|]]; inv H; reflexivity.
  - inv H; reflexivity.
Qed.

Lemma mem_on_shape x s n s' : mem_on x s = (n, s', None) ->
  match x with None => n = None | Some y => exists rd, n = Some (mem_slot y rd) end.
Proof.
  destruct x as [y|]; [rewrite mem_on_some|rewrite mem_on_none]; intros H.
  - destruct (memory_access _ _ _ _) as [[rd|e0] s1]; inv H. eexists; reflexivity.
  - inv H; reflexivity.
Qed.

Lemma ex_on_shape x l2 l3 s n s' : ex_on x l2 l3 s = (n, s', None) ->
  match x with
  | None => n = None
  | Some y => exists cmp res stall ex fl, n = Some (ex_slot y cmp res stall ex fl) /\
      stall = is_ecall (sl_instr y) && ex_busy y l2 l3 /\
      ((ex = None /\ fl = None) \/
       (is_ecall (sl_instr y) = true /\ ex_busy y l2 l3 = false /\
        exists c, ex = Some c /\ fl = Some (sl_addr y + 4)))
  end.
Proof.
  destruct x as [y|]; [rewrite ex_on_some|rewrite ex_on_none]; intros H; [|inv H; reflexivity].
  destruct (alu_compute _ _ _) as [[cmp res]|e0]; [|inv H].
  destruct (is_ecall (sl_instr y)) eqn:He.
  - destruct (ex_busy y l2 l3) eqn:Hb.
    + inv H. do 5 eexists. split; [reflexivity|]. split; [reflexivity|]. left; split; reflexivity.
    + destruct (process_ecall s) as [[[t|c]|e0] s1]; inv H.
      * do 5 eexists. split; [reflexivity|]. split; [reflexivity|]. left; split; reflexivity.
      * do 5 eexists. split; [reflexivity|]. split; [reflexivity|]. right.
        repeat split. eexists; split; reflexivity.
  - inv H. do 5 eexists. split; [reflexivity|]. split; [reflexivity|]. left; split; reflexivity.
Qed.

(* faulting stages return an empty latch *)
Lemma wb_on_fault x s n s' e : wb_on x s = (n, s', Some e) -> n = None.
Proof.
  destruct x as [y|]; [rewrite wb_on_some|rewrite wb_on_none]; intros H.
  - destruct (write_back _ _ _ _) as [s2 [e0|]]; inv H; reflexivity.
  - inv H.
Qed.
Lemma ex_on_fault x l2 l3 s n s' e : ex_on x l2 l3 s = (n, s', Some e) -> n = None.
Proof.
  destruct x as [y|]; [rewrite ex_on_some|rewrite ex_on_none]; intros H; [|inv H].
  destruct (alu_compute _ _ _) as [[cmp res]|e0]; [|inv H; reflexivity].
  destruct (is_ecall (sl_instr y)); [|inv H].
  destruct (ex_busy y l2 l3); [inv H|].
  destruct (process_ecall s) as [[[t|c]|e0] s1]; inv H. reflexivity.
Qed.

Lemma fault_at_not_none x e : fault_at x e <> None.
Proof. unfold fault_at, fault_of. destruct (lat_at [x] 0); discriminate. Qed.
(* H : (_, _, fault_at x e) = (_, _, None) *)
Ltac nofault H := exfalso; injection H as _ _ H; exact (fault_at_not_none _ _ H).

(** ** [pipe_step] per stall mode *)
Definition bumped (s : st) : st := with_cycles s (cycles s + 1).

Definition finish (p : pstate) (r : list latch * st * option fault) : pstate * option fault :=
  match r with
  | (_, s, Some f) => (faulted p s, Some f)
  | (next, s, None) => (post p next s, None)
  end.

Lemma pipe_step_normal p l0 l1 l2 l3 l4 : lat p = [l0; l1; l2; l3; l4] -> stalled p = None ->
  pipe_step p = finish p (run_normal (hazards p) l0 l1 l2 l3 (bumped (pst p))).
Proof.
  intros Hl Hs. rewrite pipe_step_eq.
  rewrite (run_stages_normal (bump p) l0 l1 l2 l3 l4) by assumption. reflexivity.
Qed.
Lemma pipe_step_stall1 p l0 l1 l2 l3 l4 d : lat p = [l0; l1; l2; l3; l4] -> stalled p = Some (1, d) ->
  pipe_step p = finish p (run_stall1 (hazards p) (sv_at p 0) l0 l1 l2 l3 (bumped (pst p))).
Proof.
  intros Hl Hs. rewrite pipe_step_eq.
  rewrite (run_stages_stall1 (bump p) l0 l1 l2 l3 l4 d) by assumption. reflexivity.
Qed.
Lemma pipe_step_stall2 p l0 l1 l2 l3 l4 d : lat p = [l0; l1; l2; l3; l4] -> stalled p = Some (2, d) ->
  pipe_step p = finish p (run_stall2 (hazards p) (sv_at p 0) (sv_at p 1) l0 l1 l2 l3 (bumped (pst p))).
Proof.
  intros Hl Hs. rewrite pipe_step_eq.
  rewrite (run_stages_stall2 (bump p) l0 l1 l2 l3 l4 d) by assumption. reflexivity.
Qed.

(** ** L0.5  write-back before decode *)

(* the register file after the WB stage has processed latch x in state s *)
Definition wb_regs (x : latch) (s : st) : zmap :=
  match x with
  | None => regs s
  | Some y => regs (fst (write_back (sl_instr y) (sl_wreg y) (wb_data y) s))
  end.

Lemma write_back_regs_ext i w d s s' : regs s = regs s' ->
  regs (fst (write_back i w d s)) = regs (fst (write_back i w d s')).
Proof.
  intros H. unfold write_back, rset.
  destruct i, w, d; cbn [fst]; try exact H; destruct (_ && _); stf; congruence.
Qed.

Lemma wb_regs_ext x s s' : regs s = regs s' -> wb_regs x s = wb_regs x s'.
Proof. intros H. destruct x as [y|]; cbn [wb_regs]; [apply write_back_regs_ext|]; exact H. Qed.

Lemma wb_on_regs x s n s2 : wb_on x s = (n, s2, None) -> regs s2 = wb_regs x s.
Proof.
  destruct x as [y|]; [rewrite wb_on_some|rewrite wb_on_none]; intros H; [|inv H; reflexivity].
  cbn [wb_regs]. rewrite (write_back_regs_ext _ _ _ s (with_icount s (icount s + 1))) by reflexivity.
  destruct (write_back _ _ _ _) as [s3 [e|]]; inv H. cbn [fst]. unfold wb_exit.
  destruct (sl_exit y); reflexivity.
Qed.

(* the decode stage looks at the state only through the register file *)
Lemma access_rf_ext i s s' : regs s = regs s' -> access_rf i s = access_rf i s'.
Proof. intros H. unfold access_rf, rget. rewrite H. reflexivity. Qed.

Lemma id_on_ext hz x l1 l2 s s' : regs s = regs s' -> id_on hz x l1 l2 s = id_on hz x l1 l2 s'.
Proof.
  intros H. destruct x as [y|]; [|reflexivity]. rewrite !id_on_some.
  unfold id_slot, id_stall, rf_ra1, rf_ra2, rf_rd1, rf_rd2, rf_imm.
  rewrite (access_rf_ext _ s s' H). reflexivity.
Qed.

(* the slot the decode stage works on in this cycle *)
Definition id_input (p : pstate) : latch :=
  match stalled p with None => lat_at (lat p) 0 | Some _ => sv_at p 0 end.

(* In every mode the latch written by ID is the decode of its input against the register file
   as it is AFTER the WB stage of the same cycle has written. *)
Theorem wb_before_id p l0 l1 l2 l3 l4 next s :
  lat p = [l0; l1; l2; l3; l4] ->
  (stalled p = None \/ exists k d, stalled p = Some (k, d) /\ (k = 1 \/ k = 2)) ->
  run_stages p = (next, s, None) ->
  lat_at next 1 =
  id_on (hazards p) (id_input p) l1 l2 (with_regs (pst p) (wb_regs l3 (pst p))).
Proof.
  intros Hl Hm Hr. unfold id_input. rewrite Hl. lat5.
  destruct Hm as [Hs|(k & d & Hs & [->| ->])]; rewrite Hs.
  - rewrite (run_stages_normal p l0 l1 l2 l3 l4 Hl Hs) in Hr. unfold run_normal in Hr.
    destruct (stage_if (pst p)) as [n0 s1] eqn:HIF. apply stage_if_law in HIF.
    destruct HIF as (Hrg & _).
    destruct (wb_on l3 s1) as [[n4 s2] [e|]] eqn:HWB; [nofault Hr|]. apply wb_on_regs in HWB.
    destruct (ex_on l1 l2 l3 s2) as [[n2 s3] [e|]]; [nofault Hr|].
    destruct (mem_on l2 s3) as [[n3 s4] [e|]]; [nofault Hr|]. inv Hr. lat5.
    apply id_on_ext. stf. rewrite HWB. apply wb_regs_ext. exact Hrg.
  - rewrite (run_stages_stall1 p l0 l1 l2 l3 l4 d Hl Hs) in Hr. unfold run_stall1 in Hr.
    destruct (wb_on l3 (pst p)) as [[n4 s2] [e|]] eqn:HWB; [nofault Hr|]. apply wb_on_regs in HWB.
    destruct (mem_on l2 s2) as [[n3 s4] [e|]]; [nofault Hr|]. inv Hr. lat5.
    apply id_on_ext. stf. exact HWB.
  - rewrite (run_stages_stall2 p l0 l1 l2 l3 l4 d Hl Hs) in Hr. unfold run_stall2 in Hr.
    destruct (wb_on l3 (pst p)) as [[n4 s2] [e|]] eqn:HWB; [nofault Hr|]. apply wb_on_regs in HWB.
    destruct (ex_on (sv_at p 1) l2 l3 s2) as [[n2 s3] [e|]]; [nofault Hr|]. inv Hr. lat5.
    apply id_on_ext. stf. exact HWB.
Qed.

(* the operands latched: rs values of the post-WB register file *)
Corollary wb_before_id_operands p l0 l1 l2 l3 l4 next s y :
  lat p = [l0; l1; l2; l3; l4] ->
  (stalled p = None \/ exists k d, stalled p = Some (k, d) /\ (k = 1 \/ k = 2)) ->
  run_stages p = (next, s, None) -> id_input p = Some y ->
  exists z, lat_at next 1 = Some z /\ sl_instr z = sl_instr y /\ sl_addr z = sl_addr y /\
    (sl_ra1 z, sl_ra2 z, sl_rd1 z, sl_rd2 z, sl_imm z) =
      access_rf (sl_instr y) (with_regs (pst p) (wb_regs l3 (pst p))).
Proof.
  intros Hl Hm Hr Hy. rewrite (wb_before_id _ _ _ _ _ _ _ _ Hl Hm Hr), Hy, id_on_some.
  eexists; split; [reflexivity|]. cbn [id_slot sl_instr sl_addr sl_ra1 sl_ra2 sl_rd1 sl_rd2 sl_imm].
  unfold rf_ra1, rf_ra2, rf_rd1, rf_rd2, rf_imm.
  destruct (access_rf _ _) as [[[[a b] c] d] e]. repeat split.
Qed.

(** ** L0.7  stall countdown *)

(* a flush raised by a stage behind stage k cancels the stall of stage k *)
Definition flush_cancels (next : list latch) (k : Z) : bool :=
  match first_flush next with Some (i, _) => k <? i | None => false end.

Lemma post_stalled_saved p next s stl2 sv2 s1 :
  stall_part (stalled p) (saved p) (lat p) next s = (stl2, sv2, s1) ->
  stalled (post p next s) =
    match stl2 with Some (k, _) => if flush_cancels next k then None else stl2 | None => None end /\
  saved (post p next s) =
    match stl2 with Some (k, _) => if flush_cancels next k then None else sv2 | None => sv2 end.
Proof.
  intros H. unfold post, flush_part, flush_cancels. rewrite H.
  destruct (first_flush next) as [[i a]|].
  - destruct stl2 as [[k d]|]; [destruct (k <? i)|]; split; reflexivity.
  - destruct stl2 as [[k d]|]; split; reflexivity.
Qed.

(* detection: the step in which stage k raises a (counting) stall signal ends with (k, 2)
   — "3 minus the immediate decrement" — and the old inputs of stages < k in the skid registers *)
Theorem stall_detect p next s k : stalled p = None -> saved p = None ->
  run_stages (bump p) = (next, s, None) -> new_stall next None = Some k ->
  let p' := fst (pipe_step p) in
  stalls (pst p') = stalls (pst p) + 1 /\
  if flush_cancels next k then stalled p' = None /\ saved p' = None
  else stalled p' = Some (k, 2) /\
       saved p' = Some (map mark_saved (firstn (Z.to_nat k) (lat p))).
Proof.
  intros Hs Hv Hr Hn. cbv zeta.
  destruct (counters_step _ _ _ Hr) as (Hst & _). cbv zeta in Hst. rewrite Hs, Hn in Hst.
  split; [exact Hst|]. rewrite pipe_step_eq, Hr. cbn [fst].
  destruct (post_stalled_saved p next s _ _ _ (eq_trans
     (f_equal2 (fun a b => stall_part a b (lat p) next s) Hs Hv) (stall_part_new _ _ _ _ Hn))) as [H1 H2].
  rewrite H1, H2. destruct (flush_cancels next k); split; reflexivity.
Qed.

(* first stalled cycle: (k, 2) -> (k, 1), skid registers kept *)
Theorem stall_first p next s k sv : stalled p = Some (k, 2) -> saved p = Some sv ->
  run_stages (bump p) = (next, s, None) -> new_stall next (Some (k, 2)) = None ->
  let p' := fst (pipe_step p) in
  stalls (pst p') = stalls (pst p) /\
  if flush_cancels next k then stalled p' = None /\ saved p' = None
  else stalled p' = Some (k, 1) /\ saved p' = Some sv.
Proof.
  intros Hs Hv Hr Hn. cbv zeta.
  destruct (counters_step _ _ _ Hr) as (Hst & _). cbv zeta in Hst. rewrite Hs, Hn in Hst.
  split; [lia|]. rewrite pipe_step_eq, Hr. cbn [fst].
  destruct (post_stalled_saved p next s _ _ _ (eq_trans
     (f_equal2 (fun a b => stall_part a b (lat p) next s) Hs Hv) (stall_part_first _ _ _ _ _ Hn))) as [H1 H2].
  rewrite H1, H2. destruct (flush_cancels next k); split; reflexivity.
Qed.

(* second stalled cycle: (k, 1) -> not stalled, skid registers dropped *)
Theorem stall_last p next s k sv : stalled p = Some (k, 1) -> saved p = Some sv ->
  run_stages (bump p) = (next, s, None) -> new_stall next (Some (k, 1)) = None ->
  let p' := fst (pipe_step p) in
  stalls (pst p') = stalls (pst p) /\ stalled p' = None /\ saved p' = None.
Proof.
  intros Hs Hv Hr Hn. cbv zeta.
  destruct (counters_step _ _ _ Hr) as (Hst & _). cbv zeta in Hst. rewrite Hs, Hn in Hst.
  split; [lia|]. rewrite pipe_step_eq, Hr. cbn [fst].
  destruct (post_stalled_saved p next s _ _ _ (eq_trans
     (f_equal2 (fun a b => stall_part a b (lat p) next s) Hs Hv) (stall_part_last _ _ _ _ _ Hn))) as [H1 H2].
  rewrite H1, H2. split; reflexivity.
Qed.

(* not stalled and no stall signal: stays not stalled *)
Theorem stall_idle p next s : stalled p = None -> saved p = None ->
  run_stages (bump p) = (next, s, None) -> new_stall next None = None ->
  let p' := fst (pipe_step p) in
  stalls (pst p') = stalls (pst p) /\ stalled p' = None /\ saved p' = None.
Proof.
  intros Hs Hv Hr Hn. cbv zeta.
  destruct (counters_step _ _ _ Hr) as (Hst & _). cbv zeta in Hst. rewrite Hs, Hn in Hst.
  split; [lia|]. rewrite pipe_step_eq, Hr. cbn [fst].
  destruct (post_stalled_saved p next s _ _ _ (eq_trans
     (f_equal2 (fun a b => stall_part a b (lat p) next s) Hs Hv) (stall_part_idle _ _ _ Hn))) as [H1 H2].
  rewrite H1, H2. split; reflexivity.
Qed.

(* while stage k is stalled, stall signals of stages <= k are ignored: with only ID and EX able
   to raise one, no new stall can start while EX (k = 2) is stalled *)
Lemma new_stall_ignored_2 n0 n1 n2 n3 n4 d :
  has_stall n0 = false -> has_stall n3 = false -> has_stall n4 = false ->
  new_stall [n0; n1; n2; n3; n4] (Some (2, d)) = None.
Proof.
  intros H0 H3 H4. rewrite new_stall_5 by assumption. cbn [above]. change (2 <? 2) with false.
  change (2 <? 1) with false. rewrite !Bool.andb_false_r. reflexivity.
Qed.
(* ... and while ID (k = 1) is stalled EX receives a bubble, so its output carries no signal *)
Lemma new_stall_ignored_1 n0 n1 n3 n4 d :
  has_stall n0 = false -> has_stall n3 = false -> has_stall n4 = false ->
  new_stall [n0; n1; None; n3; n4] (Some (1, d)) = None.
Proof.
  intros H0 H3 H4. rewrite new_stall_5 by assumption. cbn [above has_stall andb].
  change (1 <? 1) with false. rewrite !Bool.andb_false_r. reflexivity.
Qed.

(** ** the interlock law: while ID is stalled no instruction enters EX *)
Lemma clear_prefix_keeps_none l n j : nth j l None = None -> nth j (clear_prefix l n) (@None slot) = None.
Proof.
  intros H. destruct (Nat.lt_ge_cases j n) as [Hlt|Hge].
  - apply clear_prefix_below; exact Hlt.
  - rewrite clear_prefix_above by exact Hge. exact H.
Qed.

Theorem interlock_ex_bubble p l0 l1 l2 l3 l4 d : lat p = [l0; l1; l2; l3; l4] ->
  stalled p = Some (1, d) -> snd (pipe_step p) = None ->
  lat_at (lat (fst (pipe_step p))) 2 = None.
Proof.
  intros Hl Hs Hok. rewrite (pipe_step_stall1 p l0 l1 l2 l3 l4 d Hl Hs) in *.
  unfold run_stall1 in *.
  destruct (wb_on l3 (bumped (pst p))) as [[n4 s2] [e|]]; [cbn [finish snd] in Hok; destruct (fault_at l3 e) eqn:Hf; [discriminate|exact (False_ind _ (fault_at_not_none _ _ Hf))]|].
  destruct (mem_on l2 s2) as [[n3 s4] [e|]]; [cbn [finish snd] in Hok; destruct (fault_at l2 e) eqn:Hf; [discriminate|exact (False_ind _ (fault_at_not_none _ _ Hf))]|].
  cbn [finish fst]. rewrite post_lat.
  destruct (first_flush _) as [[i a]|]; [|reflexivity].
  unfold lat_at, nthZ. apply clear_prefix_keeps_none. reflexivity.
Qed.

(** ** L0.6 (second half)  control transfers are resolved in MEM, fetch is redirected next cycle *)

(* IF always writes latch 0 when the pipeline is not stalled, and it fetches at the current pc *)
Lemma if_latch p next s f : stalled p = None -> run_stages p = (next, s, f) ->
  lat_at next 0 = fst (stage_if (pst p)).
Proof.
  intros Hs Hr. unfold run_stages in Hr. rewrite Hs in Hr.
  destruct (stage_if (pst p)) as [n0 s1]. cbn [fst].
  destruct (stage_wb _ _ _) as [[n4 s2] [e|]]; [inv Hr; reflexivity|].
  destruct (stage_ex _ _ _) as [[n2 s3] [e|]]; [inv Hr; reflexivity|].
  destruct (stage_mem _ _ _) as [[n3 s4] [e|]]; inv Hr; reflexivity.
Qed.

Lemma if_fetches_at_pc p next s f : stalled p = None -> run_stages (bump p) = (next, s, f) ->
  lat_at next 0 = None \/ exists i, lat_at next 0 = Some (slot_if i (pc (pst p))).
Proof.
  intros Hs Hr. rewrite (if_latch (bump p) next s f Hs Hr).
  destruct (stage_if (pst (bump p))) as [n0 s1] eqn:HIF. apply stage_if_law in HIF.
  destruct HIF as (_ & _ & _ & _ & _ & _ & _ & _ & _ & _ & _ & _ & _ & [[-> _]|(i & -> & _)]).
  - left; reflexivity.
  - right; exists i; reflexivity.
Qed.

(* a slot in the EX latch (the MEM input) whose [mem_flush] is [Some a] — a taken branch, a jal,
   a jalr (or an exiting ecall) — redirects in THIS step, provided WB does not flush as well
   (an exiting ecall one stage ahead has priority) *)
Theorem redirect_in_mem p l0 l1 l2 l3 l4 y a :
  lat p = [l0; l1; l2; l3; l4] ->
  (stalled p = None \/ (exists d, stalled p = Some (1, d)) /\ has_stall l0 = false /\ flush_of l0 = None) ->
  l2 = Some y -> mem_flush y = Some a ->
  match l3 with Some w => sl_exit w = None | None => True end ->
  snd (pipe_step p) = None ->
  let p' := fst (pipe_step p) in
  pc (pst p') = a /\ flushes (pst p') = flushes (pst p) + 1 /\
  lat_at (lat p') 0 = None /\ lat_at (lat p') 1 = None /\ lat_at (lat p') 2 = None /\
  (exists rd, lat_at (lat p') 3 = Some (mem_slot y rd)) /\
  stalled p' = None.
Proof.
  intros Hl Hm -> Hfl Hex Hok. cbv zeta.
  (* common tail: given the computed latches *)
  assert (K : forall n0 n1 n2 n4 rd s,
     run_stages (bump p) = ([n0; n1; n2; Some (mem_slot y rd); n4], s, None) ->
     has_stall n0 = false -> flush_of n0 = None -> flush_of n1 = None -> flush_of n4 = None ->
     has_stall n4 = false ->
     pc (pst (fst (pipe_step p))) = a /\ flushes (pst (fst (pipe_step p))) = flushes (pst p) + 1 /\
     lat_at (lat (fst (pipe_step p))) 0 = None /\ lat_at (lat (fst (pipe_step p))) 1 = None /\
     lat_at (lat (fst (pipe_step p))) 2 = None /\
     (exists rd, lat_at (lat (fst (pipe_step p))) 3 = Some (mem_slot y rd)) /\
     stalled (fst (pipe_step p)) = None).
  { intros n0 n1 n2 n4 rd s Hr Hs0 Hf0 Hf1 Hf4 Hs4.
    assert (Hff : first_flush [n0; n1; n2; Some (mem_slot y rd); n4] = Some (3, a)).
    { rewrite first_flush_5 by assumption. rewrite Hf4. cbn [flush_of mem_slot sl_flush]. rewrite Hfl. reflexivity. }
    destruct (flush_law p _ _ _ _ Hr Hff) as (Hpc & Hflc & Hlat & Hbelow & Habove & Hstl).
    split; [exact Hpc|]. split; [exact Hflc|].
    split; [apply Hbelow; lia|]. split; [apply Hbelow; lia|]. split; [apply Hbelow; lia|].
    split; [exists rd; rewrite Habove by lia; reflexivity|].
    destruct (stalled (fst (pipe_step p))) as [[k d]|] eqn:Hst; [|reflexivity]. exfalso.
    specialize (Hstl k d eq_refl).
    (* the stall register after the stall bookkeeping names stage 1 or 2 *)
    rewrite pipe_step_eq, Hr in Hst. cbn [fst] in Hst.
    destruct (stall_part (stalled p) (saved p) (lat p) [n0; n1; n2; Some (mem_slot y rd); n4] s)
      as [[stl2 sv2] s1] eqn:Hsp.
    destruct (post_stalled_saved p _ s _ _ _ Hsp) as [H1 _]. rewrite H1 in Hst.
    destruct stl2 as [[k' d']|]; [|discriminate].
    destruct (flush_cancels _ k'); [discriminate|]. inv Hst.
    unfold stall_part in Hsp. rewrite new_stall_5 in Hsp by (assumption || reflexivity).
    destruct Hm as [Hs|[[d0 Hs] _]]; rewrite Hs in Hsp; cbn [above] in Hsp;
      repeat match type of Hsp with
             | context [if ?c then _ else _] => destruct c
             | context [match saved p with _ => _ end] => destruct (saved p)
             end; inv Hsp; lia. }
  destruct Hm as [Hs|[[d Hs] [Hs0 Hf0]]].
  - rewrite (pipe_step_normal p _ _ _ _ _ Hl Hs) in Hok.
    pose proof (run_stages_normal (bump p) _ _ _ _ _ Hl Hs) as Hr.
    change (hazards (bump p)) with (hazards p) in Hr. change (pst (bump p)) with (bumped (pst p)) in Hr.
    unfold run_normal in Hok, Hr.
    destruct (stage_if (bumped (pst p))) as [n0 s1] eqn:HIF. apply stage_if_flags in HIF. destruct HIF as [Hs0 Hf0].
    destruct (wb_on l3 s1) as [[n4 s2] [e|]] eqn:HWB;
      [cbn [finish snd] in Hok; destruct (fault_at l3 e) eqn:Hf; [discriminate|exact (False_ind _ (fault_at_not_none _ _ Hf))]|].
    pose proof (wb_on_flags _ _ _ _ _ HWB) as Hs4. apply wb_on_shape in HWB. subst n4.
    destruct (ex_on l1 (Some y) l3 s2) as [[n2 s3] [e|]];
      [cbn [finish snd] in Hok; destruct (fault_at l1 e) eqn:Hf; [discriminate|exact (False_ind _ (fault_at_not_none _ _ Hf))]|].
    destruct (mem_on (Some y) s3) as [[n3 s4] [e|]] eqn:HMEM;
      [cbn [finish snd] in Hok; destruct (fault_at (Some y) e) eqn:Hf; [discriminate|exact (False_ind _ (fault_at_not_none _ _ Hf))]|].
    apply mem_on_shape in HMEM. destruct HMEM as [rd ->].
    eapply K; [exact Hr|assumption|assumption|apply id_on_flags| |assumption].
    destruct l3 as [w|]; cbn [option_map flush_of wb_slot sl_flush]; [|reflexivity].
    unfold wb_flush. rewrite Hex. reflexivity.
  - rewrite (pipe_step_stall1 p _ _ _ _ _ d Hl Hs) in Hok.
    pose proof (run_stages_stall1 (bump p) _ _ _ _ _ d Hl Hs) as Hr.
    change (hazards (bump p)) with (hazards p) in Hr. change (pst (bump p)) with (bumped (pst p)) in Hr.
    change (sv_at (bump p) 0) with (sv_at p 0) in Hr.
    unfold run_stall1 in Hok, Hr.
    destruct (wb_on l3 (bumped (pst p))) as [[n4 s2] [e|]] eqn:HWB;
      [cbn [finish snd] in Hok; destruct (fault_at l3 e) eqn:Hf; [discriminate|exact (False_ind _ (fault_at_not_none _ _ Hf))]|].
    pose proof (wb_on_flags _ _ _ _ _ HWB) as Hs4. apply wb_on_shape in HWB. subst n4.
    destruct (mem_on (Some y) s2) as [[n3 s4] [e|]] eqn:HMEM;
      [cbn [finish snd] in Hok; destruct (fault_at (Some y) e) eqn:Hf; [discriminate|exact (False_ind _ (fault_at_not_none _ _ Hf))]|].
    apply mem_on_shape in HMEM. destruct HMEM as [rd ->].
    eapply K; [exact Hr|assumption|assumption|apply id_on_flags| |assumption].
    destruct l3 as [w|]; cbn [option_map flush_of wb_slot sl_flush]; [|reflexivity].
    unfold wb_flush. rewrite Hex. reflexivity.
Qed.

(* which instructions redirect: jumps always, branches when taken, jalr always *)
Lemma mem_flush_jal y rd imm abs : sl_instr y = IJal rd imm abs -> mem_flush y = sl_pcimm y.
Proof. unfold mem_flush. intros ->. reflexivity. Qed.
Lemma mem_flush_jalr y rd rs1 imm : sl_instr y = IJalr rd rs1 imm -> mem_flush y = sl_result y.
Proof. unfold mem_flush. intros ->. reflexivity. Qed.
Lemma mem_flush_branch y o rs1 rs2 imm : sl_instr y = IBranch o rs1 rs2 imm ->
  mem_flush y = match sl_cmp y with
                | Some true => sl_pcimm y
                | _ => match sl_exit y with Some _ => Some (sl_addr y + 4) | None => None end
                end.
Proof. unfold mem_flush. intros ->. cbn. destruct (sl_cmp y) as [[|]|]; reflexivity. Qed.

(** ** L0.4 (last clause)  with the flag off the stall counter moves only for an ecall in EX *)
Theorem nohaz_stalls_only_ecall p l0 l1 l2 l3 l4 :
  lat p = [l0; l1; l2; l3; l4] -> hazards p = false -> has_stall l0 = false ->
  (stalled p = None \/ exists k d, stalled p = Some (k, d) /\ (k = 1 \/ k = 2)) ->
  stalls (pst (fst (pipe_step p))) <> stalls (pst p) ->
  stalled p = None /\ exists y, l1 = Some y /\ sl_instr y = IEcall /\ ex_busy y l2 l3 = true.
Proof.
  intros Hl Hz H0 Hm Hne.
  destruct (run_stages (bump p)) as [[next s] [f|]] eqn:Hr.
  { destruct (counters_fault _ _ _ _ Hr) as (Hst & _). cbv zeta in Hst. congruence. }
  destruct (counters_step _ _ _ Hr) as (Hst & _). cbv zeta in Hst.
  destruct (nohaz_new_stall p next s None Hz) as [_ [Hn|Hn]];
    [rewrite Hl; exact H0|exact Hr|rewrite Hn in Hst; lia|].
  clear Hst Hne.
  destruct Hm as [Hs|(k & d & Hs & [->| ->])].
  - split; [exact Hs|]. rewrite (run_stages_normal (bump p) _ _ _ _ _ Hl Hs) in Hr.
    change (hazards (bump p)) with (hazards p) in Hr. rewrite Hz in Hr.
    unfold run_normal in Hr.
    destruct (stage_if _) as [n0 s1] eqn:HIF. apply stage_if_flags in HIF. destruct HIF as [Hs0 _].
    destruct (wb_on l3 s1) as [[n4 s2] [e|]] eqn:HWB; [nofault Hr|].
    apply wb_on_flags in HWB.
    destruct (ex_on l1 l2 l3 s2) as [[n2 s3] [e|]] eqn:HEX; [nofault Hr|].
    destruct (mem_on l2 s3) as [[n3 s4] [e|]] eqn:HMEM; [nofault Hr|].
    apply mem_on_flags in HMEM. inv Hr.
    rewrite new_stall_5 in Hn by assumption. rewrite Hs in Hn. cbn [above] in Hn.
    rewrite (nohaz_id_no_stall) in Hn. cbn [andb] in Hn. rewrite Bool.andb_true_r in Hn.
    destruct (has_stall n2) eqn:Hs2; [|discriminate].
    apply ex_on_shape in HEX. destruct l1 as [y|]; [|subst n2; discriminate].
    destruct HEX as (cmp & res & stall & ex & fl & -> & Hstall & _). cbn [has_stall ex_slot sl_stall] in Hs2.
    subst stall. apply Bool.andb_true_iff in Hs2. destruct Hs2 as [He Hb].
    exists y. split; [reflexivity|]. split; [apply is_ecall_true; exact He|exact Hb].
  - exfalso. rewrite (run_stages_stall1 (bump p) _ _ _ _ _ d Hl Hs) in Hr. unfold run_stall1 in Hr.
    destruct (wb_on l3 _) as [[n4 s2] [e|]] eqn:HWB; [nofault Hr|]. apply wb_on_flags in HWB.
    destruct (mem_on l2 s2) as [[n3 s4] [e|]] eqn:HMEM; [nofault Hr|]. apply mem_on_flags in HMEM.
    inv Hr. rewrite Hs, new_stall_ignored_1 in Hn by assumption. discriminate.
  - exfalso. rewrite (run_stages_stall2 (bump p) _ _ _ _ _ d Hl Hs) in Hr. unfold run_stall2 in Hr.
    destruct (wb_on l3 _) as [[n4 s2] [e|]] eqn:HWB; [nofault Hr|]. apply wb_on_flags in HWB.
    destruct (ex_on _ l2 l3 s2) as [[n2 s3] [e|]] eqn:HEX; [nofault Hr|].
    inv Hr. rewrite Hs, new_stall_ignored_2 in Hn by (assumption || reflexivity). discriminate.
Qed.

(** ** summaries used by Props/C07.v *)
Lemma access_cycles_lem :
  (forall s n a c r s', st_read s n a c = (r, s') ->
     dpen s' = dpen s /\ cnt_step c (dpen s) (dacc s) (dhit s) (dacc s') (dhit s') (cycles s' - cycles s)) /\
  (forall s n a v d e s', st_write s n a v d = (e, s') ->
     dpen s' = dpen s /\
     cnt_step (negb d) (dpen s) (dacc s) (dhit s) (dacc s') (dhit s') (cycles s' - cycles s)) /\
  (forall s a oi s', fetch s a = (oi, s') ->
     ipen s' = ipen s /\ cnt_step true (ipen s) (iacc s) (ihit s) (iacc s') (ihit s') (cycles s' - cycles s)) /\
  (forall c pen acc hit acc' hit' d, cnt_step c pen acc hit acc' hit' d ->
     d = pen * ((acc' - acc) - (hit' - hit)) /\
     ((acc' - acc) - (hit' - hit) = 1 <-> counted_miss acc hit acc' hit')) /\
  (forall s r s', process_ecall s = (r, s') ->
     cycles s' = cycles s /\ dacc s' = dacc s /\ dhit s' = dhit s).
Proof.
  split; [intros s n a c r s' H; apply st_read_law in H; tauto|].
  split; [intros s n a v d e s' H; apply st_write_law in H; tauto|].
  split; [intros s a oi s' H; apply fetch_law in H; tauto|].
  split; [exact cnt_step_penalty|].
  intros s r s' H; apply process_ecall_law in H; tauto.
Qed.

Lemma redirecting_slots_lem :
  (forall y rd imm abs, sl_instr y = IJal rd imm abs -> mem_flush y = sl_pcimm y) /\
  (forall y rd rs1 imm, sl_instr y = IJalr rd rs1 imm -> mem_flush y = sl_result y) /\
  (forall y o rs1 rs2 imm, sl_instr y = IBranch o rs1 rs2 imm ->
     mem_flush y = match sl_cmp y with
                   | Some true => sl_pcimm y
                   | _ => match sl_exit y with Some _ => Some (sl_addr y + 4) | None => None end
                   end).
Proof. split; [exact mem_flush_jal|split; [exact mem_flush_jalr|exact mem_flush_branch]]. Qed.
