(* FlagOffCyc.v — property C08, phase B, part 8: a line-by-line Gallina transliteration of the
   Python reference [delayed_wb] (harness/sched.py) WITH its cycle numbers, and the retire
   schedule of the modelled pipeline, for cross-checking by closed computation.  Definitions
   only; the theorems are about the cycle-free presentation [dwb_run] (FlagOffDwb.v), which
   this file relates to the Python text by examples ([vm_compute]), not by proof.

   cyc_D, cyc_X, cyc_M  decode / execute / memory cycle of the previous instruction
   cyc_Ms, cyc_Ws       MEM and WB cycles of all earlier instructions (the ecall drain test)
   cyc_pend             pending register writes (write-back cycle, register, value), in program
                        order (their write-back cycles increase, so Python's [sorted] is the identity)
   cyc_regs0            the initial register file ([committed] in the Python code never changes)
   cyc_ret              (pc, write-back cycle) of the instructions executed so far *)
From Coq Require Import Lia ZifyBool.
From ArchSim Require Import Model.Base Model.Mem Model.Cache Model.Fmt Model.RV Model.Single
  Model.RVSplit Model.Pipe Proofs.PipeInv Proofs.FlagOffDwb.
Open Scope Z_scope.

Record cyc := mkCyc {
  cyc_t : st; cyc_regs0 : zmap; cyc_pend : list (Z * Z * Z);
  cyc_first : bool; cyc_D : Z; cyc_X : Z; cyc_M : Z; cyc_red : bool;
  cyc_Ms : list Z; cyc_Ws : list Z; cyc_ret : list (Z * Z) }.

Definition cyc_view (regs0 : zmap) (pend : list (Z * Z * Z)) (tm : Z) : zmap :=
  fold_left (fun r e => let '(w, dst, v) := e in if w <=? tm then mset r dst v else r) pend regs0.
Definition cyc_final (regs0 : zmap) (pend : list (Z * Z * Z)) : zmap :=
  fold_left (fun r e => let '(w, dst, v) := e in mset r dst v) pend regs0.

Definition is_jump (i : instr) : bool := match i with IJal _ _ _ | IJalr _ _ _ => true | _ => false end.

(* one iteration of the while loop; None = the single-cycle step raised *)
Definition cyc_step (c : cyc) (i : instr) : option cyc :=
  let t := cyc_t c in
  let d0 := if cyc_first c then 2 else if cyc_red c then cyc_M c + 2 else cyc_D c + 1 in
  let d := if cyc_first c then d0 else Z.max d0 (cyc_X c) in
  let x0 := d + 1 in
  let busy := existsb (fun m => m =? x0) (cyc_Ms c) || existsb (fun w => w =? x0) (cyc_Ws c) in
  let x := if is_ecall i && busy then x0 + 2 else x0 in
  let tm := if is_ecall i then x else d in
  let view := cyc_view (cyc_regs0 c) (cyc_pend c) tm in
  match single_pipeline_step (vstate view t) with
  | (_, Some _) => None
  | (u', None) =>
      let red := negb (bcount u' =? bcount t) || is_jump i ||
                 match exitc u' with Some _ => true | None => false end in
      let pend' := match write_reg i with
                   | Some dst => if dst =? 0 then cyc_pend c
                                 else cyc_pend c ++ [(x + 2, dst, mget (regs u') dst)]
                   | None => cyc_pend c
                   end in
      Some {| cyc_t := u'; cyc_regs0 := cyc_regs0 c; cyc_pend := pend';
              cyc_first := false; cyc_D := d; cyc_X := x; cyc_M := x + 1; cyc_red := red;
              cyc_Ms := cyc_Ms c ++ [x + 1]; cyc_Ws := cyc_Ws c ++ [x + 2];
              cyc_ret := cyc_ret c ++ [(pc t, x + 2)] |}
  end.

Fixpoint cyc_loop (fuel : nat) (c : cyc) : option cyc :=
  match fuel with
  | O => None
  | S k =>
      match instr_at (prog (im (cyc_t c))) (pc (cyc_t c)), exitc (cyc_t c) with
      | Some i, None => match cyc_step c i with Some c' => cyc_loop k c' | None => None end
      | _, _ => Some c
      end
  end.

Definition cyc_init (s : st) : cyc :=
  {| cyc_t := s; cyc_regs0 := regs s; cyc_pend := []; cyc_first := true; cyc_D := 0; cyc_X := 0;
     cyc_M := 0; cyc_red := false; cyc_Ms := []; cyc_Ws := []; cyc_ret := [] |}.

(* the dictionary [delayed_wb] returns: ret, regs, out, exit, memory, cyc *)
Definition delayed_wb (fuel : nat) (s : st)
  : option (list (Z * Z) * zmap * list Z * option Z * memsys * Z) :=
  match cyc_loop fuel (cyc_init s) with
  | None => None
  | Some c => Some (cyc_ret c, cyc_final (cyc_regs0 c) (cyc_pend c), out (cyc_t c), exitc (cyc_t c),
                    ms (cyc_t c), last (map snd (cyc_ret c)) 0)
  end.

(** * The retire schedule of the modelled pipeline: (address, cycle) of every slot leaving WB *)
Fixpoint pipe_retire (fuel : nat) (p : pstate) : list (Z * Z) :=
  match fuel with
  | O => []
  | S k => if pipe_done p then []
           else match pipe_step p with
                | (_, Some _) => []
                | (p', None) =>
                    match lat_at (lat p') 4 with
                    | Some x => [(sl_addr x, cycles (pst p'))]
                    | None => []
                    end ++ pipe_retire k p'
                end
  end.
