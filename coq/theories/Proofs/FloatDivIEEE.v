(* Link of Proofs/FloatDiv.v to Flocq's IEEE-754 layer: the binary64 division
   (Bdiv, round to nearest even) of the exactly converted operands is finite and
   its value truncates to Z.quot a b. *)
From Coq Require Import ZArith Reals Lia Lra.
From Flocq Require Import Core IEEE754.BinarySingleNaN IEEE754.Binary IEEE754.Bits.
From ArchSim Require Import Proofs.FloatDiv.

Local Open Scope Z_scope.

Section IEEE.

Context (Hp : Prec_gt_0 53) (Hm : Prec_lt_emax 53 1024).
Context (Hp' : Prec_gt_0 53) (Hm' : Prec_lt_emax 53 1024).
Context (div_nan : binary_float 53 1024 -> binary_float 53 1024 ->
                   { nan : binary_float 53 1024 | Binary.is_nan 53 1024 nan = true }).

(* Python's int -> float conversion (exact for these magnitudes). *)
Definition b64_of_Z (n : Z) : binary_float 53 1024 :=
  Binary.binary_normalize 53 1024 Hp Hm mode_NE n 0 false.

Lemma b64_of_Z_correct : forall n : Z, Z.abs n < 2^53 ->
  Binary.B2R 53 1024 (b64_of_Z n) = IZR n /\ Binary.is_finite 53 1024 (b64_of_Z n) = true.
Proof.
  intros n Hn.
  pose proof (Binary.binary_normalize_correct 53 1024 Hp Hm mode_NE n 0 false) as H.
  assert (HF : F2R (Float radix2 n 0) = IZR n).
  { unfold F2R. cbn [Fnum Fexp bpow]. lra. }
  rewrite HF in H.
  change (SpecFloat.fexp 53 1024) with (FLT_exp (-1074) 53) in H.
  rewrite round_generic in H; auto with typeclass_instances.
  2:{ apply b64_format_IZR; exact Hn. }
  rewrite Rlt_bool_true in H.
  - destruct H as (H1 & H2 & _). split; assumption.
  - rewrite <- abs_IZR. apply Rlt_trans with (IZR (2^53)).
    + apply IZR_lt; exact Hn.
    + change (IZR (2^53)) with (bpow radix2 53). apply bpow_lt. lia.
Qed.

Theorem Bdiv_trunc_is_quot : forall a b : Z,
  Z.abs a <= 2^31 -> Z.abs b <= 2^31 -> b <> 0 ->
  let z := Binary.Bdiv 53 1024 Hp' Hm' div_nan mode_NE (b64_of_Z a) (b64_of_Z b) in
  Binary.is_finite 53 1024 z = true /\
  Binary.B2R 53 1024 z = round radix2 (FLT_exp (-1074) 53) ZnearestE (IZR a / IZR b) /\
  Ztrunc (Binary.B2R 53 1024 z) = Z.quot a b.
Proof.
  intros a b Ha Hb Hb0 z.
  assert (Ha53 : Z.abs a < 2^53) by (eapply Z.le_lt_trans; [exact Ha | reflexivity]).
  assert (Hb53 : Z.abs b < 2^53) by (eapply Z.le_lt_trans; [exact Hb | reflexivity]).
  destruct (b64_of_Z_correct a Ha53) as [Hxa Hfa].
  destruct (b64_of_Z_correct b Hb53) as [Hxb Hfb].
  assert (HbR : IZR b <> 0%R) by (apply not_0_IZR; exact Hb0).
  pose proof (Binary.Bdiv_correct 53 1024 Hp' Hm' div_nan mode_NE (b64_of_Z a) (b64_of_Z b)) as H.
  rewrite Hxa, Hxb in H. specialize (H HbR).
  change (SpecFloat.fexp 53 1024) with (FLT_exp (-1074) 53) in H.
  rewrite Rlt_bool_true in H.
  - destruct H as (H1 & H2 & _). fold z in H1, H2.
    split; [rewrite H2; exact Hfa |].
    split; [exact H1 |].
    rewrite H1. apply float_div_trunc_is_quot; assumption.
  - apply Rle_lt_trans with (IZR (2^31)).
    + apply abs_round_le_generic; auto with typeclass_instances.
      * apply b64_format_IZR. reflexivity.
      * unfold Rdiv. rewrite Rabs_mult, Rabs_inv, <- !abs_IZR.
        assert (H1 : (1 <= IZR (Z.abs b))%R) by (apply IZR_le; lia).
        assert (H2 : (0 <= IZR (Z.abs a) <= IZR (2^31))%R) by (split; apply IZR_le; lia).
        assert (H3 : (0 < / IZR (Z.abs b) <= 1)%R).
        { split. apply Rinv_0_lt_compat; lra. rewrite <- Rinv_1. apply Rinv_le; lra. }
        nra.
    + change (IZR (2^31)) with (bpow radix2 31). apply bpow_lt. lia.
Qed.

End IEEE.

(* Instance for Flocq's own binary64 division of IEEE754.Bits. *)
Theorem b64_div_trunc_is_quot :
  forall (Hp : Prec_gt_0 53) (Hm : Prec_lt_emax 53 1024) (a b : Z),
  Z.abs a <= 2^31 -> Z.abs b <= 2^31 -> b <> 0 ->
  let z := b64_div mode_NE (b64_of_Z Hp Hm a) (b64_of_Z Hp Hm b) in
  Binary.is_finite 53 1024 z = true /\
  Binary.B2R 53 1024 z = round radix2 (FLT_exp (-1074) 53) ZnearestE (IZR a / IZR b) /\
  Ztrunc (Binary.B2R 53 1024 z) = Z.quot a b.
Proof.
  intros Hp Hm a b Ha Hb Hb0. unfold b64_div.
  apply Bdiv_trunc_is_quot; assumption.
Qed.

(* Non-vacuity, by computation inside Flocq's binary64: -7 / 2 is the float -3.5
   = -(7 * 2^50) * 2^-51, and 7 / -2 likewise. *)
Example b64_div_m7_2 :
  @Binary.B2SF 53 1024 (b64_div mode_NE (b64_of_Z (eq_refl : Prec_gt_0 53) (eq_refl : Prec_lt_emax 53 1024) (-7))
                               (b64_of_Z (eq_refl : Prec_gt_0 53) (eq_refl : Prec_lt_emax 53 1024) 2))
  = SpecFloat.S754_finite true 7881299347898368 (-51).
Proof. vm_compute. reflexivity. Qed.

(* Python's float -> int conversion, int(): truncation toward zero, computable
   on the binary64 representation (undefined on infinities and NaN). *)
Definition b64_to_Z (f : binary64) : option Z :=
  match f with
  | Binary.B754_zero _ _ _ => Some 0
  | Binary.B754_finite _ _ s m e _ =>
      Some (if 0 <=? e then cond_Zopp s (Zpos m) * 2 ^ e
            else Z.quot (cond_Zopp s (Zpos m)) (2 ^ (- e)))
  | _ => None
  end.

Lemma b64_to_Z_correct : forall f : binary64,
  Binary.is_finite 53 1024 f = true ->
  b64_to_Z f = Some (Ztrunc (Binary.B2R 53 1024 f)).
Proof.
  intros f Hf. destruct f as [s | s | s pl Hpl | s m e Hb]; try discriminate Hf.
  - cbn [b64_to_Z Binary.B2R]. rewrite Ztrunc_IZR. reflexivity.
  - cbn [b64_to_Z Binary.B2R]. f_equal.
    set (n := cond_Zopp s (Z.pos m)).
    destruct (0 <=? e) eqn:He.
    + apply Z.leb_le in He.
      unfold F2R. cbn [Fnum Fexp].
      rewrite <- (IZR_Zpower radix2 e He), <- mult_IZR, Ztrunc_IZR. reflexivity.
    + apply Z.leb_gt in He.
      assert (Hpos : 0 < 2 ^ (- e)) by (apply Z.pow_pos_nonneg; lia).
      rewrite <- (Ztrunc_div n (2 ^ (- e))) by lia.
      assert (Hbp : bpow radix2 e = (/ IZR (2 ^ (- e)))%R).
      { assert (HH : IZR (2 ^ (- e)) = bpow radix2 (- e)) by (apply (IZR_Zpower radix2 (- e)); lia).
        rewrite HH, <- bpow_opp. f_equal. lia. }
      f_equal. unfold F2R. cbn [Fnum Fexp]. unfold Rdiv. rewrite Hbp. reflexivity.
Qed.

(* DIV as the simulator computes it, entirely inside Flocq's binary64:
   int(float(a) / float(b)) = Z.quot a b. *)
Theorem b64_div_to_Z_is_quot :
  forall (Hp : Prec_gt_0 53) (Hm : Prec_lt_emax 53 1024) (a b : Z),
  Z.abs a <= 2^31 -> Z.abs b <= 2^31 -> b <> 0 ->
  b64_to_Z (b64_div mode_NE (b64_of_Z Hp Hm a) (b64_of_Z Hp Hm b)) = Some (Z.quot a b).
Proof.
  intros Hp Hm a b Ha Hb Hb0.
  destruct (b64_div_trunc_is_quot Hp Hm a b Ha Hb Hb0) as (H1 & _ & H3).
  rewrite b64_to_Z_correct by exact H1. rewrite H3. reflexivity.
Qed.

Example b64_div_to_Z_m7_2 :
  b64_to_Z (b64_div mode_NE (b64_of_Z (eq_refl : Prec_gt_0 53) (eq_refl : Prec_lt_emax 53 1024) (-7))
                            (b64_of_Z (eq_refl : Prec_gt_0 53) (eq_refl : Prec_lt_emax 53 1024) 2))
  = Some (-3).
Proof. vm_compute. reflexivity. Qed.

Example b64_div_to_Z_int_min :
  b64_to_Z (b64_div mode_NE (b64_of_Z (eq_refl : Prec_gt_0 53) (eq_refl : Prec_lt_emax 53 1024) (-2147483648))
                            (b64_of_Z (eq_refl : Prec_gt_0 53) (eq_refl : Prec_lt_emax 53 1024) (-1)))
  = Some 2147483648.
Proof. vm_compute. reflexivity. Qed.
