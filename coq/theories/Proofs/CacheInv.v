(* Proofs/CacheInv.v — the data-cache invariant, the abstraction to a flat byte memory and the
   preservation lemmas (properties C03 and C12).

     cfg_ok c        legal geometry
     SInv d          structural invariant of a dcache (shape, blocks, policies, byte cells)
     logical d a     the byte at address a seen THROUGH the cache
     WTInv d         backing memory = logical contents (write-through caches)
     CInv d          SInv d /\ (wthrough d = true -> WTInv d)
     Flat f d        f is the memory an uncached simulator would hold

   All of them only depend on (dc d, lower d, wthrough d): they are defined on those
   components ([SInvC], [logicalC], ...) so that statistics updates are invisible. *)
From Coq Require Import Lia ZifyBool.
From ArchSim Require Import Model.Base Model.Mem Model.Cache Spec.Policy
  Proofs.WordLemmas Proofs.MapLemmas Proofs.C10Proofs Proofs.CacheArith.
Open Scope Z_scope.
Ltac Zify.zify_post_hook ::= Z.to_euclidean_division_equations.
Local Arguments Z.mul : simpl never.
Local Arguments Z.add : simpl never.
Local Arguments Z.sub : simpl never.
Local Arguments Z.pow : simpl never.
Local Arguments Z.div : simpl never.
Local Arguments Z.modulo : simpl never.
Local Arguments Z.land : simpl never.
Local Arguments Z.lor : simpl never.
Local Arguments Z.lnot : simpl never.
Local Arguments Z.shiftl : simpl never.
Local Arguments Z.shiftr : simpl never.
Local Arguments Z.of_nat : simpl never.
Local Arguments Z.to_nat : simpl never.

(** * Definitions *)
Definition cfg_ok (c : ccfg) : Prop :=
  0 <= ibits c /\ 0 <= bbits c <= 12 /\ ibits c + bbits c + 2 <= 32 /\ 1 <= assoc c /\
  (plru c = true -> exists k : nat, assoc c = 2 ^ Z.of_nat k).

Lemma cfg_geom c : cfg_ok c -> geom_ok (ibits c) (bbits c).
Proof. intros (H1 & H2 & H3 & _). repeat split; lia. Qed.

(* policy state well-formed for its kind *)
Definition pol_ok (c : ccfg) (p : pol) : Prop :=
  match p with
  | LRU o => NoDup o /\ (forall x, In x o <-> 0 <= x < assoc c)
  | PLRU a bits => plru c = true /\ a = assoc c /\ length bits = Z.to_nat (assoc c - 1)
  end.

(* block i-th set: dirty iff valid; a valid block has 2^bbits 32-bit words, its address is the
   block-aligned address whose decoding gives its tag and this set index, and it lies inside
   the data range [2^14, 2^32) *)
Definition block_ok (c : ccfg) (i : Z) (b : cblock Z) : Prop :=
  dirty b = valid b /\
  (valid b = true ->
     Z.of_nat (length (vals b)) = 2 ^ bbits c /\
     (forall j, 0 <= j < 2 ^ bbits c -> 0 <= nthZ (vals b) j 0 < 4294967296) /\
     0 <= baddr b < 4294967296 /\
     da_tag (decode_addr (ibits c) (bbits c) (baddr b)) = btag b /\
     da_idx (decode_addr (ibits c) (bbits c) (baddr b)) = i /\
     da_balign (decode_addr (ibits c) (bbits c) (baddr b)) = baddr b /\
     16384 <= baddr b).

Definition matches (b : cblock Z) (t : Z) : bool := valid b && (btag b =? t).

(* at most one valid block per tag *)
Definition uniq (bl : list (cblock Z)) : Prop :=
  forall bi bj, 0 <= bi < Z.of_nat (length bl) -> 0 <= bj < Z.of_nat (length bl) ->
    valid (nthZ bl bi empty_block) = true -> valid (nthZ bl bj empty_block) = true ->
    btag (nthZ bl bi empty_block) = btag (nthZ bl bj empty_block) -> bi = bj.

Definition set_ok (c : ccfg) (i : Z) (s : cset Z) : Prop :=
  Z.of_nat (length (blocks s)) = assoc c /\ pol_ok c (policy s) /\
  (forall bi, 0 <= bi < assoc c -> block_ok c i (nthZ (blocks s) bi empty_block)) /\
  uniq (blocks s).

Definition bytes_ok (m : zmap) : Prop := forall k, 0 <= mget m k < 256.

Definition SInvC (c : cache Z) (m : zmap) : Prop :=
  cfg_ok (cfg c) /\ Z.of_nat (length (sets c)) = 2 ^ ibits (cfg c) /\
  (forall i, 0 <= i < 2 ^ ibits (cfg c) -> set_ok (cfg c) i (get_set c i)) /\
  bytes_ok m.

(* the resident block holding address a, if any *)
Definition lookup (bl : list (cblock Z)) (tag : Z) : option (cblock Z) :=
  match find_block bl tag 0 with
  | Some bi => Some (nthZ bl bi empty_block)
  | None => None
  end.

Definition res_block (c : cache Z) (a : Z) : option (cblock Z) :=
  lookup (blocks (get_set c (da_idx (cdecode c a)))) (da_tag (cdecode c a)).

Definition logicalC (c : cache Z) (m : zmap) (a : Z) : Z :=
  match res_block c a with
  | Some b => byte_of (nthZ (vals b) (da_boff (cdecode c a)) 0) (da_byoff (cdecode c a))
  | None => mget m a
  end.

Definition in32b (a : Z) : Prop := 0 <= a < 4294967296.

Definition WTInvC (c : cache Z) (m : zmap) : Prop := forall a, in32b a -> mget m a = logicalC c m a.
Definition CInvC (c : cache Z) (m : zmap) (wt : bool) : Prop :=
  SInvC c m /\ (wt = true -> WTInvC c m).
Definition FlatC (f : zmap) (c : cache Z) (m : zmap) : Prop :=
  forall a, in32b a -> mget f a = logicalC c m a.

Definition SInv (d : dcache) : Prop := SInvC (dc d) (lower d).
Definition logical (d : dcache) (a : Z) : Z := logicalC (dc d) (lower d) a.
Definition WTInv (d : dcache) : Prop := forall a, 0 <= a < 4294967296 -> mget (lower d) a = logical d a.
Definition CInv (d : dcache) : Prop := SInv d /\ (wthrough d = true -> WTInv d).
Definition Flat (f : zmap) (d : dcache) : Prop :=
  forall a, 0 <= a < 4294967296 -> mget f a = logical d a.

(* the definition of [logical], spelled out as in the property text *)
Lemma logical_unfold d a :
  logical d a =
  let da := cdecode (dc d) a in
  let s := get_set (dc d) (da_idx da) in
  match find_block (blocks s) (da_tag da) 0 with
  | Some bi => byte_of (nthZ (vals (nthZ (blocks s) bi empty_block)) (da_boff da) 0) (da_byoff da)
  | None => mget (lower d) a
  end.
Proof.
  unfold logical, logicalC, res_block, lookup. cbv zeta.
  destruct (find_block _ _ 0); reflexivity.
Qed.

(** * find_block / lookup *)
Lemma find_block_Some : forall (bl : list (cblock Z)) t i j, find_block bl t i = Some j ->
  i <= j < i + Z.of_nat (length bl) /\ matches (nthZ bl (j - i) empty_block) t = true.
Proof.
  induction bl as [|b bl IH]; intros t i j H; cbn [find_block] in H; [discriminate|].
  fold (matches b t) in H. destruct (matches b t) eqn:E.
  - injection H as <-. cbn [length]. split; [lia|]. replace (i - i) with 0 by lia. exact E.
  - apply IH in H. destruct H as [H1 H2]. cbn [length]. split; [lia|].
    rewrite nthZ_cons by lia. replace (j - i - 1) with (j - (i + 1)) by lia. exact H2.
Qed.

Lemma find_block_None : forall (bl : list (cblock Z)) t i, find_block bl t i = None ->
  forall k, 0 <= k < Z.of_nat (length bl) -> matches (nthZ bl k empty_block) t = false.
Proof.
  induction bl as [|b bl IH]; intros t i H k Hk; cbn [length] in Hk; [lia|].
  cbn [find_block] in H. fold (matches b t) in H. destruct (matches b t) eqn:E; [discriminate|].
  destruct (Z.eq_dec k 0) as [->|Hne]; [exact E|].
  rewrite nthZ_cons by lia. apply (IH t (i + 1) H). lia.
Qed.

Lemma matches_true b t : matches b t = true <-> valid b = true /\ btag b = t.
Proof. unfold matches. rewrite andb_true_iff, Z.eqb_eq. tauto. Qed.

Lemma find_block_uniq bl t k : uniq bl -> 0 <= k < Z.of_nat (length bl) ->
  matches (nthZ bl k empty_block) t = true -> find_block bl t 0 = Some k.
Proof.
  intros Hu Hk Hm. destruct (find_block bl t 0) as [j|] eqn:E.
  - apply find_block_Some in E. destruct E as [Hj Hmj]. replace (j - 0) with j in Hmj by lia.
    apply matches_true in Hm. apply matches_true in Hmj.
    f_equal. apply Hu; try lia; try tauto.
  - rewrite (find_block_None bl t 0 E k Hk) in Hm. discriminate.
Qed.

Lemma lookup_hit bl t k : uniq bl -> 0 <= k < Z.of_nat (length bl) ->
  matches (nthZ bl k empty_block) t = true -> lookup bl t = Some (nthZ bl k empty_block).
Proof. intros Hu Hk Hm. unfold lookup. rewrite (find_block_uniq bl t k Hu Hk Hm). reflexivity. Qed.

Lemma lookup_miss bl t :
  (forall k, 0 <= k < Z.of_nat (length bl) -> matches (nthZ bl k empty_block) t = false) ->
  lookup bl t = None.
Proof.
  intros H. unfold lookup. destruct (find_block bl t 0) as [j|] eqn:E; [|reflexivity].
  apply find_block_Some in E. destruct E as [Hj Hm]. replace (j - 0) with j in Hm by lia.
  rewrite H in Hm by lia. discriminate.
Qed.

Lemma lookup_Some bl t b : lookup bl t = Some b ->
  exists k, 0 <= k < Z.of_nat (length bl) /\ b = nthZ bl k empty_block /\ matches b t = true /\
            find_block bl t 0 = Some k.
Proof.
  unfold lookup. destruct (find_block bl t 0) as [j|] eqn:E; [|discriminate].
  intros H. injection H as <-. pose proof (find_block_Some bl t 0 j E) as [Hj Hm].
  replace (j - 0) with j in Hm by lia. exists j. repeat split; try lia; assumption.
Qed.

Lemma lookup_None bl t : lookup bl t = None ->
  find_block bl t 0 = None /\
  forall k, 0 <= k < Z.of_nat (length bl) -> matches (nthZ bl k empty_block) t = false.
Proof.
  unfold lookup. destruct (find_block bl t 0) as [j|] eqn:E; [discriminate|].
  intros _. split; [reflexivity|]. apply (find_block_None bl t 0 E).
Qed.

(** * Policies *)
Lemma pol_victim_range c p : cfg_ok c -> pol_ok c p -> 0 <= pol_victim p < assoc c.
Proof.
  intros (_ & _ & _ & Ha & Hp) Hok. destruct p as [o|a bits]; cbn [pol_ok] in Hok.
  - destruct Hok as [_ Hin]. cbn [pol_victim]. apply Hin.
    destruct o as [|x o]; [exfalso; apply (proj2 (Hin 0)); lia |]. left. reflexivity.
  - destruct Hok as (Hpl & -> & _). destruct (Hp Hpl) as [k Hk]. rewrite Hk.
    apply (plru_tree_refines_proof k bits).
Qed.

Lemma pol_access_ok c p i : pol_ok c p -> 0 <= i < assoc c -> pol_ok c (pol_access p i).
Proof.
  intros Hok Hi. destruct p as [o|a bits]; cbn [pol_ok pol_access] in *.
  - destruct Hok as [Hnd Hin]. split.
    + apply NoDup_snoc; [apply remove_first_NoDup; exact Hnd|].
      rewrite remove_first_In_iff by exact Hnd. tauto.
    + intros x. rewrite in_app_iff, remove_first_In_iff by exact Hnd. cbn [In]. rewrite Hin.
      destruct (Z.eq_dec x i); [subst; tauto | split; [intros [[H _]|[H|[]]]; [exact H | lia] | tauto]].
  - destruct Hok as (Hpl & Ha & Hlen). repeat split; try assumption.
    rewrite access_loop_length. exact Hlen.
Qed.

Lemma zrange_from_In s n x : In x (zrange_from s n) <-> s <= x < s + Z.of_nat n.
Proof. apply zrange_In. Qed.

Lemma pol_init_ok c : cfg_ok c -> pol_ok c (pol_init (plru c) (assoc c)).
Proof.
  intros (_ & _ & _ & Ha & _). unfold pol_init. destruct (plru c) eqn:E; cbn [pol_ok].
  - repeat split; try assumption. apply repeat_length.
  - split; [apply zrange_NoDup|]. intros x. rewrite zrange_In. lia.
Qed.

(** * Sets of a cache *)
Definition touch (c : cache Z) (i bi : Z) : cache Z :=
  put_set Z c i {| blocks := blocks (get_set c i); policy := pol_access (policy (get_set c i)) bi |}.
Definition install (c : cache Z) (i bi : Z) (nb : cblock Z) : cache Z :=
  put_set Z c i {| blocks := set_nthZ (blocks (get_set c i)) bi nb;
                   policy := pol_access (policy (get_set c i)) bi |}.
Definition mkblock (da : daddr) (v : list Z) : cblock Z :=
  {| valid := true; dirty := true; btag := da_tag da; baddr := da_balign da; vals := v |}.

Lemma cache_read_block_eq (c : cache Z) da :
  cache_read_block c da =
  match find_block (blocks (get_set c (da_idx da))) (da_tag da) 0 with
  | Some bi => (Some (vals (nthZ (blocks (get_set c (da_idx da))) bi empty_block)), touch c (da_idx da) bi)
  | None => (None, c)
  end.
Proof. reflexivity. Qed.

Lemma cache_write_block_eq (c : cache Z) da v :
  cache_write_block c da v =
  match find_block (blocks (get_set c (da_idx da))) (da_tag da) 0 with
  | None =>
      let bi := pol_victim (policy (get_set c (da_idx da))) in
      let old := nthZ (blocks (get_set c (da_idx da))) bi empty_block in
      (false, (if dirty old then Some (baddr old, vals old) else None),
       install c (da_idx da) bi (mkblock da v))
  | Some bi => (true, None, install c (da_idx da) bi (mkblock da v))
  end.
Proof. reflexivity. Qed.

Lemma get_put_set (c : cache Z) i s j : 0 <= i < Z.of_nat (length (sets c)) -> 0 <= j ->
  get_set (put_set Z c i s) j = if j =? i then s else get_set c j.
Proof. intros Hi Hj. unfold get_set, put_set. cbn [sets]. apply nthZ_set_nthZ; assumption. Qed.

Lemma get_touch (c : cache Z) i bi j : 0 <= i < Z.of_nat (length (sets c)) -> 0 <= j ->
  blocks (get_set (touch c i bi) j) = blocks (get_set c j).
Proof.
  intros Hi Hj. unfold touch. rewrite get_put_set by assumption.
  destruct (Z.eqb_spec j i) as [->|]; reflexivity.
Qed.

Lemma get_install (c : cache Z) i bi nb j : 0 <= i < Z.of_nat (length (sets c)) -> 0 <= j ->
  blocks (get_set (install c i bi nb) j) =
  if j =? i then set_nthZ (blocks (get_set c i)) bi nb else blocks (get_set c j).
Proof.
  intros Hi Hj. unfold install. rewrite get_put_set by assumption.
  destruct (Z.eqb_spec j i) as [->|]; reflexivity.
Qed.

(** * Structural invariant: preservation by the elementary updates *)
Lemma sinv_cfg c m : SInvC c m -> cfg_ok (cfg c).
Proof. intros H; apply H. Qed.
Lemma sinv_geom c m : SInvC c m -> geom_ok (ibits (cfg c)) (bbits (cfg c)).
Proof. intros H; apply cfg_geom; apply H. Qed.
Lemma sinv_set c m i : SInvC c m -> 0 <= i < 2 ^ ibits (cfg c) -> set_ok (cfg c) i (get_set c i).
Proof. intros H; apply H. Qed.
Lemma sinv_bytes c m : SInvC c m -> bytes_ok m.
Proof. intros H; apply H. Qed.
Lemma sinv_idx c m a : SInvC c m -> 0 <= da_idx (cdecode c a) < 2 ^ ibits (cfg c).
Proof.
  intros H. unfold cdecode.
  destruct (decode_spec (ibits (cfg c)) (bbits (cfg c)) a (sinv_geom c m H)) as (_ & _ & _ & Hi & _).
  exact Hi.
Qed.

Lemma sinv_lower c m m' : SInvC c m -> bytes_ok m' -> SInvC c m'.
Proof. intros (H1 & H2 & H3 & _) Hb. exact (conj H1 (conj H2 (conj H3 Hb))). Qed.

Lemma sinv_touch c m i bi : SInvC c m -> 0 <= i < 2 ^ ibits (cfg c) -> 0 <= bi < assoc (cfg c) ->
  SInvC (touch c i bi) m.
Proof.
  intros (H1 & H2 & H3 & H4) Hi Hbi. unfold SInvC. change (cfg (touch c i bi)) with (cfg c).
  split; [exact H1|]. split.
  { unfold touch, put_set. cbn [sets]. rewrite set_nthZ_length. exact H2. }
  split; [|exact H4]. intros j Hj. unfold touch. rewrite get_put_set by lia.
  destruct (Z.eqb_spec j i) as [->|Hne]; [|apply H3; exact Hj].
  destruct (H3 i Hi) as (S1 & S2 & S3 & S4). unfold set_ok. cbn [blocks policy].
  split; [exact S1|]. split; [apply pol_access_ok; assumption|]. split; assumption.
Qed.

Definition no_other (bl : list (cblock Z)) (bi t : Z) : Prop :=
  forall bj, 0 <= bj < Z.of_nat (length bl) -> bj <> bi -> matches (nthZ bl bj empty_block) t = false.

Lemma sinv_install c m i bi nb : SInvC c m ->
  0 <= i < 2 ^ ibits (cfg c) -> 0 <= bi < assoc (cfg c) ->
  block_ok (cfg c) i nb -> valid nb = true ->
  no_other (blocks (get_set c i)) bi (btag nb) ->
  SInvC (install c i bi nb) m.
Proof.
  intros (H1 & H2 & H3 & H4) Hi Hbi Hnb Hv Hno. unfold SInvC.
  change (cfg (install c i bi nb)) with (cfg c).
  split; [exact H1|]. split.
  { unfold install, put_set. cbn [sets]. rewrite set_nthZ_length. exact H2. }
  split; [|exact H4]. intros j Hj. unfold install. rewrite get_put_set by lia.
  destruct (Z.eqb_spec j i) as [->|Hne]; [|apply H3; exact Hj].
  destruct (H3 i Hi) as (S1 & S2 & S3 & S4). unfold set_ok. cbn [blocks policy].
  set (bl := blocks (get_set c i)) in *.
  split; [rewrite set_nthZ_length; exact S1|].
  split; [apply pol_access_ok; assumption|].
  split.
  - intros bj Hbj. rewrite nthZ_set_nthZ by lia.
    destruct (Z.eqb_spec bj bi); [exact Hnb | apply S3; exact Hbj].
  - intros x y. rewrite set_nthZ_length. intros Hx Hy.
    rewrite !nthZ_set_nthZ by lia.
    destruct (Z.eqb_spec x bi) as [->|Nx]; destruct (Z.eqb_spec y bi) as [->|Ny]; intros Vx Vy E.
    + reflexivity.
    + exfalso. pose proof (Hno y Hy Ny) as Hm.
      assert (matches (nthZ bl y empty_block) (btag nb) = true) by (apply matches_true; split; [exact Vy | symmetry; exact E]).
      congruence.
    + exfalso. pose proof (Hno x Hx Nx) as Hm.
      assert (matches (nthZ bl x empty_block) (btag nb) = true) by (apply matches_true; split; [exact Vx | exact E]).
      congruence.
    + apply S4; assumption.
Qed.

(** * The resident-block function after the elementary updates *)
Lemma res_touch c m i bi a : SInvC c m -> 0 <= i < 2 ^ ibits (cfg c) ->
  res_block (touch c i bi) a = res_block c a.
Proof.
  intros H Hi. unfold res_block. change (cdecode (touch c i bi) a) with (cdecode c a).
  pose proof (sinv_idx c m a H) as Hidx. destruct H as (_ & H2 & _).
  rewrite get_touch by lia. reflexivity.
Qed.

Section Install.
  Variables (c : cache Z) (m : zmap) (i bi : Z) (nb : cblock Z).
  Hypothesis HS : SInvC c m.
  Hypothesis Hi : 0 <= i < 2 ^ ibits (cfg c).
  Hypothesis Hbi : 0 <= bi < assoc (cfg c).
  Hypothesis Hnb : block_ok (cfg c) i nb.
  Hypothesis Hv : valid nb = true.
  Hypothesis Hno : no_other (blocks (get_set c i)) bi (btag nb).

  Let bl := blocks (get_set c i).
  Let old := nthZ bl bi empty_block.

  Lemma install_len : Z.of_nat (length bl) = assoc (cfg c).
  Proof. exact (proj1 (sinv_set c m i HS Hi)). Qed.

  Lemma install_uniq_new : uniq (set_nthZ bl bi nb).
  Proof.
    pose proof (sinv_install c m i bi nb HS Hi Hbi Hnb Hv Hno) as H.
    pose proof (sinv_set _ _ i H Hi) as (_ & _ & _ & Hu).
    change (cfg (install c i bi nb)) with (cfg c) in Hu.
    rewrite get_install in Hu by (destruct HS as (_ & H2 & _); lia).
    rewrite Z.eqb_refl in Hu. exact Hu.
  Qed.

  Lemma res_install_same a :
    da_idx (cdecode c a) = i -> da_tag (cdecode c a) = btag nb ->
    res_block (install c i bi nb) a = Some nb.
  Proof.
    intros Ei Et. unfold res_block. change (cdecode (install c i bi nb) a) with (cdecode c a).
    rewrite Ei, Et. rewrite get_install by (destruct HS as (_ & H2 & _); lia).
    rewrite Z.eqb_refl. fold bl. pose proof install_len as Hlen.
    rewrite (lookup_hit (set_nthZ bl bi nb) (btag nb) bi).
    - rewrite nthZ_set_nthZ_eq by lia. reflexivity.
    - apply install_uniq_new.
    - rewrite set_nthZ_length. lia.
    - rewrite nthZ_set_nthZ_eq by lia. apply matches_true. split; [exact Hv | reflexivity].
  Qed.

  Lemma res_install_other a :
    ~ (da_idx (cdecode c a) = i /\ da_tag (cdecode c a) = btag nb) ->
    res_block (install c i bi nb) a =
    if (da_idx (cdecode c a) =? i) && matches old (da_tag (cdecode c a)) then None else res_block c a.
  Proof.
    intros Hne. unfold res_block. change (cdecode (install c i bi nb) a) with (cdecode c a).
    pose proof (sinv_idx c m a HS) as Hidx.
    rewrite get_install by (destruct HS as (_ & H2 & _); lia).
    destruct (Z.eqb_spec (da_idx (cdecode c a)) i) as [Ei|Ni]; cbn [andb]; [|reflexivity].
    rewrite Ei. fold bl. set (t := da_tag (cdecode c a)) in *.
    assert (Nt: t <> btag nb) by tauto.
    pose proof install_len as Hlen.
    pose proof (sinv_set c m i HS Hi) as (_ & _ & _ & Hu). fold bl in Hu.
    assert (Hnbm: matches nb t = false).
    { unfold matches. rewrite Hv. cbn [andb]. apply Z.eqb_neq. congruence. }
    destruct (matches old t) eqn:Eo.
    - apply lookup_miss. intros k. rewrite set_nthZ_length. intros Hk.
      rewrite nthZ_set_nthZ by lia. destruct (Z.eqb_spec k bi) as [->|Nk]; [exact Hnbm|].
      destruct (matches (nthZ bl k empty_block) t) eqn:Ek; [|reflexivity].
      exfalso. apply Nk. apply matches_true in Ek. apply matches_true in Eo. unfold old in Eo.
      apply Hu; try lia; try tauto.
    - destruct (lookup bl t) as [b|] eqn:El.
      + apply lookup_Some in El. destruct El as (k & Hk & -> & Hm & _).
        assert (Nk: k <> bi) by (intros ->; unfold old in Eo; congruence).
        rewrite (lookup_hit (set_nthZ bl bi nb) t k).
        * rewrite nthZ_set_nthZ_neq by lia. reflexivity.
        * apply install_uniq_new.
        * rewrite set_nthZ_length. lia.
        * rewrite nthZ_set_nthZ_neq by lia. exact Hm.
      + apply lookup_None in El. destruct El as [_ Hall].
        apply lookup_miss. intros k. rewrite set_nthZ_length. intros Hk.
        rewrite nthZ_set_nthZ by lia. destruct (Z.eqb_spec k bi); [exact Hnbm | apply Hall; exact Hk].
  Qed.
End Install.
