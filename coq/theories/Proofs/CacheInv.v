(* Proofs/CacheInv.v — the data-cache invariant, the abstraction to a flat byte memory and the
   preservation lemmas (properties C03 and C12).

     cfg_ok c        legal geometry
     SInv d          structural invariant of a dcache (shape, blocks, policies, byte cells)
     logical d a     the byte at address a seen THROUGH the cache
     WTInv d         backing memory = logical contents (write-through caches)
     CInv d          SInv d /\ (wthrough d = true -> WTInv d)
     Flat f d        f is the memory an uncached simulator would hold

   All of them only depend on (dc d, lower d, wthrough d): they are defined on those
   components ([SInvC], [logicalC], ...) so that statistics updates are invisible. *)
From Coq Require Import Lia ZifyBool.
From ArchSim Require Import Model.Base Model.Mem Model.Cache Spec.Policy
  Proofs.WordLemmas Proofs.MapLemmas Proofs.C10Proofs Proofs.CacheArith.
Open Scope Z_scope.
Ltac Zify.zify_post_hook ::= Z.to_euclidean_division_equations.
Local Arguments Z.mul : simpl never.
Local Arguments Z.add : simpl never.
Local Arguments Z.sub : simpl never.
Local Arguments Z.pow : simpl never.
Local Arguments Z.div : simpl never.
Local Arguments Z.modulo : simpl never.
Local Arguments Z.land : simpl never.
Local Arguments Z.lor : simpl never.
Local Arguments Z.lnot : simpl never.
Local Arguments Z.shiftl : simpl never.
Local Arguments Z.shiftr : simpl never.
Local Arguments Z.of_nat : simpl never.
Local Arguments Z.to_nat : simpl never.

(** * Definitions *)
Definition cfg_ok (c : ccfg) : Prop :=
  0 <= ibits c /\ 0 <= bbits c <= 12 /\ ibits c + bbits c + 2 <= 32 /\ 1 <= assoc c /\
  (plru c = true -> exists k : nat, assoc c = 2 ^ Z.of_nat k).

Lemma cfg_geom c : cfg_ok c -> geom_ok (ibits c) (bbits c).
Proof. intros (H1 & H2 & H3 & _). repeat split; lia. Qed.

(* policy state well-formed for its kind *)
Definition pol_ok (c : ccfg) (p : pol) : Prop :=
  match p with
  | LRU o => NoDup o /\ (forall x, In x o <-> 0 <= x < assoc c)
  | PLRU a bits => plru c = true /\ a = assoc c /\ length bits = Z.to_nat (assoc c - 1)
  end.

(* block i-th set: dirty iff valid; a valid block has 2^bbits 32-bit words, its address is the
   block-aligned address whose decoding gives its tag and this set index, and it lies inside
   the data range [2^14, 2^32) *)
Definition block_ok (c : ccfg) (i : Z) (b : cblock Z) : Prop :=
  dirty b = valid b /\
  (valid b = true ->
     Z.of_nat (length (vals b)) = 2 ^ bbits c /\
     (forall j, 0 <= j < 2 ^ bbits c -> 0 <= nthZ (vals b) j 0 < 4294967296) /\
     0 <= baddr b < 4294967296 /\
     da_tag (decode_addr (ibits c) (bbits c) (baddr b)) = btag b /\
     da_idx (decode_addr (ibits c) (bbits c) (baddr b)) = i /\
     da_balign (decode_addr (ibits c) (bbits c) (baddr b)) = baddr b /\
     16384 <= baddr b).

Definition matches (b : cblock Z) (t : Z) : bool := valid b && (btag b =? t).

(* at most one valid block per tag *)
Definition uniq (bl : list (cblock Z)) : Prop :=
  forall bi bj, 0 <= bi < Z.of_nat (length bl) -> 0 <= bj < Z.of_nat (length bl) ->
    valid (nthZ bl bi empty_block) = true -> valid (nthZ bl bj empty_block) = true ->
    btag (nthZ bl bi empty_block) = btag (nthZ bl bj empty_block) -> bi = bj.

Definition set_ok (c : ccfg) (i : Z) (s : cset Z) : Prop :=
  Z.of_nat (length (blocks s)) = assoc c /\ pol_ok c (policy s) /\
  (forall bi, 0 <= bi < assoc c -> block_ok c i (nthZ (blocks s) bi empty_block)) /\
  uniq (blocks s).

Definition bytes_ok (m : zmap) : Prop := forall k, 0 <= mget m k < 256.

Definition SInvC (c : cache Z) (m : zmap) : Prop :=
  cfg_ok (cfg c) /\ Z.of_nat (length (sets c)) = 2 ^ ibits (cfg c) /\
  (forall i, 0 <= i < 2 ^ ibits (cfg c) -> set_ok (cfg c) i (get_set c i)) /\
  bytes_ok m.

(* the resident block holding address a, if any *)
Definition lookup (bl : list (cblock Z)) (tag : Z) : option (cblock Z) :=
  match find_block bl tag 0 with
  | Some bi => Some (nthZ bl bi empty_block)
  | None => None
  end.

Definition res_block (c : cache Z) (a : Z) : option (cblock Z) :=
  lookup (blocks (get_set c (da_idx (cdecode c a)))) (da_tag (cdecode c a)).

Definition logicalC (c : cache Z) (m : zmap) (a : Z) : Z :=
  match res_block c a with
  | Some b => byte_of (nthZ (vals b) (da_boff (cdecode c a)) 0) (da_byoff (cdecode c a))
  | None => mget m a
  end.

Definition in32b (a : Z) : Prop := 0 <= a < 4294967296.

Definition WTInvC (c : cache Z) (m : zmap) : Prop := forall a, in32b a -> mget m a = logicalC c m a.
Definition CInvC (c : cache Z) (m : zmap) (wt : bool) : Prop :=
  SInvC c m /\ (wt = true -> WTInvC c m).
Definition FlatC (f : zmap) (c : cache Z) (m : zmap) : Prop :=
  forall a, in32b a -> mget f a = logicalC c m a.

Definition SInv (d : dcache) : Prop := SInvC (dc d) (lower d).
Definition logical (d : dcache) (a : Z) : Z := logicalC (dc d) (lower d) a.
Definition WTInv (d : dcache) : Prop := forall a, 0 <= a < 4294967296 -> mget (lower d) a = logical d a.
Definition CInv (d : dcache) : Prop := SInv d /\ (wthrough d = true -> WTInv d).
Definition Flat (f : zmap) (d : dcache) : Prop :=
  forall a, 0 <= a < 4294967296 -> mget f a = logical d a.

(* the definition of [logical], spelled out as in the property text *)
Lemma logical_unfold d a :
  logical d a =
  let da := cdecode (dc d) a in
  let s := get_set (dc d) (da_idx da) in
  match find_block (blocks s) (da_tag da) 0 with
  | Some bi => byte_of (nthZ (vals (nthZ (blocks s) bi empty_block)) (da_boff da) 0) (da_byoff da)
  | None => mget (lower d) a
  end.
Proof.
  unfold logical, logicalC, res_block, lookup. cbv zeta.
  destruct (find_block _ _ 0); reflexivity.
Qed.

(** * find_block / lookup *)
Lemma find_block_Some : forall (bl : list (cblock Z)) t i j, find_block bl t i = Some j ->
  i <= j < i + Z.of_nat (length bl) /\ matches (nthZ bl (j - i) empty_block) t = true.
Proof.
  induction bl as [|b bl IH]; intros t i j H; cbn [find_block] in H; [discriminate|].
  fold (matches b t) in H. destruct (matches b t) eqn:E.
  - injection H as <-. cbn [length]. split; [lia|]. replace (i - i) with 0 by lia. exact E.
  - apply IH in H. destruct H as [H1 H2]. cbn [length]. split; [lia|].
    rewrite nthZ_cons by lia. replace (j - i - 1) with (j - (i + 1)) by lia. exact H2.
Qed.

Lemma find_block_None : forall (bl : list (cblock Z)) t i, find_block bl t i = None ->
  forall k, 0 <= k < Z.of_nat (length bl) -> matches (nthZ bl k empty_block) t = false.
Proof.
  induction bl as [|b bl IH]; intros t i H k Hk; cbn [length] in Hk; [lia|].
  cbn [find_block] in H. fold (matches b t) in H. destruct (matches b t) eqn:E; [discriminate|].
  destruct (Z.eq_dec k 0) as [->|Hne]; [exact E|].
  rewrite nthZ_cons by lia. apply (IH t (i + 1) H). lia.
Qed.

Lemma matches_true b t : matches b t = true <-> valid b = true /\ btag b = t.
Proof. unfold matches. rewrite andb_true_iff, Z.eqb_eq. tauto. Qed.

Lemma find_block_uniq bl t k : uniq bl -> 0 <= k < Z.of_nat (length bl) ->
  matches (nthZ bl k empty_block) t = true -> find_block bl t 0 = Some k.
Proof.
  intros Hu Hk Hm. destruct (find_block bl t 0) as [j|] eqn:E.
  - apply find_block_Some in E. destruct E as [Hj Hmj]. replace (j - 0) with j in Hmj by lia.
    apply matches_true in Hm. apply matches_true in Hmj.
    f_equal. apply Hu; try lia; try tauto.
  - rewrite (find_block_None bl t 0 E k Hk) in Hm. discriminate.
Qed.

Lemma lookup_hit bl t k : uniq bl -> 0 <= k < Z.of_nat (length bl) ->
  matches (nthZ bl k empty_block) t = true -> lookup bl t = Some (nthZ bl k empty_block).
Proof. intros Hu Hk Hm. unfold lookup. rewrite (find_block_uniq bl t k Hu Hk Hm). reflexivity. Qed.

Lemma lookup_miss bl t :
  (forall k, 0 <= k < Z.of_nat (length bl) -> matches (nthZ bl k empty_block) t = false) ->
  lookup bl t = None.
Proof.
  intros H. unfold lookup. destruct (find_block bl t 0) as [j|] eqn:E; [|reflexivity].
  apply find_block_Some in E. destruct E as [Hj Hm]. replace (j - 0) with j in Hm by lia.
  rewrite H in Hm by lia. discriminate.
Qed.

Lemma lookup_Some bl t b : lookup bl t = Some b ->
  exists k, 0 <= k < Z.of_nat (length bl) /\ b = nthZ bl k empty_block /\ matches b t = true /\
            find_block bl t 0 = Some k.
Proof.
  unfold lookup. destruct (find_block bl t 0) as [j|] eqn:E; [|discriminate].
  intros H. injection H as <-. pose proof (find_block_Some bl t 0 j E) as [Hj Hm].
  replace (j - 0) with j in Hm by lia. exists j. repeat split; try lia; assumption.
Qed.

Lemma lookup_None bl t : lookup bl t = None ->
  find_block bl t 0 = None /\
  forall k, 0 <= k < Z.of_nat (length bl) -> matches (nthZ bl k empty_block) t = false.
Proof.
  unfold lookup. destruct (find_block bl t 0) as [j|] eqn:E; [discriminate|].
  intros _. split; [reflexivity|]. apply (find_block_None bl t 0 E).
Qed.

(** * Policies *)
Lemma pol_victim_range c p : cfg_ok c -> pol_ok c p -> 0 <= pol_victim p < assoc c.
Proof.
  intros (_ & _ & _ & Ha & Hp) Hok. destruct p as [o|a bits]; cbn [pol_ok] in Hok.
  - destruct Hok as [_ Hin]. cbn [pol_victim]. apply Hin.
    destruct o as [|x o]; [exfalso; apply (proj2 (Hin 0)); lia |]. left. reflexivity.
  - destruct Hok as (Hpl & -> & _). destruct (Hp Hpl) as [k Hk]. rewrite Hk.
    apply (plru_tree_refines_proof k bits).
Qed.

Lemma pol_access_ok c p i : pol_ok c p -> 0 <= i < assoc c -> pol_ok c (pol_access p i).
Proof.
  intros Hok Hi. destruct p as [o|a bits]; cbn [pol_ok pol_access] in *.
  - destruct Hok as [Hnd Hin]. split.
    + apply NoDup_snoc; [apply remove_first_NoDup; exact Hnd|].
      rewrite remove_first_In_iff by exact Hnd. tauto.
    + intros x. rewrite in_app_iff, remove_first_In_iff by exact Hnd. cbn [In]. rewrite Hin.
      destruct (Z.eq_dec x i); [subst; tauto | split; [intros [[H _]|[H|[]]]; [exact H | lia] | tauto]].
  - destruct Hok as (Hpl & Ha & Hlen). repeat split; try assumption.
    rewrite access_loop_length. exact Hlen.
Qed.

Lemma zrange_from_In s n x : In x (zrange_from s n) <-> s <= x < s + Z.of_nat n.
Proof. apply zrange_In. Qed.

Lemma pol_init_ok c : cfg_ok c -> pol_ok c (pol_init (plru c) (assoc c)).
Proof.
  intros (_ & _ & _ & Ha & _). unfold pol_init. destruct (plru c) eqn:E; cbn [pol_ok].
  - repeat split; try assumption. apply repeat_length.
  - split; [apply zrange_NoDup|]. intros x. rewrite zrange_In. lia.
Qed.

(** * Sets of a cache *)
Definition touch (c : cache Z) (i bi : Z) : cache Z :=
  put_set Z c i {| blocks := blocks (get_set c i); policy := pol_access (policy (get_set c i)) bi |}.
Definition install (c : cache Z) (i bi : Z) (nb : cblock Z) : cache Z :=
  put_set Z c i {| blocks := set_nthZ (blocks (get_set c i)) bi nb;
                   policy := pol_access (policy (get_set c i)) bi |}.
Definition mkblock (da : daddr) (v : list Z) : cblock Z :=
  {| valid := true; dirty := true; btag := da_tag da; baddr := da_balign da; vals := v |}.

Lemma cache_read_block_eq (c : cache Z) da :
  cache_read_block c da =
  match find_block (blocks (get_set c (da_idx da))) (da_tag da) 0 with
  | Some bi => (Some (vals (nthZ (blocks (get_set c (da_idx da))) bi empty_block)), touch c (da_idx da) bi)
  | None => (None, c)
  end.
Proof. reflexivity. Qed.

Lemma cache_write_block_eq (c : cache Z) da v :
  cache_write_block c da v =
  match find_block (blocks (get_set c (da_idx da))) (da_tag da) 0 with
  | None =>
      let bi := pol_victim (policy (get_set c (da_idx da))) in
      let old := nthZ (blocks (get_set c (da_idx da))) bi empty_block in
      (false, (if dirty old then Some (baddr old, vals old) else None),
       install c (da_idx da) bi (mkblock da v))
  | Some bi => (true, None, install c (da_idx da) bi (mkblock da v))
  end.
Proof. reflexivity. Qed.

Lemma get_put_set (c : cache Z) i s j : 0 <= i < Z.of_nat (length (sets c)) -> 0 <= j ->
  get_set (put_set Z c i s) j = if j =? i then s else get_set c j.
Proof. intros Hi Hj. unfold get_set, put_set. cbn [sets]. apply nthZ_set_nthZ; assumption. Qed.

Lemma get_touch (c : cache Z) i bi j : 0 <= i < Z.of_nat (length (sets c)) -> 0 <= j ->
  blocks (get_set (touch c i bi) j) = blocks (get_set c j).
Proof.
  intros Hi Hj. unfold touch. rewrite get_put_set by assumption.
  destruct (Z.eqb_spec j i) as [->|]; reflexivity.
Qed.

Lemma get_install (c : cache Z) i bi nb j : 0 <= i < Z.of_nat (length (sets c)) -> 0 <= j ->
  blocks (get_set (install c i bi nb) j) =
  if j =? i then set_nthZ (blocks (get_set c i)) bi nb else blocks (get_set c j).
Proof.
  intros Hi Hj. unfold install. rewrite get_put_set by assumption.
  destruct (Z.eqb_spec j i) as [->|]; reflexivity.
Qed.

(** * Structural invariant: preservation by the elementary updates *)
Lemma sinv_cfg c m : SInvC c m -> cfg_ok (cfg c).
Proof. intros H; apply H. Qed.
Lemma sinv_geom c m : SInvC c m -> geom_ok (ibits (cfg c)) (bbits (cfg c)).
Proof. intros H; apply cfg_geom; apply H. Qed.
Lemma sinv_set c m i : SInvC c m -> 0 <= i < 2 ^ ibits (cfg c) -> set_ok (cfg c) i (get_set c i).
Proof. intros H; apply H. Qed.
Lemma sinv_bytes c m : SInvC c m -> bytes_ok m.
Proof. intros H; apply H. Qed.
Lemma sinv_idx c m a : SInvC c m -> 0 <= da_idx (cdecode c a) < 2 ^ ibits (cfg c).
Proof.
  intros H. unfold cdecode.
  destruct (decode_spec (ibits (cfg c)) (bbits (cfg c)) a (sinv_geom c m H)) as (_ & _ & _ & Hi & _).
  exact Hi.
Qed.

Lemma sinv_lower c m m' : SInvC c m -> bytes_ok m' -> SInvC c m'.
Proof. intros (H1 & H2 & H3 & _) Hb. exact (conj H1 (conj H2 (conj H3 Hb))). Qed.

Lemma sinv_touch c m i bi : SInvC c m -> 0 <= i < 2 ^ ibits (cfg c) -> 0 <= bi < assoc (cfg c) ->
  SInvC (touch c i bi) m.
Proof.
  intros (H1 & H2 & H3 & H4) Hi Hbi. unfold SInvC. change (cfg (touch c i bi)) with (cfg c).
  split; [exact H1|]. split.
  { unfold touch, put_set. cbn [sets]. rewrite set_nthZ_length. exact H2. }
  split; [|exact H4]. intros j Hj. unfold touch. rewrite get_put_set by lia.
  destruct (Z.eqb_spec j i) as [->|Hne]; [|apply H3; exact Hj].
  destruct (H3 i Hi) as (S1 & S2 & S3 & S4). unfold set_ok. cbn [blocks policy].
  split; [exact S1|]. split; [apply pol_access_ok; assumption|]. split; assumption.
Qed.

Definition no_other (bl : list (cblock Z)) (bi t : Z) : Prop :=
  forall bj, 0 <= bj < Z.of_nat (length bl) -> bj <> bi -> matches (nthZ bl bj empty_block) t = false.

Lemma sinv_install c m i bi nb : SInvC c m ->
  0 <= i < 2 ^ ibits (cfg c) -> 0 <= bi < assoc (cfg c) ->
  block_ok (cfg c) i nb -> valid nb = true ->
  no_other (blocks (get_set c i)) bi (btag nb) ->
  SInvC (install c i bi nb) m.
Proof.
  intros (H1 & H2 & H3 & H4) Hi Hbi Hnb Hv Hno. unfold SInvC.
  change (cfg (install c i bi nb)) with (cfg c).
  split; [exact H1|]. split.
  { unfold install, put_set. cbn [sets]. rewrite set_nthZ_length. exact H2. }
  split; [|exact H4]. intros j Hj. unfold install. rewrite get_put_set by lia.
  destruct (Z.eqb_spec j i) as [->|Hne]; [|apply H3; exact Hj].
  destruct (H3 i Hi) as (S1 & S2 & S3 & S4). unfold set_ok. cbn [blocks policy].
  set (bl := blocks (get_set c i)) in *.
  split; [rewrite set_nthZ_length; exact S1|].
  split; [apply pol_access_ok; assumption|].
  split.
  - intros bj Hbj. rewrite nthZ_set_nthZ by lia.
    destruct (Z.eqb_spec bj bi); [exact Hnb | apply S3; exact Hbj].
  - intros x y. rewrite set_nthZ_length. intros Hx Hy.
    rewrite !nthZ_set_nthZ by lia.
    destruct (Z.eqb_spec x bi) as [->|Nx]; destruct (Z.eqb_spec y bi) as [->|Ny]; intros Vx Vy E.
    + reflexivity.
    + exfalso. pose proof (Hno y Hy Ny) as Hm.
      assert (matches (nthZ bl y empty_block) (btag nb) = true) by (apply matches_true; split; [exact Vy | symmetry; exact E]).
      congruence.
    + exfalso. pose proof (Hno x Hx Nx) as Hm.
      assert (matches (nthZ bl x empty_block) (btag nb) = true) by (apply matches_true; split; [exact Vx | exact E]).
      congruence.
    + apply S4; assumption.
Qed.

(** * The resident-block function after the elementary updates *)
Lemma res_touch c m i bi a : SInvC c m -> 0 <= i < 2 ^ ibits (cfg c) ->
  res_block (touch c i bi) a = res_block c a.
Proof.
  intros H Hi. unfold res_block. change (cdecode (touch c i bi) a) with (cdecode c a).
  pose proof (sinv_idx c m a H) as Hidx. destruct H as (_ & H2 & _).
  rewrite get_touch by lia. reflexivity.
Qed.

Section Install.
  Variables (c : cache Z) (m : zmap) (i bi : Z) (nb : cblock Z).
  Hypothesis HS : SInvC c m.
  Hypothesis Hi : 0 <= i < 2 ^ ibits (cfg c).
  Hypothesis Hbi : 0 <= bi < assoc (cfg c).
  Hypothesis Hnb : block_ok (cfg c) i nb.
  Hypothesis Hv : valid nb = true.
  Hypothesis Hno : no_other (blocks (get_set c i)) bi (btag nb).

  Let bl := blocks (get_set c i).
  Let old := nthZ bl bi empty_block.

  Lemma install_len : Z.of_nat (length bl) = assoc (cfg c).
  Proof. exact (proj1 (sinv_set c m i HS Hi)). Qed.

  Lemma install_uniq_new : uniq (set_nthZ bl bi nb).
  Proof.
    pose proof (sinv_install c m i bi nb HS Hi Hbi Hnb Hv Hno) as H.
    pose proof (sinv_set _ _ i H Hi) as (_ & _ & _ & Hu).
    change (cfg (install c i bi nb)) with (cfg c) in Hu.
    rewrite get_install in Hu by (destruct HS as (_ & H2 & _); lia).
    rewrite Z.eqb_refl in Hu. exact Hu.
  Qed.

  Lemma res_install_same a :
    da_idx (cdecode c a) = i -> da_tag (cdecode c a) = btag nb ->
    res_block (install c i bi nb) a = Some nb.
  Proof.
    intros Ei Et. unfold res_block. change (cdecode (install c i bi nb) a) with (cdecode c a).
    rewrite Ei, Et. rewrite get_install by (destruct HS as (_ & H2 & _); lia).
    rewrite Z.eqb_refl. fold bl. pose proof install_len as Hlen.
    rewrite (lookup_hit (set_nthZ bl bi nb) (btag nb) bi).
    - rewrite nthZ_set_nthZ_eq by lia. reflexivity.
    - apply install_uniq_new.
    - rewrite set_nthZ_length. lia.
    - rewrite nthZ_set_nthZ_eq by lia. apply matches_true. split; [exact Hv | reflexivity].
  Qed.

  Lemma res_install_other a :
    ~ (da_idx (cdecode c a) = i /\ da_tag (cdecode c a) = btag nb) ->
    res_block (install c i bi nb) a =
    if (da_idx (cdecode c a) =? i) && matches old (da_tag (cdecode c a)) then None else res_block c a.
  Proof.
    intros Hne. unfold res_block. change (cdecode (install c i bi nb) a) with (cdecode c a).
    pose proof (sinv_idx c m a HS) as Hidx.
    rewrite get_install by (destruct HS as (_ & H2 & _); lia).
    destruct (Z.eqb_spec (da_idx (cdecode c a)) i) as [Ei|Ni]; cbn [andb]; [|reflexivity].
    rewrite Ei. fold bl. set (t := da_tag (cdecode c a)) in *.
    assert (Nt: t <> btag nb) by tauto.
    pose proof install_len as Hlen.
    pose proof (sinv_set c m i HS Hi) as (_ & _ & _ & Hu). fold bl in Hu.
    assert (Hnbm: matches nb t = false).
    { unfold matches. rewrite Hv. cbn [andb]. apply Z.eqb_neq. congruence. }
    destruct (matches old t) eqn:Eo.
    - apply lookup_miss. intros k. rewrite set_nthZ_length. intros Hk.
      rewrite nthZ_set_nthZ by lia. destruct (Z.eqb_spec k bi) as [->|Nk]; [exact Hnbm|].
      destruct (matches (nthZ bl k empty_block) t) eqn:Ek; [|reflexivity].
      exfalso. apply Nk. apply matches_true in Ek. apply matches_true in Eo. unfold old in Eo.
      apply Hu; try lia; try tauto.
    - destruct (lookup bl t) as [b|] eqn:El.
      + apply lookup_Some in El. destruct El as (k & Hk & -> & Hm & _).
        assert (Nk: k <> bi) by (intros ->; unfold old in Eo; congruence).
        rewrite (lookup_hit (set_nthZ bl bi nb) t k).
        * rewrite nthZ_set_nthZ_neq by lia. reflexivity.
        * apply install_uniq_new.
        * rewrite set_nthZ_length. lia.
        * rewrite nthZ_set_nthZ_neq by lia. exact Hm.
      + apply lookup_None in El. destruct El as [_ Hall].
        apply lookup_miss. intros k. rewrite set_nthZ_length. intros Hk.
        rewrite nthZ_set_nthZ by lia. destruct (Z.eqb_spec k bi); [exact Hnbm | apply Hall; exact Hk].
  Qed.
End Install.

(** * Blocks and addresses *)
Lemma in32b_mod a : in32b a -> a mod 4294967296 = a.
Proof. unfold in32b. intros. apply Z.mod_small. lia. Qed.

Lemma blk_addr c m i b a : SInvC c m -> block_ok (cfg c) i b -> valid b = true ->
  (da_idx (cdecode c a) = i /\ da_tag (cdecode c a) = btag b) <-> da_balign (cdecode c a) = baddr b.
Proof.
  intros HS [_ Hb] Hv. destruct (Hb Hv) as (_ & _ & _ & Ht & Hi & Hba & _).
  unfold cdecode. pose proof (same_block_iff _ _ a (baddr b) (sinv_geom c m HS)) as H. cbv zeta in H.
  rewrite Ht, Hi, Hba in H. tauto.
Qed.

Lemma blk_range c m i b a : SInvC c m -> block_ok (cfg c) i b -> valid b = true -> in32b a ->
  (baddr b <= a < baddr b + bsize (bbits (cfg c))) <-> da_balign (cdecode c a) = baddr b.
Proof.
  intros HS [_ Hb] Hv Ha. destruct (Hb Hv) as (_ & _ & _ & Ht & Hi & Hba & _).
  unfold cdecode. pose proof (in_block_iff _ _ (baddr b) a (sinv_geom c m HS)) as H. cbv zeta in H.
  rewrite Hba, (in32b_mod a Ha) in H. exact H.
Qed.

(* offsets of an address inside its block *)
Lemma blk_off c m a : SInvC c m -> in32b a ->
  let da := cdecode c a in
  a = da_balign da + 4 * da_boff da + da_byoff da /\
  0 <= da_boff da < 2 ^ bbits (cfg c) /\ 0 <= da_byoff da < 4 /\
  (a - da_balign da) / 4 = da_boff da /\ (a - da_balign da) mod 4 = da_byoff da /\
  0 <= da_balign da /\ da_balign da + bsize (bbits (cfg c)) <= 4294967296 /\
  (16384 <= a <-> 16384 <= da_balign da).
Proof.
  intros HS Ha. cbv zeta. unfold cdecode.
  destruct (decode_spec _ _ a (sinv_geom c m HS)) as (Hx & Hbo & Hby & _ & _ & _ & H0 & Hhi & H14).
  rewrite (in32b_mod a Ha) in *. repeat split; try lia.
Qed.

Lemma balign_in32 c m a : SInvC c m -> in32b (da_balign (cdecode c a)).
Proof.
  intros HS. unfold cdecode, in32b.
  destruct (decode_spec _ _ a (sinv_geom c m HS)) as (_ & _ & _ & _ & _ & _ & H0 & Hhi & _).
  pose proof (bsize_pos (bbits (cfg c)) ltac:(destruct (sinv_geom c m HS); lia)). lia.
Qed.

Lemma decode_balign c m a : SInvC c m ->
  let da := cdecode c a in let db := cdecode c (da_balign da) in
  da_tag db = da_tag da /\ da_idx db = da_idx da /\ da_balign db = da_balign da.
Proof.
  intros HS. cbv zeta. pose proof (sinv_geom c m HS) as G. unfold cdecode.
  pose proof (balign_in32 c m a HS) as Hin. unfold cdecode in Hin.
  assert (E: da_balign (decode_addr (ibits (cfg c)) (bbits (cfg c))
               (da_balign (decode_addr (ibits (cfg c)) (bbits (cfg c)) a))) =
             da_balign (decode_addr (ibits (cfg c)) (bbits (cfg c)) a)).
  { apply (in_block_iff _ _ a _ G). rewrite (in32b_mod _ Hin).
    pose proof (bsize_pos (bbits (cfg c)) ltac:(destruct G; lia)). lia. }
  pose proof (proj2 (same_block_iff _ _ _ a G) E) as [Et Ei]. repeat split; assumption.
Qed.

Lemma mkblock_ok c m a v : SInvC c m ->
  16384 <= da_balign (cdecode c a) ->
  Z.of_nat (length v) = 2 ^ bbits (cfg c) ->
  (forall j, 0 <= j < 2 ^ bbits (cfg c) -> 0 <= nthZ v j 0 < 4294967296) ->
  block_ok (cfg c) (da_idx (cdecode c a)) (mkblock (cdecode c a) v).
Proof.
  intros HS Hlo Hlen Hw. split; [reflexivity|]. intros _. cbn [mkblock vals baddr btag].
  destruct (decode_balign c m a HS) as (Et & Ei & Eb). pose proof (balign_in32 c m a HS) as Hin.
  unfold cdecode in *. repeat split; try assumption; try apply Hw; try apply Hin; assumption.
Qed.

Lemma logical_byte c m a : SInvC c m -> 0 <= logicalC c m a < 256.
Proof.
  intros HS. unfold logicalC. destruct (res_block c a); [apply byte_of_range | apply (sinv_bytes c m HS)].
Qed.

(* a resident block is well-formed, valid, and is the block of the address *)
Lemma res_block_Some c m a b : SInvC c m -> res_block c a = Some b ->
  valid b = true /\ block_ok (cfg c) (da_idx (cdecode c a)) b /\ btag b = da_tag (cdecode c a) /\
  baddr b = da_balign (cdecode c a) /\
  exists k, 0 <= k < assoc (cfg c) /\ b = nthZ (blocks (get_set c (da_idx (cdecode c a)))) k empty_block.
Proof.
  intros HS Hr. unfold res_block in Hr. apply lookup_Some in Hr.
  destruct Hr as (k & Hk & -> & Hm & _). apply matches_true in Hm. destruct Hm as [Hv Ht].
  pose proof (sinv_set c m _ HS (sinv_idx c m a HS)) as (Hlen & _ & Hb & _).
  rewrite Hlen in Hk. specialize (Hb k Hk).
  split; [exact Hv|]. split; [exact Hb|]. split; [exact Ht|]. split.
  - symmetry. apply (blk_addr c m _ _ a HS Hb Hv). split; [reflexivity | symmetry; exact Ht].
  - exists k. split; [exact Hk | reflexivity].
Qed.

Lemma res_block_of c m i k a : SInvC c m -> 0 <= i < 2 ^ ibits (cfg c) -> 0 <= k < assoc (cfg c) ->
  valid (nthZ (blocks (get_set c i)) k empty_block) = true ->
  da_balign (cdecode c a) = baddr (nthZ (blocks (get_set c i)) k empty_block) ->
  res_block c a = Some (nthZ (blocks (get_set c i)) k empty_block).
Proof.
  intros HS Hi Hk Hv Hba. pose proof (sinv_set c m i HS Hi) as (Hlen & _ & Hb & Hu).
  apply (blk_addr c m i _ a HS (Hb k Hk) Hv) in Hba. destruct Hba as [Ei Et].
  unfold res_block. rewrite Ei. apply lookup_hit; [exact Hu | lia |].
  apply matches_true. split; [exact Hv | symmetry; exact Et].
Qed.

(** * Logical contents after the elementary updates *)
Lemma logical_touch c m i bi a : SInvC c m -> 0 <= i < 2 ^ ibits (cfg c) ->
  logicalC (touch c i bi) m a = logicalC c m a.
Proof.
  intros HS Hi. unfold logicalC. rewrite (res_touch c m i bi a HS Hi).
  change (cdecode (touch c i bi) a) with (cdecode c a). reflexivity.
Qed.

Lemma logical_lower c m m' a :
  logicalC c m' a = match res_block c a with Some _ => logicalC c m a | None => mget m' a end.
Proof. unfold logicalC. destruct (res_block c a); reflexivity. Qed.

Section InstallLogical.
  Variables (c : cache Z) (m : zmap) (i bi : Z) (nb : cblock Z).
  Hypothesis HS : SInvC c m.
  Hypothesis Hi : 0 <= i < 2 ^ ibits (cfg c).
  Hypothesis Hbi : 0 <= bi < assoc (cfg c).
  Hypothesis Hnb : block_ok (cfg c) i nb.
  Hypothesis Hv : valid nb = true.
  Hypothesis Hno : no_other (blocks (get_set c i)) bi (btag nb).

  Let old := nthZ (blocks (get_set c i)) bi empty_block.

  (* an address not resident after the install was not resident before, or lies in the
     displaced block *)
  Lemma res_install_None a : res_block (install c i bi nb) a = None ->
    da_balign (cdecode c a) <> baddr nb /\
    (res_block c a = None \/
     (valid old = true /\ da_balign (cdecode c a) = baddr old /\ res_block c a = Some old)).
  Proof.
    intros Hr.
    assert (Hne: da_balign (cdecode c a) <> baddr nb).
    { intros E. apply (blk_addr c m i nb a HS Hnb Hv) in E. destruct E as [Ei Et].
      rewrite (res_install_same c m i bi nb HS Hi Hbi Hnb Hv Hno a Ei Et) in Hr. discriminate. }
    split; [exact Hne|].
    rewrite (res_install_other c m i bi nb HS Hi Hbi Hnb Hv Hno a) in Hr.
    2:{ intros E. apply Hne. apply (blk_addr c m i nb a HS Hnb Hv). exact E. }
    fold old in Hr.
    destruct ((da_idx (cdecode c a) =? i) && matches old (da_tag (cdecode c a))) eqn:E; [|left; exact Hr].
    right. apply andb_true_iff in E. destruct E as [Ei Em]. apply Z.eqb_eq in Ei.
    apply matches_true in Em. destruct Em as [Hvo Et].
    pose proof (sinv_set c m i HS Hi) as (_ & _ & Hb & _).
    assert (Hba: da_balign (cdecode c a) = baddr old).
    { apply (blk_addr c m i old a HS (Hb bi Hbi) Hvo). split; [exact Ei | symmetry; exact Et]. }
    split; [exact Hvo|]. split; [exact Hba|].
    apply (res_block_of c m i bi a HS Hi Hbi Hvo Hba).
  Qed.

  Lemma logical_install m' :
    (forall a, in32b a -> res_block (install c i bi nb) a = None -> mget m' a = logicalC c m a) ->
    forall a, in32b a ->
    logicalC (install c i bi nb) m' a =
    if da_balign (cdecode c a) =? baddr nb
    then byte_of (nthZ (vals nb) (da_boff (cdecode c a)) 0) (da_byoff (cdecode c a))
    else logicalC c m a.
  Proof.
    intros Hm' a Ha. unfold logicalC at 1.
    change (cdecode (install c i bi nb) a) with (cdecode c a).
    destruct (Z.eqb_spec (da_balign (cdecode c a)) (baddr nb)) as [E|Hne].
    - apply (blk_addr c m i nb a HS Hnb Hv) in E. destruct E as [Ei Et].
      rewrite (res_install_same c m i bi nb HS Hi Hbi Hnb Hv Hno a Ei Et). reflexivity.
    - destruct (res_block (install c i bi nb) a) as [b|] eqn:Er; [|apply Hm'; assumption].
      rewrite (res_install_other c m i bi nb HS Hi Hbi Hnb Hv Hno a) in Er.
      2:{ intros E. apply Hne. apply (blk_addr c m i nb a HS Hnb Hv). exact E. }
      destruct ((da_idx (cdecode c a) =? i) && _); [discriminate|].
      unfold logicalC. rewrite Er. reflexivity.
  Qed.
End InstallLogical.

(** * Scenarios on (cache, lower memory) *)
Definition vals_ok (c : cache Z) (v : list Z) : Prop :=
  Z.of_nat (length v) = 2 ^ bbits (cfg c) /\
  (forall j, 0 <= j < 2 ^ bbits (cfg c) -> 0 <= nthZ v j 0 < 4294967296).

Lemma find_hit_facts c m a bi : SInvC c m ->
  find_block (blocks (get_set c (da_idx (cdecode c a)))) (da_tag (cdecode c a)) 0 = Some bi ->
  let old := nthZ (blocks (get_set c (da_idx (cdecode c a)))) bi empty_block in
  0 <= bi < assoc (cfg c) /\ valid old = true /\ btag old = da_tag (cdecode c a) /\
  block_ok (cfg c) (da_idx (cdecode c a)) old /\ baddr old = da_balign (cdecode c a) /\
  16384 <= da_balign (cdecode c a) /\ vals_ok c (vals old) /\
  no_other (blocks (get_set c (da_idx (cdecode c a)))) bi (da_tag (cdecode c a)) /\
  res_block c a = Some old.
Proof.
  intros HS Hf. cbv zeta.
  pose proof (sinv_set c m _ HS (sinv_idx c m a HS)) as (Hlen & _ & Hb & Hu).
  pose proof (find_block_Some _ _ _ _ Hf) as [Hbi Hm]. replace (bi - 0) with bi in Hm by lia.
  apply matches_true in Hm. destruct Hm as [Hv Ht]. rewrite Hlen in Hbi.
  assert (Hbi': 0 <= bi < assoc (cfg c)) by lia. pose proof (Hb bi Hbi') as Hok.
  assert (Hba: da_balign (cdecode c a) = baddr (nthZ (blocks (get_set c (da_idx (cdecode c a)))) bi empty_block)).
  { apply (blk_addr c m _ _ a HS Hok Hv). split; [reflexivity | symmetry; exact Ht]. }
  destruct Hok as [Hd Hok']. pose proof (Hok' Hv) as (L1 & L2 & _ & _ & _ & _ & L14).
  split; [exact Hbi'|]. split; [exact Hv|]. split; [exact Ht|]. split; [split; assumption|].
  split; [symmetry; exact Hba|]. split; [rewrite Hba; exact L14|]. split; [split; assumption|].
  split.
  - intros bj Hbj Hne. destruct (matches _ _) eqn:E; [|reflexivity]. exfalso. apply Hne.
    apply matches_true in E. destruct E as [Vj Tj]. apply Hu; try lia; try assumption.
  - unfold res_block, lookup. rewrite Hf. reflexivity.
Qed.

Lemma hit_update c m a bi v : SInvC c m ->
  find_block (blocks (get_set c (da_idx (cdecode c a)))) (da_tag (cdecode c a)) 0 = Some bi ->
  vals_ok c v ->
  let c' := install c (da_idx (cdecode c a)) bi (mkblock (cdecode c a) v) in
  SInvC c' m /\
  forall a', in32b a' ->
    logicalC c' m a' =
    if da_balign (cdecode c a') =? da_balign (cdecode c a)
    then byte_of (nthZ v (da_boff (cdecode c a')) 0) (da_byoff (cdecode c a'))
    else logicalC c m a'.
Proof.
  intros HS Hf [Hlen Hw]. cbv zeta.
  destruct (find_hit_facts c m a bi HS Hf) as (Hbi & Hvo & Hto & Hoko & Hbao & H14 & _ & Hno & _).
  pose proof (sinv_idx c m a HS) as Hi.
  pose proof (mkblock_ok c m a v HS H14 Hlen Hw) as Hnb.
  split; [apply sinv_install; try assumption; reflexivity|].
  apply (logical_install c m _ bi _ HS Hi Hbi Hnb eq_refl Hno m).
  intros a' Ha' Hr.
  destruct (res_install_None c m _ bi _ HS Hi Hbi Hnb eq_refl Hno a' Hr) as [Hne [Hn|(_ & E & _)]].
  - unfold logicalC. rewrite Hn. reflexivity.
  - exfalso. apply Hne. cbn [mkblock baddr]. rewrite E. exact Hbao.
Qed.

(* writing a valid block back: lower memory takes the logical contents on the block's range
   and keeps everything else *)
Lemma writeback_ok c m i bi : SInvC c m -> 0 <= i < 2 ^ ibits (cfg c) -> 0 <= bi < assoc (cfg c) ->
  let old := nthZ (blocks (get_set c i)) bi empty_block in
  valid old = true ->
  let m' := write_words m (baddr old) (vals old) in
  bytes_ok m' /\
  forall a, in32b a ->
    mget m' a = if da_balign (cdecode c a) =? baddr old then logicalC c m a else mget m a.
Proof.
  intros HS Hi Hbi. cbv zeta. intros Hv.
  set (old := nthZ (blocks (get_set c i)) bi empty_block) in *.
  pose proof (sinv_set c m i HS Hi) as (_ & _ & Hb & _). pose proof (Hb bi Hbi) as Hok. fold old in Hok.
  pose proof Hok as [_ Hok']. destruct (Hok' Hv) as (L1 & L2 & L3 & _ & _ & L6 & L14).
  pose proof (sinv_geom c m HS) as G.
  pose proof (bsize_eq (bbits (cfg c)) ltac:(destruct G; lia)) as HB.
  assert (Hhi: baddr old + bsize (bbits (cfg c)) <= 4294967296).
  { pose proof (blk_off c m (baddr old) HS L3) as H. cbv zeta in H. unfold cdecode in H.
    rewrite L6 in H. lia. }
  assert (W: forall z, mget (write_words m (baddr old) (vals old)) z =
             if (baddr old <=? z) && (z <? baddr old + 4 * Z.of_nat (length (vals old)))
             then byte_of (nthZ (vals old) ((z - baddr old) / 4) 0) ((z - baddr old) mod 4) else mget m z).
  { apply write_words_loc; lia. }
  split.
  - intros z. rewrite W. destruct (_ && _); [apply byte_of_range | apply (sinv_bytes c m HS)].
  - intros a Ha. rewrite W. rewrite L1, <- HB.
    destruct (Z.eqb_spec (da_balign (cdecode c a)) (baddr old)) as [E|Hne].
    + pose proof (proj2 (blk_range c m i old a HS Hok Hv Ha) E) as Hr.
      replace ((baddr old <=? a) && (a <? baddr old + bsize (bbits (cfg c)))) with true by lia.
      unfold logicalC. rewrite (res_block_of c m i bi a HS Hi Hbi Hv E). fold old.
      pose proof (blk_off c m a HS Ha) as H. cbv zeta in H. destruct H as (_ & _ & _ & O1 & O2 & _).
      rewrite <- E, O1, O2. reflexivity.
    + assert (~ (baddr old <= a < baddr old + bsize (bbits (cfg c)))).
      { intros Hr. apply Hne. apply (blk_range c m i old a HS Hok Hv Ha). exact Hr. }
      replace ((baddr old <=? a) && (a <? baddr old + bsize (bbits (cfg c)))) with false by lia.
      reflexivity.
Qed.

(* filling the victim way on a miss, given a new lower memory m' that holds the old logical
   contents wherever the new cache has no block *)
Lemma fill c m a v m' : SInvC c m ->
  find_block (blocks (get_set c (da_idx (cdecode c a)))) (da_tag (cdecode c a)) 0 = None ->
  16384 <= da_balign (cdecode c a) -> vals_ok c v ->
  let bi := pol_victim (policy (get_set c (da_idx (cdecode c a)))) in
  let old := nthZ (blocks (get_set c (da_idx (cdecode c a)))) bi empty_block in
  let c' := install c (da_idx (cdecode c a)) bi (mkblock (cdecode c a) v) in
  bytes_ok m' ->
  (forall a', in32b a' -> res_block c a' = None -> mget m' a' = mget m a') ->
  (valid old = true -> forall a', in32b a' -> da_balign (cdecode c a') = baddr old ->
     mget m' a' = logicalC c m a') ->
  0 <= bi < assoc (cfg c) /\ SInvC c' m' /\
  forall a', in32b a' ->
    logicalC c' m' a' =
    if da_balign (cdecode c a') =? da_balign (cdecode c a)
    then byte_of (nthZ v (da_boff (cdecode c a')) 0) (da_byoff (cdecode c a'))
    else logicalC c m a'.
Proof.
  intros HS Hf H14 [Hlen Hw]. cbv zeta. intros Hb' Hkeep Hold.
  pose proof (sinv_idx c m a HS) as Hi.
  pose proof (sinv_set c m _ HS Hi) as (Hl & Hp & _ & _).
  pose proof (pol_victim_range _ _ (sinv_cfg c m HS) Hp) as Hbi.
  pose proof (mkblock_ok c m a v HS H14 Hlen Hw) as Hnb.
  assert (Hno: no_other (blocks (get_set c (da_idx (cdecode c a))))
                 (pol_victim (policy (get_set c (da_idx (cdecode c a))))) (da_tag (cdecode c a))).
  { intros bj Hbj _. apply (find_block_None _ _ _ Hf). exact Hbj. }
  split; [exact Hbi|].
  assert (HS': SInvC (install c (da_idx (cdecode c a)) (pol_victim (policy (get_set c (da_idx (cdecode c a)))))
                        (mkblock (cdecode c a) v)) m).
  { apply sinv_install; try assumption; reflexivity. }
  split; [apply (sinv_lower _ m m' HS' Hb')|].
  apply (logical_install c m _ _ _ HS Hi Hbi Hnb eq_refl Hno m').
  intros a' Ha' Hr.
  destruct (res_install_None c m _ _ _ HS Hi Hbi Hnb eq_refl Hno a' Hr) as [Hne [Hn|(Vo & E & _)]].
  - unfold logicalC. rewrite Hn. apply Hkeep; assumption.
  - apply Hold; assumption.
Qed.

Lemma miss_block c m a a' : SInvC c m ->
  find_block (blocks (get_set c (da_idx (cdecode c a)))) (da_tag (cdecode c a)) 0 = None ->
  da_balign (cdecode c a') = da_balign (cdecode c a) -> res_block c a' = None.
Proof.
  intros HS Hf E. unfold cdecode in E. apply (same_block_iff _ _ a' a (sinv_geom c m HS)) in E.
  destruct E as [Et Ei]. unfold res_block, lookup, cdecode. rewrite Et, Ei. unfold cdecode in Hf.
  rewrite Hf. reflexivity.
Qed.

Lemma fill_wb c m a v : SInvC c m ->
  find_block (blocks (get_set c (da_idx (cdecode c a)))) (da_tag (cdecode c a)) 0 = None ->
  16384 <= da_balign (cdecode c a) -> vals_ok c v ->
  let bi := pol_victim (policy (get_set c (da_idx (cdecode c a)))) in
  let old := nthZ (blocks (get_set c (da_idx (cdecode c a)))) bi empty_block in
  let c' := install c (da_idx (cdecode c a)) bi (mkblock (cdecode c a) v) in
  let m' := if dirty old then write_words m (baddr old) (vals old) else m in
  SInvC c' m' /\
  forall a', in32b a' ->
    logicalC c' m' a' =
    if da_balign (cdecode c a') =? da_balign (cdecode c a)
    then byte_of (nthZ v (da_boff (cdecode c a')) 0) (da_byoff (cdecode c a'))
    else logicalC c m a'.
Proof.
  intros HS Hf H14 Hv. cbv zeta.
  pose proof (sinv_idx c m a HS) as Hi.
  pose proof (sinv_set c m _ HS Hi) as (_ & Hp & Hb & _).
  pose proof (pol_victim_range _ _ (sinv_cfg c m HS) Hp) as Hbi.
  set (bi := pol_victim (policy (get_set c (da_idx (cdecode c a))))) in *.
  set (old := nthZ (blocks (get_set c (da_idx (cdecode c a)))) bi empty_block).
  pose proof (Hb bi Hbi) as Hok. fold old in Hok. pose proof Hok as [Hd _].
  destruct (dirty old) eqn:Ed.
  - symmetry in Hd. destruct (writeback_ok c m _ bi HS Hi Hbi Hd) as [W1 W2]. fold old in W1, W2.
    apply (fill c m a v _ HS Hf H14 Hv W1).
    + intros a' Ha' Hn. rewrite (W2 a' Ha').
      destruct (Z.eqb_spec (da_balign (cdecode c a')) (baddr old)) as [E|]; [|reflexivity].
      fold bi in E. fold old in E.
      rewrite (res_block_of c m _ bi a' HS Hi Hbi Hd E) in Hn. discriminate.
    + fold bi. fold old. intros _ a' Ha' E. rewrite (W2 a' Ha').
      rewrite (proj2 (Z.eqb_eq _ _) E). reflexivity.
  - apply (fill c m a v m HS Hf H14 Hv (sinv_bytes c m HS)).
    + intros; reflexivity.
    + fold bi. fold old. intros Hvo. congruence.
Qed.

Lemma fill_wt c m a v : SInvC c m -> WTInvC c m ->
  find_block (blocks (get_set c (da_idx (cdecode c a)))) (da_tag (cdecode c a)) 0 = None ->
  16384 <= da_balign (cdecode c a) -> vals_ok c v ->
  let bi := pol_victim (policy (get_set c (da_idx (cdecode c a)))) in
  let c' := install c (da_idx (cdecode c a)) bi (mkblock (cdecode c a) v) in
  SInvC c' m /\
  forall a', in32b a' ->
    logicalC c' m a' =
    if da_balign (cdecode c a') =? da_balign (cdecode c a)
    then byte_of (nthZ v (da_boff (cdecode c a')) 0) (da_byoff (cdecode c a'))
    else logicalC c m a'.
Proof.
  intros HS HW Hf H14 Hv. cbv zeta.
  apply (fill c m a v m HS Hf H14 Hv (sinv_bytes c m HS)).
  - intros; reflexivity.
  - intros _ a' Ha' _. apply HW. exact Ha'.
Qed.

(* fetching a block from lower memory *)
Lemma read_block_lower c m a : SInvC c m -> 16384 <= da_balign (cdecode c a) ->
  exists v, read_words m (da_balign (cdecode c a)) (Z.to_nat (2 ^ bbits (cfg c))) = Ok v /\
    vals_ok c v /\
    forall a', in32b a' -> da_balign (cdecode c a') = da_balign (cdecode c a) ->
      byte_of (nthZ v (da_boff (cdecode c a')) 0) (da_byoff (cdecode c a')) = mget m a'.
Proof.
  intros HS H14. pose proof (sinv_geom c m HS) as G.
  pose proof (bsize_eq (bbits (cfg c)) ltac:(destruct G; lia)) as HB.
  pose proof (p2pos (bbits (cfg c)) ltac:(destruct G; lia)) as HP.
  pose proof (sinv_bytes c m HS) as Hb.
  assert (Hhi: da_balign (cdecode c a) + bsize (bbits (cfg c)) <= 4294967296).
  { unfold cdecode. destruct (decode_spec _ _ a G) as (_ & _ & _ & _ & _ & _ & _ & H & _). exact H. }
  destruct (read_words_loc m (Z.to_nat (2 ^ bbits (cfg c))) (da_balign (cdecode c a)))
    as (v & Hr & Hlen & Hnth); [exact H14 | lia | intros; apply Hb |].
  exists v. split; [exact Hr|]. split; [split|].
  - lia.
  - intros j Hj. rewrite Hnth by lia. change 4294967296 with (2 ^ (8 * Z.of_nat 4)).
    apply le_bytes_range. intros; apply Hb.
  - intros a' Ha' E. pose proof (blk_off c m a' HS Ha') as H. cbv zeta in H.
    destruct H as (Hx & Hbo & Hby & _). rewrite Hnth by lia.
    rewrite byte_of_le_bytes; [| intros; apply Hb | change (Z.of_nat 4) with 4; lia].
    f_equal. rewrite <- E. lia.
Qed.

Lemma read_block_lower_bad c m a : SInvC c m -> da_balign (cdecode c a) < 16384 ->
  read_words m (da_balign (cdecode c a)) (Z.to_nat (2 ^ bbits (cfg c))) = Err (aerr (da_balign (cdecode c a))).
Proof.
  intros HS Hlt. pose proof (sinv_geom c m HS) as G.
  pose proof (p2pos (bbits (cfg c)) ltac:(destruct G; lia)) as HP.
  pose proof (balign_in32 c m a HS) as Hin. unfold in32b in Hin.
  apply read_words_bad; lia.
Qed.

(** * The data cache: block read *)
Definition same_logical (d d' : dcache) : Prop := forall a, in32b a -> logical d' a = logical d a.

Lemma pair_eq {A B} (a c : A) (b e : B) : (a, b) = (c, e) -> a = c /\ b = e.
Proof. intros H; injection H; auto. Qed.

Lemma cinv_sinv d : CInv d -> SInvC (dc d) (lower d).
Proof. intros [H _]; exact H. Qed.

Lemma dc_read_block_ok d a r d' : CInv d ->
  dc_read_block d (cdecode (dc d) a) = (r, d') ->
  CInv d' /\ wthrough d' = wthrough d /\ cfg (dc d') = cfg (dc d) /\ same_logical d d' /\
  match r with
  | Ok (blk, hit) =>
      16384 <= da_balign (cdecode (dc d) a) /\
      forall a', in32b a' -> da_balign (cdecode (dc d) a') = da_balign (cdecode (dc d) a) ->
        0 <= nthZ blk (da_boff (cdecode (dc d) a')) 0 < 4294967296 /\
        byte_of (nthZ blk (da_boff (cdecode (dc d) a')) 0) (da_byoff (cdecode (dc d) a')) = logical d a'
  | Err e => da_balign (cdecode (dc d) a) < 16384 /\ e = aerr (da_balign (cdecode (dc d) a)) /\ d' = d
  end.
Proof.
  intros [HS HW] H. unfold SInv in HS. unfold dc_read_block in H. rewrite cache_read_block_eq in H.
  destruct (find_block (blocks (get_set (dc d) (da_idx (cdecode (dc d) a)))) (da_tag (cdecode (dc d) a)) 0)
    as [bi|] eqn:Hf.
  - (* hit *)
    apply pair_eq in H; destruct H as [<- <-].
    destruct (find_hit_facts _ _ a bi HS Hf) as (Hbi & Hvo & Hto & Hoko & Hbao & H14 & [Hl Hw] & Hno & Hres).
    pose proof (sinv_idx _ _ a HS) as Hi.
    assert (SL: same_logical d (upd_dc d (touch (dc d) (da_idx (cdecode (dc d) a)) bi))).
    { intros a' Ha'. unfold logical. cbn [dc lower upd_dc]. apply (logical_touch _ _ _ _ _ HS Hi). }
    split.
    { split.
      - unfold SInv. cbn [dc lower upd_dc]. apply sinv_touch; assumption.
      - intros Hwt a' Ha'. rewrite (SL a' Ha'). apply (HW Hwt a' Ha'). }
    split; [reflexivity|]. split; [reflexivity|]. split; [exact SL|].
    split; [exact H14|]. intros a' Ha' E.
    assert (Hr: res_block (dc d) a' = Some (nthZ (blocks (get_set (dc d) (da_idx (cdecode (dc d) a)))) bi empty_block)).
    { apply (res_block_of _ _ _ bi a' HS Hi Hbi Hvo). rewrite E. symmetry. exact Hbao. }
    pose proof (blk_off _ _ a' HS Ha') as Ho. cbv zeta in Ho. destruct Ho as (_ & Hbo & _).
    split; [apply Hw; exact Hbo|].
    unfold logical, logicalC. rewrite Hr. reflexivity.
  - (* miss *)
    destruct (Z_le_gt_dec 16384 (da_balign (cdecode (dc d) a))) as [H14|H14].
    + destruct (read_block_lower _ _ a HS H14) as (v & Hr & Hvok & Hbytes).
      unfold block_words in H. rewrite Hr in H. rewrite cache_write_block_eq, Hf in H. cbv zeta in H.
      assert (Hfresh: forall a', in32b a' ->
                da_balign (cdecode (dc d) a') = da_balign (cdecode (dc d) a) ->
                byte_of (nthZ v (da_boff (cdecode (dc d) a')) 0) (da_byoff (cdecode (dc d) a')) =
                logicalC (dc d) (lower d) a').
      { intros a' Ha' E. rewrite (Hbytes a' Ha' E). unfold logicalC.
        rewrite (miss_block _ _ a a' HS Hf E). reflexivity. }
      assert (Hres: forall a', in32b a' ->
                da_balign (cdecode (dc d) a') = da_balign (cdecode (dc d) a) ->
                0 <= nthZ v (da_boff (cdecode (dc d) a')) 0 < 4294967296 /\
                byte_of (nthZ v (da_boff (cdecode (dc d) a')) 0) (da_byoff (cdecode (dc d) a')) = logical d a').
      { intros a' Ha' E. split; [|apply Hfresh; assumption].
        pose proof (blk_off _ _ a' HS Ha') as Ho. cbv zeta in Ho. destruct Ho as (_ & Hbo & _).
        apply Hvok. exact Hbo. }
      destruct (wthrough d) eqn:Hwt.
      * (* write-through: the displaced block is dropped *)
        destruct (fill_wt _ _ a v HS (HW eq_refl) Hf H14 Hvok) as [S' L'].
        set (c' := install (dc d) (da_idx (cdecode (dc d) a))
                     (pol_victim (policy (get_set (dc d) (da_idx (cdecode (dc d) a)))))
                     (mkblock (cdecode (dc d) a) v)) in *.
        assert (E': d' = upd_dc d c' /\ r = Ok (v, false)).
        { destruct (dirty _) in H; apply pair_eq in H; destruct H as [<- <-]; split; reflexivity. }
        destruct E' as [-> ->].
        assert (SL: same_logical d (upd_dc d c')).
        { intros a' Ha'. unfold logical. cbn [dc lower upd_dc]. rewrite (L' a' Ha').
          destruct (Z.eqb_spec (da_balign (cdecode (dc d) a')) (da_balign (cdecode (dc d) a))) as [E|]; [|reflexivity].
          apply Hfresh; assumption. }
        split.
        { split; [exact S'|]. intros _ a' Ha'. rewrite (SL a' Ha').
          apply (HW eq_refl a' Ha'). }
        split; [cbn [wthrough upd_dc]; exact Hwt|]. split; [reflexivity|]. split; [exact SL|].
        split; [exact H14 | exact Hres].
      * (* write-back *)
        destruct (fill_wb _ _ a v HS Hf H14 Hvok) as [S' L'].
        set (c' := install (dc d) (da_idx (cdecode (dc d) a))
                     (pol_victim (policy (get_set (dc d) (da_idx (cdecode (dc d) a)))))
                     (mkblock (cdecode (dc d) a) v)) in *.
        set (old := nthZ (blocks (get_set (dc d) (da_idx (cdecode (dc d) a))))
                      (pol_victim (policy (get_set (dc d) (da_idx (cdecode (dc d) a))))) empty_block) in *.
        assert (E': dc d' = c' /\ lower d' = (if dirty old then write_words (lower d) (baddr old) (vals old) else lower d)
                    /\ wthrough d' = false /\ r = Ok (v, false)).
        { destruct (dirty old) in H |- *; apply pair_eq in H; destruct H as [<- <-]; cbn [dc lower wthrough upd_dc upd_lower];
            repeat split; try reflexivity; exact Hwt. }
        destruct E' as (E1 & E2 & E3 & ->).
        assert (SL: same_logical d d').
        { intros a' Ha'. unfold logical. rewrite E1, E2. rewrite (L' a' Ha').
          destruct (Z.eqb_spec (da_balign (cdecode (dc d) a')) (da_balign (cdecode (dc d) a))) as [E|]; [|reflexivity].
          apply Hfresh; assumption. }
        split.
        { split; [unfold SInv; rewrite E1, E2; exact S'|]. rewrite E3. discriminate. }
        split; [exact E3|]. split; [rewrite E1; reflexivity|]. split; [exact SL|].
        split; [exact H14 | exact Hres].
    + unfold block_words in H. rewrite (read_block_lower_bad _ _ a HS) in H by lia.
      apply pair_eq in H; destruct H as [<- <-].
      split; [split; assumption|]. split; [reflexivity|]. split; [reflexivity|].
      split; [intros a' _; reflexivity|]. split; [lia|]. split; reflexivity.
Qed.

(** * Everything depends only on (dc, lower, wthrough) *)
Definition same_core (d1 d2 : dcache) : Prop :=
  dc d2 = dc d1 /\ lower d2 = lower d1 /\ wthrough d2 = wthrough d1.

Lemma core_logical d1 d2 a : same_core d1 d2 -> logical d2 a = logical d1 a.
Proof. intros (E1 & E2 & _). unfold logical. rewrite E1, E2. reflexivity. Qed.

Lemma core_cinv d1 d2 : same_core d1 d2 -> CInv d1 -> CInv d2.
Proof.
  intros (E1 & E2 & E3) [HS HW]. split.
  - unfold SInv. rewrite E1, E2. exact HS.
  - rewrite E3. intros Hwt a Ha. unfold logical. rewrite E1, E2. apply (HW Hwt a Ha).
Qed.

Lemma core_stats d hit (counted : bool) :
  same_core d (fst (if counted then upd_stats d hit else (d, 0))).
Proof. destruct counted; cbn [fst upd_stats]; repeat split; reflexivity. Qed.

Lemma core_upd_stats d hit : same_core d (fst (upd_stats d hit)).
Proof. repeat split; reflexivity. Qed.

(** * Addresses inside one word *)
Lemma cdecode_mod (c : cache Z) a : cdecode c (a mod 4294967296) = cdecode c a.
Proof. unfold cdecode. apply decode_mod. Qed.

Lemma byoff_eq (c : cache Z) m a : SInvC c m -> da_byoff (cdecode c a) = (a mod 4294967296) mod 4.
Proof.
  intros HS. unfold cdecode.
  destruct (decode_fields _ _ a (sinv_geom c m HS)) as (_ & _ & _ & _ & H & _). exact H.
Qed.

Lemma inword_addrs c m a j : SInvC c m -> 0 <= j -> da_byoff (cdecode c a) + j < 4 ->
  in32b (a mod 4294967296 + j) /\
  da_balign (cdecode c (a mod 4294967296 + j)) = da_balign (cdecode c a) /\
  da_boff (cdecode c (a mod 4294967296 + j)) = da_boff (cdecode c a) /\
  da_byoff (cdecode c (a mod 4294967296 + j)) = da_byoff (cdecode c a) + j.
Proof.
  intros HS Hj Hlt. unfold cdecode in *.
  destruct (decode_same_word _ _ a j (sinv_geom c m HS) Hj Hlt) as (Hm & _ & _ & Hba & Hbo & Hby).
  repeat split; try assumption; unfold in32b; lia.
Qed.

Lemma inword_range c m a : SInvC c m ->
  let x := a mod 4294967296 in
  x = da_balign (cdecode c a) + 4 * da_boff (cdecode c a) + da_byoff (cdecode c a) /\
  0 <= da_byoff (cdecode c a) < 4 /\
  x - da_byoff (cdecode c a) + 4 <= 4294967296 /\
  (16384 <= x <-> 16384 <= da_balign (cdecode c a)) /\
  (16384 <= x <-> 16384 <= x - da_byoff (cdecode c a)).
Proof.
  intros HS. cbv zeta. unfold cdecode.
  pose proof (sinv_geom c m HS) as G.
  destruct (decode_spec _ _ a G) as (Hx & Hbo & Hby & _ & _ & _ & H0 & Hhi & H14).
  pose proof (bsize_eq (bbits (cfg c)) ltac:(destruct G; lia)) as HB.
  pose proof (bsize_div14 (bbits (cfg c)) ltac:(destruct G; lia)) as HD.
  pose proof (p2pos (12 - bbits (cfg c)) ltac:(destruct G; lia)) as HK.
  repeat split; lia.
Qed.

Lemma inword_iff c m a a' k : SInvC c m -> in32b a' -> 0 <= k ->
  da_byoff (cdecode c a) + k <= 4 ->
  let x := a mod 4294967296 in
  (x <= a' < x + k ->
     da_balign (cdecode c a') = da_balign (cdecode c a) /\
     da_boff (cdecode c a') = da_boff (cdecode c a) /\
     da_byoff (cdecode c a') = da_byoff (cdecode c a) + (a' - x)) /\
  (da_balign (cdecode c a') = da_balign (cdecode c a) ->
   da_boff (cdecode c a') = da_boff (cdecode c a) ->
   a' - x = da_byoff (cdecode c a') - da_byoff (cdecode c a)).
Proof.
  intros HS Ha' Hk Hin. cbv zeta. split.
  - intros Hr. destruct (inword_addrs c m a (a' - a mod 4294967296) HS) as (_ & H1 & H2 & H3); try lia.
    replace (a mod 4294967296 + (a' - a mod 4294967296)) with a' in * by lia. tauto.
  - intros E1 E2. destruct (inword_range c m a HS) as (Hx & _).
    destruct (blk_off c m a' HS Ha') as (Hx' & _). lia.
Qed.

(** * dc_read *)
Lemma dc_read_ok d nbits a counted r d' p : CInv d -> okw nbits ->
  dc_read d nbits a counted = (r, d', p) ->
  let x := a mod 4294967296 in
  let o := da_byoff (cdecode (dc d) a) in
  let k := kof nbits in
  CInv d' /\ wthrough d' = wthrough d /\ cfg (dc d') = cfg (dc d) /\ same_logical d d' /\
  (o + Z.of_nat k <= 4 -> 16384 <= x -> r = Ok (le_bytes (logical d) x k)) /\
  (x < 16384 -> r = Err (aerr (da_balign (cdecode (dc d) a)))) /\
  (o + Z.of_nat k > 4 -> 16384 <= x -> r = Err (EOffset o (4 - Z.of_nat k))).
Proof.
  intros HC Hw H. cbv zeta. pose proof (cinv_sinv d HC) as HS.
  unfold dc_read in H.
  destruct (dc_read_block d (cdecode (dc d) a)) as [rb d1] eqn:Hrb.
  destruct (dc_read_block_ok d a rb d1 HC Hrb) as (HC1 & Hwt1 & Hcfg1 & SL1 & Hres).
  destruct (inword_range _ _ a HS) as (Hx & Ho & _ & H14 & _).
  destruct rb as [[blk hit]|e].
  - destruct Hres as [Hlo Hblk].
    pose proof (core_stats d1 hit counted) as Hcore.
    destruct (if counted then upd_stats d1 hit else (d1, 0)) as [d2 pen] eqn:Est.
    cbn [fst] in Hcore. apply pair_eq in H. destruct H as [H <-]. apply pair_eq in H. destruct H as [<- <-].
    split; [apply (core_cinv d1 d2 Hcore HC1)|].
    split; [destruct Hcore as (_ & _ & ->); exact Hwt1|].
    split; [destruct Hcore as (-> & _); exact Hcfg1|].
    split; [intros a' Ha'; rewrite (core_logical d1 d2 a' Hcore); apply SL1; exact Ha'|].
    assert (Hw0: 0 <= nthZ blk (da_boff (cdecode (dc d) a)) 0 < 4294967296).
    { destruct (Hblk (a mod 4294967296)) as [R _]; [unfold in32b; lia | rewrite cdecode_mod; reflexivity |].
      rewrite cdecode_mod in R. exact R. }
    split; [|split].
    + intros Hin _. rewrite from_block_in by (try assumption; lia). f_equal.
      apply le_bytes_ext. intros j Hj.
      destruct (inword_addrs _ _ a j HS) as (Ha' & E1 & E2 & E3); [lia | lia |].
      destruct (Hblk _ Ha' E1) as [_ B]. rewrite E2, E3 in B. exact B.
    + intros Hlt. lia.
    + intros Hcross _. apply from_block_cross; assumption.
  - destruct Hres as (Hlt & -> & ->). apply pair_eq in H. destruct H as [H <-].
    apply pair_eq in H. destruct H as [<- <-].
    split; [exact HC|]. split; [reflexivity|]. split; [reflexivity|].
    split; [intros a' _; reflexivity|].
    split; [intros _ Hge; lia|]. split; [intros _; reflexivity | intros _ Hge; lia].
Qed.

(** * In-word flat accesses (any map; only the touched cells matter) *)
Lemma inword_fits x k : 0 <= x < 4294967296 -> 0 <= k -> x mod 4 + k <= 4 -> x + k <= 4294967296.
Proof. intros. lia. Qed.

Lemma mem_write_inword m nbits a v : okw nbits ->
  let x := a mod 4294967296 in
  x mod 4 + Z.of_nat (kof nbits) <= 4 ->
  (16384 <= x ->
     snd (mem_write rv_memcfg m nbits a v) = None /\
     forall z, mget (fst (mem_write rv_memcfg m nbits a v)) z =
               if (x <=? z) && (z <? x + Z.of_nat (kof nbits)) then byte_of v (z - x) else mget m z) /\
  (x < 16384 -> mem_write rv_memcfg m nbits a v = (m, Some (aerr x))).
Proof.
  intros Hw. cbv zeta. intros Hin. destruct (okw_kof nbits Hw) as (Hn & Hk & _). split.
  - intros Hlo. apply (mem_write_loc m nbits (kof nbits) a v _ Hn eq_refl Hlo).
    apply inword_fits; lia.
  - intros Hlt. apply (mem_write_bad m nbits (kof nbits) a v _ Hn Hk eq_refl Hlt).
Qed.

Lemma mem_read_inword m nbits a : okw nbits ->
  let x := a mod 4294967296 in
  x mod 4 + Z.of_nat (kof nbits) <= 4 ->
  (16384 <= x -> (forall j, 0 <= j < Z.of_nat (kof nbits) -> 0 <= mget m (x + j) < 256) ->
     mem_read rv_memcfg m nbits a = Ok (le_bytes (mget m) x (kof nbits))) /\
  (x < 16384 -> mem_read rv_memcfg m nbits a = Err (aerr x)).
Proof.
  intros Hw. cbv zeta. intros Hin. destruct (okw_kof nbits Hw) as (Hn & Hk & _). split.
  - intros Hlo Hb. apply (mem_read_loc m nbits (kof nbits) a _ Hn eq_refl Hlo); [|exact Hb].
    apply inword_fits; lia.
  - intros Hlt. apply (mem_read_bad m nbits (kof nbits) a _ Hn Hk eq_refl Hlt).
Qed.

Lemma write_mult_bytes : forall k m a i v, bytes_ok m -> bytes_ok (fst (write_mult rv_memcfg m a k i v)).
Proof.
  induction k as [|k IH]; intros m a i v Hm; cbn [write_mult]; [exact Hm|].
  unfold write_cell. destruct (Mem.in_range rv_memcfg (eff_addr rv_memcfg (a + i))); [|exact Hm].
  apply IH. intros z. rewrite mget_mset. destruct (_ =? _); [|apply Hm].
  change (cw rv_memcfg) with 8. change (2 ^ 8 - 1) with 255. rewrite land_255. lia.
Qed.

Lemma mem_write_bytes m nbits a v : bytes_ok m -> bytes_ok (fst (mem_write rv_memcfg m nbits a v)).
Proof. apply write_mult_bytes. Qed.

(** * Merging a value into a fetched block *)
Lemma merged_formula c m a blk w' v k (L : Z -> Z) : SInvC c m -> 0 <= k ->
  da_byoff (cdecode c a) + k <= 4 ->
  Z.of_nat (length blk) = 2 ^ bbits (cfg c) ->
  (forall o', 0 <= o' < 4 ->
     byte_of w' o' = if (da_byoff (cdecode c a) <=? o') && (o' <? da_byoff (cdecode c a) + k)
                     then byte_of v (o' - da_byoff (cdecode c a))
                     else byte_of (nthZ blk (da_boff (cdecode c a)) 0) o') ->
  (forall a', in32b a' -> da_balign (cdecode c a') = da_balign (cdecode c a) ->
     byte_of (nthZ blk (da_boff (cdecode c a')) 0) (da_byoff (cdecode c a')) = L a') ->
  forall a', in32b a' ->
    (if da_balign (cdecode c a') =? da_balign (cdecode c a)
     then byte_of (nthZ (set_nthZ blk (da_boff (cdecode c a)) w') (da_boff (cdecode c a')) 0)
            (da_byoff (cdecode c a'))
     else L a') =
    (if (a mod 4294967296 <=? a') && (a' <? a mod 4294967296 + k)
     then byte_of v (a' - a mod 4294967296) else L a').
Proof.
  intros HS Hk Hin Hlen Hw' Hblk a' Ha'.
  destruct (inword_iff c m a a' k HS Ha' Hk Hin) as [I1 I2].
  destruct (inword_range c m a HS) as (_ & Ho & _).
  pose proof (blk_off c m a' HS Ha') as Hoff. cbv zeta in Hoff. destruct Hoff as (_ & Hbo' & Hby' & _).
  assert (Hbo: 0 <= da_boff (cdecode c a) < 2 ^ bbits (cfg c)).
  { unfold cdecode. destruct (decode_spec _ _ a (sinv_geom c m HS)) as (_ & H & _). exact H. }
  destruct (Z.eqb_spec (da_balign (cdecode c a')) (da_balign (cdecode c a))) as [E|Hne].
  - rewrite nthZ_set_nthZ by lia.
    destruct (Z.eqb_spec (da_boff (cdecode c a')) (da_boff (cdecode c a))) as [Eb|Nb].
    + rewrite (Hw' _ Hby'). specialize (I2 E Eb).
      destruct ((da_byoff (cdecode c a) <=? da_byoff (cdecode c a')) &&
                (da_byoff (cdecode c a') <? da_byoff (cdecode c a) + k)) eqn:Ec.
      * replace ((a mod 4294967296 <=? a') && (a' <? a mod 4294967296 + k)) with true by lia.
        f_equal. lia.
      * replace ((a mod 4294967296 <=? a') && (a' <? a mod 4294967296 + k)) with false by lia.
        rewrite <- Eb. apply Hblk; assumption.
    + replace ((a mod 4294967296 <=? a') && (a' <? a mod 4294967296 + k)) with false.
      * apply Hblk; assumption.
      * symmetry. apply not_true_is_false. intros Hc. apply Nb. apply I1. lia.
  - replace ((a mod 4294967296 <=? a') && (a' <? a mod 4294967296 + k)) with false; [reflexivity|].
    symmetry. apply not_true_is_false. intros Hc. apply Hne. apply I1. lia.
Qed.

Lemma merged_vals_ok c m a blk w' : SInvC c m -> vals_ok c blk -> 0 <= w' < 4294967296 ->
  vals_ok c (set_nthZ blk (da_boff (cdecode c a)) w').
Proof.
  intros HS [Hlen Hw] Hw'. split; [rewrite set_nthZ_length; exact Hlen|].
  assert (Hbo: 0 <= da_boff (cdecode c a) < 2 ^ bbits (cfg c)).
  { unfold cdecode. destruct (decode_spec _ _ a (sinv_geom c m HS)) as (_ & H & _). exact H. }
  intros j Hj. rewrite nthZ_set_nthZ by lia. destruct (j =? _); [exact Hw' | apply Hw; exact Hj].
Qed.

(* the words of a resident block are the logical contents of its addresses *)
Lemma hit_blk_formula c m a bi : SInvC c m ->
  find_block (blocks (get_set c (da_idx (cdecode c a)))) (da_tag (cdecode c a)) 0 = Some bi ->
  forall a', in32b a' -> da_balign (cdecode c a') = da_balign (cdecode c a) ->
    byte_of (nthZ (vals (nthZ (blocks (get_set c (da_idx (cdecode c a)))) bi empty_block))
               (da_boff (cdecode c a')) 0) (da_byoff (cdecode c a')) = logicalC c m a'.
Proof.
  intros HS Hf a' Ha' E.
  destruct (find_hit_facts c m a bi HS Hf) as (Hbi & Hvo & _ & _ & Hbao & _).
  unfold logicalC.
  rewrite (res_block_of c m _ bi a' HS (sinv_idx c m a HS) Hbi Hvo); [reflexivity|].
  rewrite E. symmetry. exact Hbao.
Qed.

(** * dc_write: what every variant guarantees *)
Definition write_post (d : dcache) (nbits a v : Z) (e : option err) (d' : dcache) : Prop :=
  let x := a mod 4294967296 in
  let o := da_byoff (cdecode (dc d) a) in
  let k := Z.of_nat (kof nbits) in
  CInv d' /\ wthrough d' = wthrough d /\ cfg (dc d') = cfg (dc d) /\
  (o + k <= 4 -> 16384 <= x ->
     e = None /\
     forall a', in32b a' ->
       logical d' a' = if (x <=? a') && (a' <? x + k) then byte_of v (a' - x) else logical d a') /\
  (o + k <= 4 -> x < 16384 ->
     e = Some (aerr (if wthrough d then x else da_balign (cdecode (dc d) a))) /\ same_logical d d') /\
  (o + k > 4 ->
     same_logical d d' /\ exists e0, e = Some e0 /\ (16384 <= x -> e0 = EOffset o (4 - k))).

Lemma dc_write_wt_eq d nbits a v : wthrough d = true ->
  dc_write d nbits a v false =
  let da := cdecode (dc d) a in
  if (nbits =? 16) && (da_byoff da >? 2) then (Some (EOffset (da_byoff da) 2), d, 0)
  else if (nbits =? 32) && negb (da_byoff da =? 0) then (Some (EOffset (da_byoff da) 0), d, 0)
  else
    match cache_read_block (dc d) da with
    | (ob, c1) =>
        let d1 := upd_dc d c1 in
        let hit := match ob with Some _ => true | None => false end in
        let '(d2, pen) := upd_stats d1 hit in
        let merged :=
          match ob with
          | Some blk =>
              match into_block nbits da blk v with
              | Ok blk' => let '(_, _, c2) := cache_write_block (dc d2) da blk' in Ok (upd_dc d2 c2)
              | Err e => Err e
              end
          | None => Ok d2
          end in
        match merged with
        | Err e => (Some e, d2, pen)
        | Ok d3 => let '(m', e) := mem_write rv_memcfg (lower d3) nbits a v in (e, upd_lower d3 m', pen)
        end
    end.
Proof. intros H. unfold dc_write. rewrite H. reflexivity. Qed.

Lemma dc_write_wb_eq d nbits a v : wthrough d = false ->
  dc_write d nbits a v false =
  let da := cdecode (dc d) a in
    match cache_read_block (dc d) da with
    | (ob, c1) =>
        let d1 := upd_dc d c1 in
        let hit := match ob with Some _ => true | None => false end in
        let fetched := match ob with
                       | Some blk => Ok blk
                       | None => read_words (lower d1) (da_balign da) (block_words d1)
                       end in
        match fetched with
        | Err e => (Some e, d1, 0)
        | Ok blk =>
            match into_block nbits da blk v with
            | Err e => (Some e, d1, 0)
            | Ok blk' =>
                let '(_, displaced, c2) := cache_write_block (dc d1) da blk' in
                let d2 := upd_dc d1 c2 in
                let d3 := match displaced with
                          | Some (ba, ws) => upd_lower d2 (write_words (lower d2) ba ws)
                          | None => d2
                          end in
                let '(d4, pen) := upd_stats d3 hit in
                (None, d4, pen)
            end
        end
    end.
Proof. intros H. unfold dc_write. rewrite H. reflexivity. Qed.

Lemma find_touch (c : cache Z) m a bi r : SInvC c m ->
  find_block (blocks (get_set c (da_idx (cdecode c a)))) (da_tag (cdecode c a)) 0 = r ->
  find_block (blocks (get_set (touch c (da_idx (cdecode c a)) bi)
                        (da_idx (cdecode (touch c (da_idx (cdecode c a)) bi) a))))
             (da_tag (cdecode (touch c (da_idx (cdecode c a)) bi) a)) 0 = r.
Proof.
  intros HS Hf. change (cdecode (touch c (da_idx (cdecode c a)) bi) a) with (cdecode c a).
  pose proof (sinv_idx c m a HS) as Hi. destruct HS as (_ & H2 & _).
  rewrite get_touch by lia. exact Hf.
Qed.

(* hit + merge, shared by write-through and write-back: touch, then replace the block *)
Lemma write_hit_ok c m nbits a v bi : SInvC c m -> okw nbits -> 0 <= v < 2 ^ nbits ->
  da_byoff (cdecode c a) + Z.of_nat (kof nbits) <= 4 ->
  find_block (blocks (get_set c (da_idx (cdecode c a)))) (da_tag (cdecode c a)) 0 = Some bi ->
  let c1 := touch c (da_idx (cdecode c a)) bi in
  let old := nthZ (blocks (get_set c (da_idx (cdecode c a)))) bi empty_block in
  exists blk',
    into_block nbits (cdecode c a) (vals old) v = Ok blk' /\
    cache_write_block c1 (cdecode c a) blk' =
      (true, None, install c1 (da_idx (cdecode c a)) bi (mkblock (cdecode c a) blk')) /\
    let c2 := install c1 (da_idx (cdecode c a)) bi (mkblock (cdecode c a) blk') in
    SInvC c2 m /\ 16384 <= a mod 4294967296 /\
    forall a', in32b a' ->
      logicalC c2 m a' =
      if (a mod 4294967296 <=? a') && (a' <? a mod 4294967296 + Z.of_nat (kof nbits))
      then byte_of v (a' - a mod 4294967296) else logicalC c m a'.
Proof.
  intros HS Hw Hv Hin Hf. cbv zeta.
  destruct (find_hit_facts c m a bi HS Hf) as (Hbi & Hvo & _ & _ & _ & H14 & Hvals & _).
  pose proof (sinv_idx c m a HS) as Hi.
  destruct (inword_range c m a HS) as (_ & Ho & _ & Hx14 & _).
  set (old := nthZ (blocks (get_set c (da_idx (cdecode c a)))) bi empty_block) in *.
  destruct (into_block_in nbits (cdecode c a) (vals old) v Hw ltac:(lia) Hin Hv) as (w' & Hib & Hw'r & Hw'b).
  exists (set_nthZ (vals old) (da_boff (cdecode c a)) w'). split; [exact Hib|].
  pose proof (sinv_touch c m _ bi HS Hi Hbi) as HS1.
  pose proof (find_touch c m a bi _ HS Hf) as Hf1.
  set (c1 := touch c (da_idx (cdecode c a)) bi) in *.
  split.
  { rewrite cache_write_block_eq. change (cdecode c1 a) with (cdecode c a) in Hf1. rewrite Hf1. reflexivity. }
  pose proof (merged_vals_ok c m a (vals old) w' HS Hvals Hw'r) as Hvals'.
  destruct (hit_update c1 m a bi _ HS1 Hf1 Hvals') as [HS2 L2].
  change (cdecode c1 a) with (cdecode c a) in HS2, L2.
  split; [exact HS2|]. split; [lia|].
  intros a' Ha'. rewrite (L2 a' Ha'). change (cdecode c1 a') with (cdecode c a').
  assert (LT: logicalC c1 m a' = logicalC c m a') by (apply (logical_touch c m _ bi a' HS Hi)).
  rewrite LT.
  rewrite (merged_formula c m a (vals old) w' v (Z.of_nat (kof nbits)) (logicalC c m) HS ltac:(lia) Hin
             (proj1 Hvals) Hw'b (hit_blk_formula c m a bi HS Hf) a' Ha').
  reflexivity.
Qed.

Lemma in32b_unfold a : in32b a <-> 0 <= a < 4294967296.
Proof. reflexivity. Qed.

(* a successful in-word write to lower memory under an unchanged cache, block not resident *)
Lemma lower_write_miss c m m' a k v : SInvC c m ->
  find_block (blocks (get_set c (da_idx (cdecode c a)))) (da_tag (cdecode c a)) 0 = None ->
  0 <= k -> da_byoff (cdecode c a) + k <= 4 ->
  (forall z, mget m' z = if (a mod 4294967296 <=? z) && (z <? a mod 4294967296 + k)
                         then byte_of v (z - a mod 4294967296) else mget m z) ->
  forall a', in32b a' ->
    logicalC c m' a' = if (a mod 4294967296 <=? a') && (a' <? a mod 4294967296 + k)
                       then byte_of v (a' - a mod 4294967296) else logicalC c m a'.
Proof.
  intros HS Hf Hk Hin Hm' a' Ha'. rewrite (logical_lower c m m' a').
  destruct (inword_iff c m a a' k HS Ha' Hk Hin) as [I1 _].
  destruct ((a mod 4294967296 <=? a') && (a' <? a mod 4294967296 + k)) eqn:E.
  - destruct I1 as (E1 & _); [lia|]. rewrite (miss_block c m a a' HS Hf E1). rewrite Hm', E. reflexivity.
  - destruct (res_block c a') eqn:Er; [reflexivity|]. rewrite Hm', E. unfold logicalC. rewrite Er. reflexivity.
Qed.

Lemma dc_write_wt_ok d nbits a v e d' p : CInv d -> okw nbits -> 0 <= v < 2 ^ nbits ->
  wthrough d = true ->
  dc_write d nbits a v false = (e, d', p) -> write_post d nbits a v e d'.
Proof.
  intros HC Hw Hv Hwt H. pose proof (cinv_sinv d HC) as HS. pose proof HC as [_ HW]. specialize (HW Hwt).
  rewrite (dc_write_wt_eq d nbits a v Hwt) in H. cbv zeta in H.
  destruct (inword_range _ _ a HS) as (Hx & Ho & _ & H14 & _).
  destruct (okw_kof nbits Hw) as (Hn & Hk & _).
  pose proof (wt_precheck nbits (da_byoff (cdecode (dc d) a)) Hw Ho) as Hpre.
  pose proof (byoff_eq _ _ a HS) as Hbo.
  unfold write_post. cbv zeta. rewrite Hwt.
  destruct (Z_le_gt_dec (da_byoff (cdecode (dc d) a) + Z.of_nat (kof nbits)) 4) as [Hin|Hcross].
  - (* inside one word *)
    destruct ((nbits =? 16) && (da_byoff (cdecode (dc d) a) >? 2)) eqn:P1; [exfalso; lia|].
    destruct ((nbits =? 32) && negb (da_byoff (cdecode (dc d) a) =? 0)) eqn:P2; [exfalso; lia|].
    rewrite cache_read_block_eq in H.
    destruct (find_block (blocks (get_set (dc d) (da_idx (cdecode (dc d) a)))) (da_tag (cdecode (dc d) a)) 0)
      as [bi|] eqn:Hf.
    + (* hit *)
      destruct (write_hit_ok _ _ nbits a v bi HS Hw Hv Hin Hf) as (blk' & Hib & Hcw & HS2 & Hlo & L2).
      unfold upd_stats in H. cbv beta iota zeta in H. cbn [dc upd_dc] in H.
      rewrite Hib, Hcw in H. cbn [lower upd_dc] in H.
      destruct (mem_write_inword (lower d) nbits a v Hw) as [Wok _]; [lia|].
      destruct (Wok Hlo) as [We Wm]. clear Wok.
      pose proof (mem_write_bytes (lower d) nbits a v (sinv_bytes _ _ HS)) as Wb.
      destruct (mem_write rv_memcfg (lower d) nbits a v) as [m' e'] eqn:Emw. cbn [fst snd] in We, Wm, Wb.
      apply pair_eq in H. destruct H as [H <-]. apply pair_eq in H. destruct H as [<- <-].
      set (c2 := install (touch (dc d) (da_idx (cdecode (dc d) a)) bi) (da_idx (cdecode (dc d) a)) bi
                   (mkblock (cdecode (dc d) a) blk')) in *.
      assert (LF: forall a', in32b a' ->
                logicalC c2 m' a' =
                if (a mod 4294967296 <=? a') && (a' <? a mod 4294967296 + Z.of_nat (kof nbits))
                then byte_of v (a' - a mod 4294967296) else logicalC (dc d) (lower d) a').
      { intros a' Ha'. rewrite (logical_lower c2 (lower d) m' a'). destruct (res_block c2 a').
        - apply L2; exact Ha'.
        - rewrite Wm. destruct ((a mod 4294967296 <=? a') && _); [reflexivity|]. apply HW. exact Ha'. }
      split.
      { split.
        - unfold SInv. cbn [dc lower upd_lower upd_dc]. apply (sinv_lower _ _ _ HS2 Wb).
        - intros _ a' Ha'. unfold logical. cbn [dc lower upd_lower upd_dc].
          rewrite (LF a' Ha'), Wm. destruct ((a mod 4294967296 <=? a') && _); [reflexivity|]. apply HW. exact Ha'. }
      split; [cbn [wthrough upd_lower upd_dc]; exact Hwt|]. split; [reflexivity|].
      split; [|split; [intros _ Hlt; exfalso; lia | intros Hc; exfalso; lia]].
      intros _ _. split; [exact We|]. intros a' Ha'. unfold logical. cbn [dc lower upd_lower upd_dc].
      apply LF; exact Ha'.
    + (* miss *)
      unfold upd_stats in H. cbv beta iota zeta in H. cbn [lower upd_dc] in H.
      pose proof (mem_write_bytes (lower d) nbits a v (sinv_bytes _ _ HS)) as Wb.
      destruct (mem_write_inword (lower d) nbits a v Hw) as [Wok Wbad]; [lia|].
      destruct (mem_write rv_memcfg (lower d) nbits a v) as [m' e'] eqn:Emw. cbn [fst snd] in Wok, Wb.
      apply pair_eq in H. destruct H as [H <-]. apply pair_eq in H. destruct H as [<- <-].
      destruct (Z_le_gt_dec 16384 (a mod 4294967296)) as [Hlo|Hlt].
      * destruct (Wok Hlo) as [We Wm].
        pose proof (lower_write_miss _ _ m' a (Z.of_nat (kof nbits)) v HS Hf ltac:(lia) Hin Wm) as LF.
        split.
        { split.
          - unfold SInv. cbn [dc lower upd_lower upd_dc]. apply (sinv_lower _ _ _ HS Wb).
          - intros _ a' Ha'. unfold logical. cbn [dc lower upd_lower upd_dc].
            rewrite (LF a' Ha'), Wm. destruct ((a mod 4294967296 <=? a') && _); [reflexivity|]. apply HW. exact Ha'. }
        split; [cbn [wthrough upd_lower upd_dc]; exact Hwt|]. split; [reflexivity|].
        split; [|split; [intros _ Hlt; exfalso; lia | intros Hc; exfalso; lia]].
        intros _ _. split; [exact We|]. intros a' Ha'. unfold logical. cbn [dc lower upd_lower upd_dc].
        apply LF; exact Ha'.
      * pose proof (Wbad ltac:(lia)) as Eb. apply pair_eq in Eb. destruct Eb as [-> ->].
        split; [exact (core_cinv d _ (conj eq_refl (conj eq_refl eq_refl)) HC)|].
        split; [exact Hwt|]. split; [reflexivity|].
        split; [intros _ Hge; exfalso; lia|]. split; [|intros Hc; exfalso; lia].
        intros _ _. split; [reflexivity|]. intros a' _. reflexivity.
  - (* across a word boundary: rejected before anything happens *)
    assert (Hor: (nbits =? 16) && (da_byoff (cdecode (dc d) a) >? 2) = true \/
                 (nbits =? 32) && negb (da_byoff (cdecode (dc d) a) =? 0) = true) by (apply Hpre; exact Hcross).
    assert (He: e = Some (EOffset (da_byoff (cdecode (dc d) a)) (4 - Z.of_nat (kof nbits))) /\ d' = d).
    { destruct ((nbits =? 16) && (da_byoff (cdecode (dc d) a) >? 2)) eqn:P1.
      - apply pair_eq in H. destruct H as [H _]. apply pair_eq in H. destruct H as [<- <-].
        apply andb_true_iff in P1. destruct P1 as [P1 _]. apply Z.eqb_eq in P1. subst nbits.
        split; reflexivity.
      - destruct Hor as [Hor|Hor]; [discriminate|]. rewrite Hor in H.
        apply pair_eq in H. destruct H as [H _]. apply pair_eq in H. destruct H as [<- <-].
        apply andb_true_iff in Hor. destruct Hor as [P2 _]. apply Z.eqb_eq in P2. subst nbits.
        split; reflexivity. }
    destruct He as [-> ->].
    split; [exact HC|]. split; [exact Hwt|]. split; [reflexivity|].
    split; [intros Hc; exfalso; lia|]. split; [intros Hc; exfalso; lia|].
    intros _. split; [intros a' _; reflexivity|]. eexists. split; [reflexivity|]. intros _. reflexivity.
Qed.

Lemma dc_write_wb_ok d nbits a v e d' p : CInv d -> okw nbits -> 0 <= v < 2 ^ nbits ->
  wthrough d = false ->
  dc_write d nbits a v false = (e, d', p) -> write_post d nbits a v e d'.
Proof.
  intros HC Hw Hv Hwt H. pose proof (cinv_sinv d HC) as HS.
  rewrite (dc_write_wb_eq d nbits a v Hwt) in H. cbv zeta in H.
  destruct (inword_range _ _ a HS) as (Hx & Ho & _ & H14 & _).
  destruct (okw_kof nbits Hw) as (Hn & Hk & _).
  pose proof (sinv_idx _ _ a HS) as Hi.
  unfold write_post. cbv zeta. rewrite Hwt.
  rewrite cache_read_block_eq in H.
  destruct (find_block (blocks (get_set (dc d) (da_idx (cdecode (dc d) a)))) (da_tag (cdecode (dc d) a)) 0)
    as [bi|] eqn:Hf.
  - (* hit *)
    cbv beta iota in H. cbn [dc upd_dc] in H.
    destruct (find_hit_facts _ _ a bi HS Hf) as (Hbi & _ & _ & _ & _ & Hlo & _).
    destruct (Z_le_gt_dec (da_byoff (cdecode (dc d) a) + Z.of_nat (kof nbits)) 4) as [Hin|Hcross].
    + destruct (write_hit_ok _ _ nbits a v bi HS Hw Hv Hin Hf) as (blk' & Hib & Hcw & HS2 & _ & L2).
      rewrite Hib, Hcw in H. unfold upd_stats in H. cbv beta iota zeta in H.
      apply pair_eq in H. destruct H as [H <-]. apply pair_eq in H. destruct H as [<- <-].
      split.
      { split; [exact HS2|]. cbn [wthrough upd_dc]. rewrite Hwt. discriminate. }
      split; [exact Hwt|]. split; [reflexivity|].
      split; [|split; [intros _ Hlt; exfalso; lia | intros Hc; exfalso; lia]].
      intros _ _. split; [reflexivity|]. exact L2.
    + rewrite (into_block_cross nbits _ _ v Hw Ho Hcross) in H.
      apply pair_eq in H. destruct H as [H <-]. apply pair_eq in H. destruct H as [<- <-].
      assert (SL: same_logical d (upd_dc d (touch (dc d) (da_idx (cdecode (dc d) a)) bi))).
      { intros a' Ha'. unfold logical. cbn [dc lower upd_dc]. apply (logical_touch _ _ _ _ _ HS Hi). }
      split.
      { split; [apply sinv_touch; assumption|]. cbn [wthrough upd_dc]. rewrite Hwt. discriminate. }
      split; [exact Hwt|]. split; [reflexivity|].
      split; [intros Hc; exfalso; lia|]. split; [intros Hc; exfalso; lia|].
      intros _. split; [exact SL|]. eexists. split; [reflexivity|]. intros _. reflexivity.
  - (* miss *)
    cbv beta iota in H. cbn [dc lower upd_dc] in H. unfold block_words in H. cbn [dc upd_dc] in H.
    assert (Core: same_core d (upd_dc d (dc d))) by (repeat split; reflexivity).
    destruct (Z_le_gt_dec 16384 (da_balign (cdecode (dc d) a))) as [Hlo|Hlt].
    + destruct (read_block_lower _ _ a HS Hlo) as (blk & Hr & Hvok & Hbytes).
      rewrite Hr in H.
      destruct (Z_le_gt_dec (da_byoff (cdecode (dc d) a) + Z.of_nat (kof nbits)) 4) as [Hin|Hcross].
      * destruct (into_block_in nbits (cdecode (dc d) a) blk v Hw ltac:(lia) Hin Hv) as (w' & Hib & Hw'r & Hw'b).
        rewrite Hib in H. rewrite cache_write_block_eq, Hf in H. cbv zeta in H.
        pose proof (merged_vals_ok _ _ a blk w' HS Hvok Hw'r) as Hvals'.
        destruct (fill_wb _ _ a _ HS Hf Hlo Hvals') as [S' L'].
        set (blk' := set_nthZ blk (da_boff (cdecode (dc d) a)) w') in *.
        set (c' := install (dc d) (da_idx (cdecode (dc d) a))
                     (pol_victim (policy (get_set (dc d) (da_idx (cdecode (dc d) a)))))
                     (mkblock (cdecode (dc d) a) blk')) in *.
        set (old := nthZ (blocks (get_set (dc d) (da_idx (cdecode (dc d) a))))
                      (pol_victim (policy (get_set (dc d) (da_idx (cdecode (dc d) a))))) empty_block) in *.
        assert (E': e = None /\ dc d' = c' /\
                    lower d' = (if dirty old then write_words (lower d) (baddr old) (vals old) else lower d)
                    /\ wthrough d' = false).
        { destruct (dirty old) in H |- *; unfold upd_stats in H; cbv beta iota zeta in H;
            apply pair_eq in H; destruct H as [H _]; apply pair_eq in H; destruct H as [<- <-];
            cbn [dc lower wthrough upd_dc upd_lower]; repeat split; try reflexivity; exact Hwt. }
        destruct E' as (-> & E1 & E2 & E3).
        split.
        { split; [unfold SInv; rewrite E1, E2; exact S'|]. rewrite E3. discriminate. }
        split; [exact E3|]. split; [rewrite E1; reflexivity|].
        split; [|split; [intros _ Hc; exfalso; lia | intros Hc; exfalso; lia]].
        intros _ _. split; [reflexivity|]. intros a' Ha'. unfold logical. rewrite E1, E2.
        rewrite (L' a' Ha'). unfold blk'.
        apply (merged_formula _ _ a blk w' v (Z.of_nat (kof nbits)) (logicalC (dc d) (lower d)) HS ltac:(lia) Hin
                 (proj1 Hvok) Hw'b).
        -- intros a2 Ha2 E. rewrite (Hbytes a2 Ha2 E). unfold logicalC.
           rewrite (miss_block _ _ a a2 HS Hf E). reflexivity.
        -- exact Ha'.
      * rewrite (into_block_cross nbits _ _ v Hw Ho Hcross) in H.
        apply pair_eq in H. destruct H as [H <-]. apply pair_eq in H. destruct H as [<- <-].
        split; [exact (core_cinv d _ Core HC)|]. split; [exact Hwt|]. split; [reflexivity|].
        split; [intros Hc; exfalso; lia|]. split; [intros Hc; exfalso; lia|].
        intros _. split; [intros a' _; reflexivity|]. eexists. split; [reflexivity|]. intros _. reflexivity.
    + rewrite (read_block_lower_bad _ _ a HS ltac:(lia)) in H.
      apply pair_eq in H. destruct H as [H <-]. apply pair_eq in H. destruct H as [<- <-].
      split; [exact (core_cinv d _ Core HC)|]. split; [exact Hwt|]. split; [reflexivity|].
      split; [intros _ Hc; exfalso; lia|]. split.
      * intros _ _. split; [reflexivity|]. intros a' _. reflexivity.
      * intros _. split; [intros a' _; reflexivity|]. eexists. split; [reflexivity|].
        intros Hc. exfalso. lia.
Qed.

Lemma dc_write_ok d nbits a v e d' p : CInv d -> okw nbits -> 0 <= v < 2 ^ nbits ->
  dc_write d nbits a v false = (e, d', p) -> write_post d nbits a v e d'.
Proof.
  intros HC Hw Hv H. destruct (wthrough d) eqn:Hwt.
  - apply (dc_write_wt_ok d nbits a v e d' p HC Hw Hv Hwt H).
  - apply (dc_write_wb_ok d nbits a v e d' p HC Hw Hv Hwt H).
Qed.

(** * Direct (parser preload) writes *)
Lemma dc_write_direct_eq d nbits a v :
  dc_write d nbits a v true =
  (snd (mem_write rv_memcfg (lower d) nbits a v),
   upd_lower d (fst (mem_write rv_memcfg (lower d) nbits a v)), 0).
Proof. unfold dc_write. destruct (mem_write rv_memcfg (lower d) nbits a v). reflexivity. Qed.

(* the structural invariant survives ANY direct write (any width, any address, any outcome) *)
Lemma sinv_direct d nbits a v e d' p : SInv d -> dc_write d nbits a v true = (e, d', p) -> SInv d'.
Proof.
  intros HS H. rewrite dc_write_direct_eq in H. apply pair_eq in H. destruct H as [H _].
  apply pair_eq in H. destruct H as [_ <-]. unfold SInv. cbn [dc lower upd_lower].
  apply (sinv_lower _ _ _ HS). apply mem_write_bytes. apply (sinv_bytes _ _ HS).
Qed.

Lemma cinv_direct_wb d nbits a v e d' p : CInv d -> wthrough d = false ->
  dc_write d nbits a v true = (e, d', p) -> CInv d'.
Proof.
  intros [HS _] Hwt H. split; [apply (sinv_direct d nbits a v e d' p HS H)|].
  rewrite dc_write_direct_eq in H. apply pair_eq in H. destruct H as [H _].
  apply pair_eq in H. destruct H as [_ <-]. cbn [wthrough upd_lower]. rewrite Hwt. discriminate.
Qed.

Lemma res_none_find (c : cache Z) a : res_block c a = None ->
  find_block (blocks (get_set c (da_idx (cdecode c a)))) (da_tag (cdecode c a)) 0 = None.
Proof. unfold res_block. intros H. apply lookup_None in H. apply H. Qed.

(* guard: within one word and the block of a is not resident *)
Lemma dc_write_direct_ok d nbits a v e d' p : CInv d -> okw nbits ->
  da_byoff (cdecode (dc d) a) + Z.of_nat (kof nbits) <= 4 ->
  res_block (dc d) a = None ->
  dc_write d nbits a v true = (e, d', p) ->
  let x := a mod 4294967296 in
  CInv d' /\ wthrough d' = wthrough d /\ cfg (dc d') = cfg (dc d) /\
  (16384 <= x ->
     e = None /\
     forall a', in32b a' ->
       logical d' a' = if (x <=? a') && (a' <? x + Z.of_nat (kof nbits)) then byte_of v (a' - x)
                       else logical d a') /\
  (x < 16384 -> e = Some (aerr x) /\ same_logical d d').
Proof.
  intros HC Hw Hin Hres H. cbv zeta. pose proof (cinv_sinv d HC) as HS. pose proof HC as [_ HW].
  pose proof (res_none_find _ a Hres) as Hf.
  pose proof (byoff_eq _ _ a HS) as Hbo.
  rewrite dc_write_direct_eq in H.
  pose proof (mem_write_bytes (lower d) nbits a v (sinv_bytes _ _ HS)) as Wb.
  destruct (mem_write_inword (lower d) nbits a v Hw) as [Wok Wbad]; [lia|].
  destruct (mem_write rv_memcfg (lower d) nbits a v) as [m' e'] eqn:Emw. cbn [fst snd] in *.
  apply pair_eq in H. destruct H as [H <-]. apply pair_eq in H. destruct H as [<- <-].
  destruct (Z_le_gt_dec 16384 (a mod 4294967296)) as [Hlo|Hlt].
  - destruct (Wok Hlo) as [We Wm].
    pose proof (lower_write_miss _ _ m' a (Z.of_nat (kof nbits)) v HS Hf ltac:(lia) Hin Wm) as LF.
    split.
    { split.
      - unfold SInv. cbn [dc lower upd_lower]. apply (sinv_lower _ _ _ HS Wb).
      - cbn [wthrough upd_lower]. intros Hwt a' Ha'. unfold logical. cbn [dc lower upd_lower].
        rewrite (LF a' Ha'), Wm. destruct ((a mod 4294967296 <=? a') && _); [reflexivity|].
        apply (HW Hwt). exact Ha'. }
    split; [reflexivity|]. split; [reflexivity|].
    split; [|intros Hc; exfalso; lia].
    intros _. split; [exact We|]. intros a' Ha'. unfold logical. cbn [dc lower upd_lower].
    apply LF; exact Ha'.
  - pose proof (Wbad ltac:(lia)) as Eb. apply pair_eq in Eb. destruct Eb as [-> ->].
    split; [exact (core_cinv d _ (conj eq_refl (conj eq_refl eq_refl)) HC)|].
    split; [reflexivity|]. split; [reflexivity|].
    split; [intros Hc; exfalso; lia|]. intros _. split; [reflexivity|]. intros a' _. reflexivity.
Qed.

(** * Initial state *)
Lemma lookup_empty n t : lookup (repeat (@empty_block Z) n) t = None.
Proof.
  apply lookup_miss. intros k Hk. rewrite repeat_length in Hk. rewrite nthZ_repeat by lia. reflexivity.
Qed.

Lemma get_set_init c i : 0 <= i < 2 ^ ibits c -> get_set (cache_init c) i = empty_set Z c.
Proof. intros Hi. unfold get_set, cache_init. cbn [sets]. apply nthZ_repeat. lia. Qed.

Lemma sinv_init c m : cfg_ok c -> bytes_ok m -> SInvC (cache_init c) m.
Proof.
  intros Hc Hm. pose proof Hc as (Hib & Hbb & Hs & Ha & _). pose proof (p2pos (ibits c) Hib) as HP.
  unfold SInvC. change (cfg (cache_init c)) with c.
  split; [exact Hc|]. split.
  { unfold cache_init. cbn [sets]. rewrite repeat_length. lia. }
  split; [|exact Hm]. intros i Hi. rewrite get_set_init by exact Hi.
  unfold set_ok, empty_set. cbn [blocks policy].
  split; [rewrite repeat_length; lia|]. split; [apply pol_init_ok; exact Hc|]. split.
  - intros bi Hbi. rewrite nthZ_repeat by lia. split; [reflexivity|]. intros Hv. discriminate.
  - intros bi bj Hbi Hbj Hv. rewrite repeat_length in Hbi. rewrite nthZ_repeat in Hv by lia. discriminate.
Qed.

Lemma init_logical c m a : cfg_ok c -> logicalC (cache_init c) m a = mget m a.
Proof.
  intros Hc. unfold logicalC, res_block.
  pose proof (sinv_idx (cache_init c) [] a (sinv_init c [] Hc ltac:(intros k; cbv; split; [discriminate | reflexivity]))) as Hi.
  change (cfg (cache_init c)) with c in Hi. rewrite get_set_init by exact Hi.
  unfold empty_set. cbn [blocks]. rewrite lookup_empty. reflexivity.
Qed.

Lemma bytes_ok_nil : bytes_ok [].
Proof. intros k. rewrite mget_nil. lia. Qed.

Lemma cinv_init_proof c wt pen : cfg_ok c -> CInv (dcache_init c wt pen).
Proof.
  intros Hc. split.
  - apply (sinv_init c [] Hc bytes_ok_nil).
  - intros _ a Ha. unfold logical. cbn [dc lower dcache_init]. rewrite init_logical by exact Hc. reflexivity.
Qed.

Lemma cinv_init_lower_proof c wt pen m : cfg_ok c -> bytes_ok m ->
  CInv (upd_lower (dcache_init c wt pen) m) /\ Flat m (upd_lower (dcache_init c wt pen) m).
Proof.
  intros Hc Hm. split; [split|].
  - apply (sinv_init c m Hc Hm).
  - intros _ a Ha. unfold logical. cbn [dc lower dcache_init upd_lower]. rewrite init_logical by exact Hc. reflexivity.
  - intros a Ha. unfold logical. cbn [dc lower dcache_init upd_lower]. rewrite init_logical by exact Hc. reflexivity.
Qed.
