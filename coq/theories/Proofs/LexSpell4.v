(* LexSpell4.v — readable corollaries of rv_load_text_spelling: ABI/xN names, number bases, mnemonic case, layout
   and comments, for whole texts; closed examples. *)
From Coq Require Import String.
From Coq Require Import ZArith List Bool Lia.
From ArchSim Require Import Model.Base Model.Mem Model.Cache Model.Fmt Model.RV Model.Toy Model.Asm Model.Lex
  Proofs.LexProofs1 Proofs.LexProofs2 Proofs.LexProofs3 Proofs.LexProofs6 Proofs.LexProofs7 Proofs.LexProofs8
  Proofs.LexProofs9 Proofs.LexSpell1 Proofs.LexSpell2 Proofs.LexSpell3.
Import ListNotations.
Open Scope Z_scope.

(** * the relation with parameters: how registers / int(text,0) literals / int(text) literals may differ *)
Section G.
  Variables (Rr : regtok -> regtok -> Prop) (R0 R10 : str -> str -> Prop).
  Definition nvarG (a b : str * option str) : Prop := fst a = fst b /\ orel R10 (snd a) (snd b).
  Definition ntokG (i j : ntok) : Prop :=
    n_mn i = n_mn j /\
    orel Rr (n_rd i) (n_rd j) /\ orel Rr (n_rs1 i) (n_rs1 j) /\ orel Rr (n_rs2 i) (n_rs2 j) /\
    orel Rr (n_reg1 i) (n_reg1 j) /\ orel Rr (n_reg2 i) (n_reg2 j) /\ orel Rr (n_rs i) (n_rs j) /\
    orel R0 (n_imm i) (n_imm j) /\ orel R0 (n_csr i) (n_csr j) /\ orel R0 (n_uimm i) (n_uimm j) /\
    orel R0 (n_offset i) (n_offset j) /\
    n_label i = n_label j /\ orel nvarG (n_var i) (n_var j).
  Definition nlineG (a b : nline) : Prop :=
    match a, b with
    | NDirective d, NDirective d' => d = d'
    | NVarDecl n ty v, NVarDecl n' ty' v' => n = n' /\ ty = ty' /\ Forall2 R0 v v'
    | NStrDecl n s, NStrDecl n' s' => n = n' /\ s = s'
    | NZeroDecl n v, NZeroDecl n' v' => n = n' /\ R10 v v'
    | NLabelDecl n, NLabelDecl n' => n = n'
    | NInstr il b, NInstr il' b' =>
        il = il' /\ match b, b' with NStr k, NStr k' => k = k' | NIns i, NIns j => ntokG i j | _, _ => False end
    | _, _ => False
    end.
  (* two source lines: identical, or both lex to token lines related by nlineG *)
  Definition lineG (l l' : str) : Prop :=
    l = l' \/ exists n n', lex_line l = LexOk n /\ lex_line l' = LexOk n' /\ nlineG n n'.

  Hypothesis Hr : forall a b, Rr a b -> reg_eq a b.
  Hypothesis H0 : forall a b, R0 a b -> lit0_eq a b.
  Hypothesis H10 : forall a b, R10 a b -> lit10_eq a b.
  Lemma orel_mono {A} (P Q : A -> A -> Prop) : (forall a b, P a b -> Q a b) -> forall x y, orel P x y -> orel Q x y.
  Proof. intros H [x|] [y|]; cbn; auto. Qed.
  Lemma ntokG_rel i j : ntokG i j -> ntok_rel i j.
  Proof.
    intros (A1 & A2 & A3 & A4 & A5 & A6 & A7 & A8 & A9 & A10 & A11 & A12 & A13). unfold ntok_rel.
    repeat split; try assumption; try (eapply orel_mono; [|eassumption]; assumption).
    eapply orel_mono; [|exact A13]. intros [n a] [n' b] [E1 E2]. split; [exact E1|]. eapply orel_mono; [|exact E2]. exact H10.
  Qed.
  Lemma nlineG_rel a b : nlineG a b -> nline_rel a b.
  Proof.
    destruct a as [d|n ty v|n s|n v|n|il x], b as [d'|n' ty' v'|n' s'|n' v'|n'|il' y]; cbn; intros H; try contradiction; auto.
    - destruct H as (E1 & E2 & E3). repeat split; auto. clear - E3 H0. induction E3; constructor; auto.
    - destruct H as (E1 & E2). split; auto.
    - destruct H as (E1 & E2). split; [exact E1|]. destruct x, y; try contradiction; [exact E2|apply ntokG_rel, E2].
  Qed.
  Lemma lineG_rel l l' : lineG l l' -> line_rel l l'.
  Proof.
    intros [<-|(n & n' & E1 & E2 & H)]; [apply line_rel_of_eq; reflexivity|].
    unfold line_rel. rewrite E1, E2. apply nlineG_rel, H.
  Qed.
  Theorem load_G s ls ls' : Forall2 lineG ls ls' -> rv_load_text s ls = rv_load_text s ls'.
  Proof. intros H. apply rv_load_text_spelling. clear - H Hr H0 H10. induction H; constructor; [apply lineG_rel; assumption|assumption]. Qed.
End G.

(** * (1) ABI name <-> xN *)
Inductive reg_alt : regtok -> regtok -> Prop :=
| ra_same t : reg_alt t t
| ra_abi_x name n : In (name, n) abi_table -> reg_alt (RAbi name) (RX (str_dec n))
| ra_x_abi name n : In (name, n) abi_table -> reg_alt (RX (str_dec n)) (RAbi name)
| ra_abi_abi name name' n : In (name, n) abi_table -> In (name', n) abi_table -> reg_alt (RAbi name) (RAbi name').   (* s0 / fp *)
Lemma abi_range name n : In (name, n) abi_table -> 0 <= n < 32.
Proof.
  intros H. unfold abi_table in H. cbn [map fst snd] in H.
  repeat (destruct H as [H|H]; [inversion H; subst; lia|]). destruct H.
Qed.
Lemma reg_alt_eq a b : reg_alt a b -> reg_eq a b.
Proof.
  unfold reg_eq. intros [t|name n H|name n H|name name' n H H']; [reflexivity| | |].
  - rewrite (reg_num_abi _ _ H), (reg_num_x n (abi_range _ _ H)). reflexivity.
  - rewrite (reg_num_abi _ _ H), (reg_num_x n (abi_range _ _ H)). reflexivity.
  - rewrite (reg_num_abi _ _ H), (reg_num_abi _ _ H'). reflexivity.
Qed.
Definition regs_respelled := lineG reg_alt eq eq.
Theorem abi_xn_lem s ls ls' : Forall2 regs_respelled ls ls' -> rv_load_text s ls = rv_load_text s ls'.
Proof. apply load_G; [apply reg_alt_eq|intros a b ->; reflexivity|intros a b ->; reflexivity]. Qed.

(** * (2) number bases and signs: literals with the same value under the conversion the assembler applies *)
Definition numbers_respelled := lineG eq lit0_eq lit10_eq.
Theorem number_base_lem s ls ls' : Forall2 numbers_respelled ls ls' -> rv_load_text s ls = rv_load_text s ls'.
Proof. apply load_G; [intros a b ->; reflexivity|auto|auto]. Qed.

(** * (3) mnemonic case *)
Inductive case_variant : str -> str -> Prop :=
| cv_same l : case_variant l l
| cv_plain ind mn mn' post trail cmt :
    case_hyp mn mn' post -> rest_ok post = true ->
    all_space ind = true -> all_space trail = true -> is_comment cmt = true ->
    case_variant (ind ++ (mn ++ post) ++ trail ++ cmt) (ind ++ (mn' ++ post) ++ trail ++ cmt)
| cv_label ind c0 t0 w1 w2 mn mn' post trail cmt :
    case_hyp mn mn' post -> rest_ok post = true ->
    is_lab1 c0 = true -> forallb is_labn t0 = true ->
    blanks w1 = true -> blanks w2 = true -> no_tab (w1 ++ w2) = true ->
    all_space ind = true -> all_space trail = true -> is_comment cmt = true ->
    case_variant (ind ++ lline post c0 t0 w1 w2 mn ++ trail ++ cmt) (ind ++ lline post c0 t0 w1 w2 mn' ++ trail ++ cmt).
Lemma case_variant_eq l l' : case_variant l l' -> lex_line l = lex_line l'.
Proof.
  intros [l0|ind mn mn' post trail cmt H1 H2 H3 H4 H5|ind c0 t0 w1 w2 mn mn' post trail cmt H1 H2 H3 H4 H5 H6 H7 H8 H9 H10].
  - reflexivity.
  - apply lex_line_case; assumption.
  - apply lex_line_case_label; assumption.
Qed.
Lemma eq_lines_load s ls ls' : Forall2 (fun l l' => lex_line l = lex_line l') ls ls' -> rv_load_text s ls = rv_load_text s ls'.
Proof. intros H. apply rv_load_text_spelling. induction H; constructor; [apply line_rel_of_eq; assumption|assumption]. Qed.
Theorem mnemonic_case_lem s ls ls' : Forall2 case_variant ls ls' -> rv_load_text s ls = rv_load_text s ls'.
Proof. intros H. apply eq_lines_load. induction H; constructor; [apply case_variant_eq; assumption|assumption]. Qed.

(** * (4) layout and comments *)
Inductive layout_variant : str -> str -> Prop :=
| lv_same l : layout_variant l l
| lv_gap ind s1 ws s2 trail cmt :
    all_space ind = true -> all_space trail = true -> is_comment cmt = true -> blanks ws = true ->
    starts_nonspace s1 = true -> ends_nonspace s2 = true ->
    no_hash (s1 ++ s2) = true -> no_tab (s1 ++ s2) = true -> noquote s1 = true ->
    (sep (last s1 0) = true \/ hd_sep s2 = true) ->
    layout_variant (ind ++ (s1 ++ ws ++ s2) ++ trail ++ cmt) (s1 ++ s2)
| lv_outer ind l trail cmt :
    all_space ind = true -> all_space trail = true -> no_hash l = true -> is_comment cmt = true ->
    layout_variant (ind ++ l ++ trail ++ cmt) l
| lv_nothing l l' : lex_line l = LexSkip -> lex_line l' = LexSkip -> layout_variant l l'    (* blank / comment lines *)
| lv_sym l l' : layout_variant l l' -> layout_variant l' l
| lv_trans l l' l'' : layout_variant l l' -> layout_variant l' l'' -> layout_variant l l''.
Lemma layout_variant_eq l l' : layout_variant l l' -> lex_line l = lex_line l'.
Proof.
  induction 1 as [l|ind s1 ws s2 trail cmt H1 H2 H3 H4 H5 H6 H7 H8 H9 H10|ind l trail cmt H1 H2 H3 H4|l l' H1 H2|l l' _ IH|l l' l'' _ IH1 _ IH2].
  - reflexivity.
  - apply lex_layout; assumption.
  - apply lex_outer_layout; assumption.
  - congruence.
  - symmetry. exact IH.
  - congruence.
Qed.
Theorem layout_comments_lem s ls ls' : Forall2 layout_variant ls ls' -> rv_load_text s ls = rv_load_text s ls'.
Proof. intros H. apply eq_lines_load. induction H; constructor; [apply layout_variant_eq; assumption|assumption]. Qed.

(** * closed examples: a program with data, labels, pseudo-instructions, in two spellings *)
Definition S (x : string) : str := codes x.
Definition tab : str := [9].
Definition st0 : st := init_st [] (MFlat []) None.
Definition prog1 : list str :=
  [ S ".data"; S "tab: .word 10, -1, 0x10"; S "buf: .zero 2"; S ""; S ".text";
    S "main: la a0, tab"; S "loop: lw t0, tab[1]"; S "addi t0, t0, -16"; S "li t1, 0x12345"; S "sw t0, buf[1], t2";
    S "beq t0, zero, end"; S "jal ra, loop+0x4"; S "end: mv a1, fp"; S "ecall" ].
Definition prog2 : list str :=
  [ S "   .data   # data"; S "tab:.word 0xA , -0b1, 16"; S "buf: .zero 02"; S "# text follows"; tab ++ S ". text";
    S "main:  LA x10, tab"; S "loop: LW x5,tab[01]   # load"; S "  ADDI x5, x5, -0x10"; S "Li x6, 74565";
    S "sw x5 , buf[1] , x7"; S "BEQ x5, x0, end"; S "jal x1, loop + 0x4"; S "end: MV x11,s0"; tab ++ S "ECALL  " ].

Example ex_spelling_check : spelling_check prog1 prog2 = true.
Proof. vm_compute. reflexivity. Qed.
Example ex_spelling_load : rv_load_text st0 prog1 = rv_load_text st0 prog2.
Proof. apply rv_load_text_spelling, spelling_check_ok, ex_spelling_check. Qed.
(* the load is a successful one: 15 instructions, three labels, two variables, 20 data bytes *)
Example ex_spelling_value :
  (let '(s', e, img) := rv_load_text st0 prog1 in
   (e, option_map (fun i => (List.length (i_instrs i), i_labels i, i_vars i)) img)) =
  (None, Some (15%nat, [(3, 0); (4, 8); (5, 52)], [(1, (16384, 4)); (2, (16396, 4))])).
Proof. vm_compute. reflexivity. Qed.
(* the same with an error: both texts fail with the same error on the same line *)
Example ex_spelling_error :
  rv_load_text st0 [S "nop"; S "li a0, 0x1"; S "beq a0, x0, nowhere"] =
  rv_load_text st0 [S "NOP # x"; S "  li x10, 1"; S "BEQ x10,zero,nowhere"] /\
  snd (fst (rv_load_text st0 [S "nop"; S "li a0, 0x1"; S "beq a0, x0, nowhere"])) = Some (PLabel 3).
Proof. split; [apply rv_load_text_spelling, spelling_check_ok; vm_compute; reflexivity|vm_compute; reflexivity]. Qed.
(* a register name in a NAME position is a name: there the two spellings are different programs *)
Example ex_name_position :
  spelling_check [S ".data"; S "a0: .word 1"; S ".text"; S "lw t0, a0"] [S ".data"; S "a0: .word 1"; S ".text"; S "lw t0, x10"] = false /\
  snd (fst (rv_load_text st0 [S ".data"; S "a0: .word 1"; S ".text"; S "lw t0, a0"])) = None /\
  snd (fst (rv_load_text st0 [S ".data"; S "a0: .word 1"; S ".text"; S "lw t0, x10"])) = Some (PVariable 4).
Proof. vm_compute. repeat split; reflexivity. Qed.
