(* C01Step.v — one single-cycle step of the model refines one step of the reference *)
From Coq Require Import Lia ZifyBool.
From ArchSim Require Import Model.Base Model.Mem Model.Cache Model.Fmt Model.RV Model.Single
  Spec.RV32IM Proofs.WordLemmas Proofs.MapLemmas Proofs.C01Arith Proofs.C01Mem.
Open Scope Z_scope.
Local Arguments Z.mul : simpl never.
Local Arguments Z.add : simpl never.
Local Arguments Z.pow : simpl never.
Local Arguments Z.div : simpl never.
Local Arguments Z.modulo : simpl never.
Local Arguments Z.land : simpl never.
Local Arguments Z.sub : simpl never.

Definition reg_ok (r : Z) : Prop := 0 <= r < 32.

Definition wf_instr (i : instr) : Prop :=
  match i with
  | IR _ rd rs1 rs2 => reg_ok rd /\ reg_ok rs1 /\ reg_ok rs2
  | II _ rd rs1 imm | ILoad _ rd rs1 imm | IJalr rd rs1 imm =>
      reg_ok rd /\ reg_ok rs1 /\ -2048 <= imm < 2048
  | ISh _ rd rs1 sh => reg_ok rd /\ reg_ok rs1 /\ 0 <= sh < 32
  | IStore _ rs1 rs2 imm => reg_ok rs1 /\ reg_ok rs2 /\ -2048 <= imm < 2048
  | IBranch _ rs1 rs2 imm => reg_ok rs1 /\ reg_ok rs2 /\ -4096 <= imm < 4096
  | ILui rd imm | IAuipc rd imm => reg_ok rd /\ -524288 <= imm < 524288
  | IJal rd imm _ => reg_ok rd /\ -1048576 <= imm < 1048576
  | _ => True
  end.

Definition wf_regs (r : zmap) : Prop := (forall k, in32 (mget r k)) /\ mget r 0 = 0.

Definition abs (s : st) : arch :=
  {| apc := wrap (pc s); areg := regs s; amem := ms_lower (ms s); aout := out s; aexit := exitc s |}.

Record wf (s : st) : Prop := {
  wf_r : wf_regs (regs s);
  wf_m : wf_mem (ms_lower (ms s));
  wf_flat : exists m, ms s = MFlat m;
  wf_noic : icc (im s) = None;
  wf_pc : -2097152 < pc s < 4294967296;
  wf_prog : Forall wf_instr (prog (im s));
  wf_len : Z.of_nat (length (prog (im s))) <= 4096 }.

(* how run-time errors of the model correspond to reference faults *)
Definition fault_rel (e : err) (f : option sfault) : Prop :=
  match e, f with
  | EAddr a 16384 4294967295 false, Some (SFAddr a') => a = a'
  | EEcall c, Some (SFEcall c') => c = c'
  | ENotImpl, Some SFUnsupported => True
  | EOther 99, Some SFUnsupported => True
  | EOther 4, Some SFFuel => True
  | _, _ => False
  end.

(** memory accesses through a flat memory system leave the rest of the state alone *)
Lemma st_read_flat s m nb a c : ms s = MFlat m -> st_read s nb a c = (mem_read rv_memcfg m nb a, s).
Proof.
  intros H. unfold st_read, ms_read. rewrite H. f_equal.
  destruct s; cbn in *; subst. rewrite Z.add_0_r. reflexivity.
Qed.

Lemma st_write_flat s m nb a v d : ms s = MFlat m ->
  st_write s nb a v d = (snd (mem_write rv_memcfg m nb a v), with_ms s (MFlat (fst (mem_write rv_memcfg m nb a v)))).
Proof.
  intros H. unfold st_write, ms_write. rewrite H.
  destruct (mem_write rv_memcfg m nb a v) as [m' e]. cbn [fst snd]. f_equal.
  destruct s; cbn in *. rewrite Z.add_0_r. reflexivity.
Qed.

Lemma wrap_small z : 0 <= z < 4294967296 -> wrap z = z.
Proof. intros; unfold wrap; lia. Qed.

Lemma arch_eq a b : apc a = apc b -> areg a = areg b -> amem a = amem b -> aout a = aout b ->
  aexit a = aexit b -> a = b.
Proof. destruct a, b; cbn; intros; subst; reflexivity. Qed.

Lemma abs_rset s rd v : reg_ok rd -> abs (rset s rd v) = wr_reg (abs s) rd v.
Proof.
  unfold reg_ok, rset, wr_reg. intros H.
  destruct (rd =? 0) eqn:E.
  - apply Z.eqb_eq in E; subst. reflexivity.
  - replace ((0 <? rd) && (rd <? 32)) with true by lia. reflexivity.
Qed.

Lemma wf_regs_set r rd v : wf_regs r -> in32 v -> 0 < rd -> wf_regs (mset r rd v).
Proof.
  intros [H1 H2] Hv Hrd. split.
  - intros k. rewrite mget_mset. destruct (_ =? _); [assumption | apply H1].
  - rewrite mget_mset_neq by lia. assumption.
Qed.

Lemma wf_rset s rd v : wf s -> in32 v -> wf (rset s rd v).
Proof.
  intros W Hv. unfold rset. destruct ((0 <? rd) && (rd <? 32)) eqn:E; [|assumption].
  destruct W. constructor; cbn; try assumption.
  apply wf_regs_set; try assumption. lia.
Qed.

Lemma wf_with_pc s p : wf s -> -2097152 < p < 4294967296 -> wf (with_pc s p).
Proof. intros W Hp. destruct W. constructor; cbn; assumption. Qed.

Lemma rget_in32 s r : wf s -> in32 (rget s r).
Proof. intros W. apply (wf_r s W). Qed.

Lemma pc_rset s rd v : pc (rset s rd v) = pc s.
Proof. unfold rset. destruct (_ && _); reflexivity. Qed.
Lemma im_rset s rd v : im (rset s rd v) = im s.
Proof. unfold rset. destruct (_ && _); reflexivity. Qed.

(** the ecall service table *)
Lemma cstring_refines f : forall s m a acc, ms s = MFlat m -> wf_mem m ->
  read_cstring f s a acc =
  (match spec_cstring f m a with
   | CsOk t => Ok (acc ++ t)
   | CsFault x => Err (aerr x)
   | CsFuel => Err (EOther 4)
   end, s).
Proof.
  induction f as [|f IH]; intros s m a acc Hms Hm; cbn [read_cstring spec_cstring].
  - reflexivity.
  - rewrite (st_read_flat s m) by assumption. rewrite mem_read_byte_spec by assumption.
    destruct (valid_addr (wrap a)); [|reflexivity].
    destruct (mget m (wrap a) =? 0) eqn:E.
    + rewrite app_nil_r. reflexivity.
    + rewrite (IH s m) by assumption.
      destruct (spec_cstring f m (a + 1)); try reflexivity.
      rewrite <- app_assoc. reflexivity.
Qed.

Lemma ecall_refines s m : ms s = MFlat m -> wf s ->
  process_ecall s =
  (match spec_ecall (abs s) with
   | EffPrint t => Ok (EPrint t)
   | EffExit c => Ok (EExit c)
   | EffFault (SFAddr x) => Err (aerr x)
   | EffFault (SFEcall c) => Err (EEcall c)
   | EffFault SFFuel => Err (EOther 4)
   | EffFault SFUnsupported => Err ENotImpl
   end, s).
Proof.
  intros Hms W. unfold process_ecall, spec_ecall, ecall_table, rd_reg, rget.
  cbn [abs areg amem]. rewrite Hms. cbn [ms_lower].
  set (code := mget (regs s) 17). set (arg := mget (regs s) 10).
  assert (Harg : in32 arg) by (apply (wf_r s W)).
  cbn [find_service].
  destruct (code =? 1) eqn:E1; [cbn [run_service]; rewrite I32_signed by assumption; reflexivity|].
  destruct (code =? 2) eqn:E2; [reflexivity|].
  destruct (code =? 4) eqn:E4.
  { cbn [run_service]. unfold cstring_fuel. rewrite Hms.
    rewrite (cstring_refines _ s m) by (try assumption; pose proof (wf_m s W) as Q; rewrite Hms in Q; exact Q).
    destruct (spec_cstring (S (length m)) m arg); reflexivity. }
  destruct (code =? 11) eqn:E11; [reflexivity|].
  destruct (code =? 34) eqn:E34; [reflexivity|].
  destruct (code =? 35) eqn:E35; [reflexivity|].
  destruct (code =? 36) eqn:E36; [reflexivity|].
  destruct (code =? 10) eqn:E10; [reflexivity|].
  destruct (code =? 93) eqn:E93; [reflexivity|].
  reflexivity.
Qed.

(** * behavior() refines the reference instruction semantics *)
Definition advance (s : st) : st := with_pc s (pc s + 4).

Lemma abs_advance s : 0 <= pc s < 16384 -> abs (advance s) = set_apc (abs s) (wrap (apc (abs s) + 4)).
Proof.
  intros H. unfold advance, abs, set_apc. cbn. f_equal.
  rewrite (wrap_small (pc s)) by lia. reflexivity.
Qed.

Ltac inst_regs W :=
  repeat match goal with
  | |- context [rget ?s ?r] =>
      lazymatch goal with
      | H : in32 (rget s r) |- _ => fail
      | _ => pose proof (rget_in32 s r W)
      end
  end.

Ltac split4 := split; [|split; [try reflexivity|split; [|try reflexivity]]].

Lemma exec_ok i s : wf s -> wf_instr i -> 0 <= pc s < 16384 ->
  match behavior i s with
  | (s', None) =>
      abs (advance s') = fst (spec_exec i (abs s)) /\ snd (spec_exec i (abs s)) = None /\
      wf (advance s') /\ im s' = im s
  | (s', Some er) =>
      abs s' = fst (spec_exec i (abs s)) /\ fault_rel er (snd (spec_exec i (abs s))) /\
      wf s' /\ im s' = im s
  end.
Proof.
  intros W Hi Hpc.
  assert (Hapc : apc (abs s) = pc s) by (cbn; apply wrap_small; lia).
  destruct (wf_flat s W) as [m Hms].
  assert (Hmem : wf_mem m) by (pose proof (wf_m s W) as Q; rewrite Hms in Q; exact Q).
  destruct i; cbn [behavior spec_exec wf_instr] in *.
  - (* R *)
    destruct Hi as (Hrd & H1 & H2).
    pose proof (rget_in32 s rs1 W). pose proof (rget_in32 s rs2 W).
    rewrite r_behavior_spec by assumption. cbn [fst snd].
    assert (W' : wf (rset s rd (spec_r o (rget s rs1) (rget s rs2)))).
    { apply wf_rset; [assumption|]. rewrite <- r_behavior_spec by assumption. apply r_behavior_range; assumption. }
    split4.
    + rewrite abs_advance by (rewrite pc_rset; assumption). rewrite abs_rset by assumption.
      unfold wr_reg. destruct (rd =? 0); reflexivity.
    + apply wf_with_pc; [assumption | rewrite pc_rset; lia].
    + apply im_rset.
  - (* I *)
    destruct Hi as (Hrd & H1 & H2). pose proof (rget_in32 s rs1 W).
    rewrite i_behavior_spec by assumption. cbn [fst snd].
    assert (W' : wf (rset s rd (spec_i o (rget s rs1) imm))).
    { apply wf_rset; [assumption|]. rewrite <- i_behavior_spec by assumption. apply i_behavior_range. }
    split4.
    + rewrite abs_advance by (rewrite pc_rset; assumption). rewrite abs_rset by assumption.
      unfold wr_reg. destruct (rd =? 0); reflexivity.
    + apply wf_with_pc; [assumption | rewrite pc_rset; lia].
    + apply im_rset.
  - (* shift *)
    destruct Hi as (Hrd & H1 & H2). pose proof (rget_in32 s rs1 W).
    rewrite sh_behavior_spec by assumption. cbn [fst snd].
    assert (W' : wf (rset s rd (spec_sh o (rget s rs1) imm))).
    { apply wf_rset; [assumption|]. rewrite <- sh_behavior_spec by assumption. apply sh_behavior_range. }
    split4.
    + rewrite abs_advance by (rewrite pc_rset; assumption). rewrite abs_rset by assumption.
      unfold wr_reg. destruct (rd =? 0); reflexivity.
    + apply wf_with_pc; [assumption | rewrite pc_rset; lia].
    + apply im_rset.
  - (* load *)
    destruct Hi as (Hrd & H1 & H2).
    rewrite (st_read_flat s m) by assumption. rewrite mem_read_spec by assumption.
    cbn [abs amem]. rewrite Hms. cbn [ms_lower]. unfold rd_reg.
    change (mget (areg (abs s)) rs1) with (rget s rs1).
    destruct (spec_load m (rget s rs1 + imm) (lop_bytes o)) as [v|f] eqn:E.
    + pose proof (spec_load_range m Hmem _ _ _ E) as Hv. rewrite <- load_bits_bytes in Hv.
      cbn [fst snd]. rewrite <- load_ext_spec by assumption.
      assert (W' : wf (rset s rd (load_ext o v))) by (apply wf_rset; [assumption | apply load_ext_range; assumption]).
      split4.
      * rewrite abs_advance by (rewrite pc_rset; assumption). rewrite abs_rset by assumption.
        unfold wr_reg. destruct (rd =? 0); reflexivity.
      * apply wf_with_pc; [assumption | rewrite pc_rset; lia].
      * apply im_rset.
    + cbn [fst snd]. split4; try assumption; try reflexivity;
        try (cbn [abs]; rewrite Hms; reflexivity); try (unfold aerr; cbn; reflexivity).
  - (* jalr *)
    destruct Hi as (Hrd & H1 & H2). pose proof (rget_in32 s rs1 W) as Hr.
    cbn [fst snd].
    assert (Hlink : in32 (U32 (pc s + 4))) by apply U32_range.
    assert (W' : wf (rset s rd (U32 (pc s + 4)))) by (apply wf_rset; assumption).
    rewrite jalr_target by assumption.
    split4.
    + unfold advance. apply arch_eq; cbn [abs with_pc pc regs ms out exitc set_apc apc areg amem aout aexit].
      * unfold rd_reg. cbn [areg]. fold (rget s rs1).
        replace (2 * (wrap (rget s rs1 + imm) / 2) - 4 + 4) with (2 * (wrap (rget s rs1 + imm) / 2)) by lia.
        apply wrap_small. unfold wrap. lia.
      * rewrite (wrap_small (pc s)) by lia.
        change (regs (rset s rd (U32 (pc s + 4)))) with (areg (abs (rset s rd (U32 (pc s + 4))))).
        rewrite abs_rset by assumption. reflexivity.
      * unfold rset. destruct (_ && _); cbn; unfold wr_reg; destruct (rd =? 0); reflexivity.
      * unfold rset. destruct (_ && _); cbn; unfold wr_reg; destruct (rd =? 0); reflexivity.
      * unfold rset. destruct (_ && _); cbn; unfold wr_reg; destruct (rd =? 0); reflexivity.
    + unfold advance. apply wf_with_pc; [apply wf_with_pc; [assumption|] |]; cbn [pc with_pc]; unfold wrap; lia.
    + cbn [with_pc im]. apply im_rset.
  - (* ecall *)
    rewrite (ecall_refines s m) by assumption.
    destruct (spec_ecall (abs s)) as [t|c|f] eqn:E; cbn [fst snd].
    + split4.
      * unfold advance. apply arch_eq; cbn; try reflexivity. rewrite (wrap_small (pc s)) by lia. reflexivity.
      * unfold advance. destruct W. constructor; cbn; try assumption. lia.
    + split4.
      * unfold advance. apply arch_eq; cbn; try reflexivity. rewrite (wrap_small (pc s)) by lia. reflexivity.
      * unfold advance. destruct W. constructor; cbn; try assumption. lia.
    + destruct f; cbn [fst snd fault_rel]; split4; try assumption; try reflexivity.
  - (* ebreak *)
    cbn [fst snd fault_rel]. split4; try assumption; try reflexivity; exact I.
  - (* store *)
    destruct Hi as (H1 & H2 & H3). pose proof (rget_in32 s rs1 W) as Hr1.
    rewrite (st_write_flat s m) by assumption.
    assert (Haddr : spec_store m (U32 (rget s rs1 + U32 imm)) (sop_bytes o) (rget s rs2) =
                    spec_store m (rget s rs1 + imm) (sop_bytes o) (rget s rs2)).
    { destruct (sop_bytes o) as [|k]; [reflexivity|]. cbn [spec_store].
      assert (Hw : wrap (U32 (rget s rs1 + U32 imm)) = wrap (rget s rs1 + imm)).
      { unfold wrap, U32, U. change (2 ^ 32) with 4294967296. lia. }
      rewrite Hw. destruct (valid_addr _); [|reflexivity].
      clear Hw. generalize (mset m (wrap (rget s rs1 + imm)) (rget s rs2 mod 256)) as m1.
      generalize (rget s rs2 / 256) as v1.
      assert (G : forall k v1 m1 x y, wrap x = wrap y -> spec_store m1 x k v1 = spec_store m1 y k v1).
      { clear. induction k as [|k IH]; intros v1 m1 x y Hxy; cbn [spec_store]; [reflexivity|].
        rewrite Hxy. destruct (valid_addr _); [|reflexivity]. apply IH.
        unfold wrap in *. lia. }
      intros v1 m1. apply G. unfold wrap, U32, U. change (2 ^ 32) with 4294967296. lia. }
    rewrite mem_write_spec. rewrite Haddr.
    cbn [abs amem areg]. rewrite Hms. cbn [ms_lower]. unfold rd_reg.
    change (mget (areg (abs s)) rs1) with (rget s rs1). change (mget (areg (abs s)) rs2) with (rget s rs2).
    destruct (spec_store m (rget s rs1 + imm) (sop_bytes o) (rget s rs2)) as [m' f] eqn:E.
    cbn [fst snd option_map].
    assert (Hm' : wf_mem m').
    { pose proof (spec_store_wf (sop_bytes o) m (rget s rs1 + imm) (rget s rs2) Hmem) as Q. rewrite E in Q. exact Q. }
    destruct f as [fa|]; cbn [option_map fst snd].
    + split4.
      * unfold aerr. cbn. reflexivity.
      * destruct W. constructor; cbn; try assumption. eexists; reflexivity.
    + split4.
      * unfold advance. apply arch_eq; cbn; try reflexivity. rewrite (wrap_small (pc s)) by lia. reflexivity.
      * unfold advance. destruct W. constructor; cbn; try assumption; [eexists; reflexivity | lia].
  - (* branch *)
    destruct Hi as (H1 & H2 & H3).
    pose proof (rget_in32 s rs1 W). pose proof (rget_in32 s rs2 W).
    rewrite b_cond_spec by assumption. unfold rd_reg.
    change (mget (areg (abs s)) rs1) with (rget s rs1). change (mget (areg (abs s)) rs2) with (rget s rs2).
    destruct (spec_cond o (rget s rs1) (rget s rs2)); cbn [fst snd].
    + split4.
      * unfold advance. apply arch_eq; cbn; try reflexivity.
        rewrite (wrap_small (pc s)) by lia. f_equal. lia.
      * unfold advance. destruct W. constructor; cbn; try assumption. lia.
    + split4.
      * unfold advance. apply arch_eq; cbn; try reflexivity. rewrite (wrap_small (pc s)) by lia. reflexivity.
      * unfold advance. destruct W. constructor; cbn; try assumption. lia.
  - (* lui *)
    destruct Hi as (Hrd & H2). cbn [fst snd].
    assert (W' : wf (rset s rd (U32 (Z.shiftl imm 12)))) by (apply wf_rset; [assumption | apply U32_range]).
    split4.
    + rewrite abs_advance by (rewrite pc_rset; assumption). rewrite abs_rset by assumption.
      rewrite shl_mul by lia. change (2 ^ 12) with 4096. rewrite <- wrap_U32.
      unfold wr_reg. destruct (rd =? 0); reflexivity.
    + apply wf_with_pc; [assumption | rewrite pc_rset; lia].
    + apply im_rset.
  - (* auipc *)
    destruct Hi as (Hrd & H2). cbn [fst snd].
    assert (W' : wf (rset s rd (U32 (pc s + Z.shiftl imm 12)))) by (apply wf_rset; [assumption | apply U32_range]).
    split4.
    + rewrite abs_advance by (rewrite pc_rset; assumption). rewrite abs_rset by assumption.
      rewrite shl_mul by lia. change (2 ^ 12) with 4096. rewrite <- wrap_U32.
      unfold wr_reg. destruct (rd =? 0); cbn [apc abs]; rewrite (wrap_small (pc s)) by lia; reflexivity.
    + apply wf_with_pc; [assumption | rewrite pc_rset; lia].
    + apply im_rset.
  - (* jal *)
    destruct Hi as (Hrd & H2). cbn [fst snd].
    assert (W' : wf (rset s rd (U32 (pc s + 4)))) by (apply wf_rset; [assumption | apply U32_range]).
    split4.
    + unfold advance. apply arch_eq; cbn [abs with_pc with_pcount pc regs ms out exitc set_apc apc areg amem aout aexit].
      * rewrite pc_rset. rewrite (wrap_small (pc s)) by lia. f_equal. lia.
      * rewrite (wrap_small (pc s)) by lia.
        change (regs (rset s rd (U32 (pc s + 4)))) with (areg (abs (rset s rd (U32 (pc s + 4))))).
        rewrite abs_rset by assumption. reflexivity.
      * unfold rset. destruct (_ && _); cbn; unfold wr_reg; destruct (rd =? 0); reflexivity.
      * unfold rset. destruct (_ && _); cbn; unfold wr_reg; destruct (rd =? 0); reflexivity.
      * unfold rset. destruct (_ && _); cbn; unfold wr_reg; destruct (rd =? 0); reflexivity.
    + unfold advance. destruct W'. constructor; cbn; try assumption. rewrite pc_rset. lia.
    + cbn. apply im_rset.
  - (* fence *)
    cbn [fst snd fault_rel]. split4; try assumption; try reflexivity; exact I.
  - cbn [fst snd fault_rel]. split4; try assumption; try reflexivity; exact I.
  - cbn [fst snd fault_rel]. split4; try assumption; try reflexivity; exact I.
Qed.

(** * The single-cycle stage and runs *)
Lemma wf_proj s s' : regs s' = regs s -> ms s' = ms s -> im s' = im s -> pc s' = pc s -> wf s -> wf s'.
Proof.
  intros Hr Hm Hi Hp W. destruct W. constructor; rewrite ?Hr, ?Hm, ?Hi, ?Hp; assumption.
Qed.

Lemma abs_proj s s' : regs s' = regs s -> ms s' = ms s -> pc s' = pc s -> out s' = out s ->
  exitc s' = exitc s -> abs s' = abs s.
Proof. intros Hr Hm Hp Ho He. unfold abs. rewrite Hr, Hm, Hp, Ho, He. reflexivity. Qed.

Lemma ms_rset s rd v : ms (rset s rd v) = ms s.
Proof. unfold rset. destruct (_ && _); reflexivity. Qed.

Lemma fetch_agree s : wf s -> instr_at (prog (im s)) (pc s) = spec_fetch (prog (im s)) (wrap (pc s)).
Proof.
  intros W. pose proof (wf_pc s W) as Hp. pose proof (wf_len s W) as Hl.
  unfold instr_at, spec_fetch.
  destruct (0 <=? pc s) eqn:E.
  - rewrite (wrap_small (pc s)) by lia. reflexivity.
  - cbn [andb].
    replace (wrap (pc s) / 4 <? Z.of_nat (length (prog (im s)))) with false; [rewrite andb_false_r; reflexivity|].
    unfold wrap. lia.
Qed.

Lemma instr_at_some s i : wf s -> instr_at (prog (im s)) (pc s) = Some i -> 0 <= pc s < 16384 /\ wf_instr i.
Proof.
  intros W H. pose proof (wf_len s W) as Hl. unfold instr_at in H.
  destruct ((0 <=? pc s) && (pc s mod 4 =? 0) && (pc s / 4 <? Z.of_nat (length (prog (im s))))) eqn:E; [|discriminate].
  split; [lia|].
  apply nth_error_In in H. pose proof (wf_prog s W) as F. rewrite Forall_forall in F. apply F; assumption.
Qed.

Lemma done_agree s : wf s -> single_done s = spec_halted (prog (im s)) (abs s).
Proof.
  intros W. unfold single_done, spec_halted, has_instr. cbn [abs aexit apc].
  rewrite fetch_agree by assumption. destruct (exitc s); [reflexivity|].
  destruct (spec_fetch _ _); reflexivity.
Qed.

Lemma load_reread o rd rs1 imm s s2 : wf s -> reg_ok rs1 ->
  behavior (ILoad o rd rs1 imm) s = (s2, None) ->
  exists v, st_read s2 (load_bits o) (U32 (rget s rs1) + imm) false = (Ok v, s2).
Proof.
  intros W H1 H. destruct (wf_flat s W) as [m Hms]. cbn [behavior] in H.
  rewrite (st_read_flat s m) in H by assumption.
  destruct (mem_read rv_memcfg m (load_bits o) (rget s rs1 + imm)) as [v|e] eqn:E; [|discriminate].
  injection H as <-. exists v.
  rewrite (st_read_flat _ m) by (rewrite ms_rset; assumption).
  rewrite U32_id by (apply rget_in32; assumption). rewrite E. reflexivity.
Qed.

(* what one pipeline step of the single-cycle machine means *)
Definition fault_ok (p : list instr) (a : arch) (f : option fault) (sf : option sfault) : Prop :=
  match f with
  | None => sf = None
  | Some ft => f_addr ft = apc a /\ spec_fetch p (apc a) = Some (f_instr ft) /\ fault_rel (f_err ft) sf
  end.

Lemma step_refines s : wf s -> single_done s = false ->
  let r := single_pipeline_step s in
  let sp := spec_step (prog (im s)) (abs s) in
  abs (fst r) = fst sp /\ fault_ok (prog (im s)) (abs s) (snd r) (snd sp) /\ wf (fst r) /\
  prog (im (fst r)) = prog (im s).
Proof.
  intros W Hd. cbv zeta.
  pose proof Hd as Hd'. rewrite done_agree in Hd' by assumption.
  unfold spec_step. rewrite Hd'.
  unfold single_done in Hd. destruct (exitc s) eqn:Ex; [discriminate|].
  apply negb_false_iff in Hd.
  unfold single_pipeline_step, single_stage.
  set (sc := with_cycles s (cycles s + 1)).
  change (im sc) with (im s). change (pc sc) with (pc s). rewrite Hd.
  set (s0 := with_icount sc (icount sc + 1)).
  unfold fetch, im_read. change (icc (im s0)) with (icc (im s)). rewrite (wf_noic s W).
  change (prog (im s0)) with (prog (im s)). change (pc s0) with (pc s).
  unfold has_instr in Hd. destruct (instr_at (prog (im s)) (pc s)) as [i|] eqn:Ei; [|discriminate].
  set (s1 := with_cycles (with_im s0 (im s0)) (cycles s0 + 0)).
  assert (W1 : wf s1) by (apply (wf_proj s); try reflexivity; assumption).
  assert (A1 : abs s1 = abs s) by (apply abs_proj; reflexivity).
  destruct (instr_at_some s i W Ei) as [Hpc Hwi].
  pose proof (exec_ok i s1 W1 Hwi Hpc) as X.
  assert (Ef : spec_fetch (prog (im s)) (apc (abs s)) = Some i)
    by (change (apc (abs s)) with (wrap (pc s)); rewrite <- fetch_agree by assumption; exact Ei).
  rewrite <- fetch_agree by assumption. rewrite Ei.
  rewrite A1 in X.
  destruct (behavior i s1) as [s2 [e|]] eqn:Eb.
  - (* fault inside behavior *)
    destruct X as (Xa & Xf & Xw & Xi). cbn [fst snd fault_ok f_addr f_instr f_err].
    split; [exact Xa|]. split; [|split; [exact Xw | rewrite Xi; reflexivity]].
    split; [symmetry; apply wrap_small; lia|]. split; [exact Ef|exact Xf].
  - destruct X as (Xa & Xf & Xw & Xi).
    assert (Hre : (match i with
                   | ILoad o _ _ _ =>
                       match st_read s2 (load_bits o) (load_addr_pre i s1) false with
                       | (Ok _, s') => (s', None)
                       | (Err e, s') => (s', Some e)
                       end
                   | _ => (s2, None)
                   end) = (s2, @None err)).
    { destruct i; try reflexivity.
      destruct Hwi as (_ & Hr1 & _).
      destruct (load_reread _ _ _ _ _ _ W1 Hr1 Eb) as [v Hv]. cbn [load_addr_pre]. rewrite Hv. reflexivity. }
    rewrite Hre. cbn [fst snd fault_ok].
    split; [exact Xa|]. split; [exact Xf|]. split; [exact Xw|]. cbn [with_pc im]. rewrite Xi. reflexivity.
Qed.

Lemma fault_rel_none e : fault_rel e None -> False.
Proof.
  unfold fault_rel. intros H.
  repeat match type of H with
         | context [match ?x with _ => _ end] => destruct x
         end; exact H.
Qed.

(** runs *)
Definition end_rel (p : list instr) (a_before : arch -> Prop) (e : run_end) (se : spec_end) : Prop :=
  match e, se with
  | Done, SDone => True
  | OutOfFuel, SOutOfFuel => True
  | Faulted ft, SFaulted at_pc sf =>
      f_addr ft = at_pc /\ spec_fetch p at_pc = Some (f_instr ft) /\ fault_rel (f_err ft) (Some sf)
  | _, _ => False
  end.

Lemma run_refines n : forall s, wf s ->
  let r := single_run n s in
  let sp := spec_run n (prog (im s)) (abs s) in
  abs (fst r) = fst sp /\ end_rel (prog (im s)) (fun _ => True) (snd r) (snd sp) /\ wf (fst r).
Proof.
  induction n as [|n IH]; intros s W; cbv zeta; cbn [single_run spec_run].
  - rewrite <- done_agree by assumption. destruct (single_done s); cbn; auto.
  - rewrite <- done_agree by assumption. destruct (single_done s) eqn:Hd; [cbn; auto|].
    pose proof (step_refines s W Hd) as X. cbv zeta in X.
    destruct (single_pipeline_step s) as [s' f]. destruct (spec_step (prog (im s)) (abs s)) as [a' sf].
    cbn [fst snd] in X. destruct X as (Xa & Xf & Xw & Xp).
    destruct f as [ft|]; cbn [fault_ok] in Xf.
    + destruct Xf as (F1 & F2 & F3). destruct sf as [sf|]; [|exfalso; exact (fault_rel_none _ F3)].
      cbn [fst snd end_rel]. auto.
    + subst sf. specialize (IH s' Xw). cbv zeta in IH. rewrite Xp, Xa in IH. exact IH.
Qed.
