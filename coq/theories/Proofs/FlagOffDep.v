(* FlagOffDep.v — property C08, phase B (hazard detection OFF), part 1: the static dependency
   condition [dep_free] ("register dependencies are at least three instructions apart"), the
   padding transformation [pad2] (two canonical nops behind every instruction) and
   [dep_free (pad2 P) = true].  Definitions and list lemmas only; nothing about the pipeline.

   [src1 i], [src2 i]   the register indices the decode stage reads for i (= the first two
                        components of [access_rf], which do not depend on the state)
   [dep_ok strict i j]  consumer i may follow producer j at distance 1 or 2: the register written
                        by j (if it is not x0) is none of the registers read by i in decode;
                        with [strict], an ecall i additionally counts as a reader of a7 and a0
                        (which it reads when it fires in EX)
   [dep_free P]         strict version, for every producer P[k] and the consumers P[k+1], P[k+2]
   [dep_free_weak P]    the same without the ecall clause (an ecall fires only when every older
                        instruction has left WB, so the clause is not needed for correctness) *)
From Coq Require Import Lia ZifyBool.
From ArchSim Require Import Model.Base Model.Mem Model.Cache Model.Fmt Model.RV Model.Single
  Model.RVSplit Model.Pipe Proofs.PipeLaws.
Open Scope Z_scope.

Ltac Zify.zify_post_hook ::= Z.to_euclidean_division_equations.
Local Arguments Z.mul : simpl never.
Local Arguments Z.add : simpl never.
Local Arguments Z.sub : simpl never.
Local Arguments Z.div : simpl never.
Local Arguments Z.modulo : simpl never.

(** * Registers read in decode *)
Definition src1 (i : instr) : option Z :=
  match i with
  | IR _ _ rs1 _ | II _ _ rs1 _ | ISh _ _ rs1 _ | ILoad _ _ rs1 _ | IJalr _ rs1 _
  | IStore _ rs1 _ _ | IBranch _ rs1 _ _ => Some rs1
  | IEcall | IEbreak => Some 0
  | _ => None
  end.
Definition src2 (i : instr) : option Z :=
  match i with
  | IR _ _ _ rs2 | IStore _ _ rs2 _ | IBranch _ _ rs2 _ => Some rs2
  | _ => None
  end.

Lemma rf_ra1_src i s : rf_ra1 i s = src1 i.
Proof. destruct i; reflexivity. Qed.
Lemma rf_ra2_src i s : rf_ra2 i s = src2 i.
Proof. destruct i; reflexivity. Qed.

(** * The dependency condition *)
Definition writes (j : instr) (r : Z) : bool := opt_eqb (write_reg j) r.

Definition dep_ok (strict : bool) (i j : instr) : bool :=
  negb (hazard_with (src1 i) (src2 i) (write_reg j)) &&
  negb (strict && is_ecall i && (writes j 17 || writes j 10)).

(* producer-oriented: the two instructions behind every instruction do not read its target *)
Fixpoint dep_free_gen (strict : bool) (P : list instr) : bool :=
  match P with
  | [] => true
  | j :: t =>
      match t with
      | [] => true
      | i1 :: t1 => dep_ok strict i1 j &&
                    match t1 with [] => true | i2 :: _ => dep_ok strict i2 j end
      end && dep_free_gen strict t
  end.

Definition dep_free (P : list instr) : bool := dep_free_gen true P.
Definition dep_free_weak (P : list instr) : bool := dep_free_gen false P.

Lemma dep_ok_weaken i j : dep_ok true i j = true -> dep_ok false i j = true.
Proof.
  unfold dep_ok. intros H. apply Bool.andb_true_iff in H. destruct H as [H _].
  rewrite H. reflexivity.
Qed.

Lemma dep_free_weaken P : dep_free P = true -> dep_free_weak P = true.
Proof.
  unfold dep_free, dep_free_weak. induction P as [|j t IH]; [reflexivity|].
  cbn [dep_free_gen]. intros H. apply Bool.andb_true_iff in H. destruct H as [H1 H2].
  rewrite (IH H2), Bool.andb_true_r.
  destruct t as [|i1 t1]; [reflexivity|].
  apply Bool.andb_true_iff in H1. destruct H1 as [Ha Hb].
  rewrite (dep_ok_weaken _ _ Ha). cbn [andb].
  destruct t1 as [|i2 t2]; [reflexivity|]. apply dep_ok_weaken; exact Hb.
Qed.

(* by index *)
Lemma dep_free_nth strict : forall P k j, dep_free_gen strict P = true -> nth_error P k = Some j ->
  (forall i, nth_error P (S k) = Some i -> dep_ok strict i j = true) /\
  (forall i, nth_error P (S (S k)) = Some i -> dep_ok strict i j = true).
Proof.
  induction P as [|j0 t IH]; intros k j HD Hk; [destruct k; discriminate|].
  cbn [dep_free_gen] in HD. apply Bool.andb_true_iff in HD. destruct HD as [H1 H2].
  destruct k as [|k].
  - cbn [nth_error] in Hk. injection Hk as ->.
    destruct t as [|i1 t1]; [split; intros i Hi; discriminate|].
    apply Bool.andb_true_iff in H1. destruct H1 as [Ha Hb]. split; intros i Hi.
    + cbn [nth_error] in Hi. injection Hi as <-. exact Ha.
    + destruct t1 as [|i2 t2]; [discriminate|]. cbn [nth_error] in Hi. injection Hi as <-. exact Hb.
  - cbn [nth_error] in Hk. destruct (IH k j H2 Hk) as [A B]. split; intros i Hi; [apply A|apply B]; exact Hi.
Qed.

(* by address *)
Lemma instr_at_nth P a i : instr_at P a = Some i ->
  0 <= a /\ a mod 4 = 0 /\ nth_error P (Z.to_nat (a / 4)) = Some i.
Proof.
  unfold instr_at. destruct ((0 <=? a) && (a mod 4 =? 0) && (a / 4 <? Z.of_nat (length P))) eqn:E; [|discriminate].
  intros H. repeat split; try lia. exact H.
Qed.

Lemma dep_free_adjacent strict P a i j : dep_free_gen strict P = true ->
  instr_at P a = Some i ->
  (instr_at P (a - 4) = Some j -> dep_ok strict i j = true) /\
  (instr_at P (a - 8) = Some j -> dep_ok strict i j = true).
Proof.
  intros HD Hi. apply instr_at_nth in Hi. destruct Hi as (Ha & Hm & Hi).
  split; intros Hj; apply instr_at_nth in Hj; destruct Hj as (Ha' & Hm' & Hj).
  - destruct (dep_free_nth strict P _ j HD Hj) as [A _]. apply A.
    replace (S (Z.to_nat ((a - 4) / 4))) with (Z.to_nat (a / 4)) by lia. exact Hi.
  - destruct (dep_free_nth strict P _ j HD Hj) as [_ B]. apply B.
    replace (S (S (Z.to_nat ((a - 8) / 4)))) with (Z.to_nat (a / 4)) by lia. exact Hi.
Qed.

(* what [dep_ok] buys: the interlock comparison of the decode stage is false *)
Lemma dep_ok_no_hazard strict i j s :
  dep_ok strict i j = true -> hazard_with (rf_ra1 i s) (rf_ra2 i s) (write_reg j) = false.
Proof.
  unfold dep_ok. intros H. apply Bool.andb_true_iff in H. destruct H as [H _].
  rewrite rf_ra1_src, rf_ra2_src. apply Bool.negb_true_iff. exact H.
Qed.

(** * Padding: two canonical nops behind every instruction *)
Definition nop : instr := II ADDI 0 0 0.

(* pc-relative offsets of branches and jal are scaled with the code; jalr targets and auipc values
   are computed from registers and are NOT adjusted (padding preserves the meaning of programs
   that do not depend on absolute code addresses) *)
Definition scale3 (i : instr) : instr :=
  match i with
  | IBranch o rs1 rs2 imm => IBranch o rs1 rs2 (3 * imm)
  | IJal rd imm abs => IJal rd (3 * imm) abs
  | _ => i
  end.

Definition pad2 (P : list instr) : list instr := flat_map (fun i => [scale3 i; nop; nop]) P.

Lemma dep_ok_nop_producer strict i : dep_ok strict i nop = true.
Proof.
  unfold dep_ok, nop, writes. cbn [write_reg hazard_with opt_eqb].
  change (0 =? 0) with true. change (0 =? 17) with false. change (0 =? 10) with false.
  cbn [orb]. rewrite Bool.andb_false_r. reflexivity.
Qed.

Lemma dep_ok_nop_consumer strict j : dep_ok strict nop j = true.
Proof.
  unfold dep_ok, nop. cbn [src1 src2 is_ecall]. rewrite Bool.andb_false_r. cbn [negb]. rewrite Bool.andb_true_r.
  unfold hazard_with. destruct (write_reg j) as [r|]; [|reflexivity].
  destruct (r =? 0) eqn:E; [reflexivity|]. cbn [opt_eqb orb]. rewrite Z.eqb_sym, E. reflexivity.
Qed.

Lemma dep_free_pad2_gen strict P : dep_free_gen strict (pad2 P) = true.
Proof.
  unfold pad2. induction P as [|i t IH]; [reflexivity|].
  cbn [flat_map app]. cbn [dep_free_gen].
  rewrite IH.
  destruct (flat_map (fun i => [scale3 i; nop; nop]) t) as [|i1 t1];
    [|destruct t1]; rewrite ?dep_ok_nop_consumer, ?dep_ok_nop_producer; reflexivity.
Qed.

Theorem dep_free_pad2 P : dep_free (pad2 P) = true.
Proof. apply dep_free_pad2_gen. Qed.

Lemma pad2_length P : length (pad2 P) = (3 * length P)%nat.
Proof. unfold pad2. induction P as [|i t IH]; [reflexivity|]. cbn [flat_map app length]. rewrite IH. lia. Qed.

(* padding keeps the instruction classes *)
Lemma pad2_Forall (Q : instr -> Prop) P : Q nop -> (forall i, Q i -> Q (scale3 i)) ->
  Forall Q P -> Forall Q (pad2 P).
Proof.
  intros Hn Hs. unfold pad2. induction 1 as [|i t Hi Ht IH]; [constructor|].
  cbn [flat_map app]. constructor; [apply Hs; exact Hi|]. constructor; [exact Hn|]. constructor; [exact Hn|exact IH].
Qed.
