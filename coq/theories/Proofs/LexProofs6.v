(* LexProofs6.v — Model/Lex.v: (a) at the level of [lex_line]: blanks/tabs inserted next to a separator,
   indentation, trailing blanks and a trailing comment together. *)
From Coq Require Import ZArith List Bool Lia ZifyBool.
From ArchSim Require Import Model.Base Model.Fmt Model.Toy Model.Asm Model.Lex
  Proofs.LexProofs1 Proofs.LexProofs2 Proofs.LexProofs3 Proofs.LexProofs5.
Import ListNotations.
Open Scope Z_scope.

Definition no_tab (s : str) : bool := forallb (fun c => negb (c =? 9)) s.
(* a core line starts and ends with a non-blank character *)
Definition starts_nonspace (s : str) : bool := match s with c :: _ => negb (py_isspace c) | [] => false end.
Definition ends_nonspace (s : str) : bool := starts_nonspace (rev s).

Lemma lstrip_id s : starts_nonspace s = true -> lstrip s = s.
Proof.
  destruct s as [|c t]; [discriminate|]. cbn [starts_nonspace lstrip].
  destruct (py_isspace c); [discriminate|reflexivity].
Qed.
Lemma py_strip_id s : starts_nonspace s = true -> ends_nonspace s = true -> py_strip s = s.
Proof. intros H1 H2. unfold py_strip. rewrite (lstrip_id s H1), (lstrip_id _ H2). apply rev_involutive. Qed.

Lemma sanitize_core s :
  starts_nonspace s = true -> ends_nonspace s = true -> no_hash s = true -> sanitize s = Some s.
Proof.
  intros H1 H2 H3. unfold sanitize. rewrite (lstrip_id s H1). rewrite (before_hash_id s H3), (py_strip_id s H1 H2).
  destruct s as [|c t]; [discriminate|]. cbn [no_hash forallb] in H3. apply andb_true_iff in H3 as [Hc _].
  destruct (c =? 35); [discriminate|reflexivity].
Qed.

Lemma expandtabs_notab s : no_tab s = true -> forall col, expandtabs col s = s.
Proof.
  induction s as [|c t IH]; intros H col; [reflexivity|].
  cbn [no_tab forallb] in H. apply andb_true_iff in H as [Hc Ht]. cbn [expandtabs].
  destruct (c =? 9); [discriminate|]. destruct ((c =? 10) || (c =? 13)); rewrite (IH Ht); reflexivity.
Qed.
Lemma expandtabs_app s1 x : no_tab s1 = true -> forall col, exists col', expandtabs col (s1 ++ x) = s1 ++ expandtabs col' x.
Proof.
  induction s1 as [|c t IH]; intros H col; [exists col; reflexivity|].
  cbn [no_tab forallb] in H. apply andb_true_iff in H as [Hc Ht]. cbn [app expandtabs].
  destruct (c =? 9); [discriminate|]. destruct ((c =? 10) || (c =? 13)).
  - destruct (IH Ht 0%nat) as [col' E]. exists col'. rewrite E. reflexivity.
  - destruct (IH Ht (if Nat.eqb col 7 then 0 else S col)%nat) as [col' E]. exists col'. rewrite E. reflexivity.
Qed.
Lemma blanks_repeat n : blanks (repeat 32 n) = true.
Proof. induction n as [|n IH]; [reflexivity|]. cbn [repeat blanks forallb]. exact IH. Qed.
Lemma blanks_app a c : blanks (a ++ c) = blanks a && blanks c.
Proof. apply forallb_app. Qed.
Lemma expandtabs_blanks ws s2 : blanks ws = true -> no_tab s2 = true ->
  forall col, exists ws', blanks ws' = true /\ expandtabs col (ws ++ s2) = ws' ++ s2.
Proof.
  induction ws as [|c t IH]; intros H H2 col.
  - exists []. split; [reflexivity|]. cbn [app]. apply expandtabs_notab, H2.
  - cbn [blanks forallb] in H. apply andb_true_iff in H as [Hc Ht]. cbn [app expandtabs].
    destruct (c =? 9) eqn:E9.
    + destruct (IH Ht H2 0%nat) as (w & Hw & E). exists (repeat 32 (8 - col) ++ w).
      split; [rewrite blanks_app, blanks_repeat, Hw; reflexivity|]. rewrite E, app_assoc. reflexivity.
    + destruct ((c =? 10) || (c =? 13)).
      * destruct (IH Ht H2 0%nat) as (w & Hw & E). exists (c :: w).
        split; [cbn [blanks forallb]; rewrite Hc; exact Hw|]. rewrite E. reflexivity.
      * destruct (IH Ht H2 (if Nat.eqb col 7 then 0 else S col)%nat) as (w & Hw & E). exists (c :: w).
        split; [cbn [blanks forallb]; rewrite Hc; exact Hw|]. rewrite E. reflexivity.
Qed.

Lemma blanks_no_hash ws : blanks ws = true -> no_hash ws = true.
Proof.
  unfold blanks, no_hash. rewrite !forallb_forall. intros H x Hx. specialize (H x Hx).
  destruct (x =? 35) eqn:E; [|reflexivity]. apply Z.eqb_eq in E. subst. discriminate.
Qed.
Lemma starts_app s x : starts_nonspace s = true -> starts_nonspace (s ++ x) = true.
Proof. destruct s; [discriminate|]. intros H; exact H. Qed.
Lemma ends_app x s : ends_nonspace s = true -> ends_nonspace (x ++ s) = true.
Proof. unfold ends_nonspace. rewrite rev_app_distr. apply starts_app. Qed.

(* the line without any decoration *)
Lemma lex_line_core s :
  starts_nonspace s = true -> ends_nonspace s = true -> no_hash s = true -> no_tab s = true ->
  lex_line s = lex_core s.
Proof.
  intros H1 H2 H3 H4. unfold lex_line. rewrite (sanitize_core s H1 H2 H3), (expandtabs_notab s H4). reflexivity.
Qed.

(** (a) complete: [s1 ++ s2] is a core line without tabs and '#'; between s1 and s2 — at a position next to a
    separator , ( ) : + . or a blank, and not after a quote — any run of blanks and tabs is inserted; the line is
    indented, followed by blanks and by a comment: the result is that of the bare line *)
Theorem lex_layout ind s1 ws s2 trail cmt :
  all_space ind = true -> all_space trail = true -> is_comment cmt = true -> blanks ws = true ->
  starts_nonspace s1 = true -> ends_nonspace s2 = true ->
  no_hash (s1 ++ s2) = true -> no_tab (s1 ++ s2) = true -> noquote s1 = true ->
  (sep (last s1 0) = true \/ hd_sep s2 = true) ->
  lex_line (ind ++ (s1 ++ ws ++ s2) ++ trail ++ cmt) = lex_line (s1 ++ s2).
Proof.
  intros Hi Ht Hc Hw Hs1 Hs2 Hh Hn Hq Hb.
  rewrite no_hash_app in Hh. apply andb_true_iff in Hh as [Hh1 Hh2].
  unfold no_tab in Hn. rewrite forallb_app in Hn. apply andb_true_iff in Hn as [Hn1 Hn2].
  rewrite lex_outer_layout; try assumption.
  2:{ rewrite !no_hash_app, Hh1, Hh2, (blanks_no_hash _ Hw). reflexivity. }
  rewrite (lex_line_core (s1 ++ s2)).
  2:{ apply starts_app, Hs1. } 2:{ apply ends_app, Hs2. } 2:{ rewrite no_hash_app, Hh1, Hh2. reflexivity. }
  2:{ unfold no_tab. rewrite forallb_app. unfold no_tab in *. rewrite Hn1, Hn2. reflexivity. }
  unfold lex_line. rewrite sanitize_core.
  2:{ apply starts_app, Hs1. } 2:{ apply ends_app, ends_app, Hs2. }
  2:{ rewrite !no_hash_app, Hh1, Hh2, (blanks_no_hash _ Hw). reflexivity. }
  destruct (expandtabs_app s1 (ws ++ s2) Hn1 0%nat) as [col E]. rewrite E.
  destruct (expandtabs_blanks ws s2 Hw Hn2 col) as (w & Hw' & E2). rewrite E2.
  apply lex_core_gap; [exact Hw'|exact Hq|]. right. exact Hb.
Qed.
