(* Proofs/LiftFlat.v — a concrete flat byte memory holding the logical contents of a data cache
   ([flat_of d], with [Flat (flat_of d) d]), its size, and extensionality of the flat memory
   operations (they only look at cells in [0, 2^32)).  First file of the Lift* series
   (program-level clauses of C03 / C11 / C02). *)
From Coq Require Import Lia ZifyBool.
From ArchSim Require Import Model.Base Model.Mem Model.Cache
  Proofs.WordLemmas Proofs.MapLemmas Proofs.CacheArith Proofs.CacheInv Proofs.C03Proofs.
Open Scope Z_scope.
Local Arguments Z.mul : simpl never.
Local Arguments Z.add : simpl never.
Local Arguments Z.sub : simpl never.
Local Arguments Z.pow : simpl never.
Local Arguments Z.div : simpl never.
Local Arguments Z.modulo : simpl never.
Local Arguments Z.of_nat : simpl never.
Local Arguments Z.to_nat : simpl never.

(** * Overlaying a function on a map at a list of keys *)
Definition overlay (g : Z -> Z) (m : zmap) (xs : list Z) : zmap :=
  fold_left (fun acc x => mset acc x (g x)) xs m.

Lemma overlay_notin g : forall xs m a, ~ In a xs -> mget (overlay g m xs) a = mget m a.
Proof.
  induction xs as [|x xs IH]; intros m a Hn; cbn [overlay fold_left]; [reflexivity|].
  fold (overlay g (mset m x (g x)) xs). rewrite IH by (intros H; apply Hn; right; exact H).
  apply mget_mset_neq. intros ->. apply Hn. left. reflexivity.
Qed.

Lemma overlay_in g : forall xs m a, In a xs -> mget (overlay g m xs) a = g a.
Proof.
  induction xs as [|x xs IH]; intros m a Hin; cbn [overlay fold_left]; [destruct Hin|].
  fold (overlay g (mset m x (g x)) xs).
  destruct (in_dec Z.eq_dec a xs) as [Hi|Hni]; [apply IH; exact Hi|].
  rewrite overlay_notin by exact Hni. destruct Hin as [->|Hi]; [apply mget_mset_eq | contradiction].
Qed.

Lemma overlay_length g : forall xs m, (length (overlay g m xs) <= length m + length xs)%nat.
Proof.
  induction xs as [|x xs IH]; intros m; cbn [overlay fold_left length]; [lia|].
  fold (overlay g (mset m x (g x)) xs). specialize (IH (mset m x (g x))).
  pose proof (mset_length m x (g x)). lia.
Qed.

(** * The addresses covered by the block frames of a cache *)
Definition frame_addrs (c : cache Z) (i bi : Z) : list Z :=
  zrange_from (baddr (nthZ (blocks (get_set c i)) bi empty_block)) (Z.to_nat (bsize (bbits (cfg c)))).
Definition cache_addrs (c : cache Z) : list Z :=
  flat_map (fun i => flat_map (fun bi => frame_addrs c i bi) (zrange_from 0 (Z.to_nat (assoc (cfg c)))))
           (zrange_from 0 (Z.to_nat (2 ^ ibits (cfg c)))).

Definition flat_of (d : dcache) : zmap := overlay (logical d) (lower d) (cache_addrs (dc d)).

Lemma zrange_from_length : forall n s, length (zrange_from s n) = n.
Proof. induction n as [|n IH]; intros s; cbn [zrange_from length]; [reflexivity | rewrite IH; reflexivity]. Qed.

Lemma flat_map_const_length {A B} (f : A -> list B) k : forall l,
  (forall x, In x l -> length (f x) = k) -> length (flat_map f l) = (length l * k)%nat.
Proof.
  induction l as [|x l IH]; intros H; cbn [flat_map length]; [reflexivity|].
  rewrite app_length, H by (left; reflexivity). rewrite IH by (intros y Hy; apply H; right; exact Hy). lia.
Qed.

Lemma cache_addrs_length c :
  length (cache_addrs c) =
  (Z.to_nat (2 ^ ibits (cfg c)) * (Z.to_nat (assoc (cfg c)) * Z.to_nat (bsize (bbits (cfg c)))))%nat.
Proof.
  unfold cache_addrs. rewrite (flat_map_const_length _ (Z.to_nat (assoc (cfg c)) * Z.to_nat (bsize (bbits (cfg c))))).
  - rewrite zrange_from_length. reflexivity.
  - intros i _. rewrite (flat_map_const_length _ (Z.to_nat (bsize (bbits (cfg c))))).
    + rewrite zrange_from_length. reflexivity.
    + intros bi _. unfold frame_addrs. apply zrange_from_length.
Qed.

Lemma cache_addrs_in c m a b : SInvC c m -> in32b a -> res_block c a = Some b -> In a (cache_addrs c).
Proof.
  intros HS Ha Hr. destruct (res_block_Some c m a b HS Hr) as (Hv & Hb & _ & Hba & k & Hk & Ek).
  pose proof (sinv_idx c m a HS) as Hi.
  unfold cache_addrs. apply in_flat_map. exists (da_idx (cdecode c a)). split.
  { apply zrange_from_In. lia. }
  apply in_flat_map. exists k. split; [apply zrange_from_In; lia|].
  unfold frame_addrs. rewrite <- Ek. apply zrange_from_In.
  pose proof (proj2 (blk_range c m _ b a HS Hb Hv Ha) (eq_sym Hba)) as Hr2.
  pose proof (bsize_pos (bbits (cfg c)) ltac:(destruct (sinv_geom c m HS); lia)). lia.
Qed.

Lemma flat_of_get d a : CInv d -> in32b a -> mget (flat_of d) a = logical d a.
Proof.
  intros HC Ha. pose proof (cinv_sinv d HC) as HS. unfold flat_of.
  destruct (in_dec Z.eq_dec a (cache_addrs (dc d))) as [Hi|Hni]; [apply overlay_in; exact Hi|].
  rewrite overlay_notin by exact Hni. unfold logical, logicalC.
  destruct (res_block (dc d) a) as [b|] eqn:Hr; [|reflexivity].
  exfalso. apply Hni. apply (cache_addrs_in _ _ a b HS Ha Hr).
Qed.

Lemma flat_of_Flat d : CInv d -> Flat (flat_of d) d.
Proof. intros HC a Ha. apply flat_of_get; assumption. Qed.

Lemma flat_of_bytes d : CInv d -> bytes_ok (flat_of d).
Proof.
  intros HC k. pose proof (cinv_sinv d HC) as HS. unfold flat_of.
  destruct (in_dec Z.eq_dec k (cache_addrs (dc d))) as [Hi|Hni].
  - rewrite overlay_in by exact Hi. apply (logical_byte _ _ k HS).
  - rewrite overlay_notin by exact Hni. apply (sinv_bytes _ _ HS).
Qed.

(** * Size: the C-string scan fuel of a cached memory system exceeds the size of [flat_of] *)
Lemma flat_of_length d : CInv d ->
  (length (flat_of d) <
   S (length (lower d) +
      4 * Z.to_nat (2 ^ ibits (cfg (dc d)) * assoc (cfg (dc d)) * 2 ^ bbits (cfg (dc d)) + 1)))%nat.
Proof.
  intros HC. pose proof (cinv_sinv d HC) as HS. pose proof (sinv_cfg _ _ HS) as (Hi & Hb & _ & Ha & _).
  unfold flat_of. pose proof (overlay_length (logical d) (cache_addrs (dc d)) (lower d)) as HL.
  rewrite cache_addrs_length in HL. rewrite (bsize_eq _ (proj1 Hb)) in HL.
  pose proof (p2pos _ Hi) as Pi. pose proof (p2pos _ (proj1 Hb)) as Pb.
  set (I := 2 ^ ibits (cfg (dc d))) in *. set (B := 2 ^ bbits (cfg (dc d))) in *.
  set (A := assoc (cfg (dc d))) in *.
  assert (E : (Z.to_nat I * (Z.to_nat A * Z.to_nat (4 * B)))%nat = Z.to_nat (4 * (I * A * B))).
  { rewrite <- !Z2Nat.inj_mul by nia. f_equal. lia. }
  rewrite E in HL.
  assert (E2 : (4 * Z.to_nat (I * A * B + 1))%nat = Z.to_nat (4 * (I * A * B + 1))).
  { rewrite Z2Nat.inj_mul by nia. reflexivity. }
  rewrite E2. assert (0 <= I * A * B) by nia. lia.
Qed.

(** * The flat memory operations only look at cells in [0, 2^32) *)
Definition mext (m m' : zmap) : Prop := forall a, in32b a -> mget m a = mget m' a.

Lemma mext_refl m : mext m m.
Proof. intros a _. reflexivity. Qed.
Lemma mext_sym m m' : mext m m' -> mext m' m.
Proof. intros H a Ha. symmetry. apply H. exact Ha. Qed.
Lemma mext_trans m1 m2 m3 : mext m1 m2 -> mext m2 m3 -> mext m1 m3.
Proof. intros H1 H2 a Ha. rewrite (H1 a Ha). apply H2. exact Ha. Qed.

Lemma eff_addr_rv a : eff_addr rv_memcfg a = a mod 4294967296.
Proof. reflexivity. Qed.

Lemma eff_in32b a : in32b (eff_addr rv_memcfg a).
Proof. rewrite eff_addr_rv. unfold in32b. lia. Qed.

Lemma read_cell_ext m m' a : mext m m' -> read_cell rv_memcfg m a = read_cell rv_memcfg m' a.
Proof.
  intros H. unfold read_cell. destruct (in_range rv_memcfg (eff_addr rv_memcfg a)); [|reflexivity].
  rewrite (H _ (eff_in32b a)). reflexivity.
Qed.

Lemma read_mult_ext m m' : mext m m' -> forall k a i acc,
  read_mult rv_memcfg m a k i acc = read_mult rv_memcfg m' a k i acc.
Proof.
  intros H. induction k as [|k IH]; intros a i acc; cbn [read_mult]; [reflexivity|].
  rewrite (read_cell_ext m m' _ H). destruct (read_cell rv_memcfg m' (a + i)); [apply IH | reflexivity].
Qed.

Lemma mem_read_ext m m' nbits a : mext m m' -> mem_read rv_memcfg m nbits a = mem_read rv_memcfg m' nbits a.
Proof. intros H. unfold mem_read. rewrite (read_mult_ext m m' H). reflexivity. Qed.

Lemma mext_mset m m' k v : mext m m' -> mext (mset m k v) (mset m' k v).
Proof. intros H a Ha. rewrite !mget_mset. destruct (k =? a); [reflexivity | apply H; exact Ha]. Qed.

Lemma write_mult_ext : forall k m m' a i v, mext m m' ->
  snd (write_mult rv_memcfg m a k i v) = snd (write_mult rv_memcfg m' a k i v) /\
  mext (fst (write_mult rv_memcfg m a k i v)) (fst (write_mult rv_memcfg m' a k i v)).
Proof.
  induction k as [|k IH]; intros m m' a i v H; cbn [write_mult fst snd]; [split; [reflexivity | exact H]|].
  unfold write_cell. destruct (in_range rv_memcfg (eff_addr rv_memcfg (a + i))).
  - apply IH. apply mext_mset. exact H.
  - cbn [fst snd]. split; [reflexivity | exact H].
Qed.

Lemma mem_write_ext m m' nbits a v : mext m m' ->
  snd (mem_write rv_memcfg m nbits a v) = snd (mem_write rv_memcfg m' nbits a v) /\
  mext (fst (mem_write rv_memcfg m nbits a v)) (fst (mem_write rv_memcfg m' nbits a v)).
Proof. intros H. unfold mem_write. apply write_mult_ext. exact H. Qed.

(* Flat in terms of mext *)
Lemma Flat_mext f f' d : Flat f d -> mext f f' -> Flat f' d.
Proof. intros HF H a Ha. rewrite <- (H a Ha). apply HF. exact Ha. Qed.

Lemma Flat_unique f f' d : Flat f d -> Flat f' d -> mext f f'.
Proof. intros H1 H2 a Ha. rewrite (H1 a Ha), (H2 a Ha). reflexivity. Qed.
