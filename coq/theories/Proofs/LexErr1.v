(* LexErr1.v — what Model/Lex.v guarantees about the token records it returns (the hypothesis rv_tokens_wf of
   Props/C15.v): registers are names of the table, the fields of the mnemonic's syntax class are present. *)
From Coq Require Import String.
From Coq Require Import ZArith List Bool Lia ZifyBool.
From ArchSim Require Import Model.Base Model.Mem Model.Cache Model.Fmt Model.RV Model.Toy Model.Asm Model.Lex
  Proofs.C15Proofs Proofs.LexProofs2.
Import ListNotations.
Open Scope Z_scope.

(* itok_wf, on the lexer's records *)
Definition ntok_wf (i : ntok) : Prop :=
  let mn := n_mn i in
  (opt_reg_ok (n_rd i) /\ opt_reg_ok (n_rs1 i) /\ opt_reg_ok (n_rs2 i) /\
   opt_reg_ok (n_reg1 i) /\ opt_reg_ok (n_reg2 i) /\ opt_reg_ok (n_rs i)) /\
  (0 <= mn <= 17 -> n_rd i <> None /\ n_rs1 i <> None /\ n_rs2 i <> None) /\
  (18 <= mn <= 26 \/ mn = 33 \/ mn = 46 -> n_reg1 i <> None /\ n_reg2 i <> None /\ n_imm i <> None) /\
  (27 <= mn <= 32 -> n_reg1 i <> None /\ (n_var i = None -> n_reg2 i <> None /\ n_imm i <> None)) /\
  (34 <= mn <= 36 -> n_reg1 i <> None /\ n_reg2 i <> None /\ (n_var i = None -> n_imm i <> None)) /\
  (37 <= mn <= 42 -> n_reg1 i <> None /\ n_reg2 i <> None) /\
  (43 <= mn <= 44 -> n_rd i <> None /\ n_imm i <> None) /\
  (mn = 45 -> n_rd i <> None) /\
  (48 <= mn <= 50 -> n_rd i <> None /\ n_csr i <> None /\ n_rs1 i <> None) /\
  (51 <= mn <= 53 -> n_rd i <> None /\ n_csr i <> None /\ n_uimm i <> None) /\
  (mn = 54 -> n_rd i <> None /\ n_imm i <> None) /\
  (mn = 55 -> n_var i <> None -> n_reg1 i <> None) /\
  (mn = 56 -> n_rd i <> None /\ n_rs i <> None).

Lemma intern_tok_wf names t : ntok_wf t -> itok_wf (snd (intern_tok names t)).
Proof.
  unfold intern_tok. destruct (intern_opt names (n_label t)) as [t1 lab].
  destruct t as [mn rd rs1 rs2 reg1 reg2 rs imm csr uimm off lb [[v idx]|]]; cbn [n_var].
  - destruct (intern t1 v) as [t' k]. unfold ntok_wf, itok_wf. cbn. intros H. decompose [and] H. clear H.
    repeat split; intros; try tauto; try discriminate; intuition (try discriminate; auto).
  - unfold ntok_wf, itok_wf. cbn. intros H. decompose [and] H. clear H.
    repeat split; intros; try tauto; try discriminate; intuition (try discriminate; auto).
Qed.

(** registers *)
Lemma abi_known : forallb (fun w => match assoc_str abi_table w with Some _ => true | None => false end) abi_names = true.
Proof. vm_compute. reflexivity. Qed.
Lemma p_reg_known s a r : p_reg s = Some (a, r) -> opt_reg_ok (Some a).
Proof.
  unfold p_reg. intros H t Ht. inversion Ht; subst t. clear Ht.
  pose proof (lit_best_spec abi_names (skip_ws s)) as S. destruct (lit_best abi_names (skip_ws s)) as [[w q]|].
  - inversion H; subst. destruct S as (Hin & _). pose proof abi_known as K. rewrite forallb_forall in K.
    specialize (K _ Hin). cbn [reg_num]. destruct (assoc_str abi_table w); [discriminate|discriminate].
  - destruct (lit [120] (skip_ws s)) as [q|]; [|discriminate].
    destruct (lit_best reg_numbers (skip_ws q)) as [[d q']|]; [|discriminate]. inversion H; subst. cbn. discriminate.
Qed.

(** mnemonic numbers *)
Lemma kw_best_in syms : forall s n p r, kw_best syms s = Some (n, p, r) -> In n (map snd syms).
Proof.
  induction syms as [|[w k] syms IH]; intros s n p r H; [discriminate|]. cbn [kw_best] in H. cbn [map snd].
  destruct (ci_lit ci_regex w s) as [[p1 r1]|].
  - destruct (kw_best syms s) as [[[n2 p2] r2]|] eqn:E.
    + destruct (Nat.ltb (List.length r2) (List.length r1)).
      * right. inversion H; subst. eapply IH, E.
      * left. inversion H; reflexivity.
    + left. inversion H; reflexivity.
  - right. eapply IH, H.
Qed.
Lemma kw_in syms s n p r : kw syms s = Some (n, p, r) -> In n (map snd syms).
Proof. apply kw_best_in. Qed.

Lemma orn : opt_reg_ok None.  Proof. intros t H. discriminate. Qed.

(* invert a chain of option matches *)
Ltac inv H :=
  repeat first
  [ match type of H with
    | match ?e with Some _ => _ | None => None end = Some _ =>
        let E := fresh "E" in destruct e eqn:E; [|discriminate H]
    end
  | match type of H with
    | (let (_, _) := ?p in _) = Some _ => destruct p
    end ].
Ltac regs := repeat match goal with E : p_reg _ = Some (?a, _) |- _ => apply p_reg_known in E end.
Ltac fin_wf :=
  unfold ntok_wf, MN_LA, MN_MV, MN_LI, MN_JAL; cbn [n_mn n_rd n_rs1 n_rs2 n_reg1 n_reg2 n_rs n_imm n_csr n_uimm n_offset n_label n_var
                          tok_rd_imm tok_r1_r2_imm];
  repeat split; try assumption; try apply orn; intros; try discriminate; try lia; try congruence.
Ltac by_mn Hin := cbn in Hin; unfold MN_LA, MN_MV, MN_LI, MN_JAL in Hin; repeat (destruct Hin as [<-|Hin]; [fin_wf|]); try contradiction.

Ltac kwfin := match goal with E : kw _ _ = Some _ |- _ => apply kw_in in E; regs; by_mn E end.

Lemma alt_r_wf s p t r : alt_r s = Some ((p, NIns t), r) -> ntok_wf t.
Proof. unfold alt_r, ins. intros H. inv H. inversion H; subst. kwfin. Qed.
Lemma alt_u_wf s p t r : alt_u s = Some ((p, NIns t), r) -> ntok_wf t.
Proof. unfold alt_u, ins. intros H. inv H. inversion H; subst. kwfin. Qed.
Lemma alt_b_wf s p t r : alt_b s = Some ((p, NIns t), r) -> ntok_wf t.
Proof. unfold alt_b, ins. intros H. inv H. inversion H; subst. kwfin. Qed.
Lemma alt_mem_wf s p t r : alt_mem s = Some ((p, NIns t), r) -> ntok_wf t.
Proof. unfold alt_mem, ins. intros H. inv H. inversion H; subst. kwfin. Qed.
Lemma alt_memp_wf s p t r : alt_memp s = Some ((p, NIns t), r) -> ntok_wf t.
Proof. unfold alt_memp, ins. intros H. inv H. inversion H; subst. kwfin. Qed.
Lemma alt_sp_wf s p t r : alt_sp s = Some ((p, NIns t), r) -> ntok_wf t.
Proof. unfold alt_sp, ins. intros H. inv H. inversion H; subst. kwfin. Qed.
Lemma alt_csr_wf s p t r : alt_csr s = Some ((p, NIns t), r) -> ntok_wf t.
Proof. unfold alt_csr, ins. intros H. inv H. inversion H; subst. kwfin. Qed.
Lemma alt_csri_wf s p t r : alt_csri s = Some ((p, NIns t), r) -> ntok_wf t.
Proof. unfold alt_csri, ins. intros H. inv H. inversion H; subst. kwfin. Qed.
Lemma alt_rri_wf s p t r : alt_rri s = Some ((p, NIns t), r) -> ntok_wf t.
Proof. unfold alt_rri, ins. intros H. inv H. inversion H; subst. kwfin. Qed.
Lemma alt_rr_wf s p t r : alt_rr s = Some ((p, NIns t), r) -> ntok_wf t.
Proof. unfold alt_rr, ins. intros H. inv H. inversion H; subst. kwfin. Qed.
Lemma alt_fence_wf s p t r : alt_fence s = Some ((p, NIns t), r) -> ntok_wf t.
Proof. unfold alt_fence, ins. intros H. inv H. inversion H; subst. regs. fin_wf. Qed.
Lemma alt_li_wf s p t r : alt_li s = Some ((p, NIns t), r) -> ntok_wf t.
Proof. unfold alt_li, ins. intros H. inv H. inversion H; subst. regs. fin_wf. Qed.
Lemma alt_jal_wf s p t r : alt_jal s = Some ((p, NIns t), r) -> ntok_wf t.
Proof.
  unfold alt_jal, ins. intros H. inv H. destruct (p_imm _) as [[i q]|].
  - inversion H; subst. regs. fin_wf.
  - inv H. inversion H; subst. regs. fin_wf.
Qed.
Lemma alt_ecall_str s p t r : alt_ecall s = Some ((p, NIns t), r) -> False.
Proof. unfold alt_ecall. intros H. destruct (clit "ecall" s); [discriminate|]. destruct (clit "ebreak" s); discriminate. Qed.
Lemma alt_nop_str s p t r : alt_nop s = Some ((p, NIns t), r) -> False.
Proof. unfold alt_nop. intros H. destruct (clit "nop" s); discriminate. Qed.

Lemma fold_better_in {A} (l : list (option (A * str))) : forall acc,
  fold_left better l acc = acc \/ In (fold_left better l acc) l.
Proof.
  induction l as [|x l IH]; intros acc; [left; reflexivity|]. cbn [fold_left].
  destruct (IH (better acc x)) as [E|E].
  - rewrite E. unfold better. destruct acc as [[a ra]|], x as [[b rb]|]; auto; try (right; left; reflexivity).
    destruct (Nat.ltb (List.length rb) (List.length ra)); [right; left; reflexivity|left; reflexivity].
  - right. right. exact E.
Qed.
Lemma or_longest_in {A} (l : list (option (A * str))) x : or_longest l = Some x -> In (Some x) l.
Proof.
  unfold or_longest. intros H. destruct (fold_better_in l None) as [E|E]; [congruence|]. rewrite H in E. exact E.
Qed.

Lemma alt_instruction_wf s ok il t r : alt_instruction s = Some ((ok, NInstr il (NIns t)), r) -> ntok_wf t.
Proof.
  unfold alt_instruction. destruct (p_inline s) as [il0 r0].
  destruct (or_longest (map (fun a => a r0) instr_alts)) as [[[p b] r']|] eqn:E; [|discriminate].
  intros H. cbn [fst snd] in H. inversion H; subst. apply or_longest_in in E. unfold instr_alts in E. cbn [map In] in E.
  repeat (destruct E as [E|E]; [first [eapply alt_r_wf, E|eapply alt_u_wf, E|eapply alt_b_wf, E|eapply alt_mem_wf, E
    |eapply alt_memp_wf, E|eapply alt_sp_wf, E|eapply alt_csr_wf, E|eapply alt_csri_wf, E|eapply alt_rri_wf, E
    |eapply alt_fence_wf, E|eapply alt_jal_wf, E|exfalso; eapply alt_ecall_str, E|exfalso; eapply alt_nop_str, E
    |eapply alt_li_wf, E|eapply alt_rr_wf, E]|]).
  contradiction.
Qed.

Lemma lex_core_wf s il t : lex_core s = LexOk (NInstr il (NIns t)) -> ntok_wf t.
Proof.
  unfold lex_core.
  destruct (or_longest _) as [[[ok l] r]|] eqn:E; [|discriminate].
  destruct (skip_ws r); [|discriminate]. destruct ok; [|discriminate]. intros H. inversion H; subst.
  apply or_longest_in in E. cbn [In] in E.
  destruct E as [E|[E|[E|[E|[E|[E|[]]]]]]].
  - unfold alt_directive in E. inv E. discriminate.
  - unfold alt_vardecl in E. inv E. discriminate.
  - unfold alt_strdecl in E. inv E. discriminate.
  - unfold alt_zerodecl in E. inv E. discriminate.
  - eapply alt_instruction_wf, E.
  - unfold alt_labeldecl in E. inv E. discriminate.
Qed.

Lemma lex_line_wf l il t : lex_line l = LexOk (NInstr il (NIns t)) -> ntok_wf t.
Proof. unfold lex_line. destruct (sanitize l); [apply lex_core_wf|discriminate]. Qed.
