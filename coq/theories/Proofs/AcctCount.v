(* Proofs/AcctCount.v — the data-cache access counter of a single-cycle run counts the executed
   loads and stores, each exactly once (property C09, program level, second half). *)
From Coq Require Import Lia ZifyBool.
From ArchSim Require Import Spec.RefCache.
From ArchSim Require Import Model.Base Model.Mem Model.Cache Model.Fmt Model.RV Model.Single
  Model.RVSplit Model.Pipe
  Proofs.WordLemmas Proofs.C01Step Proofs.SplitExec Proofs.PipeLaws
  Proofs.LiftFlat Proofs.LiftAccess Proofs.LiftSim Proofs.LiftEcall Proofs.LiftSingle Proofs.LiftPipe
  Proofs.LiftICache Proofs.AcctRead Proofs.AcctExec.
Open Scope Z_scope.
Local Arguments Z.mul : simpl never.
Local Arguments Z.add : simpl never.
Local Arguments Z.sub : simpl never.
Local Arguments Z.of_nat : simpl never.

Definition is_ldst (i : instr) : bool :=
  match i with ILoad _ _ _ _ | IStore _ _ _ _ => true | _ => false end.

(** * One accepted access moves the access counter by exactly one *)
Lemma dc_read_acc d nb a v d' p : dc_read d nb a true = (Ok v, d', p) -> accesses d' = accesses d + 1.
Proof.
  unfold dc_read. intros H. destruct (dc_read_block d (cdecode (dc d) a)) as [rb d1] eqn:Hb.
  apply dc_read_block_counters in Hb. destruct Hb as (_ & _ & Ha & _).
  destruct rb as [[blk hit]|e]; [|discriminate]. unfold upd_stats in H. injection H as _ <- _.
  cbn [accesses]. lia.
Qed.

Lemma dc_write_acc d nb a v d' p : dc_write d nb a v false = (None, d', p) -> accesses d' = accesses d + 1.
Proof.
  unfold dc_write. intros H. destruct (wthrough d).
  - destruct (_ && _); [discriminate|]. destruct (_ && _); [discriminate|].
    destruct (cache_read_block (dc d) (cdecode (dc d) a)) as [ob c1]. unfold upd_stats in H. cbv zeta in H.
    destruct ob as [blk|].
    + destruct (into_block nb (cdecode (dc d) a) blk v) as [blk'|e]; [|discriminate].
      destruct (cache_write_block _ _ _) as [[h dsp] c2].
      destruct (mem_write rv_memcfg _ nb a v) as [m' e]. injection H as _ <- _. reflexivity.
    + destruct (mem_write rv_memcfg _ nb a v) as [m' e]. injection H as _ <- _. reflexivity.
  - destruct (cache_read_block (dc d) (cdecode (dc d) a)) as [ob c1].
    destruct (match ob with Some blk => Ok blk | None => _ end) as [blk|e]; [|discriminate].
    destruct (into_block nb (cdecode (dc d) a) blk v) as [blk'|e]; [|discriminate].
    destruct (cache_write_block _ _ _) as [[h dsp] c2]. unfold upd_stats in H.
    destruct dsp as [[ba ws]|]; injection H as <- _; reflexivity.
Qed.

Lemma st_read_dacc s d nb a v s' : ms s = MCache d -> st_read s nb a true = (Ok v, s') -> dacc s' = dacc s + 1.
Proof.
  intros Hm H. unfold st_read, ms_read, dacc in *. rewrite Hm in *.
  destruct (dc_read d nb a true) as [[r d'] p] eqn:Hr. injection H as -> <-.
  cbn [with_cycles with_ms ms]. apply (dc_read_acc _ _ _ _ _ _ Hr).
Qed.

Lemma st_write_dacc s d nb a v s' : ms s = MCache d -> st_write s nb a v false = (None, s') -> dacc s' = dacc s + 1.
Proof.
  intros Hm H. unfold st_write, ms_write, dacc in *. rewrite Hm in *.
  destruct (dc_write d nb a v false) as [[e d'] p] eqn:Hr. injection H as -> <-.
  cbn [with_cycles with_ms ms]. apply (dc_write_acc _ _ _ _ _ _ Hr).
Qed.

Lemma st_read_uncounted_dacc s nb a r s' : st_read s nb a false = (r, s') -> dacc s' = dacc s.
Proof.
  intros H. apply st_read_law in H. destruct H as (_ & _ & [(E & _)|[(E & _)|(E & _)]]); [exact E | discriminate..].
Qed.

Lemma dacc_ms s s' : ms s' = ms s -> dacc s' = dacc s.
Proof. intros H. unfold dacc. rewrite H. reflexivity. Qed.

(** * [behavior] *)
Lemma beh_dacc i s d s2 : ms s = MCache d -> behavior i s = (s2, None) ->
  dacc s2 = dacc s + (if is_ldst i then 1 else 0).
Proof.
  intros Hm H.
  destruct (is_ldst i) eqn:El.
  - destruct i; try discriminate El; cbn [behavior] in H.
    + destruct (st_read s (load_bits o) (rget s rs1 + imm) true) as [[v|e] s'] eqn:Hr; [|discriminate].
      injection H as <-. rewrite (dacc_ms s' _ (rset_ms _ _ _)). apply (st_read_dacc s d _ _ _ _ Hm Hr).
    + destruct (st_write s (store_bits o) _ _ false) as [[e|] s'] eqn:Hw; [discriminate|].
      injection H as <-. apply (st_write_dacc s d _ _ _ _ Hm Hw).
  - rewrite Z.add_0_r. destruct (is_ecall i) eqn:Ee.
    + destruct i; try discriminate Ee. cbn [behavior] in H.
      destruct (process_ecall s) as [r s1] eqn:Hp. apply process_ecall_law in Hp.
      destruct Hp as (_ & _ & _ & Ha & _).
      destruct r as [[t|c]|e]; [| |discriminate]; injection H as <-; exact Ha.
    + apply dacc_ms. change (ms s2) with (ms (fst (s2, @None err))). rewrite <- H.
      apply (bms_noaccess i s); [|exact Ee]. destruct i; try reflexivity; discriminate El.
Qed.

(** * One single-cycle step *)
Lemma single_step_dacc s t d i s1 : sim s t -> ms s = MCache d ->
  instr_at (prog (im t)) (pc t) = Some i -> single_pipeline_step s = (s1, None) ->
  dacc s1 = dacc s + (if is_ldst i then 1 else 0).
Proof.
  intros S Hm Hi H. unfold single_pipeline_step in H. rewrite single_stage_eq in H.
  set (s0 := with_cycles s (cycles s + 1)) in *.
  assert (Hh : has_instr (im s0) (pc s0) = true).
  { unfold has_instr. change (im s0) with (im s). change (pc s0) with (pc s).
    rewrite (sm_prog _ _ S), (sm_pc _ _ S), Hi. reflexivity. }
  rewrite Hh in H. cbv zeta in H. set (s1' := with_icount s0 (icount s0 + 1)) in *.
  assert (S1 : sim s1' (with_icount t (icount s0 + 1))).
  { apply sim_with_icount; [apply sim_cycles_l; exact S | reflexivity]. }
  destruct (fetch s1' (pc s1')) as [oi s1f] eqn:Hf.
  destruct (sim_fetch_l s1' _ _ oi s1f S1 Hh Hf) as (_ & Eoi & Hms & _).
  change (prog (im s1')) with (prog (im s)) in Eoi. change (pc s0) with (pc s) in Eoi.
  rewrite (sm_prog _ _ S), (sm_pc _ _ S), Hi in Eoi. subst oi.
  assert (Hm1 : ms s1f = MCache d) by (rewrite Hms; exact Hm).
  destruct (behavior i s1f) as [s2 [e|]] eqn:Hb; [discriminate|].
  pose proof (beh_dacc i s1f d s2 Hm1 Hb) as Hd.
  destruct (reread i s2 (load_addr_pre i s1f)) as [s3 [e|]] eqn:Hr; [discriminate|]. injection H as <-.
  assert (Hd3 : dacc s3 = dacc s2).
  { unfold reread in Hr. destruct i; try (injection Hr as <-; reflexivity).
    destruct (st_read s2 (load_bits o) _ false) as [[v|e] s'] eqn:Hrr; [|discriminate].
    injection Hr as <-. apply (st_read_uncounted_dacc _ _ _ _ _ Hrr). }
  change (dacc (with_pc s3 (pc s3 + 4))) with (dacc s3). rewrite Hd3, Hd. apply f_equal2; [|reflexivity].
  apply dacc_ms. exact Hms.
Qed.

(** * Runs *)
(* the instructions executed (completed without fault) by [single_run fuel s], in order *)
Fixpoint single_instrs (fuel : nat) (s : st) : list instr :=
  match fuel with
  | O => []
  | S k => if single_done s then []
           else match single_pipeline_step s with
                | (_, Some _) => []
                | (s', None) => match instr_at (prog (im s)) (pc s) with Some i => [i] | None => [] end
                                ++ single_instrs k s'
                end
  end.
Definition count_ldst (l : list instr) : Z := Z.of_nat (length (filter is_ldst l)).

Lemma count_ldst_cons i l : count_ldst (i :: l) = (if is_ldst i then 1 else 0) + count_ldst l.
Proof. unfold count_ldst. cbn [filter]. destruct (is_ldst i); cbn [length]; lia. Qed.

Lemma dacc_run n : forall s t d, sim s t -> ms s = MCache d ->
  match single_run n s with
  | (s', Faulted _) => True
  | (s', _) => dacc s' = dacc s + count_ldst (single_instrs n s)
  end.
Proof.
  induction n as [|n IH]; intros s t d Hsim Hm; cbn [single_run single_instrs].
  - destruct (single_done s); unfold count_ldst; cbn; lia.
  - destruct (single_done s) eqn:Hd; [unfold count_ldst; cbn; lia|].
    destruct (single_pipeline_step s) as [s1 of] eqn:Hs.
    destruct (sim_single_step s t s1 of Hsim Hs) as (t1 & of' & Ht & Hcfg & Hres).
    destruct of as [f|]; [exact Logic.I|].
    assert (Hi : exists i, instr_at (prog (im s)) (pc s) = Some i).
    { unfold single_done, has_instr in Hd. destruct (exitc s); [discriminate|].
      destruct (instr_at (prog (im s)) (pc s)) as [i|]; [exists i; reflexivity | discriminate]. }
    destruct Hi as [i Hi]. rewrite Hi in Hres |- *.
    assert (S1 : sim s1 t1) by (destruct (rejects _ _ _); [destruct Hres as [E _]; discriminate | tauto]).
    assert (Hm1 : exists d1, ms s1 = MCache d1).
    { rewrite Hm in Hcfg. destruct (ms s1) as [m|d1]; [discriminate | exists d1; reflexivity]. }
    destruct Hm1 as [d1 Hm1]. specialize (IH s1 t1 d1 S1 Hm1).
    assert (Hi' : instr_at (prog (im t)) (pc t) = Some i) by (rewrite <- (sm_prog _ _ Hsim), <- (sm_pc _ _ Hsim); exact Hi).
    pose proof (single_step_dacc s t d i s1 Hsim Hm Hi' Hs) as Hstep.
    destruct (single_run n s1) as [s' [|f|]]; [|exact Logic.I|];
      cbn [app]; rewrite count_ldst_cons; lia.
Qed.

Lemma dcache_counts_lem n s d s' r : cache_ok s -> ms s = MCache d ->
  single_run n s = (s', r) -> (forall f, r <> Faulted f) ->
  dacc s' = dacc s + count_ldst (single_instrs n s).
Proof.
  intros Hok Hm Hrun Hnf. pose proof (dacc_run n s _ d (sim_flatten s Hok) Hm) as H. rewrite Hrun in H.
  destruct r as [|f|]; [exact H | exfalso; apply (Hnf f); reflexivity | exact H].
Qed.
