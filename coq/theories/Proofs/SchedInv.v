(* SchedInv.v — layer 2 of the timing theorem of C07, pure part: the timing invariant [T] between
   an abstract view of the pipeline (which latches are occupied, the stall mode, how many
   instructions have retired, how many steps were made) and the execute cycles [X] of the
   documented recurrence, and its preservation by each kind of cycle that SchedStep.v distinguishes.
   Nothing here mentions the pipeline model; [ev] is any event stream.

   View:  o0..o3  occupancy of latches 0..3,  md  the stall register,  k  retired instructions,
          t  steps made.  The instructions in flight are k, k+1, ... in latches 3, 2, 1, 0 (oldest
          first, skipping bubbles) up to the barrier — the first redirecting one. *)
From Coq Require Import Lia ZifyBool.
From ArchSim Require Import Model.Base Model.Mem Model.Cache Model.Fmt Model.RV Model.Single
  Model.RVSplit Model.Pipe Proofs.PipeLaws Proofs.PipeShape Proofs.PipeInv Proofs.SchedDefs
  Proofs.SchedRec.
Open Scope nat_scope.

Definition b2n (b : bool) : nat := if b then 1 else 0.
(* remaining stall cycles; remaining cycles of a stall at EX *)
Definition dm (md : option (Z * Z)) : nat := match md with Some (_, d) => Z.to_nat d | None => 0 end.
Definition m2 (md : option (Z * Z)) : nat :=
  match md with Some (k, d) => if (k =? 2)%Z then Z.to_nat d else 0 | None => 0 end.
(* will an ecall in latch 1 find MEM or WB occupied when it reaches EX *)
Definition bz (md : option (Z * Z)) (o2 o3 : bool) : bool :=
  match md with None => o2 || o3 | Some (k, _) => (k =? 2)%Z end.

Section Pure.
Variable ev : nat -> event.
Variable N : nat.
Hypothesis ecall_nodst : forall j e, ev_ecall (ev j) = true -> dst_in (ev j) e = false.

Notation Xf := (X ev).
Definition rd (j : nat) : bool := ev_redirect (ev j).
Definition ec (j : nat) : bool := ev_ecall (ev j).

Section View.
Variables (o0 o1 o2 o3 : bool) (k : nat).
Definition j2 := k + b2n o3.
Definition j1 := j2 + b2n o2.
Definition j0 := j1 + b2n o1.
Definition jF := j0 + b2n o0.
(* wrong-path positions among [fetch; latch 0; latch 1] *)
Definition deadf : nat :=
  if o2 && rd j2 then 3 else if o1 && rd j1 then 2 else if o0 && rd j0 then 1 else 0.
End View.

Record T (t : nat) (o0 o1 o2 o3 : bool) (md : option (Z * Z)) (k : nat) : Prop := mkT {
  T_R : 0 < k -> Xf (k - 1) + 2 <= t;
  T_3 : o3 = true -> Xf k + 1 = t;
  T_2 : o2 = true -> Xf (j2 o3 k) = t + m2 md;
  T_1 : o1 = true -> deadf o0 o1 o2 o3 k <= 2 ->
        Xf (j1 o2 o3 k) = t + 1 + dm md + (if ec (j1 o2 o3 k) && bz md o2 o3 then 2 else 0);
  T_0 : o0 = true -> deadf o0 o1 o2 o3 k <= 1 -> o1 = false ->
        Xf (j0 o1 o2 o3 k) = t + 2 /\ md = None /\ o2 = false /\ o3 = false;
  T_F : deadf o0 o1 o2 o3 k = 0 -> o0 = false -> jF o0 o1 o2 o3 k < N ->
        Xf (jF o0 o1 o2 o3 k) = t + 3 /\ o1 = false /\ o2 = false /\ md = None }.

Lemma T_init : T 0 false false false false None 0.
Proof.
  constructor; try discriminate; try lia.
  intros _ _ _. cbn. rewrite X_0. repeat split.
Qed.

(* unfold the index arithmetic to canonical successors *)
Ltac idx := repeat (progress (unfold jF, j0, j1, j2, deadf, rd, ec in * ));
            cbn [b2n andb orb bz dm m2 Z.eqb Pos.eqb Z.to_nat Pos.to_nat Pos.iter_op] in *;
            rewrite ?Nat.add_0_r, ?Nat.add_1_r in *.

Ltac sub1 := repeat match goal with
  | |- context [S ?a - 1] => replace (S a - 1) with a by lia
  | H : context [S ?a - 1] |- _ => replace (S a - 1) with a in H by lia
  end.

(** * A: MEM redirects; everything younger is flushed *)
Lemma T_flush3 t o0 o1 o3 md k : T t o0 o1 true o3 md k -> rd (j2 o3 k) = true -> m2 md = 0 ->
  T (S t) false false false true None (k + b2n o3).
Proof.
  intros [R H3 H2 H1 H0 HF] Hr Hm. specialize (H2 eq_refl). rewrite Hm in H2.
  pose proof (X_red ev (j2 o3 k) Hr) as Hx.
  constructor; try discriminate.
  - intros Hk. destruct o3; idx; sub1; [specialize (H3 eq_refl); lia|specialize (R Hk); lia].
  - intros _. destruct o3; idx; lia.
  - intros _ _ _. destruct o3; idx; (split; [lia|repeat split]).
Qed.

(* discharge or drop the premises of the clauses of [T] that are in the context *)
Ltac prem H :=
  repeat match type of H with
  | ?a = ?a -> _ => specialize (H eq_refl)
  | true = false -> _ => clear H
  | false = true -> _ => clear H
  | (_ <= _) -> _ => first [specialize (H ltac:(lia)) | fail 1]
  | (_ < _) -> _ => first [specialize (H ltac:(lia)) | fail 1]
  | (_ = _ :> nat) -> _ => first [specialize (H ltac:(lia)) | fail 1]
  end.

(** * B: an ecall fires in EX and exits *)
Lemma T_exit_normal t o0 k : T t o0 true false false None k -> rd k = true ->
  T (S t) false false true false None k.
Proof.
  intros [R H3 H2 H1 H0 HF] Hr. idx. rewrite Hr in *.
  constructor; idx; try discriminate; try rewrite Hr.
  - intros Hk. specialize (R Hk). lia.
  - intros _. prem H1. rewrite Bool.andb_false_r in H1. lia.
  - discriminate.
Qed.

Lemma T_exit_stall2 t o0 o1 k : T t o0 o1 true false (Some (2, 1)%Z) k -> rd k = true ->
  T (S t) false false true false None k.
Proof.
  intros [R H3 H2 H1 H0 HF] Hr. idx. rewrite Hr in *.
  constructor; idx; try discriminate; try rewrite Hr.
  - intros Hk. specialize (R Hk). lia.
  - intros _. prem H2. lia.
  - discriminate.
Qed.

(** * The drain stall of an ecall *)
Lemma T_stall2_wait t o0 o1 k : T t o0 o1 true true (Some (2, 2)%Z) k ->
  T (S t) o0 o1 true false (Some (2, 1)%Z) (S k).
Proof.
  intros [R H3 H2 H1 H0 HF]. idx.
  constructor; idx; try discriminate; sub1.
  - intros _. prem H3. lia.
  - intros _. prem H2. lia.
  - intros Ho Hd. specialize (H1 Ho Hd). lia.
  - intros Ho Hd Ho1. destruct (H0 Ho Hd Ho1) as (_ & Hm & _). discriminate Hm.
  - intros Hd Ho Hj. destruct (HF Hd Ho Hj) as (_ & _ & _ & Hm). discriminate Hm.
Qed.

Lemma T_stall2_fire t o0 o1 k : T t o0 o1 true false (Some (2, 1)%Z) k ->
  T (S t) o0 o1 true false None k.
Proof.
  intros [R H3 H2 H1 H0 HF]. idx.
  constructor; idx; try discriminate.
  - intros Hk. specialize (R Hk). lia.
  - intros _. prem H2. lia.
  - intros Ho Hd. specialize (H1 Ho Hd). rewrite Bool.andb_true_r in *. lia.
  - intros Ho Hd Ho1. destruct (H0 Ho Hd Ho1) as (_ & Hm & _). discriminate Hm.
  - intros Hd Ho Hj. destruct (HF Hd Ho Hj) as (_ & _ & _ & Hm). discriminate Hm.
Qed.

(** * The decode interlock *)
Lemma T_stall1 t o0 o2 o3 d k : T t o0 true o2 o3 (Some (1, d)%Z) k ->
  (d = 2 \/ d = 1)%Z -> (d = 1%Z -> o2 = false) -> deadf o0 true o2 o3 k <> 3 ->
  T (S t) o0 true false o2 (if (d =? 1)%Z then None else Some (1, 1)%Z) (k + b2n o3).
Proof.
  intros [R H3 H2 H1 H0 HF] Hd Hd1 Hd3.
  assert (Hdd : deadf o0 true false o2 (k + b2n o3) = deadf o0 true o2 o3 k).
  { clear - Hd3. destruct o2, o3; idx; try reflexivity;
      (destruct (ev_redirect (ev _)); [exfalso; apply Hd3; reflexivity|reflexivity]). }
  assert (Hj1 : j1 false o2 (k + b2n o3) = j1 o2 o3 k) by (unfold j1, j2; cbn [b2n]; lia).
  assert (HjF : jF o0 true false o2 (k + b2n o3) = jF o0 true o2 o3 k) by (unfold jF, j0, j1, j2; cbn [b2n]; lia).
  assert (Hm2 : m2 (Some (1, d)%Z) = 0) by reflexivity. rewrite Hm2 in H2.
  constructor; rewrite ?Hdd, ?Hj1, ?HjF; try discriminate.
  - intros Hk. destruct o3; cbn [b2n] in *; rewrite ?Nat.add_0_r, ?Nat.add_1_r in *; sub1;
      [prem H3; lia|specialize (R Hk); lia].
  - intros Ho. specialize (H2 Ho). unfold j2 in H2. lia.
  - intros _ Hd2. specialize (H1 eq_refl Hd2). cbn [bz dm Z.eqb Pos.eqb] in H1.
    rewrite Bool.andb_false_r in H1.
    destruct Hd as [-> | ->]; cbn [Z.eqb Pos.eqb dm bz].
    + rewrite Bool.andb_false_r. change (Z.to_nat 2) with 2 in H1. change (Z.to_nat 1) with 1. lia.
    + rewrite (Hd1 eq_refl) in *. cbn [orb]. rewrite Bool.andb_false_r. change (Z.to_nat 1) with 1 in H1. lia.
  - intros Hdz Ho Hj. destruct (HF Hdz Ho Hj) as (_ & _ & _ & Hm). discriminate Hm.
Qed.

(** * C: an ordinary cycle: every slot moves on by one latch *)
Lemma deadf_le3 o0 o1 o2 o3 k : deadf o0 o1 o2 o3 k <= 3.
Proof. unfold deadf. repeat match goal with |- context [if ?c then _ else _] => destruct c end; lia. Qed.

Lemma T_shift t o0 o1 o2 o3 k f hz busy :
  T t o0 o1 o2 o3 None k ->
  deadf o0 o1 o2 o3 k <> 3 ->
  busy = o1 && ec (j1 o2 o3 k) && (o2 || o3) ->
  (o0 = true -> deadf o0 o1 o2 o3 k <= 1 ->
   hz = (o1 && dst_in (ev (j1 o2 o3 k)) (ev (j0 o1 o2 o3 k))) ||
        (o2 && dst_in (ev (j2 o3 k)) (ev (j0 o1 o2 o3 k)))) ->
  (o0 = false -> hz = false) ->
  (deadf o0 o1 o2 o3 k = 0 -> f = (jF o0 o1 o2 o3 k <? N)) ->
  T (S t) f o0 o1 o2 (if busy then Some (2, 2)%Z else if hz then Some (1, 2)%Z else None) (k + b2n o3).
Proof.
  intros [R H3 H2 H1 H0 HF] Hd3 Hbusy Hhz Hhz0 Hf.
  assert (E2 : j2 o2 (k + b2n o3) = j1 o2 o3 k) by reflexivity.
  assert (E1 : j1 o1 o2 (k + b2n o3) = j0 o1 o2 o3 k) by reflexivity.
  assert (E0 : j0 o0 o1 o2 (k + b2n o3) = jF o0 o1 o2 o3 k) by reflexivity.
  assert (EF : jF f o0 o1 o2 (k + b2n o3) = jF o0 o1 o2 o3 k + b2n f) by reflexivity.
  assert (ED : deadf f o0 o1 o2 (k + b2n o3) =
               if o1 && rd (j1 o2 o3 k) then 3 else if o0 && rd (j0 o1 o2 o3 k) then 2
               else if f && rd (jF o0 o1 o2 o3 k) then 1 else 0) by reflexivity.
  pose proof (deadf_le3 o0 o1 o2 o3 k) as Hle3.
  assert (Hd2 : deadf o0 o1 o2 o3 k <= 2) by lia.
  set (md' := if busy then Some (2, 2)%Z else if hz then Some (1, 2)%Z else None).
  constructor; rewrite ?E2, ?E1, ?E0, ?EF, ?ED.
  - (* retired *)
    intros Hk. destruct o3; cbn [b2n] in *; rewrite ?Nat.add_0_r, ?Nat.add_1_r in *; sub1;
      [prem H3; lia|specialize (R Hk); lia].
  - (* latch 3 *)
    intros Ho. specialize (H2 Ho). unfold j2 in H2. cbn [m2] in H2. lia.
  - (* latch 2 *)
    intros Ho. specialize (H1 Ho Hd2). cbn [dm bz] in H1. rewrite Ho in Hbusy. cbn [andb] in Hbusy.
    rewrite <- Hbusy in H1. subst md'. destruct busy; [cbn; lia|]. destruct hz; cbn; lia.
  - (* latch 1: the decode of the slot that was in latch 0 *)
    intros Ho0 Hdd. subst o0.
    assert (Hr1 : o1 && rd (j1 o2 o3 k) = false) by (destruct (o1 && rd (j1 o2 o3 k)); [lia|reflexivity]).
    assert (Hd1 : deadf true o1 o2 o3 k <= 1).
    { revert Hd3. unfold deadf. rewrite Hr1. destruct (o2 && rd (j2 o3 k)); [congruence|].
      destruct (true && rd (j0 o1 o2 o3 k)); lia. }
    specialize (Hhz eq_refl Hd1). clear Hhz0 Hf HF Hdd.
    destruct o1.
    + (* a predecessor sits in latch 1: the recurrence *)
      cbn [andb] in Hr1, Hhz, Hbusy.
      specialize (H1 eq_refl Hd2). cbn [dm bz] in H1. rewrite <- Hbusy in H1.
      assert (Ej : j0 true o2 o3 k = S (j1 o2 o3 k)) by (unfold j0; cbn [b2n]; lia).
      rewrite Ej in *. pose proof (X_seq ev _ Hr1) as Hx. fold (ec (S (j1 o2 o3 k))) in Hx.
      assert (Hhaz : hazard ev (j1 o2 o3 k) = if busy then false else hz).
      { unfold hazard. rewrite Hhz. destruct busy.
        - assert (He : ec (j1 o2 o3 k) = true) by (destruct (ec _); [reflexivity|discriminate Hbusy]).
          rewrite (ecall_nodst _ _ He). cbn [orb].
          destruct o2, o3; cbn [orb] in Hbusy; rewrite ?Bool.andb_false_r in Hbusy; try discriminate Hbusy; idx; prem H2; prem H3;
            replace (_ =? _) with false by lia; apply Bool.andb_false_r.
        - f_equal. destruct o2, o3; idx; cbn [andb]; prem H2; prem H3.
          + replace (_ =? _) with true by lia. apply Bool.andb_true_r.
          + replace (_ =? _) with true by lia. apply Bool.andb_true_r.
          + replace (_ =? _) with false by lia. apply Bool.andb_false_r.
          + destruct k as [|h]; [reflexivity|]. prem R. sub1.
            replace (_ =? _) with false by lia. apply Bool.andb_false_r. }
      rewrite Hhaz in Hx. subst md'. destruct busy; cbn [dm bz Z.eqb Pos.eqb Z.to_nat Pos.to_nat Pos.iter_op].
      * rewrite Bool.andb_true_r. destruct (ec (S _)); lia.
      * destruct hz; cbn [dm bz Z.eqb Pos.eqb Z.to_nat Pos.to_nat Pos.iter_op orb].
        -- rewrite Bool.andb_false_r. lia.
        -- rewrite Bool.andb_true_r. destruct (ec (S _)); lia.
    + (* nothing in latch 1: the slot was fetched after a redirect (or is the first) *)
      destruct (H0 eq_refl Hd1 eq_refl) as (Hx & _ & -> & ->).
      cbn [andb orb] in Hbusy, Hhz. subst busy hz md'. cbn [dm bz orb]. rewrite Bool.andb_false_r. lia.
  - (* latch 0: the slot just fetched *)
    intros -> Hdd ->. clear Hhz. specialize (Hhz0 eq_refl). subst hz.
    assert (Hr1 : o1 && rd (j1 o2 o3 k) = false) by (destruct (o1 && rd (j1 o2 o3 k)); [lia|reflexivity]).
    assert (Hd0 : deadf false o1 o2 o3 k = 0).
    { revert Hd3. unfold deadf. rewrite Hr1. cbn [andb]. destruct (o2 && rd (j2 o3 k)); [congruence|reflexivity]. }
    specialize (Hf Hd0). symmetry in Hf. apply Nat.ltb_lt in Hf.
    destruct (HF Hd0 eq_refl Hf) as (Hx & -> & -> & _).
    cbn [andb] in Hbusy. subst busy md'. repeat split. lia.
  - (* the fetch position *)
    intros Hdd -> Hj. exfalso. cbn [b2n andb] in *. rewrite Nat.add_0_r in Hj.
    assert (Hd0 : deadf o0 o1 o2 o3 k = 0).
    { revert Hd3 Hdd. unfold deadf. destruct (o2 && rd (j2 o3 k)); [congruence|].
      destruct (o1 && rd (j1 o2 o3 k)); [discriminate|]. destruct (o0 && rd (j0 o1 o2 o3 k)); [discriminate|].
      reflexivity. }
    specialize (Hf Hd0). symmetry in Hf. apply Nat.ltb_ge in Hf. lia.
Qed.

End Pure.
