(* ToyLexProofs1.v — token-level lemmas for Model/ToyLex.v: each token reader, applied to
   blanks ++ token ++ rest, returns the token and rest (rest not continuing the token). *)
From Coq Require Import Lia ZifyBool.
From ArchSim Require Import Model.Base Model.Fmt Model.Toy Model.ToyLex.
Open Scope Z_scope.

(** * vocabulary *)
Definition blank (c : Z) : bool := (c =? 32) || (c =? 9).           (* space, tab *)
Definition blanks (w : str) : bool := forallb blank w.
(* the next character does not continue a word / number *)
Definition stop (s : str) : bool := match s with [] => true | c :: _ => negb (is_alnum_ c) end.
Definition is_word (n : str) : bool :=
  match n with c :: w => is_alpha_ c && forallb is_alnum_ w | [] => false end.
Definition is_dec (v : str) : bool := match v with [] => false | _ => forallb is_digit v end.
Definition is_hexlit (v : str) : bool :=
  match v with
  | c1 :: c2 :: h => (c1 =? 48) && (c2 =? 120) && negb (match h with [] => true | _ => false end) && forallb is_hexdigit h
  | _ => false
  end.
Definition is_value (v : str) : bool := is_hexlit v || is_dec v.

Ltac cls := unfold blank, is_pws, is_pyspace, is_linebreak, is_alnum_, is_alpha_, is_hexdigit, is_digit,
              is_upper, is_lower, in_range in *.

Lemma blank_pws c : blank c = true -> is_pws c = true.            Proof. cls; lia. Qed.
Lemma blank_pyspace c : blank c = true -> is_pyspace c = true.    Proof. cls; lia. Qed.
Lemma blank_not_alnum c : blank c = true -> is_alnum_ c = false.  Proof. cls; lia. Qed.
Lemma alnum_not_pws c : is_alnum_ c = true -> is_pws c = false.   Proof. cls; lia. Qed.
Lemma alpha_alnum c : is_alpha_ c = true -> is_alnum_ c = true.   Proof. cls; lia. Qed.
Lemma digit_alnum c : is_digit c = true -> is_alnum_ c = true.    Proof. cls; lia. Qed.
Lemma hexdigit_alnum c : is_hexdigit c = true -> is_alnum_ c = true. Proof. cls; lia. Qed.
Lemma digit_hexdigit c : is_digit c = true -> is_hexdigit c = true. Proof. cls; lia. Qed.
Lemma alnum_not_pyspace c : is_alnum_ c = true -> is_pyspace c = false. Proof. cls; lia. Qed.

Lemma blanks_app a b : blanks (a ++ b) = blanks a && blanks b.
Proof. apply forallb_app. Qed.

Lemma stop_blanks g r : blanks g = true -> stop r = true -> stop (g ++ r) = true.
Proof.
  destruct g as [|c g]; [intros _ H; exact H|].
  cbn [blanks forallb app stop]. intros H _. apply andb_prop in H as [H _].
  rewrite blank_not_alnum by exact H. reflexivity.
Qed.
Lemma stop_cons c r : is_alnum_ c = false -> stop (c :: r) = true.
Proof. intros H. cbn [stop]. rewrite H. reflexivity. Qed.

(** * scanning *)
Lemma drop_while_app p a s : forallb p a = true -> drop_while p (a ++ s) = drop_while p s.
Proof.
  induction a as [|c a IH]; [reflexivity|].
  cbn [forallb app drop_while]. intros H. apply andb_prop in H as [Hc Ha]. rewrite Hc. apply IH, Ha.
Qed.
Lemma drop_while_stop p c s : p c = false -> drop_while p (c :: s) = c :: s.
Proof. intros H. cbn [drop_while]. rewrite H. reflexivity. Qed.

Lemma blanks_pws w : blanks w = true -> forallb is_pws w = true.
Proof.
  induction w as [|c w IH]; [reflexivity|]. cbn [blanks forallb]. intros H.
  apply andb_prop in H as [Hc Hw]. rewrite (blank_pws _ Hc). apply IH, Hw.
Qed.
Lemma blanks_pyspace w : blanks w = true -> forallb is_pyspace w = true.
Proof.
  induction w as [|c w IH]; [reflexivity|]. cbn [blanks forallb]. intros H.
  apply andb_prop in H as [Hc Hw]. rewrite (blank_pyspace _ Hc). apply IH, Hw.
Qed.

Lemma skip_ws_blanks w s : blanks w = true -> skip_ws (w ++ s) = skip_ws s.
Proof. intros H. apply drop_while_app, blanks_pws, H. Qed.
Lemma skip_ws_stop c s : is_pws c = false -> skip_ws (c :: s) = c :: s.
Proof. apply drop_while_stop. Qed.
Lemma skip_ws_nil : skip_ws [] = [].
Proof. reflexivity. Qed.

Lemma span_app p a rest : forallb p a = true ->
  match rest with [] => True | c :: _ => p c = false end -> span p (a ++ rest) = (a, rest).
Proof.
  intros Ha Hr. induction a as [|c a IH].
  - destruct rest as [|c r]; [reflexivity|]. cbn [app span]. rewrite Hr. reflexivity.
  - cbn [forallb] in Ha. apply andb_prop in Ha as [Hc Ha]. cbn [app span]. rewrite Hc, (IH Ha). reflexivity.
Qed.

Lemma span_decomp p s : s = fst (span p s) ++ snd (span p s).
Proof.
  induction s as [|c s IH]; [reflexivity|]. cbn [span]. destruct (p c); [|reflexivity].
  destruct (span p s) as [a b]. cbn [fst snd app] in *. rewrite <- IH. reflexivity.
Qed.
Lemma drop_while_suffix p s : exists a, s = a ++ drop_while p s.
Proof.
  induction s as [|c s [a IH]]; [exists []; reflexivity|]. cbn [drop_while]. destruct (p c).
  - exists (c :: a). cbn [app]. rewrite <- IH. reflexivity.
  - exists []. reflexivity.
Qed.

Lemma prefix_exact_app l r : prefix_exact l (l ++ r) = Some r.
Proof. induction l as [|c l IH]; [reflexivity|]. cbn [app prefix_exact]. rewrite Z.eqb_refl. exact IH. Qed.

Lemma prefix_exact_head p pt s r : prefix_exact (p :: pt) s = Some r -> exists t, s = p :: t.
Proof.
  destruct s as [|c t]; [discriminate|]. cbn [prefix_exact]. destruct (c =? p) eqn:E; [|discriminate].
  intros _. exists t. f_equal. lia.
Qed.

(** * token readers *)
Lemma lex_lit_app c l w r : blanks w = true -> is_pws c = false ->
  lex_lit (c :: l) (w ++ (c :: l) ++ r) = Some r.
Proof.
  intros Hw Hc. unfold lex_lit. rewrite skip_ws_blanks by exact Hw.
  cbn [app]. rewrite skip_ws_stop by exact Hc. apply (prefix_exact_app (c :: l) r).
Qed.

Lemma lex_lit_fail c l d s : is_pws d = false -> d <> c -> lex_lit (c :: l) (d :: s) = None.
Proof.
  intros Hd Hne. unfold lex_lit. rewrite skip_ws_stop by exact Hd. cbn [prefix_exact].
  replace (d =? c) with false by lia. reflexivity.
Qed.
Lemma lex_lit_nil c l : lex_lit (c :: l) [] = None.
Proof. reflexivity. Qed.

Lemma lex_word_app w n rest : blanks w = true -> is_word n = true -> stop rest = true ->
  lex_word (w ++ n ++ rest) = Some (n, rest).
Proof.
  intros Hw Hn Hs. unfold lex_word. rewrite skip_ws_blanks by exact Hw.
  destruct n as [|c n]; [discriminate|]. cbn [is_word] in Hn. apply andb_prop in Hn as [Hc Hn].
  cbn [app]. rewrite skip_ws_stop by (apply alnum_not_pws, alpha_alnum, Hc). rewrite Hc.
  rewrite span_app; [reflexivity | exact Hn |].
  destruct rest as [|d r]; [constructor|]. cbn [stop] in Hs. destruct (is_alnum_ d); [discriminate|reflexivity].
Qed.

Lemma lex_word_fail d s : is_pws d = false -> is_alpha_ d = false -> lex_word (d :: s) = None.
Proof. intros Hp Ha. unfold lex_word. rewrite skip_ws_stop by exact Hp. rewrite Ha. reflexivity. Qed.

Lemma stop_head p rest : (forall c, p c = true -> is_alnum_ c = true) -> stop rest = true ->
  match rest with [] => True | c :: _ => p c = false end.
Proof.
  intros Hp Hs. destruct rest as [|c r]; [constructor|]. cbn [stop] in Hs.
  destruct (p c) eqn:E; [|reflexivity]. rewrite (Hp c E) in Hs. discriminate.
Qed.

Lemma lex_hex_app w v rest : blanks w = true -> is_hexlit v = true -> stop rest = true ->
  lex_hex (w ++ v ++ rest) = Some (v, rest).
Proof.
  intros Hw Hv Hs. unfold lex_hex. rewrite skip_ws_blanks by exact Hw.
  destruct v as [|c1 [|c2 h]]; try discriminate. cbn [is_hexlit] in Hv.
  apply andb_prop in Hv as [Hv Hh]. apply andb_prop in Hv as [Hv Hne]. apply andb_prop in Hv as [H1 H2].
  assert (c1 = 48) by lia. assert (c2 = 120) by lia. subst c1 c2.
  cbn [app]. rewrite skip_ws_stop by reflexivity. cbn [Z.eqb Pos.eqb andb].
  rewrite (span_app is_hexdigit h rest Hh (stop_head _ _ hexdigit_alnum Hs)).
  destruct h as [|c3 h]; [discriminate|]. reflexivity.
Qed.

Lemma lex_hex_dec_none w v rest : blanks w = true -> is_dec v = true -> stop rest = true ->
  lex_hex (w ++ v ++ rest) = None.
Proof.
  intros Hw Hv Hs. unfold lex_hex. rewrite skip_ws_blanks by exact Hw.
  destruct v as [|c1 v]; [discriminate|]. cbn [is_dec forallb] in Hv. apply andb_prop in Hv as [H1 Hv].
  cbn [app]. rewrite skip_ws_stop by (apply alnum_not_pws, digit_alnum, H1).
  destruct v as [|c2 v].
  - cbn [app]. destruct rest as [|c2 r]; [reflexivity|]. cbn [stop] in Hs.
    replace ((c1 =? 48) && (c2 =? 120)) with false; [reflexivity|]. cls. lia.
  - cbn [forallb] in Hv. apply andb_prop in Hv as [H2 _]. cbn [app].
    replace ((c1 =? 48) && (c2 =? 120)) with false; [reflexivity|]. cls. lia.
Qed.

Lemma lex_dec_app w v rest : blanks w = true -> is_dec v = true -> stop rest = true ->
  lex_dec (w ++ v ++ rest) = Some (v, rest).
Proof.
  intros Hw Hv Hs. unfold lex_dec. rewrite skip_ws_blanks by exact Hw.
  destruct v as [|c1 v]; [discriminate|]. cbn [is_dec] in Hv.
  assert (Hc : is_pws c1 = false).
  { cbn [forallb] in Hv. apply andb_prop in Hv as [H1 _]. apply alnum_not_pws, digit_alnum, H1. }
  change ((c1 :: v) ++ rest) with (c1 :: (v ++ rest)). rewrite skip_ws_stop by exact Hc.
  change (c1 :: (v ++ rest)) with ((c1 :: v) ++ rest).
  rewrite (span_app is_digit (c1 :: v) rest Hv (stop_head _ _ digit_alnum Hs)). reflexivity.
Qed.

Lemma lex_value_app w v rest : blanks w = true -> is_value v = true -> stop rest = true ->
  lex_value (w ++ v ++ rest) = Some (v, rest).
Proof.
  intros Hw Hv Hs. unfold lex_value, is_value in *. destruct (is_hexlit v) eqn:Eh.
  - rewrite lex_hex_app by assumption. reflexivity.
  - cbn [orb] in Hv. rewrite lex_hex_dec_none by assumption. apply lex_dec_app; assumption.
Qed.

(* a value never starts where a word starts and vice versa *)
Lemma lex_value_fail d s : is_pws d = false -> is_digit d = false -> lex_value (d :: s) = None.
Proof.
  intros Hp Hd. unfold lex_value, lex_hex, lex_dec. rewrite skip_ws_stop by exact Hp.
  assert (E : (d =? 48) = false) by (cls; lia).
  destruct s as [|c2 r]; [| rewrite E; cbn [andb]]; cbn [span]; rewrite Hd; reflexivity.
Qed.
Lemma lex_value_nil : lex_value [] = None.
Proof. reflexivity. Qed.
Lemma lex_word_nil : lex_word [] = None.
Proof. reflexivity. Qed.

Lemma is_word_head n : is_word n = true -> exists c t, n = c :: t /\ is_alpha_ c = true.
Proof.
  destruct n as [|c t]; [discriminate|]. cbn [is_word]. intros H. apply andb_prop in H as [H _].
  exists c, t. split; [reflexivity | exact H].
Qed.
Lemma is_value_head v : is_value v = true -> exists c t, v = c :: t /\ is_digit c = true.
Proof.
  unfold is_value. destruct v as [|c t]; [discriminate|]. intros H. exists c, t. split; [reflexivity|].
  apply orb_prop in H as [H|H].
  - destruct t as [|c2 h]; [discriminate|]. cbn [is_hexlit] in H. cls. lia.
  - cbn [is_dec forallb] in H. apply andb_prop in H as [H _]. exact H.
Qed.

(* label declaration *)
Lemma lex_label_decl_app w n g rest : blanks w = true -> is_word n = true -> blanks g = true ->
  lex_label_decl (w ++ n ++ g ++ 58 :: rest) = Some (n, rest).
Proof.
  intros Hw Hn Hg. unfold lex_label_decl.
  rewrite (lex_word_app w n (g ++ 58 :: rest) Hw Hn).
  - change (58 :: rest) with ([58] ++ rest). rewrite (lex_lit_app 58 [] g rest Hg eq_refl). reflexivity.
  - apply stop_blanks; [exact Hg | reflexivity].
Qed.

(* no colon, no label declaration *)
Lemma lex_label_decl_nocolon s : ~ In 58 s -> lex_label_decl s = None.
Proof.
  intros Hno. unfold lex_label_decl. destruct (lex_word s) as [[w r]|] eqn:E; [|reflexivity].
  destruct (lex_lit [58] r) as [r'|] eqn:E2; [|reflexivity]. exfalso. apply Hno.
  unfold lex_word in E. destruct (drop_while_suffix is_pws s) as [a Ha]. fold (skip_ws s) in Ha.
  destruct (skip_ws s) as [|c t]; [discriminate|]. destruct (is_alpha_ c); [|discriminate].
  pose proof (span_decomp is_alnum_ t) as Hd. destruct (span is_alnum_ t) as [x y]. cbn [fst snd] in Hd.
  injection E as <- <-. unfold lex_lit in E2. destruct (drop_while_suffix is_pws y) as [b Hb].
  fold (skip_ws y) in Hb. destruct (prefix_exact_head _ _ _ _ E2) as [t' Ht'].
  rewrite Ha, Hd, Hb, Ht'. apply in_or_app. right. right. apply in_or_app. right. apply in_or_app. right.
  left. reflexivity.
Qed.

(** * mnemonics in any letter case *)
Definition spells (sp : str) (op : Z) : Prop := map to_upper sp = mnemonic_of op.
Definition table_of (op : Z) : list (Z * str) := if op <=? 7 then addr_mnemonics else noaddr_mnemonics.
Definition other_table_of (op : Z) : list (Z * str) := if op <=? 7 then noaddr_mnemonics else addr_mnemonics.

Lemma to_upper_inv a u : to_upper a = u -> is_upper u = true -> a = u \/ a = u + 32.
Proof. unfold to_upper. cls. destruct ((97 <=? a) && (a <=? 122)) eqn:E; lia. Qed.

Ltac split_spelling sp H :=
  let a := fresh "a" in
  destruct sp as [|a sp]; [discriminate H|];
  cbn [map] in H;
  let Ha := fresh "Ha" in
  injection H as Ha H;
  apply to_upper_inv in Ha; [|reflexivity].

Ltac mn_cases :=
  repeat match goal with
         | H : _ = _ \/ _ = _ |- _ => destruct H as [H|H]
         end; subst.

Lemma lex_mnemonic_spelled op sp w rest : 0 <= op <= 12 -> spells sp op -> blanks w = true ->
  lex_mnemonic (table_of op) (w ++ sp ++ rest) = Some (op, rest) /\
  lex_mnemonic (other_table_of op) (w ++ sp ++ rest) = None.
Proof.
  intros Hop Hsp Hw. unfold lex_mnemonic. rewrite skip_ws_blanks by exact Hw. unfold spells in Hsp.
  assert (Hcases : op = 0 \/ op = 1 \/ op = 2 \/ op = 3 \/ op = 4 \/ op = 5 \/ op = 6 \/ op = 7 \/ op = 8 \/
                   op = 9 \/ op = 10 \/ op = 11 \/ op = 12) by lia.
  repeat (destruct Hcases as [Hcases|Hcases]); subst op;
    (cbv [mnemonic_of codes Ascii.nat_of_ascii Ascii.N_of_ascii Ascii.N_of_digits] in Hsp;
     cbn in Hsp;
     split_spelling sp Hsp; split_spelling sp Hsp;
     try (split_spelling sp Hsp);
     (destruct sp; [|discriminate Hsp]);
     mn_cases; split; reflexivity).
Qed.
