(* Proofs/C12Proofs.v — property C12: write-through keeps backing memory current, write-back lets
   it lag only inside resident blocks, evictions lose nothing.  Built on CacheInv.v and the
   history machinery of C03Proofs.v. *)
From Coq Require Import Lia ZifyBool.
From ArchSim Require Import Model.Base Model.Mem Model.Cache
  Proofs.WordLemmas Proofs.MapLemmas Proofs.CacheArith Proofs.CacheInv Proofs.C03Proofs.
Open Scope Z_scope.
Ltac Zify.zify_post_hook ::= Z.to_euclidean_division_equations.
Local Arguments Z.mul : simpl never.
Local Arguments Z.add : simpl never.
Local Arguments Z.sub : simpl never.
Local Arguments Z.pow : simpl never.
Local Arguments Z.div : simpl never.
Local Arguments Z.modulo : simpl never.
Local Arguments Z.of_nat : simpl never.
Local Arguments Z.to_nat : simpl never.

Lemma contains_res (c : cache Z) a :
  cache_contains c (cdecode c a) = false <-> res_block c a = None.
Proof.
  unfold cache_contains, res_block, lookup. destruct (find_block _ _ 0); split; intros H; congruence.
Qed.

Lemma cinv_of d : SInv d -> (wthrough d = true -> WTInv d) -> CInv d.
Proof. intros H1 H2. split; assumption. Qed.

Lemma wt_flat d : WTInv d -> Flat (lower d) d.
Proof. intros H. exact H. Qed.

(** * a. write-through: lower memory is always the logical contents *)
Lemma wt_init_proof c pen m : cfg_ok c -> bytes_ok m ->
  WTInv (dcache_init c true pen) /\ WTInv (upd_lower (dcache_init c true pen) m).
Proof.
  intros Hc Hm. split.
  - apply (cinv_init_proof c true pen Hc). reflexivity.
  - destruct (cinv_init_lower_proof c true pen m Hc Hm) as [[_ H] _]. apply H. reflexivity.
Qed.

Lemma wt_step_read_proof d nbits a counted r d' p : SInv d -> wthrough d = true -> WTInv d ->
  dc_read d nbits a counted = (r, d', p) -> SInv d' /\ wthrough d' = true /\ WTInv d'.
Proof.
  intros HS Hwt HW H.
  destruct (cinv_step_read_proof d nbits a counted r d' p (cinv_of d HS (fun _ => HW)) H) as ([S' W'] & E & _).
  rewrite Hwt in E. split; [exact S'|]. split; [exact E | apply W'; exact E].
Qed.

Lemma wt_step_write_proof d nbits a v e d' p : SInv d -> wthrough d = true -> WTInv d ->
  okw nbits -> 0 <= v < 2 ^ nbits ->
  dc_write d nbits a v false = (e, d', p) -> SInv d' /\ wthrough d' = true /\ WTInv d'.
Proof.
  intros HS Hwt HW Hw Hv H.
  destruct (cinv_step_write_proof d nbits a v e d' p (cinv_of d HS (fun _ => HW)) Hw Hv H) as ([S' W'] & E & _).
  rewrite Hwt in E. split; [exact S'|]. split; [exact E | apply W'; exact E].
Qed.

(* any history: lower memory = logical contents = the reference memory *)
Lemma wt_history_proof ops d : SInv d -> wthrough d = true -> WTInv d -> Forall op_wf ops ->
  let d' := snd (run cache_step d ops) in
  SInv d' /\ wthrough d' = true /\ WTInv d' /\
  forall a, 0 <= a < 4294967296 -> mget (lower d') a = mget (snd (run ref_step (lower d) ops)) a.
Proof.
  intros HS Hwt HW Hwf. cbv zeta.
  destruct (run_sim_proof ops d (lower d) (cinv_of d HS (fun _ => HW)) (wt_flat d HW) Hwf)
    as (_ & [S' W'] & F' & E & _).
  rewrite Hwt in E. split; [exact S'|]. split; [exact E|]. split; [apply W'; exact E|].
  intros a Ha. rewrite (F' a Ha). apply (W' E a Ha).
Qed.

(* every resident block is identical to its backing block *)
Lemma wt_resident_backing_proof d i k j : SInv d -> WTInv d ->
  0 <= i < 2 ^ ibits (cfg (dc d)) -> 0 <= k < assoc (cfg (dc d)) ->
  let b := nthZ (blocks (get_set (dc d) i)) k empty_block in
  valid b = true -> 0 <= j < 2 ^ bbits (cfg (dc d)) ->
  nthZ (vals b) j 0 = le_bytes (mget (lower d)) (baddr b + 4 * j) 4.
Proof.
  intros HS HW Hi Hk. cbv zeta. intros Hv Hj. unfold SInv in HS.
  set (b := nthZ (blocks (get_set (dc d) i)) k empty_block) in *.
  pose proof (sinv_set _ _ i HS Hi) as (_ & _ & Hb & _). pose proof (Hb k Hk) as Hok. fold b in Hok.
  pose proof Hok as [_ Hok']. destruct (Hok' Hv) as (L1 & L2 & L3 & _ & _ & L6 & L14).
  pose proof (sinv_geom _ _ HS) as G.
  pose proof (bsize_eq (bbits (cfg (dc d))) ltac:(destruct G; lia)) as HB.
  assert (Hhi: baddr b + bsize (bbits (cfg (dc d))) <= 4294967296).
  { pose proof (blk_off _ _ (baddr b) HS L3) as H. cbv zeta in H. unfold cdecode in H. rewrite L6 in H. lia. }
  rewrite <- (word_bytes (nthZ (vals b) j 0) (L2 j Hj)).
  apply le_bytes_ext. intros o Ho. change (Z.of_nat 4) with 4 in Ho.
  set (x := baddr b + 4 * j + o).
  assert (Hx: in32b x) by (unfold in32b, x; lia).
  assert (Hba: da_balign (cdecode (dc d) x) = baddr b).
  { apply (blk_range _ _ i b x HS Hok Hv Hx). unfold x. lia. }
  rewrite (HW x Hx). unfold logical, logicalC. unfold b in Hba.
  rewrite (res_block_of _ _ i k x HS Hi Hk Hv Hba). fold b.
  pose proof (blk_off _ _ x HS Hx) as H. cbv zeta in H. destruct H as (_ & _ & _ & O1 & O2 & _).
  fold b in Hba. rewrite Hba in O1, O2. rewrite <- O1, <- O2. unfold x. f_equal; [f_equal|]; lia.
Qed.

(** * b. write-back: lower memory differs from the logical contents only inside resident blocks *)
Lemma wb_lag_only_resident_proof d f a : CInv d -> Flat f d -> 0 <= a < 4294967296 ->
  cache_contains (dc d) (cdecode (dc d) a) = false -> mget (lower d) a = mget f a.
Proof.
  intros _ HF Ha Hc. apply contains_res in Hc. rewrite (HF a Ha). unfold logical, logicalC. rewrite Hc.
  reflexivity.
Qed.

Lemma wb_lag_history_proof c wt pen m ops a : cfg_ok c -> bytes_ok m -> Forall op_wf ops ->
  let d' := snd (run cache_step (upd_lower (dcache_init c wt pen) m) ops) in
  0 <= a < 4294967296 -> cache_contains (dc d') (cdecode (dc d') a) = false ->
  mget (lower d') a = mget (snd (run ref_step m ops)) a.
Proof.
  intros Hc Hm Hwf. cbv zeta. intros Ha Hnc.
  destruct (cinv_init_lower_proof c wt pen m Hc Hm) as [HC HF].
  destruct (run_sim_proof ops _ m HC HF Hwf) as (_ & HC' & HF' & _).
  apply (wb_lag_only_resident_proof _ _ a HC' HF' Ha Hnc).
Qed.

(** * c. displacing a valid block: it is written back, nothing is lost *)
Lemma evict_preserves_logical_proof d a v hit displaced c' :
  SInv d -> cache_contains (dc d) (cdecode (dc d) a) = false ->
  16384 <= da_balign (cdecode (dc d) a) -> vals_ok (dc d) v ->
  cache_write_block (dc d) (cdecode (dc d) a) v = (hit, displaced, c') ->
  let d' := match displaced with
            | Some (ba, ws) => upd_lower (upd_dc d c') (write_words (lower d) ba ws)
            | None => upd_dc d c'
            end in
  let old := nthZ (blocks (get_set (dc d) (da_idx (cdecode (dc d) a))))
               (pol_victim (policy (get_set (dc d) (da_idx (cdecode (dc d) a))))) empty_block in
  SInv d' /\ hit = false /\
  (valid old = true -> displaced = Some (baddr old, vals old)) /\
  (valid old = false -> displaced = None) /\
  (forall x, 0 <= x < 4294967296 ->
     da_balign (cdecode (dc d) x) <> da_balign (cdecode (dc d) a) -> logical d' x = logical d x) /\
  (valid old = true -> forall x, 0 <= x < 4294967296 ->
     baddr old <= x < baddr old + bsize (bbits (cfg (dc d))) ->
     cache_contains (dc d') (cdecode (dc d') x) = false /\ mget (lower d') x = logical d x).
Proof.
  intros HS Hnc H14 Hvok H. cbv zeta. unfold SInv in HS.
  assert (Hf: find_block (blocks (get_set (dc d) (da_idx (cdecode (dc d) a)))) (da_tag (cdecode (dc d) a)) 0 = None).
  { apply res_none_find. apply contains_res. exact Hnc. }
  rewrite cache_write_block_eq, Hf in H. cbv zeta in H.
  destruct (fill_wb _ _ a v HS Hf H14 Hvok) as [S' L'].
  pose proof (sinv_idx _ _ a HS) as Hi.
  pose proof (sinv_set _ _ _ HS Hi) as (_ & Hp & Hb & _).
  pose proof (pol_victim_range _ _ (sinv_cfg _ _ HS) Hp) as Hbi.
  set (bi := pol_victim (policy (get_set (dc d) (da_idx (cdecode (dc d) a))))) in *.
  set (old := nthZ (blocks (get_set (dc d) (da_idx (cdecode (dc d) a)))) bi empty_block) in *.
  set (cn := install (dc d) (da_idx (cdecode (dc d) a)) bi (mkblock (cdecode (dc d) a) v)) in *.
  pose proof (Hb bi Hbi) as Hok. fold old in Hok. pose proof Hok as [Hd _].
  apply pair_eq in H. destruct H as [H <-]. apply pair_eq in H. destruct H as [<- <-].
  assert (Ed: dc (match (if dirty old then Some (baddr old, vals old) else None) with
                  | Some (ba, ws) => upd_lower (upd_dc d cn) (write_words (lower d) ba ws)
                  | None => upd_dc d cn end) = cn /\
              lower (match (if dirty old then Some (baddr old, vals old) else None) with
                  | Some (ba, ws) => upd_lower (upd_dc d cn) (write_words (lower d) ba ws)
                  | None => upd_dc d cn end) =
              (if dirty old then write_words (lower d) (baddr old) (vals old) else lower d)).
  { destruct (dirty old); split; reflexivity. }
  destruct Ed as [E1 E2].
  set (d' := match (if dirty old then Some (baddr old, vals old) else None) with
             | Some (ba, ws) => upd_lower (upd_dc d cn) (write_words (lower d) ba ws)
             | None => upd_dc d cn end) in *.
  assert (LG: forall x, in32b x ->
            logical d' x = if da_balign (cdecode (dc d) x) =? da_balign (cdecode (dc d) a)
                           then byte_of (nthZ v (da_boff (cdecode (dc d) x)) 0) (da_byoff (cdecode (dc d) x))
                           else logical d x).
  { intros x Hx. unfold logical. rewrite E1, E2. apply L'. exact Hx. }
  split; [unfold SInv; rewrite E1, E2; exact S'|]. split; [reflexivity|].
  split; [intros Hv; rewrite Hd, Hv; reflexivity|].
  split; [intros Hv; rewrite Hd, Hv; reflexivity|].
  split.
  - intros x Hx Hne. rewrite (LG x Hx).
    destruct (Z.eqb_spec (da_balign (cdecode (dc d) x)) (da_balign (cdecode (dc d) a))); [contradiction | reflexivity].
  - intros Hv x Hx Hr.
    assert (Hba: da_balign (cdecode (dc d) x) = baddr old) by (apply (blk_range _ _ _ old x HS Hok Hv Hx); exact Hr).
    destruct (proj2 (blk_addr _ _ _ old x HS Hok Hv) Hba) as [Ei Et].
    (* the victim's tag is not the incoming tag *)
    assert (Hnm: matches old (da_tag (cdecode (dc d) a)) = false).
    { apply (find_block_None _ _ _ Hf). destruct (sinv_set _ _ _ HS Hi) as (Hl & _). lia. }
    assert (Hnt: da_tag (cdecode (dc d) x) <> da_tag (cdecode (dc d) a)).
    { intros E. rewrite Et in E. unfold matches in Hnm. rewrite Hv in Hnm. cbn [andb] in Hnm.
      apply Z.eqb_neq in Hnm. contradiction. }
    assert (Hne: da_balign (cdecode (dc d) x) <> da_balign (cdecode (dc d) a)).
    { intros E. apply Hnt. unfold cdecode in E.
      apply (same_block_iff _ _ x a (sinv_geom _ _ HS)) in E. apply E. }
    assert (Hres: res_block cn x = None).
    { pose proof (mkblock_ok _ _ a v HS H14 (proj1 Hvok) (proj2 Hvok)) as Hnb.
      assert (Hno: no_other (blocks (get_set (dc d) (da_idx (cdecode (dc d) a)))) bi (btag (mkblock (cdecode (dc d) a) v))).
      { intros bj Hbj _. apply (find_block_None _ _ _ Hf). exact Hbj. }
      unfold cn. rewrite (res_install_other _ _ _ bi _ HS Hi Hbi Hnb eq_refl Hno x).
      - fold old. rewrite Ei, Z.eqb_refl. cbn [andb].
        replace (matches old (da_tag (cdecode (dc d) x))) with true; [reflexivity|].
        symmetry. apply matches_true. split; [exact Hv | symmetry; exact Et].
      - cbn [mkblock btag]. intros [_ E]. contradiction. }
    split.
    + apply contains_res. rewrite E1. exact Hres.
    + assert (LGx := LG x Hx).
      destruct (Z.eqb_spec (da_balign (cdecode (dc d) x)) (da_balign (cdecode (dc d) a))); [contradiction|].
      rewrite <- LGx. unfold logical, logicalC. rewrite E1, Hres. reflexivity.
Qed.

(** * d. valid blocks are dirty *)
Lemma valid_blocks_dirty_proof d i k : SInv d ->
  0 <= i < 2 ^ ibits (cfg (dc d)) -> 0 <= k < assoc (cfg (dc d)) ->
  valid (nthZ (blocks (get_set (dc d) i)) k empty_block) = true ->
  dirty (nthZ (blocks (get_set (dc d) i)) k empty_block) = true.
Proof.
  intros HS Hi Hk Hv. pose proof (sinv_set _ _ i HS Hi) as (_ & _ & Hb & _).
  destruct (Hb k Hk) as [Hd _]. rewrite Hd. exact Hv.
Qed.

Lemma valid_blocks_dirty_reachable_proof c wt pen m ops i k : cfg_ok c -> bytes_ok m -> Forall op_wf ops ->
  let d' := snd (run cache_step (upd_lower (dcache_init c wt pen) m) ops) in
  0 <= i < 2 ^ ibits c -> 0 <= k < assoc c ->
  valid (nthZ (blocks (get_set (dc d') i)) k empty_block) = true ->
  dirty (nthZ (blocks (get_set (dc d') i)) k empty_block) = true.
Proof.
  intros Hc Hm Hwf. cbv zeta. intros Hi Hk.
  destruct (cinv_init_lower_proof c wt pen m Hc Hm) as [HC HF].
  destruct (run_sim_proof ops _ m HC HF Hwf) as (_ & [HS' _] & _ & _ & G).
  apply (valid_blocks_dirty_proof _ i k HS'); rewrite G; assumption.
Qed.

(* the reachable states of a history satisfy the invariant (used by the statements above) *)
Lemma reachable_cinv_proof c wt pen m ops : cfg_ok c -> bytes_ok m -> Forall op_wf ops ->
  let d' := snd (run cache_step (upd_lower (dcache_init c wt pen) m) ops) in
  CInv d' /\ Flat (snd (run ref_step m ops)) d' /\ wthrough d' = wt /\ cfg (dc d') = c.
Proof.
  intros Hc Hm Hwf. cbv zeta.
  destruct (cinv_init_lower_proof c wt pen m Hc Hm) as [HC HF].
  destruct (run_sim_proof ops _ m HC HF Hwf) as (_ & HC' & HF' & W & G).
  split; [exact HC'|]. split; [exact HF'|]. split; assumption.
Qed.

Lemma wt_meaning_proof : forall d,
  WTInv d <-> (forall a, 0 <= a < 4294967296 -> mget (lower d) a = logical d a).
Proof. intros d. reflexivity. Qed.

Lemma cinv_meaning_proof : forall d, CInv d <-> SInv d /\ (wthrough d = true -> WTInv d).
Proof. intros d. reflexivity. Qed.
