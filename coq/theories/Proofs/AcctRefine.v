(* Proofs/AcctRefine.v — property C09, program level: the five-stage pipeline and the
   single-cycle machine, run with the same data cache, end with EXACTLY the same data memory
   system (directory, dirty bits, replacement state, lower memory, access and hit counters).
   The invariant [MS] lines up the pipeline's memory system with the single-cycle state aligned
   to the slot in latch 3 (advanced once more past an ecall that has already fired in EX). *)
From Coq Require Import Lia ZifyBool.
From ArchSim Require Import Spec.RefCache.
From ArchSim Require Import Model.Base Model.Mem Model.Cache Model.Fmt Model.RV Model.Single
  Model.RVSplit Model.Pipe
  Proofs.WordLemmas Proofs.C01Mem Proofs.C01Step Proofs.SplitExec Proofs.C02Split Proofs.PipeLaws Proofs.PipeShape
  Proofs.PipeInv Proofs.PipeInvBase Proofs.PipeInvStages Proofs.PipeInvStraight Proofs.PipeInvControl
  Proofs.PipeInvEcall Proofs.PipeRefine
  Proofs.LiftFlat Proofs.LiftAccess Proofs.LiftSim Proofs.LiftEcall Proofs.LiftSingle Proofs.LiftPipe
  Proofs.LiftPipeRun Proofs.LiftRefineBase Proofs.LiftRefine
  Proofs.AcctRead Proofs.AcctExec Proofs.AcctStep.
Open Scope Z_scope.
Local Arguments Z.mul : simpl never.
Local Arguments Z.add : simpl never.
Local Arguments Z.sub : simpl never.
Local Arguments Z.of_nat : simpl never.

Definition MS (qc : pstate) (sc : st) : Prop :=
  ms (pst qc) = ms (let sa := adv (lat_at (lat qc) 3) sc in
                    if efired (lat_at (lat qc) 2) then nxt sa else sa).

Section AcctC.
Variable P : list instr.
Hypothesis Hsup : Forall (fun i => supported i = true) P.

Lemma j_lat qc qf sc sf : J qc qf sc sf -> lat qc = lat qf /\ stalled qc = stalled qf /\ saved qc = saved qf.
Proof. intros HJ. rewrite (j_pf _ _ _ _ HJ). repeat split. Qed.

Lemma ms_step qc qf sc sf l0 l1 l2 l3 l4 dead qc' :
  InvAt P qf sf l0 l1 l2 l3 l4 dead -> J qc qf sc sf -> MS qc sc ->
  pipe_step qc = (qc', None) -> MS qc' (adv l3 sc).
Proof.
  intros I HJ HMS Hps.
  pose proof (iv_shape _ _ _ _ _ _ _ _ _ I) as Sh. pose proof (iv_lat _ _ _ _ _ _ _ _ _ I) as Hlf.
  destruct (j_lat _ _ _ _ HJ) as (El & Est & Esv).
  assert (Hl : lat qc = [l0; l1; l2; l3; l4]) by (rewrite El; exact Hlf).
  pose proof (j_ss _ _ _ _ HJ) as Ss. pose proof (j_ps _ _ _ _ HJ) as Sp.
  destruct (aligned P qc qf sc sf _ _ _ _ _ _ I HJ) as (sa & Ssa & _ & Hsa & Wt & HPt & HL2).
  assert (Esa : adv l3 sc = sa).
  { destruct l3 as [x3|]; cbn [adv nonempty]; [|symmetry; exact Hsa].
    destruct Hsa as (E & _). unfold nxt. rewrite E. reflexivity. }
  rewrite Esa. unfold MS in HMS. rewrite Hl in HMS.
  change (lat_at [l0; l1; l2; l3; l4] 3) with l3 in HMS. change (lat_at [l0; l1; l2; l3; l4] 2) with l2 in HMS.
  cbv zeta in HMS. rewrite Esa in HMS.
  (* the modes *)
  assert (Hmodes : stalled qc = None \/ exists k d, stalled qc = Some (k, d) /\ (k = 1 \/ k = 2)).
  { rewrite Est. apply (shape_mode_cases no_icache qf Sh). }
  destruct (views qc _ _ _ _ _ Hl Hmodes) as (V4 & V22 & V23 & Vm).
  destruct (step_decomp qc qc' Hps) as (n0 & n1 & n2 & n3 & n4 & u1 & u2 & u3 & u4 &
    Hm1 & Hr1 & Hwb & Hex & Hmem & Hms' & Hlat').
  rewrite V4 in Hwb. rewrite V22, V23 in Hex. fold (mem_input qc) in Hmem. clear V4 V22 V23.
  fold (lat_after n0 n1 n2 n3 n4) in Hlat'.
  (* WB: no flush from latch 4, the memory system is untouched *)
  pose proof (wb_on_law _ _ _ _ _ Hwb) as (_ & Hm2 & _).
  assert (Hn4 : flush_of n4 = None).
  { destruct (wb_stage P Hsup sf l3 sf (iv_progs _ _ _ _ _ _ _ _ _ I) (iv_l3 _ _ _ _ _ _ _ _ _ I)
               (iv_wf _ _ _ _ _ _ _ _ _ I) (iv_exit_s _ _ _ _ _ _ _ _ _ I) eq_refl) as (s2 & _ & Hfl & _).
    destruct l3 as [x3|].
    - rewrite wb_on_some in Hwb. destruct (write_back _ _ _ _) as [w [e|]]; [discriminate|].
      injection Hwb as <- _. exact Hfl.
    - rewrite wb_on_none in Hwb. injection Hwb as <- _. reflexivity. }
  assert (Hl3' : lat_at (lat qc') 3 = n3) by (rewrite Hlat'; apply lat_after_3; exact Hn4).
  destruct (lat_after_2 n0 n1 n2 n3 n4) as [Hl2or Hl2eq]. rewrite <- Hlat' in Hl2or, Hl2eq.
  unfold MS. rewrite Hl3'. cbv zeta.
  (* facts about latch 2 *)
  assert (HF : fired l2 = match stalled qc with Some (k, _) => if k =? 2 then false else nonempty l2
                                            | None => nonempty l2 end).
  { rewrite Est. exact (iv_fired _ _ _ _ _ _ _ _ _ I). }
  assert (HL2x : forall x, l2 = Some x -> onp P (adv l3 sf) x /\ Eok (adv l3 sf) x).
  { intros x ->. pose proof (iv_l2 _ _ _ _ _ _ _ _ _ I) as L2. cbn [lv] in L2.
    destruct (L2 Logic.I) as (_ & Hon & He & _). split; assumption. }
  destruct (ex_on_cases _ _ _ _ _ _ Hex) as [[Hef Hm3]|(Hef & y & Hei & Hiy & Hbusy & Hm3)].
  - (* no ecall fires in EX *)
    assert (Hef' : efired (lat_at (lat qc') 2) = false) by (destruct Hl2or as [->| ->]; [exact Hef | reflexivity]).
    rewrite Hef'. rewrite Hms'.
    assert (Hm3' : ms u3 = ms (pst qc)) by (rewrite Hm3, Hm2, Hm1; reflexivity).
    pose proof (mem_on_cases _ _ _ _ Hmem) as Hmc.
    destruct (mem_input qc) as [x|] eqn:Hmi.
    + (* a slot passes MEM *)
      destruct Hmc as [Hne Hm4]. assert (E2 : l2 = Some x).
      { assert (Hmi' : mem_input qf = Some x) by (rewrite (j_pf _ _ _ _ HJ); exact Hmi).
        pose proof (mem_input_l2 qf x Sh Hmi') as H. rewrite Hlf in H. exact H. }
      destruct (HL2x x E2) as [(Hext & Ha & Hi) Hek].
      assert (Hst : sl_stall x = false).
      { rewrite E2 in HF. cbn [fired nonempty] in HF.
        destruct Vm as [(E & _)|[(d & E & _)|(d & E & Hn)]]; rewrite E in HF;
          [destruct (sl_stall x); [discriminate | reflexivity]
          |change (1 =? 2) with false in HF; destruct (sl_stall x); [discriminate | reflexivity]
          |discriminate Hn]. }
      replace (adv n3 sa) with (nxt sa) by (unfold adv; rewrite Hne; reflexivity).
      rewrite Hm4. rewrite E2 in HMS. cbn [efired] in HMS. rewrite Hst in HMS. cbn [negb] in HMS.
      rewrite andb_true_r in HMS.
      destruct (is_ecall (sl_instr x)) eqn:Eec.
      * rewrite (mem_ecall_ms _ _ _ _ Eec), Hm3'. exact HMS.
      * rewrite (mem_bms (adv l3 sf) sa x u3 Hek Hst Eec (sm_regs _ _ Ssa) ltac:(rewrite Hm3'; exact HMS)).
        symmetry. apply (single_step_ms sa (adv l3 sf) _ Ssa). rewrite HPt. exact Hi.
    + (* MEM idles *)
      destruct Hmc as [-> ->]. cbn [adv nonempty]. rewrite Hm3'.
      assert (Hnf : efired l2 = false).
      { destruct l2 as [x|]; [|reflexivity]. cbn [efired]. cbn [fired nonempty] in HF.
        destruct Vm as [(_ & _ & Hn)|[(d & _ & _ & Hn)|(d & E & _)]]; try discriminate Hn.
        rewrite E in HF. change (2 =? 2) with true in HF. cbv iota in HF.
        destruct (sl_stall x); [apply andb_false_r | discriminate]. }
      rewrite Hnf in HMS. exact HMS.
  - (* an ecall fires in EX: nothing older is in flight *)
    assert (H3 : l3 = None).
    { unfold ex_busy in Hbusy. destruct l3; [|reflexivity]. cbn [nonempty] in Hbusy.
      rewrite orb_true_r in Hbusy. discriminate. }
    subst l3. cbn [adv nonempty] in Esa. subst sa. cbn [adv nonempty] in *.
    assert (Hfacts : efired l2 = false /\ mem_input qc = None /\ instr_at P (pc sf) = Some IEcall).
    { destruct Vm as [(E & V1 & Vmi)|[(d & E & V1 & _)|(d & E & Vmi)]].
      - rewrite V1 in Hei. clear V1. subst l1.
        pose proof (sh_l1 _ _ Sh) as L1. rewrite Hlf in L1. change (lat_at [l0; Some y; l2; None; l4] 1) with (Some y) in L1.
        unfold L1ok in L1. destruct L1 as (_ & _ & Hsv & _). unfold ex_busy in Hbusy. rewrite Hsv in Hbusy.
        destruct l2 as [x2|]; [discriminate Hbusy|]. split; [reflexivity|]. split; [exact Vmi|].
        pose proof (iv_l2 _ _ _ _ _ _ _ _ _ I) as L2. cbn [lv] in L2.
        pose proof (iv_dead _ _ _ _ _ _ _ _ _ I) as Hd.
        pose proof (iv_l1 _ _ _ _ _ _ _ _ _ I) as L1'. cbn [lv adv nonempty] in L1'.
        destruct (L1' ltac:(lia)) as (_ & (_ & _ & Hi) & _). rewrite Hiy in Hi. exact Hi.
      - rewrite V1 in Hei. discriminate.
      - assert (E2 : exists x2, l2 = Some x2).
        { pose proof (sh_mode _ _ Sh) as Hmo. unfold ModeInv in Hmo. rewrite <- Est, E in Hmo.
          destruct (saved qf); [|contradiction]. destruct Hmo as (_ & [(Hk & _)|(_ & m0 & y1 & x2 & _ & _ & Hx & _)]); [discriminate|].
          rewrite Hlf in Hx. exists x2. exact Hx. }
        destruct E2 as [x2 ->]. rewrite E in HF. change (2 =? 2) with true in HF. cbn [fired] in HF.
        destruct (HL2x x2 eq_refl) as [(_ & _ & Hi) Hek]. cbn [adv nonempty] in Hi, Hek.
        unfold Eok in Hek. destruct (sl_stall x2) eqn:Est2; [|discriminate]. destruct Hek as [Hi2 _]. rewrite Hi2 in Hi.
        split; [cbn [efired]; rewrite Est2; apply andb_false_r|]. split; [exact Vmi | exact Hi]. }
    destruct Hfacts as (Hnf & Hmi & Hie). rewrite Hnf in HMS.
    rewrite Hmi in Hmem. rewrite mem_on_none in Hmem. injection Hmem as <- <-.
    assert (Hn4' : n4 = None) by (rewrite wb_on_none in Hwb; injection Hwb as <- _; reflexivity).
    assert (Hu2 : u2 = u1) by (rewrite wb_on_none in Hwb; injection Hwb as _ <-; reflexivity).
    rewrite (Hl2eq Hn4 eq_refl), Hef. cbn [adv nonempty]. rewrite Hms', Hm3.
    rewrite (bms_cong IEcall u2 sc).
    + symmetry. apply (single_step_ms sc sf IEcall Ss). rewrite (iv_progs _ _ _ _ _ _ _ _ _ I). exact Hie.
    + rewrite Hu2, Hr1, (sm_regs _ _ Sp), (sm_regs _ _ Ss). apply (iv_regs _ _ _ _ _ _ _ _ _ I).
    + rewrite Hm2, Hm1. exact HMS.
Qed.

(** * One non-faulting cached cycle keeps the whole invariant *)
Lemma jstep qc qf sc sf l0 l1 l2 l3 l4 dead qc' :
  InvAt P qf sf l0 l1 l2 l3 l4 dead -> J qc qf sc sf -> pipe_done qf = false ->
  pipe_step qc = (qc', None) ->
  exists t', J qc' (with_pst qc' t') (adv l3 sc) (adv l3 sf) /\
    (Inv P (with_pst qc' t') (adv l3 sf) \/ Exiting P (with_pst qc' t') (adv l3 sf)) /\
    match l3 with Some _ => single_pipeline_step sc = (adv l3 sc, None) | None => True end.
Proof.
  intros I HJ Hpd Hpsc. pose proof (j_ps _ _ _ _ HJ) as Sp.
  pose proof (inv_step_e P Hsup _ _ _ _ _ _ _ _ I Hpd) as Hstep. unfold step_goal in Hstep.
  destruct (aligned P qc qf sc sf _ _ _ _ _ _ I HJ) as (sc' & Ss' & Hcfgs & Hsc' & W' & HP' & HL2).
  assert (Esa : adv l3 sc = sc').
  { destruct l3 as [x3|]; cbn [adv nonempty]; [|symmetry; exact Hsc'].
    destruct Hsc' as (E & _). unfold nxt. rewrite E. reflexivity. }
  rewrite Esa. set (tf := adv l3 sf) in *.
  assert (Hg : ms_cfg (ms (pst qc)) = ms_cfg (ms sc')) by (rewrite (j_cfg _ _ _ _ HJ), Hcfgs; reflexivity).
  destruct (sim_pipe_step qc (pst qf) qc' None Sp Hpsc) as [Hcfg' [(t' & of' & Hpf & Sa & Eo & _ & Hnrj)|Hrej]].
  2:{ destruct Hrej as (z & e & _ & _ & E). discriminate E. }
  destruct of' as [ff|]; [discriminate Eo|].
  rewrite <- (j_pf _ _ _ _ HJ) in Hpf. rewrite Hpf in Hstep. destruct Hstep as (Hinv' & _ & _).
  exists t'. set (qf' := with_pst qc' t') in *.
  assert (NR' : NR qf' sc').
  { intros Hne. destruct (lat_at (lat qf') 3) as [y|] eqn:Hy; [|discriminate].
    assert (Hokf : snd (single_pipeline_step tf) = None).
    { destruct Hinv' as [(m0 & m1 & m2 & m3 & m4 & dd & I')|E'].
      - rewrite (iv_lat _ _ _ _ _ _ _ _ _ I') in Hy. change (lat_at [m0; m1; m2; m3; m4] 3) with m3 in Hy. subst m3.
        destruct (iv_l3 _ _ _ _ _ _ _ _ _ I') as (_ & _ & _ & Hok & _). exact Hok.
      - destruct E' as (a0 & x3 & a4 & _ & _ & _ & _ & _ & _ & _ & _ & _ & _ & Hok & _). exact Hok. }
    apply (cstep_ok sc' tf Ss' Hokf). intros i Hi.
    destruct (pipe_step_mem_input qf qf' y Hpf Hy) as [z Hz]. rewrite (j_pf _ _ _ _ HJ) in Hz.
    change (mem_input (with_pst qc (pst qf))) with (mem_input qc) in Hz.
    destruct (HL2 z Hz) as (Hi2 & _ & _ & HK). rewrite <- HP', Hi in Hi2. injection Hi2 as ->.
    rewrite <- HK. apply (Hnrj eq_refl z Hz). }
  split; [constructor; [exact Sa | reflexivity | exact Ss' | exact NR' | rewrite Hcfg'; exact Hg]|].
  split; [exact Hinv'|]. destruct l3 as [x3|]; [|exact Logic.I]. destruct Hsc' as (E & _). exact E.
Qed.

(* the last cycle of an exiting ecall *)
Lemma exiting_final qc qf sc sf qc' : J qc qf sc sf -> MS qc sc -> Exiting P qf sf ->
  pipe_step qc = (qc', None) ->
  pipe_done qc' = true /\ ms (pst qc') = ms (nxt sc) /\ single_done sc = false /\
  snd (single_pipeline_step sc) = None /\ single_done (nxt sc) = true.
Proof.
  intros HJ HMS E Hpsc. pose proof E as (l0 & x3 & l4 & Hl & Sh & _ & Hst & _).
  destruct (exiting_step P Hsup qf sf E) as (Hpd & Hsd & Hss & Hsd' & qf' & Hps & Hpd' & _ & _).
  pose proof (j_ss _ _ _ _ HJ) as Ss. destruct (j_lat _ _ _ _ HJ) as (El & Est & _).
  assert (Hlc : lat qc = [l0; None; None; Some x3; l4]) by (rewrite El; exact Hl).
  assert (Hstc : stalled qc = None) by (rewrite Est; exact Hst).
  assert (Hnr : snd (single_pipeline_step sc) = None).
  { apply (j_nr _ _ _ _ HJ). rewrite Hl. reflexivity. }
  destruct (nr_step sc sf Ss ltac:(rewrite Hss; reflexivity) Hnr) as (_ & Ss' & _).
  split.
  { destruct (sim_pipe_step qc (pst qf) qc' None (j_ps _ _ _ _ HJ) Hpsc) as [_ [(t' & of' & Hpf & Sa & _)|Hrej]].
    - rewrite <- (j_pf _ _ _ _ HJ), Hps in Hpf. injection Hpf as Hpf' _.
      rewrite <- Hpd', Hpf'. symmetry. apply sim_pipe_done. exact Sa.
    - destruct Hrej as (z & e & _ & _ & E0). discriminate E0. }
  split.
  { destruct (step_decomp qc qc' Hpsc) as (n0 & n1 & n2 & n3 & n4 & u1 & u2 & u3 & u4 &
      Hm1 & _ & Hwb & Hex & Hmem & Hms' & _).
    unfold regs_for in Hex, Hmem. rewrite Hstc, Hlc in Hex, Hmem.
    change (lat_at [l0; None; None; Some x3; l4] 1) with (@None slot) in Hex.
    change (lat_at [l0; None; None; Some x3; l4] 2) with (@None slot) in Hmem.
    rewrite ex_on_none in Hex. injection Hex as _ <-. rewrite mem_on_none in Hmem. injection Hmem as _ <-.
    pose proof (wb_on_law _ _ _ _ _ Hwb) as (_ & Hm2 & _). rewrite Hms', Hm2, Hm1.
    unfold MS in HMS. rewrite Hlc in HMS. exact HMS. }
  split; [rewrite (sim_single_done _ _ Ss); exact Hsd|]. split; [exact Hnr|].
  rewrite (sim_single_done _ _ Ss'). exact Hsd'.
Qed.

(** * Runs *)
Fixpoint sreach (k : nat) (s s' : st) : Prop :=
  match k with
  | O => s' = s
  | S k => single_done s = false /\ snd (single_pipeline_step s) = None /\ sreach k (nxt s) s'
  end.

Lemma sreach_run k : forall s s' n r, sreach k s s' -> single_done s' = true ->
  single_run n s = (r, Done) -> r = s'.
Proof.
  induction k as [|k IH]; intros s s' n r Hr Hd Hrun; cbn [sreach] in Hr.
  - subst s'. destruct (single_run_done n s Hd) as [E _]. rewrite E in Hrun. injection Hrun as <-. reflexivity.
  - destruct Hr as (Hnd & Hnf & Hr). destruct n as [|n]; cbn [single_run] in Hrun; rewrite Hnd in Hrun; [discriminate|].
    unfold nxt in Hr. destruct (single_pipeline_step s) as [s1 of]. cbn [fst snd] in *. subst of.
    apply (IH s1 s' n r Hr Hd Hrun).
Qed.

Definition Rinv (qc : pstate) (sc : st) : Prop :=
  exists qf sf, J qc qf sc sf /\ MS qc sc /\ (Inv P qf sf \/ Exiting P qf sf).

Lemma racct c : forall qc sc p', Rinv qc sc -> pipe_run c qc = (p', PDone) ->
  exists k s', sreach k sc s' /\ single_done s' = true /\ ms (pst p') = ms s'.
Proof.
  assert (Hdone : forall qc sc, Rinv qc sc -> pipe_done qc = true ->
            single_done sc = true /\ ms (pst qc) = ms sc).
  { intros qc sc (qf & sf & HJ & HMS & [(l0 & l1 & l2 & l3 & l4 & dead & I)|E]) Hd.
    - rewrite (j_done _ _ _ _ HJ), (done_iff P _ _ _ _ _ _ _ _ I) in Hd.
      destruct (done_empty P _ _ _ _ _ _ _ _ I Hd) as [-> ->].
      split; [rewrite (sim_single_done _ _ (j_ss _ _ _ _ HJ)); exact Hd|].
      unfold MS in HMS. destruct (j_lat _ _ _ _ HJ) as (El & _). rewrite El, (iv_lat _ _ _ _ _ _ _ _ _ I) in HMS.
      exact HMS.
    - destruct (exiting_step P Hsup qf sf E) as (Hpd & _). rewrite (j_done _ _ _ _ HJ), Hpd in Hd. discriminate. }
  induction c as [|c IH]; intros qc sc p' HR Hrun; cbn [pipe_run] in Hrun.
  - destruct (pipe_done qc) eqn:Hd; [|discriminate]. injection Hrun as <-.
    destruct (Hdone qc sc HR Hd) as [H1 H2]. exists 0%nat, sc. split; [reflexivity|]. split; assumption.
  - destruct (pipe_done qc) eqn:Hd.
    { injection Hrun as <-. destruct (Hdone qc sc HR Hd) as [H1 H2]. exists 0%nat, sc.
      split; [reflexivity|]. split; assumption. }
    destruct (pipe_step qc) as [q1 [f|]] eqn:Hps; [discriminate|].
    destruct HR as (qf & sf & HJ & HMS & [(l0 & l1 & l2 & l3 & l4 & dead & I)|E]).
    + assert (Hpdf : pipe_done qf = false) by (rewrite <- (j_done _ _ _ _ HJ); exact Hd).
      destruct (jstep qc qf sc sf _ _ _ _ _ _ q1 I HJ Hpdf Hps) as (t' & HJ' & Hinv' & Hs3).
      pose proof (ms_step qc qf sc sf _ _ _ _ _ _ q1 I HJ HMS Hps) as HMS'.
      destruct (IH q1 (adv l3 sc) p' ltac:(exists (with_pst q1 t'), (adv l3 sf); split; [exact HJ'|split; [exact HMS' | exact Hinv']]) Hrun)
        as (k & s' & Hr & Hds & Hm).
      destruct l3 as [x3|]; cbn [adv nonempty] in *.
      * exists (S k), s'. split; [|split; assumption]. cbn [sreach].
        split; [rewrite (sim_single_done _ _ (j_ss _ _ _ _ HJ)), <- (done_iff P _ _ _ _ _ _ _ _ I); exact Hpdf|].
        split; [rewrite Hs3; reflexivity | exact Hr].
      * exists k, s'. split; [exact Hr | split; assumption].
    + destruct (exiting_final qc qf sc sf q1 HJ HMS E Hps) as (Hd1 & Hm1 & Hnd & Hnf & Hdn).
      assert (Ep : p' = q1) by (destruct c; cbn [pipe_run] in Hrun; rewrite Hd1 in Hrun; injection Hrun as <-; reflexivity).
      subst p'. exists 1%nat, (nxt sc). cbn [sreach]. split; [split; [exact Hnd | split; [exact Hnf | reflexivity]]|].
      split; assumption.
Qed.

End AcctC.

(** * Property C09, program level: the same data memory system in both modes *)
Theorem pipe_single_same_dcache_lem s n s' :
  cwf s -> Forall (fun i => supported i = true) (prog (im s)) ->
  single_run n s = (s', Done) ->
  exists c p, (c <= 8 * n + 8)%nat /\ pipe_run c (pipe_init s true) = (p, PDone) /\
    ms (pst p) = ms s' /\ agree_log p s' /\ pipe_trace c (pipe_init s true) = single_trace n s.
Proof.
  intros HW HS Hrun. pose proof (pipe_refines_single_caches_lem s n HW HS) as H. rewrite Hrun in H.
  destruct H as (c & p & Hc & Hp & Hag & Htr). exists c, p.
  split; [exact Hc|]. split; [exact Hp|]. split; [|split; assumption].
  destruct (exitc s) as [c0|] eqn:Hex.
  - assert (Hd : single_done s = true) by (unfold single_done; rewrite Hex; reflexivity).
    destruct (single_run_done n s Hd) as [E _]. rewrite E in Hrun. injection Hrun as <-.
    assert (Hpd : pipe_done (pipe_init s true) = true) by (unfold pipe_done; cbn [pipe_init pst]; rewrite Hex; reflexivity).
    destruct c; cbn [pipe_run] in Hp; rewrite Hpd in Hp; injection Hp as <-; reflexivity.
  - pose proof (sim_flatten s (cwf_cache_ok s HW)) as S0.
    assert (HR : Rinv (prog (im s)) (pipe_init s true) s).
    { exists (pipe_init (flatten s) true), (flatten s). split.
      - constructor; [exact S0 | reflexivity | exact S0 | intros H; discriminate H | reflexivity].
      - split; [reflexivity|]. left. apply inv_init; [apply cwf_flatten; exact HW | reflexivity | exact Hex]. }
    destruct (racct (prog (im s)) HS c _ _ p HR Hp) as (k & s'' & Hr & Hd & Hm).
    rewrite (sreach_run k s s'' n s' Hr Hd Hrun). exact Hm.
Qed.
Print Assumptions pipe_single_same_dcache_lem.
