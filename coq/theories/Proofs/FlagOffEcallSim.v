(* FlagOffEcallSim.v — property C08, phase B, part 12: from the one-step lemmas
   (FlagOffEcallNormal.v, FlagOffEcallStall.v) to the characterisation of the flag-off pipeline by
   the delayed-write-back reference machine for every program of supported instructions.

   lage_run      the reference run on lag states with the ecall drain absorbed ([estep]); [dwb_run]
                 is this run ([dwb_run_all])
   PatE, RelE    bookkeeping of the bubbles in the retire stream: the reference state M in front of
                 the next instruction to retire and the write-back aligned state L of the
                 invariant differ by the bubbles that lead the in-flight slots, up to [normE] *)
From Coq Require Import Lia ZifyBool Wf_nat.
From ArchSim Require Import Model.Base Model.Mem Model.Cache Model.Fmt Model.RV Model.Single
  Model.RVSplit Model.Pipe Proofs.WordLemmas Proofs.C01Step Proofs.SplitExec Proofs.C02Split
  Proofs.PipeLaws Proofs.PipeShape Proofs.PipeInv Proofs.PipeInvBase Proofs.PipeInvStages
  Proofs.PipeInvStraight Proofs.PipeInvControl Proofs.PipeInvEcall Proofs.PipeRefine
  Proofs.FlagOffSim Proofs.FlagOffDwb Proofs.FlagOffInv Proofs.FlagOffStraight Proofs.FlagOffControl
  Proofs.FlagOffEcallInv Proofs.FlagOffEcallNormal Proofs.FlagOffEcallStall.
Open Scope Z_scope.

Local Arguments Z.mul : simpl never.
Local Arguments Z.add : simpl never.
Local Arguments Z.sub : simpl never.
Local Arguments Z.of_nat : simpl never.

(** * The reference run on lag states *)
Definition cur_redE (M : lag) : bool :=
  match instr_at (prog (im (lt M))) (pc (lt M)) with
  | Some i => redirects i (uview (normE M))
  | None => false
  end.

Fixpoint lage_run (fuel : nat) (M : lag) : st * run_end :=
  match fuel with
  | O => (lt M, if single_done (lt M) then Done else OutOfFuel)
  | S k => if single_done (lt M) then (lt M, Done)
           else match estep M with
                | (M', Some f) => (lt M', Faulted f)
                | (M', None) => lage_run k (after_red (cur_redE M) M')
                end
  end.
Fixpoint lage_trace (fuel : nat) (M : lag) : list Z :=
  match fuel with
  | O => []
  | S k => if single_done (lt M) then []
           else match estep M with
                | (_, Some _) => []
                | (M', None) => pc (lt M) :: lage_trace k (after_red (cur_redE M) M')
                end
  end.

Lemma lage_run_done n M : single_done (lt M) = true -> lage_run n M = (lt M, Done) /\ lage_trace n M = [].
Proof. intros H. destruct n; cbn [lage_run lage_trace]; rewrite H; split; reflexivity. Qed.
Lemma lage_run_step k M M' : single_done (lt M) = false -> estep M = (M', None) ->
  lage_run (S k) M = lage_run k (after_red (cur_redE M) M') /\
  lage_trace (S k) M = pc (lt M) :: lage_trace k (after_red (cur_redE M) M').
Proof. intros H E. cbn [lage_run lage_trace]. rewrite H, E. split; reflexivity. Qed.
Lemma lage_run_fault k M M' f : single_done (lt M) = false -> estep M = (M', Some f) ->
  lage_run (S k) M = (lt M', Faulted f).
Proof. intros H E. cbn [lage_run]. rewrite H, E. reflexivity. Qed.

Lemma normE_lt M M2 : normE M = normE M2 -> lt M = lt M2.
Proof. intros H. rewrite <- (lt_normE M), <- (lt_normE M2), H. reflexivity. Qed.

(* the run looks at its state only through [normE] *)
Lemma lage_norm n M M2 : normE M = normE M2 ->
  lage_run n M = lage_run n M2 /\ lage_trace n M = lage_trace n M2.
Proof.
  intros H. pose proof (normE_lt _ _ H) as Hlt.
  destruct n as [|k]; cbn [lage_run lage_trace]; rewrite Hlt; [split; reflexivity|].
  unfold estep, cur_redE. rewrite H, Hlt. split; reflexivity.
Qed.

Lemma lt_after_red r X : lt (after_red r X) = lt X.
Proof. destruct r; reflexivity. Qed.

(** * [dwb_run] is this run *)
Definition Dset (d : dwb) : Prop :=
  (do1 d = false -> lr1 (dl d) = regs (lt (dl d))) /\
  (do1 d = false -> do2 d = false -> lr2 (dl d) = regs (lt (dl d))).

Lemma Dset_dbub d : Dset d -> Dset (dbub d).
Proof.
  intros [H1 H2]. split; cbn [dbub dl do1 do2 bub lr1 lr2 lt]; [reflexivity|]. intros _ E. apply H1. exact E.
Qed.

Lemma settle_settled L : lr1 L = regs (lt L) -> lr2 L = regs (lt L) -> settle L = L.
Proof. destruct L as [t r1 r2]. unfold settle, bub. cbn. intros -> ->. reflexivity. Qed.

Lemma dwb_step_estep d i : Dset d -> instr_at (prog (im (lt (dl d)))) (pc (lt (dl d))) = Some i ->
  exists d', dwb_step d = (d', snd (estep (dl d))) /\ Dset d' /\
    dl d' = match snd (estep (dl d)) with
            | Some _ => fst (estep (dl d))
            | None => after_red (cur_redE (dl d)) (fst (estep (dl d)))
            end.
Proof.
  intros [H1 H2] Hi. unfold dwb_step, estep, cur_redE, normE, next_ec. rewrite Hi.
  set (d1 := if is_ecall i && (do1 d || do2 d) then dbub (dbub d) else d).
  assert (Hd1 : dl d1 = (if is_ecall i then settle (dl d) else dl d)).
  { subst d1. destruct (is_ecall i); [|reflexivity]. cbn [andb].
    destruct (do1 d) eqn:E1; [reflexivity|]. destruct (do2 d) eqn:E2; [reflexivity|].
    cbn [orb]. symmetry. apply settle_settled; [apply H1; reflexivity|apply H2; reflexivity]. }
  rewrite <- Hd1.
  destruct (lstep (dl d1)) as [L1 [f|]]; cbn [fst snd].
  - eexists. split; [reflexivity|]. split; [|reflexivity]. split; cbn [do1]; intros E; discriminate E.
  - destruct (redirects i (uview (dl d1))); cbn [after_red].
    + eexists. split; [reflexivity|]. split; [|reflexivity].
      do 3 apply Dset_dbub. split; cbn [do1]; intros E; discriminate E.
    + eexists. split; [reflexivity|]. split; [|reflexivity]. split; cbn [do1]; intros E; discriminate E.
Qed.

Lemma dwb_run_all n : forall d, Dset d ->
  dwb_run_from n d = lage_run n (dl d) /\ dwb_trace_from n d = lage_trace n (dl d).
Proof.
  induction n as [|k IH]; intros d HD; cbn [dwb_run_from lage_run dwb_trace_from lage_trace];
    [split; reflexivity|].
  destruct (single_done (lt (dl d))) eqn:Hd; [split; reflexivity|].
  unfold single_done, has_instr in Hd. destruct (exitc (lt (dl d))) eqn:Hex; [discriminate Hd|].
  destruct (instr_at (prog (im (lt (dl d)))) (pc (lt (dl d)))) as [i|] eqn:Hi; [|discriminate Hd].
  destruct (dwb_step_estep d i HD Hi) as (d' & -> & HD' & Hdl).
  destruct (estep (dl d)) as [M' [f|]]; cbn [fst snd] in *.
  - rewrite Hdl. split; reflexivity.
  - destruct (IH d' HD') as [A B]. rewrite A, B, Hdl. split; reflexivity.
Qed.

Lemma Dset_init s : Dset (dwb_init s).
Proof. split; intros; reflexivity. Qed.

(** * Bubbles in front of an ecall *)
Lemma settle_leadb bs : forall X, settle (leadb bs X) = settle X.
Proof. induction bs as [|[|] t IH]; intros X; cbn [leadb]; try reflexivity. rewrite IH. reflexivity. Qed.
Lemma next_ec_leadb bs X : next_ec (leadb bs X) = next_ec X.
Proof. unfold next_ec. rewrite lt_leadb. reflexivity. Qed.
Lemma normE_leadb_ec bs X : next_ec X = true -> normE (leadb bs X) = settle X.
Proof. intros H. unfold normE. rewrite next_ec_leadb, H. apply settle_leadb. Qed.
Lemma normE_ec X : next_ec X = true -> normE X = settle X.
Proof. intros H. unfold normE. rewrite H. reflexivity. Qed.

Section Sim.
Variable P : list instr.
Hypothesis Hsup : Forall (fun i => supported i = true) P.

(** * Redirecting slots *)
Lemma flush_redirects_t t x3 : prog (im t) = P -> lv3 P t (Some x3) ->
  (flush_of (Some x3) = None <-> redirects (sl_instr x3) t = false).
Proof.
  cbn [lv3 flush_of]. intros HP (W & (Hx & _ & Hi) & (e & te & tm & He & Hm) & Hok & Hexn).
  pose proof (instr_supported P Hsup _ _ Hi) as Hs.
  pose proof (ex_on_shape _ _ _ _ _ _ He) as (cmp & res & stall & ex & fl & He2 & Hst & _).
  pose proof (mem_on_shape _ _ _ _ Hm) as [rd Hx3]. injection Hx3 as Hx3. injection He2 as He2.
  change (sl_instr (dsl t (sl_instr x3))) with (sl_instr x3) in Hst.
  assert (Hie : sl_instr e = sl_instr x3) by (rewrite He2; reflexivity).
  assert (Hf : sl_flush x3 = mem_flush e) by (rewrite Hx3; reflexivity).
  destruct (is_ecall (sl_instr x3)) eqn:Hec.
  - apply is_ecall_true in Hec. rewrite Hec. cbn [redirects]. split; [reflexivity|]. intros _.
    rewrite Hf, (mem_flush_ecall e ltac:(congruence)). unfold wb_flush.
    assert (Hi' : instr_at (prog (im t)) (pc t) = Some (sl_instr x3)) by (rewrite HP; exact Hi).
    destruct (nxt_fields t _ W Hx Hi' Hs _ _ _ _ He Hm) as (_ & _ & _ & _ & Hexn' & _).
    rewrite Hexn' in Hexn. assert (Hxe : sl_exit x3 = sl_exit e) by (rewrite Hx3; reflexivity).
    rewrite <- Hxe. destruct (sl_exit x3); [discriminate Hexn|reflexivity].
  - cbn [andb] in Hst.
    assert (Hn : noecall (sl_instr x3) = true) by (unfold noecall; rewrite Hs, Hec; reflexivity).
    assert (Hse : sl_stall e = false) by (rewrite He2; cbn [ex_slot sl_stall]; exact Hst).
    rewrite Hf, <- Hie. apply mem_flush_redirects; [|exact Hse|rewrite Hie; exact Hn].
    unfold Eok. rewrite Hse, Hie. exists te. exact He.
Qed.

(** * The bubble pattern *)
Definition PatE (p : pstate) (l0 l1 l2 l3 : latch) : Prop :=
  let bf := has_instr (im (pst p)) (pc (pst p)) in
  nost1 p /\
  (flush_of l3 <> None -> l2 = None /\ l1 = None /\ l0 = None) /\
  (flush_of l3 = None -> flush_of l2 = None ->
   mono5 (nonempty l3) (nonempty l2) (nonempty l1) (nonempty l0) bf = true).

Lemma PatE_step p p' l0 l1 l2 l3 n0 n1 n2 n3 n4 : PatE p l0 l1 l2 l3 -> emove p p' l0 l1 l2 l3 ->
  nost1 p' -> lat p' = [n0; n1; n2; n3; n4] -> PatE p' n0 n1 n2 n3.
Proof.
  intros (_ & Hfl & Hm) Hmv Hns Hl. unfold PatE. cbv zeta in *. split; [exact Hns|].
  destruct Hmv as [m0 m1 m2 m3 m4 Hl' Hf3 Hf2 Hfl2 E3 E2 E1 E0 Ef | m3 m4 Hl' Hf3 H2 |
                   x2 m4 Hl' Hi2 Hf2 H3 H2 | m1 x2 m4 Hl' Hi2 Hf2 He2 Hfl2 E1 Ef];
    rewrite Hl in Hl'; injection Hl' as -> -> -> -> ->.
  - split; [intros H; contradiction|]. intros _ _. rewrite E3, E2, E1, E0.
    destruct (flush_of l3) as [a|] eqn:F3.
    + destruct (Hfl ltac:(discriminate)) as (-> & -> & ->). cbn [nonempty].
      destruct (has_instr (im (pst p)) (pc (pst p))), (has_instr (im (pst p')) (pc (pst p'))); reflexivity.
    + specialize (Hm eq_refl Hfl2).
      destruct (nonempty l3), (nonempty l2), (nonempty l1), (nonempty l0),
        (has_instr (im (pst p)) (pc (pst p))) eqn:Bf; cbn in Hm; try discriminate Hm;
        rewrite E0 in Ef; try rewrite (Ef eq_refl);
        destruct (has_instr (im (pst p')) (pc (pst p'))); reflexivity.
  - split; [intros _; repeat split|intros H; contradiction].
  - split; [intros H; exfalso; apply H; reflexivity|]. intros _ H. contradiction.
  - split; [intros H; exfalso; apply H; reflexivity|]. intros _ _. rewrite E1, Ef. cbn [nonempty].
    assert (F3 : flush_of l3 = None).
    { destruct (flush_of l3) eqn:F; [|reflexivity]. destruct (Hfl ltac:(discriminate)) as (E & _).
      rewrite E in He2. discriminate He2. }
    specialize (Hm F3 Hfl2). assert (B2 : nonempty l2 = true) by (destruct l2; [reflexivity|discriminate He2]).
    rewrite B2 in Hm.
    destruct (nonempty l3), (nonempty l1), (nonempty l0), (has_instr (im (pst p)) (pc (pst p)));
      cbn in Hm |- *; try discriminate Hm; reflexivity.
Qed.

(** * The reference state in front of the next instruction to retire *)
Definition RelE (M L : lag) (p : pstate) (l0 l1 l2 l3 : latch) : Prop :=
  normE M = normE (leadb [nonempty l3; nonempty l2; nonempty l1; nonempty l0] L) \/
  (lt M = lt L /\ nonempty l3 = false /\ nonempty l2 = false /\ nonempty l1 = false /\
   nonempty l0 = false /\ has_instr (im (pst p)) (pc (pst p)) = false).

Lemma RelE_lt M L p l0 l1 l2 l3 : RelE M L p l0 l1 l2 l3 -> lt M = lt L.
Proof. intros [H|[H _]]; [|exact H]. apply normE_lt in H. rewrite H. apply lt_leadb. Qed.

Lemma RelE_next p p' L M l0 l1 l2 l3 n0 n1 n2 n3 n4 : PatE p l0 l1 l2 l3 ->
  emove p p' l0 l1 l2 l3 -> lat p' = [n0; n1; n2; n3; n4] ->
  normE M = normE (leadb [nonempty l3; nonempty l2; nonempty l1; nonempty l0] L) ->
  (n3 = None -> forall x, n2 = Some x -> sl_instr x = IEcall -> next_ec (advE l3 L) = true) ->
  RelE (match l3 with None => M | Some _ => after_red (has_flush l3) (advE l3 L) end)
       (advE l3 L) p' n0 n1 n2 n3.
Proof.
  intros (_ & Hfl & Hm) Hmv Hl HM Hnec. cbv zeta in Hm.
  destruct Hmv as [m0 m1 m2 m3 m4 Hl' Hf3 Hf2 Hfl2 E3 E2 E1 E0 Ef | m3 m4 Hl' Hf3 H2 |
                   x2 m4 Hl' Hi2 Hf2 H3 H2 | m1 x2 m4 Hl' Hi2 Hf2 He2 Hfl2 E1 Ef];
    rewrite Hl in Hl'; injection Hl' as -> -> -> -> ->.
  - (* shift *)
    destruct l3 as [x3|]; cbn [nonempty leadb] in HM.
    + unfold has_flush. destruct (flush_of (Some x3)) as [a|] eqn:F3; cbn [after_red].
      * destruct (Hfl ltac:(discriminate)) as (-> & -> & ->).
        left. rewrite E3, E2, E1. cbn [nonempty]. rewrite leadb_drop. reflexivity.
      * specialize (Hm eq_refl Hfl2). cbn [nonempty] in Hm.
        destruct (nonempty l2) eqn:B2.
        { left. rewrite E3. reflexivity. }
        right. rewrite E3, E2, E1, E0.
        destruct (nonempty l1), (nonempty l0), (has_instr (im (pst p)) (pc (pst p))) eqn:Bf;
          cbn in Hm; try discriminate Hm.
        rewrite E0 in Ef. repeat split. apply Ef. reflexivity.
    + rewrite advE_none. left. rewrite HM, E3, E2, E1, leadb_drop. reflexivity.
  - (* flush from MEM *)
    assert (B3 : nonempty m3 = true) by (destruct m3; [reflexivity|exfalso; apply Hf3; reflexivity]).
    left. rewrite B3. cbn [leadb].
    destruct l3 as [x3|]; cbn [nonempty leadb] in HM.
    + unfold has_flush. destruct (flush_of (Some x3)) eqn:F3; [|reflexivity].
      destruct (Hfl ltac:(discriminate)) as (E & _). rewrite E in H2. discriminate H2.
    + rewrite H2 in HM. cbn [leadb] in HM. rewrite advE_none. exact HM.
  - (* flush from EX: an exiting ecall has fired *)
    subst l3. rewrite advE_none in *. specialize (Hnec eq_refl x2 eq_refl Hi2).
    rewrite next_ec_bub in Hnec. rewrite (normE_leadb_ec _ L Hnec) in HM.
    left. rewrite HM. rewrite (normE_leadb_ec _ (bub L) Hnec). reflexivity.
  - (* the drain goes on, or the ecall has fired and printed *)
    specialize (Hnec eq_refl x2 eq_refl Hi2).
    assert (B2 : nonempty l2 = true) by (destruct l2; [reflexivity|discriminate He2]).
    left. rewrite (normE_leadb_ec _ (advE l3 L) Hnec).
    destruct l3 as [x3|].
    + unfold has_flush. destruct (flush_of (Some x3)) eqn:F3; cbn [after_red].
      * destruct (Hfl ltac:(discriminate)) as (E & _). rewrite E in B2. discriminate B2.
      * apply normE_ec. exact Hnec.
    + rewrite advE_none in *. rewrite next_ec_bub in Hnec.
      rewrite HM, (normE_leadb_ec _ L Hnec). reflexivity.
Qed.

(** * The simulation *)
Definition esim_goal (n : nat) (M : lag) (p : pstate) : Prop :=
  match lage_run n M with
  | (s', Done) => exists c p', Z.of_nat c <= 5 * Z.of_nat n + mu4 p /\
      pipe_run c p = (p', PDone) /\ arch_agree p' s' /\ pipe_trace c p = lage_trace n M
  | (s', Faulted f) => exists c p', Z.of_nat c <= 5 * Z.of_nat n + mu4 p + 1 /\
      pipe_run c p = (p', PFaulted f) /\
      regs (pst p') = regs s' /\ ms (pst p') = ms s' /\ out (pst p') = out s'
  | (_, OutOfFuel) => True
  end.

Definition EInvP (p : pstate) (M : lag) : Prop :=
  exists L l0 l1 l2 l3 l4 dead, EInvAt P p L l0 l1 l2 l3 l4 dead /\ PatE p l0 l1 l2 l3 /\
    RelE M L p l0 l1 l2 l3.
Definition EExitP (p : pstate) (M : lag) : Prop :=
  exists L, EExiting P p L /\ normE M = normE L.

Lemma esim_done n M p : EInvP p M -> single_done (lt M) = true -> esim_goal n M p.
Proof.
  intros (L & l0 & l1 & l2 & l3 & l4 & dead & I & _ & HR) Hd. unfold esim_goal.
  pose proof (RelE_lt _ _ _ _ _ _ _ HR) as Hlt.
  destruct (lage_run_done n M Hd) as [-> ->]. rewrite Hlt in *.
  destruct (edone_empty P _ _ _ _ _ _ _ _ I Hd) as [-> ->].
  exists 0%nat, p. pose proof (mu4_bounds p (ev_shape _ _ _ _ _ _ _ _ _ I)).
  split; [lia|]. split; [cbn [pipe_run]; rewrite (edone_iff P _ _ _ _ _ _ _ _ I), Hd; reflexivity|].
  split; [eapply einv_empty_agree; eauto|reflexivity].
Qed.

Lemma esim_exiting n M p : EExitP p M -> esim_goal n M p.
Proof.
  intros (L & E & HN). pose proof E as (l0 & x3 & l4 & _ & Sh & _).
  destruct (eexiting_step P Hsup p L E) as (Hpd & Hsd & L1 & Hes & Hsd1 & p' & Hps & Hpd' & Hag & Htr).
  pose proof (mu4_bounds p Sh) as Hmu. pose proof (normE_lt _ _ HN) as Hlt.
  unfold esim_goal. rewrite <- Hlt in Hsd.
  destruct n as [|k]; [cbn [lage_run]; rewrite Hsd; exact Logic.I|].
  assert (HesM : estep M = (L1, None)) by (unfold estep in *; rewrite HN; exact Hes).
  destruct (lage_run_step k M _ Hsd HesM) as [-> ->].
  assert (Hd1 : single_done (lt (after_red (cur_redE M) L1)) = true) by (rewrite lt_after_red; exact Hsd1).
  destruct (lage_run_done k _ Hd1) as [-> ->]. rewrite lt_after_red.
  exists 1%nat, p'. split; [lia|].
  destruct (pipe_run_step 0 p p' Hpd Hps) as [-> ->]. cbn [pipe_run pipe_trace]. rewrite Hpd', Htr, Hlt.
  split; [reflexivity|]. split; [exact Hag|reflexivity].
Qed.

Lemma esim n : forall M p, EInvP p M -> esim_goal n M p.
Proof.
  induction n as [|k IHk]; intros M p Hinv.
  { destruct (single_done (lt M)) eqn:Hd; [apply esim_done; assumption|].
    unfold esim_goal. cbn [lage_run]. rewrite Hd. exact Logic.I. }
  remember (Z.to_nat (mu4 p)) as m eqn:Hm. revert p Hinv Hm.
  induction m as [m IHm] using lt_wf_ind. intros p Hinv Hm.
  destruct (single_done (lt M)) eqn:Hd; [apply esim_done; assumption|].
  destruct Hinv as (L & l0 & l1 & l2 & l3 & l4 & dead & I & HPat & HR).
  pose proof (RelE_lt _ _ _ _ _ _ _ HR) as Hlt.
  pose proof (ev_shape _ _ _ _ _ _ _ _ _ I) as Sh. pose proof (mu4_bounds p Sh) as Hmu.
  pose proof (ev_progs _ _ _ _ _ _ _ _ _ I) as HPs.
  assert (Hpd : pipe_done p = false) by (rewrite (edone_iff P _ _ _ _ _ _ _ _ I), <- Hlt; exact Hd).
  assert (HRM : normE M = normE (leadb [nonempty l3; nonempty l2; nonempty l1; nonempty l0] L)).
  { destruct HR as [HR|(_ & E3 & E2 & E1 & E0 & Ef)]; [exact HR|]. exfalso.
    unfold pipe_done, pipe_empty in Hpd.
    rewrite (ev_exitc _ _ _ _ _ _ _ _ _ I), (ev_lat _ _ _ _ _ _ _ _ _ I) in Hpd. lat5h Hpd.
    rewrite E3, E2, E1, E0, Ef in Hpd. discriminate Hpd. }
  pose proof HPat as (Hns & Hflc & _).
  pose proof (estep_any P Hsup _ _ _ _ _ _ _ _ I Hns Hpd) as Hstep. unfold estep_goal in Hstep.
  assert (H3 : forall x3, l3 = Some x3 -> estep M = (advE l3 L, None) /\ sl_addr x3 = pc (lt M) /\
                cur_redE M = has_flush l3).
  { intros x3 E. subst l3. pose proof (ev_l3 _ _ _ _ _ _ _ _ _ I) as L3.
    pose proof L3 as (_ & Hon & _ & Hok & _). destruct (onp_pc P _ _ _ Hon) as [Hi Ha].
    cbn [nonempty leadb] in HRM. rewrite (normE_preE P _ _ x3 eq_refl HPs Hon) in HRM.
    split; [unfold estep; rewrite HRM, advE_some; apply lstep_ok; exact Hok|].
    split; [congruence|].
    unfold cur_redE. rewrite Hlt, HPs, Hi, HRM.
    assert (HPt : prog (im (uview (preE (Some x3) L))) = P).
    { change (prog (im (lt (preE (Some x3) L))) = P). rewrite lt_preE. exact HPs. }
    pose proof (flush_redirects_t _ x3 HPt L3) as H. unfold has_flush.
    destruct (flush_of (Some x3)); destruct (redirects (sl_instr x3) (uview (preE (Some x3) L))); try reflexivity.
    - destruct H as [_ H]. discriminate (H eq_refl).
    - destruct H as [H _]. discriminate (H eq_refl). }
  assert (Hboth : forall j M' q, (EInvP q M' \/ EExitP q M') ->
            (EInvP q M' -> esim_goal j M' q) -> esim_goal j M' q /\ 0 <= mu4 q <= 4).
  { intros j M' q [Hq|Hq] Hrec.
    - split; [apply Hrec; exact Hq|]. destruct Hq as (? & ? & ? & ? & ? & ? & ? & Iq & _).
      apply mu4_bounds. apply (ev_shape _ _ _ _ _ _ _ _ _ Iq).
    - split; [apply esim_exiting; exact Hq|]. destruct Hq as (? & (? & ? & ? & _ & Shq & _) & _).
      apply mu4_bounds. exact Shq. }
  assert (Hnext : forall p', (EInv P p' (advE l3 L) \/ EExiting P p' (advE l3 L)) -> nost1 p' ->
            emove p p' l0 l1 l2 l3 ->
            EInvP p' (match l3 with None => M | Some _ => after_red (has_flush l3) (advE l3 L) end) \/
            EExitP p' (match l3 with None => M | Some _ => after_red (has_flush l3) (advE l3 L) end)).
  { intros p' [(m0 & m1 & m2 & m3 & m4 & dd & I')|E'] Hns' Hmv.
    - left. exists (advE l3 L), m0, m1, m2, m3, m4, dd.
      pose proof (ev_lat _ _ _ _ _ _ _ _ _ I') as Hl'.
      split; [exact I'|]. split; [eapply PatE_step; eassumption|].
      eapply RelE_next; try eassumption.
      intros E3 x E2 Hix. subst m3 m2.
      pose proof (ev_l2 _ _ _ _ _ _ _ _ _ I') as L2'. cbn [lv] in L2'. destruct (L2' Logic.I) as (_ & Hon & _).
      destruct (onp_pc P _ _ _ Hon) as [Hi _]. rewrite advE_none in Hi.
      unfold next_ec. rewrite (ev_progs _ _ _ _ _ _ _ _ _ I'). change (pc (lt (bub (advE l3 L)))) with (pc (lt (advE l3 L))) in Hi.
      rewrite Hi, Hix. reflexivity.
    - right. exists (advE l3 L). split; [exact E'|].
      destruct E' as (k0 & x3' & k4 & Hl' & _).
      assert (HRn : RelE (match l3 with None => M | Some _ => after_red (has_flush l3) (advE l3 L) end)
                      (advE l3 L) p' k0 None None (Some x3')).
      { eapply RelE_next; try eassumption. intros H; discriminate H. }
      destruct HRn as [H|(_ & H & _)]; [exact H|discriminate H]. }
  destruct (pipe_step p) as [p' [f|]] eqn:Hps.
  - destruct Hstep as (Lm & Hss & Hnd & Hinfo & Hr & Hms & Ho).
    destruct l3 as [x3|].
    + destruct (H3 x3 eq_refl) as (Hs3 & _ & Hred). unfold esim_goal.
      destruct (lage_run_step k M _ Hd Hs3) as [-> _].
      assert (Hnr : has_flush (Some x3) = false).
      { unfold has_flush. destruct (flush_of (Some x3)) eqn:F; [|reflexivity]. exfalso.
        destruct (Hflc ltac:(discriminate)) as (E2 & _).
        destruct Hinfo as [Hl2|(_ & H & _)]; [rewrite E2 in Hl2; discriminate Hl2|discriminate H]. }
      rewrite Hred, Hnr. cbn [after_red].
      destruct k as [|k']; [cbn [lage_run]; rewrite Hnd; exact Logic.I|].
      rewrite (lage_run_fault k' _ _ _ Hnd Hss).
      exists 1%nat, p'. split; [lia|]. split; [apply pipe_run_fault; assumption|]. repeat split; assumption.
    + rewrite advE_none in *.
      assert (HnM : normE M = normE (bub L)).
      { cbn [nonempty] in HRM. destruct Hinfo as [Hl2|(E2 & _ & He1)].
        - rewrite Hl2 in HRM. exact HRM.
        - subst l2. destruct l1 as [x1|]; [|discriminate He1].
          pose proof (ev_l2 _ _ _ _ _ _ _ _ _ I) as L2. cbn [lv] in L2.
          pose proof (ev_dead _ _ _ _ _ _ _ _ _ I) as Hdd.
          pose proof (ev_l1 _ _ _ _ _ _ _ _ _ I) as L1. cbn [lv] in L1.
          destruct (L1 ltac:(lia)) as (_ & Hon & _). destruct (onp_pc P _ _ _ Hon) as [Hi _].
          assert (Hnec : next_ec L = true).
          { unfold next_ec. rewrite HPs.
            change (pc (lt (advE None (advE None L)))) with (pc (lt L)) in Hi. rewrite Hi. exact He1. }
          rewrite (normE_leadb_ec _ L Hnec) in HRM. rewrite HRM. symmetry. apply (normE_ec (bub L) Hnec). }
      assert (HssM : estep M = (Lm, Some f)) by (unfold estep in *; rewrite HnM; exact Hss).
      unfold esim_goal. rewrite (lage_run_fault k _ _ _ Hd HssM).
      exists 1%nat, p'. split; [lia|]. split; [apply pipe_run_fault; assumption|]. repeat split; assumption.
  - destruct Hstep as (Hinv' & Hl4 & Hmu' & Hns' & Hmv).
    pose proof (Hnext p' Hinv' Hns' Hmv) as HinvP'.
    destruct l3 as [x3|]; cbn [option_map] in *.
    + destruct (H3 x3 eq_refl) as (Hs3 & Ha3 & Hred).
      destruct (Hboth k _ p' HinvP' (IHk _ p')) as [Hrec Hmu4].
      unfold esim_goal in *. destruct (lage_run_step k M _ Hd Hs3) as [-> ->]. rewrite Hred.
      destruct (lage_run k (after_red (has_flush (Some x3)) (advE (Some x3) L))) as [s' [|f|]]; [| |exact Logic.I].
      * destruct Hrec as (c & p'' & Hc & Hrun & Hag & Htr). exists (S c), p''.
        destruct (pipe_run_step c p p' Hpd Hps) as [-> ->]. rewrite Hl4. cbn [some_addr wb_slot sl_addr app].
        split; [lia|]. split; [exact Hrun|]. split; [exact Hag|]. rewrite Htr, Ha3. reflexivity.
      * destruct Hrec as (c & p'' & Hc & Hrun & Hag). exists (S c), p''.
        destruct (pipe_run_step c p p' Hpd Hps) as [-> _]. split; [lia|]. split; assumption.
    + specialize (Hmu' eq_refl).
      assert (Hrec : esim_goal (S k) M p' /\ 0 <= mu4 p' <= 4).
      { apply Hboth; [exact HinvP'|]. intros Hq. apply (IHm (Z.to_nat (mu4 p'))); [|exact Hq|reflexivity].
        destruct Hq as (? & ? & ? & ? & ? & ? & ? & Iq & _).
        pose proof (mu4_bounds p' (ev_shape _ _ _ _ _ _ _ _ _ Iq)). lia. }
      destruct Hrec as [Hrec Hmu4]. unfold esim_goal in *.
      destruct (lage_run (S k) M) as [s' [|f|]]; [| |exact Logic.I].
      * destruct Hrec as (c & p'' & Hc & Hrun & Hag & Htr). exists (S c), p''.
        destruct (pipe_run_step c p p' Hpd Hps) as [-> ->]. rewrite Hl4. cbn [some_addr app].
        split; [lia|]. split; [exact Hrun|]. split; assumption.
      * destruct Hrec as (c & p'' & Hc & Hrun & Hag). exists (S c), p''.
        destruct (pipe_run_step c p p' Hpd Hps) as [-> _]. split; [lia|]. split; assumption.
Qed.

End Sim.

(** * The characterisation, for every program of supported instructions *)
Theorem flagoff_is_dwb_all P s n :
  Forall (fun i => supported i = true) P -> wf s -> prog (im s) = P ->
  match dwb_run n s with
  | (s', Done) => exists c p, (c <= 8 * n + 8)%nat /\
      pipe_run c (pipe_init s false) = (p, PDone) /\ arch_agree p s' /\
      pipe_trace c (pipe_init s false) = dwb_trace n s
  | (s', Faulted f) => exists c p, (c <= 8 * n + 8)%nat /\
      pipe_run c (pipe_init s false) = (p, PFaulted f) /\
      regs (pst p) = regs s' /\ ms (pst p) = ms s' /\ out (pst p) = out s'
  | (_, OutOfFuel) => True
  end.
Proof.
  intros HS W HP. unfold dwb_run, dwb_trace.
  destruct (dwb_run_all n (dwb_init s) (Dset_init s)) as [-> ->]. change (dl (dwb_init s)) with (lag_init s).
  destruct (exitc s) as [c0|] eqn:Hex.
  - assert (Hd : single_done (lt (lag_init s)) = true) by (unfold single_done; cbn [lag_init lt]; rewrite Hex; reflexivity).
    destruct (lage_run_done n _ Hd) as [-> ->].
    exists 0%nat, (pipe_init s false). split; [lia|].
    split; [cbn [pipe_run]; unfold pipe_done; cbn [pipe_init pst]; rewrite Hex; reflexivity|].
    split; [unfold arch_agree; cbn [pipe_init pst lag_init lt]; repeat split|reflexivity].
  - assert (HI : EInvP P (pipe_init s false) (lag_init s)).
    { destruct (einv_init P s W HP Hex) as (l0 & l1 & l2 & l3 & l4 & dead & I).
      exists (lag_init s), l0, l1, l2, l3, l4, dead. split; [exact I|].
      pose proof (ev_lat _ _ _ _ _ _ _ _ _ I) as Hl. cbn [pipe_init lat] in Hl. injection Hl as <- <- <- <- <-.
      split.
      - split; [intros d H; discriminate H|]. cbv zeta. cbn [nonempty flush_of].
        split; [intros H; exfalso; apply H; reflexivity|]. intros _ _. destruct (has_instr _ _); reflexivity.
      - left. reflexivity. }
    pose proof (esim P HS n _ _ HI) as H. unfold esim_goal in H.
    assert (Hmu : mu4 (pipe_init s false) = 4) by reflexivity. rewrite Hmu in H.
    destruct (lage_run n (lag_init s)) as [s' [|f|]]; [| |exact Logic.I].
    + destruct H as (c & p & Hc & Hrun & Hag & Htr). exists c, p. split; [lia|]. split; [exact Hrun|split; assumption].
    + destruct H as (c & p & Hc & Hrun & Hag). exists c, p. split; [lia|]. split; assumption.
Qed.
Print Assumptions flagoff_is_dwb_all.

(** * Helper for closed examples *)
Lemma wf_init_flat P : Forall wf_instr P -> Z.of_nat (length P) <= 4096 -> wf (init_st P (MFlat []) None).
Proof.
  intros HP Hl. constructor; cbn [init_st regs ms im pc prog icc ms_lower].
  - split; [intros k; change (mget [] k) with 0; unfold in32; lia|reflexivity].
  - intros k. change (mget [] k) with 0. lia.
  - exists []. reflexivity.
  - reflexivity.
  - lia.
  - exact HP.
  - exact Hl.
Qed.
