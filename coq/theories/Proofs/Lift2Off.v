(* Proofs/Lift2Off.v — property C08 (hazard detection OFF) for every memory configuration.
   (A) the flag-off pipeline with caches against the delayed-write-back reference machine of the
       flattened state, by composition of [pipe_run_lift] (generic in the hazard flag) with
       [flagoff_is_dwb_all];
   (B) on a program whose dependencies are three apart the cached flag-off pipeline runs cycle by
       cycle like the cached hazard-detecting pipeline ([erase]), hence refines the single-cycle
       machine with the same caches in the strong sense of Proofs/Lift2Run.v. *)
From Coq Require Import Lia ZifyBool.
From ArchSim Require Import Spec.RefCache.
From ArchSim Require Import Model.Base Model.Mem Model.Cache Model.Fmt Model.RV Model.Single
  Model.RVSplit Model.Pipe
  Proofs.C01Step Proofs.SplitExec Proofs.PipeLaws Proofs.PipeShape Proofs.PipeInv Proofs.PipeInvStraight
  Proofs.FlagOffDep Proofs.FlagOffSim Proofs.FlagOffRefine Proofs.FlagOffDwb Proofs.FlagOffEcallSim
  Proofs.LiftSim Proofs.LiftSingle Proofs.LiftPipe Proofs.LiftPipeRun Proofs.LiftICache Proofs.LiftRefine
  Proofs.Lift2Fault Proofs.Lift2Run.
Open Scope Z_scope.
Local Arguments Z.mul : simpl never.
Local Arguments Z.add : simpl never.
Local Arguments Z.of_nat : simpl never.

Lemma ptrace_eq n : forall p, ptrace n p = pipe_trace n p.
Proof.
  induction n as [|n IH]; intros p; cbn [ptrace pipe_trace]; [reflexivity|].
  destruct (pipe_done p); [reflexivity|]. destruct (pipe_step p) as [p' [f|]]; [reflexivity|].
  rewrite IH. reflexivity.
Qed.

(* agreement of a cached pipeline state with a flat reference state, through the flat pipeline *)
Lemma agree_via_flat p q t' : same_pipe p q -> arch_agree q t' -> agree_log p t'.
Proof.
  intros (_ & _ & _ & _ & (Hpc & Hr & Ho & He & Hi & Hb & Hp & Hm) & _) (Ar & Am & Ao & Ae & Ab & Ap & Ai).
  unfold agree_log. rewrite Hr, Ho, He, Hb, Hp, Hi.
  repeat (split; [assumption|]). intros a Ha. rewrite (Hm a Ha), Am. reflexivity.
Qed.

Lemma fault_agree_via_flat p q t' : same_pipe p q ->
  regs (pst q) = regs t' -> ms (pst q) = ms t' -> out (pst q) = out t' -> fault_agree p t'.
Proof.
  intros (_ & _ & _ & _ & (Hpc & Hr & Ho & He & Hi & Hb & Hp & Hm) & _) Ar Am Ao.
  unfold fault_agree. rewrite Hr, Ho. split; [exact Ar|]. split; [exact Ao|].
  intros a Ha. rewrite (Hm a Ha), Am. reflexivity.
Qed.

(** * (A) flag off with caches against the delayed-write-back reference machine *)
Theorem flagoff_is_dwb_caches_lem s n :
  cwf s -> Forall (fun i => supported i = true) (prog (im s)) ->
  match dwb_run n (flatten s) with
  | (t', Done) => exists c, (c <= 8 * n + 8)%nat /\
      match pipe_run c (pipe_init s false) with
      | (p, PDone) => agree_log p t' /\ pipe_trace c (pipe_init s false) = dwb_trace n (flatten s)
      | (p, PFaulted f) => exists k pk, (k < c)%nat /\
          pipe_run k (pipe_init s false) = (pk, POutOfFuel) /\ pipe_rejects pk f
      | (_, POutOfFuel) => False
      end
  | (t', Faulted ff) => exists c, (c <= 8 * n + 8)%nat /\
      match pipe_run c (pipe_init s false) with
      | (p, PFaulted f) =>
          (f = fmap (ms_cfg (ms s)) ff /\ fault_agree p t') \/
          (exists k pk, (k < c)%nat /\ pipe_run k (pipe_init s false) = (pk, POutOfFuel) /\ pipe_rejects pk f)
      | _ => False
      end
  | (_, OutOfFuel) => True
  end.
Proof.
  intros HW HS.
  pose proof (flagoff_is_dwb_all (prog (im s)) (flatten s) n HS (cwf_flatten s HW) eq_refl) as H.
  destruct (dwb_run n (flatten s)) as [t' [|ff|]]; [| |exact Logic.I].
  - destruct H as (c & q & Hc & Hq & Hag & Htr). exists c. split; [exact Hc|].
    pose proof (pipe_run_lift c (pipe_init s false) (cwf_cache_ok s HW)) as HL.
    change (pflatten (pipe_init s false)) with (pipe_init (flatten s) false) in HL.
    destruct (pipe_run c (pipe_init s false)) as [p [|f|]].
    + destruct HL as (q' & Hq' & Hsp & _ & Ht). rewrite Hq in Hq'. injection Hq' as <-.
      split; [apply (agree_via_flat p q t' Hsp Hag)|]. rewrite <- Htr, <- !ptrace_eq. symmetry. exact Ht.
    + destruct HL as [(q' & ff & Hq' & _)|(k & pk & qk & Hk & R1 & _ & _ & Rej)].
      * rewrite Hq in Hq'. discriminate.
      * exists k, pk. split; [exact Hk|]. split; assumption.
    + destruct HL as (q' & Hq' & _). rewrite Hq in Hq'. discriminate.
  - destruct H as (c & q & Hc & Hq & Ar & Am & Ao). exists c. split; [exact Hc|].
    pose proof (pipe_run_lift c (pipe_init s false) (cwf_cache_ok s HW)) as HL.
    change (pflatten (pipe_init s false)) with (pipe_init (flatten s) false) in HL.
    destruct (pipe_run c (pipe_init s false)) as [p [|f|]].
    + destruct HL as (q' & Hq' & _). rewrite Hq in Hq'. discriminate.
    + destruct HL as [(q' & ff' & Hq' & Ef & Hsp & _)|(k & pk & qk & Hk & R1 & _ & _ & Rej)].
      * rewrite Hq in Hq'. injection Hq' as <- <-. left. split; [exact Ef|].
        apply (fault_agree_via_flat p q t' Hsp Ar Am Ao).
      * right. exists k, pk. split; [exact Hk|]. split; assumption.
    + destruct HL as (q' & Hq' & _). rewrite Hq in Hq'. discriminate.
Qed.
Print Assumptions flagoff_is_dwb_caches_lem.

(** * (B) lock step of the cached flag-off pipeline with the cached hazard-detecting pipeline *)
Section CachedErase.
Variable P : list instr.
Hypothesis HD : dep_free_weak P = true.

(* the decode-stage stall flag of the cached flag-on pipeline is never raised: the latches are
   those of the flat twin, which satisfies the invariant [K] of Proofs/FlagOffSim.v *)
Lemma cached_erase_step p t : sim (pst p) t -> K P (with_pst p t) ->
  pipe_step (erase p) = (erase (fst (pipe_step p)), snd (pipe_step p)).
Proof.
  intros Hsim HK. set (q := with_pst p t) in *.
  destruct HK as [Hhz Sh HP [Jp [J01 J12]] Hns].
  destruct (shape_elim _ _ Sh) as (l0 & l1 & l2 & l3 & l4 & Hlq & Him & H0 & H1 & H2 & H3 & H4 & Hm).
  assert (Hl : lat p = [l0; l1; l2; l3; l4]) by exact Hlq.
  assert (Hhzp : hazards p = true) by exact Hhz.
  rewrite Hlq in Jp, J01, J12. lat5h Jp. lat5h J01. lat5h J12. rewrite HP in H0, H1, H2, H3, H4.
  assert (S1 : sim (pst (bump p)) (bumped t)) by (apply sim_cycles_l, sim_cycles_r; exact Hsim).
  (* a non-faulting cached cycle computes the latches of the flat twin's cycle *)
  assert (Twin : forall next s, run_stages (bump p) = (next, s, None) ->
            exists t', run_stages (bump q) = (next, t', None)).
  { intros next s Hrs. destruct (sim_run_stages (bump p) (bumped t) next s None S1 Hrs)
      as (next' & t' & of' & Hrs' & _ & [(-> & _ & Eo & _)|(z & e & _ & _ & E)]); [|discriminate E].
    destruct of'; [discriminate Eo|]. exists t'. exact Hrs'. }
  destruct (shape_mode_cases no_icache q Sh) as [Hs|(k & d & Hs & [-> | ->])].
  - (* not stalled *)
    assert (Hsp : stalled p = None) by exact Hs.
    rewrite Hs in Hm. unfold ModeInv in Hm. destruct (saved q) as [svl|] eqn:Hsv; [contradiction|].
    destruct Hm as (N1 & N2 & N3).
    assert (Hle : lat (erase p) = [l0; un l1; l2; l3; l4]) by (cbn [erase lat]; rewrite Hl; reflexivity).
    rewrite (pipe_step_normal (erase p) _ _ _ _ _ Hle Hsp). cbn [erase pst hazards]. rewrite run_normal_erase.
    rewrite (pipe_step_normal p _ _ _ _ _ Hl Hsp). rewrite Hhzp.
    apply finish_erase. intros next s E.
    assert (Hrs : run_stages (bump p) = (next, s, None)).
    { rewrite (run_stages_normal (bump p) _ _ _ _ _ Hl Hsp). cbn [bump hazards pst]. rewrite Hhzp. exact E. }
    destruct (Twin next s Hrs) as [t' Hrq].
    rewrite (run_stages_normal (bump q) _ _ _ _ _ Hlq Hs) in Hrq. cbn [bump hazards pst] in Hrq.
    change (hazards q) with (hazards p) in Hrq. rewrite Hhzp in Hrq.
    change (pst q) with t in Hrq, Him. fold (bumped t) in Hrq.
    assert (HPt : prog (im (bumped t)) = P) by exact HP.
    destruct (run_normal_ok no_icache true l0 l1 l2 l3 (bumped t) next t' None no_icache_faithful Him
                ltac:(rewrite HPt; exact H0) ltac:(rewrite HPt; exact H1) ltac:(rewrite HPt; exact H2)
                ltac:(rewrite HPt; exact H3) Hrq) as (_ & _ & _ & Hok).
    destruct (Hok eq_refl) as (n0 & n1 & n2 & n3 & n4 & -> & H0' & _ & _ & H3' & H4' & _). clear Hok.
    pose proof (L0ok_flags _ _ H0') as [Hs0 _]. pose proof (L3ok_flags _ _ H3') as Hs3.
    pose proof (L4ok_flags _ _ H4') as Hs4.
    assert (Hs1 : has_stall n1 = false).
    { destruct (run_normal_id _ _ _ _ _ _ _ _ Hrq) as [s2 E2]. lat5h E2. rewrite E2.
      eapply no_id_stall; eassumption. }
    cbn [clr1]. rewrite (un_idem n1 Hs1). reflexivity.
  - exfalso. exact (Hns d Hs).
  - (* stalled at EX *)
    assert (Hsp : stalled p = Some (2, d)) by exact Hs.
    rewrite Hs in Hm. unfold ModeInv in Hm. destruct (saved q) as [svl|] eqn:Hsv; [|contradiction].
    assert (Hsvp : saved p = Some svl) by exact Hsv.
    destruct Hm as [Hd [(Hk & _)|(_ & m0 & y1 & x2 & -> & Sk0 & -> & Sk1 & _)]]; [discriminate Hk|].
    assert (Hle : lat (erase p) = [l0; un l1; Some x2; l3; l4]) by (cbn [erase lat]; rewrite Hl; reflexivity).
    assert (Hsv0 : sv_at p 0 = m0) by (unfold sv_at; rewrite Hsvp; reflexivity).
    assert (Hsv1 : sv_at p 1 = Some y1) by (unfold sv_at; rewrite Hsvp; reflexivity).
    assert (Hse0 : sv_at (erase p) 0 = m0) by (unfold sv_at; cbn [erase saved]; rewrite Hsvp; reflexivity).
    assert (Hse1 : sv_at (erase p) 1 = un (Some y1)) by (unfold sv_at; cbn [erase saved]; rewrite Hsvp; reflexivity).
    rewrite (pipe_step_stall2 (erase p) _ _ _ _ _ d Hle Hsp). rewrite Hse0, Hse1.
    cbn [erase pst hazards]. rewrite run_stall2_erase.
    rewrite (pipe_step_stall2 p _ _ _ _ _ d Hl Hsp). rewrite Hhzp, Hsv0, Hsv1.
    apply finish_erase. intros next s E.
    assert (Hrs : run_stages (bump p) = (next, s, None)).
    { rewrite (run_stages_stall2 (bump p) _ _ _ _ _ d Hl Hsp). cbn [bump hazards pst].
      change (sv_at (bump p) 0) with (sv_at p 0). change (sv_at (bump p) 1) with (sv_at p 1).
      rewrite Hhzp, Hsv0, Hsv1. exact E. }
    destruct (Twin next s Hrs) as [t' Hrq].
    rewrite (run_stages_stall2 (bump q) _ _ _ _ _ d Hlq Hs) in Hrq. cbn [bump hazards pst] in Hrq.
    change (hazards q) with (hazards p) in Hrq. change (sv_at (bump q) 0) with (sv_at p 0) in Hrq.
    change (sv_at (bump q) 1) with (sv_at p 1) in Hrq. rewrite Hhzp, Hsv0, Hsv1 in Hrq.
    change (pst q) with t in Hrq. fold (bumped t) in Hrq.
    assert (HPt : prog (im (bumped t)) = P) by exact HP.
    assert (R0 : match m0 with Some m => real (prog (im (bumped t))) m | None => True end).
    { rewrite HPt. unfold skid0 in Sk0. destruct m0 as [m|]; [|exact Logic.I]. destruct l1 as [x|]; [|contradiction].
      destruct Sk0 as (_ & Hi & Ha). destruct H1 as [Rx _]. unfold real in *. rewrite <- Ha, <- Hi. exact Rx. }
    pose proof Sk1 as (Iy & Sy & Fy & Ey & Ix & Ax & _).
    assert (R1 : real (prog (im (bumped t))) y1).
    { rewrite HPt. destruct H2 as [Rx _]. unfold real in *. rewrite <- Ax, Iy, <- Ix. exact Rx. }
    destruct (run_stall2_ok true m0 (Some y1) l0 l1 (Some x2) l3 (bumped t) next t' None R0 R1
                ltac:(rewrite HPt; exact H3) Hrq) as (_ & _ & Hok).
    destruct (Hok eq_refl) as (n1 & n2 & n4 & -> & _ & _ & H4' & _). clear Hok.
    pose proof (L0ok_flags _ _ H0) as [Hs0 _]. pose proof (L4ok_flags _ _ H4') as Hs4.
    cbn [clr1]. rewrite Hsp, !new_stall_ignored_2 by (try assumption; reflexivity). reflexivity.
Qed.

Lemma cached_erase_run c : forall p t, sim (pst p) t -> K P (with_pst p t) ->
  pipe_run c (erase p) = (erase (fst (pipe_run c p)), snd (pipe_run c p)) /\
  pipe_trace c (erase p) = pipe_trace c p.
Proof.
  induction c as [|c IH]; intros p t Hsim HK; cbn [pipe_run pipe_trace]; rewrite ?erase_done.
  - destruct (pipe_done p); split; reflexivity.
  - destruct (pipe_done p); [split; reflexivity|].
    rewrite (cached_erase_step p t Hsim HK).
    destruct (pipe_step p) as [p' [f|]] eqn:Hps; cbn [fst snd]; [split; reflexivity|].
    destruct (sim_pipe_step p t p' None Hsim Hps) as [_ [(t' & of' & Ht & Sa & Eo & _)|(z & e & _ & _ & E)]];
      [|discriminate E].
    destruct of'; [discriminate Eo|].
    destruct (erase_step P HD (with_pst p t) HK) as [_ HK']. rewrite Ht in HK'. cbn [fst snd] in HK'.
    destruct (IH p' t' Sa (HK' eq_refl)) as [I1 I2]. rewrite I1, I2.
    split; [reflexivity|]. cbn [erase lat]. rewrite clr1_lat_4. reflexivity.
Qed.

End CachedErase.

Theorem flagoff_lockstep_caches_lem s c : cwf s -> dep_free_weak (prog (im s)) = true ->
  pipe_run c (pipe_init s false) =
    (erase (fst (pipe_run c (pipe_init s true))), snd (pipe_run c (pipe_init s true))) /\
  pipe_trace c (pipe_init s false) = pipe_trace c (pipe_init s true).
Proof.
  intros HW HD. rewrite erase_init.
  apply (cached_erase_run (prog (im s)) HD c (pipe_init s true) (flatten s)).
  - apply sim_flatten. apply cwf_cache_ok. exact HW.
  - change (with_pst (pipe_init s true) (flatten s)) with (pipe_init (flatten s) true).
    apply K_init; [apply (wf_noic _ (cwf_flatten s HW)) | reflexivity].
Qed.

Theorem flagoff_refines_single_caches_lem s n :
  cwf s -> Forall (fun i => supported i = true) (prog (im s)) -> dep_free_weak (prog (im s)) = true ->
  match single_run n s with
  | (s', Done) => exists c p, (c <= 8 * n + 8)%nat /\
      pipe_run c (pipe_init s false) = (p, PDone) /\ agree_log p s' /\ ms (pst p) = ms s' /\
      pipe_trace c (pipe_init s false) = single_trace n s
  | (s', Faulted f) => exists c p, (c <= 8 * n + 8)%nat /\
      pipe_run c (pipe_init s false) = (p, PFaulted f) /\ fault_agree p s' /\ ms (pst p) = ms s'
  | (_, OutOfFuel) => True
  end.
Proof.
  intros HW HS HD. pose proof (pipe_refines_single_caches_strong_lem s n HW HS) as H.
  destruct (single_run n s) as [s' [|f|]]; [| |exact Logic.I].
  - destruct H as (c & p & Hc & Hrun & Hag & Hm & Htr). exists c, (erase p).
    destruct (flagoff_lockstep_caches_lem s c HW HD) as [L1 L2]. rewrite L1, L2, Hrun.
    split; [exact Hc|]. split; [reflexivity|]. split; [exact Hag|]. split; [exact Hm | exact Htr].
  - destruct H as (c & p & Hc & Hrun & Hag & Hm). exists c, (erase p).
    destruct (flagoff_lockstep_caches_lem s c HW HD) as [L1 _]. rewrite L1, Hrun.
    split; [exact Hc|]. split; [reflexivity|]. split; [exact Hag | exact Hm].
Qed.
Print Assumptions flagoff_refines_single_caches_lem.
