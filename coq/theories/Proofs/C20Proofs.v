(* C20Proofs.v — the four ways of driving the TOY simulation (step, first_cycle_step,
   second_cycle_step, single_step) agree at every instruction boundary; out-of-order calls are
   rejected with the state unchanged; everything is a no-op once done.
   These hold for ALL states (no invariant); memory errors are a separate outcome and the
   sequence theorems quantify over call sequences all of whose outcomes are TNone. *)
From Coq Require Import Lia ZifyBool.
From ArchSim Require Import Model.Base Model.Mem Model.Toy Proofs.C06Proofs.
Open Scope Z_scope.

Ltac Zify.zify_post_hook ::= Z.to_euclidean_division_equations.

Local Arguments Z.mul : simpl never.
Local Arguments Z.add : simpl never.
Local Arguments Z.sub : simpl never.
Local Arguments Z.pow : simpl never.
Local Arguments Z.div : simpl never.
Local Arguments Z.modulo : simpl never.
Local Arguments Z.land : simpl never.
Local Arguments Z.lor : simpl never.
Local Arguments Z.lxor : simpl never.
Local Arguments Z.shiftl : simpl never.
Local Arguments Z.shiftr : simpl never.

(** * The call language *)
(* (the type is called [topn] because [top] is the opcode projection of Toy.tinstr) *)
Inductive topn := OStep | OFirst | OSecond | OSingle.

Definition apply_top (o : topn) (s : tstate) : tstate * toutcome :=
  match o with
  | OStep => toy_step s
  | OFirst => first_half s
  | OSecond => second_half s
  | OSingle => toy_single s
  end.

(* run a call sequence; None as soon as a call raises *)
Fixpoint run_ops (ops : list topn) (s : tstate) : option tstate :=
  match ops with
  | [] => Some s
  | o :: r => match apply_top o s with
              | (s', TNone) => run_ops r s'
              | _ => None
              end
  end.

(* does this call complete an instruction (execute a second half) in state s? *)
Definition completes (o : topn) (s : tstate) : bool :=
  negb (toy_done s) &&
  match o with
  | OStep => t_nextcycle s =? 1
  | OFirst => false
  | OSecond => t_nextcycle s =? 2
  | OSingle => t_nextcycle s =? 2
  end.

(* number of instructions completed by the sequence *)
Fixpoint completed (ops : list topn) (s : tstate) : nat :=
  match ops with
  | [] => O
  | o :: r => ((if completes o s then 1 else 0) + completed r (fst (apply_top o s)))%nat
  end.

(** * behavior() only touches pc, accu, memory, visualisation values and the branch counter *)
Lemma toy_behavior_frame i s s' e : toy_behavior i s = (s', e) ->
  t_size s' = t_size s /\ t_loaded s' = t_loaded s /\ t_maxpc s' = t_maxpc s /\
  t_cur s' = t_cur s /\ t_next s' = t_next s /\ t_icount s' = t_icount s /\
  t_cycles s' = t_cycles s /\ t_nextcycle s' = t_nextcycle s /\ t_started s' = t_started s.
Proof.
  intros H. unfold toy_behavior in H. cbv zeta in H.
  repeat match type of H with
         | context [match mem_write ?a ?b ?c ?d ?e with _ => _ end] =>
             destruct (mem_write a b c d e) as [? [?|]]
         | context [match t_read ?a ?b with _ => _ end] => destruct (t_read a b)
         | context [if ?c then _ else _] => destruct c
         end;
    injection H as <- <-; cbn [t_with_core t_size t_loaded t_maxpc t_cur t_next t_icount t_cycles
                                t_nextcycle t_started];
    repeat split; reflexivity.
Qed.

(** * Facts about single calls *)
Lemma first_half_ok s s1 : toy_done s = false -> t_nextcycle s = 1 -> first_half s = (s1, TNone) ->
  t_nextcycle s1 = 2 /\ toy_done s1 = false.
Proof.
  intros Hd Hn H. rewrite first_half_eq in H. rewrite Hd, Hn in H.
  change (negb (1 =? 1)) with false in H. cbv iota in H.
  unfold toy_done in *. destruct (t_loaded s) as [i|] eqn:Hl; [|discriminate].
  destruct (toy_behavior i (fh_pre s)) as [s2 [e|]] eqn:Hb; [discriminate|].
  injection H as <-.
  apply toy_behavior_frame in Hb.
  destruct Hb as (_ & Hl2 & _ & _ & _ & _ & _ & Hn2 & _).
  cbn [fh_post fh_pre t_nextcycle t_loaded] in *. rewrite Hl2, Hn2, Hl. auto.
Qed.

Lemma second_half_ok s s2 : toy_done s = false -> t_nextcycle s = 2 ->
  second_half s = (s2, TNone) -> t_nextcycle s2 = 1.
Proof.
  intros Hd Hn H. unfold second_half in H. rewrite Hd, Hn in H.
  change (negb (2 =? 2)) with false in H. cbv iota in H.
  destruct (t_read s (t_pc s)); [|discriminate]. injection H as <-. reflexivity.
Qed.

Lemma first_half_done s : toy_done s = true -> first_half s = (s, TNone).
Proof. intros Hd. unfold first_half. rewrite Hd. reflexivity. Qed.
Lemma second_half_done s : toy_done s = true -> second_half s = (s, TNone).
Proof. intros Hd. unfold second_half. rewrite Hd. reflexivity. Qed.
Lemma toy_single_done s : toy_done s = true -> toy_single s = (s, TNone).
Proof.
  intros Hd. unfold toy_single. destruct (_ =? 1);
    [apply first_half_done | apply second_half_done]; exact Hd.
Qed.

Lemma noop_when_done_lemma s : toy_done s = true ->
  first_half s = (s, TNone) /\ second_half s = (s, TNone) /\ toy_single s = (s, TNone) /\
  (t_nextcycle s = 1 -> toy_step s = (s, TNone)).
Proof.
  intros Hd. split; [apply first_half_done; exact Hd|]. split; [apply second_half_done; exact Hd|].
  split; [apply toy_single_done; exact Hd|]. intros Hn. apply toy_step_done_noop; assumption.
Qed.

Lemma illegal_order_lemma s :
  (toy_done s = false -> t_nextcycle s <> 1 -> first_half s = (s, TSeqErr)) /\
  (toy_done s = false -> t_nextcycle s <> 2 -> second_half s = (s, TSeqErr)) /\
  (t_nextcycle s <> 1 -> toy_step s = (s, TSeqErr)).
Proof.
  split; [|split].
  - intros Hd Hn. unfold first_half. rewrite Hd.
    destruct (t_nextcycle s =? 1) eqn:E; [lia | reflexivity].
  - intros Hd Hn. unfold second_half. rewrite Hd.
    destruct (t_nextcycle s =? 2) eqn:E; [lia | reflexivity].
  - intros Hn. unfold toy_step. destruct (t_nextcycle s =? 1) eqn:E; [lia | reflexivity].
Qed.

(* the form asked for: phase 2 rejects first_cycle_step and step, phase 1 rejects second_cycle_step *)
Lemma illegal_order_12 s : toy_done s = false ->
  (t_nextcycle s = 2 -> first_half s = (s, TSeqErr) /\ toy_step s = (s, TSeqErr)) /\
  (t_nextcycle s = 1 -> second_half s = (s, TSeqErr)).
Proof.
  intros Hd. destruct (illegal_order_lemma s) as (H1 & H2 & H3).
  split; [intros Hn; split; [apply H1 | apply H3] | intros Hn; apply H2]; try assumption; lia.
Qed.

(* step() in the middle of an instruction raises whether or not the program is done *)
Lemma step_mid_instruction s : t_nextcycle s = 2 -> toy_step s = (s, TSeqErr).
Proof. intros Hn. apply (illegal_order_lemma s). lia. Qed.

(** * step = first half ; second half *)
Lemma step_eq_halves_lemma s : t_nextcycle s = 1 ->
  toy_step s = (let (s1, o1) := first_half s in
                match o1 with TNone => second_half s1 | _ => (s1, o1) end).
Proof.
  intros Hn. unfold toy_step. rewrite Hn. change (negb (1 =? 1)) with false. cbv iota.
  destruct (first_half s) as [s1 [| |e]]; reflexivity.
Qed.

Lemma step_of_halves s s1 s2 : t_nextcycle s = 1 ->
  first_half s = (s1, TNone) -> second_half s1 = (s2, TNone) -> toy_step s = (s2, TNone).
Proof. intros Hn H1 H2. rewrite step_eq_halves_lemma by exact Hn. rewrite H1. exact H2. Qed.

(* conversely a successful step splits into two successful halves *)
Lemma halves_of_step s s2 : t_nextcycle s = 1 -> toy_step s = (s2, TNone) ->
  exists s1, first_half s = (s1, TNone) /\ second_half s1 = (s2, TNone).
Proof.
  intros Hn H. rewrite step_eq_halves_lemma in H by exact Hn.
  destruct (first_half s) as [s1 [| |e]]; try discriminate. exists s1. auto.
Qed.

(** * two single_step()s = one step() *)
Lemma single_after_first s s1 : t_nextcycle s = 1 -> first_half s = (s1, TNone) ->
  toy_single s1 = second_half s1.
Proof.
  intros Hn H1. destruct (toy_done s) eqn:Hd.
  - rewrite (first_half_done s Hd) in H1. injection H1 as <-.
    rewrite (toy_single_done s Hd), (second_half_done s Hd). reflexivity.
  - destruct (first_half_ok s s1 Hd Hn H1) as [Hn1 _].
    unfold toy_single. rewrite Hn1. reflexivity.
Qed.

Lemma single_single_lemma s : t_nextcycle s = 1 ->
  toy_step s = (let (s1, o1) := toy_single s in
                match o1 with TNone => toy_single s1 | _ => (s1, o1) end).
Proof.
  intros Hn. rewrite step_eq_halves_lemma by exact Hn.
  unfold toy_single at 1. rewrite Hn. change (1 =? 1) with true. cbv iota.
  destruct (first_half s) as [s1 [| |e]] eqn:H1; try reflexivity.
  symmetry. apply (single_after_first s s1 Hn H1).
Qed.

Lemma single_single_ok s s2 : t_nextcycle s = 1 ->
  (toy_step s = (s2, TNone) <->
   exists s1, toy_single s = (s1, TNone) /\ toy_single s1 = (s2, TNone)).
Proof.
  intros Hn. rewrite single_single_lemma by exact Hn. split.
  - intros H. destruct (toy_single s) as [s1 [| |e]]; try discriminate. exists s1. auto.
  - intros (s1 & H1 & H2). rewrite H1. exact H2.
Qed.

(** * Every legal interleaving is, at each boundary, a number of whole steps *)
Lemma run_ops_general ops :
  forall s sf, run_ops ops s = Some sf ->
  (t_nextcycle s = 1 ->
     (t_nextcycle sf = 1 \/ t_nextcycle sf = 2) /\
     (t_nextcycle sf = 1 -> sf = toy_steps (completed ops s) s) /\
     (t_nextcycle sf = 2 -> sf = fst (first_half (toy_steps (completed ops s) s)))) /\
  (forall b, t_nextcycle b = 1 -> toy_done b = false -> first_half b = (s, TNone) ->
     (t_nextcycle sf = 1 \/ t_nextcycle sf = 2) /\
     (t_nextcycle sf = 1 -> sf = toy_steps (completed ops s) b) /\
     (t_nextcycle sf = 2 -> sf = fst (first_half (toy_steps (completed ops s) b)))).
Proof.
  induction ops as [|o r IH]; intros s sf Hrun; cbn [run_ops completed] in *.
  - injection Hrun as <-. cbn [toy_steps]. split.
    + intros Hn. split; [auto|]. split; [reflexivity|]. intros Hn2. lia.
    + intros b Hnb Hdb Hb. destruct (first_half_ok b s Hdb Hnb Hb) as [Hn2 _].
      split; [auto|]. split; [intros; lia|]. intros _. rewrite Hb. reflexivity.
  - destruct (apply_top o s) as [s' [| |e]] eqn:Ho; try discriminate.
    cbn [fst]. destruct (IH s' sf Hrun) as [IH1 IH2]. split.
    + (* s at an instruction boundary *)
      intros Hn. destruct (toy_done s) eqn:Hd.
      * (* done: every call is a no-op *)
        destruct (noop_when_done_lemma s Hd) as (N1 & N2 & N3 & N4).
        assert (Hs' : s' = s).
        { destruct o; cbn [apply_top] in Ho;
            rewrite ?N1, ?N2, ?N3, ?(N4 Hn) in Ho; injection Ho as <-; reflexivity. }
        subst s'. unfold completes. rewrite Hd. cbn [negb andb Nat.add]. apply IH1. exact Hn.
      * unfold completes. rewrite Hd, Hn. cbn [negb andb].
        change (1 =? 1) with true. change (1 =? 2) with false.
        destruct o; cbn [apply_top] in Ho; cbn [Nat.add].
        -- (* step *)
           destruct (halves_of_step s s' Hn Ho) as (s1 & H1 & H2).
           destruct (first_half_ok s s1 Hd Hn H1) as [Hn1 Hd1].
           pose proof (second_half_ok s1 s' Hd1 Hn1 H2) as Hn'.
           cbn [toy_steps]. rewrite Ho. cbn [fst]. apply IH1. exact Hn'.
        -- (* first half *)
           apply (IH2 s Hn Hd Ho).
        -- (* second half at a boundary: rejected *)
           destruct (illegal_order_12 s Hd) as [_ Hrej]. rewrite (Hrej Hn) in Ho. discriminate.
        -- (* single = first half *)
           unfold toy_single in Ho. rewrite Hn in Ho. change (1 =? 1) with true in Ho.
           cbv iota in Ho. apply (IH2 s Hn Hd Ho).
    + (* s in the middle of the instruction started at boundary b *)
      intros b Hnb Hdb Hb. destruct (first_half_ok b s Hdb Hnb Hb) as [Hn Hd].
      unfold completes. rewrite Hd, Hn. cbn [negb andb].
      change (2 =? 1) with false. change (2 =? 2) with true.
      assert (Hsec : second_half s = (s', TNone) ->
                     (t_nextcycle sf = 1 \/ t_nextcycle sf = 2) /\
                     (t_nextcycle sf = 1 -> sf = toy_steps (1 + completed r s') b) /\
                     (t_nextcycle sf = 2 -> sf = fst (first_half (toy_steps (1 + completed r s') b)))).
      { intros H2. pose proof (step_of_halves b s s' Hnb Hb H2) as Hst.
        pose proof (second_half_ok s s' Hd Hn H2) as Hn'.
        cbn [Nat.add toy_steps]. rewrite Hst. cbn [fst]. apply IH1. exact Hn'. }
      destruct o; cbn [apply_top] in Ho.
      * rewrite (step_mid_instruction s Hn) in Ho. discriminate.
      * destruct (illegal_order_12 s Hd) as [Hrej _]. destruct (Hrej Hn) as [Hr _].
        rewrite Hr in Ho. discriminate.
      * apply Hsec. exact Ho.
      * unfold toy_single in Ho. rewrite Hn in Ho. change (2 =? 1) with false in Ho.
        cbv iota in Ho. apply Hsec. exact Ho.
Qed.

Lemma boundary_states_lemma ops s sf : t_nextcycle s = 1 -> run_ops ops s = Some sf ->
  (t_nextcycle sf = 1 \/ t_nextcycle sf = 2) /\
  (t_nextcycle sf = 1 -> sf = toy_steps (completed ops s) s) /\
  (t_nextcycle sf = 2 -> sf = fst (first_half (toy_steps (completed ops s) s))).
Proof. intros Hn Hrun. destruct (run_ops_general ops s sf Hrun) as [H _]. exact (H Hn). Qed.

Lemma interleavings_agree_lemma ops1 ops2 s s1 s2 : t_nextcycle s = 1 ->
  run_ops ops1 s = Some s1 -> run_ops ops2 s = Some s2 ->
  completed ops1 s = completed ops2 s -> t_nextcycle s1 = t_nextcycle s2 -> s1 = s2.
Proof.
  intros Hn H1 H2 Hc Hp.
  destruct (boundary_states_lemma ops1 s s1 Hn H1) as (P1 & A1 & B1).
  destruct (boundary_states_lemma ops2 s s2 Hn H2) as (P2 & A2 & B2).
  destruct P1 as [P1|P1].
  - rewrite (A1 P1), A2 by lia. rewrite Hc. reflexivity.
  - rewrite (B1 P1), B2 by lia. rewrite Hc. reflexivity.
Qed.

(* equal states have equal observations: memory table with its cycle markers, register display *)
Lemma observations_agree_lemma ops1 ops2 s s1 s2 : t_nextcycle s = 1 ->
  run_ops ops1 s = Some s1 -> run_ops ops2 s = Some s2 ->
  completed ops1 s = completed ops2 s -> t_nextcycle s1 = t_nextcycle s2 ->
  toy_memory_table s1 = toy_memory_table s2 /\ toy_register_reprs s1 = toy_register_reprs s2 /\
  t_vis s1 = t_vis s2 /\ t_cur s1 = t_cur s2 /\ t_next s1 = t_next s2 /\
  t_icount s1 = t_icount s2 /\ t_cycles s1 = t_cycles s2 /\ t_bcount s1 = t_bcount s2 /\
  t_started s1 = t_started s2.
Proof.
  intros Hn H1 H2 Hc Hp.
  rewrite (interleavings_agree_lemma ops1 ops2 s s1 s2 Hn H1 H2 Hc Hp).
  repeat split; reflexivity.
Qed.

(* a memory error needs a configured memory smaller than 4096 words at the accessed address:
   with the full 4096-word memory no call ever returns TMemErr from an in-range state *)
Lemma read_no_err_4096 s a : t_size s = 4096 -> 0 <= a < 4096 -> exists v, t_read s a = Ok v.
Proof.
  intros Hsz Ha. unfold t_read, tcfg. rewrite Hsz, (toy_read_ok _ _ Ha). eauto.
Qed.
