(* ToyLexProofs6.v — packaging for Props/C19Lex.v and closed examples (vm_compute) for every theorem. *)
From Coq Require Import Lia ZifyBool String.
From ArchSim Require Import Model.Base Model.Mem Model.Fmt Model.Toy Model.ToyLex
  Proofs.ToyLexProofs1 Proofs.ToyLexProofs2 Proofs.ToyLexProofs3 Proofs.ToyLexProofs4 Proofs.ToyLexProofs5.
Open Scope Z_scope.
Open Scope list_scope.

(** * (d) packaged *)
Theorem comment_and_blank_lines w c : spaces w = true ->
  toy_lex_line w = LBlank /\ toy_lex_line (w ++ 35 :: c) = LBlank /\
  (forall rest ln tbl, lex_lines (w :: rest) ln tbl = lex_lines rest (ln + 1) tbl) /\
  (forall rest ln tbl, lex_lines ((w ++ 35 :: c) :: rest) ln tbl = lex_lines rest (ln + 1) tbl).
Proof.
  intros H. pose proof (blank_line w H) as Hb. pose proof (comment_line w c H) as Hc.
  split; [exact Hb|]. split; [exact Hc|]. split; intros rest ln tbl; apply lex_lines_skip; assumption.
Qed.

(** * (e) packaged: two sources with the same token lines (any layout, spelling, comments, terminators) load alike *)
Theorem load_same_tokens s ls1 fin1 ls2 fin2 :
  Forall (fun p => wf_src (fst p) /\ is_nl (snd p)) ls1 -> match fin1 with Some l => wf_src l | None => True end ->
  Forall (fun p => wf_src (fst p) /\ is_nl (snd p)) ls2 -> match fin2 with Some l => wf_src l | None => True end ->
  map tok_of (src_lines ls1 fin1) = map tok_of (src_lines ls2 fin2) ->
  toy_lex_text (render_text ls1 fin1) = toy_lex_text (render_text ls2 fin2) /\
  toy_load_text s (render_text ls1 fin1) = toy_load_text s (render_text ls2 fin2).
Proof.
  intros H1 F1 H2 F2 E. rewrite !lex_text_render, !load_text_render by assumption. rewrite E. split; reflexivity.
Qed.

(** * examples *)
Definition TAB : str := [9].
Definition gap_a (k : nat) : str := match k with 0%nat => [32] | 1%nat => [32; 9] | _ => [9; 32; 32] end.
Definition tok_a : rtline := RLInstr (Some (codes "loop")) 0 (RAddrLit (codes "0x1F")).
(* "<TAB> loop :<TAB>sTo<TAB>  0x1F  # c <U+17F>" *)
Definition line_a : str :=
  [9; 32] ++ codes "loop : " ++ TAB ++ codes "sTo" ++ TAB ++ codes "  0x1F" ++ codes "  # c " ++ [383].

Example ex_layout :
  render_line [9; 32] [32; 32] (Some (codes " c " ++ [383])) gap_a (codes "sTo") tok_a = line_a /\
  toy_lex_line line_a = LTok tok_a /\ toy_lex_line (codes "loop:STO 0x1F") = LTok tok_a /\
  toy_lex_line (codes "x:.word5,0x6 ,7") = LTok (RLVar (codes "x") [codes "5"; codes "0x6"; codes "7"]) /\
  toy_lex_line (codes ". data") = LTok (RLDirective 1) /\
  toy_lex_line (codes "ORacle") = LTok (RLInstr None 5 (RLabel (codes "acle"))) /\
  toy_lex_line (codes "NOP:") = LTok (RLLabel (codes "NOP")) /\
  (* rejected, as by the real grammar *)
  toy_lex_line (codes "ADD 0X1F") = LErr /\ toy_lex_line (codes "NOPE") = LErr /\ toy_lex_line (codes "x: .word 1,") = LErr /\
  toy_lex_line (383 :: codes "TO 5") = LErr /\ toy_lex_line (codes "x: y: NOP") = LErr /\ toy_lex_line (codes "INC 3") = LErr.
Proof. vm_compute. repeat split. Qed.

Example ex_layout_hyps : spaces [9; 32] = true /\ spaces [32; 32] = true /\ gaps_ok gap_a /\ wf_rtline (codes "sTo") tok_a.
Proof.
  split; [reflexivity|]. split; [reflexivity|]. split.
  - intros [|[|k]]; reflexivity.
  - cbn [wf_rtline tok_a wf_operand]. repeat split; try reflexivity; lia.
Qed.

Example ex_mnemonic_case :
  map (fun m => toy_lex_line (recase m (mnemonic_of 6) ++ codes " x"))
      [[false; false; false]; [true; false; false]; [false; true; false]; [true; true; false];
       [false; false; true]; [true; false; true]; [false; true; true]; [true; true; true]]
  = repeat (LTok (RLInstr None 6 (RLabel (codes "x")))) 8 /\
  recase [true; false; true] (mnemonic_of 6) = codes "aNd".
Proof. vm_compute. split; reflexivity. Qed.

Example ex_number_bases :
  dec_lit 0 255 = codes "255" /\ dec_lit 2 255 = codes "00255" /\ hex_lit 0 false 255 = codes "0xFF" /\
  hex_lit 2 true 255 = codes "0x00ff" /\
  map toy_value [codes "255"; codes "00255"; codes "0xFF"; codes "0x00ff"] = repeat (Some 255) 4 /\
  toy_lex_line (codes "ADD 255") = LTok (RLInstr None 3 (RAddrLit (codes "255"))) /\
  toy_lex_line (codes "ADD 0xFF") = LTok (RLInstr None 3 (RAddrLit (codes "0xFF"))) /\
  toy_lex_line (codes "v: .word 00255, 0x00ff") = LTok (RLVar (codes "v") [codes "00255"; codes "0x00ff"]).
Proof. vm_compute. repeat split. Qed.

Definition NL : str := [10].
Definition text_1 : str :=
  codes ".data" ++ NL ++ codes "n: .word 3, 0x10" ++ NL ++ codes ".text" ++ NL ++
  codes "loop: LDA n" ++ NL ++ codes "DEC" ++ NL ++ codes "STO n" ++ NL ++ codes "BRZ end" ++ NL ++
  codes "ZRO" ++ NL ++ codes "BRZ loop" ++ NL ++ codes "end:" ++ NL ++ codes "NOP" ++ NL.
(* the same program: other layout, letter case, comments, blank lines, CR LF, no final newline *)
Definition text_2 : str :=
  codes "# counter" ++ NL ++ codes "  .data  " ++ [13; 10] ++ codes "n :. word 3,0x10 # two cells" ++ NL ++ NL ++
  codes ". text" ++ NL ++ TAB ++ codes "loop:lda n" ++ NL ++ codes "   dec#x" ++ NL ++ codes "Sto   n" ++ NL ++
  codes "   # jump" ++ [13; 10] ++ codes "brz" ++ TAB ++ codes "end" ++ NL ++ codes "zro" ++ NL ++ codes "BRZ loop" ++ NL ++
  codes "end  :" ++ NL ++ codes " nop".

Example ex_comment_and_blank :
  toy_lex_line (codes "   ") = LBlank /\ toy_lex_line ([9; 160; 32] ++ codes "# x: .word 3") = LBlank /\
  toy_lex_text (codes "# a" ++ NL ++ NL ++ codes "NOP" ++ NL ++ codes "  " ++ NL ++ codes "x:" ++ NL)
    = POk [(3, TLInstr None 12 TNoOperand); (5, TLLabel 1)].
Proof. vm_compute. repeat split. Qed.

Definition strip_ln (r : pres (list (Z * tline))) : list tline :=
  match r with POk l => map snd l | PErr _ => [] end.

Example ex_composition :
  toy_lex_domain text_1 = true /\ toy_lex_domain text_2 = true /\
  strip_ln (toy_lex_text text_1) = strip_ln (toy_lex_text text_2) /\
  length (strip_ln (toy_lex_text text_1)) = 11%nat /\
  (let s0 := toy_init 4096 1 false in
   let '(s1, e1) := toy_load_text s0 text_1 in
   let '(s2, e2) := toy_load_text s0 text_2 in
   e1 = None /\ e2 = None /\ psort (t_mem s1) = psort (t_mem s2) /\ t_maxpc s1 = Some 6 /\
   psort (t_mem s1) = [(0, 8190); (1, 40960); (2, 4094); (3, 8198); (4, 45056); (5, 8192); (6, 49152);
                       (4094, 3); (4095, 16)]).
Proof. vm_compute. repeat split. Qed.

(* the hypotheses of (e) on a concrete source: three lines, mixed terminators, unterminated last line *)
Definition src_e : list (srcline * str) :=
  [(STok [32] [] None gap_a (codes "brz") (RLInstr (Some (codes "a")) 2 (RLabel (codes "x"))), [10]);
   (SComment [9] (codes " x"), [13; 10]);
   (SBlank [32; 32], [133])].
Definition fin_e : option srcline := Some (STok [] [9] (Some []) gap_a [] (RLLabel (codes "x"))).
Example ex_render_text :
  Forall (fun p => wf_src (fst p) /\ is_nl (snd p)) src_e /\
  match fin_e with Some l => wf_src l | None => True end /\
  render_text src_e fin_e =
    codes " a :" ++ [32; 9] ++ codes "brz" ++ [9; 32; 32] ++ codes "x" ++ [10; 9] ++ codes "# x" ++ [13; 10; 32; 32; 133]
    ++ codes "x :" ++ [9; 35] /\
  toy_lex_text (render_text src_e fin_e) = POk [(1, TLInstr (Some 1) 2 (TLabel 2)); (4, TLLabel 2)].
Proof.
  assert (Hg : gaps_ok gap_a) by (intros [|[|k]]; reflexivity).
  split; [|split; [|split; vm_compute; reflexivity]].
  - assert (N1 : is_nl [10]) by (right; exists 10; split; [reflexivity | split; [reflexivity | lia]]).
    assert (N2 : is_nl [13; 10]) by (left; reflexivity).
    assert (N3 : is_nl [133]) by (right; exists 133; split; [reflexivity | split; [reflexivity | lia]]).
    unfold src_e. constructor; [|constructor; [|constructor; [|constructor]]]; cbn [fst snd]; (split; [|assumption]).
    + cbn [wf_src wf_rtline wf_operand]. repeat split; try reflexivity; try exact Hg; lia.
    + cbn [wf_src]. split; reflexivity.
    + reflexivity.
  - cbn [fin_e wf_src wf_rtline]. repeat split; try reflexivity. exact Hg.
Qed.
