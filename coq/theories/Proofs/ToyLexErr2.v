(* ToyLexErr2.v — what the lexer can produce (an address-type mnemonic always has its operand), what
   interning keeps of a token line, and how the result of [lex_lines] refers back to the lines. *)
From Coq Require Import Lia ZifyBool.
From ArchSim Require Import Model.Base Model.Mem Model.Fmt Model.Toy Model.ToyLex Proofs.C19Proofs.
Open Scope Z_scope.

(** * soundness of the line grammar w.r.t. operands *)
Definition rt_ok (t : rtline) : Prop :=
  match t with RLInstr _ op RNoOperand => is_address_type op = false | _ => True end.

Lemma longer_inv {A} (a b : option (A * str)) x : longer a b = Some x -> a = Some x \/ b = Some x.
Proof.
  destruct a as [[xa ra]|], b as [[xb rb]|]; cbn [longer]; try (intros H; auto; fail).
  destruct (length rb <? length ra)%nat; intros H; auto.
Qed.
Lemma first_ci_in tbl : forall s k r, first_ci tbl s = Some (k, r) -> In k (map fst tbl).
Proof.
  induction tbl as [|[k0 p] t IH]; intros s k r H; cbn [first_ci] in H; [discriminate H|].
  destruct (prefix_ci p s).
  - injection H as <- _. left. reflexivity.
  - right. eapply IH. exact H.
Qed.

Lemma lex_addr_instr_ok il s t r : lex_addr_instr il s = Some (t, r) -> rt_ok t.
Proof.
  unfold lex_addr_instr. destruct (lex_mnemonic addr_mnemonics s) as [[op r0]|]; [|discriminate].
  destruct (lex_value r0) as [[v r1]|].
  - intros H; injection H as <- _. exact Logic.I.
  - destruct (lex_word r0) as [[w r1]|]; [|discriminate]. intros H; injection H as <- _. exact Logic.I.
Qed.
Lemma lex_noaddr_instr_ok il s t r : lex_noaddr_instr il s = Some (t, r) -> rt_ok t.
Proof.
  unfold lex_noaddr_instr, lex_mnemonic. destruct (first_ci noaddr_mnemonics (skip_ws s)) as [[op r0]|] eqn:E; [|discriminate].
  intros H; injection H as <- _. cbn [rt_ok]. apply first_ci_in in E.
  cbn in E. destruct E as [<-|[<-|[<-|[<-|[<-|[]]]]]]; reflexivity.
Qed.
Lemma lex_instr_ok s t r : lex_instr s = Some (t, r) -> rt_ok t.
Proof.
  unfold lex_instr. destruct (lex_label_decl s) as [[w r0]|]; intros H; apply longer_inv in H as [H|H];
    (eapply lex_addr_instr_ok; exact H) || (eapply lex_noaddr_instr_ok; exact H).
Qed.
Lemma lex_directive_ok s t r : lex_directive s = Some (t, r) -> rt_ok t.
Proof.
  unfold lex_directive. destruct (lex_lit [46] s); [|discriminate].
  destruct (first_exact directives (skip_ws s0)) as [[d r']|]; [|discriminate]. intros H; injection H as <- _. exact Logic.I.
Qed.
Lemma lex_vardecl_ok s t r : lex_vardecl s = Some (t, r) -> rt_ok t.
Proof.
  unfold lex_vardecl. destruct (lex_label_decl s) as [[n r0]|]; [|discriminate].
  destruct (lex_lit [46] r0); [|discriminate]. destruct (lex_lit _ s0); [|discriminate].
  destruct (lex_value s1) as [[v r3]|]; [|discriminate]. destruct (lex_more_values (length r3) r3).
  intros H; injection H as <- _. exact Logic.I.
Qed.
Lemma lex_labelline_ok s t r : lex_labelline s = Some (t, r) -> rt_ok t.
Proof.
  unfold lex_labelline. destruct (lex_label_decl s) as [[n r0]|]; [|discriminate]. intros H; injection H as <- _. exact Logic.I.
Qed.

Lemma lex_sanitised_ok s t : lex_sanitised s = Some t -> rt_ok t.
Proof.
  unfold lex_sanitised.
  destruct (longer (longer (longer (lex_directive s) (lex_vardecl s)) (lex_instr s)) (lex_labelline s)) as [[t0 rest]|] eqn:E;
    [|discriminate].
  destruct (skip_ws rest); [|discriminate]. intros H; injection H as <-.
  apply longer_inv in E as [E|E]; [|eapply lex_labelline_ok; exact E].
  apply longer_inv in E as [E|E]; [|eapply lex_instr_ok; exact E].
  apply longer_inv in E as [E|E]; [eapply lex_directive_ok | eapply lex_vardecl_ok]; exact E.
Qed.
Lemma toy_lex_line_ok l t : toy_lex_line l = LTok t -> rt_ok t.
Proof.
  unfold toy_lex_line. destruct (sanitise_line l) as [s|]; [|discriminate].
  destruct (lex_sanitised s) as [t0|] eqn:E; [|discriminate]. intros H; injection H as <-.
  eapply lex_sanitised_ok. exact E.
Qed.

(** * interning keeps the shape: directive number, opcode, literals, which names are present *)
Definition same_shape (t : rtline) (t' : tline) : Prop :=
  match t' with
  | TLDirective d => t = RLDirective d
  | TLVar _ vals => exists n, t = RLVar n vals
  | TLLabel _ => exists n, t = RLLabel n
  | TLInstr il' op opnd' =>
      exists il opnd, t = RLInstr il op opnd /\
        match il', il with Some _, Some _ | None, None => True | _, _ => False end /\
        match opnd' with
        | TAddrLit v => opnd = RAddrLit v
        | TLabel _ => exists n, opnd = RLabel n
        | TNoOperand => opnd = RNoOperand
        end
  end.
Lemma intern_line_shape tb t : same_shape t (fst (intern_line tb t)).
Proof.
  destruct t as [d|n vals|il op opnd|n]; cbn [intern_line].
  - reflexivity.
  - destruct (intern tb n). cbn [fst same_shape]. exists n. reflexivity.
  - destruct il as [n|].
    + destruct (intern tb n) as [i tb1]. destruct opnd as [v|m|].
      * cbn [fst same_shape]. exists (Some n), (RAddrLit v). repeat split.
      * destruct (intern tb1 m). cbn [fst same_shape]. exists (Some n), (RLabel m). repeat split. exists m. reflexivity.
      * cbn [fst same_shape]. exists (Some n), RNoOperand. repeat split.
    + destruct opnd as [v|m|].
      * cbn [fst same_shape]. exists None, (RAddrLit v). repeat split.
      * destruct (intern tb m). cbn [fst same_shape]. exists None, (RLabel m). repeat split. exists m. reflexivity.
      * cbn [fst same_shape]. exists None, RNoOperand. repeat split.
  - destruct (intern tb n). cbn [fst same_shape]. exists n. reflexivity.
Qed.

(** * lex_lines refers back to the lines *)
Definition from_line (ls : list str) (ln0 : Z) (ln : Z) (t' : tline) : Prop :=
  exists k l t, ln = ln0 + Z.of_nat k /\ nth_error ls k = Some l /\ toy_lex_line l = LTok t /\ same_shape t t'.

Lemma lex_lines_ok : forall ls ln0 tbl toks, lex_lines ls ln0 tbl = POk toks ->
  (forall l, In l ls -> toy_lex_line l <> LErr) /\
  (forall ln t', In (ln, t') toks -> from_line ls ln0 ln t').
Proof.
  induction ls as [|l ls IH]; intros ln0 tbl toks H; cbn [lex_lines] in H.
  - injection H as <-. split; [intros l []|intros ln t' []].
  - assert (Hshift : forall ln t', from_line ls (ln0 + 1) ln t' -> from_line (l :: ls) ln0 ln t').
    { intros ln t' (k & l' & t & -> & Hn & Hl & Hs). exists (S k), l', t. repeat split; try assumption. lia. }
    destruct (toy_lex_line l) as [| |t] eqn:El; [|discriminate H|].
    + destruct (IH _ _ _ H) as [A B]. split.
      * intros l' [<-|Hin]; [rewrite El; discriminate | apply A, Hin].
      * intros ln t' Hin. apply Hshift, B, Hin.
    + pose proof (intern_line_shape tbl t) as Hsh. destruct (intern_line tbl t) as [t1 tbl'].
      destruct (lex_lines ls (ln0 + 1) tbl') as [r|e] eqn:Er; [|discriminate H]. injection H as <-.
      destruct (IH _ _ _ Er) as [A B]. split.
      * intros l' [<-|Hin]; [rewrite El; discriminate | apply A, Hin].
      * intros ln t' [Heq|Hin]; [|apply Hshift, B, Hin]. injection Heq as <- <-.
        exists O, l, t. repeat split; [lia | exact El | exact Hsh].
Qed.

Lemma lex_lines_err : forall ls ln0 tbl e, lex_lines ls ln0 tbl = PErr e ->
  exists k l, e = PSyntax (ln0 + Z.of_nat k) /\ nth_error ls k = Some l /\ toy_lex_line l = LErr /\
              forall j l', (j < k)%nat -> nth_error ls j = Some l' -> toy_lex_line l' <> LErr.
Proof.
  induction ls as [|l ls IH]; intros ln0 tbl e H; cbn [lex_lines] in H; [discriminate H|].
  assert (Hshift : forall tb, toy_lex_line l <> LErr -> lex_lines ls (ln0 + 1) tb = PErr e ->
    exists k l0, e = PSyntax (ln0 + Z.of_nat k) /\ nth_error (l :: ls) k = Some l0 /\ toy_lex_line l0 = LErr /\
                 forall j l', (j < k)%nat -> nth_error (l :: ls) j = Some l' -> toy_lex_line l' <> LErr).
  { intros tb Hl Ht. destruct (IH _ _ _ Ht) as (k & l0 & -> & Hn & He & Hfirst). exists (S k), l0.
    split; [f_equal; lia|]. split; [exact Hn|]. split; [exact He|].
    intros [|j] l' Hj Hnj; [injection Hnj as <-; exact Hl | eapply Hfirst; [|exact Hnj]; lia]. }
  destruct (toy_lex_line l) as [| |t] eqn:El.
  - eapply Hshift; [discriminate | exact H].
  - injection H as <-. exists O, l. split; [f_equal; lia|]. split; [reflexivity|]. split; [exact El|]. intros j l' Hj. lia.
  - destruct (intern_line tbl t) as [t1 tbl']. destruct (lex_lines ls (ln0 + 1) tbl') as [r|e1] eqn:Er; [discriminate H|].
    injection H as <-. eapply Hshift; [discriminate | exact Er].
Qed.
