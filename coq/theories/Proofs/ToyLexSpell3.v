(* ToyLexSpell3.v — readable corollaries on printed sources and closed examples. *)
From Coq Require Import Lia ZifyBool String.
From ArchSim Require Import Model.Base Model.Mem Model.Fmt Model.Toy Model.ToyLex Proofs.C19Proofs
  Proofs.ToyLexProofs1 Proofs.ToyLexProofs2 Proofs.ToyLexProofs3 Proofs.ToyLexProofs4 Proofs.ToyLexProofs5
  Proofs.ToyLexSpell1 Proofs.ToyLexSpell2.
Open Scope Z_scope.
Open Scope list_scope.

(** * editing a source *)
Definition map_src (h : srcline -> srcline) (ls : list (srcline * str)) : list (srcline * str) :=
  map (fun p => (h (fst p), snd p)) ls.
Definition respell_opnd (f : str -> str) (o : rtoperand) : rtoperand :=
  match o with RAddrLit v => RAddrLit (f v) | x => x end.
(* every numeric literal v of the token line is written f v instead *)
Definition respell (f : str -> str) (t : rtline) : rtline :=
  match t with
  | RLVar n vals => RLVar n (map f vals)
  | RLInstr il op o => RLInstr il op (respell_opnd f o)
  | x => x
  end.
Definition lit_src (f : str -> str) (l : srcline) : srcline :=
  match l with STok a b c g sp t => STok a b c g sp (respell f t) | x => x end.
Definition case_src (f : str -> str) (l : srcline) : srcline :=
  match l with STok a b c g sp t => STok a b c g (f sp) t | x => x end.
(* f replaces a literal of the grammar by a literal of the grammar that int() reads alike *)
Definition good_respelling (f : str -> str) : Prop :=
  forall v, is_value v = true -> is_value (f v) = true /\ toy_value (f v) = toy_value v.
Definition good_recasing (f : str -> str) : Prop := forall sp op, spells sp op -> spells (f sp) op.

Lemma src_lines_map h ls fin : src_lines (map_src h ls) (option_map h fin) = map h (src_lines ls fin).
Proof.
  unfold src_lines, map_src. rewrite map_app, !map_map. cbn [fst]. destruct fin; reflexivity.
Qed.
Lemma wf_source_map h ls fin : (forall l, wf_src l -> wf_src (h l)) -> wf_source ls fin ->
  wf_source (map_src h ls) (option_map h fin).
Proof.
  intros Hh [Hls Hfin]. split.
  - unfold map_src. apply Forall_forall. intros p Hin. apply in_map_iff in Hin as (q & <- & Hq).
    rewrite Forall_forall in Hls. destruct (Hls q Hq) as [A B]. cbn [fst snd]. split; [apply Hh, A | exact B].
  - destruct fin as [l|]; cbn [option_map]; [apply Hh, Hfin | exact Logic.I].
Qed.

Lemma values_respell f vals : good_respelling f -> forallb is_value vals = true ->
  forallb is_value (map f vals) = true /\ Forall2 lit_eq (map f vals) vals.
Proof.
  intros Hf. induction vals as [|v t IH]; intros H; [split; [reflexivity | constructor]|].
  cbn [forallb] in H. apply andb_prop in H as [Hv Ht]. destruct (Hf v Hv) as [A B]. destruct (IH Ht) as [C D].
  cbn [map forallb]. rewrite A, C. split; [reflexivity | constructor; [exact B | exact D]].
Qed.
Lemma wf_respell f sp t : good_respelling f -> wf_rtline sp t -> wf_rtline sp (respell f t) /\ rt_equiv (respell f t) t.
Proof.
  intros Hf. destruct t as [d|n vals|il op o|n]; cbn [wf_rtline respell rt_equiv].
  - intros H. split; [exact H | reflexivity].
  - intros (Hn & Hne & Hv). destruct (values_respell f vals Hf Hv) as [A B]. split; [|split; [reflexivity | exact B]].
    split; [exact Hn|]. split; [|exact A]. destruct vals; [contradiction | discriminate].
  - intros (A & B & C & D). destruct o as [v|m|]; cbn [respell_opnd wf_operand ropnd_equiv] in *.
    + destruct D as [D1 D2]. destruct (Hf v D2) as [E1 E2]. repeat split; try assumption; lia.
    + destruct D as [D1 D2]. repeat split; try assumption; lia.
    + repeat split; try assumption; lia.
  - intros H. split; [exact H | reflexivity].
Qed.
Lemma lit_src_ok f l : good_respelling f -> wf_src l -> wf_src (lit_src f l) /\ opt_equiv (tok_of (lit_src f l)) (tok_of l).
Proof.
  intros Hf. destruct l as [w|w c|a b c g sp t]; cbn [wf_src lit_src tok_of opt_equiv].
  - intros H. split; [exact H | exact Logic.I].
  - intros H. split; [exact H | exact Logic.I].
  - intros (A & B & C & D & E). destruct (wf_respell f sp t Hf E) as [E1 E2]. repeat split; assumption.
Qed.
Lemma case_src_ok f l : good_recasing f -> wf_src l -> wf_src (case_src f l) /\ tok_of (case_src f l) = tok_of l.
Proof.
  intros Hf. destruct l as [w|w c|a b c g sp t]; cbn [wf_src case_src tok_of]; try (intros H; split; [exact H | reflexivity]).
  intros (A & B & C & D & E). split; [|reflexivity]. repeat split; try assumption.
  destruct t as [d|n vals|il op o|n]; cbn [wf_rtline] in *; try exact E.
  destruct E as (E1 & E2 & E3 & E4). repeat split; try assumption; try lia. apply Hf, E3.
Qed.

Lemma opt_equiv_refl_eq o1 o2 : o1 = o2 -> (forall t, o2 = Some t -> rt_equiv t t) -> opt_equiv o1 o2.
Proof. intros -> H. destruct o2 as [t|]; [apply H; reflexivity | exact Logic.I]. Qed.

(** * corollaries *)
Theorem number_base_interchangeable s ls fin f : wf_source ls fin -> good_respelling f ->
  toy_load_text s (render_text (map_src (lit_src f) ls) (option_map (lit_src f) fin)) = toy_load_text s (render_text ls fin).
Proof.
  intros Hwf Hf. apply source_respelling; [|exact Hwf|].
  - apply wf_source_map; [|exact Hwf]. intros l Hl. apply (lit_src_ok f l Hf Hl).
  - rewrite src_lines_map, map_map.
    assert (Hall : Forall wf_src (src_lines ls fin)).
    { destruct Hwf as [Hls Hfin]. unfold src_lines. apply Forall_app. split.
      - apply Forall_forall. intros l Hin. apply in_map_iff in Hin as (p & <- & Hp). rewrite Forall_forall in Hls. apply (Hls p Hp).
      - destruct fin; [constructor; [exact Hfin | constructor] | constructor]. }
    induction Hall as [|l r Hl _ IH]; [constructor|]. cbn [map]. constructor; [apply (lit_src_ok f l Hf Hl) | exact IH].
Qed.

Theorem mnemonic_case_interchangeable s ls fin f : wf_source ls fin -> good_recasing f ->
  toy_load_text s (render_text (map_src (case_src f) ls) (option_map (case_src f) fin)) = toy_load_text s (render_text ls fin).
Proof.
  intros Hwf Hf.
  assert (Hwf' : wf_source (map_src (case_src f) ls) (option_map (case_src f) fin)).
  { apply wf_source_map; [|exact Hwf]. intros l Hl. apply (case_src_ok f l Hf Hl). }
  destruct Hwf as [H1 F1], Hwf' as [H2 F2]. rewrite !load_text_render by assumption. f_equal. f_equal.
  rewrite src_lines_map, map_map.
  assert (Hall : Forall wf_src (src_lines ls fin)).
  { unfold src_lines. apply Forall_app. split.
    - apply Forall_forall. intros l Hin. apply in_map_iff in Hin as (p & <- & Hp). rewrite Forall_forall in H1. apply (H1 p Hp).
    - destruct fin; [constructor; [exact F1 | constructor] | constructor]. }
  induction Hall as [|l r Hl _ IH]; [reflexivity|]. cbn [map]. rewrite IH, (proj2 (case_src_ok f l Hf Hl)). reflexivity.
Qed.

(* same token line (or none) at every line position: indentation, gaps, trailing blanks, comments, the text
   of blank and comment lines, line terminators and letter case are free *)
Theorem layout_and_comments_irrelevant s ls1 fin1 ls2 fin2 : wf_source ls1 fin1 -> wf_source ls2 fin2 ->
  map tok_of (src_lines ls1 fin1) = map tok_of (src_lines ls2 fin2) ->
  toy_load_text s (render_text ls1 fin1) = toy_load_text s (render_text ls2 fin2).
Proof.
  intros [H1 F1] [H2 F2] E. rewrite !load_text_render by assumption. rewrite E. reflexivity.
Qed.

(* the spellings of one number are pairwise interchangeable literals; exact side condition: a decimal
   spelling counts its leading zeros against Python's 4300-digit limit *)
Theorem spellings_same_value n : 0 <= n ->
  (forall zh lower, is_value (hex_lit zh lower n) = true /\ toy_value (hex_lit zh lower n) = Some n) /\
  (forall zd, Z.of_nat (length (dec_lit zd n)) <= 4300 -> is_value (dec_lit zd n) = true /\ toy_value (dec_lit zd n) = Some n) /\
  (forall zd, Z.of_nat (length (dec_lit zd n)) > 4300 -> is_value (dec_lit zd n) = true /\ toy_value (dec_lit zd n) = None).
Proof.
  intros Hn. split; [|split].
  - intros zh lower. split; [apply hex_lit_value, Hn|]. unfold hex_lit. rewrite toy_value_hex, digits_value_zeros. unfold hex_digits.
    destruct lower; [rewrite digits_value_lower'|]; rewrite digits_value_fmt_nat' by lia; reflexivity.
  - intros zd Hlen. destruct (number_bases n zd 0 false Hn Hlen) as (A & _ & B & _). split; assumption.
  - intros zd Hlen. split; [apply dec_lit_value, Hn|]. rewrite toy_value_dec.
    + unfold dec_branch, max_str_digits. replace (Z.of_nat (length (dec_lit zd n)) >? 4300) with true by lia. reflexivity.
    + unfold dec_lit. rewrite forallb_app, zeros_digits, dec_digits by exact Hn. reflexivity.
Qed.

(** * examples *)
Definition st0 : tstate := toy_init 4096 1 false.
Definition NL : str := [10].
Definition text_a : str :=
  codes ".data" ++ NL ++ codes "n: .word 255, 16" ++ NL ++ codes ".text" ++ NL ++ codes "LDA n" ++ NL ++
  codes "ADD 0x10" ++ NL ++ codes "sto 4095" ++ NL.
(* other number bases, leading zeros, hex-digit case, letter case, layout, a comment, CR LF, no final newline *)
Definition text_b : str :=
  codes "  .data" ++ [13; 10] ++ codes "n :.word 0xff,0x0010" ++ NL ++ codes ". text # code" ++ NL ++ codes "lda   n" ++ NL ++
  codes "Add 016" ++ NL ++ codes "STO 0xFfF".

Ltac line_tac :=
  unfold line_equiv;
  repeat match goal with
         | |- context [toy_lex_line ?a] =>
             let ra := eval vm_compute in (toy_lex_line a) in
             replace (toy_lex_line a) with ra by (vm_compute; reflexivity)
         end;
  cbn [rt_equiv ropnd_equiv];
  repeat (match goal with |- _ /\ _ => split end);
  repeat (apply Forall2_cons || apply Forall2_nil);
  match goal with
  | |- lit_eq _ _ => unfold lit_eq; vm_compute; reflexivity
  | |- True => exact Logic.I
  | |- _ => reflexivity
  end.
Ltac same_tac :=
  unfold toy_same_up_to_spelling;
  match goal with |- Forall2 _ (splitlines ?a) (splitlines ?b) =>
    let la := eval vm_compute in (splitlines a) in
    let lb := eval vm_compute in (splitlines b) in
    replace (splitlines a) with la by (vm_compute; reflexivity);
    replace (splitlines b) with lb by (vm_compute; reflexivity)
  end;
  repeat (apply Forall2_cons; [line_tac|]); apply Forall2_nil.

Example ex_spelling :
  toy_same_up_to_spelling text_a text_b /\
  toy_lex_text text_a <> toy_lex_text text_b /\
  toy_load_text st0 text_a = toy_load_text st0 text_b /\
  snd (toy_load_text st0 text_a) = None /\
  psort (t_mem (fst (toy_load_text st0 text_a))) = [(0, 8190); (1, 12304); (2, 4095); (4094, 255); (4095, 16)].
Proof.
  split; [|split; [|vm_compute; repeat split]].
  - same_tac.
  - vm_compute. discriminate.
Qed.

(* errors are the same error with the same line number; an over-long decimal stays over-long *)
Example ex_spelling_errors :
  toy_same_up_to_spelling (codes "NOP" ++ NL ++ codes "BRZ nowhere" ++ NL ++ codes "ADD 0x10")
                          (codes "nop # x" ++ NL ++ codes "brz  nowhere" ++ NL ++ codes "ADD 16") /\
  snd (toy_load_text st0 (codes "NOP" ++ NL ++ codes "BRZ nowhere" ++ NL ++ codes "ADD 0x10")) = Some (PLabel 2) /\
  snd (toy_load_text st0 (codes "nop # x" ++ NL ++ codes "brz  nowhere" ++ NL ++ codes "ADD 16")) = Some (PLabel 2) /\
  snd (toy_load_text st0 (NL ++ codes "LDA " ++ repeat 57 4301)) = Some (PSyntax 2) /\
  snd (toy_load_text st0 (NL ++ codes "lda " ++ repeat 48 7 ++ repeat 57 4301)) = Some (PSyntax 2) /\
  (* the side condition is needed: 4300 zeros and a 1 is a literal of the grammar that int() refuses *)
  snd (toy_load_text st0 (codes "LDA " ++ dec_lit 4300 1)) = Some (PSyntax 1) /\
  snd (toy_load_text st0 (codes "LDA " ++ dec_lit 4299 1)) = None /\
  snd (toy_load_text st0 (codes "LDA " ++ hex_lit 5000 true 1)) = None.
Proof.
  split; [|vm_compute; repeat split].
  same_tac.
Qed.

(* a respelling function on a printed source *)
Definition f_ex (v : str) : str := if str_eqb v (codes "255") then codes "0x00ff" else if str_eqb v (codes "0x10") then codes "016" else v.
Lemma str_eqb_eq a : forall b, str_eqb a b = true -> a = b.
Proof.
  induction a as [|x a IH]; intros [|y b]; cbn [str_eqb]; try discriminate; [reflexivity|].
  intros H. apply andb_prop in H as [H1 H2]. f_equal; [lia | apply IH, H2].
Qed.
Example ex_good_respelling : good_respelling f_ex.
Proof.
  intros v Hv. unfold f_ex. destruct (str_eqb v (codes "255")) eqn:E1.
  - apply str_eqb_eq in E1. subst v. split; reflexivity.
  - destruct (str_eqb v (codes "0x10")) eqn:E2; [|split; [exact Hv | reflexivity]].
    apply str_eqb_eq in E2. subst v. split; reflexivity.
Qed.
Definition gap1 (k : nat) : str := [32].
Definition src_ex : list (srcline * str) :=
  [(STok [] [] None gap1 [] (RLVar (codes "n") [codes "255"; codes "7"]), NL);
   (STok [] [] None gap1 (codes "add") (RLInstr None 3 (RAddrLit (codes "0x10"))), NL)].
Example ex_number_base :
  wf_source src_ex None /\
  render_text src_ex None = codes "n : . word 255 , 7" ++ NL ++ codes "add 0x10" ++ NL /\
  render_text (map_src (lit_src f_ex) src_ex) None = codes "n : . word 0x00ff , 7" ++ NL ++ codes "add 016" ++ NL /\
  render_text (map_src (case_src (map to_upper)) src_ex) None = codes "n : . word 255 , 7" ++ NL ++ codes "ADD 0x10" ++ NL.
Proof.
  split; [|vm_compute; repeat split].
  assert (N : is_nl NL) by (right; exists 10; split; [reflexivity | split; [reflexivity | lia]]).
  split; [|exact Logic.I]. unfold src_ex. constructor; [|constructor; [|constructor]]; cbn [fst snd]; (split; [|exact N]);
    cbn [wf_src wf_rtline wf_operand]; repeat split; try reflexivity; try (intros k; reflexivity); try lia; discriminate.
Qed.
