(* Proofs/LiftICache.v — corollaries for a flat data memory behind ANY instruction cache
   (program-level clause of C11): no access is ever rejected, so runs agree completely. *)
From Coq Require Import Lia ZifyBool.
From ArchSim Require Import Spec.RefCache.
From ArchSim Require Import Model.Base Model.Mem Model.Cache Model.Fmt Model.RV Model.Single
  Model.RVSplit Model.Pipe
  Proofs.CacheArith Proofs.CacheInv Proofs.C03Proofs Proofs.C11Proofs
  Proofs.LiftFlat Proofs.LiftAccess Proofs.LiftSim Proofs.LiftEcall Proofs.LiftSingle Proofs.LiftPipe
  Proofs.LiftPipeRun.
Open Scope Z_scope.

Lemma single_run_cfg n : forall s t, sim s t -> ms_cfg (ms (fst (single_run n s))) = ms_cfg (ms s).
Proof.
  induction n as [|n IH]; intros s t Hsim; cbn [single_run].
  - destruct (single_done s); reflexivity.
  - destruct (single_done s); [reflexivity|].
    destruct (single_pipeline_step s) as [s1 of] eqn:Hs.
    destruct (sim_single_step s t s1 of Hsim Hs) as (t1 & of' & Ht & Hcfg & Hres).
    destruct of as [f|]; [exact Hcfg|].
    assert (S1 : sim s1 t1).
    { destruct (instr_at (prog (im s)) (pc s)); [destruct (rejects _ _ _)|]; try tauto.
      destruct Hres as [E _]. discriminate. }
    rewrite (IH s1 t1 S1). exact Hcfg.
Qed.

Lemma pipe_run_cfg n : forall p t, sim (pst p) t -> ms_cfg (ms (pst (fst (pipe_run n p)))) = ms_cfg (ms (pst p)).
Proof.
  induction n as [|n IH]; intros p t Hsim; cbn [pipe_run].
  - destruct (pipe_done p); reflexivity.
  - destruct (pipe_done p); [reflexivity|].
    destruct (pipe_step p) as [p1 of] eqn:Hs.
    destruct (sim_pipe_step p t p1 of Hsim Hs) as [Hcfg Hres].
    destruct of as [f|]; [exact Hcfg|].
    destruct Hres as [(t1 & of' & _ & S1 & _)|(z & e & _ & _ & E)]; [|discriminate].
    rewrite (IH p1 t1 S1). exact Hcfg.
Qed.

Lemma rejects_flat i s : rejects None i s = None.
Proof. reflexivity. Qed.

(* single-cycle: flat data memory, any instruction cache *)
Lemma icache_single_run n s m : ms s = MFlat m -> cache_ok s ->
  let '(s', r) := single_run n s in
  exists t', single_run n (flatten s) = (t', r) /\ same_arch s' t'.
Proof.
  intros Hm Hok. pose proof (sim_flatten s Hok) as S0.
  pose proof (sim_single_run n s _ S0) as H. unfold run_goal in H.
  destruct (single_run n s) as [s' [|f|]].
  - destruct H as (t' & R & S'). exists t'. split; [exact R | apply sim_same_arch; exact S'].
  - destruct H as [(t' & ff & R & E & S')|(k & sk & tk & Hk & R1 & R2 & Sk & Rej & S')].
    + rewrite Hm in E. cbn [ms_cfg] in E. rewrite fmap_none in E. subst f.
      exists t'. split; [exact R | apply sim_same_arch; exact S'].
    + exfalso. destruct Rej as (i & e & _ & Hr & _).
      pose proof (single_run_cfg k s _ S0) as Hc. rewrite R1, Hm in Hc. cbn [fst ms_cfg] in Hc.
      rewrite Hc in Hr. discriminate.
  - destruct H as (t' & R & S'). exists t'. split; [exact R | apply sim_same_arch; exact S'].
Qed.

(* five-stage pipeline: flat data memory, any instruction cache *)
Lemma icache_pipe_run n p m : ms (pst p) = MFlat m -> cache_ok (pst p) ->
  let '(p', r) := pipe_run n p in
  exists q', pipe_run n (pflatten p) = (q', r) /\ same_pipe p' q' /\ ptrace n (pflatten p) = ptrace n p.
Proof.
  intros Hm Hok. pose proof (sim_flatten _ Hok) as S0.
  pose proof (sim_pipe_run n p _ S0) as H. unfold prun_goal in H. unfold pflatten.
  destruct (pipe_run n p) as [p' [|f|]].
  - destruct H as (t' & R & S' & Tr). eexists. split; [exact R|]. split; [apply same_pipe_with_pst; exact S' | exact Tr].
  - destruct H as [(t' & ff & R & E & S' & Tr)|(k & pk & tk & Hk & R1 & R2 & Sk & z & e & _ & Hr & _)].
    + rewrite Hm in E. cbn [ms_cfg] in E. rewrite fmap_none in E. subst f.
      eexists. split; [exact R|]. split; [apply same_pipe_with_pst; exact S' | exact Tr].
    + exfalso. pose proof (pipe_run_cfg k p _ S0) as Hc. rewrite R1, Hm in Hc. cbn [fst ms_cfg] in Hc.
      rewrite Hc in Hr. unfold slot_rejects in Hr. rewrite acc_rejects_flat in Hr. discriminate.
  - destruct H as (t' & R & S' & Tr). eexists. split; [exact R|]. split; [apply same_pipe_with_pst; exact S' | exact Tr].
Qed.
