(* IndepTables.v — the displayed TABLES denote the state (properties C17 and C12, the part the
   statement files did not cover): register rows, memory rows and the TOY rows, read with the
   model-independent readers of Spec/Numerals.v. *)
From Coq Require Import Lia ZifyBool Sorted.
From ArchSim Require Import Model.Base Model.Mem Model.Cache Model.Fmt Model.RV Model.Single
  Model.Toy Model.Sx Model.Main Spec.Numerals Spec.RV32IM Proofs.WordLemmas Proofs.C01Mem Proofs.C01Step
  Proofs.C17Proofs.
Open Scope Z_scope.

Local Arguments Z.mul : simpl never.
Local Arguments Z.add : simpl never.
Local Arguments Z.sub : simpl never.
Local Arguments Z.pow : simpl never.
Local Arguments Z.div : simpl never.
Local Arguments Z.modulo : simpl never.

(** * A four-string row denotes a value at width n *)
Definition row_denotes (n : Z) (r : str * str * str * str) (v : Z) : Prop :=
  let '(b, ud, h, sd) := r in
  of_digits 2 (ungroup b) = Some (v mod 2 ^ n) /\ Z.of_nat (length (ungroup b)) = n /\
  of_digits 16 (ungroup h) = Some (v mod 2 ^ n) /\ Z.of_nat (length (ungroup h)) = (n + 3) / 4 /\
  parse_dec ud = Some (v mod 2 ^ n) /\
  parse_dec sd = Some (let u := v mod 2 ^ n in if u <? 2 ^ (n - 1) then u else u - 2 ^ n) /\
  well_grouped 8 b /\ well_grouped 2 h.

Lemma n_bit_repr_denotes n v : 1 <= n -> row_denotes n (n_bit_repr n v) v.
Proof.
  intros Hn. pose proof (bin_denotes_lem n v Hn) as H1. pose proof (hex_denotes_lem n v Hn) as H2.
  pose proof (udec_denotes_lem n v Hn) as H3. pose proof (sdec_denotes_lem n v Hn) as H4.
  pose proof (repr_grouping_lem n v Hn) as H5. unfold row_denotes.
  destruct (n_bit_repr n v) as [[[b ud] h] sd].
  destruct H1 as [A1 A2]. destruct H2 as [B1 B2]. destruct H5 as (C1 & C2 & _).
  split; [exact A1|]. split; [exact A2|]. split; [exact B1|]. split; [exact B2|].
  split; [exact H3|]. split; [exact H4|]. split; [exact C1|exact C2].
Qed.

(** * RISC-V: the register table *)
Definition rv_reg_rows (s : st) : list (str * str * str * str) :=
  map (fun r => n_bit_repr 32 (rget s r)) (zrange_from 0 32).
Definition rv_mem_rows (s : st) : res (list (Z * Z)) := mem_repr rv_memcfg (ms_lower (ms s)) 32.
Definition mem_row_sx (av : Z * Z) : sx :=
  Lx [Zx (fst av); sx_str ([48; 120] ++ fmt_pad 16 8 (fst av)); sx_repr4 (n_bit_repr 32 (snd av))].

(* what [rv_tables] serialises: the 32 register rows and the memory rows *)
Lemma rv_tables_eq s :
  rv_tables s = Lx [Lx (map sx_repr4 (rv_reg_rows s));
                    sx_res (fun rows => Lx (map mem_row_sx rows)) (rv_mem_rows s)].
Proof. unfold rv_tables, rv_reg_rows, sx_list. rewrite map_map. reflexivity. Qed.

Lemma zrange_nth : forall n a k, (k < n)%nat -> nth_error (zrange_from a n) k = Some (a + Z.of_nat k).
Proof.
  induction n as [|n IH]; intros a k Hk; [lia|]. cbn [zrange_from]. destruct k as [|k]; cbn [nth_error].
  - f_equal. lia.
  - rewrite IH by lia. f_equal. lia.
Qed.
Lemma zrange_length : forall n a, length (zrange_from a n) = n.
Proof. induction n as [|n IH]; intros a; cbn [zrange_from length]; [reflexivity|]. rewrite IH. reflexivity. Qed.

Lemma rv_reg_rows_lem s :
  length (rv_reg_rows s) = 32%nat /\
  forall r, 0 <= r < 32 ->
    nth_error (rv_reg_rows s) (Z.to_nat r) = Some (n_bit_repr 32 (rget s r)) /\
    row_denotes 32 (n_bit_repr 32 (rget s r)) (rget s r).
Proof.
  unfold rv_reg_rows. split; [rewrite map_length; apply zrange_length|].
  intros r Hr. split; [|apply n_bit_repr_denotes; lia].
  rewrite nth_error_map, zrange_nth by lia. cbn [option_map]. do 3 f_equal. lia.
Qed.

(* for a well-formed state the rows denote the register values themselves *)
Lemma rv_reg_value s r : wf s -> rget s r mod 2 ^ 32 = rget s r.
Proof. intros W. pose proof (rget_in32 s r W) as H. unfold in32 in H. apply Z.mod_small. rewrite two32. exact H. Qed.

(** * RISC-V: the memory table *)
(* the little-endian word at a: what the ISA reference [spec_load] reads, spelled out *)
Definition le_word (m : zmap) (a : Z) : Z :=
  mget m a + 256 * mget m (a + 1) + 65536 * mget m (a + 2) + 16777216 * mget m (a + 3).

Lemma spec_load_word m a : 16384 <= a -> a + 3 < 4294967296 -> spec_load m a 4 = inl (le_word m a).
Proof.
  intros H1 H2. unfold le_word.
  assert (Hv : forall x, 16384 <= x < 4294967296 -> wrap x = x /\ valid_addr x = true).
  { intros x Hx. unfold wrap, valid_addr. rewrite Z.mod_small by lia. split; [reflexivity|lia]. }
  cbn [spec_load].
  destruct (Hv a ltac:(lia)) as [-> ->]. destruct (Hv (a + 1) ltac:(lia)) as [-> ->].
  destruct (Hv (a + 1 + 1) ltac:(lia)) as [-> ->]. destruct (Hv (a + 1 + 1 + 1) ltac:(lia)) as [-> ->].
  f_equal. replace (a + 1 + 1) with (a + 2) by lia. replace (a + 2 + 1) with (a + 3) by lia. lia.
Qed.

Lemma rv_mem_rows_lem m rows : wf_mem m -> keys_in_range rv_memcfg m ->
  mem_repr rv_memcfg m 32 = Ok rows ->
  (forall a, In a (map fst rows) <-> exists k, In k (mkeys m) /\ a = k - k mod 4) /\
  StronglySorted Z.lt (map fst rows) /\
  (forall a v, In (a, v) rows ->
     a mod 4 = 0 /\ 16384 <= a /\ a + 3 < 4294967296 /\
     spec_load m a 4 = inl v /\ v = le_word m a /\ 0 <= v < 2 ^ 32 /\
     of_digits 16 (fmt_pad 16 8 a) = Some a /\ Z.of_nat (length (fmt_pad 16 8 a)) = 8 /\
     row_denotes 32 (n_bit_repr 32 v) v).
Proof.
  intros Wm Hk Hr. destruct (mem_table_exact_lem _ _ _ _ Hr) as (Hin & Hs & Hv).
  change (32 / cw rv_memcfg) with 4 in Hin.
  split; [exact Hin|]. split; [exact Hs|].
  intros a v Hav.
  assert (Ha : In a (map fst rows)) by (apply in_map_iff; exists (a, v); split; [reflexivity|exact Hav]).
  apply Hin in Ha. destruct Ha as (k & Hkin & ->). specialize (Hk k Hkin).
  change (alo rv_memcfg) with 16384 in Hk. change (ahi rv_memcfg) with 4294967296 in Hk.
  set (a := k - k mod 4) in *.
  assert (Ha4 : a mod 4 = 0 /\ 16384 <= a /\ a + 3 < 4294967296).
  { subst a. pose proof (Z.mod_pos_bound k 4 ltac:(lia)). pose proof (Z.div_mod k 4 ltac:(lia)).
    assert (k - k mod 4 = 4 * (k / 4)) by lia. rewrite H1. split; [rewrite Z.mul_comm; apply Z_mod_mult|].
    assert (4096 <= k / 4 < 1073741824) by (split; [apply Z.div_le_lower_bound; lia|apply Z.div_lt_upper_bound; lia]).
    lia. }
  destruct Ha4 as (A1 & A2 & A3).
  specialize (Hv a v Hav). change 32 with (load_bits LW) in Hv. rewrite (mem_read_spec m LW a Wm) in Hv.
  cbn [lop_bytes] in Hv. rewrite (spec_load_word m a A2 A3) in Hv. injection Hv as Hv.
  assert (Hrange : 0 <= le_word m a < 2 ^ 32).
  { unfold le_word. pose proof (Wm a). pose proof (Wm (a + 1)). pose proof (Wm (a + 2)). pose proof (Wm (a + 3)).
    rewrite two32. lia. }
  split; [exact A1|]. split; [exact A2|]. split; [exact A3|].
  split; [rewrite spec_load_word by assumption; f_equal; exact Hv|]. split; [symmetry; exact Hv|].
  split; [rewrite <- Hv; exact Hrange|].
  destruct (to_hex_str_lem a 32 ltac:(lia) ltac:(rewrite two32; lia)) as [T1 T2].
  split; [exact T1|]. split; [exact T2|]. apply n_bit_repr_denotes. lia.
Qed.

(* on a state: well-formedness gives byte-sized cells *)
Lemma rv_mem_rows_st s rows : wf s -> keys_in_range rv_memcfg (ms_lower (ms s)) ->
  rv_mem_rows s = Ok rows ->
  let m := ms_lower (ms s) in
  (forall a, In a (map fst rows) <-> exists k, In k (mkeys m) /\ a = k - k mod 4) /\
  StronglySorted Z.lt (map fst rows) /\
  (forall a v, In (a, v) rows ->
     a mod 4 = 0 /\ 16384 <= a /\ a + 3 < 4294967296 /\
     spec_load m a 4 = inl v /\ v = le_word m a /\ 0 <= v < 2 ^ 32 /\
     of_digits 16 (fmt_pad 16 8 a) = Some a /\ Z.of_nat (length (fmt_pad 16 8 a)) = 8 /\
     row_denotes 32 (n_bit_repr 32 v) v).
Proof. intros W Hk Hr. exact (rv_mem_rows_lem _ rows (wf_m s W) Hk Hr). Qed.

Lemma rv_mem_rows_total s : keys_in_range rv_memcfg (ms_lower (ms s)) -> exists rows, rv_mem_rows s = Ok rows.
Proof. intros Hk. apply mem_table_total_lem; [apply rv_aligned; auto|exact Hk]. Qed.

(** * TOY: the register rows *)
Lemma toy_reg_rows_lem s : toy_has_instructions s = true ->
  exists ir, toy_register_reprs s = [n_bit_repr 16 (t_accu s); n_bit_repr 12 (t_pc s); ir] /\
    row_denotes 16 (n_bit_repr 16 (t_accu s)) (t_accu s) /\
    row_denotes 12 (n_bit_repr 12 (t_pc s)) (t_pc s) /\
    match t_loaded s with
    | Some i => ir = n_bit_repr 16 (toy_encode i) /\ row_denotes 16 ir (toy_encode i)
    | None => ir = empty4
    end.
Proof.
  intros H. unfold toy_register_reprs. rewrite H. eexists. split; [reflexivity|].
  split; [apply n_bit_repr_denotes; lia|]. split; [apply n_bit_repr_denotes; lia|].
  destruct (t_loaded s); [split; [reflexivity|apply n_bit_repr_denotes; lia]|reflexivity].
Qed.

(* which pc the pc row shows: the field [t_pc] is the address the NEXT fetch (second half of a
   cycle) reads; that fetch loads the word at it into IR and advances it by one (mod 4096) *)
Lemma toy_fetch_pc s s' : toy_done s = false -> second_half s = (s', TNone) ->
  exists w, t_read s (t_pc s) = Ok w /\ t_pc s' = U12 (t_pc s + 1) /\
    t_loaded s' = (if t_pc s <=? maxpc_z s then Some (toy_decode w) else None) /\
    t_accu s' = t_accu s /\ t_mem s' = t_mem s.
Proof.
  intros Hd. unfold second_half. rewrite Hd. destruct (negb (t_nextcycle s =? 2)); [intros H; discriminate H|].
  destruct (t_read s (t_pc s)) as [w|e]; [|intros H; discriminate H].
  intros H. injection H as <-. exists w. repeat split.
Qed.

(* the execute half changes the pc only by a taken BRZ *)
Lemma toy_exec_pc s s' i : t_loaded s = Some i -> first_half s = (s', TNone) ->
  t_pc s' = if (top i =? 2) && (t_accu s =? 0) then U12 (taddr i) else t_pc s.
Proof.
  intros Hl. unfold first_half, toy_done. rewrite Hl. destruct (negb (t_nextcycle s =? 1)); [intros H; discriminate H|].
  cbn [t_loaded]. rewrite ?Hl. unfold toy_behavior. cbn [t_pc t_accu t_mem t_bcount t_with_core].
  destruct (top i =? 0) eqn:E0.
  { assert (top i =? 2 = false) by lia. rewrite H. cbn [andb].
    destruct (mem_write _ _ _ _ _) as [m' [e|]]; intros H1; [discriminate H1|]. injection H1 as <-. reflexivity. }
  destruct (top i =? 1) eqn:E1.
  { assert (top i =? 2 = false) by lia. rewrite H. cbn [andb]. unfold t_read. cbn [tcfg t_size t_mem].
    destruct (mem_read _ _ _ _) as [v|e]; intros H1; [|discriminate H1]. injection H1 as <-. reflexivity. }
  destruct (top i =? 2) eqn:E2.
  { cbn [andb]. destruct (t_accu s =? 0); intros H1; injection H1 as <-; reflexivity. }
  cbn [andb]. unfold t_read. cbn [tcfg t_size t_mem t_pc t_accu].
  destruct (top i <=? 7).
  { destruct (mem_read _ _ _ _) as [v|e]; intros H1; [|discriminate H1]. injection H1 as <-. reflexivity. }
  destruct (top i =? 8); [intros H1; injection H1 as <-; reflexivity|].
  destruct (top i =? 9); [intros H1; injection H1 as <-; reflexivity|].
  destruct (top i =? 10); [intros H1; injection H1 as <-; reflexivity|].
  destruct (top i =? 11); intros H1; injection H1 as <-; reflexivity.
Qed.

(** * TOY: the memory table *)
Lemma toy_mem_read_cell c m a v : cw c = 16 -> aovf c = false -> mem_read c m 16 a = Ok v ->
  alo c <= a < ahi c /\ v = mget m a mod 2 ^ 16.
Proof.
  intros Hw Ho. unfold mem_read, ncells. rewrite Hw. change (Z.to_nat (16 / 16)) with 1%nat.
  cbn [read_mult]. unfold read_cell, eff_addr, in_range. rewrite Ho. replace (a + 0) with a by lia.
  destruct ((alo c <=? a) && (a <? ahi c)) eqn:E; [|intros H; discriminate H].
  intros H. injection H as <-. split; [lia|]. reflexivity.
Qed.

Lemma toy_memory_table_lem s trows : t_size s <= 4096 -> toy_memory_table s = Ok trows ->
  (forall a, In a (map r_addr trows) <-> In a (mkeys (t_mem s))) /\
  StronglySorted Z.lt (map r_addr trows) /\
  (forall r, In r trows ->
     0 <= r_addr r < t_size s /\
     r_vals r = n_bit_repr 16 (mget (t_mem s) (r_addr r)) /\
     row_denotes 16 (r_vals r) (mget (t_mem s) (r_addr r)) /\
     r_hexaddr r = [48; 120] ++ fmt_pad 16 3 (r_addr r) /\
     of_digits 16 (fmt_pad 16 3 (r_addr r)) = Some (r_addr r)).
Proof.
  intros Hsz. unfold toy_memory_table.
  destruct (mem_repr (tcfg s) (t_mem s) 16) as [rows|e] eqn:Hr; [|intros H; discriminate H].
  intros H. injection H as <-.
  destruct (mem_table_exact_lem _ _ _ _ Hr) as (Hin & Hs & Hv).
  change (16 / cw (tcfg s)) with 1 in Hin. rewrite map_map. cbn [r_addr].
  change (map (fun x : Z * Z => fst x) rows) with (map fst rows).
  split.
  { intros a. rewrite Hin. split.
    - intros (k & Hk & ->). rewrite Z.mod_1_r. replace (k - 0) with k by lia. exact Hk.
    - intros Hk. exists a. split; [exact Hk|]. rewrite Z.mod_1_r. lia. }
  split; [exact Hs|].
  intros r Hrin. apply in_map_iff in Hrin. destruct Hrin as ([a v] & <- & Hav). cbn [r_addr r_vals r_hexaddr fst snd].
  destruct (toy_mem_read_cell (tcfg s) (t_mem s) a v eq_refl eq_refl (Hv a v Hav)) as [Ha ->].
  change (alo (tcfg s)) with 0 in Ha. change (ahi (tcfg s)) with (t_size s) in Ha.
  split; [exact Ha|].
  assert (Hn : n_bit_repr 16 (mget (t_mem s) a mod 2 ^ 16) = n_bit_repr 16 (mget (t_mem s) a)).
  { unfold n_bit_repr. rewrite !(land_ones_mod _ 16) by lia. rewrite Z.mod_mod by (change (2 ^ 16) with 65536; lia). reflexivity. }
  rewrite Hn. split; [reflexivity|]. split; [apply n_bit_repr_denotes; lia|]. split; [reflexivity|].
  apply (to_hex_str_lem a 12); [lia|]. change (2 ^ 12) with 4096. lia.
Qed.
