(* LexProofs7.v — Model/Lex.v: (b) the case of the mnemonic's letters does not matter. *)
From Coq Require Import String.
From Coq Require Import ZArith List Bool Lia ZifyBool.
From ArchSim Require Import Model.Base Model.Fmt Model.Toy Model.Asm Model.Lex
  Proofs.LexProofs2 Proofs.LexProofs3.
Import ListNotations.
Open Scope Z_scope.

Definition lower (c : Z) : Z := if is_upper c then c + 32 else c.
Definition alpha (m : str) : bool := forallb is_alpha m.
Definition hd_ws (s : str) : bool := match s with [] => true | c :: _ => is_ws c end.

Ltac cl := unfold lower, ci_regex, ci_upper, is_alpha, is_upper, is_lower, is_digit, is_ws, is_lab1, is_labn in *.

Lemma lower_idem c : lower (lower c) = lower c.
Proof.
  unfold lower. destruct (is_upper c) eqn:E; [|rewrite E; reflexivity].
  destruct (is_upper (c + 32)) eqn:E2; [|reflexivity]. cl. lia.
Qed.
Lemma ci_regex_alpha a c : is_lower a = true -> is_alpha c = true -> ci_regex a c = (lower c =? a).
Proof. unfold lower. destruct (is_upper c) eqn:E; cl; lia. Qed.
Lemma ci_upper_alpha a c : is_lower a = true -> is_alpha c = true -> ci_upper a c = (lower c =? a).
Proof. unfold lower. destruct (is_upper c) eqn:E; cl; lia. Qed.
Lemma ci_regex_ws a c : is_lower a = true -> is_ws c = true -> ci_regex a c = false.
Proof. cl. lia. Qed.
Lemma ci_upper_ws a c : is_lower a = true -> is_ws c = true -> ci_upper a c = false.
Proof. cl. lia. Qed.
Lemma alpha_ascii c : is_alpha c = true -> (c <? 128) = true.       Proof. cl. lia. Qed.
Lemma alpha_not_ws c : is_alpha c = true -> is_ws c = false.        Proof. cl. lia. Qed.

(* the leftover of m after the caseless prefix w *)
Fixpoint pre_ci (w m : str) : option str :=
  match w with
  | [] => Some m
  | a :: w' => match m with
               | c :: m' => if lower c =? a then pre_ci w' m' else None
               | [] => None
               end
  end.

Definition cm_alpha (cm : Z -> Z -> bool) : Prop :=
  (forall a c, is_lower a = true -> is_alpha c = true -> cm a c = (lower c =? a)) /\
  (forall a c, is_lower a = true -> is_ws c = true -> cm a c = false).

Lemma ci_lit_mn cm : cm_alpha cm -> forall w mn post,
  forallb is_lower w = true -> alpha mn = true -> hd_ws post = true ->
  ci_lit cm w (mn ++ post) = match pre_ci w mn with Some lo => Some (true, lo ++ post) | None => None end.
Proof.
  intros [C1 C2]. induction w as [|a w IH]; intros mn post Hw Hm Hp; [reflexivity|].
  cbn [forallb] in Hw. apply andb_true_iff in Hw as [Ha Hw]. destruct mn as [|c mn'].
  - cbn [app pre_ci]. destruct post as [|c t]; [reflexivity|]. cbn [ci_lit]. rewrite (C2 a c Ha Hp). reflexivity.
  - cbn [alpha forallb] in Hm. apply andb_true_iff in Hm as [Hc Hm]. cbn [app ci_lit pre_ci].
    rewrite (C1 a c Ha Hc). destruct (lower c =? a); [|reflexivity].
    rewrite (IH mn' post Hw Hm Hp). destruct (pre_ci w mn'); [|reflexivity]. rewrite (alpha_ascii c Hc). reflexivity.
Qed.

Lemma pre_ci_case w : forall m m', map lower m = map lower m' ->
  match pre_ci w m, pre_ci w m' with
  | Some lo, Some lo' => map lower lo = map lower lo'
  | None, None => True
  | _, _ => False
  end.
Proof.
  induction w as [|a w IH]; intros m m' E; [exact E|].
  destruct m as [|c m], m' as [|c' m']; try discriminate; [exact Logic.I|].
  cbn [map] in E. inversion E as [[E1 E2]]. cbn [pre_ci]. rewrite E1. destruct (lower c' =? a); [|exact Logic.I].
  apply IH, E2.
Qed.

(* selection of a caseless oneOf on the mnemonic alone: (number, leftover) *)
Fixpoint kwsel (syms : list (str * Z)) (m : str) : option (Z * str) :=
  match syms with
  | [] => None
  | (w, n) :: ws =>
      let rest := kwsel ws m in
      match pre_ci w m with
      | Some lo => match rest with
                   | Some (_, lo') => if (List.length lo' <? List.length lo)%nat then rest else Some (n, lo)
                   | None => Some (n, lo)
                   end
      | None => rest
      end
  end.

Lemma kw_best_mn syms mn post :
  kws_ok syms = true -> alpha mn = true -> hd_ws post = true ->
  kw_best syms (mn ++ post) = match kwsel syms mn with Some (n, lo) => Some (n, true, lo ++ post) | None => None end.
Proof.
  intros Hs Hm Hp. induction syms as [|[w n] syms IH]; [reflexivity|].
  cbn [kws_ok forallb fst] in Hs. apply andb_true_iff in Hs as [Hw Hs]. specialize (IH Hs).
  cbn [kw_best kwsel]. rewrite IH.
  rewrite (ci_lit_mn ci_regex (conj ci_regex_alpha ci_regex_ws) w mn post Hw Hm Hp).
  destruct (pre_ci w mn) as [lo|]; [|reflexivity].
  destruct (kwsel syms mn) as [[n1 lo1]|]; [|reflexivity].
  rewrite !app_length.
  replace (Nat.ltb (List.length lo1 + List.length post) (List.length lo + List.length post))
    with (Nat.ltb (List.length lo1) (List.length lo)).
  2:{ destruct (Nat.ltb_spec (List.length lo1) (List.length lo)),
        (Nat.ltb_spec (List.length lo1 + List.length post) (List.length lo + List.length post)); try reflexivity; lia. }
  destruct (Nat.ltb (List.length lo1) (List.length lo)); reflexivity.
Qed.

Lemma kwsel_case syms : forall m m', map lower m = map lower m' ->
  match kwsel syms m, kwsel syms m' with
  | Some (n, lo), Some (n', lo') => n = n' /\ map lower lo = map lower lo'
  | None, None => True
  | _, _ => False
  end.
Proof.
  intros m m' E. induction syms as [|[w n] syms IH]; [exact Logic.I|].
  cbn [kwsel]. pose proof (pre_ci_case w m m' E) as P.
  destruct (pre_ci w m) as [lo|], (pre_ci w m') as [lo'|]; try contradiction.
  - destruct (kwsel syms m) as [[n1 lo1]|], (kwsel syms m') as [[n1' lo1']|]; try contradiction.
    + destruct IH as [-> IH]. assert (L1 : List.length lo1 = List.length lo1') by (rewrite <- (map_length lower lo1), IH; apply map_length).
      assert (L2 : List.length lo = List.length lo') by (rewrite <- (map_length lower lo), P; apply map_length).
      rewrite L1, L2. destruct (Nat.ltb (List.length lo1') (List.length lo')); split; auto.
    + split; [reflexivity|exact P].
  - exact IH.
Qed.

(** * leftover letters never start a register *)
Definition regfree (l : str) : bool :=
  negb (match l with c :: _ => c =? 120 | [] => false end) &&
  forallb (fun nm => match lit nm (l ++ [32]) with Some _ => false | None => true end) abi_names.
Definition isnil (l : str) : bool := match l with [] => true | _ => false end.

Lemma abi_chars : forallb (forallb (fun c => is_lower c || is_digit c)) abi_names = true.
Proof. vm_compute. reflexivity. Qed.

Lemma lit_lower nm : forall lo post r,
  forallb (fun c => is_lower c || is_digit c) nm = true -> alpha lo = true -> hd_ws post = true ->
  lit nm (lo ++ post) = Some r -> exists r', lit nm (map lower lo ++ [32]) = Some r'.
Proof.
  induction nm as [|a nm IH]; intros lo post r Hn Hl Hp H; [eexists; reflexivity|].
  cbn [forallb] in Hn. apply andb_true_iff in Hn as [Ha Hn]. destruct lo as [|c lo].
  - cbn [app] in H. destruct post as [|c t]; [discriminate|]. cbn [lit] in H. destruct (c =? a) eqn:E; [|discriminate].
    apply Z.eqb_eq in E. subst. cbn [hd_ws] in Hp. cl. lia.
  - cbn [alpha forallb] in Hl. apply andb_true_iff in Hl as [Hc Hl]. cbn [app lit map] in *.
    destruct (c =? a) eqn:E; [|discriminate]. apply Z.eqb_eq in E. subst c.
    assert (El : lower a = a) by (unfold lower; destruct (is_upper a) eqn:U; [cl; lia|reflexivity]).
    rewrite El, Z.eqb_refl. eapply IH; eassumption.
Qed.

Lemma p_reg_leftover lo post :
  lo <> [] -> alpha lo = true -> hd_ws post = true -> regfree (map lower lo) = true -> p_reg (lo ++ post) = None.
Proof.
  intros Hn Hl Hp Hr. unfold regfree in Hr. apply andb_true_iff in Hr as [Hx Hr].
  destruct lo as [|c lo']; [congruence|]. pose proof Hl as Hl0.
  cbn [alpha forallb] in Hl. apply andb_true_iff in Hl as [Hc Hl].
  unfold p_reg. rewrite skip_ws_stop by (cbn [app stops]; rewrite (alpha_not_ws c Hc); reflexivity).
  pose proof (lit_best_spec abi_names ((c :: lo') ++ post)) as S.
  destruct (lit_best abi_names ((c :: lo') ++ post)) as [[w r]|].
  - exfalso. destruct S as (Hin & Hlit & _).
    pose proof abi_chars as AC. rewrite forallb_forall in AC. specialize (AC _ Hin).
    destruct (lit_lower w (c :: lo') post r AC Hl0 Hp Hlit) as [r' Hr'].
    rewrite forallb_forall in Hr. specialize (Hr _ Hin). rewrite Hr' in Hr. discriminate.
  - cbn [app lit]. destruct (c =? 120) eqn:E; [|reflexivity]. exfalso. apply Z.eqb_eq in E. subst c.
    cbn in Hx. discriminate.
Qed.

(** * the finite facts about the mnemonic tables *)
Definition mnemonics : list str :=
  map mn_name (zrange_from 0 54) ++ [codes "li"; codes "la"; codes "mv"; codes "nop"]%string.
Definition kw_tables : list (list (str * Z)) :=
  [syms_r; syms_u; syms_b; syms_mem; syms_memp; syms_sp; syms_csr; syms_csri; syms_rri; syms_rr].
Definition lo_ok (lo : str) : bool := isnil lo || regfree lo.
Definition table_ok (T : list (str * Z)) : bool :=
  kws_ok T && forallb (fun m => match kwsel T m with Some (_, lo) => lo_ok (map lower lo) | None => true end) mnemonics.
Definition clit_reg_ok (w : str) : bool :=
  forallb is_lower w && forallb (fun m => match pre_ci w m with Some lo => lo_ok (map lower lo) | None => true end) mnemonics.
Definition clit_bare_ok (w : str) : bool :=
  forallb is_lower w && forallb (fun m => match pre_ci w m with Some lo => isnil lo | None => true end) mnemonics.

Lemma tables_ok : forallb table_ok kw_tables = true.             Proof. vm_compute. reflexivity. Qed.
Lemma clits_reg_ok : forallb clit_reg_ok [codes "fence"; codes "jal"; codes "li"]%string = true.
Proof. vm_compute. reflexivity. Qed.
Lemma clits_bare_ok : forallb clit_bare_ok [codes "ecall"; codes "ebreak"; codes "nop"]%string = true.
Proof. vm_compute. reflexivity. Qed.

Lemma map_lower_idem m : map lower (map lower m) = map lower m.
Proof. rewrite map_map. apply map_ext. intros c. apply lower_idem. Qed.
Lemma isnil_map lo : isnil (map lower lo) = isnil lo.   Proof. destruct lo; reflexivity. Qed.

Lemma pre_ci_suffix w : forall m lo, pre_ci w m = Some lo -> exists p, m = p ++ lo.
Proof.
  induction w as [|a w IH]; intros m lo H; [exists []; cbn in H; inversion H; reflexivity|].
  destruct m as [|c m]; [discriminate|]. cbn [pre_ci] in H. destruct (lower c =? a); [|discriminate].
  destruct (IH m lo H) as [p ->]. exists (c :: p). reflexivity.
Qed.
Lemma kwsel_suffix T : forall m n lo, kwsel T m = Some (n, lo) -> exists p, m = p ++ lo.
Proof.
  induction T as [|[w k] T IH]; intros m n lo H; [discriminate|]. cbn [kwsel] in H.
  destruct (pre_ci w m) as [l1|] eqn:E1.
  - destruct (kwsel T m) as [[n2 l2]|] eqn:E2.
    + destruct (Nat.ltb (List.length l2) (List.length l1)).
      * inversion H; subst. exact (IH _ _ _ E2).
      * inversion H; subst. eapply pre_ci_suffix; eassumption.
    + inversion H; subst. eapply pre_ci_suffix; eassumption.
  - eapply IH; eassumption.
Qed.
Lemma alpha_suffix p lo : alpha (p ++ lo) = true -> alpha lo = true.
Proof. unfold alpha. rewrite forallb_app. intros H. apply andb_true_iff in H. tauto. Qed.

(* related leftovers behave alike in front of the first register *)
Lemma leftover_reg lo lo' post :
  alpha lo = true -> alpha lo' = true -> map lower lo = map lower lo' -> hd_ws post = true ->
  lo_ok (map lower lo) = true -> p_reg (lo ++ post) = p_reg (lo' ++ post).
Proof.
  intros Ha Ha' E Hp Hok. unfold lo_ok in Hok. rewrite isnil_map in Hok.
  destruct lo as [|c lo].
  - destruct lo'; [reflexivity|discriminate].
  - destruct lo' as [|c' lo']; [discriminate|]. cbn [isnil orb] in Hok.
    rewrite (p_reg_leftover (c :: lo) post) by (try assumption; discriminate).
    rewrite (p_reg_leftover (c' :: lo') post); [reflexivity|discriminate|assumption|assumption|].
    rewrite <- E. exact Hok.
Qed.

(** * the hypotheses of (b) *)
Record case_hyp (mn mn' post : str) : Prop := {
  ch_alpha : alpha mn = true;
  ch_alpha' : alpha mn' = true;
  ch_same : map lower mn = map lower mn';
  ch_mnemonic : In (map lower mn) mnemonics;          (* the word IS a mnemonic of the grammar *)
  ch_post : hd_ws post = true;                         (* followed by a blank or the end of the line *)
  ch_nocolon : colon post = None }.                    (* not followed by ':' (that would make it a label) *)

Lemma alpha_skip m x : alpha m = true -> m <> [] -> skip_ws (m ++ x) = m ++ x.
Proof.
  intros H Hn. destruct m as [|c m]; [congruence|]. cbn [alpha forallb] in H. apply andb_true_iff in H as [Hc _].
  apply skip_ws_stop. cbn [app stops]. rewrite (alpha_not_ws c Hc). reflexivity.
Qed.
Lemma nil_not_mnemonic : ~ In [] mnemonics.
Proof. vm_compute. intuition discriminate. Qed.

Section Case.
  Variables (mn mn' post : str).
  Hypothesis CH : case_hyp mn mn' post.

  Lemma mn_ne : mn <> [] /\ mn' <> [].
  Proof.
    destruct CH as [_ _ Hs Hm _ _].
    assert (mn <> []) by (intros ->; exact (nil_not_mnemonic Hm)).
    split; [assumption|]. intros ->. destruct mn; [congruence|discriminate].
  Qed.

  (* oneOf + first register *)
  Definition kwreg (T : list (str * Z)) (s : str) : option (Z * bool * regtok * str) :=
    match kw T s with
    | Some (n, p, r) => match p_reg r with Some (a, r') => Some (n, p, a, r') | None => None end
    | None => None
    end.

  Lemma kwreg_case T w : In T kw_tables -> blanks w = true -> kwreg T (w ++ mn ++ post) = kwreg T (w ++ mn' ++ post).
  Proof.
    intros HT Hw. destruct CH as [Ha Ha' Hs Hm Hp Hc]. destruct mn_ne as [N N'].
    pose proof tables_ok as TO. rewrite forallb_forall in TO. specialize (TO _ HT).
    apply andb_true_iff in TO as [Hk Hchk]. rewrite forallb_forall in Hchk. specialize (Hchk _ Hm).
    unfold kwreg. rewrite (kw_blanks T w (mn ++ post) Hw), (kw_blanks T w (mn' ++ post) Hw). unfold kw.
    rewrite (alpha_skip mn post Ha N), (alpha_skip mn' post Ha' N').
    rewrite (kw_best_mn T mn post Hk Ha Hp), (kw_best_mn T mn' post Hk Ha' Hp).
    pose proof (kwsel_case T mn mn' Hs) as K1.
    pose proof (kwsel_case T mn (map lower mn) (eq_sym (map_lower_idem mn))) as K2.
    destruct (kwsel T mn) as [[n lo]|] eqn:S1, (kwsel T mn') as [[n' lo']|] eqn:S2; try contradiction; [|reflexivity].
    destruct K1 as [<- E].
    destruct (kwsel T (map lower mn)) as [[n2 lo2]|]; [|contradiction]. destruct K2 as [_ E2].
    rewrite <- E2 in Hchk.
    destruct (kwsel_suffix T _ _ _ S1) as [p1 P1]. destruct (kwsel_suffix T _ _ _ S2) as [p2 P2].
    rewrite (leftover_reg lo lo' post); try assumption; [reflexivity| |].
    - rewrite P1 in Ha. apply alpha_suffix in Ha. exact Ha.
    - rewrite P2 in Ha'. apply alpha_suffix in Ha'. exact Ha'.
  Qed.

  (* CaselessLiteral + first register *)
  Definition clreg (w : string) (s : str) : option (regtok * str) :=
    match clit w s with Some r => p_reg r | None => None end.

  Lemma clit_mn w m x : forallb is_lower (codes w) = true -> alpha m = true -> m <> [] -> hd_ws x = true ->
    clit w (m ++ x) = match pre_ci (codes w) m with Some lo => Some (lo ++ x) | None => None end.
  Proof.
    intros Hw Hm Hn Hx. unfold clit. rewrite alpha_skip by assumption.
    rewrite (ci_lit_mn ci_upper (conj ci_upper_alpha ci_upper_ws) (codes w) m x Hw Hm Hx).
    destruct (pre_ci (codes w) m); reflexivity.
  Qed.

  Lemma clreg_case w v : In (codes w) [codes "fence"; codes "jal"; codes "li"]%string -> blanks v = true ->
    clreg w (v ++ mn ++ post) = clreg w (v ++ mn' ++ post).
  Proof.
    intros HT Hv. destruct CH as [Ha Ha' Hs Hm Hp Hc]. destruct mn_ne as [N N'].
    pose proof clits_reg_ok as TO. rewrite forallb_forall in TO. specialize (TO _ HT).
    apply andb_true_iff in TO as [Hk Hchk]. rewrite forallb_forall in Hchk. specialize (Hchk _ Hm).
    unfold clreg. rewrite (clit_blanks w v (mn ++ post) Hv), (clit_blanks w v (mn' ++ post) Hv).
    rewrite (clit_mn w mn post Hk Ha N Hp), (clit_mn w mn' post Hk Ha' N' Hp).
    pose proof (pre_ci_case (codes w) mn mn' Hs) as K1.
    pose proof (pre_ci_case (codes w) mn (map lower mn) (eq_sym (map_lower_idem mn))) as K2.
    destruct (pre_ci (codes w) mn) as [lo|] eqn:S1, (pre_ci (codes w) mn') as [lo'|] eqn:S2; try contradiction; [|reflexivity].
    destruct (pre_ci (codes w) (map lower mn)) as [lo2|]; [|contradiction].
    rewrite <- K2 in Hchk.
    destruct (pre_ci_suffix _ _ _ S1) as [p1 P1]. destruct (pre_ci_suffix _ _ _ S2) as [p2 P2].
    apply leftover_reg; try assumption.
    - rewrite P1 in Ha. apply alpha_suffix in Ha. exact Ha.
    - rewrite P2 in Ha'. apply alpha_suffix in Ha'. exact Ha'.
  Qed.

  Lemma clit_bare_case w v : In (codes w) [codes "ecall"; codes "ebreak"; codes "nop"]%string -> blanks v = true ->
    clit w (v ++ mn ++ post) = clit w (v ++ mn' ++ post).
  Proof.
    intros HT Hv. destruct CH as [Ha Ha' Hs Hm Hp Hc]. destruct mn_ne as [N N'].
    pose proof clits_bare_ok as TO. rewrite forallb_forall in TO. specialize (TO _ HT).
    apply andb_true_iff in TO as [Hk Hchk]. rewrite forallb_forall in Hchk. specialize (Hchk _ Hm).
    rewrite (clit_blanks w v (mn ++ post) Hv), (clit_blanks w v (mn' ++ post) Hv).
    rewrite (clit_mn w mn post Hk Ha N Hp), (clit_mn w mn' post Hk Ha' N' Hp).
    pose proof (pre_ci_case (codes w) mn mn' Hs) as K1.
    pose proof (pre_ci_case (codes w) mn (map lower mn) (eq_sym (map_lower_idem mn))) as K2.
    destruct (pre_ci (codes w) mn) as [lo|], (pre_ci (codes w) mn') as [lo'|]; try contradiction; [|reflexivity].
    destruct (pre_ci (codes w) (map lower mn)) as [lo2|]; [|contradiction].
    destruct lo2; [|discriminate]. destruct lo; [|discriminate]. destruct lo'; [reflexivity|discriminate].
  Qed.
End Case.
