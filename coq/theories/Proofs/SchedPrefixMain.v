(* SchedPrefixMain.v — the timing theorem of C07 (Props/C07Sched.v) for EVERY program: prefixes of the
   pipeline run of programs that do not terminate within the fuel, and runs that end in a fault. *)
From Coq Require Import Lia ZifyBool.
From ArchSim Require Import Model.Base Model.Mem Model.Cache Model.Fmt Model.RV Model.Single
  Model.RVSplit Model.Pipe Proofs.WordLemmas Proofs.C01Step Proofs.SplitExec Proofs.C02Split
  Proofs.PipeLaws Proofs.PipeShape Proofs.PipeInv Proofs.PipeInvBase Proofs.PipeInvStages
  Proofs.PipeInvStraight Proofs.PipeInvControl Proofs.PipeInvEcall Proofs.PipeRefine Proofs.SchedDefs Proofs.SchedRec
  Proofs.SchedStep Proofs.SchedInv Proofs.SchedLink Proofs.SchedMain Proofs.SchedPrefixFault Proofs.SchedPrefixLink
  Proofs.SchedPrefixRun.
Open Scope Z_scope.

Local Arguments Z.of_nat : simpl never.
Local Arguments Z.add : simpl never.
Local Arguments Z.sub : simpl never.

(** * The documented recurrence is prefix-stable: W_k depends on the events up to k only *)
Lemma sched_go_app evs : forall hist evs', exists hist',
  sched_go hist (evs ++ evs') = sched_go hist evs ++ sched_go hist' evs'.
Proof.
  induction evs as [|e tl IH]; intros hist evs'; cbn [app sched_go].
  - exists hist. reflexivity.
  - destruct (IH (row_next hist e :: hist) evs') as [h' E]. exists h'. rewrite E. reflexivity.
Qed.
Lemma sched_go_length evs : forall hist, length (sched_go hist evs) = length evs.
Proof. induction evs as [|e tl IH]; intros hist; cbn [sched_go length]; [reflexivity|rewrite IH; reflexivity]. Qed.

Theorem schedule_prefix_stable evs evs' :
  firstn (length evs) (schedule (evs ++ evs')) = schedule evs.
Proof.
  unfold schedule. destruct (sched_go_app evs [] evs') as [h' ->].
  rewrite <- (sched_go_length evs []) at 1. rewrite firstn_app, Nat.sub_diag, firstn_all. cbn [firstn]. apply app_nil_r.
Qed.

(** * The state at which the single-cycle run stopped stepping *)
Fixpoint single_last (fuel : nat) (s : st) : st :=
  match fuel with
  | O => s
  | S k => if single_done s then s
           else match single_pipeline_step s with
                | (_, Some _) => s
                | (s', None) => single_last k s'
                end
  end.

Lemma run_states_gen n : forall s,
  exists N, (N <= n)%nat /\
    (forall j, (j < N)%nat -> single_done (sigma j s) = false /\ snd (single_pipeline_step (sigma j s)) = None) /\
    single_trace n s = map (fun j => pc (sigma j s)) (seq 0 N) /\
    single_events n s = map (fun j => ev_of (sigma j s)) (seq 0 N) /\
    single_last n s = sigma N s /\
    match snd (single_run n s) with
    | Done => single_done (sigma N s) = true
    | Faulted f => single_done (sigma N s) = false /\
                   single_pipeline_step (sigma N s) = (fst (single_run n s), Some f)
    | OutOfFuel => N = n /\ single_done (sigma N s) = false
    end.
Proof.
  induction n as [|n IH]; intros s; cbn [single_run single_trace single_events single_last].
  - exists 0%nat. split; [lia|]. split; [intros j Hj; lia|]. do 3 (split; [reflexivity|]). cbn [sigma].
    destruct (single_done s) eqn:Hd; cbn [snd]; [reflexivity|split; reflexivity].
  - destruct (single_done s) eqn:Hd.
    + exists 0%nat. split; [lia|]. split; [intros j Hj; lia|]. do 3 (split; [reflexivity|]). exact Hd.
    + destruct (single_pipeline_step s) as [s1 [f|]] eqn:Hs.
      * exists 0%nat. split; [lia|]. split; [intros j Hj; lia|]. do 3 (split; [reflexivity|]).
        cbn [snd fst sigma]. split; [exact Hd|exact Hs].
      * destruct (IH s1) as (N & Hle & H1 & Ht & He & Hl & Hend).
        assert (Hn : nxt s = s1) by (unfold nxt; rewrite Hs; reflexivity).
        exists (S N). split; [lia|]. split.
        { intros [|j] Hj; [cbn [sigma]; rewrite Hs; split; [exact Hd|reflexivity]|].
          rewrite sigma_nxt, Hn. apply H1. lia. }
        rewrite Ht, He, Hl. cbn [seq map]. rewrite <- !seq_shift, !map_map.
        split; [f_equal; apply map_ext; intros j; cbn [sigma]; rewrite Hn; reflexivity|].
        split; [f_equal; apply map_ext; intros j; cbn [sigma]; rewrite Hn; reflexivity|].
        cbn [sigma]. rewrite Hn. split; [reflexivity|].
        destruct (single_run n s1) as [sf [|f|]]; cbn [snd fst] in *; [exact Hend|exact Hend|].
        destruct Hend as [-> Hnd]. split; [reflexivity|exact Hnd].
Qed.

(** * General facts about [pipe_retire_from] *)
Lemma retire_range c : forall t p aw, In aw (pipe_retire_from t c p) -> (t < snd aw <= t + c)%nat.
Proof.
  induction c as [|c IH]; intros t p aw H; cbn [pipe_retire_from] in H; [contradiction|].
  destruct (pipe_done p); [contradiction|]. destruct (pipe_step p) as [p1 [f|]]; [contradiction|].
  apply in_app_or in H. destruct H as [H|H].
  - destruct (lat_at (lat p1) 4); [|contradiction]. destruct H as [<-|[]]. cbn [snd]. lia.
  - apply IH in H. lia.
Qed.

Lemma filter_none {A} (f : A -> bool) l : (forall x, In x l -> f x = false) -> filter f l = [].
Proof.
  induction l as [|a l IH]; intros H; cbn [filter]; [reflexivity|].
  rewrite (H a (or_introl eq_refl)). apply IH. intros x Hx. apply H. right. exact Hx.
Qed.

Lemma retire_prefix c : forall C t p, (c <= C)%nat ->
  pipe_retire_from t c p = filter (fun aw => (snd aw <=? t + c)%nat) (pipe_retire_from t C p).
Proof.
  induction c as [|c IH]; intros C t p Hc.
  - cbn [pipe_retire_from]. symmetry. apply filter_none. intros aw H. apply retire_range in H. lia.
  - destruct C as [|C]; [lia|]. cbn [pipe_retire_from].
    destruct (pipe_done p); [reflexivity|]. destruct (pipe_step p) as [p1 [f|]]; [reflexivity|].
    rewrite filter_app, (IH C (S t) p1) by lia. f_equal.
    + destruct (lat_at (lat p1) 4); [|reflexivity]. cbn [some_ret filter snd]. replace (S t <=? t + S c)%nat with true by lia. reflexivity.
    + apply filter_ext. intros aw. f_equal. lia.
Qed.

Lemma retire_done C : forall c t p p', pipe_run C p = (p', PDone) -> (C <= c)%nat ->
  pipe_retire_from t c p = pipe_retire_from t C p.
Proof.
  induction C as [|C IH]; intros c t p p' Hr Hc; cbn [pipe_run] in Hr.
  - destruct (pipe_done p) eqn:Hd; [|discriminate Hr]. destruct c; cbn [pipe_retire_from]; [reflexivity|rewrite Hd; reflexivity].
  - destruct c as [|c]; [lia|]. cbn [pipe_retire_from]. destruct (pipe_done p); [reflexivity|].
    destruct (pipe_step p) as [p1 [f|]]; [reflexivity|]. f_equal. apply (IH c (S t) p1 p' Hr). lia.
Qed.

Lemma fault_exact c : forall t p pf f, pipe_run c p = (pf, PFaulted f) ->
  let m := pipe_run_steps c p in
  pipe_run m p = (pf, PFaulted f) /\ pipe_retire_from t m p = pipe_retire_from t c p /\ pipe_run_steps m p = m.
Proof.
  induction c as [|c IH]; intros t p pf f Hr; cbn [pipe_run pipe_run_steps pipe_retire_from] in *.
  - destruct (pipe_done p); discriminate Hr.
  - destruct (pipe_done p) eqn:Hd; [discriminate Hr|].
    destruct (pipe_step p) as [p1 [g|]] eqn:Hs.
    + cbn [pipe_run pipe_run_steps pipe_retire_from]. rewrite Hd, Hs. repeat split. exact Hr.
    + destruct (IH (S t) p1 pf f Hr) as (A & B & C). cbv zeta in *.
      cbn [pipe_run pipe_run_steps pipe_retire_from]. rewrite Hd, Hs, A, B, C. repeat split.
Qed.

Lemma trace_of_retire c : forall t p, pipe_trace c p = map fst (pipe_retire_from t c p).
Proof.
  induction c as [|c IH]; intros t p; cbn [pipe_trace pipe_retire_from]; [reflexivity|].
  destruct (pipe_done p); [reflexivity|]. destruct (pipe_step p) as [p1 [f|]]; [reflexivity|].
  rewrite map_app, (IH (S t) p1). f_equal. destruct (lat_at (lat p1) 4); reflexivity.
Qed.

(** * The cycle at which the pipeline raises the fault of the single-cycle run *)
(* the schedule extended by the faulting instruction gives its write-back cycle w; an ecall raises
   in its execute cycle w - 2, a load / store in its memory cycle w - 1 *)
Definition fault_cycle (n : nat) (s : st) : nat :=
  let e := ev_of (single_last n s) in
  let w := last (schedule (single_events n s ++ [e])) 0%nat in
  if ev_ecall e then (w - 2)%nat else (w - 1)%nat.

Section Thm.
Variable P : list instr.
Hypothesis Hsup : Forall (fun i => supported i = true) P.
Variable s : st.
Hypothesis W : wf s.
Hypothesis HP : prog (im s) = P.
Variable N : nat.
Hypothesis H1 : forall j, (j < N)%nat ->
  single_done (sigma j s) = false /\ snd (single_pipeline_step (sigma j s)) = None.

Lemma sig_wf j : (j <= N)%nat -> wf (sigma j s) /\ prog (im (sigma j s)) = P.
Proof.
  induction j as [|j IH]; intros Hj; [split; assumption|].
  destruct (IH ltac:(lia)) as [Wj HPj]. destruct (H1 j ltac:(lia)) as [Hnd _].
  destruct (step_refines (sigma j s) Wj Hnd) as (_ & _ & Wn & Hpn).
  rewrite (sigma_S s N H1). unfold nxt. split; [exact Wn|congruence].
Qed.

Definition sched_of : list (Z * nat) := map (fun j => (pc (sigma j s), (X (ev s) j + 2)%nat)) (seq 0 N).

Variable BN : bool.
Hypothesis HNb : BN = true ->
  single_done (sigma N s) = false /\ snd (single_pipeline_step (sigma N s)) <> None.

Lemma prefix_core c : exitc s = None -> inr N BN 0 ->
  (BN = false -> (6 + c <= N)%nat) -> (BN = true -> (c < fault_step s N BN)%nat) ->
  pipe_retire c (pipe_init s true) = filter (fun aw => (snd aw <=? c)%nat) sched_of /\
  snd (pipe_run c (pipe_init s true)) = POutOfFuel /\ pipe_run_steps c (pipe_init s true) = c.
Proof.
  intros Hex Hr0 Hb6 Hbf.
  pose proof (J'_init P Hsup s N H1 BN HNb W HP Hex Hr0) as HJ.
  destruct (run_nofault P Hsup s N H1 BN HNb c 0%nat (pipe_init s true) 0%nat HJ Hr0
              ltac:(intros E; specialize (Hb6 E); lia) ltac:(intros E; specialize (Hbf E); lia))
    as (p' & m & Hrun & Hsteps & Hret & HJ' & _ & Hle).
  cbn [Nat.add] in *. split; [|rewrite Hrun; split; [reflexivity|exact Hsteps]].
  unfold pipe_retire. rewrite Hret. unfold sched_of.
  rewrite (filter_sched (fun j => pc (sigma j s)) (fun j => (X (ev s) j + 2)%nat) (fun w => (w <=? c)%nat) m N Hle).
  - apply map_ext_in. intros j Hj. apply in_seq in Hj. unfold retire_m.
    rewrite (X_evm s N H1 BN j) by lia. reflexivity.
  - intros j Hj. destruct (Nat.ltb_spec j m) as [Hlt|Hge].
    + pose proof (J'_retired P s N BN c p' m HJ' ltac:(lia)) as Hm.
      rewrite (X_evm s N H1 BN (m - 1)) in Hm by lia.
      pose proof (X_mono (ev s) j (m - 1) ltac:(lia)). apply Nat.leb_le. lia.
    + assert (HmNT : (m < NT N BN)%nat) by (unfold NT; lia).
      pose proof (J'_bound P s N BN c p' m HJ' HmNT) as Hm. rewrite (X_evm s N H1 BN m) in Hm by lia.
      pose proof (X_mono (ev s) m j ltac:(lia)). apply Nat.leb_gt. lia.
Qed.

End Thm.

(** * Runs that end in a fault *)
Section Fault.
Variable P : list instr.
Hypothesis Hsup : Forall (fun i => supported i = true) P.
Variable s : st.
Hypothesis W : wf s.
Hypothesis HP : prog (im s) = P.
Variable N : nat.
Hypothesis H1 : forall j, (j < N)%nat ->
  single_done (sigma j s) = false /\ snd (single_pipeline_step (sigma j s)) = None.
Variables (sf : st) (f : fault).
Hypothesis HNd : single_done (sigma N s) = false.
Hypothesis HNf : single_pipeline_step (sigma N s) = (sf, Some f).

Lemma HNb_true : true = true ->
  single_done (sigma N s) = false /\ snd (single_pipeline_step (sigma N s)) <> None.
Proof. intros _. split; [exact HNd|rewrite HNf; discriminate]. Qed.

Notation cf := (fault_step s N true).

Lemma fault_core c0 pf f' : pipe_run c0 (pipe_init s true) = (pf, PFaulted f') ->
  f' = f /\ pipe_run cf (pipe_init s true) = (pf, PFaulted f) /\ pipe_run_steps cf (pipe_init s true) = cf /\
  icount (pst pf) + 1 = icount sf /\
  exists m, (m = N \/ S m = N) /\
    pipe_retire cf (pipe_init s true) = map (fun j => (pc (sigma j s), (X (ev s) j + 2)%nat)) (seq 0 m) /\
    pipe_retire c0 (pipe_init s true) = pipe_retire cf (pipe_init s true) /\
    pipe_retire cf (pipe_init s true) = filter (fun aw => (snd aw <? cf)%nat) (sched_of s N) /\
    (cf <= X (ev s) m + 2)%nat /\ ((0 < m)%nat -> (X (ev s) (m - 1) + 2 < cf)%nat).
Proof.
  intros Hrun.
  assert (Hex : exitc s = None).
  { destruct N as [|N']; [cbn [sigma] in HNd|destruct (H1 0%nat ltac:(lia)) as [HNd0 _]; cbn [sigma] in HNd0];
      unfold single_done in *; destruct (exitc s); try reflexivity; discriminate. }
  assert (Hr0 : inr N true 0) by (unfold inr; lia).
  pose proof (J'_init P Hsup s N H1 true HNb_true W HP Hex Hr0) as HJ.
  destruct (run_fault P Hsup s N H1 true HNb_true c0 eq_refl 0%nat _ 0%nat pf f' HJ Hr0 Hrun)
    as (m & Hret & HmN & Hsteps & Hic & (tm & Hs') & Hb1 & Hb2).
  cbn [Nat.add] in *. rewrite HNf in Hs'. injection Hs' as _ <-.
  destruct (fault_exact c0 0%nat _ pf f Hrun) as (A & B & C). cbv zeta in *. rewrite Hsteps in A, B, C.
  assert (Hm : (m <= N)%nat) by (destruct HmN; lia).
  rewrite (X_evm s N H1 true m Hm) in Hb1.
  assert (Hb2' : (0 < m)%nat -> (X (ev s) (m - 1) + 2 < cf)%nat).
  { intros H0. specialize (Hb2 H0). rewrite (X_evm s N H1 true (m - 1)) in Hb2 by lia. exact Hb2. }
  split; [reflexivity|]. split; [exact A|]. split; [exact C|].
  split.
  { destruct (sig_wf P s W HP N H1 N ltac:(lia)) as [WN HPN].
    pose proof HNd as Hd. unfold single_done, has_instr in Hd. destruct (exitc (sigma N s)); [discriminate Hd|].
    destruct (instr_at (prog (im (sigma N s))) (pc (sigma N s))) as [i|] eqn:Hi; [|discriminate Hd].
    assert (Hsf : sf = nxt (sigma N s)) by (unfold nxt; rewrite HNf; reflexivity).
    rewrite Hic, Hsf. symmetry. apply (icount_nxt _ i WN Hi).
    apply (sup_at P Hsup (pc (sigma N s))). rewrite <- HPN. exact Hi. }
  exists m. split; [exact HmN|].
  assert (Hlist : pipe_retire cf (pipe_init s true) = map (fun j => (pc (sigma j s), (X (ev s) j + 2)%nat)) (seq 0 m)).
  { unfold pipe_retire. rewrite B, Hret. apply map_ext_in. intros j Hj. apply in_seq in Hj. unfold retire_m.
    rewrite (X_evm s N H1 true j) by lia. reflexivity. }
  split; [exact Hlist|]. split; [unfold pipe_retire; symmetry; exact B|]. split; [|split; assumption].
  rewrite Hlist. unfold sched_of. symmetry.
  apply (filter_sched (fun j => pc (sigma j s)) (fun j => (X (ev s) j + 2)%nat) (fun w => (w <? cf)%nat) m N Hm).
  intros j Hj. destruct (Nat.ltb_spec j m) as [Hlt|Hge].
  - specialize (Hb2' ltac:(lia)). pose proof (X_mono (ev s) j (m - 1) ltac:(lia)). apply Nat.ltb_lt. lia.
  - pose proof (X_mono (ev s) m j ltac:(lia)). apply Nat.ltb_ge. lia.
Qed.

(* the fault cycle computed from the event lists *)
Lemma fault_cycle_step n : single_events n s = map (fun j => ev_of (sigma j s)) (seq 0 N) ->
  single_last n s = sigma N s -> fault_cycle n s = cf.
Proof.
  intros He Hl. unfold fault_cycle, fault_step. rewrite Hl, He.
  change (fun j => ev_of (sigma j s)) with (ev s). change (ev_of (sigma N s)) with (ev s N).
  replace (map (ev s) (seq 0 N) ++ [ev s N]) with (map (ev s) (seq 0 (S N))) by (rewrite seq_S, map_app; reflexivity).
  rewrite schedule_xsched, xsched_X, map_map, (last_map_seq (fun j => (X (ev s) j + 2)%nat) N).
  rewrite (X_evm s N H1 true N) by lia. unfold ec. destruct (ev_ecall (ev s N)); lia.
Qed.

End Fault.

(** * The theorems *)
Definition sched_list (n : nat) (s : st) : list (Z * nat) :=
  combine (single_trace n s) (schedule (single_events n s)).

Lemma sched_list_of n s N : single_trace n s = map (fun j => pc (sigma j s)) (seq 0 N) ->
  single_events n s = map (fun j => ev_of (sigma j s)) (seq 0 N) -> sched_list n s = sched_of s N.
Proof. intros Ht He. unfold sched_list, sched_of. rewrite (schedule_events n s N He), Ht, combine_map. reflexivity. Qed.

Theorem pipe_schedule_prefix_lem P s n c :
  Forall (fun i => supported i = true) P -> wf s -> prog (im s) = P ->
  match snd (single_run n s) with
  | Done => pipe_retire c (pipe_init s true) = filter (fun aw => (snd aw <=? c)%nat) (sched_list n s)
  | OutOfFuel => (c + 6 <= n)%nat ->
      pipe_retire c (pipe_init s true) = filter (fun aw => (snd aw <=? c)%nat) (sched_list n s) /\
      snd (pipe_run c (pipe_init s true)) = POutOfFuel /\ pipe_run_steps c (pipe_init s true) = c
  | Faulted f => (c < fault_cycle n s)%nat ->
      pipe_retire c (pipe_init s true) = filter (fun aw => (snd aw <=? c)%nat) (sched_list n s) /\
      snd (pipe_run c (pipe_init s true)) = POutOfFuel /\ pipe_run_steps c (pipe_init s true) = c
  end.
Proof.
  intros HS W HP. destruct (run_states_gen n s) as (N & HNn & H1 & Ht & He & Hl & Hend).
  rewrite (sched_list_of n s N Ht He).
  destruct (single_run n s) as [s' [|f|]] eqn:Hrun; cbn [snd fst] in *.
  - (* the run terminates: the full theorem and the prefix property of [pipe_retire] *)
    destruct (pipe_schedule_lem P s n s' HS W HP Hrun) as (C & p & Hr & Hret & _).
    fold (sched_list n s) in Hret. rewrite (sched_list_of n s N Ht He) in Hret.
    destruct (Nat.le_gt_cases c C) as [Hc|Hc].
    + unfold pipe_retire in *. rewrite (retire_prefix c C 0%nat _ Hc), Hret. reflexivity.
    + unfold pipe_retire in *. rewrite (retire_done C c 0%nat _ p Hr ltac:(lia)), Hret.
      symmetry. apply filter_all. intros aw Hin. rewrite <- Hret in Hin. apply retire_range in Hin. apply Nat.leb_le. lia.
  - (* a fault at instruction N: before its cycle *)
    destruct Hend as [HNd HNf]. intros Hc.
    rewrite (fault_cycle_step s N H1 n He Hl) in Hc.
    assert (Hex : exitc s = None).
    { destruct N as [|N']; [cbn [sigma] in HNd|destruct (H1 0%nat ltac:(lia)) as [HNd0 _]; cbn [sigma] in HNd0];
        unfold single_done in *; destruct (exitc s); try reflexivity; discriminate. }
    apply (prefix_core P HS s W HP N H1 true (HNb_true s N s' f HNd HNf) c Hex);
      [unfold inr; lia|intros E; discriminate E|intros _; exact Hc].
  - (* the run goes on beyond the fuel *)
    destruct Hend as [-> HNd]. intros Hc.
    assert (Hex : exitc s = None).
    { destruct (H1 0%nat ltac:(lia)) as [HNd0 _]. cbn [sigma] in HNd0.
      unfold single_done in *; destruct (exitc s); try reflexivity; discriminate. }
    apply (prefix_core P HS s W HP n H1 false ltac:(intros E; discriminate E) c Hex);
      [unfold inr; lia|intros _; lia|intros E; discriminate E].
Qed.
Print Assumptions pipe_schedule_prefix_lem.

Theorem pipe_schedule_fault_lem P s n s' f :
  Forall (fun i => supported i = true) P -> wf s -> prog (im s) = P ->
  single_run n s = (s', Faulted f) ->
  let cf := fault_cycle n s in
  exists p, pipe_run cf (pipe_init s true) = (p, PFaulted f) /\ pipe_run_steps cf (pipe_init s true) = cf /\
    pipe_retire cf (pipe_init s true) = filter (fun aw => (snd aw <? cf)%nat) (sched_list n s) /\
    icount (pst p) + 1 = icount s' /\
    (forall c q g, pipe_run c (pipe_init s true) = (q, PFaulted g) ->
       g = f /\ q = p /\ pipe_retire c (pipe_init s true) = pipe_retire cf (pipe_init s true)).
Proof.
  intros HS W HP Hrun. destruct (run_states_gen n s) as (N & HNn & H1 & Ht & He & Hl & Hend).
  rewrite Hrun in Hend. cbn [snd fst] in Hend. destruct Hend as [HNd HNf]. cbv zeta.
  rewrite (fault_cycle_step s N H1 n He Hl), (sched_list_of n s N Ht He).
  pose proof (pipe_refines_single_lem P s n HS W HP) as Href. rewrite Hrun in Href.
  destruct Href as (c0 & p & _ & Hp & _).
  destruct (fault_core P HS s W HP N H1 s' f HNd HNf c0 p f Hp) as (_ & A & B & Hic & m & _ & _ & _ & Hfil & _).
  exists p. split; [exact A|]. split; [exact B|]. split; [exact Hfil|]. split; [exact Hic|].
  intros c q g Hq. destruct (fault_core P HS s W HP N H1 s' f HNd HNf c q g Hq) as (Eg & A' & _ & _ & m' & _ & _ & Hsame & _).
  split; [exact Eg|]. split; [|exact Hsame]. rewrite A in A'. congruence.
Qed.
Print Assumptions pipe_schedule_fault_lem.
