(* Proofs/Lift2Fault.v — the state of the cached pipeline at a FAULTING cycle: which stage raised,
   and generic frame facts about faulting steps.  Used by Proofs/Lift2Run.v to show that at a fault
   (cache rejection, address error, unknown ecall, string-scan error) the five-stage pipeline and
   the single-cycle machine hold the same registers, output and data memory system. *)
From Coq Require Import Lia ZifyBool.
From ArchSim Require Import Spec.RefCache.
From ArchSim Require Import Model.Base Model.Mem Model.Cache Model.Fmt Model.RV Model.Single
  Model.RVSplit Model.Pipe
  Proofs.WordLemmas Proofs.C01Mem Proofs.C01Step Proofs.SplitExec Proofs.C02Split Proofs.PipeLaws Proofs.PipeShape
  Proofs.PipeInv Proofs.PipeInvBase Proofs.PipeInvStages
  Proofs.LiftSim Proofs.LiftSingle Proofs.LiftPipe Proofs.LiftPipeRun Proofs.LiftRefineBase Proofs.LiftRefine
  Proofs.AcctRead Proofs.AcctExec Proofs.AcctStep Proofs.AcctRefine.
Open Scope Z_scope.
Local Arguments Z.mul : simpl never.
Local Arguments Z.add : simpl never.
Local Arguments Z.sub : simpl never.
Local Arguments Z.of_nat : simpl never.
Local Arguments Z.to_nat : simpl never.

(** * The faulting cycle, stage by stage *)
Definition fault_stage (qc qc' : pstate) (u1 : st) : Prop :=
  (exists n4 e, wb_on (lat_at (regs_for qc 4) 3) u1 = (n4, pst qc', Some e)) \/
  (exists n4 u2, wb_on (lat_at (regs_for qc 4) 3) u1 = (n4, u2, None) /\
     ((exists n2 e, ex_on (lat_at (regs_for qc 2) 1) (lat_at (regs_for qc 2) 2) (lat_at (regs_for qc 2) 3) u2
                    = (n2, pst qc', Some e)) \/
      (exists n2 u3, ex_on (lat_at (regs_for qc 2) 1) (lat_at (regs_for qc 2) 2) (lat_at (regs_for qc 2) 3) u2
                     = (n2, u3, None) /\
         exists n3 e, mem_on (mem_input qc) u3 = (n3, pst qc', Some e)))).

Lemma fault_decomp qc qc' f : pipe_step qc = (qc', Some f) ->
  exists u1, ms u1 = ms (pst qc) /\ regs u1 = regs (pst qc) /\ out u1 = out (pst qc) /\ fault_stage qc qc' u1.
Proof.
  intros H. rewrite pipe_step_eq in H.
  destruct (run_stages (bump qc)) as [[next s] [g|]] eqn:Hrs; [|discriminate]. injection H as <- _.
  cbn [faulted pst]. unfold run_stages in Hrs. change (regs_for (bump qc)) with (regs_for qc) in Hrs.
  destruct (match stalled (bump qc) with Some _ => (lat_at (lat (bump qc)) 0, pst (bump qc))
            | None => stage_if (pst (bump qc)) end) as [n0 u1] eqn:Hif.
  assert (H1 : ms u1 = ms (pst qc) /\ regs u1 = regs (pst qc) /\ out u1 = out (pst qc)).
  { destruct (stalled (bump qc)).
    - injection Hif as _ <-. repeat split.
    - apply stage_if_law in Hif. destruct Hif as (Hr & Hm & Ho & _). repeat split; assumption. }
  exists u1. destruct H1 as (A & B & C). split; [exact A|]. split; [exact B|]. split; [exact C|].
  unfold fault_stage.
  rewrite stage_wb_on in Hrs. destruct (wb_on (lat_at (regs_for qc 4) 3) u1) as [[n4 u2] [e|]] eqn:Hwb.
  { injection Hrs as _ <- _. left. exists n4, e. reflexivity. }
  right. exists n4, u2. split; [reflexivity|].
  rewrite stage_ex_on in Hrs.
  destruct (ex_on (lat_at (regs_for qc 2) 1) (lat_at (regs_for qc 2) 2) (lat_at (regs_for qc 2) 3) u2)
    as [[n2 u3] [e|]] eqn:Hex.
  { injection Hrs as _ <- _. left. exists n2, e. reflexivity. }
  right. exists n2, u3. split; [reflexivity|].
  rewrite stage_mem_on in Hrs. fold (mem_input qc) in Hrs.
  destruct (mem_on (mem_input qc) u3) as [[n3 u4] [e|]] eqn:Hmem; [|discriminate].
  injection Hrs as _ <- _. exists n3, e. reflexivity.
Qed.

(** * Faulting [behavior] leaves registers and output alone *)
Lemma behavior_fault_frame i s s' e : behavior i s = (s', Some e) -> regs s' = regs s /\ out s' = out s.
Proof.
  intros H. destruct i; cbn [behavior] in H; try discriminate H;
    try (injection H as <- _; split; reflexivity).
  - destruct (st_read s (load_bits o) (rget s rs1 + imm) true) as [[v|e0] s1] eqn:Hr; [discriminate|].
    injection H as <- _. apply st_read_law in Hr. destruct Hr as ((_ & Hrg & _ & Ho & _) & _). split; assumption.
  - destruct (process_ecall s) as [[[t|c]|e0] s1] eqn:Hp; try discriminate. injection H as <- _.
    apply process_ecall_law in Hp. destruct Hp as ((_ & Hrg & _ & Ho & _) & _). split; assumption.
  - destruct (st_write s (store_bits o) _ _ false) as [[e0|] s1] eqn:Hw; [|discriminate].
    injection H as <- _. apply st_write_law in Hw. destruct Hw as ((_ & Hrg & _ & Ho & _) & _). split; assumption.
  - destruct (b_cond o (rget s rs1) (rget s rs2)); discriminate.
Qed.

(* the flat single-cycle step that faults *)
Lemma flat_fault_frame t t1 f : wf t -> single_done t = false -> single_pipeline_step t = (t1, Some f) ->
  regs t1 = regs t /\ out t1 = out t.
Proof.
  intros W Hd H.
  assert (Hi : exists i, instr_at (prog (im t)) (pc t) = Some i).
  { unfold single_done, has_instr in Hd. destruct (exitc t); [discriminate|].
    destruct (instr_at (prog (im t)) (pc t)) as [i|]; [exists i; reflexivity | discriminate]. }
  destruct Hi as [i Hi]. rewrite (sstep_eq t i W Hi) in H.
  destruct (behavior i (pre t)) as [s2 [e|]] eqn:Hb; [|discriminate]. injection H as <- _.
  apply behavior_fault_frame in Hb. exact Hb.
Qed.

(* the cached single-cycle step that faults *)
Lemma cached_fault_frame sc t s1 f : sim sc t -> wf t -> single_done t = false ->
  single_pipeline_step sc = (s1, Some f) -> regs s1 = regs sc /\ out s1 = out sc.
Proof.
  intros S W Hd H. destruct (sim_single_step sc t s1 _ S H) as (t1 & of' & Ht & _ & Hres).
  destruct (instr_at (prog (im sc)) (pc sc)) as [i|]; [|destruct Hres as (E & _); discriminate].
  destruct (rejects (ms_cfg (ms sc)) i sc) as [e|].
  - destruct Hres as [_ S1]. rewrite (sm_regs _ _ S1), (sm_out _ _ S1), (sm_regs _ _ S), (sm_out _ _ S). split; reflexivity.
  - destruct Hres as [Eo S1]. destruct of' as [ff|]; [|discriminate].
    destruct (flat_fault_frame t t1 ff W Hd Ht) as [Hr Ho].
    rewrite (sm_regs _ _ S1), (sm_out _ _ S1), Hr, Ho, (sm_regs _ _ S), (sm_out _ _ S). split; reflexivity.
Qed.

(* the flat single-cycle step of a load or store does not print *)
Lemma flat_ldst_out t i : wf t -> instr_at (prog (im t)) (pc t) = Some i -> is_ecall i = false ->
  access_of i t <> None -> out (nxt t) = out t.
Proof.
  intros W Hi _ Ha. unfold nxt. rewrite (sstep_eq t i W Hi).
  destruct i; try (exfalso; apply Ha; reflexivity); cbn [behavior].
  - destruct (st_read (pre t) (load_bits o) (rget (pre t) rs1 + imm) true) as [[v|e] s1] eqn:Hr;
      apply st_read_law in Hr; destruct Hr as ((_ & _ & _ & Ho & _) & _); cbn [fst].
    + cbn [with_pc out]. unfold rset. destruct (_ && _); cbn [out with_regs]; exact Ho.
    + exact Ho.
  - destruct (st_write (pre t) (store_bits o) _ _ false) as [[e|] s1] eqn:Hw;
      apply st_write_law in Hw; destruct Hw as ((_ & _ & _ & Ho & _) & _); cbn [fst]; exact Ho.
Qed.
