(* SchedOffFullMu.v — timing with hazard detection OFF, all supported programs, part 2: where the
   next instruction stands when a slot retires.  Behind a redirecting slot the pipeline is empty
   (mu4 = 3 after the step); an ecall directly behind a slot that does not redirect is draining in
   EX (mu4 = 2: two more cycles in EX, as in the documented recurrence); any other successor is in
   latch 3 (mu4 = 0). *)
From Coq Require Import Lia ZifyBool.
From ArchSim Require Import Model.Base Model.Mem Model.Cache Model.Fmt Model.RV Model.Single
  Model.RVSplit Model.Pipe Proofs.WordLemmas Proofs.C01Step Proofs.SplitExec Proofs.C02Split
  Proofs.PipeLaws Proofs.PipeShape Proofs.PipeInv Proofs.PipeInvBase Proofs.PipeInvStages
  Proofs.PipeInvStraight Proofs.PipeInvControl Proofs.PipeInvEcall Proofs.FlagOffSim
  Proofs.FlagOffDwb Proofs.FlagOffInv Proofs.FlagOffStraight Proofs.FlagOffControl
  Proofs.FlagOffEcallInv Proofs.FlagOffEcallNormal
  Proofs.FlagOffEcallStall Proofs.FlagOffEcallSim Proofs.SchedDefs Proofs.SchedStep Proofs.SchedOffFullStep.
Open Scope Z_scope.

Local Arguments Z.add : simpl never.
Local Arguments Z.sub : simpl never.
Local Arguments Z.of_nat : simpl never.

(* an ecall with a slot right in front of it (in latch 3) has not fired: it is draining *)
Definition Qd (p : pstate) (l2 l3 : latch) : Prop :=
  nonempty l3 = true -> is_ec l2 = true -> stalled p = Some (2, 2).

Section Mu.
Variable P : list instr.

Lemma Qd_step p p' l0 l1 l2 l3 l4 m0 m1 m2 m3 m4 : Shape no_icache p -> prog (im (pst p)) = P ->
  lat p = [l0; l1; l2; l3; l4] -> hazards p = false -> nost1 p ->
  flush_of (option_map wb_slot l3) = None -> pipe_step p = (p', None) ->
  lat p' = [m0; m1; m2; m3; m4] -> Qd p' m2 m3.
Proof.
  intros Sh HPp Hl Hz Hns Hf4 Hps Hl' B3 Bec.
  destruct (stalled p) as [[k d]|] eqn:Hst.
  - destruct (shape_stalled no_icache p Sh) as [[E _]|(k' & d' & sv & E & _ & Hk & _)]; rewrite Hst in E; [discriminate|].
    injection E as <- <-. destruct Hk as [-> | ->]; [exfalso; exact (Hns d Hst)|].
    destruct (off_stall2 P p p' _ _ _ _ _ d Sh HPp Hl Hz Hst Hf4 Hps)
      as (_ & _ & _ & n1 & n2 & n4 & _ & _ & _ & [(_ & _ & Hl2 & _)|(_ & Hl2 & _)]);
      rewrite Hl' in Hl2; injection Hl2 as -> -> -> -> ->; discriminate B3.
  - destruct (off_normal P p p' _ _ _ _ _ Sh HPp Hl Hz Hst Hf4 Hps)
      as (n0 & n1 & n2 & n3 & n4 & E0 & E1 & E2 & E3 & Ec &
          [(Hf3 & Hl2 & Hs')|[(_ & Hf2 & E2n & _ & Hl2 & Hs')|(_ & _ & Hl2 & Hs' & _)]]);
      rewrite Hl' in Hl2; injection Hl2 as -> -> -> -> ->.
    + discriminate Bec.
    + subst l2. rewrite E3 in B3. discriminate B3.
    + rewrite Hs'. unfold busyf. rewrite <- is_ec_ecall_in, <- Ec, Bec, <- E3, B3. reflexivity.
Qed.

Lemma mu4_step_some p p' l0 l1 l2 x3 l4 : Shape no_icache p -> prog (im (pst p)) = P ->
  lat p = [l0; l1; l2; Some x3; l4] -> hazards p = false -> nost1 p ->
  flush_of (Some (wb_slot x3)) = None -> PatE p l0 l1 l2 (Some x3) -> Qd p l2 (Some x3) ->
  pipe_step p = (p', None) -> exitc (pst p') = None -> pipe_done p' = false ->
  mu4 p' = (if has_flush (Some x3) then 3 else if is_ec l2 then 2 else 0) /\
  (has_flush (Some x3) = false -> nonempty l2 = true).
Proof.
  intros Sh HPp Hl Hz Hns Hf4 (_ & Hfl & Hm) HQ Hps Hx' Hd'. cbv zeta in Hm.
  destruct (shape_at p _ _ _ _ _ Sh Hl) as (_ & _ & K2 & _).
  assert (Hdone : forall n0 n1 n2 n3 n4, lat p' = [n0; n1; n2; n3; n4] ->
            nonempty n3 = false -> nonempty n2 = false -> nonempty n1 = false -> nonempty n0 = false ->
            has_instr (im (pst p')) (pc (pst p')) = true).
  { intros n0 n1 n2 n3 n4 Hl' E3 E2 E1 E0. unfold pipe_done, pipe_empty in Hd'. rewrite Hx', Hl' in Hd'. lat5h Hd'.
    rewrite E3, E2, E1, E0 in Hd'. cbn [orb negb andb] in Hd'. destruct (has_instr (im (pst p')) (pc (pst p'))); [reflexivity|discriminate Hd']. }
  destruct (stalled p) as [[k d]|] eqn:Hst.
  - destruct (shape_stalled no_icache p Sh) as [[E _]|(k' & d' & sv & E & _ & Hk & _)]; rewrite Hst in E; [discriminate|].
    injection E as <- <-. destruct Hk as [-> | ->]; [exfalso; exact (Hns d Hst)|].
    destruct (off_stall2 P p p' _ _ _ _ _ d Sh HPp Hl Hz Hst Hf4 Hps)
      as (B2 & Bec & [[-> _]|[_ H3]] & n1 & n2 & n4 & _ & Bn2 & _ & Hcase); [|discriminate H3].
    assert (Hnf : has_flush (Some x3) = false).
    { unfold has_flush. destruct (flush_of (Some x3)) eqn:F; [|reflexivity].
      destruct (Hfl ltac:(discriminate)) as (E & _). rewrite E in B2. discriminate B2. }
    rewrite Hnf, Bec. split; [|intros _; exact B2].
    destruct Hcase as [(_ & Hd1 & _)|(_ & Hl' & Hs')]; [discriminate Hd1|].
    rewrite (mu4_lat p' _ _ _ _ _ Hl'), Hs'. cbn [nonempty]. rewrite Bn2. reflexivity.
  - assert (Hne : is_ec l2 = false).
    { destruct (is_ec l2) eqn:E; [|reflexivity]. rewrite (HQ eq_refl E) in Hst. discriminate Hst. }
    rewrite Hne.
    destruct (off_normal P p p' _ _ _ _ _ Sh HPp Hl Hz Hst Hf4 Hps)
      as (n0 & n1 & n2 & n3 & n4 & E0 & E1 & E2 & E3 & Ec &
          [(Hf3 & Hl' & Hs')|[(_ & _ & _ & H3 & _)|(_ & _ & Hl' & Hs' & Ef)]]); [|discriminate H3|].
    + assert (B3 : nonempty n3 = true) by (destruct n3; [reflexivity|exfalso; apply Hf3; reflexivity]).
      assert (Hnf : has_flush (Some x3) = false).
      { unfold has_flush. destruct (flush_of (Some x3)) eqn:F; [|reflexivity].
        destruct (Hfl ltac:(discriminate)) as (E & _). rewrite E in E3. rewrite E3 in B3. discriminate B3. }
      rewrite Hnf, (mu4_lat p' _ _ _ _ _ Hl'), B3. split; [reflexivity|]. intros _. rewrite <- E3. exact B3.
    + rewrite (mu4_lat p' _ _ _ _ _ Hl'). unfold dcount. rewrite Hs'. unfold has_flush.
      destruct (flush_of (Some x3)) as [a|] eqn:F3.
      * destruct (Hfl ltac:(discriminate)) as (-> & -> & ->). cbn [nonempty] in *.
        split; [|intros H; discriminate H].
        rewrite E3, E2, E1. unfold busyf. cbn [ecall_in andb].
        destruct (nonempty n0) eqn:B0; [reflexivity|exfalso].
        pose proof (Hdone _ _ _ _ _ Hl' E3 E2 E1 B0) as H. rewrite (Ef eq_refl) in H. discriminate H.
      * assert (Hf2 : flush_of l2 = None).
        { destruct l2 as [x2|]; [|reflexivity]. cbn [flush_of is_ec] in *.
          destruct K2 as (_ & _ & Hfx & Hex & _). rewrite Hfx. unfold wb_flush.
          destruct (sl_exit x2) eqn:Ex; [|reflexivity]. rewrite (Hex ltac:(discriminate)) in Hne. discriminate Hne. }
        specialize (Hm eq_refl Hf2). cbn [nonempty] in Hm.
        destruct (nonempty l2) eqn:B2; [rewrite E3; split; reflexivity|exfalso].
        destruct (nonempty l1) eqn:B1, (nonempty l0) eqn:B0, (has_instr (im (pst p)) (pc (pst p))) eqn:Bf;
          cbn in Hm; try discriminate Hm.
        pose proof (Hdone _ _ _ _ _ Hl' E3 E2 E1 E0) as H. rewrite (Ef E0) in H. discriminate H.
Qed.

End Mu.
